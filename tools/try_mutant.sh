#!/bin/bash
# try_mutant.sh <patch.diff> <ID> [<ID>...] — run the quick checks against a scratch worktree of /repo with the patch
# applied (VERIF_REPO); /repo itself is never touched. Evidence files are saved and restored: committed evidence must
# come from runs on the unchanged tree. The harness binaries are rebuilt from /repo by the next ordinary run.
patch=$1; shift
cd /verif
wt=/tmp/mutrepo_$$
git -C /repo worktree add --detach $wt HEAD -q || exit 3
trap 'git -C /repo worktree remove --force '$wt' 2>/dev/null; python3 /verif/tools/gen_src.py /repo /verif/coq/Gen/Src.v' EXIT   # Gen/Src.v back to /repo's source
git -C $wt apply "$patch" || { echo "PATCH DOES NOT APPLY"; exit 3; }
for id in "$@"; do
  cp evidence/$id.json /tmp/evidence_$id.bak 2>/dev/null
  VERIF_REPO=$wt ./check $id --tier quick 2>&1 | tail -6; echo "exit[$id]=${PIPESTATUS[0]}"
  mv /tmp/evidence_$id.bak evidence/$id.json 2>/dev/null
done
