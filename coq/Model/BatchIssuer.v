(** BatchIssuer.v — BasicBatchedIssuer.EvaluateBatch (tokens/batched/issuer.go:47-95).
    An issuer is its token type, the last byte of its key id, and its Evaluate as an arbitrary partial function of
    the request (truncated key id, blinded element).  RESPONSE_ERROR is the empty byte string. *)
From PatVerif Require Export Model.BatchCodecs.
Open Scope N_scope.

Record issuer := { i_type : N; i_kid : N; i_eval : N -> list byte -> option (list byte) }.

Definition matches (i : issuer) (it : bitem) : bool :=
  (i_type i =? fst it) && (i_kid i =? q_keyid (snd it)).

(** the per-request slot: the first configured issuer of the request's type and truncated key id whose Evaluate
    succeeds; empty when there is none (unsupported type, unknown key id, every candidate failed) *)
Fixpoint eval_one (is : list issuer) (it : bitem) : list byte :=
  match is with
  | [] => []
  | i :: rest =>
    if matches i it then
      match i_eval i (q_keyid (snd it)) (q_blinded (snd it)) with
      | Some r => r
      | None => eval_one rest it
      end
    else eval_one rest it
  end.

Definition responses (is : list issuer) (rs : list bitem) : list (list byte) := map (eval_one is) rs.
Definition evaluate_batch (is : list issuer) (rs : list bitem) : list byte :=
  enc_resps_typed (map (fun it => (fst it, eval_one is it)) rs).

(** issuers return responses of their type's fixed length (Ne + 2 Ns = 145 for type 1, Nk = 256 for type 2) *)
Definition wf_issuer (i : issuer) : Prop :=
  forall k b r, i_eval i k b = Some r -> resp_len (i_type i) = Some (length r).
Close Scope N_scope.
