(** TokenVerify.v — BasicPrivateIssuer.Verify / BatchedPrivateIssuer.Verify (tokens/type1/issuer.go:73-86,
    tokens/type5/issuer.go:100-113) with Token.AuthenticatorInput (tokens/token.go:23-30).
    [prf] is server.FullEvaluate under the issuer's key ([None] = it returned an error): an arbitrary function. *)
From PatVerif Require Export Model.Codecs.
Open Scope N_scope.

Section Verify.
  Variable prf : list byte -> option (list byte).
  Definition verify (t : token) : bool :=
    match prf (auth_input t) with
    | Some o => bytes_eqb o (t_auth t)
    | None => false
    end.
End Verify.
Close Scope N_scope.
