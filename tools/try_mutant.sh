#!/bin/bash
# try_mutant.sh <patch.diff> <ID> [<ID>...] — apply a patch to /repo, run the quick checks, undo it.
# Evidence files are saved and restored: committed evidence must come from runs on the unchanged tree.
patch=$1; shift
cd /verif
git -C /repo apply "$patch" || { echo "PATCH DOES NOT APPLY"; exit 3; }
for id in "$@"; do
  cp evidence/$id.json /tmp/evidence_$id.bak 2>/dev/null
  ./check $id --tier quick 2>&1 | tail -6; echo "exit[$id]=${PIPESTATUS[0]}"
  mv /tmp/evidence_$id.bak evidence/$id.json 2>/dev/null
done
git -C /repo checkout -- . ; git -C /repo status --short | grep -v verif_hooks | head
