(** Codecs.v — every wire structure of pat-go as a value type, a canonical encoder and a
    decoder that mirrors the Go Unmarshal function statement by statement (after the fix:
    commits recorded in known_findings.json).  Request objects carry the Go [raw] cache. *)
From PatVerif Require Export Base.Cryptobyte Model.Quicwire.
Open Scope N_scope.

Notation "'let?' ( x , r ) := p 'in' k" :=
  (match p with Some (x, r) => k | None => None end)
  (at level 200, x name, r name, p at level 100, k at level 200).

(** * Token  (tokens/token.go, type{1,2,3,5}/token.go) *)
Record token := { t_type : N; t_nonce : list byte; t_ctx : list byte; t_keyid : list byte; t_auth : list byte }.

Definition auth_input (t : token) : list byte := u16 (t_type t) ++ t_nonce t ++ t_ctx t ++ t_keyid t.
Definition enc_token (t : token) : list byte :=
  u16 (t_type t) ++ t_nonce t ++ t_ctx t ++ t_keyid t ++ t_auth t.

(** UnmarshalPrivateToken / UnmarshalToken / UnmarshalBatchedPrivateToken: nk = 48 / 256 / 64.
    Note: the token type value is not checked by these decoders. *)
Definition dec_token (nk : nat) (s : list byte) : option token :=
  let? (ty, s1) := read_u16 s in
  let? (n, s2) := read_bytes 32 s1 in
  let? (c, s3) := read_bytes 32 s2 in
  let? (k, s4) := read_bytes 32 s3 in
  let? (a, s5) := read_bytes nk s4 in
  Some {| t_type := ty; t_nonce := n; t_ctx := c; t_keyid := k; t_auth := a |}.

Definition wf_token (nk : nat) (t : token) : Prop :=
  t_type t < 65536 /\ length (t_nonce t) = 32%nat /\ length (t_ctx t) = 32%nat /\
  length (t_keyid t) = 32%nat /\ length (t_auth t) = nk.

(** * TokenChallenge  (tokens/token_challenge.go) *)
Definition comma : byte := x2c.
Fixpoint join_comma (l : list (list byte)) : list byte :=
  match l with
  | [] => []
  | [x] => x
  | x :: l' => x ++ comma :: join_comma l'
  end.
Fixpoint split_comma (s : list byte) : list (list byte) :=
  match s with
  | [] => [[]]
  | b :: t =>
    let r := split_comma t in
    if byte_eqb b comma then [] :: r
    else match r with h :: r' => (b :: h) :: r' | [] => [[b]] end
  end.

Record challenge := { c_type : N; c_issuer : list byte; c_nonce : list byte; c_origin : list (list byte) }.

Definition enc_challenge (c : challenge) : list byte :=
  u16 (c_type c) ++ u16p (c_issuer c) ++ u8p (c_nonce c) ++ u16p (join_comma (c_origin c)).
(** Marshal panics (BytesOrPanic) when a length prefix overflows *)
Definition marshal_challenge (c : challenge) : res (list byte) :=
  if fits16 (c_issuer c) && fits8 (c_nonce c) && fits16 (join_comma (c_origin c))
  then Ok (enc_challenge c) else Panic.

Definition dec_challenge (s : list byte) : option challenge :=
  let? (ty, s1) := read_u16 s in
  let? (iss, s2) := read_u16_prefixed s1 in
  match iss with [] => None | _ =>
  let? (n, s3) := read_u8_prefixed s2 in
  let? (o, s4) := read_u16_prefixed s3 in
  Some {| c_type := ty; c_issuer := iss; c_nonce := n; c_origin := split_comma o |}
  end.

Definition no_comma (x : list byte) : Prop := ~ In comma x.
Definition wf_challenge (c : challenge) : Prop :=
  c_type c < 65536 /\ c_issuer c <> [] /\ fits16 (c_issuer c) = true /\ fits8 (c_nonce c) = true /\
  c_origin c <> [] /\ Forall no_comma (c_origin c) /\ fits16 (join_comma (c_origin c)) = true.

(** * Request objects with the [raw] cache *)
Record obj (A : Type) := { raw : option (list byte); val : A }.
Arguments raw {A} o. Arguments val {A} o. Arguments Build_obj {A} raw val.

Definition marshal {A} (enc : A -> list byte) (o : obj A) : list byte * obj A :=
  match raw o with
  | Some r => (r, o)
  | None => let e := enc (val o) in (e, {| raw := Some e; val := val o |})
  end.
(** Unmarshal: drops the cache, then runs the type's field-by-field decoder, which may have
    updated some fields even when it reports failure. *)
Definition unmarshal {A} (um : A -> list byte -> bool * A) (o : obj A) (b : list byte) : bool * obj A :=
  let '(ok, v) := um (val o) b in (ok, {| raw := None; val := v |}).

(** ** Types 1 and 2  (type1/token_request.go, type2/token_request.go) *)
Record breq := { q_keyid : N; q_blinded : list byte }.
Definition enc_req12 (ty : N) (r : breq) : list byte := u16 ty ++ u8 (q_keyid r) ++ q_blinded r.
Definition um_req12 (ty : N) (ne : nat) (old : breq) (s : list byte) : bool * breq :=
  match read_u16 s with
  | None => (false, old)
  | Some (t, s1) =>
    if negb (t =? ty) then (false, old) else
    match read_u8 s1 with
    | None => (false, old)
    | Some (k, s2) =>
      let r1 := {| q_keyid := k; q_blinded := q_blinded old |} in
      match read_bytes ne s2 with
      | None => (false, r1)
      | Some (e, _) => (true, {| q_keyid := k; q_blinded := e |})
      end
    end
  end.
Definition ne1 : nat := 49.    (* type1.Ne *)
Definition ne2 : nat := 256.   (* type2 blinded message *)
Definition wf_req12 (ne : nat) (r : breq) : Prop := q_keyid r < 256 /\ length (q_blinded r) = ne.

(** ** Type 5  (type5/token_request.go) *)
Record req5 := { q5_keyid : N; q5_elems : list (list byte) }.
Definition enc_varint (v : N) : list byte :=
  match append_varint [] v with Ok e => e | _ => [] end.
Definition enc_req5 (r : req5) : list byte :=
  let body := concat (q5_elems r) in
  u16 5 ++ u8 (q5_keyid r) ++ enc_varint (N.of_nat (length body)) ++ body.
Fixpoint chunks32 (n : nat) (s : list byte) : list (list byte) :=
  match n with O => [] | S n' => firstn 32 s :: chunks32 n' (skipn 32 s) end.
Definition um_req5 (old : req5) (s : list byte) : bool * req5 :=
  match read_u16 s with
  | None => (false, old)
  | Some (t, s1) =>
    if negb (t =? 5) then (false, old) else
    match read_u8 s1 with
    | None => (false, old)
    | Some (k, s2) =>
      let r1 := {| q5_keyid := k; q5_elems := q5_elems old |} in
      match consume_varint s2 with
      | None => (false, r1)
      | Some (l, off) =>
        let s3 := skipn off s2 in
        if N.of_nat (length s3) <? l then (false, r1) else
        let body := firstn (N.to_nat l) s3 in
        if negb (Nat.eqb (Nat.modulo (length body) 32) 0) then (false, r1) else
        (true, {| q5_keyid := k; q5_elems := chunks32 (Nat.div (length body) 32) body |})
      end
    end
  end.
Definition wf_req5 (r : req5) : Prop :=
  q5_keyid r < 256 /\ Forall (fun e => length e = 32%nat) (q5_elems r) /\
  N.of_nat (length (concat (q5_elems r))) <= max_varint.

(** ** Type 3  (type3/token_request.go) *)
Record req3 := { q3_key : list byte; q3_nkid : list byte; q3_enc : list byte; q3_sig : list byte }.
Definition enc_req3 (r : req3) : list byte :=
  u16 3 ++ q3_key r ++ q3_nkid r ++ u16p (q3_enc r) ++ q3_sig r.
Definition um_req3 (old : req3) (s : list byte) : bool * req3 :=
  match read_u16 s with
  | None => (false, old)
  | Some (t, s1) =>
    if negb (t =? 3) then (false, old) else
    match read_bytes 49 s1 with
    | None => (false, old)
    | Some (k, s2) =>
      let r1 := {| q3_key := k; q3_nkid := q3_nkid old; q3_enc := q3_enc old; q3_sig := q3_sig old |} in
      match read_bytes 32 s2 with
      | None => (false, r1)
      | Some (n, s3) =>
        let r2 := {| q3_key := k; q3_nkid := n; q3_enc := q3_enc old; q3_sig := q3_sig old |} in
        match read_u16_prefixed s3 with
        | None => (false, r2)
        | Some ([], _) => (false, r2)
        | Some (e, s4) =>
          let r3 := {| q3_key := k; q3_nkid := n; q3_enc := e; q3_sig := q3_sig old |} in
          match read_bytes 96 s4 with
          | None => (false, r3)
          | Some (sg, s5) =>
            (match s5 with [] => true | _ => false end,
             {| q3_key := k; q3_nkid := n; q3_enc := e; q3_sig := sg |})
          end
        end
      end
    end
  end.
Definition wf_req3 (r : req3) : Prop :=
  length (q3_key r) = 49%nat /\ length (q3_nkid r) = 32%nat /\ q3_enc r <> [] /\
  fits16 (q3_enc r) = true /\ length (q3_sig r) = 96%nat.

(** ** Type 3 inner request  (type3/inner_token_request.go) *)
Record inner := { in_keyid : N; in_blinded : list byte; in_padded : list byte }.
Definition enc_inner (r : inner) : list byte := u8 (in_keyid r) ++ in_blinded r ++ u16p (in_padded r).
Definition um_inner (old : inner) (s : list byte) : bool * inner :=
  match read_u8 s with
  | None => (false, old)
  | Some (k, s1) =>
    let r1 := {| in_keyid := k; in_blinded := in_blinded old; in_padded := in_padded old |} in
    match read_bytes 256 s1 with
    | None => (false, r1)
    | Some (m, s2) =>
      let r2 := {| in_keyid := k; in_blinded := m; in_padded := in_padded old |} in
      match read_u16_prefixed s2 with
      | None => (false, r2)
      | Some (p, _) => (true, {| in_keyid := k; in_blinded := m; in_padded := p |})
      end
    end
  end.
Definition wf_inner (r : inner) : Prop :=
  in_keyid r < 256 /\ length (in_blinded r) = 256%nat /\ fits16 (in_padded r) = true.

(** ** Encapsulation key  (type3/encap_key.go; id tables copied from cisco/go-hpke) *)
Record encap := { e_id : N; e_kem : N; e_pk : list byte; e_kdf : N; e_aead : N }.
Definition kem_pk_size (kem : N) : option nat :=
  match kem with
  | 16 => Some 65%nat      (* DHKEM_P256 *)
  | 18 => Some 133%nat     (* DHKEM_P521 *)
  | 32 => Some 32%nat      (* DHKEM_X25519 *)
  | 33 => Some 56%nat      (* DHKEM_X448 *)
  | 65534 => Some 378%nat  (* KEM_SIKE503 *)
  | 65535 => Some 564%nat  (* KEM_SIKE751 *)
  | _ => None
  end.
Definition kdf_ok (k : N) : bool := (k =? 1) || (k =? 2) || (k =? 3).
Definition aead_ok (a : N) : bool := (a =? 1) || (a =? 2) || (a =? 3) || (a =? 65535).
Definition enc_encap (k : encap) : list byte :=
  u8 (e_id k) ++ u16 (e_kem k) ++ e_pk k ++ u16 (e_kdf k) ++ u16 (e_aead k).
(** [pk_valid kem bytes]: KEM.DeserializePublicKey succeeds — a primitive (any 32/56 bytes for
    X25519/X448, a valid uncompressed point for P-256/P-521, SIDH import for SIKE). *)
Definition dec_encap (pk_valid : N -> list byte -> bool) (s : list byte) : option encap :=
  let? (id, s1) := read_u8 s in
  let? (kem, s2) := read_u16 s1 in
  match kem_pk_size kem with
  | None => None
  | Some n =>
    let? (pk, s3) := read_bytes n s2 in
    let? (kdf, s4) := read_u16 s3 in
    let? (aead, s5) := read_u16 s4 in
    if kdf_ok kdf && aead_ok aead && pk_valid kem pk
    then Some {| e_id := id; e_kem := kem; e_pk := pk; e_kdf := kdf; e_aead := aead |}
    else None
  end.
Definition wf_encap (pk_valid : N -> list byte -> bool) (k : encap) : Prop :=
  e_id k < 256 /\ kem_pk_size (e_kem k) = Some (length (e_pk k)) /\
  kdf_ok (e_kdf k) = true /\ aead_ok (e_aead k) = true /\ pk_valid (e_kem k) (e_pk k) = true.

Close Scope N_scope.
