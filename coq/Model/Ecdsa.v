(** Ecdsa.v — byte-level parts of the ECDSA fork (ecdsa/ecdsa.go) and of the standard library it must agree with:
    the two ASN.1 signature parsers, the range checks, hashToInt, and entropy consumption over a scripted reader. *)
From PatVerif Require Export Base.Der.
From Coq Require Import ZifyN ZifyNat ZifyBool.
Open Scope N_scope.

(** ** the fork: VerifyASN1 reads both INTEGERs into big.Int (negative values representable), then Verify's
    range checks r.Sign() > 0, s.Sign() > 0, r < N, s < N *)
Definition fork_parse (sig : list byte) : option (Z * Z) :=
  match read_asn1 x30 sig with
  | Some (inner, []) =>
    match read_bigint inner with
    | Some (r, i1) =>
      match read_bigint i1 with
      | Some (s, []) => Some (r, s)
      | _ => None
      end
    | None => None
    end
  | _ => None
  end.
Definition in_range (n : N) (v : Z) : bool := ((0 <? v) && (v <? Z.of_N n))%Z.
Definition fork_accepts (n : N) (sig : list byte) : option (N * N) :=
  match fork_parse sig with
  | Some (r, s) => if in_range n r && in_range n s then Some (Z.to_N r, Z.to_N s) else None
  | None => None
  end.

(** ** the standard library: parseSignature reads both INTEGERs into byte strings (String.readASN1Bytes: minimal,
    NON-NEGATIVE, leading zero stripped), then bigmod.Nat.SetBytes rejects values >= N and IsZero rejects 0 *)
Fixpoint strip0_keep1 (b : list byte) : list byte :=        (* for len(bytes) > 1 && bytes[0] == 0 *)
  match b with
  | x :: (_ :: _) as t => if byte_eqb x x00 then strip0_keep1 t else b
  | _ => b
  end.
Definition read_int_bytes : P (list byte) := fun s =>
  match read_asn1 x02 s with
  | Some (c, r) =>
    if check_int c then
      match c with
      | h :: _ => if 128 <=? b2n h then None else Some (strip0_keep1 c, r)
      | [] => None
      end
    else None
  | None => None
  end.
Definition std_parse (sig : list byte) : option (list byte * list byte) :=
  match read_asn1 x30 sig with
  | Some (inner, []) =>
    match read_int_bytes inner with
    | Some (r, i1) =>
      match read_int_bytes i1 with
      | Some (s, []) => Some (r, s)
      | _ => None
      end
    | None => None
    end
  | _ => None
  end.
Definition nat_in_range (n : N) (b : list byte) : bool := let v := be_dec_h b in (0 <? v) && (v <? n).
Definition std_accepts (n : N) (sig : list byte) : option (N * N) :=
  match std_parse sig with
  | Some (r, s) => if nat_in_range n r && nat_in_range n s then Some (be_dec_h r, be_dec_h s) else None
  | None => None
  end.

(** ** raw (r, s): the fork's Verify range check vs the standard library's (which encodes to ASN.1 first and so
    rejects negative values, then applies the same bounds) *)
Definition std_in_range (n : N) (v : Z) : bool := ((0 <=? v) && negb (v =? 0) && (v <? Z.of_N n))%Z.

(** ** hashToInt: truncate to the byte length of the order, then shift out the excess bits *)
Definition hash_to_int (hash : list byte) (order_bits : N) : N :=
  let ob := N.to_nat ((order_bits + 7) / 8) in
  let h := firstn ob hash in
  let ret := be_dec_h h in
  let bits := 8 * N.of_nat (length h) in
  if order_bits <? bits then N.shiftr ret (bits - order_bits) else ret.

(** ** entropy: an io.Reader as a script of Read results; io.ReadFull semantics *)
Inductive rd_ev := Data (b : list byte) | Fault.        (* one Read call: some bytes (may be fewer than asked), or an error *)
(** read_full script n: returns the n bytes and the remaining script, or Err when an error / the end of the script
    comes before n bytes were delivered.  A chunk larger than needed leaves its tail for the next Read. *)
Fixpoint read_full (script : list rd_ev) (n : nat) (acc : list byte) : res (list byte * list rd_ev) :=
  match n with
  | O => Ok (acc, script)
  | _ =>
    match script with
    | [] => Err                                            (* io.EOF / io.ErrUnexpectedEOF *)
    | Fault :: _ => Err
    | Data b :: rest =>
      if Nat.leb (length b) n
      then match b with
           | [] => read_full rest n acc                    (* a zero-length read: try again *)
           | _ => read_full rest (n - length b) (acc ++ b)
           end
      else Ok (acc ++ firstn n b, Data (skipn n b) :: rest)
    end
  end.
(** MaybeReadByte: with [coin] = true one Read of one byte is attempted and its outcome ignored *)
Definition maybe_read_byte (coin : bool) (script : list rd_ev) : list rd_ev :=
  if coin then
    match script with
    | Data (_ :: t) :: rest => match t with [] => rest | _ => Data t :: rest end
    | Data [] :: rest => rest
    | Fault :: rest => rest
    | [] => []
    end
  else script.
(** GenerateKey reads BitSize/8 + 8 bytes; Sign / SignASN1 / BlindKeySign* read (maybe one byte and) 32 bytes *)
Definition generate_key_entropy (bitsize : nat) (script : list rd_ev) : res (list byte) :=
  match read_full script (bitsize / 8 + 8) [] with Ok (b, _) => Ok b | Err => Err | Panic => Panic end.
Definition sign_entropy (coin : bool) (script : list rd_ev) : res (list byte) :=
  match read_full (maybe_read_byte coin script) 32 [] with Ok (b, _) => Ok b | Err => Err | Panic => Panic end.
(** bytes the script can deliver before its first fault / its end *)
Fixpoint available (script : list rd_ev) : nat :=
  match script with Data b :: rest => (length b + available rest)%nat | _ => O end.
