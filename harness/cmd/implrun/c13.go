package main

import (
	"bytes"
	stdecdsa "crypto/ecdsa"
	"crypto/elliptic"
	crand "crypto/rand"
	"errors"
	"fmt"
	"io"
	"math/big"

	"github.com/cloudflare/pat-go/ecdsa"
	"verif/harness/internal/h"
)

func init() { props["C13"] = runC13 }

// derInt: minimal two's complement contents of a non-negative integer.
func derIntContent(v *big.Int) []byte {
	b := v.Bytes()
	if len(b) == 0 {
		return []byte{0}
	}
	if b[0]&0x80 != 0 {
		return append([]byte{0}, b...)
	}
	return b
}

func derLen(n int) []byte {
	if n < 128 {
		return []byte{byte(n)}
	}
	if n < 256 {
		return []byte{0x81, byte(n)}
	}
	return []byte{0x82, byte(n >> 8), byte(n)}
}

func derTLV(tag byte, content []byte) []byte { return cat([]byte{tag}, derLen(len(content)), content) }

func derSig(rc, sc []byte) []byte { return derTLV(0x30, cat(derTLV(2, rc), derTLV(2, sc))) }

// failingReader delivers the bytes of data in the given chunk sizes and then fails.
type failingReader struct {
	data   []byte
	chunks []int
	pos    int
	ci     int
	calls  int
	fail   error // what the source reports once it is exhausted (errEntropy when nil)
	// withLast: the failure is reported together with the last bytes delivered (as io.Reader permits)
	withLast bool
}

var errEntropy = errors.New("entropy source failed")

func (r *failingReader) Read(p []byte) (int, error) {
	r.calls++
	fail := r.fail
	if fail == nil {
		fail = errEntropy
	}
	if r.pos >= len(r.data) {
		return 0, fail
	}
	n := len(r.data) - r.pos
	if len(r.chunks) > 0 {
		if c := r.chunks[r.ci%len(r.chunks)]; c < n {
			n = c
		}
		r.ci++
	}
	if n > len(p) {
		n = len(p)
	}
	copy(p, r.data[r.pos:r.pos+n])
	r.pos += n
	if r.withLast && r.pos >= len(r.data) {
		return n, fail
	}
	return n, nil
}

// the ways an entropy source ends: its own error, a clean io.EOF (a finite seed: bytes.Reader, an exhausted stream),
// io.ErrUnexpectedEOF, a wrapped EOF; each also reported together with the last bytes
var entropyEndings = []struct {
	err      error
	withLast bool
}{{nil, false}, {io.EOF, false}, {io.ErrUnexpectedEOF, false}, {fmt.Errorf("seed: %w", io.EOF), false}, {io.EOF, true}, {nil, true}}

var _ io.Reader = (*failingReader)(nil)

func c13VerifyASN1(c *h.Ctx, cat_ string, cv curveT, pub *ecdsa.PublicKey, digest, sig []byte) {
	stdPub := &stdecdsa.PublicKey{Curve: cv.c, X: pub.X, Y: pub.Y}
	var impl bool
	pan, msg := h.Protect(func() { impl = ecdsa.VerifyASN1(pub, digest, sig) })
	std := stdecdsa.VerifyASN1(stdPub, digest, sig)
	det := map[string]any{"curve": cv.c.Params().Name, "category": cat_, "digest": h.Hex(digest), "signature": h.Hex(sig), "x": pub.X.String(), "y": pub.Y.String()}
	c.Count(cat_, 1, h.Hex(sig)+h.Hex(digest))
	if pan {
		det["panic"] = msg
		c.Violation("VerifyASN1 panics", det)
		return
	}
	if impl != std {
		det["fork"], det["crypto/ecdsa"] = impl, std
		c.Violation("VerifyASN1 returns the standard library's verdict for every byte string offered as an ASN.1 signature", det)
	}
	// model: parse + range, then the standard library's verdict on the parsed (r, s)
	m := c.Model("ecdsa_parse", []byte{cv.id}, sig)
	want := false
	if len(m) == 3 && m[0][0] == 1 {
		want = stdecdsa.Verify(stdPub, digest, new(big.Int).SetBytes(m[1]), new(big.Int).SetBytes(m[2]))
	}
	if len(m) > 0 && m[0][0] == 0xff {
		c.Mismatch("the model's two parsers disagree (theorem parse_equiv violated?)", det)
	}
	if impl != want {
		det["model_parse"] = h.Hex(m[0])
		c.Mismatch("VerifyASN1 vs model parser + range check + standard verification equation", det)
	}
}

func c13Verify(c *h.Ctx, cat_ string, cv curveT, pub *ecdsa.PublicKey, digest []byte, r, s *big.Int) {
	stdPub := &stdecdsa.PublicKey{Curve: cv.c, X: pub.X, Y: pub.Y}
	var impl bool
	pan, msg := h.Protect(func() { impl = ecdsa.Verify(pub, digest, new(big.Int).Set(r), new(big.Int).Set(s)) })
	std := stdecdsa.Verify(stdPub, digest, r, s)
	c.Count(cat_, 1, r.String()+s.String()+h.Hex(digest))
	det := map[string]any{"curve": cv.c.Params().Name, "category": cat_, "digest": h.Hex(digest), "r": r.String(), "s": s.String(), "x": pub.X.String(), "y": pub.Y.String()}
	if pan {
		det["panic"] = msg
		c.Violation("Verify panics", det)
		return
	}
	if impl != std {
		det["fork"], det["crypto/ecdsa"] = impl, std
		c.Violation("Verify returns the standard library's verdict for every (r, s)", det)
	}
}

// digestFor returns a digest whose hashToInt value is e (for the given curve), of the order's byte length.
func digestFor(cv elliptic.Curve, e *big.Int) []byte {
	bits := cv.Params().N.BitLen()
	ob := (bits + 7) / 8
	v := new(big.Int).Lsh(e, uint(8*ob-bits))
	out := make([]byte, ob)
	v.FillBytes(out)
	return out
}

// craftXOverflow builds (Q, digest, r, s) valid under standard ECDSA whose point R has x >= N, so that r = x - N.
func craftXOverflow(c *h.Ctx, cv elliptic.Curve) (pub *ecdsa.PublicKey, digest []byte, r, s *big.Int, ok bool) {
	p := cv.Params()
	three := big.NewInt(3)
	for i := int64(0); i < 2000; i++ {
		x := new(big.Int).Add(p.N, big.NewInt(i))
		if x.Cmp(p.P) >= 0 {
			return
		}
		// y^2 = x^3 - 3x + b
		y2 := new(big.Int).Exp(x, three, p.P)
		y2.Sub(y2, new(big.Int).Mul(three, x))
		y2.Add(y2, p.B)
		y2.Mod(y2, p.P)
		y := new(big.Int).ModSqrt(y2, p.P)
		if y == nil || i == 0 {
			continue // r = 0 is not a valid signature component
		}
		u1 := new(big.Int).SetBytes(rnd(c, (p.N.BitLen()+7)/8))
		u1.Mod(u1, p.N)
		u2 := new(big.Int).SetBytes(rnd(c, (p.N.BitLen()+7)/8))
		u2.Mod(u2, p.N)
		if u1.Sign() == 0 || u2.Sign() == 0 {
			continue
		}
		// Q = u2^-1 (R - u1 G)
		gx, gy := cv.ScalarBaseMult(u1.Bytes())
		ngy := new(big.Int).Sub(p.P, gy)
		dx, dy := cv.Add(x, y, gx, ngy)
		u2i := new(big.Int).ModInverse(u2, p.N)
		qx, qy := cv.ScalarMult(dx, dy, u2i.Bytes())
		if qx.Sign() == 0 && qy.Sign() == 0 {
			continue
		}
		r = big.NewInt(i)
		s = new(big.Int).Mul(r, u2i) // s = r / u2
		s.Mod(s, p.N)
		e := new(big.Int).Mul(u1, s) // e = u1 s
		e.Mod(e, p.N)
		if s.Sign() == 0 {
			continue
		}
		return &ecdsa.PublicKey{Curve: cv, X: qx, Y: qy}, digestFor(cv, e), r, s, true
	}
	return
}

func runC13(c0 *h.Ctx) {
	cvs := curvesAll()
	c0.Parallel(len(cvs), func(i int, c *h.Ctx) { runC13Curve(c, cvs[i]) })
	c13Generic(c0)
}

// c13Generic: curves given as plain *elliptic.CurveParams (the generic, non-assembly implementation: no CombinedMult,
// no Inverse) take other branches of sign / verify; and the key types' methods, in lockstep with crypto/ecdsa.
func c13Generic(c *h.Ctx) {
	for _, named := range []elliptic.Curve{elliptic.P224(), elliptic.P256(), elliptic.P384(), elliptic.P521()} {
		curve := elliptic.Curve(named.Params())
		name := "generic-" + curve.Params().Name
		N := curve.Params().N
		sk, err := ecdsa.GenerateKey(curve, crand.Reader)
		if err != nil {
			c.Violation("GenerateKey fails on a curve given by its parameters", map[string]any{"curve": name})
			continue
		}
		stdSk := &stdecdsa.PrivateKey{PublicKey: stdecdsa.PublicKey{Curve: curve, X: sk.X, Y: sk.Y}, D: sk.D}
		for _, dl := range []int{0, 20, 32, 48, 64, 66, 80} {
			digest := rnd(c, dl)
			r, s, err := ecdsa.Sign(crand.Reader, sk, digest)
			if err != nil {
				c.Violation("Sign fails on a curve given by its parameters", map[string]any{"curve": name})
				continue
			}
			r2, s2, _ := stdecdsa.Sign(crand.Reader, stdSk, digest)
			one := big.NewInt(1)
			type rs struct{ r, s *big.Int }
			cands := []rs{{r, s}, {r2, s2}, {r, new(big.Int).Sub(N, s)}, {new(big.Int).Add(r, one), s}, {r, new(big.Int).Add(s, one)}, {big.NewInt(0), s}, {r, big.NewInt(0)}, {N, s}, {r, N},
				{new(big.Int).Add(r, N), s}, {r2, s}, {new(big.Int).Neg(r), s}}
			for _, x := range cands {
				var got, want bool
				p1, m1 := h.Protect(func() { got = ecdsa.Verify(&sk.PublicKey, digest, x.r, x.s) })
				p2, _ := h.Protect(func() { want = stdecdsa.Verify(&stdSk.PublicKey, digest, x.r, x.s) })
				c.Count(name+":rs:generic-curve", 1, name+x.r.String()+x.s.String())
				if p1 != p2 || got != want {
					c.Violation("Verify accepts exactly the signatures crypto/ecdsa accepts (curve given as *elliptic.CurveParams)", map[string]any{"curve": name, "digest": h.Hex(digest), "r": x.r.String(), "s": x.s.String(), "fork": got, "std": want, "panic": m1})
				}
			}
			a1, e1 := ecdsa.SignASN1(crand.Reader, sk, digest)
			if e1 != nil || !stdecdsa.VerifyASN1(&stdSk.PublicKey, digest, a1) || !ecdsa.VerifyASN1(&sk.PublicKey, digest, a1) {
				c.Violation("SignASN1 output verifies under crypto/ecdsa and under the fork (curve given as *elliptic.CurveParams)", map[string]any{"curve": name})
			}
		}
		// key methods
		pk2 := &ecdsa.PublicKey{Curve: curve, X: new(big.Int).Set(sk.X), Y: new(big.Int).Set(sk.Y)}
		pkNamed := &ecdsa.PublicKey{Curve: named, X: sk.X, Y: sk.Y}
		other, _ := ecdsa.GenerateKey(curve, crand.Reader)
		stdPk2 := &stdecdsa.PublicKey{Curve: curve, X: pk2.X, Y: pk2.Y}
		stdNamed := &stdecdsa.PublicKey{Curve: named, X: sk.X, Y: sk.Y}
		stdOther := &stdecdsa.PrivateKey{PublicKey: stdecdsa.PublicKey{Curve: curve, X: other.X, Y: other.Y}, D: other.D}
		pub, okPub := sk.Public().(*ecdsa.PublicKey)
		eq := []bool{sk.PublicKey.Equal(pk2), sk.PublicKey.Equal(pkNamed), sk.PublicKey.Equal(&other.PublicKey), sk.PublicKey.Equal(stdPk2), sk.Equal(sk), sk.Equal(other),
			sk.Equal(&ecdsa.PrivateKey{PublicKey: *pk2, D: new(big.Int).Set(sk.D)}), sk.Equal(stdSk), sk.Equal(&sk.PublicKey)}
		eqStd := []bool{stdSk.PublicKey.Equal(stdPk2), stdSk.PublicKey.Equal(stdNamed), stdSk.PublicKey.Equal(&stdOther.PublicKey), stdSk.PublicKey.Equal(pk2), stdSk.Equal(stdSk), stdSk.Equal(stdOther),
			stdSk.Equal(&stdecdsa.PrivateKey{PublicKey: *stdPk2, D: new(big.Int).Set(sk.D)}), stdSk.Equal(sk), stdSk.Equal(&stdSk.PublicKey)}
		c.Count(name+":api:key-methods", len(eq)+1, name)
		if !okPub || pub != &sk.PublicKey {
			c.Violation("Public() returns the key's own public half (as crypto/ecdsa does)", map[string]any{"curve": name})
		}
		for i := range eq {
			if eq[i] != eqStd[i] {
				c.Violation("Equal agrees with crypto/ecdsa (same value / other curve object / other key / foreign type)", map[string]any{"curve": name, "case": i, "fork": eq[i], "std": eqStd[i]})
			}
		}
	}
}

func runC13Curve(c *h.Ctx, cv curveT) {
	curve := cv.c
	name := curve.Params().Name
	N := curve.Params().N
	one := big.NewInt(1)
	nKeys := 2
	if c.Thorough() {
		nKeys = 3
	}
	digestLens := []int{0, 1, 19, 20, 27, 28, 29, 31, 32, 33, 47, 48, 49, 63, 64, 65, 66, 67, 80, 127, 128}
	for ki := 0; ki < nKeys; ki++ {
		sk, err := ecdsa.GenerateKey(curve, crand.Reader)
		if err != nil {
			c.Violation("GenerateKey fails with a working entropy source", map[string]any{"curve": name})
			return
		}
		pub := &sk.PublicKey
		stdSk := &stdecdsa.PrivateKey{PublicKey: stdecdsa.PublicKey{Curve: curve, X: pub.X, Y: pub.Y}, D: sk.D}
		for _, dl := range digestLens {
			digest := rnd(c, dl)
			if dl >= 66 && c.Rng.Intn(2) == 0 {
				digest[0] &= 0x7f
			}
			// --- hashToInt (hook) vs the model --------------------------------------------------------------------
			c.Case(name+":hashToInt", true, "hash_to_int", [][]byte{{cv.id}, digest}, [][]byte{ecdsa.VerifHashToInt(digest, curve).Bytes()})
			// --- what the fork signs, the standard library verifies, and vice versa --------------------------------
			r, s, err := ecdsa.Sign(crand.Reader, sk, digest)
			if err != nil {
				c.Violation("Sign fails with a working entropy source", map[string]any{"curve": name})
				continue
			}
			c13Verify(c, name+":sign:fork->std", cv, pub, digest, r, s)
			if !stdecdsa.Verify(&stdSk.PublicKey, digest, r, s) || !ecdsa.Verify(pub, digest, r, s) {
				c.Violation("every signature the fork produces verifies under crypto/ecdsa and here", map[string]any{"curve": name, "digest": h.Hex(digest), "r": r.String(), "s": s.String()})
			}
			sigA, err := ecdsa.SignASN1(crand.Reader, sk, digest)
			if err != nil || !stdecdsa.VerifyASN1(&stdSk.PublicKey, digest, sigA) || !ecdsa.VerifyASN1(pub, digest, sigA) {
				c.Violation("every ASN.1 signature the fork produces verifies under crypto/ecdsa and here", map[string]any{"curve": name, "digest": h.Hex(digest), "sig": h.Hex(sigA)})
			}
			c13VerifyASN1(c, name+":asn1:fork-signature", cv, pub, digest, sigA)
			// the accepted signature, digest and (r, s) edited IN PLACE between verifications (the buffers a server reuses
			// for the next message): a verdict memo that keeps the caller's slice or *big.Int compares the edit with itself
			if len(sigA) > 8 && len(digest) > 0 {
				for _, pos := range []int{len(sigA) - 1, len(sigA) / 2} {
					sigA[pos] ^= 0x01
					c13VerifyASN1(c, name+":asn1:edited-in-place-after-accept", cv, pub, digest, sigA)
					sigA[pos] ^= 0x01
					c13VerifyASN1(c, name+":asn1:restored-in-place", cv, pub, digest, sigA)
				}
				digest[0] ^= 0x80
				c13VerifyASN1(c, name+":asn1:digest-edited-in-place-after-accept", cv, pub, digest, sigA)
				c13Verify(c, name+":sign:digest-edited-in-place-after-accept", cv, pub, digest, r, s)
				digest[0] ^= 0x80
				c13VerifyASN1(c, name+":asn1:restored-in-place", cv, pub, digest, sigA)
				var got, want bool
				h.Protect(func() { got = ecdsa.Verify(pub, digest, r, s) }) // accepted with the caller's own r, s ...
				s.Add(s, big.NewInt(1))                                     // ... then s changed in place
				pan, _ := h.Protect(func() { got = ecdsa.Verify(pub, digest, r, s) })
				want = stdecdsa.Verify(&stdSk.PublicKey, digest, r, s)
				if pan || got != want {
					c.Violation("Verify returns the standard library's verdict after s was changed in place", map[string]any{"curve": name, "digest": h.Hex(digest), "r": r.String(), "s": s.String(), "fork": got, "std": want})
				}
				s.Sub(s, big.NewInt(1))
			}
			r2, s2, _ := stdecdsa.Sign(crand.Reader, stdSk, digest)
			c13Verify(c, name+":sign:std->fork", cv, pub, digest, r2, s2)
			if !ecdsa.Verify(pub, digest, r2, s2) {
				c.Violation("every standard-library signature verifies here", map[string]any{"curve": name, "digest": h.Hex(digest)})
			}
			sigB, _ := stdecdsa.SignASN1(crand.Reader, stdSk, digest)
			c13VerifyASN1(c, name+":asn1:std-signature", cv, pub, digest, sigB)
			// --- adversarial (r, s) --------------------------------------------------------------------------------
			if dl%4 == 0 || c.Thorough() {
				vals := []*big.Int{big.NewInt(0), big.NewInt(1), big.NewInt(-1), new(big.Int).Neg(r), new(big.Int).Sub(N, one), new(big.Int).Set(N), new(big.Int).Add(N, one),
					new(big.Int).Add(s, N), new(big.Int).Add(r, N), new(big.Int).Sub(N, s), new(big.Int).Sub(N, r), new(big.Int).Lsh(one, uint(N.BitLen())), new(big.Int).Lsh(one, uint(N.BitLen()-1)),
					new(big.Int).Neg(s), new(big.Int).Sub(s, N), new(big.Int).SetBytes(rnd(c, scalarLen(curve))), new(big.Int).Lsh(N, 1)}
				for _, v := range vals {
					c13Verify(c, name+":rs:adversarial-s", cv, pub, digest, r, v)
					c13Verify(c, name+":rs:adversarial-r", cv, pub, digest, v, s)
				}
				c13Verify(c, name+":rs:both", cv, pub, digest, new(big.Int).Add(r, N), new(big.Int).Add(s, N))
			}
			// --- DER mutations of a valid signature ----------------------------------------------------------------
			rc, sc := derIntContent(r), derIntContent(s)
			good := derSig(rc, sc)
			if !bytes.Equal(good, func() []byte { b, _ := ecdsa.SignASN1(crand.Reader, sk, digest); return b[:0] }()) {
				// (only the shape matters: SignASN1 output of a fresh signature differs in value)
			}
			vars := [][]byte{
				good,
				derSig(cat([]byte{0}, rc), sc), derSig(rc, cat([]byte{0}, sc)), derSig(cat([]byte{0, 0}, rc), sc), // non-minimal integers
				derSig(r.Bytes(), sc), derSig(rc, s.Bytes()), // possibly negative (top bit set, no sign byte)
				derSig(cat([]byte{0xff}, rc), sc), derSig(nil, sc), derSig(rc, nil),
				derSig(sc, rc), // swapped
				cat([]byte{0x30, 0x81, byte(len(good) - 2)}, good[2:]),    // long-form length where short form fits (for len < 128)
				cat([]byte{0x30, 0x82, 0, byte(len(good) - 2)}, good[2:]), // two-byte length with a leading zero
				cat(good, []byte{0}), // trailing data outside the SEQUENCE
				derTLV(0x30, cat(derTLV(2, rc), derTLV(2, sc), []byte{0})),                                       // trailing data inside the SEQUENCE
				derTLV(0x30, cat(derTLV(2, rc), derTLV(2, sc), derTLV(2, sc))),                                   // a third INTEGER
				derTLV(0x31, cat(derTLV(2, rc), derTLV(2, sc))), derTLV(0x10, cat(derTLV(2, rc), derTLV(2, sc))), // other tags
				derTLV(0x30, cat(derTLV(3, rc), derTLV(2, sc))), derTLV(0x30, cat(derTLV(2, rc), derTLV(0x82, sc))),
				derTLV(0x30, cat(derTLV(0x1f, rc), derTLV(2, sc))), derTLV(0x3f, cat(derTLV(2, rc), derTLV(2, sc))),
				derSig(derIntContent(new(big.Int).Add(r, N)), sc), derSig(rc, derIntContent(new(big.Int).Add(s, N))),
				derSig(rc, derIntContent(new(big.Int).Sub(N, s))), // (r, N - s): an equally valid signature
				derSig([]byte{0}, sc), derSig(rc, []byte{0}), good[:len(good)-1], good[1:], nil, {0x30}, {0x30, 0}, {0x30, 0x80},
				derTLV(0x30, derTLV(2, rc)),
			}
			for _, v := range vars {
				c13VerifyASN1(c, name+":asn1:structured-mutation", cv, pub, digest, v)
			}
			nflip := 12
			allBits := c.Thorough() && dl%3 == 0 // every bit position for a third of the digests, 60 random ones otherwise
			if c.Thorough() {
				nflip = 60
			}
			if allBits {
				nflip = 8 * len(good)
			}
			for j := 0; j < nflip; j++ {
				bit := c.Rng.Intn(8 * len(good))
				if allBits {
					bit = j
				}
				c13VerifyASN1(c, name+":asn1:bit-flip", cv, pub, digest, flipBit(good, bit))
			}
		}
		for j := 0; j < 30; j++ {
			c13VerifyASN1(c, name+":asn1:random-bytes", cv, pub, rnd(c, 32), rnd(c, c.Rng.Intn(20)))
		}
	}
	// --- crafted: the point R has x >= N, so r = x - N (valid under standard ECDSA) -------------------------------
	for j := 0; j < 3; j++ {
		if pub, digest, r, s, ok := craftXOverflow(c, curve); ok {
			if !stdecdsa.Verify(&stdecdsa.PublicKey{Curve: curve, X: pub.X, Y: pub.Y}, digest, r, s) {
				c.Notes["craft_"+name] = "construction not accepted by crypto/ecdsa (harness bug?)"
			}
			c13Verify(c, name+":rs:crafted-x-overflow", cv, pub, digest, r, s)
			c13VerifyASN1(c, name+":asn1:crafted-x-overflow", cv, pub, digest, derSig(derIntContent(r), derIntContent(s)))
		}
	}
	// --- crafted: public keys at the edges of the coordinate range — x = 0 (the points (0, +-sqrt(b)) exist on P-256,
	// P-384, P-521), the smallest x > 0 on the curve, x = p - 1 ... — with signatures built without the private key
	// (R = u1 G + u2 Q, r = R.x mod N, s = r / u2, e = u1 s): valid under standard ECDSA
	{
		p := curve.Params()
		three := big.NewInt(3)
		var xs []*big.Int
		for i := int64(0); i < 40; i++ {
			xs = append(xs, big.NewInt(i), new(big.Int).Sub(p.P, big.NewInt(1+i)))
		}
		found := 0
		for _, x := range xs {
			y2 := new(big.Int).Exp(x, three, p.P)
			y2.Sub(y2, new(big.Int).Mul(three, x))
			y2.Add(y2, p.B)
			y2.Mod(y2, p.P)
			y := new(big.Int).ModSqrt(y2, p.P)
			if y == nil || !curve.IsOnCurve(x, y) {
				continue
			}
			found++
			if found > 6 {
				break
			}
			for _, yy := range []*big.Int{y, new(big.Int).Sub(p.P, y)} {
				pub := &ecdsa.PublicKey{Curve: curve, X: new(big.Int).Set(x), Y: new(big.Int).Set(yy)}
				nb := (p.N.BitLen() + 7) / 8
				u1 := new(big.Int).Mod(new(big.Int).SetBytes(rnd(c, nb)), p.N)
				u2 := new(big.Int).Mod(new(big.Int).SetBytes(rnd(c, nb)), p.N)
				if u1.Sign() == 0 || u2.Sign() == 0 {
					continue
				}
				gx, gy := curve.ScalarBaseMult(u1.Bytes())
				qx, qy := curve.ScalarMult(pub.X, pub.Y, u2.Bytes())
				rx, _ := curve.Add(gx, gy, qx, qy)
				r := new(big.Int).Mod(rx, p.N)
				if r.Sign() == 0 {
					continue
				}
				sv := new(big.Int).Mul(r, new(big.Int).ModInverse(u2, p.N))
				sv.Mod(sv, p.N)
				e := new(big.Int).Mul(u1, sv)
				e.Mod(e, p.N)
				if sv.Sign() == 0 {
					continue
				}
				digest := digestFor(curve, e)
				if !stdecdsa.Verify(&stdecdsa.PublicKey{Curve: curve, X: pub.X, Y: pub.Y}, digest, r, sv) {
					c.Notes["craft_edge_key_"+name] = "construction not accepted by crypto/ecdsa (harness bug?)"
				}
				c13Verify(c, name+":rs:crafted-edge-public-key", cv, pub, digest, r, sv)
				c13VerifyASN1(c, name+":asn1:crafted-edge-public-key", cv, pub, digest, derSig(derIntContent(r), derIntContent(sv)))
			}
		}
	}
	// --- entropy failures: every failure position and several chunkings --------------------------------------------
	sk, _ := ecdsa.GenerateKey(curve, crand.Reader)
	bk, _ := ecdsa.GenerateKey(curve, crand.Reader)
	need := curve.Params().BitSize/8 + 8
	chunkings := [][]int{nil, {1}, {7}, {16}, {31, 2}, {32}, {33}, {5, 1, 40}}
	for avail := 0; avail <= need+2; avail++ {
		for _, ch := range chunkings {
			data := rnd(c, avail)
			script := [][]byte{{cv.id}}
			ending := entropyEndings[(avail+len(ch))%len(entropyEndings)]
			if avail == 0 || avail == need || avail == need-1 {
				ending = entropyEndings[(len(ch)+avail/need)%2] // own error and clean EOF at the edges, every chunking
			}
			fr := &failingReader{data: data, chunks: ch, fail: ending.err, withLast: ending.withLast}
			for pos := 0; pos < avail; {
				n := avail - pos
				if len(ch) > 0 {
					if k := ch[(len(script)-1)%len(ch)]; k < n {
						n = k
					}
				}
				script = append(script, cat([]byte{'D'}, data[pos:pos+n]))
				pos += n
			}
			script = append(script, []byte{'F'})
			var k *ecdsa.PrivateKey
			var err error
			pan, _ := h.Protect(func() { k, err = ecdsa.GenerateKey(curve, fr) })
			st := h.StOK
			if pan {
				st = h.StPanic
			} else if err != nil {
				st = h.StNone
			}
			got := []byte{}
			if err == nil && !pan {
				got = data[:need]
			}
			c.Case(name+":entropy:GenerateKey", true, "ecdsa_keygen_entropy", script, [][]byte{st, got})
			if (avail < need) != (err != nil) || (err != nil && k != nil) {
				c.Violation("GenerateKey returns an error and no key exactly when the entropy source fails before the required bytes", map[string]any{"curve": name, "available": avail, "needed": need, "chunks": ch, "err": err != nil, "source_ends_with": fmt.Sprint(ending.err), "with_last_bytes": ending.withLast})
			}
			if err == nil && k != nil {
				// the key is the [NSA] A.2.1 value of the bytes read
				want := new(big.Int).SetBytes(data[:need])
				want.Mod(want, new(big.Int).Sub(curve.Params().N, big.NewInt(1)))
				want.Add(want, big.NewInt(1))
				if k.D.Cmp(want) != 0 {
					c.Violation("GenerateKey derives the key from exactly the bytes it read", map[string]any{"curve": name})
				}
			}
		}
	}
	digest := rnd(c, 32)
	for avail := 0; avail <= 36; avail++ {
		for _, ch := range chunkings {
			data := rnd(c, avail)
			ending := entropyEndings[(avail+len(ch))%len(entropyEndings)]
			if avail == 0 || avail == 32 || avail == 31 {
				ending = entropyEndings[(len(ch)+avail/32)%2]
			}
			mk := func() *failingReader {
				return &failingReader{data: data, chunks: ch, fail: ending.err, withLast: ending.withLast}
			}
			type res struct {
				name string
				err  error
				nilR bool
			}
			var rs []res
			r, s, err := ecdsa.Sign(mk(), sk, digest)
			rs = append(rs, res{"Sign", err, r == nil && s == nil})
			sig, err := ecdsa.SignASN1(mk(), sk, digest)
			rs = append(rs, res{"SignASN1", err, sig == nil})
			r, s, err = ecdsa.BlindKeySignWithContext(mk(), sk, bk, digest, []byte("ctx"))
			rs = append(rs, res{"BlindKeySignWithContext", err, r == nil && s == nil})
			r, s, err = ecdsa.BlindKeySign(mk(), sk, bk, digest)
			rs = append(rs, res{"BlindKeySign", err, r == nil && s == nil})
			c.Count(name+":entropy:sign", len(rs), "")
			for _, x := range rs {
				det := map[string]any{"curve": name, "op": x.name, "available": avail, "chunks": ch, "err": x.err != nil, "source_ends_with": fmt.Sprint(ending.err), "with_last_bytes": ending.withLast}
				if avail < 32 && (x.err == nil || !x.nilR) {
					c.Violation("signing returns an error and no signature when the entropy source fails before 32 bytes were read", det)
				}
				if avail >= 33 && x.err != nil {
					c.Violation("signing succeeds when the entropy source delivers the bytes it needs", det)
				}
				if x.err != nil && !x.nilR {
					c.Violation("an error is returned together with a signature", det)
				}
			}
			// model: the verdict for both outcomes of MaybeReadByte
			script := [][]byte{}
			for pos, i := 0, 0; pos < avail; i++ {
				n := avail - pos
				if len(ch) > 0 {
					if k := ch[i%len(ch)]; k < n {
						n = k
					}
				}
				script = append(script, cat([]byte{'D'}, data[pos:pos+n]))
				pos += n
			}
			script = append(script, []byte{'F'})
			m := c.Model("ecdsa_sign_entropy", script...)
			if len(m) == 4 {
				ok0, ok1 := m[0][0] == 1, m[2][0] == 1
				implOK := rs[0].err == nil
				if ok0 == ok1 && implOK != ok0 {
					c.Mismatch("Sign's success under a failing reader vs the reader model", map[string]any{"curve": name, "available": avail, "chunks": ch})
				}
			}
		}
	}
}
