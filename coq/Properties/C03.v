(** C03 — no byte string from a peer can crash or exhaust a decoder or protocol step.
    Each theorem quantifies over every input byte string and over arbitrary primitive functions
    (the cryptographic primitives are assumed total: they return, possibly with an error).
    The message decoders of Model/Codecs.v (tokens, challenge, requests, inner request, encap key)
    are total functions into [option]/[bool] built from the bounds-checked cryptobyte readers: they
    have no Panic outcome by construction.  The functions below contain raw Go slice expressions,
    indexing or loops, modelled with the partial GoSem operations. *)
From PatVerif Require Import Model.Frontends Proofs.FrontendsP Proofs.QuicwireP.
Open Scope N_scope.

Theorem fin1_no_panic : forall elt_ok proof_ok finalize token_input resp,
  fin1 elt_ok proof_ok finalize token_input resp <> Panic.
Proof. exact fin1_no_panic_l. Qed.
Print Assumptions fin1_no_panic.
Theorem fin1_short_is_error : forall elt_ok proof_ok finalize ti resp, (length resp < 49)%nat ->
  fin1 elt_ok proof_ok finalize ti resp = Err.
Proof. exact fin1_short_l. Qed.

Theorem fin2_no_panic : forall rsa_finalize pss_ok token_input resp, fin2 rsa_finalize pss_ok token_input resp <> Panic.
Proof. exact fin2_no_panic_l. Qed.
Print Assumptions fin2_no_panic.

Theorem fin3_no_panic : forall aead_open rsa_finalize pss_ok encap_enc token_input resp,
  fin3 aead_open rsa_finalize pss_ok encap_enc token_input resp <> Panic.
Proof. exact fin3_no_panic_l. Qed.
Print Assumptions fin3_no_panic.
Theorem fin3_short_is_error : forall aead_open rsa_finalize pss_ok ee ti resp, (length resp < 16)%nat ->
  fin3 aead_open rsa_finalize pss_ok ee ti resp = Err.
Proof. exact fin3_short_l. Qed.

(** type 5: the only hypothesis is the output-length law of the VOPRF finalize primitive *)
Theorem fin5_no_panic : forall elt_ok proof_ok finalize token_inputs resp,
  (forall elems pf outs, finalize elems pf = Some outs -> length outs = length elems) ->
  fin5 elt_ok proof_ok finalize token_inputs resp <> Panic.
Proof. exact fin5_no_panic_l. Qed.
Print Assumptions fin5_no_panic.

Theorem um_req5_no_panic : forall data, um_req5_go data <> Panic.
Proof. exact um_req5_go_no_panic_l. Qed.
Print Assumptions um_req5_no_panic.
(** allocation proportional to the input, whatever length the message announces (up to 2^62-1) *)
Theorem um_req5_alloc_linear : forall data k e c, um_req5_go data = Ok (k, e, c) -> c <= 2 * N.of_nat (length data).
Proof. exact um_req5_go_alloc_l. Qed.
Print Assumptions um_req5_alloc_linear.

Theorem dec_batch_no_panic : forall data, dec_batch_go data <> Panic.
Proof. exact dec_batch_go_no_panic_l. Qed.
Print Assumptions dec_batch_no_panic.
Theorem dec_resps_no_panic : forall data, dec_resps_go data <> Panic.
Proof. exact dec_resps_go_no_panic_l. Qed.
Print Assumptions dec_resps_no_panic.
Theorem dec_resps_go_is_dec_resps : forall data, dec_resps_go data = opt_res (dec_resps data).
Proof. exact dec_resps_go_eq_l. Qed.

Theorem unpad_no_panic : forall p, unpad_go p <> Panic.
Proof. exact unpad_go_no_panic_l. Qed.
Print Assumptions unpad_no_panic.

Theorem issuer_evaluate_no_panic : forall hpke_open cfg kid parse_pk sig_verify registered sign_and_seal data,
  eval3 hpke_open cfg kid parse_pk sig_verify registered sign_and_seal data <> Panic.
Proof. exact eval3_no_panic_l. Qed.
Print Assumptions issuer_evaluate_no_panic.

Theorem finalize_index_no_panic : forall parse_pk unblind s ck blind brk anon,
  finalize_index parse_pk unblind s ck blind brk anon <> Panic.
Proof. exact finalize_index_no_panic_l. Qed.
Print Assumptions finalize_index_no_panic.

(** the attester's request check on a decoded request (ciphertext below 2^16 bytes, as every decoded one is) *)
Theorem verify_request_no_panic : forall parse_pk sig_verify blind_pk s r blind ck,
  fits16 (q3_enc r) = true ->
  fst (fst (verify_request parse_pk sig_verify blind_pk s r blind ck)) <> Panic.
Proof. exact verify_request_no_panic_l. Qed.
Print Assumptions verify_request_no_panic.

(** length-prefixed strings with declared lengths up to 2^62-1 (from C19) *)
Theorem consume_varint_bytes_never_panics : forall b,
  match consume_varint_bytes b with Panic => False | _ => True end.
Proof. exact consume_varint_bytes_never_panics_l. Qed.
Print Assumptions consume_varint_bytes_never_panics.
