From Coq Require Import List Bool Field Ring Setoid.
From PatVerif Require Import Model.Algebra.
Import ListNotations.

Section AlgP.
  Variable F : Type.
  Variables (f0 f1 : F) (fadd fmul fsub : F -> F -> F) (fopp : F -> F) (fdiv : F -> F -> F) (finv : F -> F).
  Variable feqb : F -> F -> bool.
  Hypothesis Fth : field_theory f0 f1 fadd fmul fsub fopp fdiv finv (@eq F).
  Hypothesis feqb_spec : forall a b, feqb a b = true <-> a = b.
  Add Field Ff : Fth.

  Notation "0" := f0. Notation "1" := f1.
  Infix "+" := fadd. Infix "*" := fmul. Infix "-" := fsub. Infix "/" := fdiv.
  Notation blind_pk := (blind_pk F fmul). Notation unblind_pk := (unblind_pk F fmul finv).
  Notation blind_sk := (blind_sk F fmul).

  Lemma feqb_false a b : a <> b -> feqb a b = false.
  Proof. intro H. destruct (feqb a b) eqn:E; [apply feqb_spec in E; contradiction|reflexivity]. Qed.
  Lemma feqb_refl a : feqb a a = true.
  Proof. now apply feqb_spec. Qed.

  Lemma mul_cancel_r a b c : c <> 0 -> a * c = b * c -> a = b.
  Proof.
    intros Hc H. transitivity ((a * c) * finv c); [field; exact Hc|]. rewrite H. field; exact Hc.
  Qed.
  Lemma mul_nonzero a b : a <> 0 -> b <> 0 -> a * b <> 0.
  Proof.
    intros Ha Hb H. apply Ha. apply (mul_cancel_r a 0 b Hb). rewrite H. ring.
  Qed.
  Lemma inv_nonzero a : a <> 0 -> finv a <> 0.
  Proof.
    intros Ha H. assert (E : a * finv a = 1) by (field; exact Ha). rewrite H in E.
    assert (Z : a * 0 = 0) by ring. rewrite Z in E. symmetry in E.
    exact (F_1_neq_0 Fth E).
  Qed.

  (** *** blinding laws *)
  Lemma unblind_blind_l P b : b <> 0 -> unblind_pk (blind_pk P b) b = P.
  Proof. intro H. unfold Algebra.unblind_pk, Algebra.blind_pk. field; exact H. Qed.
  Lemma blind_unblind_l P b : b <> 0 -> blind_pk (unblind_pk P b) b = P.
  Proof. intro H. unfold Algebra.unblind_pk, Algebra.blind_pk. field; exact H. Qed.
  Lemma blind_commutes_l P b1 b2 : blind_pk (blind_pk P b1) b2 = blind_pk (blind_pk P b2) b1.
  Proof. unfold Algebra.blind_pk. ring. Qed.
  Lemma blind_sk_pk_l d b : blind_pk (d * 1) b = (blind_sk d b) * 1.
  Proof. unfold Algebra.blind_pk, Algebra.blind_sk. ring. Qed.
  Lemma blind_injective_l P b1 b2 : P <> 0 -> (blind_pk P b1 = blind_pk P b2 <-> b1 = b2).
  Proof.
    intro HP. unfold Algebra.blind_pk. split; [|now intros ->].
    intro H. apply (mul_cancel_r b1 b2 P HP H).
  Qed.
  Lemma blind_nonzero_l P b : P <> 0 -> b <> 0 -> blind_pk P b <> 0.
  Proof. intros. unfold Algebra.blind_pk. now apply mul_nonzero. Qed.
  Lemma blind_moves_key_l P b : P <> 0 -> (blind_pk P b = P <-> b = 1).
  Proof.
    intro HP. unfold Algebra.blind_pk. split; [|intros ->; ring].
    intro H. apply (mul_cancel_r b 1 P HP). rewrite H. ring.
  Qed.

  (** *** ECDSA *)
  Variable xr : F -> F.
  Notation ecdsa_sign := (ecdsa_sign F fadd fmul finv xr).
  Notation ecdsa_verify := (ecdsa_verify F f0 fadd fmul finv feqb xr).
  Notation blind_key_sign := (blind_key_sign F fadd fmul finv xr).

  (** the point the verifier computes for a signature made with secret d and nonce k, checked under public key P *)
  Definition recovered (P d e k : F) : F := (k * (e + xr k * P)) / (e + d * xr k).

  Lemma verify_point_l P d e k : k <> 0 -> e + d * xr k <> 0 ->
    let '(r, s) := ecdsa_sign d e k in
    (e * finv s) + ((r * finv s) * P) = recovered P d e k.
  Proof.
    intros Hk Hs. unfold Algebra.ecdsa_sign, recovered. field. split; assumption.
  Qed.

  Lemma s_nonzero d e k : k <> 0 -> e + d * xr k <> 0 -> snd (ecdsa_sign d e k) <> 0.
  Proof.
    intros Hk Hs. unfold Algebra.ecdsa_sign. cbn [snd]. apply mul_nonzero; [apply inv_nonzero; exact Hk|exact Hs].
  Qed.

  (** correctness: a signature by d verifies under the public key d (= [d]G) *)
  Lemma sign_verifies_l d e k : k <> 0 -> xr k <> 0 -> e + d * xr k <> 0 ->
    let '(r, s) := ecdsa_sign d e k in ecdsa_verify (d * 1) e r s = true.
  Proof.
    intros Hk Hr Hs. pose proof (verify_point_l (d * 1) d e k Hk Hs) as V.
    pose proof (s_nonzero d e k Hk Hs) as S0.
    unfold Algebra.ecdsa_sign in *. cbn [snd] in S0. unfold Algebra.ecdsa_verify.
    rewrite (feqb_false _ _ Hr), (feqb_false _ _ S0). cbn [orb].
    rewrite V. assert (E : recovered (d * 1) d e k = k) by (unfold recovered; field; exact Hs).
    rewrite E, (feqb_false _ _ Hk). apply feqb_refl.
  Qed.

  (** the verdict for an honestly made signature under ANY key P: accepted iff the recovered point is not the
      identity and has the same x-coordinate scalar as [k]G *)
  Lemma verify_iff_l P d e k : k <> 0 -> xr k <> 0 -> e + d * xr k <> 0 ->
    let '(r, s) := ecdsa_sign d e k in
    ecdsa_verify P e r s = true <-> (recovered P d e k <> 0 /\ xr (recovered P d e k) = xr k).
  Proof.
    intros Hk Hr Hs. pose proof (verify_point_l P d e k Hk Hs) as V.
    pose proof (s_nonzero d e k Hk Hs) as S0.
    unfold Algebra.ecdsa_sign in *. cbn [snd] in S0. unfold Algebra.ecdsa_verify.
    rewrite (feqb_false _ _ Hr), (feqb_false _ _ S0). cbn [orb]. rewrite V.
    destruct (feqb (recovered P d e k) 0) eqn:E.
    - apply feqb_spec in E. split; [discriminate|]. intros [H _]. contradiction.
    - split.
      + intro H. apply feqb_spec in H. split; [|exact H]. intro Z. rewrite Z, feqb_refl in E. discriminate.
      + intros [_ H]. now apply feqb_spec.
  Qed.

  (** key-blinded signing: verifies under the blinded public key *)
  Lemma blind_sign_verifies_l d b e k : k <> 0 -> xr k <> 0 -> e + (d * b) * xr k <> 0 ->
    let '(r, s) := blind_key_sign d b e k in ecdsa_verify (blind_pk (d * 1) b) e r s = true.
  Proof.
    intros Hk Hr Hs. unfold Algebra.blind_key_sign, Algebra.blind_sk.
    replace (blind_pk (d * 1) b) with ((d * b) * 1) by (unfold Algebra.blind_pk; ring).
    apply sign_verifies_l; assumption.
  Qed.

  (** ... and under the UNBLINDED key only in an explicit event: the recovered point
      k (e + r d) / (e + r d b) has the x-coordinate scalar of [k]G *)
  Lemma blind_sign_unblinded_l d b e k : k <> 0 -> xr k <> 0 -> e + (d * b) * xr k <> 0 ->
    let '(r, s) := blind_key_sign d b e k in
    ecdsa_verify (d * 1) e r s = true ->
    xr ((k * (e + xr k * d)) / (e + d * b * xr k)) = xr k.
  Proof.
    intros Hk Hr Hs. pose proof (verify_iff_l (d * 1) (d * b) e k Hk Hr Hs) as V.
    unfold Algebra.blind_key_sign, Algebra.blind_sk. destruct (ecdsa_sign (d * b) e k) as [r s].
    intro H. apply V in H. destruct H as [_ H]. unfold recovered in H.
    replace ((k * (e + xr k * d)) / (e + d * b * xr k)) with ((k * (e + xr k * (d * 1))) / (e + d * b * xr k));
      [exact H|field; exact Hs].
  Qed.

  (** when x-coordinates identify points up to sign (xr u = xr v -> u = v \/ u = -v), that event is b = 1 or the
      single digest value e = -r d (1 + b) / 2 *)
  Lemma blind_sign_unblinded_event_l d b e k :
    (forall u v, xr u = xr v -> u = v \/ u = fopp v) ->
    k <> 0 -> d <> 0 -> xr k <> 0 -> e + (d * b) * xr k <> 0 ->
    xr ((k * (e + xr k * d)) / (e + d * b * xr k)) = xr k ->
    b = 1 \/ (e + e) + (xr k * d) * (1 + b) = 0.
  Proof.
    intros Hx Hk Hd Hr Hs H. apply Hx in H. destruct H as [H|H].
    - left. assert (E : e + xr k * d = e + d * b * xr k).
      { apply (mul_cancel_r _ _ (k / (e + d * b * xr k))).
        - unfold not; intro Z. assert (k = (k / (e + d * b * xr k)) * (e + d * b * xr k)) by (field; exact Hs).
          rewrite Z in H0. apply Hk. rewrite H0. ring.
        - transitivity (k * (e + xr k * d) / (e + d * b * xr k)); [field; exact Hs|]. rewrite H. field; exact Hs. }
      assert (E2 : b * (xr k * d) = 1 * (xr k * d)).
      { transitivity ((e + d * b * xr k) - e); [ring|]. rewrite <- E. ring. }
      apply (mul_cancel_r b 1 (xr k * d)); [apply mul_nonzero; assumption|exact E2].
    - right. assert (E : e + xr k * d = fopp (e + d * b * xr k)).
      { apply (mul_cancel_r _ _ (k / (e + d * b * xr k))).
        - unfold not; intro Z. assert (k = (k / (e + d * b * xr k)) * (e + d * b * xr k)) by (field; exact Hs).
          rewrite Z in H0. apply Hk. rewrite H0. ring.
        - transitivity (k * (e + xr k * d) / (e + d * b * xr k)); [field; exact Hs|]. rewrite H. field; exact Hs. }
      transitivity ((e + xr k * d) + (e + d * b * xr k)); [ring|]. rewrite E. ring.
  Qed.

  (** *** anonymous issuer origin ID *)
  Variable B : Type.
  Variable enc : F -> B.
  Variable kdf : B -> B -> B.
  Notation finalize_index := (finalize_index F fmul finv B enc kdf).
  Notation origin_index := (origin_index F fmul B enc kdf).
  Notation request_key := (request_key F fmul).
  Notation issuer_blinded_key := (issuer_blinded_key F fmul).

  Lemma index_closed_form_l d bc bo : bc <> 0 ->
    finalize_index d bc (issuer_blinded_key (request_key d bc) bo) = origin_index d bo.
  Proof.
    intro H. unfold Algebra.finalize_index, Algebra.origin_index, Algebra.issuer_blinded_key, Algebra.request_key.
    f_equal. f_equal. unfold Algebra.unblind_pk, Algebra.blind_pk. field; exact H.
  Qed.
  Lemma index_stable_l d bo bc bc' : bc <> 0 -> bc' <> 0 ->
    finalize_index d bc (issuer_blinded_key (request_key d bc) bo) =
    finalize_index d bc' (issuer_blinded_key (request_key d bc') bo).
  Proof. intros. now rewrite !index_closed_form_l. Qed.
  (** distinct clients or distinct index keys give distinct KDF inputs (so equal IDs would be a KDF collision) *)
  Lemma index_inputs_distinct_l d d' bo bo' : (forall u v, enc u = enc v -> u = v) -> d <> 0 ->
    (d <> d' \/ bo <> bo') ->
    (enc (blind_pk d bo), enc d) <> (enc (blind_pk d' bo'), enc d').
  Proof.
    intros Hinj Hd Hne E. inversion E as [[E1 E2]]. apply Hinj in E1, E2. subst d'.
    destruct Hne as [Hne|Hne]; [congruence|]. apply Hne. now apply (blind_injective_l d bo bo' Hd).
  Qed.

  (** *** EdDSA with a blinded key *)
  Notation ed_sign := (ed_sign F fadd fmul). Notation ed_verify := (ed_verify F fadd fmul feqb).
  Lemma ed_sign_verifies_l a n h : let '(Rp, Sc) := ed_sign a n h in ed_verify (a * 1) Rp Sc h = true.
  Proof. unfold Algebra.ed_sign, Algebra.ed_verify. apply feqb_spec. ring. Qed.
  Lemma ed_blind_sign_verifies_l a r n h :
    let '(Rp, Sc) := ed_sign (blind_sk a r) n h in ed_verify (blind_pk (a * 1) r) Rp Sc h = true.
  Proof. unfold Algebra.ed_sign, Algebra.ed_verify, Algebra.blind_sk, Algebra.blind_pk. apply feqb_spec. ring. Qed.
  Lemma ed_blind_sign_original_l a r n h : h <> 0 -> a <> 0 ->
    let '(Rp, Sc) := ed_sign (blind_sk a r) n h in ed_verify (a * 1) Rp Sc h = true -> r = 1.
  Proof.
    intros Hh Ha. unfold Algebra.ed_sign, Algebra.ed_verify, Algebra.blind_sk. intro H. apply feqb_spec in H.
    assert (E : r * (h * a) = 1 * (h * a)).
    { transitivity ((n + h * (a * r)) - n); [ring|]. rewrite H. ring. }
    apply (mul_cancel_r r 1 (h * a)); [apply mul_nonzero; assumption|exact E].
  Qed.

  (** *** VOPRF: the unblinded evaluation does not depend on the blind *)
  Notation voprf_blind := (voprf_blind F fmul). Notation voprf_eval := (voprf_eval F fmul).
  Notation voprf_unblind := (voprf_unblind F fmul finv).
  Lemma voprf_unblind_l x k beta : beta <> 0 -> voprf_unblind (voprf_eval k (voprf_blind x beta)) beta = k * x.
  Proof. intro H. unfold Algebra.voprf_unblind, Algebra.voprf_eval, Algebra.voprf_blind. field; exact H. Qed.
  Lemma voprf_blind_independent_l x k b1 b2 : b1 <> 0 -> b2 <> 0 ->
    voprf_unblind (voprf_eval k (voprf_blind x b1)) b1 = voprf_unblind (voprf_eval k (voprf_blind x b2)) b2.
  Proof. intros. now rewrite !voprf_unblind_l. Qed.
End AlgP.

Section RsaP.
  Variable R : Type.
  Variables (r0 r1 : R) (radd rmul rsub : R -> R -> R) (ropp : R -> R).
  Hypothesis Rth : ring_theory r0 r1 radd rmul rsub ropp (@eq R).
  Add Ring Rr : Rth.
  Notation rpow := (rpow R r1 rmul).
  Infix "*" := rmul.

  Lemma rpow_mul x y n : rpow (x * y) n = rpow x n * rpow y n.
  Proof. induction n as [|n IH]; cbn [Algebra.rpow]; [ring|rewrite IH; ring]. Qed.

  (** blind RSA: for a unit r with inverse rinv and exponents with (r^e)^d = r (RSA correctness for the key),
      the finalized signature is m^d whatever the blind *)
  Lemma rsa_unblind_l m r rinv e d : r * rinv = r1 -> rpow (rpow r e) d = r ->
    rsa_finalize R rmul (rsa_blind_sign R r1 rmul (rsa_blind R r1 rmul m r e) d) rinv = rpow m d.
  Proof.
    intros Hinv Hrsa. unfold rsa_finalize, rsa_blind_sign, rsa_blind.
    rewrite rpow_mul, Hrsa. transitivity (rpow m d * (r * rinv)); [ring|]. rewrite Hinv. ring.
  Qed.
  Lemma rsa_blind_independent_l m e d ra rainv rb rbinv :
    ra * rainv = r1 -> rb * rbinv = r1 -> rpow (rpow ra e) d = ra -> rpow (rpow rb e) d = rb ->
    rsa_finalize R rmul (rsa_blind_sign R r1 rmul (rsa_blind R r1 rmul m ra e) d) rainv =
    rsa_finalize R rmul (rsa_blind_sign R r1 rmul (rsa_blind R r1 rmul m rb e) d) rbinv.
  Proof. intros. now rewrite !rsa_unblind_l. Qed.
End RsaP.
