package main

import (
	"bytes"
	"fmt"
	"math/big"

	"github.com/cloudflare/pat-go/ed25519"
	"verif/harness/internal/h"
)

// c14PatternedReductions drives the scalar reductions (SetUniformBytes, SetBytes, MultiplyAdd) towards results whose
// digits in the radices a limb implementation is likely to use (2^21, 2^28, 2^32, 2^51, 2^64) are extreme — all zeros,
// all ones, one — so that the last carry passes of the reduction meet saturated or empty limbs: r with such digits,
// input r + k*L for random k. Volume against math/big; a sample goes to the Coq model as well.
func c14PatternedReductions(c *h.Ctx, part int, L *big.Int) {
	n := 6000
	if c.Thorough() {
		n = 60000
	}
	one := big.NewInt(1)
	bad := 0
	for i := 0; i < n && bad < 5; i++ {
		w := []uint{21, 21, 21, 28, 32, 51, 64, 21}[(i+part)%8]
		r := new(big.Int)
		for pos := uint(0); pos < 253; pos += w {
			d := new(big.Int)
			switch c.Rng.Intn(5) {
			case 0: // zero digit
			case 1:
				d.Sub(new(big.Int).Lsh(one, w), one) // all ones
			case 2:
				d.Set(one)
			case 3:
				d.Sub(new(big.Int).Lsh(one, w), big.NewInt(2))
			default:
				d.SetBytes(rnd(c, 9))
				d.Mod(d, new(big.Int).Lsh(one, w))
			}
			r.Or(r, d.Lsh(d, pos))
		}
		r.Mod(r, L)
		want := leBytes(r, 32)
		// 512-bit representative r + k*L
		k := new(big.Int).SetBytes(rnd(c, 33))
		k.Rsh(k, uint(5+c.Rng.Intn(3))) // below 2^259: r + k*L stays below 2^512
		if i%7 == 3 {
			k.SetInt64(int64(c.Rng.Intn(16)))
		}
		v := new(big.Int).Add(r, new(big.Int).Mul(k, L))
		wide := leBytes(v, 64)
		got := ed25519.VerifScalarSetUniformBytes(wide)
		if !bytes.Equal(got, want) {
			bad++
			c.Violation("reduction of a 512-bit value modulo L (result with extreme limbs)", map[string]any{"input": h.Hex(wide), "got": h.Hex(got), "want": h.Hex(want)})
		}
		// 256-bit representative r + k*L with k < 16
		v32 := new(big.Int).Add(r, new(big.Int).Mul(big.NewInt(int64(c.Rng.Intn(15))), L))
		if v32.BitLen() <= 256 {
			in32 := leBytes(v32, 32)
			if got32 := ed25519.VerifScalarSetBytes(in32); !bytes.Equal(got32, want) {
				bad++
				c.Violation("reduction of a 256-bit value modulo L (result with extreme limbs)", map[string]any{"input": h.Hex(in32), "got": h.Hex(got32), "want": h.Hex(want)})
			}
		}
		// x*y + z with z chosen so that the result is r
		x := new(big.Int).Mod(new(big.Int).SetBytes(rnd(c, 40)), L)
		y := new(big.Int).Mod(new(big.Int).SetBytes(rnd(c, 40)), L)
		z := new(big.Int).Mul(x, y)
		z.Sub(r, z).Mod(z, L)
		xb, yb, zb := leBytes(x, 32), leBytes(y, 32), leBytes(z, 32)
		gotMA := ed25519.VerifScalarMulAdd(xb, yb, zb)
		if !bytes.Equal(gotMA, want) {
			bad++
			c.Violation("x*y+z modulo L (result with extreme limbs)", map[string]any{"x": h.Hex(xb), "y": h.Hex(yb), "z": h.Hex(zb), "got": h.Hex(gotMA), "want": h.Hex(want)})
		}
		if i%200 == 0 {
			c.Case("scalar:reduce-64-patterned", true, "ed_reduce", [][]byte{wide}, [][]byte{got})
			c.Case("scalar:mul-add-patterned", true, "ed_mul_add", [][]byte{xb, yb, zb}, [][]byte{gotMA})
		}
	}
	c.Count("scalar:patterned-results-vs-math/big", 3*n, fmt.Sprint(part))
}
