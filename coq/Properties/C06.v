(** C06 — the attester accepts a rate-limited request only if it is authentic.
    Primitives (section variables of the model, arbitrary functions here):
      parse_pk   : a P-384 compressed point decodes;
      sig_verify : ECDSA/SHA-384 verification of sig under the request key;
      blind_pk   : the client key blinded with the supplied blind, re-encoded. *)
From PatVerif Require Import Model.AttesterVerify Proofs.AttesterVerifyP.

Theorem accept_only_authentic : forall parse_pk sig_verify blind_pk s r blind ck s' tr,
  verify_request parse_pk sig_verify blind_pk s r blind ck = (Ok tt, s', tr) ->
  parse_pk (q3_key r) = true /\
  sig_verify (q3_key r) (signed_message r) (q3_sig r) = true /\
  parse_pk ck = true /\
  blind_pk ck blind = q3_key r /\
  s' = register s ck.
Proof. exact accept_only_authentic_l. Qed.
Print Assumptions accept_only_authentic.

Theorem signed_message_covers_request : forall r r',
  length (q3_key r) = 49%nat -> length (q3_key r') = 49%nat ->
  length (q3_nkid r) = 32%nat -> length (q3_nkid r') = 32%nat ->
  fits16 (q3_enc r) = true -> fits16 (q3_enc r') = true ->
  signed_message r = signed_message r' ->
  q3_key r = q3_key r' /\ q3_nkid r = q3_nkid r' /\ q3_enc r = q3_enc r'.
Proof. exact signed_message_inj. Qed.
Print Assumptions signed_message_covers_request.

Theorem authentic_accepted : forall parse_pk sig_verify blind_pk s r blind ck,
  length (q3_sig r) = 96%nat -> fits16 (q3_enc r) = true ->
  parse_pk (q3_key r) = true -> sig_verify (q3_key r) (signed_message r) (q3_sig r) = true ->
  parse_pk ck = true -> blind_pk ck blind = q3_key r ->
  exists tr, verify_request parse_pk sig_verify blind_pk s r blind ck = (Ok tt, register s ck, tr).
Proof. exact authentic_accepted_l. Qed.
Print Assumptions authentic_accepted.

(** a rejected request never creates or alters client state *)
Theorem reject_no_state : forall parse_pk sig_verify blind_pk s r blind ck res s' tr,
  verify_request parse_pk sig_verify blind_pk s r blind ck = (res, s', tr) -> res <> Ok tt ->
  s' = s /\ (forall k, ~ In (CPut k) tr).
Proof. exact reject_no_state_l. Qed.
Print Assumptions reject_no_state.

Theorem accept_registers_once : forall parse_pk sig_verify blind_pk s r blind ck s' tr,
  verify_request parse_pk sig_verify blind_pk s r blind ck = (Ok tt, s', tr) ->
  (forall k, In (CPut k) tr -> k = ck /\ s ck = None) /\
  (forall k, k <> ck -> s' k = s k) /\ (forall st, s ck = Some st -> s' = s).
Proof. exact accept_registers_once_l. Qed.
Print Assumptions accept_registers_once.
