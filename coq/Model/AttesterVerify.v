(** AttesterVerify.v — RateLimitedAttester.VerifyRequest (tokens/type3/attester.go) over three
    primitives.  The decision logic, the signed message and every cache call are modelled;
    curve arithmetic is not. *)
From PatVerif Require Export Model.Attester Model.Codecs.
Open Scope N_scope.

Section Verify.
  (** unmarshalPublicKey(P-384, b) succeeds: b is a valid compressed point encoding *)
  Variable parse_pk : list byte -> bool.
  (** ecdsa.Verify(key, SHA-384(msg), r = sig[:48], s = sig[48:]) for a parsable key *)
  Variable sig_verify : list byte -> list byte -> list byte -> bool.
  (** MarshalCompressed(BlindPublicKeyWithContext(P384, clientKey, CreateKey(blind), u16 3 ++ "ClientBlind")) *)
  Variable blind_pk : list byte -> list byte -> list byte.

  (** the message covered by the request signature *)
  Definition signed_message (r : req3) : list byte :=
    u16 3 ++ q3_key r ++ q3_nkid r ++ u16p (q3_enc r).

  Inductive cache_call := CGet (k : key) | CPut (k : key).

  (** innerVerifyRequest *)
  Definition inner_verify (r : req3) : res unit :=
    if negb (parse_pk (q3_key r)) then Err
    else if negb (Nat.eqb (length (q3_sig r)) 96) then Err           (* len(Signature) != 2*scalarLen *)
    else if negb (fits16 (q3_enc r)) then Panic                      (* BytesOrPanic of the builder *)
    else if sig_verify (q3_key r) (signed_message r) (q3_sig r) then Ok tt else Err.

  Definition verify_request (s : cache) (r : req3) (blind client_key : list byte)
    : res unit * cache * list cache_call :=
    match inner_verify r with
    | Panic => (Panic, s, [])
    | Err => (Err, s, [])
    | Ok _ =>
      if negb (parse_pk client_key) then (Err, s, [])
      else if negb (bytes_eqb (blind_pk client_key blind) (q3_key r)) then (Err, s, [])
      else match s client_key with
           | Some _ => (Ok tt, s, [CGet client_key])
           | None => (Ok tt, fset s client_key fresh_cstate, [CGet client_key; CPut client_key])
           end
    end.
End Verify.

Close Scope N_scope.
