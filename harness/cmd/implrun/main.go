// implrun runs the implementation under /repo (built with -tags verif from the current
// working tree) on generated cases and writes (a) a case file for the model runner and
// (b) a result file with predicate violations and the measured input distribution.
package main

import (
	"flag"
	"fmt"
	"os"
	"runtime/debug"

	"verif/harness/internal/h"
)

var props = map[string]func(*h.Ctx){}

// repoDir: the source tree the harness was built against (/repo, or the scratch copy a seeded change is tried in).
func repoDir() string {
	if d := os.Getenv("VERIF_REPO"); d != "" {
		return d
	}
	return "/repo"
}

func main() {
	prop := flag.String("prop", "", "property id")
	tier := flag.String("tier", "quick", "quick|thorough")
	seed := flag.Int64("seed", 1, "PRNG seed")
	cases := flag.String("cases", "cases.txt", "case file for the model runner")
	result := flag.String("result", "result.json", "result file")
	flag.Parse()
	f, ok := props[*prop]
	if !ok {
		fmt.Fprintln(os.Stderr, "unknown property", *prop)
		os.Exit(2)
	}
	c := h.NewCtx(*prop, *tier, *seed, *cases)
	func() {
		defer func() {
			if r := recover(); r != nil {
				// a panic that escaped every protected call: attribute it instead of dying without a verdict
				c.Violation("implementation panicked outside a protected call", map[string]any{"panic": fmt.Sprint(r), "stack": string(debug.Stack())})
			}
		}()
		f(c)
	}()
	c.Finish(*result)
}
