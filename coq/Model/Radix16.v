(** Radix16.v — Scalar.signedRadix16 of ed25519/internal/edwards25519/scalar.go: the 64 signed radix-16 digits the
    constant-time scalar multiplications (ScalarMult, ScalarBaseMult) consume.  int8 arithmetic as integers: the
    theorem (Proofs/Radix16P.v) shows every intermediate fits in an int8. *)
From Coq Require Import ZArith NArith List.
From PatVerif Require Export Base.Bytes.
Import ListNotations.
Open Scope Z_scope.

(** digits[2i] = s[i] & 15, digits[2i+1] = (s[i] >> 4) & 15 *)
Definition nibbles (s : list byte) : list Z :=
  flat_map (fun b => [Z.of_N (N.land (b2n b) 15); Z.of_N (N.land (N.shiftr (b2n b) 4) 15)]) s.

(** for i < len-1: carry = (d[i] + 8) >> 4; d[i] -= carry << 4; d[i+1] += carry *)
Fixpoint recenter (carry : Z) (ds : list Z) : list Z :=
  match ds with
  | [] => []
  | d :: rest =>
    let d' := d + carry in
    match rest with
    | [] => [d']
    | _ => let c := Z.shiftr (d' + 8) 4 in (d' - Z.shiftl c 4) :: recenter c rest
    end
  end.

Definition signed_radix16 (s : list byte) : list Z := recenter 0 (nibbles s).

(** two's complement byte of a digit, the wire form used by the harness *)
Definition digit_byte (d : Z) : byte := n2b (Z.to_N (d mod 256)).
