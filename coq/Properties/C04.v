(** C04 — wire codecs round-trip, re-encode stably and keep request types apart.
    Statements only; proofs are [exact] of lemmas in Proofs/{CodecsP,BatchCodecsP,C04P}.v. *)
From PatVerif Require Import Model.BatchCodecs Proofs.CodecsP Proofs.BatchCodecsP Proofs.C04P.
Open Scope N_scope.

(** ** Token (nk = 48, 256, 256, 64 for types 1, 2, 3, 5) *)
Theorem token_dec_enc : forall nk t, wf_token nk t -> dec_token nk (enc_token t) = Some t.
Proof. exact token_dec_enc_l. Qed.
Print Assumptions token_dec_enc.
Theorem token_canonical : forall nk b t, dec_token nk b = Some t ->
  (length (enc_token t) <= length b)%nat /\ dec_token nk (enc_token t) = Some t.
Proof. exact token_canonical_l. Qed.
Print Assumptions token_canonical.

(** ** TokenChallenge *)
Theorem challenge_dec_enc : forall c, wf_challenge c -> dec_challenge (enc_challenge c) = Some c.
Proof. exact challenge_dec_enc_l. Qed.
Print Assumptions challenge_dec_enc.
Theorem challenge_canonical : forall b c, dec_challenge b = Some c ->
  (length (enc_challenge c) <= length b)%nat /\ dec_challenge (enc_challenge c) = Some c /\
  marshal_challenge c = Ok (enc_challenge c).
Proof. exact dec_challenge_canonical. Qed.
Print Assumptions challenge_canonical.
Theorem origin_info_join_split : forall s, join_comma (split_comma s) = s.
Proof. exact join_split. Qed.
Theorem origin_info_split_join : forall l, l <> [] -> Forall no_comma l -> split_comma (join_comma l) = l.
Proof. exact split_join. Qed.
Print Assumptions origin_info_split_join.

(** ** TokenRequest types 1 and 2 (ty = 1, ne = 49; ty = 2, ne = 256), any previous object state *)
Theorem req12_dec_enc : forall ty ne old r, ty < 65536 -> wf_req12 ne r ->
  unmarshal12 ty ne old (enc_req12 ty r) = (true, {| raw := None; val := r |}).
Proof. exact req12_dec_enc_l. Qed.
Print Assumptions req12_dec_enc.
Theorem req12_canonical : forall ty ne old b o, unmarshal12 ty ne old b = (true, o) ->
  let e := enc_req12 ty (val o) in
  (length e <= length b)%nat /\ fst (marshal12 ty o) = e /\
  forall old', unmarshal12 ty ne old' e = (true, {| raw := None; val := val o |}).
Proof. exact req12_canonical_l. Qed.
Print Assumptions req12_canonical.
Theorem req12_type_separation : forall ty ne old b t r, read_u16 b = Some (t, r) -> t <> ty ->
  fst (unmarshal12 ty ne old b) = false.
Proof. exact req12_type_sep_l. Qed.
Print Assumptions req12_type_separation.

(** ** TokenRequest type 3 (exact: trailing data is rejected) *)
Theorem req3_dec_enc : forall old r, wf_req3 r ->
  unmarshal um_req3 old (enc_req3 r) = (true, {| raw := None; val := r |}).
Proof. exact req3_dec_enc_l. Qed.
Print Assumptions req3_dec_enc.
Theorem req3_canonical : forall old b o, unmarshal um_req3 old b = (true, o) ->
  b = enc_req3 (val o) /\ fst (marshal enc_req3 o) = enc_req3 (val o) /\ wf_req3 (val o).
Proof. exact req3_canonical_l. Qed.
Print Assumptions req3_canonical.
Theorem req3_type_separation : forall old b t r, read_u16 b = Some (t, r) -> t <> 3 ->
  fst (unmarshal um_req3 old b) = false.
Proof. exact req3_type_sep_l. Qed.
Print Assumptions req3_type_separation.

(** ** TokenRequest type 5 *)
Theorem req5_dec_enc : forall old r, wf_req5 r ->
  unmarshal um_req5 old (enc_req5 r) = (true, {| raw := None; val := r |}).
Proof. exact req5_dec_enc_l. Qed.
Print Assumptions req5_dec_enc.
Theorem req5_canonical : forall old b o, unmarshal um_req5 old b = (true, o) ->
  let e := enc_req5 (val o) in
  (length e <= length b)%nat /\ fst (marshal enc_req5 o) = e /\
  forall old', unmarshal um_req5 old' e = (true, {| raw := None; val := val o |}).
Proof. exact req5_canonical_l. Qed.
Print Assumptions req5_canonical.
Theorem req5_type_separation : forall old b t r, read_u16 b = Some (t, r) -> t <> 5 ->
  fst (unmarshal um_req5 old b) = false.
Proof. exact req5_type_sep_l. Qed.
Print Assumptions req5_type_separation.

(** ** Type-3 inner request *)
Theorem inner_dec_enc : forall old r, wf_inner r ->
  unmarshal um_inner old (enc_inner r) = (true, {| raw := None; val := r |}).
Proof. exact inner_dec_enc_l. Qed.
Print Assumptions inner_dec_enc.
Theorem inner_canonical : forall old b o, unmarshal um_inner old b = (true, o) ->
  let e := enc_inner (val o) in
  (length e <= length b)%nat /\ fst (marshal enc_inner o) = e /\
  forall old', unmarshal um_inner old' e = (true, {| raw := None; val := val o |}).
Proof. exact inner_canonical_l. Qed.
Print Assumptions inner_canonical.

(** ** Encapsulation key; [pkv] = KEM.DeserializePublicKey succeeds (primitive) *)
Theorem encap_dec_enc : forall pkv k, wf_encap pkv k -> dec_encap pkv (enc_encap k) = Some k.
Proof. exact encap_dec_enc_l. Qed.
Print Assumptions encap_dec_enc.
Theorem encap_canonical : forall pkv b k, dec_encap pkv b = Some k ->
  (length (enc_encap k) <= length b)%nat /\ dec_encap pkv (enc_encap k) = Some k.
Proof. exact encap_canonical_l. Qed.
Print Assumptions encap_canonical.

(** ** Request objects: every history of Marshal/Unmarshal calls, every previous state *)
Theorem marshal_after_any_history : forall (A : Type) (enc : A -> list byte) (um : A -> list byte -> bool * A)
  (v0 : A) (h : list op),
  let o := fold_left (step enc um) h {| raw := None; val := v0 |} in
  fst (marshal enc o) = enc (val o).
Proof. exact @history_marshal_canonical. Qed.
Print Assumptions marshal_after_any_history.
Theorem marshal_after_unmarshal_on_reused_object : forall (A : Type) (enc : A -> list byte)
  (um : A -> list byte -> bool * A) (old : obj A) b,
  let '(ok, o) := unmarshal um old b in fst (marshal enc o) = enc (val o).
Proof. exact @reuse_any_previous_state. Qed.
Print Assumptions marshal_after_unmarshal_on_reused_object.

(** ** Generic batch request list *)
Theorem batch_dec_enc : forall l, wf_batch l -> dec_batch (enc_batch l) = Some l.
Proof. exact batch_dec_enc_l. Qed.
Print Assumptions batch_dec_enc.
Theorem batch_canonical : forall b l, dec_batch b = Some l ->
  (length (enc_batch l) <= length b)%nat /\ dec_batch (enc_batch l) = Some l /\
  Forall (fun it => fst it = 1 \/ fst it = 2) l.
Proof. exact batch_canonical_l. Qed.
Print Assumptions batch_canonical.
Theorem batch_rejects_other_types : forall l1 ty rest fuel,
  Forall wf_bitem l1 -> ty <> 1 -> ty <> 2 -> ty < 65536 ->
  dec_items fuel (concat (map enc_bitem l1) ++ u16 ty ++ rest) = None.
Proof. exact batch_rejects_other_types_l. Qed.
Print Assumptions batch_rejects_other_types.

(** ** Generic batch response list *)
Theorem resps_dec_enc : forall l, Forall wf_resp l ->
  N.of_nat (length (concat (map enc_resp_item l))) <= max_varint -> dec_resps (enc_resps l) = Some l.
Proof. exact resps_dec_enc_l. Qed.
Print Assumptions resps_dec_enc.
Theorem resps_canonical : forall b l, dec_resps b = Some l ->
  (length (enc_resps l) <= length b)%nat /\ dec_resps (enc_resps l) = Some l.
Proof. exact resps_canonical_l. Qed.
Print Assumptions resps_canonical.
