package main

import (
	"bytes"
	stdecdsa "crypto/ecdsa"
	stded "crypto/ed25519"
	"crypto/elliptic"
	crand "crypto/rand"
	"crypto/sha512"
	"fmt"
	"math/big"
	"runtime"
	"sync"

	"github.com/cloudflare/circl/group"
	"github.com/cloudflare/circl/oprf"
	"github.com/cloudflare/pat-go/ecdsa"
	"github.com/cloudflare/pat-go/ed25519"
	"github.com/cloudflare/pat-go/quicwire"
	"github.com/cloudflare/pat-go/tokens"
	"github.com/cloudflare/pat-go/tokens/type1"
	"github.com/cloudflare/pat-go/tokens/type2"
	"github.com/cloudflare/pat-go/tokens/type3"
	"github.com/cloudflare/pat-go/tokens/type5"
	"verif/harness/internal/h"
)

// tokensIndependent: the tokens one call hands out are independent values. The spare capacity behind the LAST field
// of each token (what a caller's append to the authenticator writes into) is overwritten; every token of the batch
// must still read as it did. (Within one token the earlier fields are windows into the token's own encoding, as
// UnmarshalToken leaves them; only the memory behind the end of a token is private to it.)
func tokensIndependent(c *h.Ctx, toks []tokens.Token, det map[string]any) {
	if len(toks) == 0 {
		return
	}
	snap := make([][]byte, len(toks))
	for i, t := range toks {
		snap[i] = t.Marshal()
	}
	c.Count("tokens-of-one-call-are-independent", 1, h.Hex(snap[0]))
	for i := range toks {
		a := toks[i].Authenticator
		ext := a[:cap(a)]
		for k := len(a); k < len(ext); k++ {
			ext[k] ^= 0xA5
		}
		for j, t := range toks {
			if !bytes.Equal(t.Marshal(), snap[j]) {
				d := map[string]any{"written_behind_token": i, "changed_token": j, "batch": len(toks)}
				for k, v := range det {
					d[k] = v
				}
				c.Violation("appending to one returned token leaves the other tokens of the call as they were", d)
				return
			}
		}
	}
}

// c02ForgedAfterFailedDecode: a malicious type-5 issuer (it knows its own key, nothing else) answers a batch with one
// element that is no ristretto255 encoding at all, the other elements evaluated under ANOTHER key, and the DLEQ
// transcript a verifier would compute if it carried on after the failed decoding with whatever the decoder left behind
// (the zero value of the element type, which absorbs every group operation). The client must refuse, or every token it
// returns must verify under the pinned key.
func c02ForgedAfterFailedDecode(c *h.Ctx) {
	g := group.Ristretto255
	const dst = "OPRFV1-\x01-ristretto255-SHA512"
	lp := func(b []byte) []byte { return cat(u16b(uint16(len(b))), b) }
	enc := func(e group.Element) []byte { b, _ := e.MarshalBinaryCompress(); return b }
	for _, n := range []int{2, 3, 5} {
		for bad := 0; bad < n; bad++ {
			sk, _ := oprf.DeriveKey(oprf.SuiteRistretto255, oprf.VerifiableMode, rnd(c, 32), nil)
			iss := type5.NewBatchedPrivateIssuer(sk)
			chal := rnd(c, 32)
			var nonces [][]byte
			for j := 0; j < n; j++ {
				nonces = append(nonces, rnd(c, 32))
			}
			st, err := type5.NewBatchedPrivateClient().CreateTokenRequest(chal, nonces, iss.TokenKeyID(), iss.TokenKey())
			if err != nil {
				continue
			}
			kEnc, _ := sk.MarshalBinary()
			k := g.NewScalar()
			k.UnmarshalBinary(kEnc)
			pkEnc, _ := iss.TokenKey().MarshalBinary()
			var blinded, evaluated []group.Element
			var evaluatedEnc [][]byte
			kOther := g.HashToScalar(rnd(c, 32), []byte("other key"))
			for j := 0; j < n; j++ {
				b := g.NewElement()
				if b.UnmarshalBinary(st.Request().BlindedReq[j]) != nil {
					return
				}
				blinded = append(blinded, b)
				if j == bad {
					garbage := bytesFF(32)
					e := g.NewElement()
					if e.UnmarshalBinary(garbage) == nil {
						return
					}
					evaluated, evaluatedEnc = append(evaluated, e), append(evaluatedEnc, garbage)
				} else {
					e := g.NewElement().Mul(b, kOther)
					evaluated, evaluatedEnc = append(evaluated, e), append(evaluatedEnc, enc(e))
				}
			}
			var resp []byte
			pan, _ := h.Protect(func() {
				hh := sha512.New()
				hh.Write(lp(pkEnc))
				hh.Write(lp([]byte("Seed-" + dst)))
				seed := hh.Sum(nil)
				h2s := []byte("HashToScalar-" + dst)
				M, Z := g.Identity(), g.Identity()
				for j := range blinded {
					in := cat(lp(seed), u16b(uint16(j)), lp(enc(blinded[j])), lp(enc(evaluated[j])), []byte("Composite"))
					dj := g.HashToScalar(in, h2s)
					M.Add(M, g.NewElement().Mul(blinded[j], dj))
					Z.Add(Z, g.NewElement().Mul(evaluated[j], dj))
				}
				r := g.HashToScalar(rnd(c, 32), []byte("nonce"))
				t2 := g.NewElement().MulGen(r)
				one := g.NewScalar().SetUint64(1)
				t3 := g.NewElement().Add(g.NewElement().Mul(M, one), g.NewElement().Mul(Z, one))
				tr := cat(lp(pkEnc), lp(enc(M)), lp(enc(Z)), lp(enc(t2)), lp(enc(t3)), []byte("Challenge"))
				ch := g.HashToScalar(tr, h2s)
				s := g.NewScalar().Sub(r, g.NewScalar().Mul(ch, k))
				cEnc, _ := ch.MarshalBinary()
				sEnc, _ := s.MarshalBinary()
				list := cat(evaluatedEnc...)
				resp = cat(quicwire.AppendVarint(nil, uint64(len(list))), list, cEnc, sEnc)
			})
			if pan || resp == nil {
				continue // the group library refuses to compute with the undecoded value: nothing to present
			}
			var toks []tokens.Token
			var ferr error
			fpan, msg := h.Protect(func() { toks, ferr = st.FinalizeTokens(resp) })
			c.Count("type5:forged-after-failed-decode", 1, h.Hex(resp))
			det := map[string]any{"type": 5, "batch": n, "undecodable_element": bad, "response": h.Hex(resp)}
			if fpan {
				det["panic"] = msg
				c.Violation("finalization does not panic on a peer's response", det)
				continue
			}
			if ferr == nil {
				for j, t := range toks {
					if iss.Verify(t) != nil {
						det["index"] = j
						c.Violation("a client outputs only tokens that verify under the pinned key (response with an undecodable element and a transcript forged for it)", det)
						break
					}
				}
			}
		}
	}
}

func liveHeap() uint64 {
	runtime.GC()
	runtime.GC()
	var m runtime.MemStats
	runtime.ReadMemStats(&m)
	return m.HeapAlloc
}

// c03RetainedOverHistory: a history of refused inputs leaves nothing behind. Each input is well formed up to the point
// of refusal and differs from all others in a field an implementation might remember (a request key that IS a curve
// point, the name key id, the ciphertext); the live heap after garbage collection is compared before and after.
func c03RetainedOverHistory(c *h.Ctx, name string, seed []byte, f func([]byte) bool) {
	n := 5000
	if c.Thorough() {
		n = 12000
	}
	if len(seed) < 2+49+32+16 {
		return
	}
	// distinct valid compressed P-384 points
	var keys [][]byte
	for len(keys) < n {
		k := cat([]byte{2 + byte(len(keys)&1)}, rnd(c, 48))
		if x, _ := elliptic.UnmarshalCompressed(elliptic.P384(), k); x != nil {
			keys = append(keys, k)
		}
	}
	inputs := make([][]byte, n)
	for i := range inputs {
		m := append([]byte{}, seed...)
		copy(m[2:51], keys[i])
		if i%3 == 1 {
			copy(m[51:83], rnd(c, 32)) // another name key id as well
		}
		if i%3 == 2 {
			copy(m[len(m)-96-16:len(m)-96], rnd(c, 16)) // the ciphertext's tag as well
		}
		inputs[i] = m
	}
	keys = nil
	accepted := 0
	f(inputs[0]) // first-use initialisation is not growth
	before := liveHeap()
	for _, m := range inputs {
		journalCase(name+" (history)", m)
		if f(m) {
			accepted++
		}
	}
	after := liveHeap()
	c.Count(name+":history-of-refused-requests", n, "")
	growth := int64(after) - int64(before)
	if accepted == 0 && growth > 384<<10 {
		c.Violation("a history of refused inputs leaves no memory behind (live heap after GC)", map[string]any{"function": name, "refused_requests": n, "live_heap_growth_bytes": growth,
			"shape": "well-formed type-3 requests with pairwise distinct valid request keys and an invalid signature"})
	}
	c.Sample(map[string]any{"function": name, "history": n, "live_heap_growth_bytes": growth})
	runtime.KeepAlive(inputs)
}

// c10Sweeps: on one honest token per issuer, EVERY other value of the 16-bit type field, and every change of the same
// bit in two bytes of the authenticator (differences that a folded comparison would cancel): all must be rejected.
// Volume: the issuer is called from all cores (it is shared between goroutines by contract); no model case per call —
// the expected verdict is "rejected" for every one of them (acceptance would be a PRF collision).
func c10Sweeps(c *h.Ctx, is *c10Issuer, tok tokens.Token) {
	type job struct {
		kind string
		v    tokens.Token
		a, b int
	}
	jobs := make(chan job, 256)
	var mu sync.Mutex
	bad := 0
	var wg sync.WaitGroup
	for w := 0; w < runtime.NumCPU(); w++ {
		wg.Add(1)
		go func() {
			defer wg.Done()
			for j := range jobs {
				var err error
				pan, _ := h.Protect(func() { err = is.verify(j.v) })
				if pan || err == nil {
					mu.Lock()
					if bad < 5 {
						c.Violation("a token changed in "+j.kind+" is accepted", map[string]any{"issuer": is.name, "a": j.a, "b": j.b, "type": j.v.TokenType, "authenticator": h.Hex(j.v.Authenticator), "panic": pan})
					}
					bad++
					mu.Unlock()
				}
			}
		}()
	}
	n := 0
	for t := 0; t < 1<<16; t++ {
		if uint16(t) == tok.TokenType {
			continue
		}
		v := cloneTok(tok)
		v.TokenType = uint16(t)
		jobs <- job{"the type field (every 16-bit value)", v, t, 0}
		n++
	}
	na := len(tok.Authenticator)
	stepBits := []int{0, 7}
	if c.Thorough() {
		stepBits = []int{0, 1, 2, 3, 4, 5, 6, 7}
	}
	for a := 0; a < na; a++ {
		for b := a + 1; b < na; b++ {
			for _, bit := range stepBits {
				v := cloneTok(tok)
				v.Authenticator[a] ^= 1 << uint(bit)
				v.Authenticator[b] ^= 1 << uint(bit)
				jobs <- job{"the same bit of two authenticator bytes", v, a, b}
				n++
			}
		}
	}
	// the same byte difference in four / eight positions one word apart
	for off := 0; off+24 < na; off++ {
		for _, d := range []byte{0x01, 0x80, 0xff} {
			v := cloneTok(tok)
			for k := 0; off+8*k < na && k < 4; k++ {
				v.Authenticator[off+8*k] ^= d
			}
			jobs <- job{"the same difference in four bytes one word apart", v, off, int(d)}
			n++
		}
	}
	close(jobs)
	wg.Wait()
	c.Count("sweep:type-field-and-paired-authenticator-changes:"+is.name, n, "")
}

// c12RelatedKeys: keys that stand in an algebraic relation to the blind — a signing key d = t * factor^-1 (the blinded
// scalar is then t = 1, 2, 3, N-1, ...: the blinded public key is [t]G, G itself for t = 1), and public keys whose
// blinded image is a point with an extreme coordinate (x = 0 where the curve has such a point, x = 1, 2, p-1, ...).
// All of them are valid keys: blinding, unblinding and signing must work and agree with the reference.
func c12RelatedKeys(c *h.Ctx, cv curveT) {
	curve := cv.c
	N, P, B := curve.Params().N, curve.Params().P, curve.Params().B
	name := curve.Params().Name
	contexts := [][]byte{nil, {0x41}, rnd(c, 40)}
	for bi := 0; bi < 2; bi++ {
		bl := rnd(c, scalarLen(curve))
		bk, err := ecdsa.CreateKey(curve, bl)
		if err != nil {
			continue
		}
		for _, ctx := range contexts {
			f, err := ecdsa.VerifHashBlind(curve, bk, ctx)
			mf := new(big.Int).SetBytes(c.Model("ecdsa_blind_factor", []byte{cv.id}, bl, ctx)[0])
			if err != nil || f.Cmp(mf) != 0 || mf.Sign() == 0 {
				continue // compared elsewhere
			}
			inv := new(big.Int).ModInverse(mf, N)
			// --- signing keys whose blinded scalar is t ---
			for _, t := range []*big.Int{big.NewInt(1), big.NewInt(2), big.NewInt(3), new(big.Int).Sub(N, big.NewInt(1)), new(big.Int).Sub(N, big.NewInt(2))} {
				d := new(big.Int).Mul(t, inv)
				d.Mod(d, N)
				sk, err := ecdsa.CreateKey(curve, d.FillBytes(make([]byte, scalarLen(curve))))
				det := map[string]any{"curve": name, "blind_key": h.Hex(bl), "context": h.Hex(ctx), "secret": d.String(), "blinded_scalar": t.String()}
				if err != nil {
					continue
				}
				c.Count(name+":related-keys:blinded-scalar-small", 1, d.String())
				tx, ty := curve.ScalarBaseMult(t.Bytes())
				var pkB *ecdsa.PublicKey
				pan, msg := h.Protect(func() { pkB, err = ecdsa.BlindPublicKeyWithContext(curve, &sk.PublicKey, bk, ctx) })
				if pan || err != nil || !samePoint(pkB.X, pkB.Y, tx, ty) {
					det["panic"], det["err"] = msg, fmt.Sprint(err)
					c.Violation("the blinded public key of d = t/factor is [t]G", det)
					continue
				}
				digest := rnd(c, 48)
				var r, s *big.Int
				pan, msg = h.Protect(func() { r, s, err = ecdsa.BlindKeySignWithContext(crand.Reader, sk, bk, digest, ctx) })
				if pan || err != nil {
					det["panic"], det["err"] = msg, fmt.Sprint(err)
					c.Violation("BlindKeySignWithContext fails for a valid signing key (blinded scalar "+t.String()+")", det)
					continue
				}
				if !ecdsa.Verify(pkB, digest, r, s) || !stdecdsa.Verify(&stdecdsa.PublicKey{Curve: curve, X: tx, Y: ty}, digest, r, s) {
					c.Violation("a signature made with the blinded signing key verifies under the blinded public key", det)
				}
				if pkU, err := ecdsa.UnblindPublicKeyWithContext(curve, pkB, bk, ctx); err != nil || !samePoint(pkU.X, pkU.Y, sk.PublicKey.X, sk.PublicKey.Y) {
					c.Violation("unblinding inverts blinding", det)
				}
			}
			// --- public keys whose blinded image has an extreme coordinate ---
			for _, x := range []*big.Int{big.NewInt(0), big.NewInt(1), big.NewInt(2), big.NewInt(3), new(big.Int).Sub(P, big.NewInt(1)), new(big.Int).Sub(P, big.NewInt(2))} {
				// y^2 = x^3 - 3x + b
				rhs := new(big.Int).Exp(x, big.NewInt(3), P)
				rhs.Sub(rhs, new(big.Int).Mul(big.NewInt(3), x)).Add(rhs, B).Mod(rhs, P)
				y := new(big.Int).ModSqrt(rhs, P)
				if y == nil || !curve.IsOnCurve(x, y) {
					continue
				}
				for sgn := 0; sgn < 2; sgn++ {
					if sgn == 1 {
						y = new(big.Int).Sub(P, y)
					}
					T := &ecdsa.PublicKey{Curve: curve, X: new(big.Int).Set(x), Y: new(big.Int).Set(y)}
					det := map[string]any{"curve": name, "blind_key": h.Hex(bl), "context": h.Hex(ctx), "target_x": x.String(), "target_y": y.String()}
					c.Count(name+":related-keys:blinded-image-extreme-coordinate", 1, x.String()+fmt.Sprint(sgn, bi))
					var pk, back *ecdsa.PublicKey
					var err error
					pan, msg := h.Protect(func() { pk, err = ecdsa.UnblindPublicKeyWithContext(curve, T, bk, ctx) })
					if pan || err != nil {
						det["panic"], det["err"] = msg, fmt.Sprint(err)
						c.Violation("unblinding a valid public key fails", det)
						continue
					}
					ux, uy := curve.ScalarMult(x, y, inv.Bytes())
					if !samePoint(pk.X, pk.Y, ux, uy) {
						c.Violation("the unblinded key is the key multiplied by the inverse of the blinding factor", det)
					}
					pan, msg = h.Protect(func() { back, err = ecdsa.BlindPublicKeyWithContext(curve, pk, bk, ctx) })
					if pan || err != nil || !samePoint(back.X, back.Y, x, y) {
						det["panic"], det["err"] = msg, fmt.Sprint(err)
						c.Violation("blinding inverts unblinding (the blinded image is a valid point with an extreme coordinate)", det)
					}
					// the point itself as a key to blind: compared with the reference multiplication
					var img *ecdsa.PublicKey
					pan, msg = h.Protect(func() { img, err = ecdsa.BlindPublicKeyWithContext(curve, T, bk, ctx) })
					wx, wy := curve.ScalarMult(x, y, mf.Bytes())
					if pan || err != nil || !samePoint(img.X, img.Y, wx, wy) {
						det["panic"], det["err"] = msg, fmt.Sprint(err)
						c.Violation("the blinded public key is the public key multiplied by the factor (key with an extreme coordinate)", det)
					}
				}
			}
		}
	}
}

// c16Comparisons: Equals / Equal / IsEqual are read-only: both operands read afterwards exactly as before — their
// encodings, and for the challenge the ORDER of its origin list (held in caller-owned memory behind a by-value struct).
func c16Comparisons(c *h.Ctx) {
	// challenges whose origin lists are not sorted, equal and unequal pairs
	mk := func(origins ...string) tokens.TokenChallenge {
		return tokens.TokenChallenge{TokenType: 2, IssuerName: "issuer.example", RedemptionNonce: bytes.Repeat([]byte{7}, 32), OriginInfo: origins}
	}
	pairs := [][2]tokens.TokenChallenge{
		{mk("z.example", "a.example", "m.example"), mk("z.example", "a.example", "m.example")},
		{mk("z.example", "a.example"), mk("a.example", "z.example")},
		{mk("b.example", "a.example", "c.example"), mk("b.example")},
		{mk("b.example", "a.example"), mk()},
	}
	for pi, p := range pairs {
		a, b := p[0], p[1]
		la, lb := append([]string{}, a.OriginInfo...), append([]string{}, b.OriginInfo...)
		ma, mb := a.Marshal(), b.Marshal()
		var r1, r2 bool
		pan, msg := h.Protect(func() { r1, r2 = a.Equals(b), b.Equals(a) })
		c.Count("comparison:TokenChallenge.Equals", 2, fmt.Sprint(pi))
		det := map[string]any{"operation": "tokens.TokenChallenge.Equals", "pair": pi, "origins_a": la, "origins_b": lb, "panic": msg}
		same := func(x, y []string) bool {
			if len(x) != len(y) {
				return false
			}
			for i := range x {
				if x[i] != y[i] {
					return false
				}
			}
			return true
		}
		if pan || !same(a.OriginInfo, la) || !same(b.OriginInfo, lb) || !bytes.Equal(a.Marshal(), ma) || !bytes.Equal(b.Marshal(), mb) {
			det["origins_a_after"], det["origins_b_after"] = a.OriginInfo, b.OriginInfo
			c.Violation("a comparison leaves both operands as they were (origin list order, encoding, hence the challenge digest)", det)
		}
		if r1 != r2 {
			c.Violation("a comparison is symmetric", det)
		}
	}
	// requests of every type
	sk1, _ := oprf.DeriveKey(oprf.SuiteP384, oprf.VerifiableMode, rnd(c, 32), nil)
	i1 := type1.NewBasicPrivateIssuer(sk1)
	i2 := type2.NewBasicPublicIssuer(rsaKey(0))
	sk5, _ := oprf.DeriveKey(oprf.SuiteRistretto255, oprf.VerifiableMode, rnd(c, 32), nil)
	i5 := type5.NewBatchedPrivateIssuer(sk5)
	chal := rnd(c, 20)
	type cmp struct {
		name string
		a, b func() []byte // encodings of the two operands
		eq   func() bool
	}
	var cs []cmp
	if sa, e1 := type1.NewBasicPrivateClient().CreateTokenRequest(chal, rnd(c, 32), i1.TokenKeyID(), i1.TokenKey()); e1 == nil {
		sb, _ := type1.NewBasicPrivateClient().CreateTokenRequest(chal, rnd(c, 32), i1.TokenKeyID(), i1.TokenKey())
		ra, rb := sa.Request(), sb.Request()
		cs = append(cs, cmp{"type1.BasicPrivateTokenRequest.Equal", ra.Marshal, rb.Marshal, func() bool { return ra.Equal(*rb) == rb.Equal(*ra) && ra.Equal(*ra) }})
	}
	if sa, e2 := type2.NewBasicPublicClient().CreateTokenRequest(chal, rnd(c, 32), i2.TokenKeyID(), i2.TokenKey()); e2 == nil {
		sb, _ := type2.NewBasicPublicClient().CreateTokenRequest(chal, rnd(c, 32), i2.TokenKeyID(), i2.TokenKey())
		ra, rb := sa.Request(), sb.Request()
		cs = append(cs, cmp{"type2.BasicPublicTokenRequest.Equal", ra.Marshal, rb.Marshal, func() bool { return ra.Equal(*rb) == rb.Equal(*ra) && ra.Equal(*ra) }})
	}
	if sa, e5 := type5.NewBatchedPrivateClient().CreateTokenRequest(chal, [][]byte{rnd(c, 32), rnd(c, 32)}, i5.TokenKeyID(), i5.TokenKey()); e5 == nil {
		sb, _ := type5.NewBatchedPrivateClient().CreateTokenRequest(chal, [][]byte{rnd(c, 32), rnd(c, 32)}, i5.TokenKeyID(), i5.TokenKey())
		ra, rb := sa.Request(), sb.Request()
		cs = append(cs, cmp{"type5.BatchedPrivateTokenRequest.Equal", ra.Marshal, rb.Marshal, func() bool { return ra.Equal(*rb) == rb.Equal(*ra) && ra.Equal(*ra) }})
	}
	env := newT3(c, 0, rnd(c, 32), map[string][]byte{"origin.example": rnd(c, 48)})
	cl := type3.NewRateLimitedClientFromSecret(rnd(c, 48))
	if sa, e3 := env.request(cl, chal, rnd(c, 32), rnd(c, 48), "origin.example"); e3 == nil {
		sb, _ := env.request(cl, chal, rnd(c, 32), rnd(c, 48), "origin.example")
		ra, rb := sa.Request(), sb.Request()
		cs = append(cs, cmp{"type3.RateLimitedTokenRequest.Equal", ra.Marshal, rb.Marshal, func() bool { return ra.Equal(*rb) == rb.Equal(*ra) && ra.Equal(*ra) }})
	}
	for _, x := range cs {
		ma, mb := x.a(), x.b()
		var ok bool
		pan, msg := h.Protect(func() { ok = x.eq() })
		c.Count("comparison:"+x.name, 3, x.name)
		if pan || !ok || !bytes.Equal(x.a(), ma) || !bytes.Equal(x.b(), mb) {
			c.Violation("a comparison leaves both operands as they were, is symmetric and reflexive", map[string]any{"operation": x.name, "panic": msg})
		}
	}
}

// c14SeedInLargerBuffer: the seed is a window into a longer secret (a 64-byte master secret, a key file read into one
// buffer): the key is crypto/ed25519's, the bytes behind the seed are untouched, and the key does not change when the
// caller wipes its buffer afterwards.
func c14SeedInLargerBuffer(c *h.Ctx) {
	for _, total := range []int{32, 33, 63, 64, 65, 96, 128} {
		buf := rnd(c, total)
		before := clone(buf)
		seed := buf[:32]
		want := stded.NewKeyFromSeed(clone(seed))
		var got ed25519.PrivateKey
		pan, msg := h.Protect(func() { got = ed25519.NewKeyFromSeed(seed) })
		c.Count("key-derivation:seed-inside-a-longer-buffer", 1, fmt.Sprint(total))
		det := map[string]any{"buffer_len": total, "seed_cap": cap(seed), "panic": msg}
		if pan || !bytes.Equal(got, want) {
			c.Violation("key derivation produces exactly the bytes crypto/ed25519 produces (seed with spare capacity)", det)
			continue
		}
		if !bytes.Equal(buf, before) {
			c.Violation("key derivation leaves the memory behind the seed alone", det)
		}
		if total >= 64 { // the second half of a 64-byte master secret as another seed
			k2 := ed25519.NewKeyFromSeed(buf[32:64])
			if !bytes.Equal(k2, stded.NewKeyFromSeed(clone(before[32:64]))) {
				c.Violation("a second key derived from the bytes behind the first seed is crypto/ed25519's", det)
			}
		}
		for i := range buf {
			buf[i] = 0
		}
		if !bytes.Equal(got, want) {
			c.Violation("the private key does not change when the caller wipes the buffer the seed came from", det)
		}
	}
}

// c06NearMissRequestKeys: the request is genuinely signed by the key it names, but the client key presented beside it
// blinds (under the presented blind) to ANOTHER point whose compressed encoding agrees with the request key in all but
// one byte — the first, a middle or the last byte of x, or only the sign byte (the mirrored point). Built backwards:
// pick the near point, unblind it to get the client key. Must be refused, and no client state may be registered.
func c06NearMissRequestKeys(c *h.Ctx) {
	curve := elliptic.P384()
	ctx := cat(u16b(3), []byte("ClientBlind"))
	rounds := 2
	if c.Thorough() {
		rounds = 10
	}
	for round := 0; round < rounds; round++ {
		reqKey, _ := ecdsa.GenerateKey(curve, crand.Reader)
		blind, _ := ecdsa.GenerateKey(curve, crand.Reader)
		blindEnc := blind.D.FillBytes(make([]byte, 48))
		keyEnc := elliptic.MarshalCompressed(curve, reqKey.X, reqKey.Y)
		nameKeyID, ct := rnd(c, 32), rnd(c, 200)
		d := sha512.Sum384(signedMessage(keyEnc, nameKeyID, ct))
		r, s, err := ecdsa.Sign(crand.Reader, reqKey, d[:])
		if err != nil {
			continue
		}
		sig := make([]byte, 96)
		r.FillBytes(sig[:48])
		s.FillBytes(sig[48:])
		req := type3.RateLimitedTokenRequest{RequestKey: keyEnc, NameKeyID: nameKeyID, EncryptedTokenRequest: ct, Signature: sig}
		// control: the client key that really blinds to the request key is accepted
		hc, err := ecdsa.UnblindPublicKeyWithContext(curve, &reqKey.PublicKey, blind, ctx)
		if err != nil {
			continue
		}
		if err := type3.NewRateLimitedAttester(newRecCache()).VerifyRequest(req, blindEnc, elliptic.MarshalCompressed(curve, hc.X, hc.Y), make([]byte, 32)); err != nil {
			c.Violation("an authentic request (built by hand: request key = blinded client key, genuine signature) is refused", map[string]any{"err": err.Error()})
			continue
		}
		for _, pos := range []int{0, 1, 2, 24, 47, 48} {
			found := 0
			for delta := 1; delta < 256 && found < 3; delta++ {
				near := clone(keyEnc)
				near[pos] ^= byte(delta)
				if pos == 0 && delta != 1 {
					break // the sign byte has one other valid value
				}
				x, y := elliptic.UnmarshalCompressed(curve, near)
				if x == nil {
					continue
				}
				found++
				ck, err := ecdsa.UnblindPublicKeyWithContext(curve, &ecdsa.PublicKey{Curve: curve, X: x, Y: y}, blind, ctx)
				if err != nil {
					continue
				}
				ckEnc := elliptic.MarshalCompressed(curve, ck.X, ck.Y)
				cache := newRecCache()
				var verr error
				pan, msg := h.Protect(func() { verr = type3.NewRateLimitedAttester(cache).VerifyRequest(req, blindEnc, ckEnc, make([]byte, 32)) })
				c.Count("request-key:near-miss-of-the-blinded-client-key", 1, h.Hex(near))
				if pan || verr == nil || cache.puts != 0 {
					c.Violation("a request whose request key is not the blinded client key (it differs from it in one byte of the encoding) is accepted or leaves client state", map[string]any{
						"byte_position": pos, "request_key": h.Hex(keyEnc), "blinded_client_key": h.Hex(near), "accepted": verr == nil, "state_registered": cache.puts, "panic": msg})
				}
			}
		}
	}
}
