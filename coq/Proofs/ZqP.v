(** ZqP.v — the arithmetic the harness EXECUTES (Model/Derive.v [mulm], [invm] on N, extracted and run against the Go
    code) carries the Layer-B laws for every prime modulus: the inverse is an inverse, blinding by multiplication is
    undone by multiplication with the inverse, commutes, is injective in the factor, and the anonymous-origin exponent
    of C08 has its closed form.  Primality of the modulus is a hypothesis (the group orders' primality is not proved
    here; see DESIGN.md, trusted base).  [zq_instance] packages Base/Zq.v as an instance of the abstract field the
    Layer-B theorems quantify over, so those theorems are not vacuous: their hypotheses are met by an executable
    structure for every prime, e.g. q = 7 ([zq7_field]). *)
From Coq Require Import ZArith NArith Lia Znumtheory Field.
From PatVerif Require Import Base.Zq Model.Derive.

Open Scope N_scope.

Lemma of_N_mod_ne q a : q <> 0 -> a mod q <> 0 -> (Z.of_N a mod Z.of_N q <> 0)%Z.
Proof. intros Hq H E. apply H. apply N2Z.inj. rewrite N2Z.inj_mod. exact E. Qed.

Lemma prime_N_ge2 q : prime (Z.of_N q) -> 2 <= q.
Proof. intro Hp. pose proof (prime_ge_2 _ Hp). lia. Qed.

Lemma invm_range q a : prime (Z.of_N q) -> invm q a < q.
Proof.
  intro Hp. pose proof (prime_N_ge2 q Hp) as Hq. unfold invm, inv_mod.
  pose proof (Z.mod_pos_bound (snd (egcd_wf (Z.of_N a mod Z.of_N q) (Z.of_N q) 1 0)) (Z.of_N q) ltac:(lia)). lia.
Qed.

Lemma invm_correct q a : prime (Z.of_N q) -> a mod q <> 0 -> mulm q a (invm q a) = 1.
Proof.
  intros Hp Ha. pose proof (prime_N_ge2 q Hp) as Hq. unfold mulm, invm.
  apply N2Z.inj. rewrite N2Z.inj_mod, N2Z.inj_mul.
  rewrite Z2N.id.
  - apply inv_mod_correct; [exact Hp|]. apply of_N_mod_ne; [lia|exact Ha].
  - unfold inv_mod. apply Z.mod_pos_bound. lia.
Qed.

Lemma mulm_assoc q a b c : q <> 0 -> mulm q (mulm q a b) c = mulm q a (mulm q b c).
Proof.
  intro Hq. unfold mulm. rewrite N.mul_mod_idemp_l, N.mul_mod_idemp_r by exact Hq. f_equal. lia.
Qed.

Lemma mulm_comm q a b : mulm q a b = mulm q b a.
Proof. unfold mulm. f_equal. lia. Qed.

Lemma mulm_1_r q a : 2 <= q -> mulm q a 1 = a mod q.
Proof. intros _. unfold mulm. now rewrite N.mul_1_r. Qed.

Lemma mulm_mod_l q a b : q <> 0 -> mulm q (a mod q) b = mulm q a b.
Proof. intro Hq. unfold mulm. now rewrite N.mul_mod_idemp_l. Qed.

(** unblinding inverts blinding: exponent P, factor b (what ecdsa.UnblindPublicKey / the attester compute on points) *)
Lemma exec_unblind_blind q P b : prime (Z.of_N q) -> b mod q <> 0 ->
  mulm q (invm q b) (mulm q b P) = P mod q.
Proof.
  intros Hp Hb. pose proof (prime_N_ge2 q Hp) as Hq. rewrite <- mulm_assoc by lia.
  rewrite (mulm_comm q (invm q b) b), invm_correct by assumption. unfold mulm. now rewrite N.mul_1_l.
Qed.

Lemma exec_blind_commutes q P b1 b2 : q <> 0 -> mulm q b2 (mulm q b1 P) = mulm q b1 (mulm q b2 P).
Proof.
  intro Hq. rewrite <- !mulm_assoc by exact Hq. now rewrite (mulm_comm q b2 b1).
Qed.

(** changing the factor changes the blinded key (P not the identity) *)
Lemma exec_blind_injective q P b1 b2 : prime (Z.of_N q) -> P mod q <> 0 ->
  mulm q b1 P = mulm q b2 P -> b1 mod q = b2 mod q.
Proof.
  intros Hp HP E. pose proof (prime_N_ge2 q Hp) as Hq.
  assert (H : forall b, mulm q (mulm q b P) (invm q P) = b mod q).
  { intro b. rewrite mulm_assoc by lia. rewrite invm_correct by assumption. apply mulm_1_r. exact Hq. }
  rewrite <- (H b1), <- (H b2). now rewrite E.
Qed.

(** C08 at the executed arithmetic: the exponent of the key the attester feeds to the KDF — client blind bc removed from
    the issuer-blinded request key bo * (bc * d) — is bo * d, for every non-zero request blind *)
Lemma exec_index_exponent q d bc bo : prime (Z.of_N q) -> bc mod q <> 0 ->
  mulm q (invm q bc) (mulm q bo (mulm q bc d)) = mulm q bo d.
Proof.
  intros Hp Hb. pose proof (prime_N_ge2 q Hp) as Hq.
  rewrite (exec_blind_commutes q d bc bo) by lia.
  rewrite exec_unblind_blind by assumption. unfold mulm. apply N.mod_mod. lia.
Qed.

(** C11 at the executed arithmetic: removing the blind beta from the evaluation k * (beta * x) leaves k * x, so two
    blinds give the same unblinded evaluation *)
Lemma exec_voprf_unblind q x k beta : prime (Z.of_N q) -> beta mod q <> 0 ->
  mulm q (invm q beta) (mulm q k (mulm q beta x)) = mulm q k x.
Proof. intros Hp Hb. apply exec_index_exponent; assumption. Qed.

Lemma exec_voprf_blind_independent q x k b1 b2 : prime (Z.of_N q) -> b1 mod q <> 0 -> b2 mod q <> 0 ->
  mulm q (invm q b1) (mulm q k (mulm q b1 x)) = mulm q (invm q b2) (mulm q k (mulm q b2 x)).
Proof. intros Hp H1 H2. now rewrite !exec_voprf_unblind. Qed.

(** C08: the attester's KDF inputs, computed with the executed arithmetic and ANY encoding of exponents as points, are the
    closed form's for every non-zero request blind; hence the executed [compute_index] (the Coq HKDF) agrees *)
Lemma exec_index_closed_form q (enc : N -> list Byte.byte) d bc bo : prime (Z.of_N q) -> bc mod q <> 0 ->
  compute_index (enc (d mod q)) (enc (mulm q (invm q bc) (mulm q bo (mulm q bc d)))) =
  compute_index (enc (d mod q)) (enc (mulm q bo d)).
Proof. intros Hp Hb. now rewrite exec_index_exponent. Qed.

Lemma exec_index_stable q (enc : N -> list Byte.byte) d bo bc bc' : prime (Z.of_N q) -> bc mod q <> 0 -> bc' mod q <> 0 ->
  compute_index (enc (d mod q)) (enc (mulm q (invm q bc) (mulm q bo (mulm q bc d)))) =
  compute_index (enc (d mod q)) (enc (mulm q (invm q bc') (mulm q bo (mulm q bc' d)))).
Proof. intros Hp H1 H2. now rewrite !exec_index_exponent. Qed.

(** the abstract field of Layer B is inhabited by the executable structure of Base/Zq.v for every prime *)
Definition zq_instance (q : Z) (Hq : prime q) :
  field_theory (z0 q Hq) (z1 q Hq) (zadd q Hq) (zmul q Hq) (zsub q Hq) (zopp q Hq) (zdiv q Hq) (zinv q Hq) (@eq (zq q)) :=
  zq_field q Hq.

Lemma prime_7 : prime 7%Z.
Proof.
  apply prime_intro; [lia|]. intros n Hn.
  assert (C : (n = 1 \/ n = 2 \/ n = 3 \/ n = 4 \/ n = 5 \/ n = 6)%Z) by lia.
  destruct C as [ -> | [ -> | [ -> | [ -> | [ -> | -> ] ] ] ] ]; apply Zgcd_1_rel_prime; reflexivity.
Qed.

Example zq7_field : field_theory (z0 7 prime_7) (z1 7 prime_7) (zadd 7 prime_7) (zmul 7 prime_7) (zsub 7 prime_7)
  (zopp 7 prime_7) (zdiv 7 prime_7) (zinv 7 prime_7) (@eq (zq 7)).
Proof. exact (zq_instance 7 prime_7). Qed.
