package main

import (
	"bytes"
	"crypto/rsa"
	"crypto/sha256"
	"fmt"
	"math/big"

	"github.com/cloudflare/circl/oprf"
	"github.com/cloudflare/pat-go/tokens/type1"
	"github.com/cloudflare/pat-go/tokens/type2"
	"github.com/cloudflare/pat-go/tokens/type3"
	"github.com/cloudflare/pat-go/tokens/type5"
	"github.com/cloudflare/pat-go/util"
	"verif/harness/internal/h"
)

func init() { props["C18"] = runC18 }

func zOuts(v *big.Int) [][]byte {
	s := []byte{0}
	if v.Sign() < 0 {
		s = []byte{1}
	}
	return [][]byte{s, new(big.Int).Abs(v).Bytes()}
}

func c18Unmarshal(c *h.Ctx, cat_ string, data []byte) (*rsa.PublicKey, error) {
	var k *rsa.PublicKey
	var err error
	pan, msg := h.Protect(func() { k, err = util.UnmarshalTokenKey(data) })
	if pan {
		c.Violation("UnmarshalTokenKey panics", map[string]any{"input": h.Hex(data), "panic": msg})
		c.Case(cat_, true, "unmarshal_token_key", [][]byte{data}, [][]byte{h.StPanic})
		return nil, nil
	}
	if err != nil {
		c.Case(cat_, len(data) > 0, "unmarshal_token_key", [][]byte{data}, [][]byte{h.StNone})
		return nil, err
	}
	outs := append([][]byte{h.StOK}, zOuts(k.N)...)
	outs = append(outs, zOuts(big.NewInt(int64(k.E)))...)
	c.Case(cat_, true, "unmarshal_token_key", [][]byte{data}, outs)
	return k, nil
}

// c18Modulus: value of the given bit length with chosen top / low patterns.
func c18Modulus(c *h.Ctx, bits int, pat int) *big.Int {
	if bits == 0 {
		return new(big.Int)
	}
	n := new(big.Int).SetBytes(rnd(c, (bits+7)/8))
	n.SetBit(n, bits-1, 1)
	for i := bits; i < 8*((bits+7)/8); i++ {
		n.SetBit(n, i, 0)
	}
	switch pat {
	case 1: // power of two
		n = new(big.Int).Lsh(big.NewInt(1), uint(bits-1))
	case 2: // all ones
		n = new(big.Int).Sub(new(big.Int).Lsh(big.NewInt(1), uint(bits)), big.NewInt(1))
	}
	return n
}

func runC18(c *h.Ctx) {
	exps := []int{1, 2, 3, 17, 127, 128, 255, 256, 32767, 32768, 65537, 1<<31 - 1, 1 << 31, 1<<32 + 1, 1<<55 + 3, 1<<62 + 5, 1<<63 - 1}
	// 1. encoders, every modulus bit length (so every alignment of the top bit), decoding of the result ------------
	maxBits := 1100
	step := 1
	if c.Thorough() {
		maxBits = 4800
	}
	var sampleEnc [][]byte
	// encodings handed out earlier must keep their contents whatever is encoded afterwards (a key id is the hash of
	// the serialized key: an encoding that changes under its holder is no longer that key's encoding)
	type heldEnc struct {
		live, snap []byte
		what       string
	}
	var held []heldEnc
	checkHeld := func(from int, after string) {
		for i := from; i < len(held); i++ {
			if !bytes.Equal(held[i].live, held[i].snap) {
				c.Violation("an encoding returned earlier changed when another key was encoded afterwards", map[string]any{"encoding_of": held[i].what, "after": after, "was": h.Hex(held[i].snap), "now": h.Hex(held[i].live)})
				held[i].snap = append([]byte{}, held[i].live...)
			}
		}
	}
	for bits := 0; bits <= maxBits; bits += step {
		if bits > 300 && !c.Thorough() {
			step = 7
		}
		for pat := 0; pat < 3; pat++ {
			n := c18Modulus(c, bits, pat)
			e := exps[c.Rng.Intn(len(exps))]
			if bits%64 == 0 {
				e = exps[(bits/64)%len(exps)]
			}
			key := &rsa.PublicKey{N: n, E: e}
			eb := big.NewInt(int64(e)).Bytes()
			for legacy := 0; legacy < 2; legacy++ {
				var enc []byte
				var err error
				pan, msg := h.Protect(func() { enc, err = util.MarshalTokenKey(key, legacy == 1) })
				if pan || err != nil {
					// x509.MarshalPKIXPublicKey has no failure mode for these keys; the PSS form neither
					c.Violation("MarshalTokenKey fails", map[string]any{"bits": bits, "legacy": legacy == 1, "panic": msg})
					continue
				}
				name := "marshal_pss"
				if legacy == 1 {
					name = "marshal_legacy"
				}
				c.Case("marshal:"+name+":every-bit-length", true, name, [][]byte{n.Bytes(), eb}, [][]byte{enc})
				checkHeld(maxInt(0, len(held)-4), fmt.Sprintf("%s of a %d-bit key", name, bits))
				held = append(held, heldEnc{enc, append([]byte{}, enc...), fmt.Sprintf("%s of a %d-bit key", name, bits)})
				k, err := c18Unmarshal(c, "unmarshal:of-own-encoding", enc)
				if err != nil || k == nil || k.N.Cmp(n) != 0 || k.E != e {
					c.Violation("decoding inverts encoding of an RSA token key", map[string]any{"bits": bits, "e": e, "legacy": legacy == 1, "encoding": h.Hex(enc)})
				}
				if bits%97 == 0 || bits == 2048 || bits == 2047 {
					sampleEnc = append(sampleEnc, enc)
				}
			}
		}
	}
	// the infallible wrappers are the same encoder / decoder
	for i := 0; i < 3; i++ {
		k := &rsaKey(i).PublicKey
		a, _ := util.MarshalTokenKeyPSSOID(k)
		var b []byte
		var k2 *rsa.PublicKey
		pan, _ := h.Protect(func() { b = util.MustMarshalPublicKey(k); k2 = util.MustUnmarshalPublicKey(b) })
		c.Count("marshal:must-wrappers", 1, fmt.Sprint(i))
		if pan || !bytes.Equal(a, b) || k2 == nil || k2.N.Cmp(k.N) != 0 || k2.E != k.E {
			c.Violation("MustMarshalPublicKey / MustUnmarshalPublicKey are the RSASSA-PSS token key encoder / decoder", map[string]any{"key": i})
		}
	}
	for _, bits := range []int{2040, 2041, 2047, 2048, 2049, 3071, 3072, 4095, 4096} { // common sizes and their neighbours
		for pat := 0; pat < 3; pat++ {
			n := c18Modulus(c, bits, pat)
			key := &rsa.PublicKey{N: n, E: 65537}
			enc, _ := util.MarshalTokenKey(key, false)
			c.Case("marshal:common-sizes", true, "marshal_pss", [][]byte{n.Bytes(), {1, 0, 1}}, [][]byte{enc})
			k, err := c18Unmarshal(c, "unmarshal:of-own-encoding", enc)
			if err != nil || k == nil || k.N.Cmp(n) != 0 || k.E != 65537 {
				c.Violation("decoding inverts encoding of an RSA token key", map[string]any{"bits": bits, "encoding": h.Hex(enc)})
			}
			sampleEnc = append(sampleEnc, enc)
		}
	}
	// pairs of DIFFERENT keys whose hexadecimal digits run together to the same string when modulus and exponent are
	// written one after the other without a separator ((N, e) and (N >> 4, lastdigit(N) << 20 | e)), encoded back to back
	for rep := 0; rep < 4; rep++ {
		n := c18Modulus(c, 2048-8*rep, 0)
		e := 65537
		n2 := new(big.Int).Rsh(n, 4)
		e2 := int(new(big.Int).And(n, big.NewInt(15)).Int64())<<20 | e
		for _, pr := range [][2]any{{n, e}, {n2, e2}, {n, e}} {
			kN, kE := pr[0].(*big.Int), pr[1].(int)
			key := &rsa.PublicKey{N: kN, E: kE}
			for legacy := 0; legacy < 2; legacy++ {
				enc, err := util.MarshalTokenKey(key, legacy == 1)
				if err != nil {
					continue
				}
				name := "marshal_pss"
				if legacy == 1 {
					name = "marshal_legacy"
				}
				c.Case("marshal:"+name+":digit-run-together-pairs", true, name, [][]byte{kN.Bytes(), big.NewInt(int64(kE)).Bytes()}, [][]byte{enc})
				k, err := c18Unmarshal(c, "unmarshal:of-own-encoding", enc)
				if err != nil || k == nil || k.N.Cmp(kN) != 0 || k.E != kE {
					c.Violation("decoding inverts encoding of an RSA token key (keys whose digits run together, encoded back to back)", map[string]any{"bits": kN.BitLen(), "e": kE, "legacy": legacy == 1})
				}
			}
		}
	}
	// issuers whose key OBJECT is replaced in place after construction (rotation by *key = *next): the key id an issuer
	// reports is at all times SHA-256 of the serialization of the key it reports
	for i := 0; i < 2; i++ {
		obj := *rsaKey(i)
		iss2 := type2.NewBasicPublicIssuer(&obj)
		iss3 := type3.NewRateLimitedIssuer(&obj)
		for step := 0; step < 2; step++ {
			if step == 1 {
				obj = *rsaKey(i + 1)
			}
			for which, pair := range [][2]any{{iss2.TokenKeyID(), iss2.TokenKey()}, {iss3.TokenKeyID(), iss3.TokenKey()}} {
				id, pk := pair[0].([]byte), pair[1].(*rsa.PublicKey)
				enc, _ := util.MarshalTokenKeyPSSOID(pk)
				sum := sha256.Sum256(enc)
				c.Count("keyid:key-object-replaced-in-place", 1, fmt.Sprint(i, step, which))
				if !bytes.Equal(id, sum[:]) {
					c.Violation("the key id an issuer reports is SHA-256 of the serialization of the token key it reports (key object replaced in place after construction)", map[string]any{"issuer_type": 2 + which, "after_replacement": step == 1})
				}
			}
		}
	}
	for i := 0; i < 2; i++ { // ... and whatever an issuer derives afterwards
		type2.NewBasicPublicIssuer(rsaKey(i)).TokenKeyID()
		type3.NewRateLimitedIssuer(rsaKey(i)).TokenKeyID()
	}
	checkHeld(0, "all later encodings and issuer key ids")
	// 2. the tolerant reader on malformed / non-canonical DER (model <-> code) ----------------------------------------
	for _, enc := range sampleEnc {
		for l := 0; l < len(enc); l += 1 + len(enc)/60 {
			c18Unmarshal(c, "unmarshal:truncated", enc[:l])
		}
		c18Unmarshal(c, "unmarshal:extended", cat(enc, []byte{0}))
		c18Unmarshal(c, "unmarshal:extended", cat(enc, rnd(c, 5)))
		nm := 40
		if c.Thorough() {
			nm = 400
		}
		for i := 0; i < nm; i++ {
			m := append([]byte{}, enc...)
			switch c.Rng.Intn(4) {
			case 0:
				m[c.Rng.Intn(minInt(len(m), 90))] ^= byte(1 << uint(c.Rng.Intn(8)))
			case 1:
				m[c.Rng.Intn(len(m))] ^= byte(1 << uint(c.Rng.Intn(8)))
			case 2:
				m[c.Rng.Intn(minInt(len(m), 90))] = byte(c.Rng.Intn(256))
			case 3:
				p := c.Rng.Intn(minInt(len(m), 90))
				m = cat(m[:p], []byte{byte(c.Rng.Intn(256))}, m[p:])
			}
			c18Unmarshal(c, "unmarshal:mutated", m)
		}
	}
	// hand-made DER: length forms, INTEGER forms, BIT STRING padding, tags
	tl := func(tag byte, lenBytes []byte, content []byte) []byte { return cat([]byte{tag}, lenBytes, content) }
	short := func(tag byte, content []byte) []byte { return tl(tag, []byte{byte(len(content))}, content) }
	ints := [][]byte{{}, {0}, {1}, {0x7f}, {0x80}, {0xff}, {0, 0}, {0, 0x7f}, {0, 0x80}, {0xff, 0x7f}, {0xff, 0x80}, {0xff, 0xff}, {1, 0, 1},
		{0x7f, 0xff, 0xff, 0xff, 0xff, 0xff, 0xff, 0xff}, {0x80, 0, 0, 0, 0, 0, 0, 0}, {0, 0x80, 0, 0, 0, 0, 0, 0, 0}, {1, 0, 0, 0, 0, 0, 0, 0, 0}, {0xff, 0x7f, 0, 0, 0, 0, 0, 0, 0}}
	mk := func(alg, nInt, eInt []byte, pad byte, trail []byte) []byte {
		inner := short(0x30, cat(short(2, nInt), short(2, eInt)))
		bs := short(3, cat([]byte{pad}, inner, trail))
		return short(0x30, cat(alg, bs))
	}
	for _, ni := range ints {
		for _, ei := range ints {
			c18Unmarshal(c, "unmarshal:integer-forms", mk(short(0x30, nil), ni, ei, 0, nil))
		}
	}
	for pad := 0; pad < 10; pad++ {
		for _, tr := range [][]byte{nil, {0}, {0x80}, {0xff}, {0x01}, {0xfe}} {
			c18Unmarshal(c, "unmarshal:bitstring-padding", mk(short(0x30, []byte{5, 0}), []byte{0x40, 1}, []byte{3}, byte(pad), tr))
		}
	}
	c18Unmarshal(c, "unmarshal:bitstring-padding", short(0x30, cat(short(0x30, nil), short(3, []byte{0}))))
	c18Unmarshal(c, "unmarshal:bitstring-padding", short(0x30, cat(short(0x30, nil), short(3, []byte{3}))))
	c18Unmarshal(c, "unmarshal:bitstring-padding", short(0x30, cat(short(0x30, nil), short(3, nil))))
	body := cat(short(0x30, []byte{5, 0}), short(3, cat([]byte{0}, short(0x30, cat(short(2, []byte{0x40, 1}), short(2, []byte{3}))))))
	for _, lb := range [][]byte{{0x81, byte(len(body))}, {0x82, 0, byte(len(body))}, {0x80}, {0x85, 0, 0, 0, 0, byte(len(body))}, {0x84, 0, 0, 0, byte(len(body))}, {0x81, 0x7f}, {0x81, 0x80}, {0x84, 0xff, 0xff, 0xff, 0xff}, {0x84, 0xff, 0xff, 0xff, 0xfa}, {0x83, 1, 0, 0}} {
		c18Unmarshal(c, "unmarshal:length-forms", tl(0x30, lb, body))
	}
	long := make([]byte, 200)
	for i := range long {
		long[i] = byte(i + 1)
	}
	c18Unmarshal(c, "unmarshal:length-forms", tl(0x30, []byte{0x81, 0xdb}, cat(short(0x30, nil), tl(3, []byte{0x81, 0xd6}, cat([]byte{0}, tl(0x30, []byte{0x81, 0xd2}, cat(tl(2, []byte{0x81, 200}, long), short(2, []byte{3}))))))))
	for _, tag := range []byte{0x10, 0x31, 0x3f, 0x1f, 0x70, 0xb0, 0x20} {
		c18Unmarshal(c, "unmarshal:tags", short(tag, body))
		c18Unmarshal(c, "unmarshal:tags", short(0x30, cat(short(tag, nil), body[len(short(0x30, []byte{5, 0})):])))
	}
	for i := 0; i < 200; i++ {
		c18Unmarshal(c, "unmarshal:random", rnd(c, c.Rng.Intn(40)))
	}
	// 3. key identifiers -----------------------------------------------------------------------------------------------
	nonce := rnd(c, 32)
	chal := rnd(c, 40)
	for i := 0; i < 3; i++ {
		k := rsaKey(i)
		eb := big.NewInt(int64(k.E)).Bytes()
		iss2 := type2.NewBasicPublicIssuer(k)
		id2 := iss2.TokenKeyID()
		c.Case("keyid:type2", true, "rsa_token_key_id", [][]byte{k.N.Bytes(), eb}, [][]byte{id2, {id2[len(id2)-1]}})
		st2, err := type2.NewBasicPublicClient().CreateTokenRequest(chal, nonce, id2, &k.PublicKey)
		if err == nil {
			c.Case("keyid:type2-request-carries-last-byte", true, "rsa_token_key_id", [][]byte{k.N.Bytes(), eb}, [][]byte{id2, {st2.Request().TokenKeyID}})
		} else {
			c.Violation("type2 request creation failed", map[string]any{"err": err.Error()})
		}
		env := newT3(c, i, rnd(c, 32), map[string][]byte{"o": rnd(c, 48)})
		id3 := env.issuer.TokenKeyID()
		c.Case("keyid:type3", true, "rsa_token_key_id", [][]byte{k.N.Bytes(), eb}, [][]byte{id3, {id3[len(id3)-1]}})
	}
	// odd-sized RSA public keys through the issuer object (only the public half matters for the id)
	for _, bits := range []int{1023, 1025, 2041, 2047, 2049, 3071, 17, 8, 9} {
		n := c18Modulus(c, bits, 0)
		n.SetBit(n, 0, 1)
		k := &rsa.PrivateKey{PublicKey: rsa.PublicKey{N: n, E: 65537}}
		id2 := type2.NewBasicPublicIssuer(k).TokenKeyID()
		c.Case("keyid:type2-odd-modulus-size", true, "rsa_token_key_id", [][]byte{n.Bytes(), {1, 0, 1}}, [][]byte{id2, {id2[len(id2)-1]}})
	}
	for i := 0; i < 6; i++ {
		sk1, _ := oprf.DeriveKey(oprf.SuiteP384, oprf.VerifiableMode, rnd(c, 32), nil)
		iss1 := type1.NewBasicPrivateIssuer(sk1)
		pk1, _ := sk1.Public().MarshalBinary()
		id1 := iss1.TokenKeyID()
		c.Case("keyid:type1", true, "token_key_id", [][]byte{pk1}, [][]byte{id1, {id1[len(id1)-1]}})
		if st, err := type1.NewBasicPrivateClient().CreateTokenRequest(chal, nonce, id1, iss1.TokenKey()); err == nil {
			c.Case("keyid:type1-request-carries-last-byte", true, "token_key_id", [][]byte{pk1}, [][]byte{id1, {st.Request().TokenKeyID}})
			if enc := st.Request().Marshal(); len(enc) > 2 && enc[2] != id1[31] {
				c.Violation("type1 request wire byte 2 is the last byte of the key id", nil)
			}
		}
		sk5, _ := oprf.DeriveKey(oprf.SuiteRistretto255, oprf.VerifiableMode, rnd(c, 32), nil)
		iss5 := type5.NewBatchedPrivateIssuer(sk5)
		pk5, _ := sk5.Public().MarshalBinary()
		id5 := iss5.TokenKeyID()
		c.Case("keyid:type5", true, "token_key_id", [][]byte{pk5}, [][]byte{id5, {id5[len(id5)-1]}})
		if st, err := type5.NewBatchedPrivateClient().CreateTokenRequest(chal, [][]byte{nonce, rnd(c, 32)}, id5, iss5.TokenKey()); err == nil {
			c.Case("keyid:type5-request-carries-last-byte", true, "token_key_id", [][]byte{pk5}, [][]byte{id5, {st.Request().TokenKeyID}})
		}
		// a key id whose first and last byte differ, supplied by the caller
		idx := rnd(c, 32)
		idx[0], idx[31] = 0x11, 0xee
		if st, err := type1.NewBasicPrivateClient().CreateTokenRequest(chal, nonce, idx, iss1.TokenKey()); err == nil && st.Request().TokenKeyID != 0xee {
			c.Violation("requests carry the LAST byte of the token key id", map[string]any{"type": 1, "carried": st.Request().TokenKeyID})
		}
		if st, err := type2.NewBasicPublicClient().CreateTokenRequest(chal, nonce, idx, &rsaKey(0).PublicKey); err == nil && st.Request().TokenKeyID != 0xee {
			c.Violation("requests carry the LAST byte of the token key id", map[string]any{"type": 2, "carried": st.Request().TokenKeyID})
		}
		if st, err := type5.NewBatchedPrivateClient().CreateTokenRequest(chal, [][]byte{nonce}, idx, iss5.TokenKey()); err == nil && st.Request().TokenKeyID != 0xee {
			c.Violation("requests carry the LAST byte of the token key id", map[string]any{"type": 5, "carried": st.Request().TokenKeyID})
		}
	}
	// name key id: SHA-256 of the serialized name key, for every suite the decoder admits
	client := type3.NewRateLimitedClientFromSecret(rnd(c, 48))
	type suite struct {
		kem, kdf, aead uint16
		pkLen          int
	}
	var suites []suite
	for _, kdf := range []uint16{1, 2, 3} {
		for _, aead := range []uint16{1, 2, 3} {
			suites = append(suites, suite{0x20, kdf, aead, 32})
		}
	}
	suites = append(suites, suite{0x21, 2, 2, 56}, suite{0x21, 3, 1, 56})
	k0 := rsaKey(0)
	id0 := type2.NewBasicPublicIssuer(k0).TokenKeyID()
	for _, s := range suites {
		for _, id := range []byte{0, 1, 0x7f, 0xff} {
			pk := rnd(c, s.pkLen)
			enc := cat([]byte{id}, u16b(s.kem), pk, u16b(s.kdf), u16b(s.aead))
			nk, err := type3.UnmarshalEncapKey(enc)
			if err != nil {
				c.Violation("a well-formed name key does not decode", map[string]any{"encoding": h.Hex(enc), "err": err.Error()})
				continue
			}
			// the same key parsed from a buffer that continues after the encoding, and from a buffer overwritten afterwards
			if buf := cat(enc, rnd(c, 7)); true {
				if nk2, err := type3.UnmarshalEncapKey(buf); err == nil {
					for i := range buf {
						buf[i] ^= 0x5a
					}
					var st2 type3.RateLimitedTokenRequestState
					var e2 error
					pan2, _ := h.Protect(func() {
						st2, e2 = client.CreateTokenRequest(chal, nonce, rnd(c, 48), id0, &k0.PublicKey, "origin.example", nk2)
					})
					c.Count("namekeyid:parsed-from-longer-or-reused-buffer", 1, "")
					if !pan2 && e2 == nil {
						w := sha256.Sum256(enc)
						if !bytes.Equal(st2.Request().NameKeyID, w[:]) || !bytes.Equal(nk2.Marshal(), enc) {
							c.Violation("type-3 requests carry SHA-256 of the serialized name key (key decoded from a buffer with trailing bytes that was reused afterwards)", map[string]any{"suite": []uint16{s.kem, s.kdf, s.aead}})
						}
					}
				}
			}
			args := [][]byte{{id}, u16b(s.kem), pk, u16b(s.kdf), u16b(s.aead)}
			want := sha256.Sum256(enc)
			if !bytes.Equal(nk.Marshal(), enc) {
				c.Violation("the serialized name key is id || kem || public key || kdf || aead", map[string]any{"encoding": h.Hex(enc), "marshal": h.Hex(nk.Marshal())})
			}
			var st type3.RateLimitedTokenRequestState
			pan, msg := h.Protect(func() {
				st, err = client.CreateTokenRequest(chal, nonce, rnd(c, 48), id0, &k0.PublicKey, "origin.example", nk)
			})
			if pan || err != nil {
				c.Count("namekeyid:request-creation-failed", 1, "")
				_ = msg
				continue
			}
			got := st.Request().NameKeyID
			c.Case("namekeyid:every-suite", true, "name_key_id", args, [][]byte{got})
			if !bytes.Equal(got, want[:]) {
				c.Violation("type-3 requests carry SHA-256 of the serialized name key", map[string]any{"suite": []uint16{s.kem, s.kdf, s.aead}, "got": h.Hex(got), "want": h.Hex(want[:])})
			}
		}
	}
}

func maxInt(a, b int) int {
	if a > b {
		return a
	}
	return b
}
