(** Quicwire.v — model of /repo/quicwire/wire.go, function by function.
    Go's uint64 shifts / ors are written with [N.shiftl]/[N.lor]/[N.shiftr]/[N.land];
    byte(x) is [n2b] (reduction mod 256).  ConsumeX returns (value, n) with n = -1 on
    error: here [None]. *)
From PatVerif Require Export Base.GoSem.
Open Scope N_scope.

Definition max_varint : N := 4611686018427387903.

Definition at_ (b : list byte) (i : nat) : N := b2n (nth i b x00).
(* guarded by the length checks below; the theorems show the result never depends on the default *)

Definition consume_varint (b : list byte) : option (N * nat) :=
  match b with
  | [] => None
  | c0 :: _ =>
    let b0 := N.land (b2n c0) 63 in
    match N.shiftr (b2n c0) 6 with
    | 0 => Some (b0, 1%nat)
    | 1 => if Nat.ltb (length b) 2 then None
           else Some (N.lor (N.shiftl b0 8) (at_ b 1), 2%nat)
    | 2 => if Nat.ltb (length b) 4 then None
           else Some (N.lor (N.lor (N.lor (N.shiftl b0 24) (N.shiftl (at_ b 1) 16))
                                   (N.shiftl (at_ b 2) 8)) (at_ b 3), 4%nat)
    | 3 => if Nat.ltb (length b) 8 then None
           else Some (N.lor (N.lor (N.lor (N.lor (N.lor (N.lor (N.lor
                        (N.shiftl b0 56) (N.shiftl (at_ b 1) 48)) (N.shiftl (at_ b 2) 40))
                        (N.shiftl (at_ b 3) 32)) (N.shiftl (at_ b 4) 24)) (N.shiftl (at_ b 5) 16))
                        (N.shiftl (at_ b 6) 8)) (at_ b 7), 8%nat)
    | _ => None
    end
  end.

Definition bsh (v : N) (s : N) : byte := n2b (N.shiftr v s).       (* byte(v>>s) *)
Definition tag (t : N) (b : byte) : byte := n2b (N.lor t (b2n b)). (* (t<<6)|byte(..) with t pre-shifted *)

(** [v] ranges over uint64: the theorems assume v < 2^64; above max_varint Go panics. *)
Definition append_varint (p : list byte) (v : N) : res (list byte) :=
  if v <=? 63 then Ok (p ++ [n2b v])
  else if v <=? 16383 then Ok (p ++ [tag 64 (bsh v 8); n2b v])
  else if v <=? 1073741823 then Ok (p ++ [tag 128 (bsh v 24); bsh v 16; bsh v 8; n2b v])
  else if v <=? 4611686018427387903 then
    Ok (p ++ [tag 192 (bsh v 56); bsh v 48; bsh v 40; bsh v 32; bsh v 24; bsh v 16; bsh v 8; n2b v])
  else Panic.

Definition size_varint (v : N) : res nat :=
  if v <=? 63 then Ok 1%nat
  else if v <=? 16383 then Ok 2%nat
  else if v <=? 1073741823 then Ok 4%nat
  else if v <=? 4611686018427387903 then Ok 8%nat
  else Panic.

Definition consume_uint32 (b : list byte) : option (N * nat) :=
  if Nat.ltb (length b) 4 then None else Some (be_dec (firstn 4 b), 4%nat).
Definition consume_uint64 (b : list byte) : option (N * nat) :=
  if Nat.ltb (length b) 8 then None else Some (be_dec (firstn 8 b), 8%nat).

(** ConsumeUint8Bytes: b[n:][:size], size+n.  The slice expressions are the partial
    GoSem ones, so an out-of-range read would show up as [Panic]. *)
Definition consume_uint8_bytes (b : list byte) : res (option (list byte * nat)) :=
  match b with
  | [] => Ok None
  | c0 :: _ =>
    let size := N.to_nat (b2n c0) in
    do tl <- slice_from b 1;
    if Nat.ltb (length tl) size then Ok None
    else do r <- slice_to tl size; Ok (Some (r, (size + 1)%nat))
  end.

Definition append_uint8_bytes (b v : list byte) : res (list byte) :=
  if Nat.ltb 255 (length v) then Panic
  else Ok ((b ++ [n2b (N.of_nat (length v))]) ++ v).

Definition consume_varint_bytes (b : list byte) : res (option (list byte * nat)) :=
  match consume_varint b with
  | None => Ok None
  | Some (size, n) =>
    do tl <- slice_from b n;
    if N.of_nat (length tl) <? size then Ok None
    else do r <- slice_to tl (N.to_nat size); Ok (Some (r, (N.to_nat size + n)%nat))
  end.

Definition append_varint_bytes (b v : list byte) : res (list byte) :=
  do b' <- append_varint b (N.of_nat (length v)); Ok (b' ++ v).

Close Scope N_scope.
