(** Ed25519.v — RFC 8032 key derivation and signing and pat-go's key-blinded signing, byte-exact up to the two
    group operations [n]B and [r]A, which are inputs (computed by an independent reference in the harness).
    Scalars are numbers modulo L; SHA-512 is Base/Hash.v. *)
From PatVerif Require Export Model.Derive.
Open Scope N_scope.

Definition L := order_ed25519.

(** Scalar.SetBytesWithClamping: clear the low 3 bits, clear bit 255, set bit 254, then reduce mod L *)
Definition clamp (b32 : list byte) : N :=
  let v := le_val b32 in ((v mod 2 ^ 254) / 8 * 8 + 2 ^ 254) mod L.

Definition ed_secret_scalar (seed : list byte) : N := clamp (firstn 32 (sha512 seed)).
Definition ed_prefix (seed : list byte) : list byte := skipn 32 (sha512 seed).
(** Scalar.SetUniformBytes of a SHA-512 digest *)
Definition ed_nonce (prefix msg : list byte) : N := le_val (sha512 (prefix ++ msg)) mod L.
Definition ed_hram (R A msg : list byte) : N := le_val (sha512 (R ++ A ++ msg)) mod L.
Definition ed_S (k s r : N) : N := (k * s + r) mod L.               (* MultiplyAdd(k, s, r) *)
(** signature = R || S for R = [nonce]B given as bytes *)
Definition ed_signature (R A msg : list byte) (s nonce : N) : list byte :=
  R ++ le_bytes 32 (ed_S (ed_hram R A msg) s nonce).

(** key-blinded signing (ed25519.blindKeySign): factor r, secret k*r, prefix = h[32:] || b[32:], public key [r]A *)
Definition ed_blind_prefix (seed blind context : list byte) : list byte :=
  ed_prefix seed ++ skipn 32 (sha512 (blind ++ [x00] ++ context)).
Definition ed_blind_secret (seed blind context : list byte) : N :=
  mulm L (ed_secret_scalar seed) (ed_blind_factor blind context).

(** canonical-scalar test of the verifier (scalar.isReduced: byte-wise comparison with L-1 from the top) *)
Fixpoint le_bytes_leq (a b : list byte) : bool :=   (* lists given most significant byte first *)
  match a, b with
  | x :: a', y :: b' => if b2n y <? b2n x then false else if b2n x <? b2n y then true else le_bytes_leq a' b'
  | _, _ => true
  end.
Definition is_reduced (s32 : list byte) : bool := le_bytes_leq (rev s32) (rev (le_bytes 32 (L - 1))).
