#!/bin/bash
# try_mutant.sh <patch.diff> <ID> [<ID>...] — apply a patch to /repo, run the quick checks, undo it.
patch=$1; shift
cd /verif
git -C /repo apply "$patch" || { echo "PATCH DOES NOT APPLY"; exit 3; }
for id in "$@"; do ./check $id --tier quick 2>&1 | tail -6; echo "exit[$id]=${PIPESTATUS[0]}"; done
git -C /repo checkout -- . ; git -C /repo status --short | grep -v verif_hooks | head
