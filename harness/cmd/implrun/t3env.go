package main

import (
	crand "crypto/rand"
	"crypto/rsa"
	"sync"

	"github.com/cloudflare/pat-go/ecdsa"
	"github.com/cloudflare/pat-go/tokens/type3"
	"verif/harness/internal/h"

	"crypto/elliptic"
)

var (
	rsaOnce sync.Once
	rsaKeys []*rsa.PrivateKey
)

// rsaKey returns the i-th process-wide RSA-2048 key (generated once; key generation is too slow per case).
func rsaKey(i int) *rsa.PrivateKey {
	rsaOnce.Do(func() {
		rsaKeys = make([]*rsa.PrivateKey, 3)
		var wg sync.WaitGroup
		for j := range rsaKeys {
			wg.Add(1)
			go func(j int) {
				defer wg.Done()
				k, err := rsa.GenerateKey(crand.Reader, 2048)
				if err != nil {
					panic(err)
				}
				rsaKeys[j] = k
			}(j)
		}
		wg.Wait()
	})
	return rsaKeys[i%len(rsaKeys)]
}

type t3env struct {
	issuer     *type3.RateLimitedIssuer
	nameKey    type3.EncapKey
	tokenKeyID []byte
	key        *rsa.PrivateKey
}

// newT3 builds an issuer with a seed-derived name key and the given origins (name -> index key bytes).
func newT3(c *h.Ctx, rsaIdx int, seed []byte, origins map[string][]byte) *t3env {
	k := rsaKey(rsaIdx)
	nk, err := type3.CreatePrivateEncapKeyFromSeed(seed)
	if err != nil {
		panic(err)
	}
	iss := type3.VerifNewIssuerWithNameKey(k, nk)
	for name, ik := range origins {
		priv, _ := ecdsa.CreateKey(elliptic.P384(), ik)
		iss.AddOriginWithIndexKey(name, priv)
	}
	return &t3env{issuer: iss, nameKey: iss.NameKey(), tokenKeyID: iss.TokenKeyID(), key: k}
}

func (e *t3env) request(client type3.RateLimitedClient, challenge, nonce, blind []byte, origin string) (type3.RateLimitedTokenRequestState, error) {
	return client.CreateTokenRequest(challenge, nonce, blind, e.tokenKeyID, e.issuer.TokenKey(), origin, e.nameKey)
}
