#!/usr/bin/env python3
"""gen_src.py <repo> <out.v> — regenerates coq/Gen/Src.v from the Go SOURCE of <repo> (via bin/constgen, go/parser): the
labels, lengths, object identifiers and thresholds the models depend on, as Coq definitions. coq/Gen/Tie_<ID>.v (hand
written) state by reflexivity that the models use exactly these values: a constant changed in the source — also one
changed consistently on both sides of the library, which no round trip notices — breaks a tie, i.e. a proof
obligation of that property. Every value is an option: a literal that is no longer where it used to be (the code was
restructured) becomes None and its tie holds vacuously — a restructuring is not a changed constant, and the
correspondence runs decide about it; only a literal that is still there with ANOTHER value breaks the tie."""
import sys, subprocess, os, re
repo, out = sys.argv[1], sys.argv[2]
here = os.path.dirname(os.path.abspath(__file__))
rows = []
for l in subprocess.run([os.path.join(here, "..", "bin", "constgen"), repo], stdout=subprocess.PIPE, text=True, check=True).stdout.splitlines():
    p = l.split("\t")
    if len(p) == 5:
        rows.append(p)

def find(file, func, kind, ctx=None):
    return [r[4] for r in rows if r[0] == file and r[1] == func and r[2] == kind and (ctx is None or r[3] == ctx)]

def unq(s):
    import ast
    return ast.literal_eval(s) if s.startswith('"') else s

def bytes_def(name, s):
    if s is None:
        return "Definition %s : option (list N) := None. (* not found at its place in the source *)" % name
    b = s.encode() if isinstance(s, str) else s
    return "Definition %s : option (list N) := Some [%s]. (* %r *)" % (name, "; ".join(str(x) for x in b), s)

def n_def(name, v):
    if v is None:
        return "Definition %s : option N := None. (* not found at its place in the source *)" % name
    return "Definition %s : option N := Some %d." % (name, int(str(v), 0))

def nlist_def(name, vs, want_len=None):
    if not vs or (want_len is not None and len(vs) != want_len) or any(v is None for v in vs):
        return "Definition %s : option (list N) := None. (* not found at its place in the source *)" % name
    return "Definition %s : option (list N) := Some [%s]." % (name, "; ".join(str(int(str(v), 0)) for v in vs))

def one(l, i=0):
    return l[i] if len(l) > i else None

def strv(l, i=0):
    v = one(l, i)
    return unq(v) if v is not None else None

o = ["(* GENERATED on every run by tools/gen_src.py from the Go source of the repository under check — do not edit. *)",
     "From Coq Require Import List NArith.", "Import ListNotations.", "Open Scope N_scope.",
     "(** [tie s P]: the source value, where it still stands at its place, satisfies P *)",
     "Definition tie {A : Type} (s : option A) (P : A -> Prop) : Prop := match s with Some v => P v | None => True end.", ""]
E = "ecdsa/ecdsa.go"
o.append(bytes_def("s_ecdsa_dst", strv(find(E, "hashBlind", "str", "[]byte"))))
o.append(nlist_def("s_ecdsa_L", find(E, "hashBlind", "int", "L"), 4))
cs = find(E, "hashBlind", "case")
if len(cs) == 4:
    o.append("Definition s_ecdsa_curves : option (list (list N)) := Some [%s]." % "; ".join("[" + "; ".join(str(x) for x in c.encode()) + "]" for c in cs))
else:
    o.append("Definition s_ecdsa_curves : option (list (list N)) := None.")
o.append(n_def("s_ecdsa_sep", one(find(E, "hashBlind", "int", "append"))))
o.append(n_def("s_ecdsa_sign_entropy", one(find(E, "Sign", "int", "make"))))
A, C, I = "tokens/type3/attester.go", "tokens/type3/client.go", "tokens/type3/issuer.go"
o.append(bytes_def("s_t3_client_blind_attester_verify", strv(find(A, "RateLimitedAttester.VerifyRequest", "str", "[]byte"))))
o.append(bytes_def("s_t3_client_blind_attester_finalize", strv(find(A, "RateLimitedAttester.FinalizeIndex", "str", "[]byte"))))
o.append(bytes_def("s_t3_client_blind_client", strv(find(C, "RateLimitedClient.CreateTokenRequest", "str", "[]byte"))))
o.append(bytes_def("s_t3_issuer_blind", strv(find(I, "RateLimitedIssuer.Evaluate", "str", "[]byte"))))
o.append(bytes_def("s_t3_index_info", strv(find(A, "computeIndex", "str", "[]byte"))))
o.append(bytes_def("s_t3_label_key", strv(find(A, "-", "str", "labelResponseKey"))))
o.append(bytes_def("s_t3_label_nonce", strv(find(A, "-", "str", "labelResponseNonce"))))
o.append(bytes_def("s_t3_info_request_client", strv(find(C, "encryptOriginTokenRequest", "str", "[]byte"), 0)))
o.append(bytes_def("s_t3_info_response_client", strv(find(C, "encryptOriginTokenRequest", "str", "[]byte"), 1)))
o.append(bytes_def("s_t3_info_request_issuer", strv(find(I, "decryptOriginTokenRequest", "str", "[]byte"), 0)))
o.append(bytes_def("s_t3_info_response_issuer", strv(find(I, "decryptOriginTokenRequest", "str", "[]byte"), 1)))
o.append(nlist_def("s_t3_request_fields", find("tokens/type3/token_request.go", "RateLimitedTokenRequest.Unmarshal", "int", "s.ReadBytes"), 3))
for t, f in (("1", "tokens/type1"), ("2", "tokens/type2"), ("3", "tokens/type3"), ("5", "tokens/type5")):
    o.append(n_def("s_type%s" % t, one(find(f + "/token_request.go", "-", "int", "uint16"))))
o.append(n_def("s_nk1", one(find("tokens/type1/token.go", "-", "int", "Nk"))))
o.append(n_def("s_ne1", one(find("tokens/type1/token.go", "-", "int", "Ne"))))
o.append(n_def("s_nk2", one(find("tokens/type2/token.go", "-", "int", "Nk"))))
for t, f, fn in (("1", "tokens/type1/token.go", "UnmarshalPrivateToken"), ("2", "tokens/type2/token.go", "UnmarshalToken"), ("3", "tokens/type3/token.go", "UnmarshalToken"), ("5", "tokens/type5/token.go", "UnmarshalBatchedPrivateToken")):
    o.append(nlist_def("s_token%s_fields" % t, find(f, fn, "int", "s.ReadBytes"), 3 if t == "1" else 4))
U = "util/x509util.go"
for nm, var in (("s_oid_pss", "oidPublicKeyRSAPSS"), ("s_oid_sha384", "oidSHA384"), ("s_oid_mgf1", "oidPKCS1MGF")):
    v = one(find(U, "-", "oid", var))
    o.append(nlist_def(nm, v.split(".") if v else []))
o.append(n_def("s_pss_salt", one(find(U, "MarshalTokenKeyPSSOID", "int", "b.AddASN1Int64"))))
Q = "quicwire/wire.go"
mv = one(find(Q, "-", "expr", "MaxVarint"))
val = None
if mv and re.fullmatch(r"[0-9()<+\-*]+", mv):
    val = eval(mv, {"__builtins__": {}})
o.append(n_def("s_max_varint", val))
D = "ed25519/ed25519.go"
o.append(nlist_def("s_ed_sizes", [one(find(D, "-", "int", k)) for k in ("PublicKeySize", "PrivateKeySize", "SignatureSize", "SeedSize")], 4))
o.append(n_def("s_ed_blind_sep", one(find(D, "BlindPublicKeyWithContext", "int", "append"))))
o.append(n_def("s_ed_sign_blind_sep", one(find(D, "blindKeySign", "int", "append"))))
o.append(bytes_def("s_challenge_sep_marshal", strv(find("tokens/token_challenge.go", "TokenChallenge.Marshal", "str", "strings.Join"))))
o.append(bytes_def("s_challenge_sep_unmarshal", strv(find("tokens/token_challenge.go", "UnmarshalTokenChallenge", "str", "strings.Split"))))
new = "\n".join(o) + "\n"
old = open(out).read() if os.path.exists(out) else None
if old != new:
    open(out, "w").write(new)
