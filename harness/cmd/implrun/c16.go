package main

import (
	"bytes"
	"crypto/elliptic"
	crand "crypto/rand"
	"fmt"
	"math/big"
	"reflect"

	"github.com/cloudflare/circl/group"
	"github.com/cloudflare/circl/oprf"
	"github.com/cloudflare/pat-go/ecdsa"
	"github.com/cloudflare/pat-go/ed25519"
	"github.com/cloudflare/pat-go/quicwire"
	"github.com/cloudflare/pat-go/tokens"
	"github.com/cloudflare/pat-go/tokens/batched"
	"github.com/cloudflare/pat-go/tokens/type1"
	"github.com/cloudflare/pat-go/tokens/type2"
	"github.com/cloudflare/pat-go/tokens/type3"
	"github.com/cloudflare/pat-go/tokens/type5"
	"github.com/cloudflare/pat-go/util"
	"verif/harness/internal/h"
)

func init() { props["C16"] = runC16 }

// ---- guarded argument buffers ----------------------------------------------------------------------------------------

type guardSet struct {
	bufs  [][]byte
	snaps [][]byte
	names []string
}

// wrap places data in a larger buffer: 8 guard bytes, the data, `spare` bytes of spare capacity (filled by fill), 8 guard
// bytes; the returned slice has len(data) and capacity len(data)+spare.
func (g *guardSet) wrap(name string, data []byte, spare int, fill func(i int) byte) []byte {
	if data == nil {
		return nil
	}
	n := len(data)
	buf := make([]byte, 8+n+spare+8)
	for i := range buf {
		buf[i] = 0xc3
	}
	copy(buf[8:], data)
	for i := 0; i < spare; i++ {
		buf[8+n+i] = fill(i)
	}
	g.bufs = append(g.bufs, buf)
	g.snaps = append(g.snaps, append([]byte{}, buf...))
	g.names = append(g.names, name)
	return buf[8 : 8+n : 8+n+spare]
}

func (g *guardSet) changed() string {
	for i := range g.bufs {
		if !bytes.Equal(g.bufs[i], g.snaps[i]) {
			for j := range g.bufs[i] {
				if g.bufs[i][j] != g.snaps[i][j] {
					return fmt.Sprintf("%s: byte %d of the buffer (argument starts at 8, length %d) changed %02x -> %02x", g.names[i], j, 0, g.snaps[i][j], g.bufs[i][j])
				}
			}
		}
	}
	return ""
}

type wrapFn func(name string, data []byte) []byte

// c16Op: an exported operation as a function of how its byte-slice arguments are wrapped; returns a canonical result.
type c16Op struct {
	name string
	det  bool // result is a deterministic function of the arguments (else only ok/err is compared)
	run  func(w wrapFn) []byte
}

func okErr(err error) []byte {
	if err != nil {
		return []byte("err")
	}
	return []byte("ok")
}

func c16Sweep(c *h.Ctx, ops []c16Op) {
	variants := []struct {
		name  string
		spare int
		fill  func(i int) byte
	}{
		{"exact", 0, nil},
		{"spare-a5", 37, func(int) byte { return 0xa5 }},
		{"spare-00", 64, func(int) byte { return 0 }},
		{"spare-ff", 129, func(int) byte { return 0xff }},
		{"spare-count", 300, func(i int) byte { return byte(i) }},
	}
	for _, op := range ops {
		var ref []byte
		for vi, v := range variants {
			g := &guardSet{}
			w := func(name string, data []byte) []byte { return g.wrap(name, data, v.spare, v.fill) }
			var res []byte
			pan, msg := h.Protect(func() { res = op.run(w) })
			c.Count("sweep:"+op.name, 1, op.name+v.name)
			det := map[string]any{"operation": op.name, "variant": v.name}
			if pan {
				det["panic"] = msg
				c.Violation("an exported operation panics on honest arguments placed in a larger buffer", det)
				continue
			}
			if ch := g.changed(); ch != "" {
				det["what"] = ch
				c.Violation("argument byte slices are unchanged after the call, within their length and in the spare capacity behind them", det)
			}
			if r := string(res); r == "key-mutated" || r == "bigint-argument-mutated" {
				c.Violation("arguments that are not byte slices (keys, big integers) are unchanged after the call", det)
			}
			if !op.det && len(res) > 3 {
				res = res[:0]
			}
			if vi == 0 {
				ref = append([]byte{}, res...)
			} else if !bytes.Equal(res, ref) {
				det["exact"], det["this"] = h.Hex(ref[:minInt(len(ref), 80)]), h.Hex(res[:minInt(len(res), 80)])
				c.Violation("results do not depend on what the spare capacity behind an argument holds", det)
			}
		}
	}
}

// c16Decoders: truncated encodings whose spare capacity holds the TRUE continuation must be treated like truncated ones.
func c16Decoders(c *h.Ctx, decs []struct {
	name string
	enc  []byte
	dec  func([]byte) []byte
}) {
	for _, d := range decs {
		for k := 1; k <= 12 && k < len(d.enc); k++ {
			cut := d.enc[:len(d.enc)-k]
			tail := d.enc[len(d.enc)-k:]
			exact := d.dec(append([]byte{}, cut...))
			for _, fillName := range []string{"continuation", "a5", "zero"} {
				g := &guardSet{}
				arg := g.wrap(d.name, cut, k+16, func(i int) byte {
					switch fillName {
					case "continuation":
						if i < len(tail) {
							return tail[i]
						}
						return 0
					case "a5":
						return 0xa5
					}
					return 0
				})
				var res []byte
				pan, msg := h.Protect(func() { res = d.dec(arg) })
				c.Count("decoder:truncated-with-spare:"+d.name, 1, fmt.Sprint(d.name, k, fillName))
				det := map[string]any{"decoder": d.name, "missing_bytes": k, "spare_holds": fillName}
				if pan {
					det["panic"] = msg
					c.Violation("a decoder panics on a truncated encoding with spare capacity", det)
					continue
				}
				if g.changed() != "" {
					c.Violation("a decoder wrote to its input buffer", det)
				}
				if !bytes.Equal(res, exact) {
					c.Violation("decoders index only within len(data): the result does not depend on what the spare capacity holds", det)
				}
			}
		}
	}
}

func bigSnap(vs ...*big.Int) [][]big.Word {
	var o [][]big.Word
	for _, v := range vs {
		o = append(o, append([]big.Word{}, v.Bits()...))
	}
	return o
}

func bigSame(a [][]big.Word, vs ...*big.Int) bool {
	for i, v := range vs {
		b := v.Bits()
		if len(b) != len(a[i]) {
			return false
		}
		for j := range b {
			if b[j] != a[i][j] {
				return false
			}
		}
	}
	return true
}

func runC16(c *h.Ctx) {
	// ---- the append rule of the model vs the Go runtime -------------------------------------------------------------
	for i := 0; i < 400; i++ {
		off, n, spare, k := c.Rng.Intn(5), c.Rng.Intn(12), c.Rng.Intn(8), c.Rng.Intn(10)
		buf := rnd(c, off+n+spare+c.Rng.Intn(4))
		before := append([]byte{}, buf...)
		s := buf[off : off+n : off+n+spare]
		xs := rnd(c, k)
		res := append(s, xs...)
		inPlace := k <= spare
		st := h.StNone
		if inPlace {
			st = h.StOK
		}
		c.Case("model:append-rule", true, "mem_append", [][]byte{before, {byte(off)}, {byte(n)}, {byte(n + spare)}, xs}, [][]byte{st, buf, res})
	}
	for i := 0; i < 200; i++ {
		n, spare := 1+c.Rng.Intn(40), c.Rng.Intn(50)
		abuf := rnd(c, 4+n+spare)
		a := abuf[4 : 4+n : 4+n+spare]
		b := rnd(c, c.Rng.Intn(40))
		before := append([]byte{}, abuf...)
		// (0) append onto the argument, literally as ed25519 did
		t := append(a, 0x00)
		t = append(t, b...)
		c.Case("model:build-on-argument", true, "mem_build", [][]byte{{0}, before, {4}, {byte(n)}, {byte(n + spare)}, b}, [][]byte{abuf, t})
		// (1) fresh storage, literally as ed25519 does now
		copy(abuf, before)
		f := make([]byte, 0, len(a)+1+len(b))
		f = append(f, a...)
		f = append(f, 0x00)
		f = append(f, b...)
		c.Case("model:build-fresh", true, "mem_build", [][]byte{{1}, before, {4}, {byte(n)}, {byte(n + spare)}, b}, [][]byte{abuf, f})
	}

	// ---- fixtures ------------------------------------------------------------------------------------------------------
	seed := rnd(c, 32)
	edPriv := ed25519.NewKeyFromSeed(seed)
	edPub := []byte(edPriv[32:])
	edBlind, edCtx, msg := rnd(c, 32), rnd(c, 20), rnd(c, 50)
	edBlinded, _ := ed25519.BlindPublicKeyWithContext(edPub, edBlind, edCtx)
	edSig := ed25519.Sign(edPriv, msg)
	curve := elliptic.P384()
	ecSk, _ := ecdsa.GenerateKey(curve, crand.Reader)
	ecBk, _ := ecdsa.GenerateKey(curve, crand.Reader)
	digest := rnd(c, 48)
	ecR, ecS, _ := ecdsa.Sign(crand.Reader, ecSk, digest)
	ecSigA, _ := ecdsa.SignASN1(crand.Reader, ecSk, digest)
	sk1, _ := oprf.DeriveKey(oprf.SuiteP384, oprf.VerifiableMode, rnd(c, 32), nil)
	iss1 := type1.NewBasicPrivateIssuer(sk1)
	kid1 := iss1.TokenKeyID()
	chal, nonce := rnd(c, 24), rnd(c, 32)
	blind1 := scalarBytes(c, group.P384)
	st1, _ := type1.NewBasicPrivateClient().CreateTokenRequestWithBlind(chal, nonce, kid1, iss1.TokenKey(), blind1)
	req1Enc := append([]byte{}, st1.Request().Marshal()...)
	resp1, _ := iss1.Evaluate(st1.Request())
	tok1, _ := st1.FinalizeToken(append([]byte{}, resp1...))
	tok1Enc := append([]byte{}, tok1.Marshal()...)
	key2 := rsaKey(0)
	iss2 := type2.NewBasicPublicIssuer(key2)
	kid2 := iss2.TokenKeyID()
	blind2, salt2 := rsaBlind(c, key2.N), rnd(c, 48)
	st2, _ := type2.NewBasicPublicClient().CreateTokenRequestWithBlind(chal, nonce, kid2, &key2.PublicKey, blind2, salt2)
	req2Enc := append([]byte{}, st2.Request().Marshal()...)
	resp2, _ := iss2.Evaluate(st2.Request())
	sk5, _ := oprf.DeriveKey(oprf.SuiteRistretto255, oprf.VerifiableMode, rnd(c, 32), nil)
	iss5 := type5.NewBatchedPrivateIssuer(sk5)
	kid5 := iss5.TokenKeyID()
	nonces5 := [][]byte{rnd(c, 32), rnd(c, 32), rnd(c, 32)}
	blinds5 := [][]byte{scalarBytes(c, group.Ristretto255), scalarBytes(c, group.Ristretto255), scalarBytes(c, group.Ristretto255)}
	st5, _ := type5.NewBatchedPrivateClient().CreateTokenRequestWithBlinds(chal, nonces5, kid5, iss5.TokenKey(), blinds5)
	req5Enc := append([]byte{}, st5.Request().Marshal()...)
	resp5, _ := iss5.Evaluate(st5.Request())
	env := newT3(c, 0, rnd(c, 32), map[string][]byte{"origin.example": rnd(c, 48)})
	secret3, blind3, anon := rnd(c, 48), rnd(c, 48), rnd(c, 32)
	client3 := type3.NewRateLimitedClientFromSecret(secret3)
	st3, _ := env.request(client3, chal, nonce, blind3, "origin.example")
	req3Enc := append([]byte{}, st3.Request().Marshal()...)
	resp3, brk3, _ := env.issuer.Evaluate(req3Enc)
	encapEnc := env.nameKey.Marshal()
	tcEnc := tokens.TokenChallenge{TokenType: 2, IssuerName: "issuer.example", RedemptionNonce: rnd(c, 32), OriginInfo: []string{"a.example", "b.example"}}.Marshal()
	tk2Enc, _ := util.MarshalTokenKey(&key2.PublicKey, false)
	br, _ := batched.NewBasicClient().CreateTokenRequest([]tokens.TokenRequestWithDetails{st1.Request(), st2.Request()})
	brEnc := append([]byte{}, br.Marshal()...)
	bresp, _ := batched.NewBasicBatchedIssuer(wrap1{iss1}, wrap2{iss2}).EvaluateBatch(br)

	// ---- sweep: every operation with every byte-slice argument in a guarded buffer ----------------------------------------
	ops := []c16Op{
		{"ed25519.NewKeyFromSeed", true, func(w wrapFn) []byte { return ed25519.NewKeyFromSeed(w("seed", seed)) }},
		{"ed25519.Sign", true, func(w wrapFn) []byte { return ed25519.Sign(w("priv", edPriv), w("msg", msg)) }},
		{"ed25519.Verify", true, func(w wrapFn) []byte { return flagB(ed25519.Verify(w("pub", edPub), w("msg", msg), w("sig", edSig))) }},
		{"ed25519.BlindPublicKeyWithContext", true, func(w wrapFn) []byte {
			r, _ := ed25519.BlindPublicKeyWithContext(w("pub", edPub), w("blind", edBlind), w("ctx", edCtx))
			return r
		}},
		{"ed25519.BlindPublicKey", true, func(w wrapFn) []byte { r, _ := ed25519.BlindPublicKey(w("pub", edPub), w("blind", edBlind)); return r }},
		{"ed25519.UnblindPublicKeyWithContext", true, func(w wrapFn) []byte {
			r, _ := ed25519.UnblindPublicKeyWithContext(w("pub", edBlinded), w("blind", edBlind), w("ctx", edCtx))
			return r
		}},
		{"ed25519.UnblindPublicKey", true, func(w wrapFn) []byte {
			r, _ := ed25519.UnblindPublicKey(w("pub", edBlinded), w("blind", edBlind))
			return r
		}},
		// blinds of other lengths than 32 bytes (the blinding functions take any byte string as blind key)
		{"ed25519.BlindPublicKeyWithContext(blind of 31 bytes)", true, func(w wrapFn) []byte {
			r, err := ed25519.BlindPublicKeyWithContext(w("pub", edPub), w("blind", edBlind[:31]), w("ctx", edCtx))
			if err != nil {
				return []byte("err")
			}
			return r
		}},
		{"ed25519.UnblindPublicKeyWithContext(blind of 31 bytes)", true, func(w wrapFn) []byte {
			r, err := ed25519.UnblindPublicKeyWithContext(w("pub", edBlinded), w("blind", edBlind[:31]), w("ctx", edCtx))
			if err != nil {
				return []byte("err")
			}
			return r
		}},
		{"ed25519.BlindPublicKey(blind of 1 byte)", true, func(w wrapFn) []byte {
			r, err := ed25519.BlindPublicKey(w("pub", edPub), w("blind", edBlind[:1]))
			if err != nil {
				return []byte("err")
			}
			return r
		}},
		{"ed25519.BlindPublicKey(empty blind)", true, func(w wrapFn) []byte {
			r, err := ed25519.BlindPublicKey(w("pub", edPub), w("blind", []byte{}))
			if err != nil {
				return []byte("err")
			}
			return r
		}},
		{"ed25519.BlindPublicKeyWithContext(blind of 45 bytes)", true, func(w wrapFn) []byte {
			r, err := ed25519.BlindPublicKeyWithContext(w("pub", edPub), w("blind", cat(edBlind, edCtx[:13])), w("ctx", edCtx))
			if err != nil {
				return []byte("err")
			}
			return r
		}},
		{"ecdsa.CreateKey(short)+Blind", true, func(w wrapFn) []byte {
			k, _ := ecdsa.CreateKey(curve, w("key", blind3[:17]))
			p, err := ecdsa.BlindPublicKeyWithContext(curve, &ecSk.PublicKey, k, w("ctx", edCtx))
			if err != nil {
				return []byte("err")
			}
			return cat(p.X.Bytes(), p.Y.Bytes())
		}},
		{"ed25519.BlindKeySignWithContext", true, func(w wrapFn) []byte {
			return ed25519.BlindKeySignWithContext(w("priv", edPriv), w("msg", msg), w("blind", edBlind), w("ctx", edCtx))
		}},
		{"ed25519.BlindKeySign", true, func(w wrapFn) []byte {
			return ed25519.BlindKeySign(w("priv", edPriv), w("msg", msg), w("blind", edBlind))
		}},
		{"ecdsa.CreateKey", true, func(w wrapFn) []byte {
			k, _ := ecdsa.CreateKey(curve, w("key", blind3))
			return cat(k.D.Bytes(), k.X.Bytes(), k.Y.Bytes())
		}},
		// scalars at and above the group order, longer than the order, zero: legal inputs of CreateKey
		{"ecdsa.CreateKey(all ones)", true, func(w wrapFn) []byte {
			k, err := ecdsa.CreateKey(curve, w("key", bytesFF(48)))
			if err != nil || k == nil {
				return []byte("err")
			}
			return cat(k.X.Bytes(), k.Y.Bytes())
		}},
		{"ecdsa.CreateKey(order+1)", true, func(w wrapFn) []byte {
			k, err := ecdsa.CreateKey(curve, w("key", new(big.Int).Add(curve.Params().N, big.NewInt(1)).Bytes()))
			if err != nil || k == nil {
				return []byte("err")
			}
			return cat(k.X.Bytes(), k.Y.Bytes())
		}},
		{"ecdsa.CreateKey(64 bytes)", true, func(w wrapFn) []byte {
			k, err := ecdsa.CreateKey(curve, w("key", cat(blind3, blind3[:16])))
			if err != nil || k == nil {
				return []byte("err")
			}
			return cat(k.X.Bytes(), k.Y.Bytes())
		}},
		{"type3.NewRateLimitedClientFromSecret(all ones)+CreateTokenRequest(blind all ones)", false, func(w wrapFn) []byte {
			cl := type3.NewRateLimitedClientFromSecret(w("secret", bytesFF(48)))
			st, err := cl.CreateTokenRequest(w("chal", chal), w("nonce", nonce), w("blind", bytesFF(48)), w("kid", env.tokenKeyID), env.issuer.TokenKey(), "origin.example", env.nameKey)
			if err != nil {
				return []byte("err")
			}
			att := type3.NewRateLimitedAttester(newRecCache())
			return okErr(att.VerifyRequest(*st.Request(), w("blind2", bytesFF(48)), w("ck", st.ClientKey()), w("anon", anon)))
		}},
		{"ecdsa.BlindPublicKeyWithContext", true, func(w wrapFn) []byte {
			snap := bigSnap(ecSk.X, ecSk.Y, ecBk.D)
			p, err := ecdsa.BlindPublicKeyWithContext(curve, &ecSk.PublicKey, ecBk, w("ctx", edCtx))
			if err != nil || !bigSame(snap, ecSk.X, ecSk.Y, ecBk.D) {
				return []byte("key-mutated")
			}
			return cat(p.X.Bytes(), p.Y.Bytes())
		}},
		{"ecdsa.UnblindPublicKeyWithContext", true, func(w wrapFn) []byte {
			snap := bigSnap(ecSk.X, ecSk.Y, ecBk.D)
			p, err := ecdsa.UnblindPublicKeyWithContext(curve, &ecSk.PublicKey, ecBk, w("ctx", edCtx))
			if err != nil || !bigSame(snap, ecSk.X, ecSk.Y, ecBk.D) {
				return []byte("key-mutated")
			}
			return cat(p.X.Bytes(), p.Y.Bytes())
		}},
		{"ecdsa.Verify", true, func(w wrapFn) []byte {
			snap := bigSnap(ecSk.X, ecSk.Y, ecR, ecS)
			ok := ecdsa.Verify(&ecSk.PublicKey, w("hash", digest), ecR, ecS)
			if !bigSame(snap, ecSk.X, ecSk.Y, ecR, ecS) {
				return []byte("bigint-argument-mutated")
			}
			return flagB(ok)
		}},
		{"ecdsa.VerifyASN1", true, func(w wrapFn) []byte {
			return flagB(ecdsa.VerifyASN1(&ecSk.PublicKey, w("hash", digest), w("sig", ecSigA)))
		}},
		{"ecdsa.Sign", false, func(w wrapFn) []byte {
			snap := bigSnap(ecSk.D, ecSk.X, ecSk.Y)
			_, _, err := ecdsa.Sign(crand.Reader, ecSk, w("hash", digest))
			if !bigSame(snap, ecSk.D, ecSk.X, ecSk.Y) {
				return []byte("key-mutated")
			}
			return okErr(err)
		}},
		{"ecdsa.SignASN1", false, func(w wrapFn) []byte {
			_, err := ecdsa.SignASN1(crand.Reader, ecSk, w("hash", digest))
			return okErr(err)
		}},
		{"ecdsa.BlindKeySignWithContext", false, func(w wrapFn) []byte {
			snap := bigSnap(ecSk.D, ecSk.X, ecSk.Y, ecBk.D)
			_, _, err := ecdsa.BlindKeySignWithContext(crand.Reader, ecSk, ecBk, w("hash", digest), w("ctx", edCtx))
			if !bigSame(snap, ecSk.D, ecSk.X, ecSk.Y, ecBk.D) {
				return []byte("key-mutated")
			}
			return okErr(err)
		}},
		{"type1.CreateTokenRequestWithBlind", true, func(w wrapFn) []byte {
			s, err := type1.NewBasicPrivateClient().CreateTokenRequestWithBlind(w("challenge", chal), w("nonce", nonce), w("keyid", kid1), iss1.TokenKey(), w("blind", blind1))
			if err != nil {
				return []byte("err")
			}
			return s.Request().Marshal()
		}},
		{"type1.CreateTokenRequest", false, func(w wrapFn) []byte {
			_, err := type1.NewBasicPrivateClient().CreateTokenRequest(w("challenge", chal), w("nonce", nonce), w("keyid", kid1), iss1.TokenKey())
			return okErr(err)
		}},
		{"type1.FinalizeToken", true, func(w wrapFn) []byte {
			t, err := st1.FinalizeToken(w("response", resp1))
			if err != nil {
				return []byte("err")
			}
			return t.Marshal()
		}},
		{"type1.Request.Unmarshal", true, func(w wrapFn) []byte {
			r := new(type1.BasicPrivateTokenRequest)
			if !r.Unmarshal(w("data", req1Enc)) {
				return []byte("err")
			}
			return r.Marshal()
		}},
		{"type1.Issuer.Evaluate", false, func(w wrapFn) []byte {
			r := &type1.BasicPrivateTokenRequest{TokenKeyID: kid1[31], BlindedReq: w("blinded", st1.Request().BlindedReq)}
			_, err := iss1.Evaluate(r)
			return okErr(err)
		}},
		{"type1.Issuer.Verify", true, func(w wrapFn) []byte {
			t := tokens.Token{TokenType: 1, Nonce: w("nonce", tok1.Nonce), Context: w("context", tok1.Context), KeyID: w("keyid", tok1.KeyID), Authenticator: w("auth", tok1.Authenticator)}
			return okErr(iss1.Verify(t))
		}},
		{"type1.UnmarshalPrivateToken", true, func(w wrapFn) []byte {
			t, err := type1.UnmarshalPrivateToken(w("data", tok1Enc))
			if err != nil {
				return []byte("err")
			}
			return t.Marshal()
		}},
		{"type2.CreateTokenRequestWithBlind", true, func(w wrapFn) []byte {
			s, err := type2.NewBasicPublicClient().CreateTokenRequestWithBlind(w("challenge", chal), w("nonce", nonce), w("keyid", kid2), &key2.PublicKey, w("blind", blind2), w("salt", salt2))
			if err != nil {
				return []byte("err")
			}
			return s.Request().Marshal()
		}},
		{"type2.FinalizeToken", true, func(w wrapFn) []byte {
			t, err := st2.FinalizeToken(w("response", resp2))
			if err != nil {
				return []byte("err")
			}
			return t.Marshal()
		}},
		{"type2.Request.Unmarshal", true, func(w wrapFn) []byte {
			r := new(type2.BasicPublicTokenRequest)
			if !r.Unmarshal(w("data", req2Enc)) {
				return []byte("err")
			}
			return r.Marshal()
		}},
		{"type2.Issuer.Evaluate", true, func(w wrapFn) []byte {
			r := &type2.BasicPublicTokenRequest{TokenKeyID: kid2[31], BlindedReq: w("blinded", st2.Request().BlindedReq)}
			resp, err := iss2.Evaluate(r)
			if err != nil {
				return []byte("err")
			}
			return resp
		}},
		{"type5.CreateTokenRequestWithBlinds", true, func(w wrapFn) []byte {
			ns := [][]byte{w("nonce0", nonces5[0]), w("nonce1", nonces5[1]), w("nonce2", nonces5[2])}
			bs := [][]byte{w("blind0", blinds5[0]), w("blind1", blinds5[1]), w("blind2", blinds5[2])}
			s, err := type5.NewBatchedPrivateClient().CreateTokenRequestWithBlinds(w("challenge", chal), ns, w("keyid", kid5), iss5.TokenKey(), bs)
			if err != nil {
				return []byte("err")
			}
			return s.Request().Marshal()
		}},
		{"type5.FinalizeTokens", true, func(w wrapFn) []byte {
			ts, err := st5.FinalizeTokens(w("response", resp5))
			if err != nil {
				return []byte("err")
			}
			var o []byte
			for _, t := range ts {
				o = append(o, t.Marshal()...)
			}
			return o
		}},
		{"type5.Request.Unmarshal", true, func(w wrapFn) []byte {
			r := new(type5.BatchedPrivateTokenRequest)
			if !r.Unmarshal(w("data", req5Enc)) {
				return []byte("err")
			}
			return r.Marshal()
		}},
		{"type3.CreateTokenRequest", false, func(w wrapFn) []byte {
			_, err := client3.CreateTokenRequest(w("challenge", chal), w("nonce", nonce), w("blind", blind3), w("keyid", env.tokenKeyID), env.issuer.TokenKey(), "origin.example", env.nameKey)
			return okErr(err)
		}},
		{"type3.FinalizeToken", true, func(w wrapFn) []byte {
			t, err := st3.FinalizeToken(w("response", resp3))
			if err != nil {
				return []byte("err")
			}
			return t.Marshal()
		}},
		{"type3.Request.Unmarshal", true, func(w wrapFn) []byte {
			r := new(type3.RateLimitedTokenRequest)
			if !r.Unmarshal(w("data", req3Enc)) {
				return []byte("err")
			}
			return r.Marshal()
		}},
		{"type3.Issuer.Evaluate", false, func(w wrapFn) []byte { _, _, err := env.issuer.Evaluate(w("request", req3Enc)); return okErr(err) }},
		{"type3.Attester.VerifyRequest+FinalizeIndex", true, func(w wrapFn) []byte {
			att := type3.NewRateLimitedAttester(newRecCache())
			r := new(type3.RateLimitedTokenRequest)
			r.Unmarshal(w("request", req3Enc))
			if err := att.VerifyRequest(*r, w("blind", blind3), w("clientkey", st3.ClientKey()), w("anon", anon)); err != nil {
				return []byte("verify-err")
			}
			idx, err := att.FinalizeIndex(w("clientkey2", st3.ClientKey()), w("blind2", blind3), w("brk", brk3), w("anon2", anon))
			if err != nil {
				return []byte("index-err")
			}
			return idx
		}},
		{"type3.UnmarshalEncapKey", true, func(w wrapFn) []byte {
			k, err := type3.UnmarshalEncapKey(w("data", encapEnc))
			if err != nil {
				return []byte("err")
			}
			return k.Marshal()
		}},
		{"tokens.UnmarshalTokenChallenge", true, func(w wrapFn) []byte {
			t, err := tokens.UnmarshalTokenChallenge(w("data", tcEnc))
			if err != nil {
				return []byte("err")
			}
			return t.Marshal()
		}},
		{"util.UnmarshalTokenKey", true, func(w wrapFn) []byte {
			k, err := util.UnmarshalTokenKey(w("data", tk2Enc))
			if err != nil {
				return []byte("err")
			}
			return k.N.Bytes()
		}},
		{"batched.Request.Unmarshal", true, func(w wrapFn) []byte {
			r := new(batched.BatchedTokenRequest)
			if !r.Unmarshal(w("data", brEnc)) {
				return []byte("err")
			}
			return r.Marshal()
		}},
		{"batched.UnmarshalBatchedTokenResponses", true, func(w wrapFn) []byte {
			l, err := batched.UnmarshalBatchedTokenResponses(w("data", bresp))
			if err != nil {
				return []byte("err")
			}
			return cat(l...)
		}},
		{"quicwire.ConsumeVarintBytes", true, func(w wrapFn) []byte {
			v, n := quicwire.ConsumeVarintBytes(w("data", cat([]byte{5}, []byte("hello"), []byte("x"))))
			return cat(v, []byte{byte(n)})
		}},
	}
	c16Sweep(c, ops)
	c16Comparisons(c)

	// ---- decoders on truncated encodings whose spare capacity holds the continuation ---------------------------------------
	verdict := func(ok bool, m func() []byte) []byte {
		if !ok {
			return []byte("err")
		}
		return m()
	}
	decs := []struct {
		name string
		enc  []byte
		dec  func([]byte) []byte
	}{
		{"type1.Request", req1Enc, func(d []byte) []byte {
			r := new(type1.BasicPrivateTokenRequest)
			return verdict(r.Unmarshal(d), r.Marshal)
		}},
		{"type2.Request", req2Enc, func(d []byte) []byte {
			r := new(type2.BasicPublicTokenRequest)
			return verdict(r.Unmarshal(d), r.Marshal)
		}},
		{"type3.Request", req3Enc, func(d []byte) []byte {
			r := new(type3.RateLimitedTokenRequest)
			return verdict(r.Unmarshal(d), r.Marshal)
		}},
		{"type5.Request", req5Enc, func(d []byte) []byte {
			r := new(type5.BatchedPrivateTokenRequest)
			return verdict(r.Unmarshal(d), r.Marshal)
		}},
		{"batched.Request", brEnc, func(d []byte) []byte {
			r := new(batched.BatchedTokenRequest)
			return verdict(r.Unmarshal(d), r.Marshal)
		}},
		{"batched.Responses", bresp, func(d []byte) []byte {
			l, err := batched.UnmarshalBatchedTokenResponses(d)
			return verdict(err == nil, func() []byte { return cat(l...) })
		}},
		{"type1.Token", tok1Enc, func(d []byte) []byte { t, err := type1.UnmarshalPrivateToken(d); return verdict(err == nil, t.Marshal) }},
		{"tokens.TokenChallenge", tcEnc, func(d []byte) []byte {
			t, err := tokens.UnmarshalTokenChallenge(d)
			return verdict(err == nil, t.Marshal)
		}},
		{"type3.EncapKey", encapEnc, func(d []byte) []byte {
			k, err := type3.UnmarshalEncapKey(d)
			return verdict(err == nil, func() []byte { return k.Marshal() })
		}},
		{"util.TokenKey", tk2Enc, func(d []byte) []byte {
			k, err := util.UnmarshalTokenKey(d)
			return verdict(err == nil, func() []byte { return k.N.Bytes() })
		}},
		{"type1.FinalizeToken", resp1, func(d []byte) []byte { t, err := st1.FinalizeToken(d); return verdict(err == nil, t.Marshal) }},
		{"type3.FinalizeToken", resp3, func(d []byte) []byte { t, err := st3.FinalizeToken(d); return verdict(err == nil, t.Marshal) }},
		{"type5.FinalizeTokens", resp5, func(d []byte) []byte {
			ts, err := st5.FinalizeTokens(d)
			return verdict(err == nil, func() []byte { return ts[0].Marshal() })
		}},
		{"type3.Issuer.Evaluate", req3Enc, func(d []byte) []byte { _, _, err := env.issuer.Evaluate(d); return okErr(err) }},
		{"ecdsa.VerifyASN1", ecSigA, func(d []byte) []byte { return flagB(ecdsa.VerifyASN1(&ecSk.PublicKey, digest, d)) }},
		{"quicwire.ConsumeVarintBytes", cat([]byte{0x40, 20}, rnd(c, 20)), func(d []byte) []byte {
			v, n := quicwire.ConsumeVarintBytes(d)
			return cat(v, []byte{byte(n + 1)})
		}},
	}
	c16Decoders(c, decs)

	// ---- histories: values handed out earlier keep their contents across later calls on the same objects ---------------------
	type held struct {
		name string
		live func() []byte
		snap []byte
	}
	var helds []held
	hold := func(name string, live func() []byte) {
		helds = append(helds, held{name, live, append([]byte{}, live()...)})
	}
	r3 := st3.Request()
	hold("type3 request encoding", func() []byte { return st3.Request().Marshal() })
	hold("type3 request ciphertext", func() []byte { return r3.EncryptedTokenRequest })
	hold("type3 request signature", func() []byte { return r3.Signature })
	hold("type3 request key", func() []byte { return r3.RequestKey })
	hold("type3 name key id", func() []byte { return r3.NameKeyID })
	hold("type1 request encoding", func() []byte { return st1.Request().Marshal() })
	hold("type1 blinded element", func() []byte { return st1.Request().BlindedReq })
	hold("type2 request encoding", func() []byte { return st2.Request().Marshal() })
	hold("type5 request encoding", func() []byte { return st5.Request().Marshal() })
	hold("batch request encoding", func() []byte { return br.Marshal() })
	t1a, _ := st1.FinalizeToken(append([]byte{}, resp1...))
	t2a, _ := st2.FinalizeToken(append([]byte{}, resp2...))
	t3a, _ := st3.FinalizeToken(append([]byte{}, resp3...))
	t5a, _ := st5.FinalizeTokens(append([]byte{}, resp5...))
	for _, tt := range []struct {
		n string
		t tokens.Token
	}{{"type1", t1a}, {"type2", t2a}, {"type3", t3a}, {"type5[0]", t5a[0]}, {"type5[2]", t5a[2]}} {
		t := tt.t
		hold(tt.n+" token nonce", func() []byte { return t.Nonce })
		hold(tt.n+" token context", func() []byte { return t.Context })
		hold(tt.n+" token key id", func() []byte { return t.KeyID })
		hold(tt.n+" token authenticator", func() []byte { return t.Authenticator })
	}
	hold("type1 response", func() []byte { return resp1 })
	hold("type2 response", func() []byte { return resp2 })
	hold("type3 response", func() []byte { return resp3 })
	hold("type5 response", func() []byte { return resp5 })
	hold("batch response", func() []byte { return bresp })
	later := []struct {
		name string
		f    func()
	}{
		{"finalize again (honest)", func() {
			st1.FinalizeToken(resp1)
			st2.FinalizeToken(resp2)
			st3.FinalizeToken(resp3)
			st5.FinalizeTokens(resp5)
		}},
		{"finalize a corrupted response", func() {
			st1.FinalizeToken(flipBit(resp1, 100))
			st2.FinalizeToken(flipBit(resp2, 100))
			st3.FinalizeToken(flipBit(resp3, 200))
			st5.FinalizeTokens(flipBit(resp5, 100))
			st3.FinalizeToken(resp3[:10])
		}},
		{"finalize a response for another request", func() {
			o1, _ := type1.NewBasicPrivateClient().CreateTokenRequest(chal, rnd(c, 32), kid1, iss1.TokenKey())
			ro, _ := iss1.Evaluate(o1.Request())
			st1.FinalizeToken(ro)
			o3, _ := env.request(client3, chal, rnd(c, 32), rnd(c, 48), "origin.example")
			r3o, _, _ := env.issuer.Evaluate(o3.Request().Marshal())
			st3.FinalizeToken(r3o)
		}},
		{"evaluate again", func() {
			iss1.Evaluate(st1.Request())
			iss2.Evaluate(st2.Request())
			iss5.Evaluate(st5.Request())
			env.issuer.Evaluate(st3.Request().Marshal())
			batched.NewBasicBatchedIssuer(wrap1{iss1}, wrap2{iss2}).EvaluateBatch(br)
		}},
		{"marshal again and unmarshal other bytes into fresh objects", func() {
			st1.Request().Marshal()
			st3.Request().Marshal()
			new(type3.RateLimitedTokenRequest).Unmarshal(req3Enc)
			new(batched.BatchedTokenRequest).Unmarshal(brEnc)
		}},
		{"attester round", func() {
			att := type3.NewRateLimitedAttester(newRecCache())
			att.VerifyRequest(*st3.Request(), blind3, st3.ClientKey(), anon)
			att.FinalizeIndex(st3.ClientKey(), blind3, brk3, anon)
		}},
		{"verify tokens", func() { iss1.Verify(t1a); iss5.Verify(t5a[0]) }},
	}
	// ---- object reuse: an encoding returned by Marshal keeps its contents when the SAME object decodes another message
	// and is marshalled again (every ordered pair of message sizes: the new encoding may or may not fit the old storage)
	type reusable interface {
		Marshal() []byte
		Unmarshal([]byte) bool
	}
	var reuse []struct {
		name string
		mk   func() reusable
		encs [][]byte
	}
	{
		var e1, e2, e3, e5, eb [][]byte
		for n := 1; n <= 4; n++ {
			a1, _ := type1.NewBasicPrivateClient().CreateTokenRequest(chal, rnd(c, 32), kid1, iss1.TokenKey())
			e1 = append(e1, a1.Request().Marshal())
			a2, _ := type2.NewBasicPublicClient().CreateTokenRequest(chal, rnd(c, 32), iss2.TokenKeyID(), iss2.TokenKey())
			e2 = append(e2, a2.Request().Marshal())
			a3, _ := env.request(client3, chal, rnd(c, 32), rnd(c, 48), "origin.example")
			e3 = append(e3, a3.Request().Marshal())
			var ns [][]byte
			for j := 0; j < n; j++ {
				ns = append(ns, rnd(c, 32))
			}
			a5, _ := type5.NewBatchedPrivateClient().CreateTokenRequest(chal, ns, iss5.TokenKeyID(), iss5.TokenKey())
			e5 = append(e5, a5.Request().Marshal())
			var rs []tokens.TokenRequestWithDetails
			for j := 0; j < n; j++ {
				rs = append(rs, a1.Request())
			}
			ab, _ := batched.BatchedClient{}.CreateTokenRequest(rs)
			eb = append(eb, ab.Marshal())
		}
		reuse = append(reuse, struct {
			name string
			mk   func() reusable
			encs [][]byte
		}{"type1 request", func() reusable { return new(type1.BasicPrivateTokenRequest) }, e1},
			struct {
				name string
				mk   func() reusable
				encs [][]byte
			}{"type2 request", func() reusable { return new(type2.BasicPublicTokenRequest) }, e2},
			struct {
				name string
				mk   func() reusable
				encs [][]byte
			}{"type3 request", func() reusable { return new(type3.RateLimitedTokenRequest) }, e3},
			struct {
				name string
				mk   func() reusable
				encs [][]byte
			}{"type5 request", func() reusable { return new(type5.BatchedPrivateTokenRequest) }, e5},
			struct {
				name string
				mk   func() reusable
				encs [][]byte
			}{"batch request", func() reusable { return new(batched.BatchedTokenRequest) }, eb})
	}
	for _, ru := range reuse {
		for ia, a := range ru.encs {
			for ib, b := range ru.encs {
				o := ru.mk()
				var first, second []byte
				var ok1, ok2 bool
				var held reusable // a by-value copy of the object taken after the first decode (a request set aside, queued)
				pan, msg := h.Protect(func() {
					ok1 = o.Unmarshal(append([]byte{}, a...))
					cpv := reflect.New(reflect.TypeOf(o).Elem())
					cpv.Elem().Set(reflect.ValueOf(o).Elem())
					held, _ = cpv.Interface().(reusable)
					first = o.Marshal()
				})
				snap := append([]byte{}, first...)
				pan2, msg2 := h.Protect(func() {
					ok2 = o.Unmarshal(append([]byte{}, b...))
					second = o.Marshal()
					o.Unmarshal([]byte{0xff}) // a refused message in between
					o.Marshal()
				})
				c.Count("reuse:"+ru.name, 1, fmt.Sprint(ru.name, ia, ib))
				det := map[string]any{"object": ru.name, "first_message": ia, "second_message": ib, "first_len": len(a), "second_len": len(b)}
				if pan || pan2 {
					det["panic"] = msg + msg2
					c.Violation("decoding into a used object panics", det)
					continue
				}
				if !ok1 || !ok2 {
					c.Violation("an honest encoding is refused by its decoder", det)
					continue
				}
				if !bytes.Equal(first, snap) {
					c.Violation("values handed out earlier keep their contents: an encoding returned by Marshal changed when the object decoded another message and was marshalled again", det)
				}
				if held != nil {
					var hm []byte
					if p3, _ := h.Protect(func() { hm = held.Marshal() }); p3 || !bytes.Equal(hm, a) {
						c.Violation("values handed out earlier keep their contents: a copy of the decoded request set aside before the object decoded another message no longer encodes to the message it was decoded from", det)
					}
				}
				_ = second
			}
		}
	}
	// the caller's own request list behind a batch request, and a pending type-3 request state, across a decode into the
	// object (or a copy of it) they gave rise to
	{
		a1, _ := type1.NewBasicPrivateClient().CreateTokenRequest(chal, rnd(c, 32), kid1, iss1.TokenKey())
		a2, _ := type2.NewBasicPublicClient().CreateTokenRequest(chal, rnd(c, 32), iss2.TokenKeyID(), iss2.TokenKey())
		b1, _ := type1.NewBasicPrivateClient().CreateTokenRequest(chal, rnd(c, 32), kid1, iss1.TokenKey())
		list := []tokens.TokenRequestWithDetails{a1.Request(), a2.Request()}
		keep := append([]tokens.TokenRequestWithDetails{}, list...)
		brq, err := batched.BatchedClient{}.CreateTokenRequest(list)
		other, _ := batched.BatchedClient{}.CreateTokenRequest([]tokens.TokenRequestWithDetails{b1.Request(), b1.Request()})
		if err == nil {
			sibling, _ := batched.BatchedClient{}.CreateTokenRequest(list)
			before := append([]byte{}, sibling.Marshal()...)
			h.Protect(func() { brq.Unmarshal(other.Marshal()) })
			c.Count("reuse:callers-list-behind-a-batch-request", 1, "")
			if list[0] != keep[0] || list[1] != keep[1] || !bytes.Equal(sibling.Marshal(), before) {
				c.Violation("decoding into a batch request built from the caller's list rewrites the caller's list (or a sibling request built from it)", nil)
			}
		}
		stP, errP := env.request(client3, chal, rnd(c, 32), rnd(c, 48), "origin.example")
		stQ, errQ := env.request(client3, chal, rnd(c, 32), rnd(c, 48), "origin.example")
		if errP == nil && errQ == nil {
			respP, _, _ := env.issuer.Evaluate(stP.Request().Marshal())
			encBefore := append([]byte{}, stP.Request().EncryptedTokenRequest...)
			scratch := *stP.Request() // a by-value copy used as decode target for a foreign message
			h.Protect(func() { scratch.Unmarshal(stQ.Request().Marshal()) })
			_, errF := stP.FinalizeToken(respP)
			c.Count("reuse:copy-of-a-pending-request-as-decode-target", 1, "")
			if !bytes.Equal(stP.Request().EncryptedTokenRequest, encBefore) || errF != nil {
				c.Violation("decoding a foreign message into a COPY of a pending request changes the pending request (its ciphertext / its finalization)", map[string]any{"finalize_err": errF != nil})
			}
		}
	}
	for _, l := range later {
		pan, msg := h.Protect(l.f)
		if pan {
			c.Violation("a later call on the same objects panics", map[string]any{"call": l.name, "panic": msg})
		}
		for _, hd := range helds {
			c.Count("history:"+l.name, 1, hd.name+l.name)
			if !bytes.Equal(hd.live(), hd.snap) {
				c.Violation("values handed out earlier keep their contents across later calls on the same objects", map[string]any{"value": hd.name, "after": l.name})
			}
		}
	}
}
