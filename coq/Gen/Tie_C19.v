(** source tie for C19: MaxVarint and the class thresholds of AppendVarint / SizeVarint *)
From Coq Require Import List NArith.
From PatVerif Require Import Model.Quicwire Gen.Src.
Import ListNotations. Open Scope N_scope.
Ltac t := vm_compute; first [reflexivity | exact I | repeat split; reflexivity].
Example tie_max : tie s_max_varint (fun v => v = max_varint). Proof. t. Qed.
Example tie_thresholds : tie s_varint_thresholds (fun v => v = [63; 16383; 1073741823; max_varint]). Proof. t. Qed.
Example tie_size_thresholds : tie s_varint_size_thresholds (fun v => v = [63; 16383; 1073741823; max_varint]). Proof. t. Qed.
