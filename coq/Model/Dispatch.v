(** Dispatch.v — the single entry point through which the models are *executed* by the
    correspondence harness (extracted to OCaml, or evaluated by vm_compute).
    A call is a function name and a list of byte-string arguments; the answer is a list of
    byte-string fields.  Both the Go harness and this file follow the same field layout, so
    the OCaml driver contains no per-function glue at all. *)
From Coq Require Import Strings.String.
From PatVerif Require Import Base.GoSem Model.Quicwire Model.Codecs Model.BatchCodecs Model.Pad Model.Attester Model.AttesterVerify Model.Frontends.
Open Scope N_scope.

Definition nm (s : string) : list byte := list_byte_of_string s.
Definition is (name : list byte) (s : string) : bool := bytes_eqb name (nm s).

Definition arg (args : list (list byte)) (i : nat) : list byte := nth i args [].
Definition narg (args : list (list byte)) (i : nat) : N := be_dec_h (arg args i).

Definition st_none : list byte := [x00].
Definition st_ok : list byte := [x01].
Definition st_panic : list byte := [xff].
Definition st_unknown : list byte := [xfe].
Definition num8 (n : N) : list byte := be_enc 8 n.
Definition nat8 (n : nat) : list byte := be_enc 8 (N.of_nat n).

Definition out_res_bytes (r : res (list byte)) : list (list byte) :=
  match r with Ok o => [st_ok; o] | Err => [st_none] | Panic => [st_panic] end.
Definition out_opt_num (o : option (N * nat)) : list (list byte) :=
  match o with Some (v, n) => [st_ok; num8 v; nat8 n] | None => [st_none] end.
Definition out_res_opt_bytes (r : res (option (list byte * nat))) : list (list byte) :=
  match r with
  | Ok (Some (v, n)) => [st_ok; v; nat8 n]
  | Ok None => [st_none] | Err => [st_none] | Panic => [st_panic]
  end.

Definition dispatch_quicwire (name : list byte) (a : list (list byte)) : option (list (list byte)) :=
  if is name "consume_varint" then Some (out_opt_num (consume_varint (arg a 0)))
  else if is name "append_varint" then Some (out_res_bytes (append_varint (arg a 0) (narg a 1)))
  else if is name "size_varint" then
    Some (match size_varint (narg a 0) with Ok n => [st_ok; nat8 n] | _ => [st_panic] end)
  else if is name "consume_uint32" then Some (out_opt_num (consume_uint32 (arg a 0)))
  else if is name "consume_uint64" then Some (out_opt_num (consume_uint64 (arg a 0)))
  else if is name "consume_uint8_bytes" then Some (out_res_opt_bytes (consume_uint8_bytes (arg a 0)))
  else if is name "append_uint8_bytes" then Some (out_res_bytes (append_uint8_bytes (arg a 0) (arg a 1)))
  else if is name "consume_varint_bytes" then Some (out_res_opt_bytes (consume_varint_bytes (arg a 0)))
  else if is name "append_varint_bytes" then Some (out_res_bytes (append_varint_bytes (arg a 0) (arg a 1)))
  else None.

(** * Codecs *)
Definition num1 (n : N) : list byte := be_enc 1 n.
Definition num2 (n : N) : list byte := be_enc 2 n.
Definition out_token (o : option token) : list (list byte) :=
  match o with
  | Some t => [st_ok; num2 (t_type t); t_nonce t; t_ctx t; t_keyid t; t_auth t]
  | None => [st_none]
  end.
Definition mk_token (a : list (list byte)) (i : nat) : token :=
  {| t_type := narg a i; t_nonce := arg a (i+1); t_ctx := arg a (i+2); t_keyid := arg a (i+3); t_auth := arg a (i+4) |}.

(** histories on one request object.  Each op is one argument: "M" | "U" ++ data | "S" ++ fields
    (S = construct a fresh object holding the given value).  Output: M -> bytes; U -> ok flag then
    the value fields; S -> nothing. *)
Section Hist.
  Context {A : Type} (enc : A -> list byte) (um : A -> list byte -> bool * A)
          (show : A -> list (list byte)) (parse : list byte -> A).
  Fixpoint run_hist (o : obj A) (ops : list (list byte)) : list (list byte) :=
    match ops with
    | [] => []
    | op :: rest =>
      match op with
      | c :: data =>
        if byte_eqb c x4d (* M *) then
          let '(b, o') := marshal enc o in b :: run_hist o' rest
        else if byte_eqb c x55 (* U *) then
          let '(ok, o') := unmarshal um o data in
          (if ok then st_ok else st_none) :: show (val o') ++ run_hist o' rest
        else if byte_eqb c x53 (* S *) then
          run_hist {| raw := None; val := parse data |} rest
        else [st_unknown]
      | [] => [st_unknown]
      end
    end.
End Hist.

Definition show12 (r : breq) : list (list byte) := [num1 (q_keyid r); q_blinded r].
Definition parse12 (d : list byte) : breq :=
  match d with k :: b => {| q_keyid := b2n k; q_blinded := b |} | [] => fresh_breq end.
Definition show3 (r : req3) : list (list byte) := [q3_key r; q3_nkid r; q3_enc r; q3_sig r].
(* S-data for type 3: u16p key ++ u16p nkid ++ u16p enc ++ sig *)
Definition parse3 (d : list byte) : req3 :=
  match read_u16_prefixed d with
  | Some (k, d1) =>
    match read_u16_prefixed d1 with
    | Some (n, d2) =>
      match read_u16_prefixed d2 with
      | Some (e, sg) => {| q3_key := k; q3_nkid := n; q3_enc := e; q3_sig := sg |}
      | None => {| q3_key := []; q3_nkid := []; q3_enc := []; q3_sig := [] |}
      end
    | None => {| q3_key := []; q3_nkid := []; q3_enc := []; q3_sig := [] |}
    end
  | None => {| q3_key := []; q3_nkid := []; q3_enc := []; q3_sig := [] |}
  end.
Definition show5 (r : req5) : list (list byte) := [num1 (q5_keyid r); nat8 (length (q5_elems r)); concat (q5_elems r)].
(* S-data for type 5: keyid ++ concatenation of 32-byte elements *)
Definition parse5 (d : list byte) : req5 :=
  match d with
  | k :: b => {| q5_keyid := b2n k; q5_elems := chunks32 (Nat.div (length b) 32) b |}
  | [] => {| q5_keyid := 0; q5_elems := [] |}
  end.
Definition show_inner (r : inner) : list (list byte) := [num1 (in_keyid r); in_blinded r; in_padded r].
(* S-data for inner: keyid ++ u16p blinded ++ padded *)
Definition parse_inner (d : list byte) : inner :=
  match d with
  | k :: d1 =>
    match read_u16_prefixed d1 with
    | Some (m, p) => {| in_keyid := b2n k; in_blinded := m; in_padded := p |}
    | None => {| in_keyid := b2n k; in_blinded := []; in_padded := [] |}
    end
  | [] => {| in_keyid := 0; in_blinded := []; in_padded := [] |}
  end.

Fixpoint parse_bitems (a : list (list byte)) : list bitem :=
  match a with
  | t :: k :: b :: rest => (be_dec t, {| q_keyid := be_dec k; q_blinded := b |}) :: parse_bitems rest
  | _ => []
  end.
Definition show_bitems (l : list bitem) : list (list byte) :=
  concat (map (fun it : bitem => [num2 (fst it); num1 (q_keyid (snd it)); q_blinded (snd it)]) l).
Fixpoint parse_typed (a : list (list byte)) : list (N * list byte) :=
  match a with t :: r :: rest => (be_dec t, r) :: parse_typed rest | _ => [] end.

Definition dispatch_codecs (name : list byte) (a : list (list byte)) : option (list (list byte)) :=
  if is name "dec_token" then Some (out_token (dec_token (N.to_nat (narg a 0)) (arg a 1)))
  else if is name "enc_token" then Some [st_ok; enc_token (mk_token a 0)]
  else if is name "auth_input" then Some [st_ok; auth_input (mk_token a 0)]
  else if is name "dec_challenge" then
    Some (match dec_challenge (arg a 0) with
          | Some c => st_ok :: num2 (c_type c) :: c_issuer c :: c_nonce c :: c_origin c
          | None => [st_none] end)
  else if is name "enc_challenge" then
    Some (out_res_bytes (marshal_challenge
            {| c_type := narg a 0; c_issuer := arg a 1; c_nonce := arg a 2; c_origin := skipn 3 a |}))
  else if is name "hist_req1" then
    Some (run_hist (enc_req12 1) (um_req12 1 ne1) show12 parse12 {| raw := None; val := fresh_breq |} a)
  else if is name "hist_req2" then
    Some (run_hist (enc_req12 2) (um_req12 2 ne2) show12 parse12 {| raw := None; val := fresh_breq |} a)
  else if is name "hist_req3" then
    Some (run_hist enc_req3 um_req3 show3 parse3 {| raw := None; val := parse3 [] |} a)
  else if is name "hist_req5" then
    Some (run_hist enc_req5 um_req5 show5 parse5 {| raw := None; val := parse5 [] |} a)
  else if is name "hist_inner" then
    Some (run_hist enc_inner um_inner show_inner parse_inner {| raw := None; val := parse_inner [] |} a)
  else if is name "dec_encap" then
    Some (match dec_encap (fun _ _ => negb (bytes_eqb (arg a 1) [x00])) (arg a 0) with
          | Some k => [st_ok; enc_encap k; num1 (e_id k); num2 (e_kem k); e_pk k; num2 (e_kdf k); num2 (e_aead k)]
          | None => [st_none] end)
  else if is name "dec_batch" then
    Some (match dec_batch (arg a 0) with Some l => st_ok :: show_bitems l | None => [st_none] end)
  else if is name "enc_batch" then Some [st_ok; enc_batch (parse_bitems a)]
  else if is name "dec_resps" then
    Some (match dec_resps (arg a 0) with Some l => st_ok :: nat8 (length l) :: l | None => [st_none] end)
  else if is name "enc_resps_typed" then Some [st_ok; enc_resps_typed (parse_typed a)]
  else None.

(** * Padding *)
Definition dispatch_pad (name : list byte) (a : list (list byte)) : option (list (list byte)) :=
  if is name "pad" then Some [st_ok; pad (arg a 0)]
  else if is name "unpad" then Some [st_ok; unpad (arg a 0)]
  else if is name "wire_len" then Some [st_ok; nat8 (request_wire_len (N.to_nat (narg a 0)))]
  else if is name "served" then Some [if served (arg a 0) (skipn 1 a) then st_ok else st_none]
  else None.

(** * Attester: histories of Register / BadVerify / Finalize / Query operations *)
Definition rd2 (d : list byte) : list byte * list byte :=
  match read_u16_prefixed d with Some (x, r) => (x, r) | None => ([], []) end.
Fixpoint run_attester (s : cache) (ops : list (list byte)) : list (list byte) :=
  match ops with
  | [] => []
  | o :: rest =>
    match o with
    | c :: d =>
      if byte_eqb c x52 (* R client *) then st_ok :: run_attester (register s d) rest
      else if byte_eqb c x42 (* B client: a VerifyRequest that fails: no state change *) then st_none :: run_attester s rest
      else if byte_eqb c x46 (* F u16p client, u16p idx, anon *) then
        let '(cl, d1) := rd2 d in let '(idx, anon) := rd2 d1 in
        match finalize s cl idx anon with
        | (s', Accept i) => st_ok :: i :: run_attester s' rest
        | (s', _) => st_none :: run_attester s' rest
        end
      else if byte_eqb c x51 (* Q u16p client, idx *) then
        let '(cl, idx) := rd2 d in
        match bound s cl idx with Some a => st_ok :: a :: run_attester s rest | None => st_none :: run_attester s rest end
      else [st_unknown]
    | [] => [st_unknown]
    end
  end.

Definition flag (b : list byte) : bool := negb (bytes_eqb b [x00]).
Definition dispatch_attester (name : list byte) (a : list (list byte)) : option (list (list byte)) :=
  if is name "attester_hist" then Some (run_attester init a)
  else if is name "verify_request" then
    (* args: key nkid enc sig blind client_key | oracle: parse(key) sigok parse(client) blinded | registered-before *)
    let r := {| q3_key := arg a 0; q3_nkid := arg a 1; q3_enc := arg a 2; q3_sig := arg a 3 |} in
    let ck := arg a 5 in
    let parse_pk := fun x => if bytes_eqb x (q3_key r) then flag (arg a 6) else if bytes_eqb x ck then flag (arg a 8) else false in
    let s0 : cache := if flag (arg a 10) then fset init ck fresh_cstate else init in
    let '(res, s', tr) := verify_request parse_pk (fun _ _ _ => flag (arg a 7)) (fun _ _ => arg a 9) s0 r (arg a 4) ck in
    Some [match res with Ok _ => st_ok | Err => st_none | Panic => st_panic end;
          if existsb (fun c => match c with CPut _ => true | _ => false end) tr then st_ok else st_none;
          if registered s' ck then st_ok else st_none;
          signed_message r]
  else None.

(** * Front ends (C03): is the implementation's verdict consistent with the front end of the model?
    args: impl verdict (00 error, 01 ok, ff panic), inputs.  Primitives are instantiated with
    always-succeeding constants, so an [Err] of the model is a rejection by the front end itself:
    the implementation must then have returned an error; a panic is never consistent. *)
Definition consistent {A} (impl : list byte) (fe : res A) : list (list byte) :=
  if bytes_eqb impl st_panic then [st_none]
  else match fe with
       | Panic => [st_panic]
       | Err => if bytes_eqb impl st_ok then [st_none] else [st_ok]
       | Ok _ => [st_ok]
       end.
Definition z98 : list byte := repeat x00 98.
Definition dispatch_frontends (name : list byte) (a : list (list byte)) : option (list (list byte)) :=
  if is name "fe_fin1" then
    Some (consistent (arg a 0) (fin1 (fun _ => true) (fun _ => true) (fun _ _ => Some (repeat x00 48)) z98 (arg a 1)))
  else if is name "fe_fin3" then
    Some (consistent (arg a 0) (fin3 (fun _ _ => Some []) (fun _ => Some (repeat x00 256)) (fun _ _ => true) [] z98 (arg a 1)))
  else if is name "fe_fin5" then
    let n := N.to_nat (narg a 1) in
    Some (consistent (arg a 0) (fin5 (fun _ => true) (fun _ => true) (fun el _ => Some (map (fun _ => repeat x00 64) el))
                                     (repeat z98 n) (arg a 2)))
  else if is name "fe_eval3" then
    let '(ok, r) := um_req3 {| q3_key := []; q3_nkid := []; q3_enc := []; q3_sig := [] |} (arg a 1) in
    Some (consistent (arg a 0) (if ok && negb (Nat.ltb (length (q3_enc r)) 32) then Ok tt else Err))
  else if is name "eval3" then
    (* args: data cfg kid | oracle: open_ok plaintext parse_key sig_ok sign_ok | registered names *)
    let data := arg a 0 in
    let r := snd (um_req3 {| q3_key := []; q3_nkid := []; q3_enc := []; q3_sig := [] |} data) in
    let res := eval3 (fun _ _ _ => if flag (arg a 3) then Some (arg a 4, []) else None) (arg a 1) (arg a 2)
                     (fun _ => flag (arg a 5)) (fun _ _ _ => flag (arg a 6))
                     (fun nm => existsb (bytes_eqb nm) (skipn 8 a))
                     (fun _ _ _ => if flag (arg a 7) then Some ([], []) else None) data in
    Some [match res with Ok _ => st_ok | Err => st_none | Panic => st_panic end;
          aad (arg a 1) (arg a 2) (q3_key r); signed_message r]
  else if is name "um_req5_go" then
    Some (match um_req5_go (arg a 0) with
          | Ok (k, e, _) => [st_ok; num1 k; nat8 (length e); concat e]
          | Err => [st_none] | Panic => [st_panic] end)
  else if is name "dec_batch_go" then
    Some (match dec_batch_go (arg a 0) with Ok l => st_ok :: show_bitems l | Err => [st_none] | Panic => [st_panic] end)
  else if is name "unpad_go" then Some (out_res_bytes (unpad_go (arg a 0)))
  else None.

Definition first_some {A} (l : list (option A)) (d : A) : A :=
  match List.find (fun o => match o with Some _ => true | None => false end) l with
  | Some (Some r) => r | _ => d end.

Definition dispatch (name : list byte) (a : list (list byte)) : list (list byte) :=
  match dispatch_quicwire name a with Some r => r | None =>
  match dispatch_codecs name a with Some r => r | None =>
  match dispatch_pad name a with Some r => r | None =>
  match dispatch_attester name a with Some r => r | None =>
  match dispatch_frontends name a with Some r => r | None => [st_unknown] end end end end end.
