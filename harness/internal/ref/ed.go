package ref

// A math/big reference for edwards25519 written from RFC 8032 §5.1 (affine coordinates, complete addition law).
// It shares no code with pat-go's fork or with the standard library's internal implementation.

import "math/big"

var (
	edP, _ = new(big.Int).SetString("7fffffffffffffffffffffffffffffffffffffffffffffffffffffffffffffed", 16)
	edL, _ = new(big.Int).SetString("1000000000000000000000000000000014def9dea2f79cd65812631a5cf5d3ed", 16)
	edD    = func() *big.Int { // -121665/121666 mod p
		d := new(big.Int).ModInverse(big.NewInt(121666), edP)
		d.Mul(d, big.NewInt(-121665))
		return d.Mod(d, edP)
	}()
	edSqrtM1 = new(big.Int).Exp(big.NewInt(2), new(big.Int).Div(new(big.Int).Sub(edP, big.NewInt(1)), big.NewInt(4)), edP)
)

func EdL() *big.Int { return new(big.Int).Set(edL) }

type EdPoint struct{ X, Y *big.Int }

func EdIdentity() EdPoint { return EdPoint{big.NewInt(0), big.NewInt(1)} }

func EdBase() EdPoint {
	y := new(big.Int).Mul(big.NewInt(4), new(big.Int).ModInverse(big.NewInt(5), edP))
	y.Mod(y, edP)
	x, _ := edRecoverX(y, 0)
	return EdPoint{x, y}
}

func edRecoverX(y *big.Int, sign uint) (*big.Int, bool) {
	// x^2 = (y^2 - 1) / (d y^2 + 1)
	y2 := new(big.Int).Mul(y, y)
	u := new(big.Int).Sub(y2, big.NewInt(1))
	u.Mod(u, edP)
	v := new(big.Int).Mul(edD, y2)
	v.Add(v, big.NewInt(1))
	v.Mod(v, edP)
	x2 := new(big.Int).Mul(u, new(big.Int).ModInverse(v, edP))
	x2.Mod(x2, edP)
	if x2.Sign() == 0 {
		if sign == 1 {
			// RFC 8032 rejects x = 0 with sign bit 1; Go's implementations accept it (x = -0 = 0)
			return big.NewInt(0), true
		}
		return big.NewInt(0), true
	}
	e := new(big.Int).Add(edP, big.NewInt(3))
	e.Div(e, big.NewInt(8))
	x := new(big.Int).Exp(x2, e, edP)
	chk := new(big.Int).Mul(x, x)
	chk.Mod(chk, edP)
	if chk.Cmp(x2) != 0 {
		x.Mul(x, edSqrtM1)
		x.Mod(x, edP)
		chk.Mul(x, x)
		chk.Mod(chk, edP)
		if chk.Cmp(x2) != 0 {
			return nil, false
		}
	}
	if x.Bit(0) != sign {
		x.Sub(edP, x)
	}
	return x, true
}

// EdDecode follows Go's permissive decoding: y is taken mod p (non-canonical y accepted), sign bit applied.
func EdDecode(b []byte) (EdPoint, bool) {
	if len(b) != 32 {
		return EdPoint{}, false
	}
	le := make([]byte, 32)
	for i := range b {
		le[31-i] = b[i]
	}
	sign := uint(le[0] >> 7)
	le[0] &= 0x7f
	y := new(big.Int).SetBytes(le)
	y.Mod(y, edP)
	x, ok := edRecoverX(y, sign)
	if !ok {
		return EdPoint{}, false
	}
	return EdPoint{x, y}, true
}

func (p EdPoint) Encode() []byte {
	be := make([]byte, 32)
	p.Y.FillBytes(be)
	out := make([]byte, 32)
	for i := range be {
		out[31-i] = be[i]
	}
	out[31] |= byte(p.X.Bit(0)) << 7
	return out
}

func (p EdPoint) Add(q EdPoint) EdPoint {
	// x3 = (x1 y2 + x2 y1) / (1 + d x1 x2 y1 y2), y3 = (y1 y2 + x1 x2) / (1 - d x1 x2 y1 y2)
	x1y2 := new(big.Int).Mul(p.X, q.Y)
	x2y1 := new(big.Int).Mul(q.X, p.Y)
	y1y2 := new(big.Int).Mul(p.Y, q.Y)
	x1x2 := new(big.Int).Mul(p.X, q.X)
	t := new(big.Int).Mul(x1x2, y1y2)
	t.Mul(t, edD)
	t.Mod(t, edP)
	nx := new(big.Int).Add(x1y2, x2y1)
	dx := new(big.Int).Add(big.NewInt(1), t)
	ny := new(big.Int).Add(y1y2, x1x2)
	dy := new(big.Int).Sub(big.NewInt(1), t)
	dx.Mod(dx, edP)
	dy.Mod(dy, edP)
	x3 := nx.Mul(nx, new(big.Int).ModInverse(dx, edP))
	y3 := ny.Mul(ny, new(big.Int).ModInverse(dy, edP))
	return EdPoint{x3.Mod(x3, edP), y3.Mod(y3, edP)}
}

func (p EdPoint) Neg() EdPoint {
	x := new(big.Int).Sub(edP, p.X)
	return EdPoint{x.Mod(x, edP), new(big.Int).Set(p.Y)}
}

func (p EdPoint) Mul(k *big.Int) EdPoint {
	r := EdIdentity()
	for i := k.BitLen() - 1; i >= 0; i-- {
		r = r.Add(r)
		if k.Bit(i) == 1 {
			r = r.Add(p)
		}
	}
	return r
}

func (p EdPoint) Equal(q EdPoint) bool { return p.X.Cmp(q.X) == 0 && p.Y.Cmp(q.Y) == 0 }

// LE decodes a little-endian byte string.
func LE(b []byte) *big.Int {
	be := make([]byte, len(b))
	for i := range b {
		be[len(b)-1-i] = b[i]
	}
	return new(big.Int).SetBytes(be)
}
