(** RateLimited.v — the honest type-0x0003 run composed from the models that are executed against the code:
    the C04 request codecs, the C20 padding, the issuer's Evaluate (Model/Frontends.v eval3, C07) and the client's
    FinalizeToken (fin3, C02).  HPKE, the request signature, blind signing, the response AEAD and the RSA
    finalization are ARBITRARY functions; the theorem names the correctness laws of theirs it needs. *)
From PatVerif Require Export Model.Frontends Base.Hash.
Open Scope N_scope.

Section Run3.
  Variable hpke_open : list byte -> list byte -> list byte -> option (list byte * list byte).
  Variable cfg_prefix issuer_key_id : list byte.
  Variable parse_pk : list byte -> bool.
  Variable sig_verify : list byte -> list byte -> list byte -> bool.
  Variable registered : list byte -> bool.
  Variable sign_and_seal : req3 -> inner -> list byte -> option (list byte * list byte).
  Variable aead_open : list byte -> list byte -> option (list byte).
  Variable rsa_finalize : list byte -> option (list byte).
  Variable pss_ok : list byte -> list byte -> bool.

  (** what the client puts on the wire for an origin name: the inner request carries the PADDED name *)
  Definition inner_for (keyid0 : N) (blinded_msg name : list byte) : inner :=
    {| in_keyid := keyid0; in_blinded := blinded_msg; in_padded := pad name |}.

  (** request bytes -> issuer.Evaluate -> response bytes -> client.FinalizeToken *)
  Definition run3 (r : req3) (token_input : list byte) : res token :=
    match eval3 hpke_open cfg_prefix issuer_key_id parse_pk sig_verify registered sign_and_seal (enc_req3 r) with
    | Ok (resp, _) => fin3 aead_open rsa_finalize pss_ok (firstn 32 (q3_enc r)) token_input resp
    | Err => Err
    | Panic => Panic
    end.
End Run3.

(** ** the client side: request assembly of tokens/type3/client.go (encryptOriginTokenRequest + CreateTokenRequest).
    [hpke_seal rnd aad pt] = (encapsulated key, ciphertext, exported secret); [sign msg] = the 96-byte r||s of the
    key-blinded ECDSA signature over SHA-384(msg).  The associated data and the signed message are built here
    exactly as the client builds them, independently of the issuer-side definitions [aad] / [signed_message]. *)
Section Client3.
  Variable hpke_seal : list byte -> list byte -> list byte -> list byte * list byte * list byte.
  Variable sign : list byte -> list byte.
  Definition name_key_id (nk : encap) : list byte := sha256 (enc_encap nk).
  Definition client_aad (nk : encap) (request_key : list byte) : list byte :=
    u8 (e_id nk) ++ u16 (e_kem nk) ++ u16 (e_kdf nk) ++ u16 (e_aead nk) ++ u16 3 ++ request_key ++ name_key_id nk.
  Definition client_signed (request_key nkid ect : list byte) : list byte :=
    u16 3 ++ request_key ++ nkid ++ u16p ect.
  Definition client_request3 (nk : encap) (request_key : list byte) (keyid0 : N) (blinded_msg name rnd : list byte)
    : req3 * list byte :=
    let '(enc, ct, secret) := hpke_seal rnd (client_aad nk request_key) (enc_inner (inner_for keyid0 blinded_msg name)) in
    let ect := enc ++ ct in
    let nkid := name_key_id nk in
    ({| q3_key := request_key; q3_nkid := nkid; q3_enc := ect; q3_sig := sign (client_signed request_key nkid ect) |}, secret).
  (** the issuer's configuration for the same name key *)
  Definition issuer_cfg (nk : encap) : list byte := u8 (e_id nk) ++ u16 (e_kem nk) ++ u16 (e_kdf nk) ++ u16 (e_aead nk).
End Client3.

(** ** the response key schedule shared by issuer (issuer.go:218-233) and client (client.go:126-147), for the fixed
    suite HKDF-SHA256 / AES-128-GCM: salt = encapsulated key || response nonce (16 bytes = max(Nk, Nn)),
    prk = Extract(salt, secret), key = Expand(prk, "key", 16), nonce = Expand(prk, "nonce", 12) *)
Definition label_key : list byte := map n2b [107; 101; 121].                  (* "key" *)
Definition label_nonce : list byte := map n2b [110; 111; 110; 99; 101].       (* "nonce" *)
Definition response_keys (secret enc rnonce : list byte) : list byte * list byte :=
  let prk := hkdf_extract p256 (enc ++ rnonce) secret in
  (hkdf_expand p256 prk label_key 16, hkdf_expand p256 prk label_nonce 12).
Close Scope N_scope.
