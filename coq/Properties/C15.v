(** C15 — Ed25519 key blinding yields ordinary, invertible, context-bound Ed25519 keys.
    Layer B: the prime-order subgroup in exponent form over an ARBITRARY field; secret scalar a has public key a * 1;
    the blinding factor r is Model/Derive.v [ed_blind_factor] = SHA-512(blind || 0x00 || context)[0:32] mod L (Coq
    SHA-512), and the byte-exact signing pipeline is Model/Ed25519.v, executed against the code. *)
From Coq Require Import Field Bool.
From PatVerif Require Import Model.Algebra Proofs.AlgebraP.
From PatVerif Require Import Model.Fe Proofs.FeP Model.EdPoint Proofs.EdPointP.

Section C15.
  Variable F : Type.
  Variables (f0 f1 : F) (fadd fmul fsub : F -> F -> F) (fopp : F -> F) (fdiv : F -> F -> F) (finv : F -> F).
  Variable feqb : F -> F -> bool.
  Hypothesis Fth : field_theory f0 f1 fadd fmul fsub fopp fdiv finv (@eq F).
  Hypothesis feqb_spec : forall a b, feqb a b = true <-> a = b.
  Notation blind_pk := (blind_pk F fmul). Notation unblind_pk := (unblind_pk F fmul finv).
  Notation blind_sk := (blind_sk F fmul).
  Notation ed_sign := (ed_sign F fadd fmul). Notation ed_verify := (ed_verify F fadd fmul feqb).

  (** the blinded public key is the public key multiplied by the factor, and is the public key of the blinded secret *)
  Theorem blind_pk_formula : forall a r, blind_pk (fmul a f1) r = fmul (blind_sk a r) f1.
  Proof. exact (blind_sk_pk_l F f0 f1 fadd fmul fsub fopp fdiv finv Fth). Qed.

  (** a signature made with the blinded key satisfies the STANDARD verification equation [S]B = R + [h]A' under the
      blinded public key A' — for every secret a, factor r, nonce n and challenge scalar h *)
  Theorem blind_sign_verifies_std : forall a r n h,
    let '(Rp, Sc) := ed_sign (blind_sk a r) n h in ed_verify (blind_pk (fmul a f1) r) Rp Sc h = true.
  Proof. exact (ed_blind_sign_verifies_l F f0 f1 fadd fmul fsub fopp fdiv finv feqb Fth feqb_spec). Qed.

  (** ... and under the original key only if the factor is 1 *)
  Theorem not_under_original : forall a r n h, h <> f0 -> a <> f0 ->
    let '(Rp, Sc) := ed_sign (blind_sk a r) n h in ed_verify (fmul a f1) Rp Sc h = true -> r = f1.
  Proof. exact (ed_blind_sign_original_l F f0 f1 fadd fmul fsub fopp fdiv finv feqb Fth feqb_spec). Qed.

  Theorem unblind_blind : forall P r, r <> f0 -> unblind_pk (blind_pk P r) r = P.
  Proof. exact (unblind_blind_l F f0 f1 fadd fmul fsub fopp fdiv finv Fth). Qed.

  Theorem blind_commutes : forall P r1 r2, blind_pk (blind_pk P r1) r2 = blind_pk (blind_pk P r2) r1.
  Proof. exact (blind_commutes_l F f0 f1 fadd fmul fsub fopp fdiv finv Fth). Qed.

  (** changing the blind or the context changes the blinded key exactly when the derived factors differ
      (equal factors for different inputs are a SHA-512-mod-L collision) *)
  Theorem blinded_key_changes_iff : forall P r1 r2, P <> f0 -> (blind_pk P r1 = blind_pk P r2 <-> r1 = r2).
  Proof. exact (blind_injective_l F f0 f1 fadd fmul fsub fopp fdiv finv Fth). Qed.
End C15.

(** deterministic: the signature is a function of (seed, blind, context, message) — Model/Ed25519.v has no other input *)
Print Assumptions blind_pk_formula.
Print Assumptions blind_sign_verifies_std.
Print Assumptions not_under_original.
Print Assumptions unblind_blind.
Print Assumptions blind_commutes.
Print Assumptions blinded_key_changes_iff.

(** invertibility at the arithmetic the harness EXECUTES (Model/Derive.v [mulm], [invm]; for Ed25519 the modulus is
    [order_ed25519] = L), for every prime group order q *)
From Coq Require Import ZArith NArith Znumtheory.
From PatVerif Require Import Model.Derive Proofs.ZqP.
Theorem unblind_blind_executed : forall q P r, prime (Z.of_N q) -> (r mod q <> 0)%N ->
  mulm q (invm q r) (mulm q r P) = (P mod q)%N.
Proof. exact exec_unblind_blind. Qed.
Print Assumptions unblind_blind_executed.

(** the blinded public key computed inside the model — decode the key, [factor]A by double-and-add over the field
    arithmetic of Model/Fe.v, encode — never leaves the limb bounds under which that arithmetic is proved: for every
    accepted 32-byte key and every factor *)
Theorem blinded_key_in_the_model_never_wraps : forall (pk : list Byte.byte) A (f : N), length pk = 32%nat -> pt_set_bytes pk = Some A ->
  pt_ok (pt_mul f A).
Proof. intros pk A f Hl HA. apply pt_mul_ok. exact (proj1 (pt_set_bytes_ok pk A Hl HA)). Qed.
Print Assumptions blinded_key_in_the_model_never_wraps.
