(** C10 — issuer-side token verification accepts exactly the tokens it issued.
    [prf] is the issuer's full VOPRF evaluation under its key (FullEvaluate; None = error): an ARBITRARY function,
    so the statements hold for the P-384 and the ristretto255 suite and for every key. *)
From PatVerif Require Import Model.TokenVerify Proofs.TokenVerifyP.
Open Scope N_scope.

(** accept  <->  the authenticator is the PRF of type || nonce || context || key id as carried in the token *)
Theorem verify_iff : forall prf t, verify prf t = true <-> prf (auth_input t) = Some (t_auth t).
Proof. exact verify_iff_l. Qed.
Print Assumptions verify_iff.

(** changing any bit of the authenticator (any other authenticator at all, of any length) is rejected *)
Theorem auth_change_rejected : forall prf t a', verify prf t = true -> a' <> t_auth t ->
  verify prf {| t_type := t_type t; t_nonce := t_nonce t; t_ctx := t_ctx t; t_keyid := t_keyid t; t_auth := a' |} = false.
Proof. exact auth_change_rejected_l. Qed.
Print Assumptions auth_change_rejected.

(** changing another field while keeping the authenticator is accepted only if the two inputs collide under the PRF *)
Theorem field_change_needs_collision : forall prf t t', verify prf t = true -> verify prf t' = true ->
  t_auth t = t_auth t' -> prf (auth_input t) = prf (auth_input t').
Proof. exact field_change_collision_l. Qed.
Print Assumptions field_change_needs_collision.

(** ... and with the wire format's fixed widths different fields do give different inputs *)
Theorem auth_input_injective : forall t t',
  t_type t < 65536 -> t_type t' < 65536 ->
  length (t_nonce t) = length (t_nonce t') -> length (t_ctx t) = length (t_ctx t') ->
  auth_input t = auth_input t' ->
  t_type t = t_type t' /\ t_nonce t = t_nonce t' /\ t_ctx t = t_ctx t' /\ t_keyid t = t_keyid t'.
Proof. exact auth_input_inj_l. Qed.
Print Assumptions auth_input_injective.

(** a token of the other type (authenticator of the other suite's length) is rejected *)
Theorem cross_type_rejected : forall prf n t, (forall x o, prf x = Some o -> length o = n) ->
  length (t_auth t) <> n -> verify prf t = false.
Proof. exact wrong_length_rejected_l. Qed.
Print Assumptions cross_type_rejected.

(** the verdict is a function of (input, authenticator) only: no other state, no dependence on how the fields are cut *)
Theorem verify_extensional : forall prf t t', auth_input t = auth_input t' -> t_auth t = t_auth t' ->
  verify prf t = verify prf t'.
Proof. exact verify_ext_l. Qed.
Print Assumptions verify_extensional.

(** non-vacuity: a toy PRF accepts its own output and nothing else *)
Example verify_example :
  let prf := fun x => Some (rev x) in
  let t := {| t_type := 1; t_nonce := [x01]; t_ctx := [x02]; t_keyid := [x03]; t_auth := [x03; x02; x01; x01; x00] |} in
  verify prf t = true /\ verify prf {| t_type := 1; t_nonce := [x01]; t_ctx := [x02]; t_keyid := [x03]; t_auth := [x03; x02; x01; x01] |} = false.
Proof. vm_compute. split; reflexivity. Qed.
