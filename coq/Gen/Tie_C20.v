(** source tie for C20: padOriginName's arithmetic  N := 31 - ((len - 1) % 32)  with the literals of the source *)
From Coq Require Import List NArith ZArith.
From PatVerif Require Import Model.Pad Gen.Src.
Import ListNotations.
Ltac t := vm_compute; first [reflexivity | exact I | repeat split; reflexivity].
Definition pad_count_src (l : list N) (n : nat) : nat :=
  match l with
  | [a; b; c] => Z.to_nat (Z.of_N a - Z.rem (Z.of_nat n - Z.of_N b) (Z.of_N c))
  | _ => 0%nat end.
Example tie_pad : tie s_t3_pad (fun l => forallb (fun n => Nat.eqb (pad_count n) (pad_count_src l n)) (seq 0 200) = true). Proof. t. Qed.
Example tie_pad_literals : tie s_t3_pad (fun l => l = [31; 1; 32]%N). Proof. t. Qed.
