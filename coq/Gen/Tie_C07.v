(** source tie for C07 (and the type-3 legs of C01/C02): response key labels; the HPKE info / exporter strings agree
    between the client and the issuer; the fixed field lengths of the request decoder *)
From Coq Require Import List NArith.
From PatVerif Require Import Base.Bytes Model.RateLimited Gen.Src.
Import ListNotations.
Example tie_label_key : map n2b s_t3_label_key = label_key. Proof. reflexivity. Qed.
Example tie_label_nonce : map n2b s_t3_label_nonce = label_nonce. Proof. reflexivity. Qed.
Example tie_info_request : s_t3_info_request_client = s_t3_info_request_issuer /\ s_t3_info_request_client = [84; 111; 107; 101; 110; 82; 101; 113; 117; 101; 115; 116]%N. Proof. split; reflexivity. Qed.
Example tie_info_response : s_t3_info_response_client = s_t3_info_response_issuer /\ s_t3_info_response_client = [84; 111; 107; 101; 110; 82; 101; 115; 112; 111; 110; 115; 101]%N. Proof. split; reflexivity. Qed.
Example tie_request_fields : s_t3_request_fields = [49; 32; 96]%N. Proof. reflexivity. Qed.
