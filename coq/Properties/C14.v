(** C14 — the Ed25519 fork is bit-compatible with standard Ed25519.
    Layer A (Model/Ed25519.v): RFC 8032 key derivation and signing byte-exact up to the group operations, the
    verifier's canonical-S test and early rejection, clamping, and entropy consumption.  Layer B: the verification
    equation in exponent form.  The fork's limb arithmetic (scalar.go, field/, point formulas) is a primitive here,
    tied to Z mod L and the Edwards group by differential execution only (partial). *)
From Coq Require Import Field Bool.
From PatVerif Require Import Model.Ed25519 Proofs.Ed25519P Model.Ecdsa Proofs.EcdsaP Model.Algebra Proofs.AlgebraP.
Open Scope N_scope.

(** scalar.isReduced (byte-wise comparison with L-1 from the most significant byte) decides value < L,
    for EVERY 32-byte string: S, S+L, S with high bits set are told apart exactly *)
Theorem is_reduced_spec : forall s, length s = 32%nat -> (is_reduced s = true <-> le_val s < L).
Proof. exact is_reduced_spec_l. Qed.
Print Assumptions is_reduced_spec.

(** the early rejection sig[63] & 224 != 0 never changes a verdict *)
Theorem precheck_redundant : forall s, length s = 32%nat -> le_val s < L -> N.land (b2n (nth 31 s x00)) 224 = 0.
Proof. exact precheck_redundant_l. Qed.
Print Assumptions precheck_redundant.

(** clamping (SetBytesWithClamping): the secret scalar is (a multiple of 8 in [2^254, 2^255)) mod L *)
Theorem clamp_value : forall b, clamp b = clamp_pre (le_val b) mod L /\
  clamp_pre (le_val b) mod 8 = 0 /\ 2 ^ 254 <= clamp_pre (le_val b) < 2 ^ 255.
Proof. intro b. split; [apply clamp_is|apply clamp_pre_spec_l]. Qed.
Print Assumptions clamp_value.

(** key generation consumes the entropy reader like io.ReadFull of 32 bytes: it fails for EVERY script that
    cannot deliver 32 bytes and succeeds, with exactly the first 32 bytes as seed, when it can *)
Theorem generate_key_fail_closed : forall script, (total script < 32)%nat -> ed_generate_key_entropy script = Err.
Proof. exact ed_generate_fail_closed_l. Qed.
Print Assumptions generate_key_fail_closed.
Theorem generate_key_succeeds : forall script, (32 <= available script)%nat ->
  exists seed, ed_generate_key_entropy script = Ok seed /\ length seed = 32%nat.
Proof. exact ed_generate_succeeds_l. Qed.
Print Assumptions generate_key_succeeds.

(** what is signed verifies (exponent form, any field): S = n + h a satisfies [S]B = R + [h]A *)
Section Eq.
  Variable F : Type.
  Variables (f0 f1 : F) (fadd fmul fsub : F -> F -> F) (fopp : F -> F) (fdiv : F -> F -> F) (finv : F -> F).
  Variable feqb : F -> F -> bool.
  Hypothesis Fth : field_theory f0 f1 fadd fmul fsub fopp fdiv finv (@eq F).
  Hypothesis feqb_spec : forall a b, feqb a b = true <-> a = b.
  Theorem sign_verifies : forall a n h,
    let '(Rp, Sc) := ed_sign F fadd fmul a n h in ed_verify F fadd fmul feqb (fmul a f1) Rp Sc h = true.
  Proof. exact (ed_sign_verifies_l F f0 f1 fadd fmul fsub fopp fdiv finv feqb Fth feqb_spec). Qed.
End Eq.
Print Assumptions sign_verifies.

Example is_reduced_examples :
  is_reduced (le_bytes 32 (L - 1)) = true /\ is_reduced (le_bytes 32 L) = false /\
  is_reduced (le_bytes 32 (L + 18)) = false /\ is_reduced (le_bytes 32 0) = true /\ is_reduced (repeat xff 32) = false.
Proof. vm_compute. repeat split; reflexivity. Qed.
