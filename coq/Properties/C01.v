(** C01 — honest issuance over the wire yields a valid, correctly bound token.
    Layer C (Model/Issuance.v): the full honest run create -> marshal -> unmarshal -> evaluate -> response bytes ->
    finalize for types 0x0001 and 0x0002, with the C04 codecs as the wire, over an ARBITRARY field (VOPRF in
    exponent form) / commutative ring (blind RSA) and ARBITRARY primitives satisfying the named correctness laws.
    Types 0x0003 and 0x0005 reuse these two cores (type 3 = type 2 inside the HPKE/padding/blinding envelope of C20,
    C12, C07; type 5 = type 1 per element inside the C04 list codec); their end-to-end runs are executed, and their
    components proved in C04/C07/C12/C20, but the composed theorem is stated here for types 1 and 2 only (partial). *)
From Coq Require Import Field Ring.
From PatVerif Require Import Model.Issuance Proofs.IssuanceP Proofs.TokenVerifyP Proofs.HashP Model.Quicwire Base.Hash.
Open Scope N_scope.

Section Type1.
  Variable F : Type.
  Variables (f0 f1 : F) (fadd fmul fsub : F -> F -> F) (fopp : F -> F) (fdiv : F -> F -> F) (finv : F -> F).
  Variable feqb : F -> F -> bool.
  Hypothesis Fth : field_theory f0 f1 fadd fmul fsub fopp fdiv finv (@eq F).
  Hypothesis feqb_spec : forall a b, feqb a b = true <-> a = b.
  Variable h256 : list byte -> list byte.
  Variable h2g : list byte -> F.
  Variable enc_elt : F -> list byte.
  Variable dec_elt : list byte -> option F.
  Variable fin : list byte -> F -> list byte.
  Variable prove : F -> F -> F -> list byte -> list byte.
  Variable dleq_ok : F -> F -> F -> list byte -> bool.
  (** named correctness laws of the primitives *)
  Hypothesis h256_len : forall x, length (h256 x) = 32%nat.                       (* SHA-256 output length *)
  Hypothesis dec_enc_elt : forall e, dec_elt (enc_elt e) = Some e.                (* element encoding round trip *)
  Hypothesis enc_elt_len : forall e, length (enc_elt e) = 49%nat.                 (* Ne = 49 *)
  Hypothesis fin_len : forall i e, length (fin i e) = 48%nat.                     (* Nk = 48 *)
  Hypothesis dleq_complete : forall k b rnd, dleq_ok (fmul k f1) b (fmul k b) (prove k b (fmul k b) rnd) = true.
  Hypothesis proof_len : forall k b ev rnd, length (prove k b ev rnd) = 96%nat.   (* 2 Ns *)

  (** for every key k, challenge (any length), 32-byte nonce, key id, non-zero blind and issuer randomness: the run
      completes, the token is type || nonce || SHA-256(challenge) || key id || F(k, input) with a 48-byte authenticator,
      and it verifies under the issuer's key *)
  Theorem honest_type1 : forall k beta rnd nonce challenge keyid,
    length nonce = 32%nat -> length keyid = 32%nat -> beta <> f0 ->
    h2g (token_input h256 1 nonce challenge keyid) <> f0 ->
    let input := token_input h256 1 nonce challenge keyid in
    let tok := {| t_type := 1; t_nonce := nonce; t_ctx := h256 challenge; t_keyid := keyid;
                  t_auth := fin input (fmul k (h2g input)) |} in
    run1 F f0 f1 fmul finv feqb h256 h2g enc_elt dec_elt fin prove dleq_ok k beta rnd nonce challenge keyid = Some tok /\
    verify (full_evaluate F fmul h2g fin k) tok = true /\
    enc_token tok = u16 1 ++ nonce ++ h256 challenge ++ keyid ++ fin input (fmul k (h2g input)) /\
    length (t_auth tok) = 48%nat.
  Proof.
    exact (honest_type1_l F f0 f1 fadd fmul fsub fopp fdiv finv feqb Fth feqb_spec h256 h2g enc_elt dec_elt fin prove dleq_ok
             h256_len dec_enc_elt enc_elt_len fin_len dleq_complete proof_len).
  Qed.
End Type1.
Print Assumptions honest_type1.

Section Type2.
  Variable R : Type.
  Variables (r0 r1 : R) (radd rmul rsub : R -> R -> R) (ropp : R -> R).
  Hypothesis Rth : ring_theory r0 r1 radd rmul rsub ropp (@eq R).
  Variable h256 : list byte -> list byte.
  Variable emsa : list byte -> list byte -> R.
  Variable enc_r : R -> list byte.
  Variable dec_r : list byte -> option R.
  Variable pss_ok : list byte -> list byte -> bool.
  Hypothesis h256_len : forall x, length (h256 x) = 32%nat.
  Hypothesis dec_enc_r : forall x, dec_r (enc_r x) = Some x.          (* 256-byte integer encoding round trip *)
  Hypothesis enc_r_len : forall x, length (enc_r x) = 256%nat.        (* Nk = 256: 2048-bit modulus *)

  (** for every RSA key (e, d with (r^e)^d = r), challenge, nonce, salt and unit blind r, given that the PSS
      signature of the input verifies (RSASSA-PSS consistency): the run completes and the token is
      type || nonce || SHA-256(challenge) || key id || the 256-byte signature EMSA(input, salt)^d *)
  Theorem honest_type2 : forall e d r rinv salt nonce challenge keyid,
    length nonce = 32%nat -> length keyid = 32%nat ->
    rmul r rinv = r1 -> rpow R r1 rmul (rpow R r1 rmul r e) d = r ->
    let input := token_input h256 2 nonce challenge keyid in
    pss_ok input (enc_r (rpow R r1 rmul (emsa input salt) d)) = true ->
    let tok := {| t_type := 2; t_nonce := nonce; t_ctx := h256 challenge; t_keyid := keyid;
                  t_auth := enc_r (rpow R r1 rmul (emsa input salt) d) |} in
    run2 R r1 rmul h256 emsa enc_r dec_r pss_ok e d r rinv salt nonce challenge keyid = Some tok /\
    enc_token tok = u16 2 ++ nonce ++ h256 challenge ++ keyid ++ enc_r (rpow R r1 rmul (emsa input salt) d) /\
    length (t_auth tok) = 256%nat.
  Proof.
    exact (honest_type2_l R r0 r1 radd rmul rsub ropp Rth h256 emsa enc_r dec_r pss_ok h256_len dec_enc_r enc_r_len).
  Qed.
End Type2.
Print Assumptions honest_type2.

Section Type5.
  Variable F : Type.
  Variables (f0 f1 : F) (fadd fmul fsub : F -> F -> F) (fopp : F -> F) (fdiv : F -> F -> F) (finv : F -> F).
  Hypothesis Fth : field_theory f0 f1 fadd fmul fsub fopp fdiv finv (@eq F).
  Variable h256 : list byte -> list byte.
  Variable h2g : list byte -> F.
  Variable enc_elt : F -> list byte.
  Variable dec_elt : list byte -> option F.
  Variable fin : list byte -> F -> list byte.
  Variable prove_b : F -> list F -> list F -> list byte -> list byte.
  Variable dleq_b_ok : F -> list F -> list F -> list byte -> bool.
  Hypothesis h256_len : forall x, length (h256 x) = 32%nat.
  Hypothesis dec_enc_elt : forall e, dec_elt (enc_elt e) = Some e.
  Hypothesis enc_elt_len : forall e, length (enc_elt e) = 32%nat.                 (* ristretto255 *)
  Hypothesis fin_len : forall i e, length (fin i e) = 64%nat.                     (* Nk = 64 *)
  Hypothesis dleq_b_complete : forall k bs rnd,
    dleq_b_ok (fmul k f1) bs (map (fmul k) bs) (prove_b k bs (map (fmul k) bs) rnd) = true.
  Hypothesis proof_b_len : forall k bs evs rnd, length (prove_b k bs evs rnd) = 64%nat.

  (** EVERY batch size (by induction on the list of nonces, up to the 2^62-1 bytes a varint can announce): the run
      completes and yields, in order, one token per nonce: type || nonce_i || SHA-256(challenge) || key id ||
      F(k, input_i) with a 64-byte authenticator *)
  Theorem honest_type5 : forall k betas rnd nonces challenge keyid,
    length keyid = 32%nat -> length betas = length nonces ->
    Forall (fun n => length n = 32%nat) nonces -> Forall (fun b => b <> f0) betas ->
    N.of_nat (32 * length nonces) <= Quicwire.max_varint ->
    run5 F f1 fmul finv h256 h2g enc_elt dec_elt fin prove_b dleq_b_ok k betas rnd nonces challenge keyid
      = Some (map (tok5 F fmul h256 h2g fin k challenge keyid) nonces).
  Proof.
    exact (honest_type5_l F f0 f1 fadd fmul fsub fopp fdiv finv Fth h256 h2g enc_elt dec_elt fin prove_b dleq_b_ok
             h256_len dec_enc_elt enc_elt_len fin_len dleq_b_complete proof_b_len).
  Qed.
  (** each of these tokens verifies under the issuer's key and has the exact layout *)
  Theorem honest_type5_tokens : forall k challenge keyid nonce,
    let t := tok5 F fmul h256 h2g fin k challenge keyid nonce in
    verify (full_evaluate F fmul h2g fin k) t = true /\
    enc_token t = u16 5 ++ nonce ++ h256 challenge ++ keyid ++ t_auth t /\ length (t_auth t) = 64%nat.
  Proof.
    intros k challenge keyid nonce t. split; [|split; [reflexivity|apply fin_len]].
    apply TokenVerifyP.verify_iff_l. reflexivity.
  Qed.
End Type5.
Print Assumptions honest_type5.
Print Assumptions honest_type5_tokens.

(** the SHA-256 of Base/Hash.v satisfies the length law for every message, so [h256] can be instantiated with it *)
Theorem sha256_output_length : forall m, length (Hash.sha256 m) = 32%nat.
Proof. exact HashP.sha256_length. Qed.
Print Assumptions sha256_output_length.

(** ** type 0x0003, composed from the models that are run against the code: C04 request codecs, C20 padding through
    the issuer's own unpadding loop, the issuer's Evaluate (C07 model) and the client's FinalizeToken (C02 model).
    For EVERY primitives (HPKE, signature, blind signing + response sealing, AEAD, RSA finalization, PSS) satisfying
    the named correctness laws, every well-formed request, every origin name not ending in a zero byte that is
    registered: the run completes and the token is type || nonce || context || key id || the 256-byte signature. *)
From PatVerif Require Import Model.RateLimited Proofs.RateLimitedP Proofs.FinalizeP.
Theorem honest_type3 : forall hpke_open cfg_prefix issuer_key_id parse_pk sig_verify registered sign_and_seal
                              aead_open rsa_finalize pss_ok r keyid0 bm name secret rnonce ct brk bs sg ty nonce ctx keyid,
  wf_req3 r -> (32 <= length (q3_enc r))%nat ->
  ends_nonzero name -> registered name = true -> fits16 (pad name) = true ->
  keyid0 < 256 -> length bm = 256%nat ->
  hpke_open (firstn 32 (q3_enc r)) (aad cfg_prefix issuer_key_id (q3_key r)) (skipn 32 (q3_enc r))
    = Some (enc_inner (inner_for keyid0 bm name), secret) ->                                    (* HPKE correctness *)
  parse_pk (q3_key r) = true -> sig_verify (q3_key r) (signed_message r) (q3_sig r) = true ->     (* honest signature *)
  sign_and_seal r (inner_for keyid0 bm name) secret = Some (rnonce ++ ct, brk) -> length rnonce = 16%nat ->
  aead_open (firstn 32 (q3_enc r) ++ rnonce) ct = Some bs ->                                      (* AEAD correctness *)
  rsa_finalize bs = Some sg -> length sg = 256%nat ->                                             (* RSA unblinding *)
  ty < 65536 -> length nonce = 32%nat -> length ctx = 32%nat -> length keyid = 32%nat ->
  pss_ok (tok_input ty nonce ctx keyid) sg = true ->                                              (* PSS consistency *)
  run3 hpke_open cfg_prefix issuer_key_id parse_pk sig_verify registered sign_and_seal aead_open rsa_finalize pss_ok
       r (tok_input ty nonce ctx keyid)
    = Ok {| t_type := ty; t_nonce := nonce; t_ctx := ctx; t_keyid := keyid; t_auth := sg |}.
Proof. exact honest_type3_l. Qed.
Print Assumptions honest_type3.

(** ... and the request need not be assumed well formed: the one the CLIENT model assembles (tokens/type3/client.go:
    associated data, inner request with the padded name, HPKE sealing, name key id = SHA-256 of the serialized name
    key, signature over type || request key || name key id || u16-prefixed ciphertext) is served by the issuer model
    configured with the same name key — given HPKE correctness and the signature scheme's correctness as laws of the
    primitives.  The two sites build the same associated data and the same signed message. *)
Theorem client_request_served : forall hpke_seal hpke_open sign parse_pk sig_verify registered sign_and_seal aead_open rsa_finalize pss_ok,
  (forall rnd ad pt, let '(enc, ct, secret) := hpke_seal rnd ad pt in
                     length enc = 32%nat /\ hpke_open enc ad ct = Some (pt, secret)) ->
  (forall rk msg, parse_pk rk = true -> sig_verify rk msg (sign msg) = true) ->
  (forall msg, length (sign msg) = 96%nat) ->
  forall nk rk keyid0 bm name rnd rnonce ct brk bs sg ty nonce ctx keyid,
  length rk = 49%nat -> parse_pk rk = true ->
  ends_nonzero name -> registered name = true -> fits16 (pad name) = true -> keyid0 < 256 -> length bm = 256%nat ->
  let '(r, secret) := client_request3 hpke_seal sign nk rk keyid0 bm name rnd in
  fits16 (q3_enc r) = true ->
  sign_and_seal r (inner_for keyid0 bm name) secret = Some (rnonce ++ ct, brk) -> length rnonce = 16%nat ->
  aead_open (firstn 32 (q3_enc r) ++ rnonce) ct = Some bs ->
  rsa_finalize bs = Some sg -> length sg = 256%nat ->
  ty < 65536 -> length nonce = 32%nat -> length ctx = 32%nat -> length keyid = 32%nat ->
  pss_ok (tok_input ty nonce ctx keyid) sg = true ->
  run3 hpke_open (issuer_cfg nk) (name_key_id nk) parse_pk sig_verify registered sign_and_seal aead_open rsa_finalize pss_ok
       r (tok_input ty nonce ctx keyid)
    = Ok {| t_type := ty; t_nonce := nonce; t_ctx := ctx; t_keyid := keyid; t_auth := sg |}.
Proof. exact client_request_served_l. Qed.
Print Assumptions client_request_served.
