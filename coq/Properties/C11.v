(** C11 — issuance with fixed blinds is reproducible and the token ignores the blind.
    Layer B: VOPRF in exponent form over an ARBITRARY field (types 1 and 5: blinded element beta * x, evaluation
    k * beta * x, unblinding by beta^-1); blind RSA over an ARBITRARY commutative ring (type 2: blinded message
    m * r^e, blind signature (.)^d, finalization by r^-1, with m the EMSA-PSS encoding for the given salt).
    Request creation and finalization are Gallina functions: purity is by construction; what needs proof is that
    the result does not depend on the blind. *)
From Coq Require Import Field Ring.
From PatVerif Require Import Model.Algebra Proofs.AlgebraP.

Section VOPRF.
  Variable F : Type.
  Variables (f0 f1 : F) (fadd fmul fsub : F -> F -> F) (fopp : F -> F) (fdiv : F -> F -> F) (finv : F -> F).
  Hypothesis Fth : field_theory f0 f1 fadd fmul fsub fopp fdiv finv (@eq F).
  Notation voprf_blind := (voprf_blind F fmul). Notation voprf_eval := (voprf_eval F fmul).
  Notation voprf_unblind := (voprf_unblind F fmul finv).

  (** unblinding removes exactly the blind that was applied: the result is k * x *)
  Theorem voprf_unblind_exact : forall x k beta, beta <> f0 ->
    voprf_unblind (voprf_eval k (voprf_blind x beta)) beta = fmul k x.
  Proof. exact (voprf_unblind_l F f0 f1 fadd fmul fsub fopp fdiv finv Fth). Qed.

  (** the same key and input give the same unblinded element (hence the same token) under EVERY pair of blinds *)
  Theorem token_blind_independent_voprf : forall x k b1 b2, b1 <> f0 -> b2 <> f0 ->
    voprf_unblind (voprf_eval k (voprf_blind x b1)) b1 = voprf_unblind (voprf_eval k (voprf_blind x b2)) b2.
  Proof. exact (voprf_blind_independent_l F f0 f1 fadd fmul fsub fopp fdiv finv Fth). Qed.
End VOPRF.

Section RSA.
  Variable R : Type.
  Variables (r0 r1 : R) (radd rmul rsub : R -> R -> R) (ropp : R -> R).
  Hypothesis Rth : ring_theory r0 r1 radd rmul rsub ropp (@eq R).

  (** for a unit r (r * rinv = 1) and exponents with (r^e)^d = r (RSA correctness of the key), the finalized
      signature is m^d: the blind cancels *)
  Theorem rsa_unblind_exact : forall m r rinv e d, rmul r rinv = r1 -> rpow R r1 rmul (rpow R r1 rmul r e) d = r ->
    rsa_finalize R rmul (rsa_blind_sign R r1 rmul (rsa_blind R r1 rmul m r e) d) rinv = rpow R r1 rmul m d.
  Proof. exact (rsa_unblind_l R r0 r1 radd rmul rsub ropp Rth). Qed.

  Theorem token_blind_independent_rsa : forall m e d ra rainv rb rbinv,
    rmul ra rainv = r1 -> rmul rb rbinv = r1 ->
    rpow R r1 rmul (rpow R r1 rmul ra e) d = ra -> rpow R r1 rmul (rpow R r1 rmul rb e) d = rb ->
    rsa_finalize R rmul (rsa_blind_sign R r1 rmul (rsa_blind R r1 rmul m ra e) d) rainv =
    rsa_finalize R rmul (rsa_blind_sign R r1 rmul (rsa_blind R r1 rmul m rb e) d) rbinv.
  Proof. exact (rsa_blind_independent_l R r0 r1 radd rmul rsub ropp Rth). Qed.
End RSA.
Print Assumptions voprf_unblind_exact.
Print Assumptions token_blind_independent_voprf.
Print Assumptions rsa_unblind_exact.
Print Assumptions token_blind_independent_rsa.

(** the VOPRF half at the arithmetic the harness EXECUTES (Model/Derive.v [mulm], [invm]) for every prime group order q:
    the unblinded evaluation is k * x whatever the non-zero blind, so two blinds give the same token *)
From Coq Require Import ZArith NArith Znumtheory.
From PatVerif Require Import Model.Derive Proofs.ZqP.
Theorem voprf_unblind_executed : forall q x k beta, prime (Z.of_N q) -> (beta mod q <> 0)%N ->
  mulm q (invm q beta) (mulm q k (mulm q beta x)) = mulm q k x.
Proof. exact exec_voprf_unblind. Qed.
Theorem token_blind_independent_executed : forall q x k b1 b2, prime (Z.of_N q) -> (b1 mod q <> 0)%N -> (b2 mod q <> 0)%N ->
  mulm q (invm q b1) (mulm q k (mulm q b1 x)) = mulm q (invm q b2) (mulm q k (mulm q b2 x)).
Proof. exact exec_voprf_blind_independent. Qed.
Print Assumptions voprf_unblind_executed.
Print Assumptions token_blind_independent_executed.
