(** C01 — honest issuance over the wire yields a valid, correctly bound token.
    Layer C (Model/Issuance.v): the full honest run create -> marshal -> unmarshal -> evaluate -> response bytes ->
    finalize for types 0x0001 and 0x0002, with the C04 codecs as the wire, over an ARBITRARY field (VOPRF in
    exponent form) / commutative ring (blind RSA) and ARBITRARY primitives satisfying the named correctness laws.
    Types 0x0003 and 0x0005 reuse these two cores (type 3 = type 2 inside the HPKE/padding/blinding envelope of C20,
    C12, C07; type 5 = type 1 per element inside the C04 list codec); their end-to-end runs are executed, and their
    components proved in C04/C07/C12/C20, but the composed theorem is stated here for types 1 and 2 only (partial). *)
From Coq Require Import Field Ring.
From PatVerif Require Import Model.Issuance Proofs.IssuanceP.
Open Scope N_scope.

Section Type1.
  Variable F : Type.
  Variables (f0 f1 : F) (fadd fmul fsub : F -> F -> F) (fopp : F -> F) (fdiv : F -> F -> F) (finv : F -> F).
  Variable feqb : F -> F -> bool.
  Hypothesis Fth : field_theory f0 f1 fadd fmul fsub fopp fdiv finv (@eq F).
  Hypothesis feqb_spec : forall a b, feqb a b = true <-> a = b.
  Variable h256 : list byte -> list byte.
  Variable h2g : list byte -> F.
  Variable enc_elt : F -> list byte.
  Variable dec_elt : list byte -> option F.
  Variable fin : list byte -> F -> list byte.
  Variable prove : F -> F -> F -> list byte -> list byte.
  Variable dleq_ok : F -> F -> F -> list byte -> bool.
  (** named correctness laws of the primitives *)
  Hypothesis h256_len : forall x, length (h256 x) = 32%nat.                       (* SHA-256 output length *)
  Hypothesis dec_enc_elt : forall e, dec_elt (enc_elt e) = Some e.                (* element encoding round trip *)
  Hypothesis enc_elt_len : forall e, length (enc_elt e) = 49%nat.                 (* Ne = 49 *)
  Hypothesis fin_len : forall i e, length (fin i e) = 48%nat.                     (* Nk = 48 *)
  Hypothesis dleq_complete : forall k b rnd, dleq_ok (fmul k f1) b (fmul k b) (prove k b (fmul k b) rnd) = true.
  Hypothesis proof_len : forall k b ev rnd, length (prove k b ev rnd) = 96%nat.   (* 2 Ns *)

  (** for every key k, challenge (any length), 32-byte nonce, key id, non-zero blind and issuer randomness: the run
      completes, the token is type || nonce || SHA-256(challenge) || key id || F(k, input) with a 48-byte authenticator,
      and it verifies under the issuer's key *)
  Theorem honest_type1 : forall k beta rnd nonce challenge keyid,
    length nonce = 32%nat -> length keyid = 32%nat -> beta <> f0 ->
    h2g (token_input h256 1 nonce challenge keyid) <> f0 ->
    let input := token_input h256 1 nonce challenge keyid in
    let tok := {| t_type := 1; t_nonce := nonce; t_ctx := h256 challenge; t_keyid := keyid;
                  t_auth := fin input (fmul k (h2g input)) |} in
    run1 F f0 f1 fmul finv feqb h256 h2g enc_elt dec_elt fin prove dleq_ok k beta rnd nonce challenge keyid = Some tok /\
    verify (full_evaluate F fmul h2g fin k) tok = true /\
    enc_token tok = u16 1 ++ nonce ++ h256 challenge ++ keyid ++ fin input (fmul k (h2g input)) /\
    length (t_auth tok) = 48%nat.
  Proof.
    exact (honest_type1_l F f0 f1 fadd fmul fsub fopp fdiv finv feqb Fth feqb_spec h256 h2g enc_elt dec_elt fin prove dleq_ok
             h256_len dec_enc_elt enc_elt_len fin_len dleq_complete proof_len).
  Qed.
End Type1.
Print Assumptions honest_type1.

Section Type2.
  Variable R : Type.
  Variables (r0 r1 : R) (radd rmul rsub : R -> R -> R) (ropp : R -> R).
  Hypothesis Rth : ring_theory r0 r1 radd rmul rsub ropp (@eq R).
  Variable h256 : list byte -> list byte.
  Variable emsa : list byte -> list byte -> R.
  Variable enc_r : R -> list byte.
  Variable dec_r : list byte -> option R.
  Variable pss_ok : list byte -> list byte -> bool.
  Hypothesis h256_len : forall x, length (h256 x) = 32%nat.
  Hypothesis dec_enc_r : forall x, dec_r (enc_r x) = Some x.          (* 256-byte integer encoding round trip *)
  Hypothesis enc_r_len : forall x, length (enc_r x) = 256%nat.        (* Nk = 256: 2048-bit modulus *)

  (** for every RSA key (e, d with (r^e)^d = r), challenge, nonce, salt and unit blind r, given that the PSS
      signature of the input verifies (RSASSA-PSS consistency): the run completes and the token is
      type || nonce || SHA-256(challenge) || key id || the 256-byte signature EMSA(input, salt)^d *)
  Theorem honest_type2 : forall e d r rinv salt nonce challenge keyid,
    length nonce = 32%nat -> length keyid = 32%nat ->
    rmul r rinv = r1 -> rpow R r1 rmul (rpow R r1 rmul r e) d = r ->
    let input := token_input h256 2 nonce challenge keyid in
    pss_ok input (enc_r (rpow R r1 rmul (emsa input salt) d)) = true ->
    let tok := {| t_type := 2; t_nonce := nonce; t_ctx := h256 challenge; t_keyid := keyid;
                  t_auth := enc_r (rpow R r1 rmul (emsa input salt) d) |} in
    run2 R r1 rmul h256 emsa enc_r dec_r pss_ok e d r rinv salt nonce challenge keyid = Some tok /\
    enc_token tok = u16 2 ++ nonce ++ h256 challenge ++ keyid ++ enc_r (rpow R r1 rmul (emsa input salt) d) /\
    length (t_auth tok) = 256%nat.
  Proof.
    exact (honest_type2_l R r0 r1 radd rmul rsub ropp Rth h256 emsa enc_r dec_r pss_ok h256_len dec_enc_r enc_r_len).
  Qed.
End Type2.
Print Assumptions honest_type2.
