(** source tie for C04 (and C10's token layout): token type numbers, element / authenticator lengths, token field lengths *)
From Coq Require Import List NArith.
From PatVerif Require Import Model.Codecs Gen.Src.
Import ListNotations. Open Scope N_scope.
Ltac t := vm_compute; first [reflexivity | exact I | repeat split; reflexivity].
Example tie_type1 : tie s_type1 (fun v => v = 1). Proof. t. Qed.
Example tie_type2 : tie s_type2 (fun v => v = 2). Proof. t. Qed.
Example tie_type3 : tie s_type3 (fun v => v = 3). Proof. t. Qed.
Example tie_type5 : tie s_type5 (fun v => v = 5). Proof. t. Qed.
Example tie_ne1 : tie s_ne1 (fun v => v = N.of_nat ne1). Proof. t. Qed.
Example tie_ne2 : tie s_nk2 (fun v => v = N.of_nat ne2). Proof. t. Qed.
Example tie_nk1 : tie s_nk1 (fun v => v = 48). Proof. t. Qed.
Example tie_token1 : tie s_token1_fields (fun v => v = [32; 32; 32]). Proof. t. Qed.
Example tie_token2 : tie s_token2_fields (fun v => v = [32; 32; 32; 256]). Proof. t. Qed.
Example tie_token3 : tie s_token3_fields (fun v => v = [32; 32; 32; 256]). Proof. t. Qed.
Example tie_token5 : tie s_token5_fields (fun v => v = [32; 32; 32; 64]). Proof. t. Qed.
Example tie_challenge_sep_m : tie s_challenge_sep_marshal (fun v => v = [44]). Proof. t. Qed.
Example tie_challenge_sep_u : tie s_challenge_sep_unmarshal (fun v => v = [44]). Proof. t. Qed.
