// constgen — reads the Go SOURCE of /repo (go/parser, no build) and prints, one per line, the literals the models
// depend on, each with where it stands:   <file>\t<func or "-">\t<kind>\t<context>\t<value>
// kinds: str (string literal; context = callee of the innermost enclosing call, or the name it is assigned to),
//        int (integer literal on the right of an assignment / const / case body; context = assigned name),
//        oid (composite literal of asn1.ObjectIdentifier; context = variable name; value = dotted),
//        case (string literal in a case clause; context = "case").
// Test files and the verif-tagged hook files are skipped.
package main

import (
	"fmt"
	"go/ast"
	"go/parser"
	"go/token"
	"os"
	"path/filepath"
	"sort"
	"strconv"
	"strings"
)

func callee(e ast.Expr) string {
	switch x := e.(type) {
	case *ast.Ident:
		return x.Name
	case *ast.SelectorExpr:
		return callee(x.X) + "." + x.Sel.Name
	case *ast.ArrayType:
		return "[]" + callee(x.Elt)
	case *ast.CallExpr:
		return callee(x.Fun) + "()"
	}
	return "?"
}

func main() {
	root := os.Args[1]
	var files []string
	filepath.Walk(root, func(p string, info os.FileInfo, err error) error {
		if err != nil || info.IsDir() {
			if info != nil && info.IsDir() && (info.Name() == ".git" || info.Name() == "testdata") {
				return filepath.SkipDir
			}
			return nil
		}
		if strings.HasSuffix(p, ".go") && !strings.HasSuffix(p, "_test.go") && !strings.Contains(filepath.Base(p), "verif_hooks") {
			files = append(files, p)
		}
		return nil
	})
	sort.Strings(files)
	fset := token.NewFileSet()
	for _, f := range files {
		af, err := parser.ParseFile(fset, f, nil, 0)
		if err != nil {
			fmt.Fprintln(os.Stderr, "parse error:", err)
			os.Exit(2)
		}
		rel, _ := filepath.Rel(root, f)
		emit := func(fn, kind, ctx, val string) {
			fmt.Printf("%s\t%s\t%s\t%s\t%s\n", rel, fn, kind, ctx, val)
		}
		var walk func(n ast.Node, fn string, ctx string)
		walk = func(n ast.Node, fn string, ctx string) {
			if n == nil {
				return
			}
			switch x := n.(type) {
			case *ast.FuncDecl:
				name := x.Name.Name
				if x.Recv != nil && len(x.Recv.List) > 0 {
					name = strings.TrimPrefix(callee(x.Recv.List[0].Type), "?") + "." + name
					if st, ok := x.Recv.List[0].Type.(*ast.StarExpr); ok {
						name = callee(st.X) + "." + x.Name.Name
					}
				}
				if x.Body != nil {
					walk(x.Body, name, "")
				}
				return
			case *ast.ValueSpec:
				for i, v := range x.Values {
					nm := "?"
					if i < len(x.Names) {
						nm = x.Names[i].Name
					}
					walk(v, fn, nm)
				}
				return
			case *ast.AssignStmt:
				for i, v := range x.Rhs {
					nm := "?"
					if i < len(x.Lhs) {
						nm = callee(x.Lhs[i])
					}
					walk(v, fn, nm)
				}
				return
			case *ast.CaseClause:
				for _, e := range x.List {
					if bl, ok := e.(*ast.BasicLit); ok && bl.Kind == token.STRING {
						s, _ := strconv.Unquote(bl.Value)
						emit(fn, "case", "case", s)
					} else {
						walk(e, fn, "case")
					}
				}
				for _, s := range x.Body {
					walk(s, fn, ctx)
				}
				return
			case *ast.CallExpr:
				c := callee(x.Fun)
				for _, a := range x.Args {
					walk(a, fn, c)
				}
				walk(x.Fun, fn, ctx)
				return
			case *ast.CompositeLit:
				if callee(x.Type) == "asn1.ObjectIdentifier" {
					var parts []string
					for _, e := range x.Elts {
						if bl, ok := e.(*ast.BasicLit); ok {
							parts = append(parts, bl.Value)
						}
					}
					emit(fn, "oid", ctx, strings.Join(parts, "."))
					return
				}
			case *ast.BasicLit:
				switch x.Kind {
				case token.STRING:
					s, err := strconv.Unquote(x.Value)
					if err == nil {
						emit(fn, "str", ctx, strconv.Quote(s))
					}
				case token.INT:
					emit(fn, "int", ctx, x.Value)
				}
				return
			case *ast.BinaryExpr:
				// constant expression text for const declarations such as (1 << 62) - 1
				if ctx != "" && fn == "-" {
					emit(fn, "expr", ctx, strings.ReplaceAll(exprText(x), " ", ""))
					return
				}
			case *ast.ImportSpec:
				return
			}
			ast.Inspect(n, func(m ast.Node) bool {
				if m == n || m == nil {
					return true
				}
				walk(m, fn, ctx)
				return false
			})
		}
		for _, d := range af.Decls {
			walk(d, "-", "")
		}
	}
}

func exprText(e ast.Expr) string {
	switch x := e.(type) {
	case *ast.BasicLit:
		return x.Value
	case *ast.Ident:
		return x.Name
	case *ast.ParenExpr:
		return "(" + exprText(x.X) + ")"
	case *ast.BinaryExpr:
		return exprText(x.X) + x.Op.String() + exprText(x.Y)
	case *ast.CallExpr:
		s := callee(x.Fun) + "("
		for i, a := range x.Args {
			if i > 0 {
				s += ","
			}
			s += exprText(a)
		}
		return s + ")"
	}
	return "?"
}
