(** Algebra.v — Layer B: key blinding, ECDSA, EdDSA, VOPRF and blind RSA over an ABSTRACT field / commutative ring.
    A cyclic group of prime order q is represented in exponent form: the element [k]G is the scalar k of GF(q),
    scalar multiplication is field multiplication, the generator is 1, the identity is 0.  Functions that are not
    algebraic (x-coordinate, point encoding, hashes, KDFs) are parameters: the theorems hold for EVERY choice. *)
From Coq Require Import List Bool.
Import ListNotations.

Section Alg.
  Variable F : Type.
  Variables (f0 f1 : F) (fadd fmul fsub : F -> F -> F) (fopp : F -> F) (fdiv : F -> F -> F) (finv : F -> F).
  Variable feqb : F -> F -> bool.

  (** ** key blinding (ecdsa.BlindPublicKeyWithContext / UnblindPublicKeyWithContext; ed25519 likewise) *)
  Definition blind_pk (P b : F) : F := fmul b P.            (* c.ScalarMult(pk, b) *)
  Definition unblind_pk (P b : F) : F := fmul (finv b) P.   (* c.ScalarMult(pk, b^-1 mod N) *)
  Definition blind_sk (d b : F) : F := fmul d b.            (* Db = D * b mod N *)

  (** ** ECDSA in exponent form; [xr k] = (x-coordinate of [k]G) mod N read as a scalar *)
  Variable xr : F -> F.
  Definition ecdsa_sign (d e k : F) : F * F :=
    let r := xr k in (r, fmul (finv k) (fadd e (fmul d r))).     (* signGeneric *)
  Definition ecdsa_verify (P e r s : F) : bool :=                  (* verifyGeneric, after the range checks *)
    if feqb r f0 || feqb s f0 then false else
    let w := finv s in
    let pt := fadd (fmul e w) (fmul (fmul r w) P) in              (* [u1]G + [u2]P *)
    if feqb pt f0 then false else feqb (xr pt) r.
  Definition blind_key_sign (d b e k : F) : F * F := ecdsa_sign (blind_sk d b) e k.

  (** ** the anonymous issuer origin ID (client -> issuer -> attester) *)
  Variable B : Type.                      (* byte strings *)
  Variable enc : F -> B.                  (* compressed point encoding *)
  Variable kdf : B -> B -> B.             (* HKDF-SHA-384(ikm, salt, "IssuerOriginAlias", 48) *)
  Definition request_key (d bc : F) : F := blind_pk d bc.                       (* client: key d, per-request blind bc *)
  Definition issuer_blinded_key (rk bo : F) : F := blind_pk rk bo.             (* issuer: origin index key bo *)
  Definition finalize_index (d bc brk : F) : B := kdf (enc (unblind_pk brk bc)) (enc d).   (* attester *)
  Definition origin_index (d bo : F) : B := kdf (enc (blind_pk d bo)) (enc d).   (* the closed form of the property *)

  (** ** EdDSA in exponent form: secret scalar a, public key a; signature (R, S) with R = [n]B *)
  Definition ed_sign (a n h : F) : F * F := (n, fadd n (fmul h a)).
  Definition ed_verify (A R S h : F) : bool := feqb S (fadd R (fmul h A)).      (* [S]B = R + [h]A *)

  (** ** VOPRF: input element x, key k, blind beta *)
  Definition voprf_blind (x beta : F) : F := fmul beta x.
  Definition voprf_eval (k bx : F) : F := fmul k bx.
  Definition voprf_unblind (ev beta : F) : F := fmul (finv beta) ev.
End Alg.

(** ** blind RSA over an abstract commutative ring Z/n with an exponentiation by naturals *)
Section Rsa.
  Variable R : Type.
  Variables (r0 r1 : R) (radd rmul rsub : R -> R -> R) (ropp : R -> R).
  Fixpoint rpow (x : R) (n : nat) : R := match n with O => r1 | S n' => rmul x (rpow x n') end.
  Definition rsa_blind (m r : R) (e : nat) : R := rmul m (rpow r e).
  Definition rsa_blind_sign (bm : R) (d : nat) : R := rpow bm d.
  Definition rsa_finalize (bs rinv : R) : R := rmul bs rinv.
End Rsa.
