(** TokenKey.v — util/x509util.go: MarshalTokenKeyPSSOID, MarshalTokenKeyRSAEncryptionOID (x509.MarshalPKIXPublicKey
    for an RSA key), UnmarshalTokenKey; token key ids.  The DER is rebuilt here from its definition (Base/Der.v),
    the hashes from Base/Hash.v — nothing is shared with the Go code. *)
From PatVerif Require Export Base.Der Base.Hash.
Open Scope N_scope.

Definition bytes_of (l : list N) : list byte := map n2b l.

(** OBJECT IDENTIFIER encodings (X.690 §8.19) *)
Definition oid_rsassa_pss : list byte := tlv x06 (bytes_of [42; 134; 72; 134; 247; 13; 1; 1; 10]).   (* 1.2.840.113549.1.1.10 *)
Definition oid_rsa_encryption : list byte := tlv x06 (bytes_of [42; 134; 72; 134; 247; 13; 1; 1; 1]). (* 1.2.840.113549.1.1.1 *)
Definition oid_mgf1 : list byte := tlv x06 (bytes_of [42; 134; 72; 134; 247; 13; 1; 1; 8]).           (* 1.2.840.113549.1.1.8 *)
Definition oid_sha384 : list byte := tlv x06 (bytes_of [96; 134; 72; 1; 101; 3; 4; 2; 2]).            (* 2.16.840.1.101.3.4.2.2 *)

(** RSASSA-PSS-params { [0] sha384, [1] mgf1(sha384), [2] 48 } inside the AlgorithmIdentifier *)
Definition alg_pss : list byte :=
  der_seq (oid_rsassa_pss ++
           der_seq (tlv xa0 (der_seq oid_sha384) ++
                    tlv xa1 (der_seq (oid_mgf1 ++ der_seq oid_sha384)) ++
                    tlv xa2 (der_int 48))).
Definition alg_rsa : list byte := der_seq (oid_rsa_encryption ++ [x05; x00]).

Definition rsa_public_key (n e : N) : list byte := der_seq (der_int n ++ der_int e).
Definition marshal_pss (n e : N) : list byte := der_seq (alg_pss ++ der_bitstring (rsa_public_key n e)).
Definition marshal_legacy (n e : N) : list byte := der_seq (alg_rsa ++ der_bitstring (rsa_public_key n e)).

(** UnmarshalTokenKey: the tolerant reader (parameters are skipped, trailing data ignored at every level) *)
Definition unmarshal_token_key (data : list byte) : option (Z * Z) :=
  match read_asn1 x30 data with None => None | Some (outer, _) =>
  match read_asn1 x30 outer with None => None | Some (_params, r1) =>
  match read_bitstring_aligned r1 with None => None | Some (der, _) =>
  match read_asn1 x30 der with None => None | Some (inner, _) =>
  match read_bigint inner with None => None | Some (n, r2) =>
  match read_int64 r2 with None => None | Some (e, _) => Some (n, e)
  end end end end end end.

(** key identifiers *)
Definition token_key_id (serialized_public_key : list byte) : list byte := sha256 serialized_public_key.
Definition truncated_key_id (id : list byte) : byte := last id x00.
Definition rsa_token_key_id (n e : N) : list byte := token_key_id (marshal_pss n e).
