package main

import (
	"bytes"
	"crypto"
	"crypto/rsa"
	"crypto/sha512"
	"fmt"
	"github.com/cloudflare/pat-go/tokens/type5"
	"math/big"

	"github.com/cloudflare/circl/oprf"
	"github.com/cloudflare/pat-go/tokens"
	"github.com/cloudflare/pat-go/tokens/batched"
	"github.com/cloudflare/pat-go/tokens/type1"
	"github.com/cloudflare/pat-go/tokens/type2"
	"verif/harness/internal/h"
)

func init() { props["C05"] = runC05 }

type c05Issuer struct {
	typ  uint16
	i1   *type1.BasicPrivateIssuer
	sk1  *oprf.PrivateKey
	i2   *type2.BasicPublicIssuer
	sk2  *rsa.PrivateKey
	kid  []byte
	name string
	// refuse: a configured issuer (e.g. a retired key kept in the list) whose Evaluate always reports an error;
	// refuseBody: ... and hands back bytes together with the error (a diagnostic body)
	refuse     bool
	refuseBody []byte
}

// refuser has the identity (type, key id) of the issuer it wraps and refuses every request.
type refuser struct {
	batched.Issuer
	body []byte
}

func (r refuser) Evaluate(req tokens.TokenRequest) ([]byte, error) {
	return r.body, fmt.Errorf("issuer retired")
}

func (i *c05Issuer) asIssuer() batched.Issuer {
	var is batched.Issuer = wrap2{i.i2}
	if i.typ == 1 {
		is = wrap1{i.i1}
	}
	if i.refuse {
		return refuser{is, i.refuseBody}
	}
	return is
}

func (i *c05Issuer) refusingWith(body []byte) *c05Issuer {
	cp := *i
	cp.refuse = true
	cp.refuseBody = body
	cp.name += "-refusing-with-body"
	return &cp
}

func (i *c05Issuer) refusing() *c05Issuer {
	cp := *i
	cp.refuse = true
	cp.name += "-refusing"
	return &cp
}

func (i *c05Issuer) eval(req tokens.TokenRequestWithDetails) (resp []byte, err error) {
	if i.refuse {
		return nil, fmt.Errorf("issuer retired")
	}
	pan, msg := h.Protect(func() {
		if i.typ == 1 {
			r, ok := req.(*type1.BasicPrivateTokenRequest)
			if !ok {
				err = fmt.Errorf("wrong type")
				return
			}
			resp, err = i.i1.Evaluate(r)
		} else {
			r, ok := req.(*type2.BasicPublicTokenRequest)
			if !ok {
				err = fmt.Errorf("wrong type")
				return
			}
			resp, err = i.i2.Evaluate(r)
		}
	})
	if pan {
		return nil, fmt.Errorf("panic: %s", msg)
	}
	return
}

func newC05Type1(c *h.Ctx, name string) *c05Issuer {
	sk, _ := oprf.DeriveKey(oprf.SuiteP384, oprf.VerifiableMode, rnd(c, 32), nil)
	is := type1.NewBasicPrivateIssuer(sk)
	return &c05Issuer{typ: 1, i1: is, sk1: sk, kid: is.TokenKeyID(), name: name}
}

// newC05Type1WithLastByte searches derived keys for a key id ending in the given byte.
func newC05Type1WithLastByte(c *h.Ctx, name string, last byte) *c05Issuer {
	for {
		is := newC05Type1(c, name)
		if is.kid[31] == last {
			return is
		}
	}
}

func newC05Type2(c *h.Ctx, idx int, name string) *c05Issuer {
	k := rsaKey(idx)
	is := type2.NewBasicPublicIssuer(k)
	return &c05Issuer{typ: 2, i2: is, sk2: k, kid: is.TokenKeyID(), name: name}
}

// one request of a batch: the in-memory request object, how to finalize and verify it, and its kind
type c05Req struct {
	kind  string
	req   tokens.TokenRequestWithDetails
	fin   func([]byte) (tokens.Token, error)
	check func(tokens.Token) bool
	wire  bool // can cross the wire unchanged (the element has its type's fixed length)
}

func c05Make(c *h.Ctx, kind string, t1, t2 *c05Issuer) c05Req {
	chal, nonce := rnd(c, 16), rnd(c, 32)
	switch kind {
	case "t1:known", "t1:unknown-key-id", "t1:off-curve", "t1:identity", "t1:short", "t1:long", "t1:zero-prefix-49":
		st, err := type1.NewBasicPrivateClient().CreateTokenRequest(chal, nonce, t1.kid, t1.i1.TokenKey())
		if err != nil {
			panic(err)
		}
		r := st.Request()
		rq := &type1.BasicPrivateTokenRequest{TokenKeyID: r.TokenKeyID, BlindedReq: append([]byte{}, r.BlindedReq...)}
		out := c05Req{kind: kind, wire: true}
		switch kind {
		case "t1:unknown-key-id":
			rq.TokenKeyID ^= 0x55
		case "t1:off-curve":
			rq.BlindedReq = cat([]byte{2}, bytesFF(48))
		case "t1:identity":
			rq.BlindedReq, out.wire = []byte{0}, false
		case "t1:zero-prefix-49":
			rq.BlindedReq = make([]byte, 49)
		case "t1:short":
			rq.BlindedReq, out.wire = rq.BlindedReq[:48], false
		case "t1:long":
			rq.BlindedReq, out.wire = cat(rq.BlindedReq, []byte{0}), false
		}
		out.req = rq
		if kind == "t1:known" {
			out.req = r
			out.fin = st.FinalizeToken
			input := cat(u16b(1), nonce, sha256Bytes(chal), t1.kid)
			out.check = func(t tokens.Token) bool {
				a, err := oprf.NewVerifiableServer(oprf.SuiteP384, t1.sk1).FullEvaluate(input)
				return err == nil && bytes.Equal(t.Marshal(), cat(input, a))
			}
		}
		return out
	default:
		st, err := type2.NewBasicPublicClient().CreateTokenRequest(chal, nonce, t2.kid, &t2.sk2.PublicKey)
		if err != nil {
			panic(err)
		}
		r := st.Request()
		rq := &type2.BasicPublicTokenRequest{TokenKeyID: r.TokenKeyID, BlindedReq: append([]byte{}, r.BlindedReq...)}
		out := c05Req{kind: kind, wire: true}
		switch kind {
		case "t2:unknown-key-id":
			rq.TokenKeyID ^= 0x33
		case "t2:above-modulus":
			rq.BlindedReq = bytesFF(256)
		case "t2:short":
			rq.BlindedReq, out.wire = rq.BlindedReq[:255], false
		case "t2:empty":
			rq.BlindedReq, out.wire = nil, false
		}
		out.req = rq
		if kind == "t2:known" {
			out.req = r
			out.fin = st.FinalizeToken
			input := cat(u16b(2), nonce, sha256Bytes(chal), t2.kid)
			out.check = func(t tokens.Token) bool {
				d := sha512.Sum384(input)
				m := t.Marshal()
				return len(m) == len(input)+256 && bytes.Equal(m[:len(input)], input) &&
					rsa.VerifyPSS(&t2.sk2.PublicKey, crypto.SHA384, d[:], m[len(input):], &rsa.PSSOptions{SaltLength: 48, Hash: crypto.SHA384}) == nil
			}
		}
		return out
	}
}

// c05Run evaluates one batch under one issuer configuration and checks every clause of the property.
func c05Run(c *h.Ctx, cfgName string, cfg []*c05Issuer, kinds []string, t1, t2 *c05Issuer, viaWire bool) {
	var reqs []c05Req
	var objs []tokens.TokenRequestWithDetails
	for _, k := range kinds {
		r := c05Make(c, k, t1, t2)
		reqs = append(reqs, r)
		objs = append(objs, r.req)
		if !r.wire {
			viaWire = false
		}
	}
	det := map[string]any{"config": cfgName, "batch": kinds, "via_wire": viaWire}
	br, err := batched.NewBasicClient().CreateTokenRequest(objs)
	if err != nil {
		det["err"] = err.Error()
		c.Violation("the batch client refuses a batch of type-1/type-2 requests", det)
		return
	}
	if viaWire {
		w := br.Marshal()
		br = new(batched.BatchedTokenRequest)
		if !br.Unmarshal(w) {
			c.Violation("a batch request does not survive the wire", det)
			return
		}
		objs = br.VerifRequests()
	}
	var is []batched.Issuer
	for _, i := range cfg {
		is = append(is, i.asIssuer())
	}
	// expected slots, from each configured issuer's own Evaluate called directly (the property's definition)
	type slot struct {
		present bool
		n       int
		by      *c05Issuer // the first matching issuer that succeeded
	}
	var want []slot
	args := [][]byte{{byte(len(cfg))}}
	for _, i := range cfg {
		args = append(args, u16b(i.typ), []byte{i.kid[31]})
	}
	for ri, o := range objs {
		s := slot{}
		args = append(args, u16b(o.Type()), []byte{o.TruncatedTokenKeyID()})
		for _, i := range cfg {
			if i.typ != o.Type() {
				args = append(args, []byte{0})
				continue
			}
			resp, err := i.eval(o)
			if err != nil {
				args = append(args, []byte{0})
				continue
			}
			args = append(args, cat([]byte{1}, resp))
			if !s.present && i.kid[31] == o.TruncatedTokenKeyID() && len(resp) > 0 {
				s = slot{true, len(resp), i}
			}
		}
		want = append(want, s)
		_ = ri
	}
	var out []byte
	pan, msg := h.Protect(func() {
		bi := batched.NewBasicBatchedIssuer(is...)
		// the caller's list is the caller's: it is reused for something else once the batch issuer is built
		for k := range is {
			is[k] = refuser{is[k], []byte("this slot of the caller's slice was reused after construction")}
		}
		out, err = bi.EvaluateBatch(br)
	})
	c.Count("batch:"+cfgName, 1, fmt.Sprint(cfgName, kinds, viaWire))
	if pan || err != nil {
		det["panic"] = msg
		c.Violation("EvaluateBatch fails as a whole", det)
		return
	}
	resps, derr := batched.UnmarshalBatchedTokenResponses(out)
	outs := [][]byte{h.StOK}
	if derr != nil || len(resps) != len(objs) {
		outs[0] = h.StNone
	}
	for i := range objs {
		if derr == nil && i < len(resps) {
			f := byte(0)
			if len(resps[i]) > 0 {
				f = 1
			}
			outs = append(outs, []byte{f, byte(len(resps[i]) >> 8), byte(len(resps[i]))})
		} else if want[i].present {
			outs = append(outs, []byte{1, byte(want[i].n >> 8), byte(want[i].n)}) // undecodable: what the model predicts is compared via the status
		} else {
			outs = append(outs, []byte{0, 0, 0})
		}
	}
	outs = append(outs, h.U64(uint64(len(out))))
	c.Case("batch:model-shape", true, "batch_shape", args, outs)
	if derr != nil {
		det["err"] = derr.Error()
		c.Violation("the decoded response list has exactly one entry per request (the response does not decode: good tokens are lost)", det)
		return
	}
	if len(resps) != len(objs) {
		det["entries"], det["requests"] = len(resps), len(objs)
		c.Violation("the decoded response list has exactly one entry per request", det)
		return
	}
	for i, r := range resps {
		d2 := map[string]any{"config": cfgName, "batch": kinds, "index": i, "kind": kinds[i], "via_wire": viaWire}
		if (len(r) > 0) != want[i].present {
			d2["present"] = len(r) > 0
			c.Violation("an entry is present exactly when a configured issuer of that token type and truncated key id evaluates the request successfully", d2)
			continue
		}
		// a truncated key id can be shared by two issuers of one type: the slot then holds the FIRST one's response,
		// which only finalizes under the request's state when that issuer is the one the request was made for
		if len(r) > 0 && reqs[i].fin != nil && (want[i].by == t1 || want[i].by == t2) {
			tok, err := reqs[i].fin(r)
			if err != nil || !reqs[i].check(tok) {
				c.Violation("a present entry finalizes to a valid token under its own request's state (order kept, not invalidated by the other requests)", d2)
			}
		}
		if len(r) > 0 && reqs[i].fin == nil && (kinds[i] == "t1:known" || kinds[i] == "t2:known") {
			c.Violation("internal: known request without finalizer", d2)
		}
	}
}

// impostor claims a carried type without being that type's request
type c05Impostor struct{ t uint16 }

func (r c05Impostor) Marshal() []byte            { return []byte{0, byte(r.t), 1, 2, 3} }
func (r c05Impostor) Unmarshal([]byte) bool      { return true }
func (r c05Impostor) TruncatedTokenKeyID() uint8 { return 1 }
func (r c05Impostor) Type() uint16               { return r.t }

func runC05(c *h.Ctx) {
	t1 := newC05Type1(c, "t1")
	t2 := newC05Type2(c, 0, "t2")
	// the batch CLIENT refuses to build a batch that is empty or contains a request of a type the batch does not carry
	{
		sk5, _ := oprf.DeriveKey(oprf.SuiteRistretto255, oprf.VerifiableMode, rnd(c, 32), nil)
		i5 := type5.NewBatchedPrivateIssuer(sk5)
		s5, _ := type5.NewBatchedPrivateClient().CreateTokenRequest(rnd(c, 8), [][]byte{rnd(c, 32)}, i5.TokenKeyID(), i5.TokenKey())
		s1, _ := type1.NewBasicPrivateClient().CreateTokenRequest(rnd(c, 8), rnd(c, 32), t1.kid, t1.i1.TokenKey())
		var r5 any = s5.Request()
		lists := map[string][]tokens.TokenRequestWithDetails{"empty": nil, "empty-non-nil": {}, "impostor-type1": {s1.Request(), c05Impostor{1}}, "impostor-type2": {c05Impostor{2}}, "unknown-type": {s1.Request(), c05Impostor{0x7777}}}
		if t5, ok := r5.(tokens.TokenRequestWithDetails); ok {
			lists["type5-request"] = []tokens.TokenRequestWithDetails{s1.Request(), t5}
		}
		for name, l := range lists {
			var br *batched.BatchedTokenRequest
			var err error
			pan, msg := h.Protect(func() { br, err = batched.NewBasicClient().CreateTokenRequest(l) })
			c.Count("client:refused-lists", 1, name)
			if pan || err == nil || br != nil {
				c.Violation("the batch client refuses an empty list and requests of types the generic batch does not carry", map[string]any{"list": name, "panic": msg})
			}
		}
	}
	t1other := newC05Type1(c, "t1-other-key")
	t2other := newC05Type2(c, 1, "t2-other-key")
	// a type-1 issuer sharing t1's truncated key id (another key): "first matching issuer that succeeds"
	t1share := newC05Type1WithLastByte(c, "t1-same-last-byte", t1.kid[31])
	// a type-1 issuer whose key id ends like the type-2 issuer's: collision ACROSS types
	t1cross := newC05Type1WithLastByte(c, "t1-last-byte-of-t2", t2.kid[31])
	configs := map[string][]*c05Issuer{
		"both":                       {t1, t2},
		"both-reversed":              {t2, t1},
		"type1-only":                 {t1},
		"type2-only":                 {t2},
		"two-type1-shared-last-byte": {t1share, t1, t2},
		"shared-last-byte-reversed":  {t1, t1share, t2},
		"cross-type-last-byte":       {t2, t1cross, t1},
		"cross-type-last-byte-rev":   {t1cross, t2, t1},
		"other-keys-only":            {t1other, t2other},
		"duplicate-issuer":           {t2, t2, t1, t1},
		// a configured issuer that REFUSES (same type and key id) before / after the one that serves
		"refusing-then-serving": {t1.refusing(), t1, t2.refusing(), t2},
		"serving-then-refusing": {t1, t1.refusing(), t2, t2.refusing()},
		"refusing-only":         {t1.refusing(), t2.refusing()},
		// refusals that come with bytes: a short diagnostic, and one of exactly a response's length
		"refusing-with-body-only":    {t1.refusingWith(rnd(c, 7)), t2.refusingWith(rnd(c, 256))},
		"refusing-with-body-then-ok": {t1.refusingWith(rnd(c, 145)), t1, t2.refusingWith(rnd(c, 7)), t2},
		"ok-then-refusing-with-body": {t1, t1.refusingWith(rnd(c, 145)), t2, t2.refusingWith(rnd(c, 256))},
	}
	// many issuers of one type, two of them sharing the truncated key id: the FIRST registered answers, wherever the
	// pair stands in the list
	var manyNames []string
	pairs := [][2]int{{0, 13}, {3, 9}, {6, 7}, {1, 12}, {0, 1}, {12, 13}, {5, 11}}
	for len(pairs) < 30 {
		a := c.Rng.Intn(15)
		b := a + 1 + c.Rng.Intn(16-a-1)
		pairs = append(pairs, [2]int{a, b})
	}
	for pi, pos := range pairs {
		var l []*c05Issuer
		size := 14
		if pi >= 7 {
			size = 16 + pi%9 // other list lengths as well
			if pos[1] >= size {
				pos[1] = size - 1
			}
		}
		for len(l) < size {
			switch len(l) {
			case pos[0]:
				l = append(l, t1)
			case pos[1]:
				l = append(l, t1share)
			default:
				f := newC05Type1(c, "filler")
				if f.kid[31] != t1.kid[31] {
					l = append(l, f)
				}
			}
		}
		n := fmt.Sprintf("many-type1-%d-pair-at-%d-%d", size, pos[0], pos[1])
		configs[n] = append(l, t2)
		manyNames = append(manyNames, n)
	}
	for ni, n := range manyNames {
		c05Run(c, n, configs[n], []string{"t1:known"}, t1, t2, true)
		if ni < 3 || c.Thorough() {
			c05Run(c, n, configs[n], []string{"t1:known", "t2:known", "t1:known"}, t1, t2, true)
			c05Run(c, n, configs[n], []string{"t1:unknown-key-id", "t1:known"}, t1, t2, false)
		}
	}
	names := []string{"both", "both-reversed", "type1-only", "type2-only", "two-type1-shared-last-byte", "shared-last-byte-reversed", "cross-type-last-byte", "cross-type-last-byte-rev", "other-keys-only", "duplicate-issuer", "refusing-then-serving", "serving-then-refusing", "refusing-only", "refusing-with-body-only", "refusing-with-body-then-ok", "ok-then-refusing-with-body"}
	kinds := []string{"t1:known", "t2:known", "t1:unknown-key-id", "t2:unknown-key-id", "t1:off-curve", "t1:identity", "t1:zero-prefix-49", "t1:short", "t1:long", "t2:above-modulus", "t2:short", "t2:empty"}
	// requests for the cross-type issuer's key (it must be served although a type-2 issuer has the same last byte)
	maxLen := 2
	if c.Thorough() {
		maxLen = 3
	}
	var seqs [][]string
	var gen func(prefix []string, n int)
	gen = func(prefix []string, n int) {
		if len(prefix) > 0 {
			seqs = append(seqs, append([]string{}, prefix...))
		}
		if n == 0 {
			return
		}
		for _, k := range kinds {
			gen(append(prefix, k), n-1)
		}
	}
	gen(nil, maxLen)
	for si, s := range seqs {
		for ni, n := range names {
			// all sequences under the two main configurations, a rotating third of them under the others
			if ni >= 2 && (si+ni)%3 != 0 && !c.Thorough() {
				continue
			}
			c05Run(c, n, configs[n], s, t1, t2, (si+ni)%2 == 0)
		}
	}
	// length-3/4 batches mixing every failure kind around good requests, in each position
	long := [][]string{
		{"t1:known", "t1:identity", "t2:known"}, {"t1:identity", "t1:known", "t2:known"}, {"t2:known", "t1:known", "t1:identity"},
		{"t1:known", "t2:unknown-key-id", "t2:known", "t1:unknown-key-id"}, {"t2:known", "t1:unknown-key-id", "t1:known", "t2:unknown-key-id"},
		{"t1:known", "t1:off-curve", "t2:above-modulus", "t2:known"}, {"t2:known", "t2:short", "t1:short", "t1:known"},
		{"t1:known", "t1:known", "t1:known", "t1:known"}, {"t2:known", "t2:known", "t2:known"}, {"t1:long", "t2:empty", "t1:known", "t2:known"},
		{"t1:unknown-key-id", "t1:known", "t2:known", "t2:unknown-key-id", "t1:known", "t2:known"},
	}
	for li, s := range long {
		for _, n := range names {
			c05Run(c, n, configs[n], s, t1, t2, li%2 == 0)
		}
	}
	// requests addressed to the cross-type and to the shared-last-byte issuers themselves
	for _, n := range []string{"cross-type-last-byte", "cross-type-last-byte-rev"} {
		c05Run(c, n, configs[n], []string{"t1:known", "t2:known"}, t1cross, t2, false)
		c05Run(c, n, configs[n], []string{"t2:known", "t1:known", "t1:unknown-key-id"}, t1cross, t2, true)
	}
	for _, n := range []string{"two-type1-shared-last-byte", "shared-last-byte-reversed"} {
		c05Run(c, n, configs[n], []string{"t1:known", "t2:known", "t1:known"}, t1share, t2, true)
	}
	// batches decoded one after the other into ONE decoder object, each set aside by value (queued) before the next is
	// decoded, and evaluated only afterwards: every queued batch still gets ITS responses, in its order
	{
		dec := new(batched.BatchedTokenRequest)
		type queued struct {
			br   batched.BatchedTokenRequest
			reqs []c05Req
		}
		var q []queued
		for _, kindsQ := range [][]string{{"t1:known", "t2:known", "t1:known"}, {"t2:known", "t1:known"}, {"t1:known"}, {"t2:known", "t2:known", "t1:known"}} {
			var reqs []c05Req
			var objs []tokens.TokenRequestWithDetails
			for _, k := range kindsQ {
				r := c05Make(c, k, t1, t2)
				reqs = append(reqs, r)
				objs = append(objs, r.req)
			}
			br, err := batched.NewBasicClient().CreateTokenRequest(objs)
			if err != nil || !dec.Unmarshal(br.Marshal()) {
				continue
			}
			q = append(q, queued{*dec, reqs})
		}
		bi := batched.NewBasicBatchedIssuer(t1.asIssuer(), t2.asIssuer())
		for qi := range q {
			out, err := bi.EvaluateBatch(&q[qi].br)
			c.Count("batch:queued-copies-of-one-decoder", 1, fmt.Sprint(qi))
			resps, derr := batched.UnmarshalBatchedTokenResponses(out)
			ok := err == nil && derr == nil && len(resps) == len(q[qi].reqs)
			for i := 0; ok && i < len(resps); i++ {
				tok, e := q[qi].reqs[i].fin(resps[i])
				ok = e == nil && q[qi].reqs[i].check(tok)
			}
			if !ok {
				c.Violation("a batch set aside after decoding keeps its requests: one entry per request, in order, each finalizing under its own request's state (another batch was decoded into the same decoder object meanwhile)", map[string]any{"queued_batch": qi})
			}
		}
	}
	_ = big.NewInt
}
