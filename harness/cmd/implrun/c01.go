package main

import (
	"bytes"
	"crypto"
	"crypto/rsa"
	"crypto/sha512"

	"github.com/cloudflare/circl/oprf"
	"github.com/cloudflare/pat-go/tokens"
	"github.com/cloudflare/pat-go/tokens/type1"
	"github.com/cloudflare/pat-go/tokens/type2"
	"github.com/cloudflare/pat-go/tokens/type3"
	"github.com/cloudflare/pat-go/tokens/type5"
	"verif/harness/internal/h"
)

func init() { props["C01"] = runC01 }

func pssOK(pub *rsa.PublicKey, input, sig []byte) bool {
	d := sha512.Sum384(input)
	return rsa.VerifyPSS(pub, crypto.SHA384, d[:], sig, &rsa.PSSOptions{SaltLength: 48, Hash: crypto.SHA384}) == nil
}

// c01Token checks the token's exact layout against the Coq-built bytes (SHA-256 in Coq) around the given authenticator.
func c01Token(c *h.Ctx, cat_ string, ttype uint16, nonce, chal, kid []byte, nk int, tok tokens.Token, det map[string]any) {
	m := tok.Marshal()
	auth := tok.Authenticator
	c.Case(cat_, true, "token_bytes", [][]byte{u16b(ttype), nonce, chal, kid, auth}, [][]byte{m})
	if tok.TokenType != ttype || !bytes.Equal(tok.Nonce, nonce) || !bytes.Equal(tok.Context, sha256Bytes(chal)) || !bytes.Equal(tok.KeyID, kid) || len(auth) != nk ||
		!bytes.Equal(m, cat(u16b(ttype), nonce, sha256Bytes(chal), kid, auth)) {
		c.Violation("the token is exactly type || nonce || SHA-256(challenge) || token-key-id || authenticator with the authenticator length of its type", det)
	}
}

// scribble overwrites buffers the caller handed to CreateTokenRequest: a client that refills one nonce / challenge
// buffer for its next request (or wipes its scratch space) before finalizing must still get the token of THIS request
func scribble(bufs ...[]byte) {
	for _, b := range bufs {
		for i := range b {
			b[i] ^= 0xa5
		}
	}
}

func clone(b []byte) []byte { return append([]byte{}, b...) }

// voprfKeyWithLastByte searches derived keys for a token key id ending in the given byte.
func voprfKeyWithLastByte(c *h.Ctx, suite oprf.Suite, last byte) *oprf.PrivateKey {
	for {
		sk, _ := oprf.DeriveKey(suite, oprf.VerifiableMode, rnd(c, 32), nil)
		pk, _ := sk.Public().MarshalBinary()
		if id := sha256Bytes(pk); id[31] == last {
			return sk
		}
	}
}

func c01Type1(c *h.Ctx, chalLens []int, nKeys int) {
	for ki := 0; ki < nKeys+2; ki++ {
		sk, _ := oprf.DeriveKey(oprf.SuiteP384, oprf.VerifiableMode, rnd(c, 32), nil)
		if ki >= nKeys { // key ids whose truncated byte is 00 / ff
			sk = voprfKeyWithLastByte(c, oprf.SuiteP384, []byte{0x00, 0xff}[ki-nKeys])
		}
		iss := type1.NewBasicPrivateIssuer(sk)
		kid := iss.TokenKeyID()
		for ci, cl := range chalLens {
			chal, nonce := rnd(c, cl), rnd(c, 32)
			det := map[string]any{"type": 1, "challenge_len": cl, "nonce": h.Hex(nonce)}
			chalA, nonceA, kidA := clone(chal), clone(nonce), clone(kid)
			st, err := type1.NewBasicPrivateClient().CreateTokenRequest(chalA, nonceA, kidA, iss.TokenKey())
			if (ci+ki)%2 == 1 {
				det["caller_buffers_overwritten_after_request"] = true
				scribble(chalA, nonceA, kidA)
			}
			if err != nil {
				c.Violation("honest request creation fails", det)
				continue
			}
			wire := st.Request().Marshal()
			dec := new(type1.BasicPrivateTokenRequest)
			if !dec.Unmarshal(wire) {
				c.Violation("the issuer cannot unmarshal an honest request", det)
				continue
			}
			resp, err := iss.Evaluate(dec)
			if err != nil {
				det["err"] = err.Error()
				c.Violation("the issuer fails on an honest request that crossed the wire", det)
				continue
			}
			tok, err := st.FinalizeToken(append([]byte{}, resp...))
			if err != nil {
				det["err"] = err.Error()
				c.Violation("the client fails to finalize an honest response", det)
				continue
			}
			c01Token(c, "type1:wire-run", 1, nonce, chal, kid, 48, tok, det)
			want, _ := oprf.NewVerifiableServer(oprf.SuiteP384, sk).FullEvaluate(cat(u16b(1), nonce, sha256Bytes(chal), kid))
			if iss.Verify(tok) != nil || !bytes.Equal(tok.Authenticator, want) {
				c.Violation("the token verifies under the issuer's key (authenticator = F(k, input))", det)
			}
		}
	}
}

func c01Type2(c *h.Ctx, chalLens []int, nKeys int) {
	special := specialRSAKeyList()
	for ki := 0; ki < nKeys+len(special); ki++ {
		key := rsaKey(ki)
		if ki >= nKeys {
			key = special[ki-nKeys] // token key ids with a boundary byte (00 / 01 / ff) where they are truncated
		}
		iss := type2.NewBasicPublicIssuer(key)
		kid := iss.TokenKeyID()
		for ci, cl := range chalLens {
			chal, nonce := rnd(c, cl), rnd(c, 32)
			det := map[string]any{"type": 2, "challenge_len": cl, "nonce": h.Hex(nonce)}
			chalA, nonceA, kidA := clone(chal), clone(nonce), clone(kid)
			st, err := type2.NewBasicPublicClient().CreateTokenRequest(chalA, nonceA, kidA, &key.PublicKey)
			if (ci+ki)%2 == 1 {
				det["caller_buffers_overwritten_after_request"] = true
				scribble(chalA, nonceA, kidA)
			}
			if err != nil {
				c.Violation("honest request creation fails", det)
				continue
			}
			dec := new(type2.BasicPublicTokenRequest)
			if !dec.Unmarshal(st.Request().Marshal()) {
				c.Violation("the issuer cannot unmarshal an honest request", det)
				continue
			}
			resp, err := iss.Evaluate(dec)
			if err != nil {
				c.Violation("the issuer fails on an honest request that crossed the wire", det)
				continue
			}
			tok, err := st.FinalizeToken(append([]byte{}, resp...))
			if err != nil {
				c.Violation("the client fails to finalize an honest response", det)
				continue
			}
			c01Token(c, "type2:wire-run", 2, nonce, chal, kid, 256, tok, det)
			if !pssOK(&key.PublicKey, cat(u16b(2), nonce, sha256Bytes(chal), kid), tok.Authenticator) {
				c.Violation("the token verifies under the issuer's key (RSASSA-PSS, SHA-384, salt 48)", det)
			}
		}
	}
}

func c01Type5(c *h.Ctx, chalLens []int, batches []int) {
	for _, last := range []int{-1, 0x00, 0xff} {
		sk, _ := oprf.DeriveKey(oprf.SuiteRistretto255, oprf.VerifiableMode, rnd(c, 32), nil)
		bs := batches
		if last >= 0 {
			sk = voprfKeyWithLastByte(c, oprf.SuiteRistretto255, byte(last))
			bs = []int{1, 3}
		}
		c01Type5Key(c, chalLens, bs, sk)
	}
}

func c01Type5Key(c *h.Ctx, chalLens []int, batches []int, sk *oprf.PrivateKey) {
	iss := type5.NewBatchedPrivateIssuer(sk)
	kid := iss.TokenKeyID()
	for bi, n := range batches {
		chal := rnd(c, chalLens[bi%len(chalLens)])
		var nonces [][]byte
		for j := 0; j < n; j++ {
			nonces = append(nonces, rnd(c, 32))
		}
		det := map[string]any{"type": 5, "batch": n, "challenge_len": len(chal)}
		chalA, kidA := clone(chal), clone(kid)
		noncesA := make([][]byte, len(nonces))
		for j := range nonces {
			noncesA[j] = clone(nonces[j])
		}
		st, err := type5.NewBatchedPrivateClient().CreateTokenRequest(chalA, noncesA, kidA, iss.TokenKey())
		if bi%2 == 1 {
			det["caller_buffers_overwritten_after_request"] = true
			scribble(chalA, kidA)
			scribble(noncesA...)
			for j := range noncesA {
				noncesA[j] = nil
			}
		}
		if err != nil {
			c.Violation("honest request creation fails", det)
			continue
		}
		dec := new(type5.BatchedPrivateTokenRequest)
		if !dec.Unmarshal(st.Request().Marshal()) {
			c.Violation("the issuer cannot unmarshal an honest request", det)
			continue
		}
		resp, err := iss.Evaluate(dec)
		if err != nil {
			det["err"] = err.Error()
			c.Violation("the issuer fails on an honest request that crossed the wire", det)
			continue
		}
		toks, err := st.FinalizeTokens(append([]byte{}, resp...))
		if err != nil || len(toks) != n {
			if err != nil {
				det["err"] = err.Error()
			}
			c.Violation("the client fails to finalize an honest response (one token per nonce)", det)
			continue
		}
		srv := oprf.NewVerifiableServer(oprf.SuiteRistretto255, sk)
		for j, tok := range toks {
			if j < 4 || j >= n-2 || c.Thorough() {
				c01Token(c, "type5:wire-run", 5, nonces[j], chal, kid, 64, tok, det)
			} else if !bytes.Equal(tok.Nonce, nonces[j]) {
				c.Violation("token i is bound to nonce i", det)
			}
			want, _ := srv.FullEvaluate(cat(u16b(5), nonces[j], sha256Bytes(chal), kid))
			if iss.Verify(tok) != nil || !bytes.Equal(tok.Authenticator, want) {
				det["index"] = j
				c.Violation("token i verifies under the issuer's key and is bound to nonce i", det)
				break
			}
		}
		c.Count("type5:batch-size", 1, "")
	}
}

func c01Type3(c *h.Ctx, chalLens []int, nameLens []int) {
	// host-name shaped origins, registered and requested with the same spelling
	shapes := []string{"origin.example", "origin.example.", "Origin.Example", "ORIGIN.EXAMPLE", " origin.example", "origin.example ", "a..b", ".", "..",
		"*.example", "origin.example:443", "https://origin.example/", "xn--bcher-kva.example", "b\u00fccher.example", "origin.example,other.example", "origin\x00.example", "-", "0"}
	special := specialRSAKeyList()
	for ni := 0; ni < len(nameLens)+len(shapes); ni++ {
		var name string
		nl := -1
		if ni < len(nameLens) {
			nl = nameLens[ni]
			name = string(nameOfLen(c, nl, ni%2))
		} else {
			name = shapes[ni-len(nameLens)]
			nl = len(name)
		}
		env := newT3(c, ni, rnd(c, 32), map[string][]byte{name: rnd(c, 48), "other.example": rnd(c, 48)})
		if ni%3 == 0 && len(special) > 0 { // token keys whose key id has a boundary first / last byte
			env = newT3WithKey(c, special[(ni/3)%len(special)], rnd(c, 32), map[string][]byte{name: rnd(c, 48), "other.example": rnd(c, 48)})
		}
		client := type3.NewRateLimitedClientFromSecret(rnd(c, 48))
		chal, nonce := rnd(c, chalLens[ni%len(chalLens)]), rnd(c, 32)
		det := map[string]any{"type": 3, "origin_len": nl, "origin": h.Hex([]byte(name)), "challenge_len": len(chal)}
		if ni%2 == 1 { // registered through AddOrigin (library-generated index key) instead of AddOriginWithIndexKey
			env = newT3(c, ni, rnd(c, 32), map[string][]byte{"other.example": rnd(c, 48)})
			if ni%3 == 0 && len(special) > 0 {
				env = newT3WithKey(c, special[(ni/3)%len(special)], rnd(c, 32), map[string][]byte{"other.example": rnd(c, 48)})
			}
			env.issuer.AddOrigin(name)
			det["registered_with"] = "AddOrigin"
		}
		chalA, nonceA, blindA := clone(chal), clone(nonce), rnd(c, 48)
		st, err := env.request(client, chalA, nonceA, blindA, name)
		if err != nil {
			det["err"] = err.Error()
			c.Violation("honest request creation fails", det)
			continue
		}
		wire := st.Request().Marshal()
		if ni%4 >= 2 {
			det["caller_buffers_overwritten_after_request"] = true
			scribble(chalA, nonceA, blindA)
		}
		resp, _, err := env.issuer.Evaluate(wire)
		if err != nil {
			det["err"] = err.Error()
			c.Violation("the issuer fails on an honest request that crossed the wire", det)
			continue
		}
		tok, err := st.FinalizeToken(append([]byte{}, resp...))
		if err != nil {
			det["err"] = err.Error()
			c.Violation("the client fails to finalize an honest response", det)
			continue
		}
		kid := env.tokenKeyID
		c01Token(c, "type3:wire-run", 3, nonce, chal, kid, 256, tok, det)
		if !pssOK(&env.key.PublicKey, cat(u16b(3), nonce, sha256Bytes(chal), kid), tok.Authenticator) {
			c.Violation("the token verifies under the issuer's key (RSASSA-PSS, SHA-384, salt 48)", det)
		}
	}
}

func runC01(c0 *h.Ctx) {
	chalLens := []int{0, 1, 31, 32, 33, 255, 4096}
	c0.Parallel(4, func(part int, c *h.Ctx) {
		switch part {
		case 0:
			n := 3
			if c.Thorough() {
				n = 20
			}
			c01Type1(c, chalLens, n)
		case 1:
			n := 2
			if c.Thorough() {
				n = 3
			}
			c01Type2(c, chalLens, n)
			if c.Thorough() {
				for r := 0; r < 5; r++ {
					c01Type2(c, chalLens, 3)
				}
			}
		case 2:
			batches := []int{1, 2, 3, 4, 5, 8, 16, 511, 512, 513}
			if c.Thorough() {
				batches = nil
				for n := 1; n <= 64; n++ {
					batches = append(batches, n)
				}
				batches = append(batches, 127, 128, 129, 511, 512, 513, 1023, 1024)
			}
			c01Type5(c, chalLens, batches)
		case 3:
			nameLens := []int{0, 1, 14, 31, 32, 33, 63, 64, 65, 96, 128}
			if c.Thorough() {
				for n := 0; n <= 200; n += 7 {
					nameLens = append(nameLens, n)
				}
				nameLens = append(nameLens, 255, 256, 257, 1024, 4096)
			}
			c01Type3(c, chalLens, nameLens)
		}
	})
}
