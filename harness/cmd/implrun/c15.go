package main

import (
	"bytes"
	stded "crypto/ed25519"
	"crypto/sha512"
	"math/big"

	"github.com/cloudflare/pat-go/ed25519"
	"verif/harness/internal/h"
	"verif/harness/internal/ref"
)

func init() { props["C15"] = runC15 }

// withSpareBuf embeds b in a larger buffer with the given spare capacity and filler behind it.
func withSpareBuf(b []byte, spare int, fill byte) []byte {
	buf := make([]byte, len(b)+spare)
	copy(buf, b)
	for i := len(b); i < len(buf); i++ {
		buf[i] = fill
	}
	return buf[:len(b)]
}

var c15ModelPoints [8]int

func runC15(c0 *h.Ctx) {
	c15ModelPoints = [8]int{}
	// the reference must agree with crypto/ed25519 on public keys before it is used as a bridge
	B := ref.EdBase()
	c0.Parallel(8, func(part int, c *h.Ctx) {
		// the blinding factor and the signing challenge are scalar reductions: results with extreme limbs (shared with C14)
		c14PatternedReductions(c, part, ref.EdL())
		nSeeds := 8
		if c.Thorough() {
			nSeeds = 40
		}
		contexts := [][]byte{nil, {0}, {0x41}, rnd(c, 32), rnd(c, 95), rnd(c, 96), rnd(c, 97), rnd(c, 200), rnd(c, 1000)}
		msgs := [][]byte{nil, {0}, rnd(c, 1), rnd(c, 31), rnd(c, 64), rnd(c, 111), rnd(c, 112), rnd(c, 300), rnd(c, 4033), rnd(c, 4065), rnd(c, 9000)}
		for si := 0; si < nSeeds; si++ {
			seed := rnd(c, 32)
			priv := ed25519.NewKeyFromSeed(seed)
			pub := priv.Public().(ed25519.PublicKey)
			stdPub := stded.NewKeyFromSeed(seed).Public().(stded.PublicKey)
			A, okA := ref.EdDecode(pub)
			if !okA || !bytes.Equal(pub, stdPub) {
				c.Violation("public key derivation differs from crypto/ed25519", map[string]any{"seed": h.Hex(seed)})
				continue
			}
			var prevBlind []byte
			for bi := 0; bi < 3; bi++ {
				blind := rnd(c, 32)
				switch (si + bi + part) % 5 {
				case 1:
					blind = make([]byte, 32)
				case 2:
					blind = bytesFF(32)
				}
				for ci, ctx := range contexts {
					if !c.Thorough() && (ci+si+bi+part)%3 != 0 {
						continue
					}
					msg := msgs[(ci+si+bi)%len(msgs)]
					if len(msg) > 4000 && !(si == 0 && bi == 0) && !c.Thorough() {
						msg = msgs[(ci+si+bi)%8] // long messages (fixed scratch buffers!) only for the first seed and blind in quick
					}
					det := map[string]any{"seed": h.Hex(seed), "blind": h.Hex(blind), "context": h.Hex(ctx), "message": h.Hex(msg)}
					// the caller's slices sit in larger buffers with spare capacity (results must not depend on it)
					blindArg := withSpareBuf(blind, 64, 0xa5)
					ctxArg := ctx
					if ctx != nil {
						ctxArg = withSpareBuf(ctx, 16, 0x5a)
					}
					m := c.Model("ed_blind_sign_prep", seed, blind, ctx, msg)
					factor, bsecret, nonce := ref.LE(m[0]), ref.LE(m[1]), ref.LE(m[2])
					if factor.Sign() == 0 {
						continue
					}
					// --- blinded public key = [factor]A --------------------------------------------------------------
					var pkB ed25519.PublicKey
					var err error
					pan, pmsg := h.Protect(func() { pkB, err = ed25519.BlindPublicKeyWithContext(pub, blindArg, ctxArg) })
					if pan || err != nil {
						det["panic"] = pmsg
						c.Violation("BlindPublicKeyWithContext fails", det)
						continue
					}
					wantB := A.Mul(factor)
					c.Count("blind:public-key", 1, h.Hex(seed)+h.Hex(blind)+h.Hex(ctx))
					if !bytes.Equal(pkB, wantB.Encode()) {
						c.Violation("the blinded public key is the public key multiplied by SHA-512(blind || 0x00 || context)[0:32] mod L", det)
					}
					if !bytes.Equal([]byte(pkB), B.Mul(bsecret).Encode()) {
						c.Violation("the blinded public key is [a * r mod L]B (closed form of the model)", det)
					}
					// ... and computed entirely inside the Coq model: decoding, [factor]A by double-and-add over the proved field
					// arithmetic, encoding (one per part in the quick tier: two seconds of model time each)
					if c15ModelPoints[part] < 1 || c.Thorough() && c15ModelPoints[part] < 4 {
						c15ModelPoints[part]++
						c.Case("blind:public-key-in-the-model", true, "pt_mul", [][]byte{leBytes(factor, 32), pub}, [][]byte{h.StOK, pkB})
					}
					// --- unblinding inverts blinding ------------------------------------------------------------------
					pkU, err := ed25519.UnblindPublicKeyWithContext(pkB, blindArg, ctxArg)
					if err != nil || !bytes.Equal(pkU, pub) {
						c.Violation("unblinding inverts blinding", det)
					}
					inv := new(big.Int).ModInverse(factor, ref.EdL())
					if pkU2, err := ed25519.UnblindPublicKeyWithContext(pub, blindArg, ctxArg); err != nil || !bytes.Equal(pkU2, A.Mul(inv).Encode()) {
						c.Violation("the unblinded key is the key multiplied by the inverse of the factor mod L", det)
					}
					// --- signing: byte-exact against the Coq pipeline + reference points ------------------------------
					var sig []byte
					pan, pmsg = h.Protect(func() { sig = ed25519.BlindKeySignWithContext(priv, msg, blindArg, ctxArg) })
					if pan {
						det["panic"] = pmsg
						c.Violation("BlindKeySignWithContext panics", det)
						continue
					}
					R := B.Mul(nonce).Encode()
					c.Case("blind:sign", true, "ed_signature", [][]byte{R, wantB.Encode(), msg, m[1], m[2]}, [][]byte{sig})
					sig2 := ed25519.BlindKeySignWithContext(priv, msg, append([]byte{}, blind...), append([]byte{}, ctx...))
					if !bytes.Equal(sig, sig2) {
						c.Violation("blinded signing is deterministic (and independent of spare capacity behind its arguments)", det)
					}
					if !stded.Verify(stded.PublicKey(wantB.Encode()), msg, sig) {
						c.Violation("a signature made with the blinded key verifies under the blinded public key with crypto/ed25519", det)
					}
					if !ed25519.Verify(pkB, msg, sig) {
						c.Violation("a signature made with the blinded key verifies under the blinded public key with this package", det)
					}
					if factor.Cmp(big.NewInt(1)) != 0 && (stded.Verify(stdPub, msg, sig) || ed25519.Verify(pub, msg, sig)) {
						c.Violation("a signature made with the blinded key verifies under the ORIGINAL key", det)
					}
					if !bytes.Equal(blindArg[:cap(blindArg)][32:], bytes.Repeat([]byte{0xa5}, 64)) {
						c.Violation("blinding wrote behind the caller's blind slice", det)
					}
					// --- context / blind sensitivity -----------------------------------------------------------------
					for _, ctx2 := range [][]byte{cat(ctx, []byte{0}), cat([]byte{0}, ctx), flipCtx(ctx), flipLast(ctx)} {
						if bytes.Equal(ctx2, ctx) {
							continue
						}
						if p2, err := ed25519.BlindPublicKeyWithContext(pub, blind, ctx2); err == nil && bytes.Equal(p2, pkB) {
							det["context2"] = h.Hex(ctx2)
							c.Violation("changing the context changes the blinded key", det)
						}
					}
					b2 := append([]byte{}, blind...)
					b2[31] ^= 0x80
					if p2, err := ed25519.BlindPublicKeyWithContext(pub, b2, ctx); err == nil && bytes.Equal(p2, pkB) {
						c.Violation("changing the blind changes the blinded key", det)
					}
					// --- two blinds commute ---------------------------------------------------------------------------
					if prevBlind != nil {
						p12, e1 := ed25519.BlindPublicKeyWithContext(pkB, prevBlind, ctx)
						pP, e2 := ed25519.BlindPublicKeyWithContext(pub, prevBlind, ctx)
						if e1 == nil && e2 == nil {
							p21, _ := ed25519.BlindPublicKeyWithContext(pP, blind, ctx)
							c.Count("blind:commute", 1, "")
							if !bytes.Equal(p12, p21) {
								c.Violation("two blindings commute", det)
							}
						}
					}
				}
				prevBlind = blind
			}
			// blinds whose blinding factor has an inverse with leading zero bytes (about 1 in 6000): found by search
			if si == 0 && part < 4 {
				found := 0
				for ctr := 0; found < 2 && ctr < 200000; ctr++ {
					bl := sha256Bytes(cat(seed, []byte{byte(part)}, h.U64(uint64(ctr))))
					ctx := []byte{byte(ctr)}
					sum := sha512.Sum512(cat(bl, []byte{0}, ctx))
					f := new(big.Int).Mod(ref.LE(sum[:32]), ref.EdL())
					if f.Sign() == 0 {
						continue
					}
					inv := new(big.Int).ModInverse(f, ref.EdL())
					if inv.BitLen() > 240 {
						continue
					}
					found++
					pkB, err := ed25519.BlindPublicKeyWithContext(pub, bl, ctx)
					c.Count("blind:short-inverse", 1, h.Hex(bl))
					if err != nil {
						continue
					}
					pkU, err := ed25519.UnblindPublicKeyWithContext(pkB, bl, ctx)
					if err != nil || !bytes.Equal(pkU, pub) || !bytes.Equal(pkB, A.Mul(f).Encode()) {
						c.Violation("unblinding inverts blinding (blinding factor whose inverse has leading zero bytes)", map[string]any{"seed": h.Hex(seed), "blind": h.Hex(bl), "context": h.Hex(ctx), "inverse_bits": inv.BitLen()})
					}
					if pkU2, err := ed25519.UnblindPublicKeyWithContext(pub, bl, ctx); err != nil || !bytes.Equal(pkU2, A.Mul(inv).Encode()) {
						c.Violation("the unblinded key is the key multiplied by the inverse of the factor mod L (short inverse)", map[string]any{"blind": h.Hex(bl), "context": h.Hex(ctx)})
					}
				}
			}
			// unblinding inverts blinding for EVERY blinding scalar, also those no blind is known to hash to: scalars whose
			// inverse has many leading zero bytes, through the scalar / point hooks (the two multiplications of
			// BlindPublicKeyWithContext followed by UnblindPublicKeyWithContext)
			for _, bits := range []int{1, 2, 8, 9, 33, 64, 128, 129, 191, 192, 193, 200, 232, 240, 248} {
				v := new(big.Int).Lsh(big.NewInt(1), uint(bits-1))
				v.Add(v, new(big.Int).Mod(new(big.Int).SetBytes(rnd(c, 30)), v))
				r := new(big.Int).ModInverse(v, ref.EdL())
				if r == nil || r.Sign() == 0 {
					continue
				}
				rb := leBytes(r, 32)
				q, e1 := ed25519.VerifPointScalarMult(rb, pub)
				inv := ed25519.VerifScalarModInverse(rb)
				p2, e2 := ed25519.VerifPointScalarMult(inv, q)
				c.Count("blind:scalar-level:short-inverse", 1, h.Hex(rb))
				if e1 != nil || e2 != nil || !bytes.Equal(p2, pub) || !bytes.Equal(inv, leBytes(v, 32)) {
					c.Violation("unblinding inverts blinding for every blinding scalar ([r^-1]([r]A) = A, r^-1 computed by the library)", map[string]any{"scalar": h.Hex(rb), "inverse_bits": bits, "library_inverse": h.Hex(inv)})
				}
			}
			// public keys that are not curve points / of other lengths, and the context-free wrappers
			for _, badPk := range [][]byte{nil, {}, pub[:31], cat(pub, []byte{0}), cat([]byte{2}, make([]byte, 31)), bytesFF(32), cat([]byte{0xec}, bytesFF(30), []byte{0x7f})} {
				var e1, e2 error
				var o1, o2 []byte
				pan, pmsg := h.Protect(func() {
					o1, e1 = ed25519.BlindPublicKeyWithContext(badPk, rnd(c, 32), []byte("ctx"))
					o2, e2 = ed25519.UnblindPublicKeyWithContext(badPk, rnd(c, 32), []byte("ctx"))
				})
				c.Count("blind:invalid-public-key", 1, h.Hex(badPk))
				_, decOK := ref.EdDecode(badPk)
				if pan {
					c.Violation("blinding a byte string that is not a public key panics", map[string]any{"public_key": h.Hex(badPk), "panic": pmsg})
				} else if !decOK && (e1 == nil || e2 == nil || o1 != nil || o2 != nil) {
					c.Violation("blinding / unblinding a byte string that is not a point encoding reports an error and returns no key", map[string]any{"public_key": h.Hex(badPk)})
				}
			}
			{
				bl := rnd(c, 32)
				w1, e1 := ed25519.BlindPublicKey(pub, bl)
				w2, e2 := ed25519.BlindPublicKeyWithContext(pub, bl, []byte{})
				u1, e3 := ed25519.UnblindPublicKey(w1, bl)
				msgW := rnd(c, 17)
				sW := ed25519.BlindKeySign(priv, msgW, bl)
				sum := sha512.Sum512(cat(bl, []byte{0}))
				fW := new(big.Int).Mod(ref.LE(sum[:32]), ref.EdL())
				c.Count("blind:context-free-wrappers", 1, h.Hex(bl))
				if e1 != nil || e2 != nil || e3 != nil || !bytes.Equal(w1, w2) || !bytes.Equal(u1, pub) || !bytes.Equal(w1, A.Mul(fW).Encode()) || !stded.Verify(stded.PublicKey(w1), msgW, sW) {
					c.Violation("the context-free wrappers are the empty-context operations (factor SHA-512(blind || 0x00)[:32] mod L)", map[string]any{"seed": h.Hex(seed), "blind": h.Hex(bl)})
				}
			}
			// two blinds cut from ONE buffer (the second right behind the first)
			buf := rnd(c, 64)
			bA, bB := buf[:32], buf[32:]
			keep := append([]byte{}, buf...)
			msg := rnd(c, 20)
			sA := ed25519.BlindKeySignWithContext(priv, msg, bA, []byte("ctx"))
			sB := ed25519.BlindKeySignWithContext(priv, msg, bB, []byte("ctx"))
			pB, _ := ed25519.BlindPublicKeyWithContext(pub, keep[32:], []byte("ctx"))
			pA, _ := ed25519.BlindPublicKeyWithContext(pub, keep[:32], []byte("ctx"))
			c.Count("blind:adjacent-blinds", 1, "")
			if !bytes.Equal(buf, keep) || !stded.Verify(stded.PublicKey(pB), msg, sB) || !stded.Verify(stded.PublicKey(pA), msg, sA) {
				c.Violation("signing with a blind that has another blind behind it in the same buffer corrupts neither", map[string]any{"seed": h.Hex(seed)})
			}
		}
	})
}

func flipLast(ctx []byte) []byte {
	if len(ctx) == 0 {
		return []byte{1}
	}
	o := append([]byte{}, ctx...)
	o[len(o)-1] ^= 1
	return o
}
