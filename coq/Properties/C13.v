(** C13 — the ECDSA fork accepts and produces exactly standard ECDSA.
    Layer A (Model/Ecdsa.v): both ASN.1 signature parsers transcribed (the fork's: cryptobyte ReadASN1Integer into
    big.Int + range checks; the standard library's: parseSignature into byte strings + bigmod range checks), the raw
    range checks, hashToInt, and entropy consumption over a scripted io.Reader.  Layer B (Model/Algebra.v): the
    verification equation in exponent form.  Curve arithmetic itself is a primitive (partial). *)
From Coq Require Import Field Bool.
From PatVerif Require Import Model.Ecdsa Proofs.EcdsaP Model.Algebra Proofs.AlgebraP.
Open Scope N_scope.

(** for EVERY byte string offered as an ASN.1 signature and every order N: the two parsers accept the same strings
    and return the same (r, s) — non-minimal integers, negative integers, trailing data inside or outside the
    SEQUENCE, zero and values >= N are refused by both *)
Theorem parse_equiv : forall n sig, fork_accepts n sig = std_accepts n sig.
Proof. exact parse_equiv_l. Qed.
Print Assumptions parse_equiv.

(** raw (r, s) in Z x Z: zero, negative and >= N are refused by both range checks *)
Theorem range_equiv : forall n z, in_range n z = std_in_range n z.
Proof. exact range_equiv_l. Qed.
Print Assumptions range_equiv.

Theorem accepted_in_range : forall n sig r s, fork_accepts n sig = Some (r, s) -> 0 < r < n /\ 0 < s < n.
Proof. exact fork_accepts_range. Qed.
Print Assumptions accepted_in_range.

(** hashToInt: never more than order_bits bits; for a digest at least as long as the order it is exactly the
    leftmost order_bits bits of the WHOLE digest (truncation to bytes then shifting = shifting the whole), for every
    digest length and every order bit length (the 7-bit shift of P-521 included) *)
Theorem hash_to_int_bound : forall h n, hash_to_int h n < 2 ^ n.
Proof. exact hash_to_int_bound_l. Qed.
Print Assumptions hash_to_int_bound.
Theorem hash_to_int_leftmost : forall h n, n <= 8 * N.of_nat (length h) ->
  hash_to_int h n = be_dec h / 2 ^ (8 * N.of_nat (length h) - n).
Proof. exact hash_to_int_leftmost_l. Qed.
Print Assumptions hash_to_int_leftmost.

(** entropy: for EVERY reader script (any chunking, faults anywhere) that cannot deliver the required bytes, key
    generation and signing return an error — whichever way MaybeReadByte goes — and they succeed when the script
    delivers enough before its first fault *)
Theorem generate_key_fail_closed : forall bitsize script,
  (total script < bitsize / 8 + 8)%nat -> generate_key_entropy bitsize script = Err.
Proof. exact generate_key_fail_closed_l. Qed.
Print Assumptions generate_key_fail_closed.
Theorem sign_fail_closed : forall coin script, (total script < 32)%nat -> sign_entropy coin script = Err.
Proof. exact sign_fail_closed_l. Qed.
Print Assumptions sign_fail_closed.
Theorem sign_succeeds : forall coin script, (33 <= available script)%nat -> exists e, sign_entropy coin script = Ok e.
Proof. exact sign_succeeds_l. Qed.
Print Assumptions sign_succeeds.
Theorem generate_key_succeeds : forall bitsize script, (bitsize / 8 + 8 <= available script)%nat ->
  exists e, generate_key_entropy bitsize script = Ok e /\ length e = (bitsize / 8 + 8)%nat.
Proof. exact generate_key_succeeds_l. Qed.
Print Assumptions generate_key_succeeds.

(** the verification equation (exponent form, any field): what the fork signs, it verifies; and the verdict for an
    honestly made signature under any key is the standard one — the recovered point is not the identity and has
    the x-coordinate scalar r *)
Section Eq.
  Variable F : Type.
  Variables (f0 f1 : F) (fadd fmul fsub : F -> F -> F) (fopp : F -> F) (fdiv : F -> F -> F) (finv : F -> F).
  Variable feqb : F -> F -> bool.
  Hypothesis Fth : field_theory f0 f1 fadd fmul fsub fopp fdiv finv (@eq F).
  Hypothesis feqb_spec : forall a b, feqb a b = true <-> a = b.
  Variable xr : F -> F.
  Theorem sign_verifies : forall d e k, k <> f0 -> xr k <> f0 -> fadd e (fmul d (xr k)) <> f0 ->
    let '(r, s) := ecdsa_sign F fadd fmul finv xr d e k in
    ecdsa_verify F f0 fadd fmul finv feqb xr (fmul d f1) e r s = true.
  Proof. exact (sign_verifies_l F f0 f1 fadd fmul fsub fopp fdiv finv feqb Fth feqb_spec xr). Qed.
End Eq.
Print Assumptions sign_verifies.

(** non-vacuity: an accepted and two refused encodings *)
Example parse_examples :
  fork_accepts 1000 [x30; x06; x02; x01; x05; x02; x01; x07] = Some (5, 7) /\
  fork_accepts 1000 [x30; x07; x02; x02; x00; x05; x02; x01; x07] = None /\     (* non-minimal r *)
  fork_accepts 1000 [x30; x06; x02; x01; x85; x02; x01; x07] = None /\          (* negative r *)
  std_accepts 1000 [x30; x06; x02; x01; x85; x02; x01; x07] = None.
Proof. vm_compute. repeat split; reflexivity. Qed.
