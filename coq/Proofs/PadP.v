From PatVerif Require Import Model.Pad.
From Coq Require Import ZifyN ZifyNat ZifyBool.

Lemma pad_count_spec n : (n + pad_count n = 32 * blocks n)%nat /\ (pad_count n <= 32)%nat.
Proof.
  unfold pad_count, blocks. destruct n as [|n].
  - cbn. lia.
  - assert (H : (Z.of_nat (S n) - 1 = Z.of_nat n)%Z) by lia. rewrite H.
    rewrite Z.rem_mod_nonneg by lia.
    pose proof (Nat.div_mod (S n + 31) 32 ltac:(lia)) as D.
    pose proof (Nat.mod_upper_bound (S n + 31) 32 ltac:(lia)) as U.
    assert (Hm : (Z.of_nat n mod 32 = Z.of_nat (n mod 32))%Z) by (rewrite Nat2Z.inj_mod; reflexivity).
    rewrite Hm.
    pose proof (Nat.div_mod n 32 ltac:(lia)) as D2.
    pose proof (Nat.mod_upper_bound n 32 ltac:(lia)) as U2.
    assert (Hq : ((S n + 31) / 32 = n / 32 + 1)%nat).
    { replace (S n + 31)%nat with (n + 1 * 32)%nat by lia. rewrite Nat.div_add by lia. reflexivity. }
    rewrite Hq. lia.
Qed.

Lemma pad_length_l name : length (pad name) = (32 * blocks (length name))%nat.
Proof. unfold pad. rewrite app_length, repeat_length. apply pad_count_spec. Qed.

Lemma strip0_repeat n r : strip0 (repeat x00 n ++ r) = strip0 r.
Proof. induction n as [|n IH]; [reflexivity|]. cbn [repeat app strip0]. change (byte_eqb x00 x00) with true. exact IH. Qed.

Lemma rev_repeat {A} (x : A) n : rev (repeat x n) = repeat x n.
Proof.
  induction n as [|n IH]; [reflexivity|]. cbn [repeat rev]. rewrite IH.
  clear IH. induction n as [|n IH]; [reflexivity|]. cbn [repeat app]. now rewrite IH.
Qed.

Lemma strip0_nonzero_head b t : b <> x00 -> strip0 (b :: t) = b :: t.
Proof.
  intro H. cbn [strip0]. destruct (byte_eqb b x00) eqn:E; [apply byte_eqb_eq in E; congruence|reflexivity].
Qed.

Lemma unpad_pad_l name : ends_nonzero name -> unpad (pad name) = name.
Proof.
  intros H. unfold unpad, pad. rewrite rev_app_distr, rev_repeat, strip0_repeat.
  destruct H as [->|H]; [reflexivity|].
  destruct (rev name) as [|b t] eqn:E.
  - apply (f_equal (@rev byte)) in E. rewrite rev_involutive in E. now subst.
  - assert (Hl : last name x01 = b).
    { apply (f_equal (@rev byte)) in E. rewrite rev_involutive in E. subst name. cbn [rev]. apply last_last. }
    rewrite strip0_nonzero_head by congruence. rewrite <- E. apply rev_involutive.
Qed.

Lemma unpad_pad_inj_l a b : ends_nonzero a -> ends_nonzero b -> (unpad (pad a) = b <-> a = b).
Proof. intros Ha Hb. rewrite unpad_pad_l by exact Ha. tauto. Qed.

Lemma served_iff_l name registered : ends_nonzero name ->
  (served name registered = true <-> In name registered).
Proof.
  intro H. unfold served. rewrite unpad_pad_l by exact H. rewrite existsb_exists. split.
  - intros [x [Hin E]]. apply bytes_eqb_eq in E. now subst.
  - intro Hin. exists name. split; [exact Hin|apply bytes_eqb_refl].
Qed.

Lemma wire_len_l n : request_wire_len n = (488 + 32 * blocks n)%nat.
Proof. unfold request_wire_len, inner_len, kem_enc_len, aead_tag_len. pose proof (pad_count_spec n). lia. Qed.

Lemma wire_len_same_blocks_l n m : blocks n = blocks m -> request_wire_len n = request_wire_len m.
Proof. intro H. now rewrite !wire_len_l, H. Qed.

Lemma blocks_empty : blocks 0 = 1%nat. Proof. reflexivity. Qed.

(** the wire length reveals the block count and nothing else: equal lengths iff equal block counts *)
Lemma wire_len_iff_blocks_l n m : request_wire_len n = request_wire_len m <-> blocks n = blocks m.
Proof. rewrite !wire_len_l. split; intro H; lia. Qed.

(** [blocks n] is the number of 32-byte blocks NEEDED: the least k >= 1 with n <= 32 k *)
Lemma blocks_least_l n : (1 <= blocks n /\ n <= 32 * blocks n)%nat /\
  forall k, (1 <= k)%nat -> (n <= 32 * k)%nat -> (blocks n <= k)%nat.
Proof.
  unfold blocks.
  pose proof (Nat.div_mod (n + 31) 32 ltac:(lia)) as D.
  pose proof (Nat.mod_upper_bound (n + 31) 32 ltac:(lia)) as U.
  split; [split; lia | intros k Hk Hn; lia].
Qed.

(** the padded name is the name followed by zero bytes only, at most 32 of them *)
Lemma pad_shape_l name : exists z, pad name = name ++ repeat x00 z /\ (z <= 32)%nat /\
  firstn (length name) (pad name) = name.
Proof.
  exists (pad_count (length name)). split; [reflexivity|]. split; [apply pad_count_spec|].
  unfold pad. rewrite firstn_app, Nat.sub_diag, firstn_O, app_nil_r. apply firstn_all.
Qed.

(** the hypothesis is necessary: a name ending in a zero byte collides with its prefix *)
Lemma zero_suffix_collides : exists a b, a <> b /\ unpad (pad a) = unpad (pad b).
Proof. exists [x61; x00], [x61]. split; [discriminate|vm_compute; reflexivity]. Qed.

Example ex_pad_32 : length (pad (repeat x61 32)) = 32%nat /\ length (pad (repeat x61 33)) = 64%nat /\ length (pad []) = 32%nat.
Proof. vm_compute. auto. Qed.
Example ex_ends_nonzero : ends_nonzero [x61; x00; x62].
Proof. right. cbn. discriminate. Qed.
