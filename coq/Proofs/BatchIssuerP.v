From PatVerif Require Import Model.BatchIssuer Proofs.BatchCodecsP Proofs.QuicwireP.
From Coq Require Import ZifyN ZifyNat ZifyBool.
Open Scope N_scope.

Lemma eval_one_cases is it :
  eval_one is it = [] \/
  exists i, In i is /\ matches i it = true /\ i_eval i (q_keyid (snd it)) (q_blinded (snd it)) = Some (eval_one is it).
Proof.
  induction is as [|i rest IH]; cbn [eval_one]; [now left|].
  destruct (matches i it) eqn:M.
  - destruct (i_eval i _ _) as [r|] eqn:E.
    + right. exists i. repeat split; [now left|exact M|exact E].
    + destruct IH as [IH|(j & Hj & Mj & Ej)]; [now left|right]. exists j. repeat split; [now right|exact Mj|exact Ej].
  - destruct IH as [IH|(j & Hj & Mj & Ej)]; [now left|right]. exists j. repeat split; [now right|exact Mj|exact Ej].
Qed.

Lemma eval_one_wf is it : Forall wf_issuer is -> wf_resp (eval_one is it) /\
  (eval_one is it <> [] -> resp_len (fst it) = Some (length (eval_one is it))).
Proof.
  intro F. destruct (eval_one_cases is it) as [E|(i & Hi & M & E)].
  - rewrite E. split; [now left|congruence].
  - rewrite Forall_forall in F. specialize (F i Hi _ _ _ E).
    unfold matches in M. apply andb_prop in M. destruct M as [Mt _]. apply N.eqb_eq in Mt. rewrite Mt in F.
    split; [|intros _; exact F].
    unfold resp_len in F. destruct (fst it) as [|[[]|[]|]]; try discriminate; injection F as F; unfold wf_resp; lia.
Qed.

(** a matching issuer that succeeds makes the slot non-empty and the slot is the FIRST such success *)
Lemma eval_one_present is it : Forall wf_issuer is ->
  (exists i r, In i is /\ matches i it = true /\ i_eval i (q_keyid (snd it)) (q_blinded (snd it)) = Some r) ->
  eval_one is it <> [].
Proof.
  intros F (i & r & Hi & M & E). induction is as [|j rest IH]; [destruct Hi|].
  cbn [eval_one]. inversion F as [|? ? Fj Fr]; subst.
  destruct (matches j it) eqn:Mj.
  - destruct (i_eval j _ _) as [r'|] eqn:Ej.
    + specialize (Fj _ _ _ Ej). intro Z. rewrite Z in Fj.
      unfold matches in Mj. apply andb_prop in Mj. destruct Mj as [Mt _]. apply N.eqb_eq in Mt. rewrite Mt in Fj.
      unfold resp_len in Fj. destruct (fst it) as [|[[]|[]|]]; discriminate.
    + destruct Hi as [->|Hi]; [congruence|]. now apply IH.
  - destruct Hi as [->|Hi]; [congruence|]. now apply IH.
Qed.

Lemma enc_typed_is_item is it : Forall wf_issuer is ->
  enc_resp_typed (fst it, eval_one is it) = enc_resp_item (eval_one is it).
Proof.
  intro F. destruct (eval_one_wf is it F) as [_ L]. unfold enc_resp_typed, enc_resp_item. cbn [fst snd].
  destruct (eval_one is it) as [|x r] eqn:E; [reflexivity|].
  specialize (L ltac:(discriminate)). unfold resp_len in L.
  destruct (fst it) as [|[[]|[]|]]; try discriminate; injection L as L; cbn [length]; rewrite <- L; reflexivity.
Qed.

Lemma evaluate_batch_is_enc is rs : Forall wf_issuer is ->
  evaluate_batch is rs = enc_resps (responses is rs).
Proof.
  intro F. unfold evaluate_batch, enc_resps_typed, enc_resps, responses. rewrite !map_map.
  assert (E : map (fun x => enc_resp_typed (fst x, eval_one is x)) rs = map (fun x => enc_resp_item (eval_one is x)) rs).
  { apply map_ext. intro it. now apply enc_typed_is_item. }
  now rewrite E.
Qed.

Theorem batch_decodes_l is rs : Forall wf_issuer is ->
  N.of_nat (length (concat (map enc_resp_item (responses is rs)))) <= max_varint ->
  dec_resps (evaluate_batch is rs) = Some (responses is rs).
Proof.
  intros F Hm. rewrite evaluate_batch_is_enc by exact F.
  rewrite <- (app_nil_r (enc_resps _)). apply dec_enc_resps; [|exact Hm].
  unfold responses. apply Forall_forall. intros r Hr. apply in_map_iff in Hr. destruct Hr as (it & <- & _).
  now apply eval_one_wf.
Qed.

Lemma responses_length is rs : length (responses is rs) = length rs.
Proof. apply map_length. Qed.

Lemma responses_nth is rs n : nth_error (responses is rs) n = option_map (eval_one is) (nth_error rs n).
Proof. unfold responses. apply nth_error_map. Qed.

(** isolation: entry n depends on request n only *)
Lemma isolation_l is rs rs' n : nth_error rs n = nth_error rs' n ->
  nth_error (responses is rs) n = nth_error (responses is rs') n.
Proof. intro H. now rewrite !responses_nth, H. Qed.

(** the body stays far below the varint limit for any batch that fits in memory: 259 bytes per entry at most *)
Lemma body_bound is rs : Forall wf_issuer is ->
  (length (concat (map enc_resp_item (responses is rs))) <= 259 * length rs)%nat.
Proof.
  intro F. unfold responses. induction rs as [|it rs IH]; cbn [map concat length]; [lia|].
  rewrite app_length. destruct (eval_one_wf is it F) as [W _].
  assert (length (enc_resp_item (eval_one is it)) <= 259)%nat.
  { destruct W as [->|[W|W]]; [cbn; lia| |].
    - rewrite enc_resp_item_145 by exact W. cbn [length]. rewrite app_length, u16_length. lia.
    - rewrite enc_resp_item_256 by exact W. cbn [length]. rewrite app_length, u16_length. lia. }
  lia.
Qed.
