(** Property-level corollaries for C04, assembled from CodecsP / BatchCodecsP. *)
From PatVerif Require Import Model.BatchCodecs Proofs.QuicwireP Proofs.CodecsP Proofs.BatchCodecsP.
From Coq Require Import ZifyN ZifyNat ZifyBool.
Open Scope N_scope.

Lemma app_nil_end_eq {A} (x : list A) : x = x ++ []. Proof. now rewrite app_nil_r. Qed.

(** Token *)
Theorem token_dec_enc_l nk t : wf_token nk t -> dec_token nk (enc_token t) = Some t.
Proof. intro H. rewrite (app_nil_end_eq (enc_token t)). now apply dec_enc_token. Qed.
Theorem token_canonical_l nk b t : dec_token nk b = Some t ->
  (length (enc_token t) <= length b)%nat /\ dec_token nk (enc_token t) = Some t.
Proof.
  intro H. apply dec_token_inv in H. destruct H as [W [tl ->]]. split; [apply prefix_len|now apply token_dec_enc_l].
Qed.

(** TokenChallenge *)
Theorem challenge_dec_enc_l c : wf_challenge c -> dec_challenge (enc_challenge c) = Some c.
Proof. intro H. rewrite (app_nil_end_eq (enc_challenge c)). now apply dec_enc_challenge. Qed.

(** Types 1, 2: object level *)
Definition unmarshal12 ty ne := unmarshal (um_req12 ty ne).
Definition marshal12 ty := marshal (enc_req12 ty).

Theorem req12_dec_enc_l ty ne old r : ty < 65536 -> wf_req12 ne r ->
  unmarshal12 ty ne old (enc_req12 ty r) = (true, {| raw := None; val := r |}).
Proof.
  intros Hty W. unfold unmarshal12, unmarshal. rewrite (app_nil_end_eq (enc_req12 ty r)).
  now rewrite um_req12_enc.
Qed.

Theorem req12_canonical_l ty ne old b o : unmarshal12 ty ne old b = (true, o) ->
  let e := enc_req12 ty (val o) in
  (length e <= length b)%nat /\ fst (marshal12 ty o) = e /\
  forall old', unmarshal12 ty ne old' e = (true, {| raw := None; val := val o |}).
Proof.
  unfold unmarshal12, unmarshal, marshal12. destruct (um_req12 ty ne (val old) b) as [ok v] eqn:U.
  intro H. inversion H; subst ok o; clear H. cbn [val]. apply um_req12_inv in U.
  destruct U as (W & Hty & tl & ->). split; [apply prefix_len|]. split; [reflexivity|].
  intro old'. now apply req12_dec_enc_l.
Qed.

Theorem req12_type_sep_l ty ne old b t r : read_u16 b = Some (t, r) -> t <> ty ->
  fst (unmarshal12 ty ne old b) = false.
Proof.
  intros E Hne. unfold unmarshal12, unmarshal. pose proof (um_req12_type_sep ty ne (val old) b t r E Hne) as H.
  destruct (um_req12 ty ne (val old) b). exact H.
Qed.

(** Type 3 *)
Theorem req3_dec_enc_l old r : wf_req3 r -> unmarshal um_req3 old (enc_req3 r) = (true, {| raw := None; val := r |}).
Proof. intro W. unfold unmarshal. now rewrite um_req3_enc. Qed.
Theorem req3_canonical_l old b o : unmarshal um_req3 old b = (true, o) ->
  b = enc_req3 (val o) /\ fst (marshal enc_req3 o) = enc_req3 (val o) /\ wf_req3 (val o).
Proof.
  unfold unmarshal. destruct (um_req3 (val old) b) as [ok v] eqn:U. intro H. inversion H; subst ok o; clear H.
  apply um_req3_inv in U. destruct U as [W ->]. auto.
Qed.
Theorem req3_type_sep_l old b t r : read_u16 b = Some (t, r) -> t <> 3 -> fst (unmarshal um_req3 old b) = false.
Proof.
  intros E Hne. unfold unmarshal. pose proof (um_req3_type_sep (val old) b t r E Hne) as H.
  destruct (um_req3 (val old) b). exact H.
Qed.

(** Type 5 *)
Theorem req5_dec_enc_l old r : wf_req5 r -> unmarshal um_req5 old (enc_req5 r) = (true, {| raw := None; val := r |}).
Proof. intro W. unfold unmarshal. rewrite (app_nil_end_eq (enc_req5 r)). now rewrite um_req5_enc. Qed.
Theorem req5_canonical_l old b o : unmarshal um_req5 old b = (true, o) ->
  let e := enc_req5 (val o) in
  (length e <= length b)%nat /\ fst (marshal enc_req5 o) = e /\
  forall old', unmarshal um_req5 old' e = (true, {| raw := None; val := val o |}).
Proof.
  unfold unmarshal. destruct (um_req5 (val old) b) as [ok v] eqn:U. intro H. inversion H; subst ok o; clear H.
  cbn [val]. apply um_req5_inv in U. destruct U as [W L]. split; [exact L|]. split; [reflexivity|].
  intro old'. now apply req5_dec_enc_l.
Qed.
Theorem req5_type_sep_l old b t r : read_u16 b = Some (t, r) -> t <> 5 -> fst (unmarshal um_req5 old b) = false.
Proof.
  intros E Hne. unfold unmarshal. pose proof (um_req5_type_sep (val old) b t r E Hne) as H.
  destruct (um_req5 (val old) b). exact H.
Qed.

(** Inner request *)
Theorem inner_dec_enc_l old r : wf_inner r -> unmarshal um_inner old (enc_inner r) = (true, {| raw := None; val := r |}).
Proof. intro W. unfold unmarshal. rewrite (app_nil_end_eq (enc_inner r)). now rewrite um_inner_enc. Qed.
Theorem inner_canonical_l old b o : unmarshal um_inner old b = (true, o) ->
  let e := enc_inner (val o) in
  (length e <= length b)%nat /\ fst (marshal enc_inner o) = e /\
  forall old', unmarshal um_inner old' e = (true, {| raw := None; val := val o |}).
Proof.
  unfold unmarshal. destruct (um_inner (val old) b) as [ok v] eqn:U. intro H. inversion H; subst ok o; clear H.
  cbn [val]. apply um_inner_inv in U. destruct U as (W & tl & ->). split; [apply prefix_len|]. split; [reflexivity|].
  intro old'. now apply inner_dec_enc_l.
Qed.

(** EncapKey *)
Theorem encap_dec_enc_l pkv k : wf_encap pkv k -> dec_encap pkv (enc_encap k) = Some k.
Proof. intro W. rewrite (app_nil_end_eq (enc_encap k)). now apply dec_enc_encap. Qed.
Theorem encap_canonical_l pkv b k : dec_encap pkv b = Some k ->
  (length (enc_encap k) <= length b)%nat /\ dec_encap pkv (enc_encap k) = Some k.
Proof.
  intro H. apply dec_encap_inv in H. destruct H as (W & tl & ->). split; [apply prefix_len|now apply encap_dec_enc_l].
Qed.

(** Generic batch request list *)
Theorem batch_dec_enc_l l : wf_batch l -> dec_batch (enc_batch l) = Some l.
Proof. intro W. rewrite (app_nil_end_eq (enc_batch l)). now apply dec_enc_batch. Qed.
Theorem batch_canonical_l b l : dec_batch b = Some l ->
  (length (enc_batch l) <= length b)%nat /\ dec_batch (enc_batch l) = Some l /\
  Forall (fun it => fst it = 1 \/ fst it = 2) l.
Proof.
  intro H. apply dec_batch_inv in H. destruct H as [W L]. split; [exact L|]. split; [now apply batch_dec_enc_l|].
  destruct W as [F _]. eapply Forall_impl; [|exact F]. intros it [[E _]|[E _]]; auto.
Qed.

(** a list containing an element tagged with another type is rejected, wherever it stands *)
Theorem batch_rejects_other_types_l l1 ty rest fuel :
  Forall wf_bitem l1 -> ty <> 1 -> ty <> 2 -> ty < 65536 ->
  dec_items fuel (concat (map enc_bitem l1) ++ u16 ty ++ rest) = None.
Proof.
  intros F H1 H2 Hty. revert fuel. induction F as [|it l Hit _ IH]; intro fuel.
  - cbn [map concat app]. destruct fuel as [|f]; [reflexivity|].
    unfold u16 at 1. cbn [app dec_items]. change (n2b (ty / 256) :: n2b ty :: rest) with (u16 ty ++ rest).
    rewrite read_u16_app by exact Hty.
    destruct (ty =? 1) eqn:T1; [apply N.eqb_eq in T1; congruence|].
    destruct (ty =? 2) eqn:T2; [apply N.eqb_eq in T2; congruence|]. reflexivity.
  - cbn [map concat]. rewrite <- app_assoc. destruct fuel as [|f].
    + destruct it as [t r]. unfold enc_bitem, enc_req12, u16. reflexivity.
    + destruct it as [t r]. unfold enc_bitem at 1. cbn [fst snd].
      set (R := concat (map enc_bitem l) ++ u16 ty ++ rest) in *.
      assert (Htt : t < 65536) by (destruct Hit as [[E _]|[E _]]; cbn in E; lia).
      assert (Hne : enc_req12 t r ++ R <> []) by (unfold enc_req12, u16; discriminate).
      cbn [dec_items]. destruct (enc_req12 t r ++ R) as [|z zs] eqn:Ez; [congruence|]. rewrite <- Ez.
      replace (read_u16 (enc_req12 t r ++ R)) with (Some (t, u8 (q_keyid r) ++ q_blinded r ++ R))
        by (unfold enc_req12; rewrite <- ?app_assoc; symmetry; apply read_u16_app; exact Htt).
      destruct Hit as [[E W]|[E W]]; cbn [fst snd] in E, W; subst t; cbn [N.eqb Pos.eqb].
      * rewrite um_req12_enc by (try lia; exact W).
        rewrite skipn_app, Nat.sub_diag, skipn_all, skipn_O. cbn [app]. now rewrite IH.
      * rewrite um_req12_enc by (try lia; exact W).
        rewrite skipn_app, Nat.sub_diag, skipn_all, skipn_O. cbn [app]. now rewrite IH.
Qed.

(** Generic batch response list *)
Theorem resps_dec_enc_l l : Forall wf_resp l ->
  N.of_nat (length (concat (map enc_resp_item l))) <= max_varint -> dec_resps (enc_resps l) = Some l.
Proof. intros F M. rewrite (app_nil_end_eq (enc_resps l)). now apply dec_enc_resps. Qed.
Theorem resps_canonical_l b l : dec_resps b = Some l ->
  (length (enc_resps l) <= length b)%nat /\ dec_resps (enc_resps l) = Some l.
Proof.
  intro H. apply dec_resps_inv in H. destruct H as (F & L & M). split; [exact L|now apply resps_dec_enc_l].
Qed.

(** Non-vacuity: concrete well-formed values *)
Example ex_token : wf_token 48 {| t_type := 1; t_nonce := repeat x01 32; t_ctx := repeat x02 32;
                                   t_keyid := repeat x03 32; t_auth := repeat x04 48 |}.
Proof. repeat split; vm_compute; reflexivity. Qed.
Example ex_req1_roundtrip :
  unmarshal12 1 ne1 {| raw := Some [xff]; val := {| q_keyid := 9; q_blinded := [xee] |} |}
              (enc_req12 1 {| q_keyid := 7; q_blinded := repeat xaa 49 |})
  = (true, {| raw := None; val := {| q_keyid := 7; q_blinded := repeat xaa 49 |} |}).
Proof. vm_compute. reflexivity. Qed.
Example ex_batch : dec_batch (enc_batch [(1, {| q_keyid := 7; q_blinded := repeat xaa 49 |});
                                         (2, {| q_keyid := 8; q_blinded := repeat xbb 256 |})])
  = Some [(1, {| q_keyid := 7; q_blinded := repeat xaa 49 |}); (2, {| q_keyid := 8; q_blinded := repeat xbb 256 |})].
Proof. vm_compute. reflexivity. Qed.
Example ex_challenge_wf : wf_challenge {| c_type := 2; c_issuer := [x61]; c_nonce := []; c_origin := [[x61]; [x62]] |}.
Proof.
  unfold wf_challenge; cbn. repeat split; try lia; try discriminate.
  repeat constructor; unfold no_comma; cbn; intros [H|[]]; discriminate.
Qed.
