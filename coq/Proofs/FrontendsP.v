(** No function of Model/Frontends.v can reach [Panic], for any input and any primitives. *)
From PatVerif Require Import Model.Frontends Proofs.QuicwireP Proofs.CodecsP Proofs.BatchCodecsP Proofs.PadP Proofs.AttesterVerifyP.
From Coq Require Import ZifyN ZifyNat ZifyBool.
Open Scope N_scope.

Lemma slice_to_ok s n : (n <= length s)%nat -> slice_to s n = Ok (firstn n s).
Proof. intro H. unfold slice_to. now replace (Nat.ltb (length s) n) with false by (symmetry; apply Nat.ltb_ge; lia). Qed.
Lemma slice_from_ok s n : (n <= length s)%nat -> slice_from s n = Ok (skipn n s).
Proof. intro H. unfold slice_from. now replace (Nat.ltb (length s) n) with false by (symmetry; apply Nat.ltb_ge; lia). Qed.
Lemma slice_ok s a b : (a <= b)%nat -> (b <= length s)%nat -> slice s a b = Ok (firstn (b - a) (skipn a s)).
Proof.
  intros H1 H2. unfold slice.
  replace (Nat.ltb b a) with false by (symmetry; apply Nat.ltb_ge; lia).
  now replace (Nat.ltb (length s) b) with false by (symmetry; apply Nat.ltb_ge; lia).
Qed.

Lemma opt_res_no_panic {A} (o : option A) : opt_res o <> Panic.
Proof. destruct o; discriminate. Qed.

(** * fin1 / fin2 / fin3 *)
Theorem fin1_no_panic_l elt_ok proof_ok finalize ti resp : fin1 elt_ok proof_ok finalize ti resp <> Panic.
Proof.
  unfold fin1. destruct (Nat.ltb (length resp) 49) eqn:E; [discriminate|]. apply Nat.ltb_ge in E.
  rewrite slice_to_ok by exact E. cbn [bind]. destruct (elt_ok _); cbn [negb]; [|discriminate].
  rewrite slice_from_ok by exact E. cbn [bind]. destruct (proof_ok _); cbn [negb]; [|discriminate].
  destruct (finalize _ _); [apply opt_res_no_panic|discriminate].
Qed.

Theorem fin2_no_panic_l rsa_finalize pss_ok ti resp : fin2 rsa_finalize pss_ok ti resp <> Panic.
Proof.
  unfold fin2. destruct (rsa_finalize resp); [|discriminate]. destruct (dec_token _ _); [|discriminate].
  destruct (pss_ok _ _); discriminate.
Qed.

Theorem fin3_no_panic_l aead_open rsa_finalize pss_ok ee ti resp : fin3 aead_open rsa_finalize pss_ok ee ti resp <> Panic.
Proof.
  unfold fin3, response_nonce_len. destruct (Nat.ltb (length resp) 16) eqn:E; [discriminate|]. apply Nat.ltb_ge in E.
  rewrite slice_to_ok by exact E. cbn [bind]. rewrite slice_from_ok by exact E. cbn [bind].
  destruct (aead_open _ _); [apply fin2_no_panic_l|discriminate].
Qed.

(** short responses are answered with an error *)
Theorem fin1_short_l elt_ok proof_ok finalize ti resp : (length resp < 49)%nat -> fin1 elt_ok proof_ok finalize ti resp = Err.
Proof. intro H. unfold fin1. now replace (Nat.ltb (length resp) 49) with true by (symmetry; apply Nat.ltb_lt; lia). Qed.
Theorem fin3_short_l aead_open rsa_finalize pss_ok ee ti resp : (length resp < 16)%nat -> fin3 aead_open rsa_finalize pss_ok ee ti resp = Err.
Proof. intro H. unfold fin3, response_nonce_len. now replace (Nat.ltb (length resp) 16) with true by (symmetry; apply Nat.ltb_lt; lia). Qed.

(** * chunks *)
Lemma chunks_go_ok n s : forall fuel i, (fuel + i = n)%nat -> length s = (32 * n)%nat ->
  exists l, chunks_go fuel i n s = Ok l /\ length l = fuel.
Proof.
  induction fuel as [|f IH]; intros i Hi Hl; cbn [chunks_go].
  - replace (Nat.ltb i n) with false by (symmetry; apply Nat.ltb_ge; lia). exists []. auto.
  - replace (Nat.ltb i n) with true by (symmetry; apply Nat.ltb_lt; lia).
    rewrite slice_ok by lia. cbn [bind].
    destruct (IH (i + 1)%nat ltac:(lia) Hl) as (l & -> & Hlen). cbn [bind]. eexists. split; [reflexivity|]. cbn. lia.
Qed.

Lemma body_mult32 (body : list byte) : Nat.eqb (length body mod 32) 0 = true -> length body = (32 * (length body / 32))%nat.
Proof. intro H. apply Nat.eqb_eq in H. rewrite (Nat.div_mod (length body) 32) at 1 by lia. lia. Qed.

Theorem um_req5_go_no_panic_l data : um_req5_go data <> Panic.
Proof.
  unfold um_req5_go. destruct (read_u16 data) as [[t s1]|] eqn:E1; [|discriminate].
  destruct (t =? 5); cbn [negb]; [|discriminate].
  destruct (read_u8 s1) as [[k s2]|] eqn:E2; [|discriminate].
  apply read_u16_inv in E1. destruct E1 as [-> _]. apply read_u8_inv in E2. destruct E2 as [-> _].
  rewrite slice_from_ok by (cbn; lia). cbn [bind].
  destruct (consume_varint _) as [[l off]|]; [|discriminate].
  destruct (read_bytes off s2) as [[x s3]|]; [|discriminate].
  destruct (N.of_nat (length s3) <? l); [discriminate|].
  destruct (read_bytes (N.to_nat l) s3) as [[body r]|]; [|discriminate].
  destruct (Nat.eqb (length body mod 32) 0) eqn:E5; cbn [negb]; [|discriminate].
  destruct (chunks_go_ok (length body / 32) body (length body / 32) 0 ltac:(lia) (body_mult32 _ E5)) as (l' & -> & _).
  cbn [bind]. discriminate.
Qed.

(** its allocation is linear in the input *)
Theorem um_req5_go_alloc_l data k e c : um_req5_go data = Ok (k, e, c) -> c <= 2 * N.of_nat (length data).
Proof.
  unfold um_req5_go. destruct (read_u16 data) as [[t s1]|] eqn:E1; [|discriminate].
  destruct (t =? 5); cbn [negb]; [|discriminate].
  destruct (read_u8 s1) as [[k0 s2]|] eqn:E2; [|discriminate].
  apply read_u16_inv in E1. destruct E1 as [-> _]. apply read_u8_inv in E2. destruct E2 as [-> _].
  rewrite slice_from_ok by (cbn; lia). cbn [bind].
  destruct (consume_varint _) as [[l off]|]; [|discriminate].
  destruct (read_bytes off s2) as [[x s3]|] eqn:E3; [|discriminate].
  destruct (N.of_nat (length s3) <? l); [discriminate|].
  destruct (read_bytes (N.to_nat l) s3) as [[body r]|] eqn:E4; [|discriminate].
  destruct (Nat.eqb (length body mod 32) 0) eqn:E5; cbn [negb]; [|discriminate].
  pose proof (body_mult32 _ E5) as Hm. set (q := (length body / 32)%nat) in *. clearbody q.
  destruct (chunks_go_ok q body q 0 ltac:(lia) Hm) as (l' & -> & _).
  cbn [bind]. intro H. injection H as _ _ Hc. subst c.
  apply read_bytes_inv in E3. destruct E3 as [-> _]. apply read_bytes_inv in E4. destruct E4 as [-> _].
  rewrite !app_length in *. cbn [length u16 u8]. lia.
Qed.

Lemma skipn_skipn' {A} a b (l : list A) : skipn a (skipn b l) = skipn (a + b) l.
Proof.
  revert l; induction b as [|b IH]; intros l; [now rewrite Nat.add_0_r|].
  destruct l as [|x l]; [now rewrite !skipn_nil|]. cbn [skipn]. rewrite IH.
  now replace (a + S b)%nat with (S (a + b)) by lia.
Qed.

(** it agrees with the codec model used for C04 *)
Lemma chunks_go_eq n s : forall fuel i, (fuel + i = n)%nat -> length s = (32 * n)%nat ->
  chunks_go fuel i n s = Ok (chunks32 fuel (skipn (32 * i) s)).
Proof.
  induction fuel as [|f IH]; intros i Hi Hl; cbn [chunks_go chunks32].
  - now replace (Nat.ltb i n) with false by (symmetry; apply Nat.ltb_ge; lia).
  - replace (Nat.ltb i n) with true by (symmetry; apply Nat.ltb_lt; lia).
    rewrite slice_ok by lia. cbn [bind]. rewrite IH by lia. cbn [bind].
    replace (32 * (i + 1) - 32 * i)%nat with 32%nat by lia.
    rewrite skipn_skipn'. replace (32 + 32 * i)%nat with (32 * (i + 1))%nat by lia. reflexivity.
Qed.

(** * fin5 *)
Theorem fin5_no_panic_l elt_ok proof_ok finalize tis resp :
  (forall elems pf outs, finalize elems pf = Some outs -> length outs = length elems) ->
  fin5 elt_ok proof_ok finalize tis resp <> Panic.
Proof.
  intro Hlen. unfold fin5. destruct (consume_varint resp) as [[l off]|]; [|discriminate].
  destruct (read_bytes off resp) as [[x r1]|]; [|discriminate].
  destruct (N.of_nat (length r1) <? l); [discriminate|].
  destruct (read_bytes (N.to_nat l) r1) as [[body r2]|]; [|discriminate].
  destruct (Nat.eqb (length body mod 32) 0) eqn:E5; cbn [negb]; [|discriminate].
  destruct (Nat.eqb (length body / 32) (length tis)); cbn [negb]; [|discriminate].
  destruct (chunks_go_ok (length body / 32) body (length body / 32) 0 ltac:(lia) (body_mult32 _ E5)) as (el & -> & Hel).
  cbn [bind]. destruct (forallb elt_ok el); cbn [negb]; [|discriminate].
  destruct (read_bytes 64 r2) as [[pf r3]|]; [|discriminate].
  destruct (proof_ok pf); cbn [negb]; [|discriminate].
  destruct (finalize el pf) as [outs|] eqn:F; [|discriminate].
  apply Hlen in F. rewrite F, Hel, Nat.eqb_refl. cbn [negb].
  destruct (fold_right _ _ _); discriminate.
Qed.

(** * batched lists *)
Lemma dec_items_go_no_panic data : forall fuel i, dec_items_go fuel i data <> Panic.
Proof.
  induction fuel as [|f IH]; intro i; cbn [dec_items_go]; destruct (Nat.leb (length data) i) eqn:E; try discriminate.
  apply Nat.leb_gt in E.
  destruct (Nat.ltb (length data - i) 2) eqn:E2; [discriminate|]. apply Nat.ltb_ge in E2.
  rewrite slice_ok by lia. cbn [bind].
  destruct (be_dec _ =? 1); [|destruct (be_dec _ =? 2); [|discriminate]].
  - rewrite slice_from_ok by lia. cbn [bind]. destruct (um_req12 _ _ _ _) as [[|] r]; [|discriminate].
    specialize (IH (i + length (enc_req12 1 r))%nat). destruct (dec_items_go f _ data); [discriminate|discriminate|congruence].
  - rewrite slice_from_ok by lia. cbn [bind]. destruct (um_req12 _ _ _ _) as [[|] r]; [|discriminate].
    specialize (IH (i + length (enc_req12 2 r))%nat). destruct (dec_items_go f _ data); [discriminate|discriminate|congruence].
Qed.

Theorem dec_batch_go_no_panic_l data : dec_batch_go data <> Panic.
Proof.
  unfold dec_batch_go. destruct (consume_varint data) as [[l off]|] eqn:E; [|discriminate].
  destruct (N.of_nat (length data - off) <? l) eqn:E2; [discriminate|]. apply N.ltb_ge in E2.
  pose proof (consume_varint_le _ _ _ E) as Hoff.
  rewrite slice_ok by lia. cbn [bind]. apply dec_items_go_no_panic.
Qed.

Theorem dec_resps_go_no_panic_l data : dec_resps_go data <> Panic.
Proof.
  unfold dec_resps_go. destruct (consume_varint data) as [[l off]|] eqn:E; [|discriminate].
  destruct (N.of_nat (length data - off) <? l) eqn:E2; [discriminate|]. apply N.ltb_ge in E2.
  pose proof (consume_varint_le _ _ _ E) as Hoff.
  rewrite slice_ok by lia. cbn [bind]. apply opt_res_no_panic.
Qed.

Theorem dec_resps_go_eq_l data : dec_resps_go data = opt_res (dec_resps data).
Proof.
  unfold dec_resps_go, dec_resps. destruct (consume_varint data) as [[l off]|] eqn:E; [|reflexivity].
  destruct (N.of_nat (length data - off) <? l) eqn:E2; [reflexivity|]. apply N.ltb_ge in E2.
  pose proof (consume_varint_le _ _ _ E) as Hoff.
  rewrite slice_ok by lia. cbn [bind]. replace (off + N.to_nat l - off)%nat with (N.to_nat l) by lia. reflexivity.
Qed.

(** * unpad *)
Lemma last_nonzero_spec p : forall fuel i, (-1 <= i)%Z -> (i < Z.of_nat (length p))%Z -> (Z.to_nat (i + 1) <= fuel)%nat ->
  exists j, last_nonzero fuel p i = Ok j /\ (-1 <= j <= i)%Z.
Proof.
  induction fuel as [|f IH]; intros i H1 H2 H3; cbn [last_nonzero].
  - assert (i = (-1)%Z) by lia. subst. cbn. exists (-1)%Z. split; [reflexivity|lia].
  - destruct (i <? 0)%Z eqn:E; [exists i; split; [reflexivity|lia]|]. apply Z.ltb_ge in E.
    unfold index. destruct (nth_error p (Z.to_nat i)) as [b|] eqn:En.
    + cbn [bind]. destruct (byte_eqb b x00); cbn [negb]; [|exists i; split; [reflexivity|lia]].
      destruct (IH (i - 1)%Z ltac:(lia) ltac:(lia) ltac:(lia)) as (j & -> & Hj). exists j. split; [reflexivity|lia].
    + apply nth_error_None in En. lia.
Qed.

Theorem unpad_go_no_panic_l p : unpad_go p <> Panic.
Proof.
  unfold unpad_go.
  destruct (last_nonzero_spec p (S (length p)) (Z.of_nat (length p) - 1) ltac:(lia) ltac:(lia) ltac:(lia)) as (j & -> & Hj).
  cbn [bind]. destruct (j <? 0)%Z eqn:E; [discriminate|]. apply Z.ltb_ge in E.
  rewrite slice_ok by lia. discriminate.
Qed.

(** * issuer.Evaluate *)
Theorem eval3_no_panic_l hpke_open cfg kid parse_pk sig_verify registered sign_and_seal data :
  eval3 hpke_open cfg kid parse_pk sig_verify registered sign_and_seal data <> Panic.
Proof.
  unfold eval3. destruct (um_req3 _ data) as [[|] r] eqn:U; [|discriminate].
  apply um_req3_inv in U. destruct U as [(Hk & Hn & Hne & Hf & Hs) _].
  unfold decrypt_go. destruct (Nat.ltb (length (q3_enc r)) 32) eqn:E; [discriminate|]. apply Nat.ltb_ge in E.
  rewrite slice_ok by lia. cbn [bind]. rewrite slice_from_ok by lia. cbn [bind].
  destruct (hpke_open _ _ _) as [[pt secret]|]; [|discriminate].
  destruct (um_inner _ pt) as [[|] ir]; cbn [bind fst snd].
  - pose proof (unpad_go_no_panic_l (in_padded ir)) as Hu. destruct (unpad_go (in_padded ir)) as [name| |]; [|discriminate|congruence].
    cbn [bind]. destruct (registered name); cbn [negb]; [|discriminate].
    destruct (parse_pk _); cbn [negb]; [|discriminate].
    rewrite slice_to_ok by lia. cbn [bind]. rewrite slice_from_ok by lia. cbn [bind].
    rewrite Hf. cbn [negb]. destruct (sig_verify _ _ _); cbn [negb]; [|discriminate].
    rewrite ?slice_ok by lia. cbn [bind]. apply opt_res_no_panic.
  - cbn [in_padded]. change (unpad_go []) with (@Ok (list byte) []). cbn [bind].
    destruct (registered []); cbn [negb]; [|discriminate].
    destruct (parse_pk _); cbn [negb]; [|discriminate].
    rewrite slice_to_ok by lia. cbn [bind]. rewrite slice_from_ok by lia. cbn [bind].
    rewrite Hf. cbn [negb]. destruct (sig_verify _ _ _); cbn [negb]; [|discriminate].
    rewrite ?slice_ok by lia. cbn [bind]. apply opt_res_no_panic.
Qed.

(** a response is returned only after all of: complete parse, decryption, registered origin, valid signature *)
Theorem eval3_ok_implies_l hpke_open cfg kid parse_pk sig_verify registered sign_and_seal data out :
  eval3 hpke_open cfg kid parse_pk sig_verify registered sign_and_seal data = Ok out ->
  exists r ir secret,
    um_req3 {| q3_key := []; q3_nkid := []; q3_enc := []; q3_sig := [] |} data = (true, r) /\ data = enc_req3 r /\
    decrypt_go hpke_open cfg kid (q3_key r) (q3_enc r) = Ok (ir, secret) /\
    (exists name, unpad_go (in_padded ir) = Ok name /\ registered name = true) /\
    parse_pk (q3_key r) = true /\
    sig_verify (q3_key r) (signed_message r) (q3_sig r) = true /\
    sign_and_seal r ir secret = Some out.
Proof.
  unfold eval3. destruct (um_req3 _ data) as [[|] r] eqn:U; [|discriminate].
  pose proof (um_req3_inv _ _ _ U) as [_ Hdata].
  destruct (decrypt_go hpke_open cfg kid (q3_key r) (q3_enc r)) as [[ir secret]| |] eqn:D; cbn [bind]; try discriminate.
  cbn [fst snd]. destruct (unpad_go (in_padded ir)) as [name| |] eqn:Un; cbn [bind]; try discriminate.
  destruct (registered name) eqn:R; cbn [negb]; [|discriminate].
  destruct (parse_pk (q3_key r)) eqn:Pk; cbn [negb]; [|discriminate].
  destruct (slice_to (q3_sig r) 48); cbn [bind]; try discriminate.
  destruct (slice_from (q3_sig r) 48); cbn [bind]; try discriminate.
  destruct (fits16 (q3_enc r)); cbn [negb]; [|discriminate].
  destruct (sig_verify _ _ _) eqn:Sv; cbn [negb]; [|discriminate].
  destruct (slice (q3_enc r) 0 32); cbn [bind]; try discriminate.
  destruct (sign_and_seal r ir secret) as [o|] eqn:SS; cbn [opt_res]; [|discriminate].
  intro H. inversion H; subst o. exists r, ir, secret. repeat split; auto. exists name. auto.
Qed.

(** * attester *)
Theorem finalize_index_no_panic_l parse_pk unblind s ck blind brk anon :
  finalize_index parse_pk unblind s ck blind brk anon <> Panic.
Proof. unfold finalize_index. destruct (parse_pk brk); cbn [negb]; [|discriminate]. destruct (unblind _ _ _); discriminate. Qed.

Theorem verify_request_no_panic_l parse_pk sig_verify blind_pk s r blind ck :
  fits16 (q3_enc r) = true ->
  fst (fst (verify_request parse_pk sig_verify blind_pk s r blind ck)) <> Panic.
Proof.
  intro Hf. unfold verify_request, inner_verify. destruct (parse_pk (q3_key r)); cbn [negb]; [|discriminate].
  destruct (Nat.eqb _ 96); cbn [negb]; [|discriminate]. rewrite Hf. cbn [negb].
  destruct (sig_verify _ _ _); [|discriminate].
  destruct (parse_pk ck); cbn [negb]; [|discriminate].
  destruct (bytes_eqb _ _); cbn [negb]; [|discriminate]. destruct (s ck); discriminate.
Qed.

Theorem consume_varint_bytes_never_panics_l b : match consume_varint_bytes b with Panic => False | _ => True end.
Proof. pose proof (consume_varint_bytes_safe_l b) as H. destruct (consume_varint_bytes b) as [[[v n]|]| |]; auto. Qed.

(** * C07: tampering with an accepted request, under idealised integrity hypotheses *)
Section Tamper.
  Variable hpke_open : list byte -> list byte -> list byte -> option (list byte * list byte).
  Variables cfg kid : list byte.
  Variable parse_pk : list byte -> bool.
  Variable sig_verify : list byte -> list byte -> list byte -> bool.
  Variable registered : list byte -> bool.
  Variable sign_and_seal : req3 -> inner -> list byte -> option (list byte * list byte).
  Notation ev := (eval3 hpke_open cfg kid parse_pk sig_verify registered sign_and_seal).

  Variable r0 : req3.       (* the honest, accepted request *)
  (** signature unforgeability, idealised for the request key of r0: the only message/signature pair
      that verifies under it is the one the honest client produced *)
  Hypothesis unforgeable : forall msg sig, sig_verify (q3_key r0) msg sig = true ->
    msg = signed_message r0 /\ sig = q3_sig r0.
  (** AEAD integrity with associated data, idealised: the honest ciphertext opens under no other request key *)
  Hypothesis aad_binding : forall key', key' <> q3_key r0 -> length key' = 49%nat ->
    hpke_open (firstn 32 (q3_enc r0)) (aad cfg kid key') (skipn 32 (q3_enc r0)) = None.

  Theorem tamper_rejected_l data' out :
    wf_req3 r0 -> ev data' = Ok out ->
    forall r', um_req3 {| q3_key := []; q3_nkid := []; q3_enc := []; q3_sig := [] |} data' = (true, r') ->
    (q3_key r' = q3_key r0 \/ q3_enc r' = q3_enc r0) -> data' = enc_req3 r0.
  Proof.
    intros W0 Hev r' U Hsingle.
    destruct (eval3_ok_implies_l _ _ _ _ _ _ _ _ _ Hev) as (r & ir & secret & U' & Hdata & D & _ & Pk & Sv & _).
    rewrite U in U'. inversion U'; subst r. clear U'.
    pose proof (um_req3_inv _ _ _ U) as [W' _].
    destruct W0 as (K0 & N0 & Ne0 & F0 & S0). destruct W' as (K' & N' & Ne' & F' & S').
    destruct (list_eq_dec Byte.byte_eq_dec (q3_key r') (q3_key r0)) as [Ek|Nk].
    - rewrite Ek in Sv. destruct (unforgeable _ _ Sv) as [Hm Hs].
      destruct (signed_message_inj r' r0 K' K0 N' N0 F' F0 Hm) as (E1 & E2 & E3).
      rewrite Hdata. destruct r', r0; cbn in *; now subst.
    - destruct Hsingle as [E|E]; [congruence|].
      exfalso. unfold decrypt_go in D. rewrite E in D.
      destruct (Nat.ltb (length (q3_enc r0)) 32) eqn:L; [discriminate|]. apply Nat.ltb_ge in L.
      rewrite slice_ok in D by lia. cbn [bind] in D. rewrite slice_from_ok in D by lia. cbn [bind] in D.
      replace (32 - 0)%nat with 32%nat in D by lia. change (skipn 0 (q3_enc r0)) with (q3_enc r0) in D.
      rewrite (aad_binding _ Nk K') in D. discriminate.
  Qed.
End Tamper.

Lemma decrypt_binds_l hpke_open cfg kid key ect ir secret :
  decrypt_go hpke_open cfg kid key ect = Ok (ir, secret) ->
  (32 <= length ect)%nat /\
  exists pt, hpke_open (firstn 32 ect) (cfg ++ u16 3 ++ key ++ kid) (skipn 32 ect) = Some (pt, secret) \/
             (exists s', hpke_open (firstn 32 ect) (cfg ++ u16 3 ++ key ++ kid) (skipn 32 ect) = Some (pt, s')).
Proof.
  unfold decrypt_go, aad. destruct (Nat.ltb (length ect) 32) eqn:L; [discriminate|]. apply Nat.ltb_ge in L.
  rewrite slice_ok by lia. cbn [bind]. rewrite slice_from_ok by lia. cbn [bind].
  replace (32 - 0)%nat with 32%nat by lia. change (skipn 0 ect) with ect.
  destruct (hpke_open _ _ _) as [[pt s']|] eqn:H; [|discriminate]. intros _. split; [exact L|].
  exists pt. right. exists s'. reflexivity.
Qed.
