#!/bin/bash
# coverage.sh [tier] — statement coverage of /repo's packages by the correspondence harness (all properties, one tier).
# A development aid for finding code the generators never reach; not part of any registered check.
# Writes tools/coverage.txt (per-package percentages and the uncovered blocks).
tier=${1:-quick}
cd "$(dirname "$0")/.."
export GOFLAGS=-mod=mod GOPROXY=off GOSUMDB=off GOTOOLCHAIN=local
W=$(mktemp -d /tmp/verifcov.XXXXXX)
trap 'rm -rf "$W"' EXIT
( cd harness && go build -cover -coverpkg=github.com/cloudflare/pat-go/...,verif/harness/... -tags verif -o $W/implrun-cover ./cmd/implrun ) || exit 2
for i in $(seq -w 1 20); do
  id=C$i; mkdir -p $W/$id
  GOCOVERDIR=$W/$id VERIF_RUNNER=$PWD/bin/runner VERIF_JOURNAL=$W/j.$id timeout 3000 $W/implrun-cover -prop $id -tier $tier -seed 20260926 -cases $W/$id.cases -result $W/$id.json >/dev/null 2>&1
  rm -f $W/$id.cases
done
dirs=$(ls -d $W/C?? | tr '\n' ',' | sed 's/,$//')
( cd harness && go tool covdata percent -i=$dirs | grep pat-go | sed 's/^\s*//' ) > tools/coverage.txt
( cd harness && go tool covdata textfmt -i=$dirs -o $W/all.txt )
python3 - $W/all.txt >> tools/coverage.txt <<'PY'
import re,sys,collections
cov={}
for l in open(sys.argv[1]):
    if l.startswith('mode'): continue
    m=re.match(r'(.*):(\d+)\.(\d+),(\d+)\.(\d+) (\d+) (\d+)',l)
    f,sl,sc,el,ec,n,c=m.groups()
    k=(f,int(sl),int(el)); cov[k]=cov.get(k,0)+int(c)
byf=collections.defaultdict(list)
for k,v in sorted(cov.items()):
    if v==0 and 'pat-go' in k[0] and 'verif_hooks' not in k[0]: byf[k[0]].append(k)
print("\nuncovered blocks (file: line ranges)")
for f,ks in byf.items():
    print(f.replace('github.com/cloudflare/pat-go/',''), ' '.join('%d-%d'%(k[1],k[2]) for k in ks))
PY
cat tools/coverage.txt
