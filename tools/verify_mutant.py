#!/usr/bin/env python3
"""verify_mutant.py <mutant dir with patch.diff demo_test.go meta.json> — confirm in a scratch worktree that the
patch applies, builds, keeps the existing suite green, and that the demo passes without / fails with the patch."""
import sys, os, json, subprocess, shutil
d = os.path.abspath(sys.argv[1])
meta = json.load(open(os.path.join(d, "meta.json")))
env = dict(os.environ, GOFLAGS="-mod=mod", GOPROXY="off", GOSUMDB="off", GOTOOLCHAIN="local")
wt = "/tmp/mutv_%d" % os.getpid()
def sh(cmd, cwd=wt):
    p = subprocess.run(cmd, shell=True, cwd=cwd, env=env, stdout=subprocess.PIPE, stderr=subprocess.STDOUT, text=True, errors="replace")
    return p.returncode, p.stdout
subprocess.check_call("git -C /repo worktree add --detach %s HEAD -q" % wt, shell=True)
res = {}
try:
    demo_dst = os.path.join(wt, meta["demo_dir"], "zz_demo_verif_test.go")
    rc, out = sh("git apply --check %s/patch.diff" % d); res["applies"] = rc == 0
    if rc: res["apply_out"] = out[-400:]
    shutil.copy(os.path.join(d, "demo_test.go"), demo_dst)
    rc, out = sh(meta["demo_run"]); res["demo_passes_unpatched"] = rc == 0
    if rc: res["demo_unpatched_out"] = out[-600:]
    os.remove(demo_dst)
    rc, out = sh("git apply %s/patch.diff" % d)
    rc, out = sh("go build ./... && go test -vet=off -count=1 ./..."); res["suite_passes_patched"] = rc == 0
    if rc: res["suite_out"] = out[-600:]
    shutil.copy(os.path.join(d, "demo_test.go"), demo_dst)
    rc, out = sh(meta["demo_run"]); res["demo_fails_patched"] = rc != 0
    res["demo_patched_tail"] = out[-300:]
finally:
    subprocess.call("git -C /repo worktree remove --force %s" % wt, shell=True)
res["ok"] = all(res.get(k) for k in ("applies", "demo_passes_unpatched", "suite_passes_patched", "demo_fails_patched"))
print(json.dumps(res, indent=1))
sys.exit(0 if res["ok"] else 1)
