package main

import (
	"bytes"
	stdecdsa "crypto/ecdsa"
	stded "crypto/ed25519"
	"crypto/elliptic"
	crand "crypto/rand"
	"crypto/rsa"
	"crypto/sha256"
	"encoding/json"
	"fmt"
	"math/big"
	"os"
	"os/exec"
	"path/filepath"
	"regexp"
	"runtime"
	"strings"
	"sync"

	"github.com/cloudflare/circl/oprf"
	"github.com/cloudflare/pat-go/ecdsa"
	"github.com/cloudflare/pat-go/ed25519"
	"github.com/cloudflare/pat-go/tokens"
	"github.com/cloudflare/pat-go/tokens/batched"
	"github.com/cloudflare/pat-go/tokens/type1"
	"github.com/cloudflare/pat-go/tokens/type2"
	"github.com/cloudflare/pat-go/tokens/type3"
	"github.com/cloudflare/pat-go/tokens/type5"
	"verif/harness/internal/deep"
	"verif/harness/internal/h"
)

func init() { props["C17"] = runC17 }

// c17Op: one kind of concurrent use of one shared object. mk builds a FRESH shared object (first use matters);
// call performs the operation with per-call arguments derived from i and returns the deterministic part of its result.
type c17Op struct {
	name string
	mk   func() any
	call func(shared any, i int) []byte
}

type c17Fix struct {
	seed1, seed5 []byte
	chal         []byte
	nonces       [][]byte
	edSeed       []byte
	ecD, ecB     []byte
	t3seed       []byte
}

func detBytes(tag string, i, n int) []byte {
	var out []byte
	for ctr := 0; len(out) < n; ctr++ {
		s := sha256.Sum256([]byte(fmt.Sprintf("%s/%d/%d", tag, i, ctr)))
		out = append(out, s[:]...)
	}
	return out[:n]
}

type t1Shared struct {
	iss *type1.BasicPrivateIssuer
}
type t5Shared struct {
	iss *type5.BatchedPrivateIssuer
}
type t2Shared struct {
	iss *type2.BasicPublicIssuer
}
type t3Shared struct {
	env *t3env
}
type batchShared struct {
	iss  *batched.BasicBatchedIssuer
	i1   *type1.BasicPrivateIssuer
	i2   *type2.BasicPublicIssuer
	kid1 []byte
	kid2 []byte
}
type ecShared struct {
	sk, bk *ecdsa.PrivateKey
}
type edShared struct {
	priv  ed25519.PrivateKey
	pub   ed25519.PublicKey
	blind []byte // shared blind slice, with spare capacity
}

func c17Ops(c *h.Ctx) []c17Op {
	seed1, seed5 := detBytes("seed1", 0, 32), detBytes("seed5", 0, 32)
	mk1 := func() any {
		sk, _ := oprf.DeriveKey(oprf.SuiteP384, oprf.VerifiableMode, seed1, nil)
		return &t1Shared{type1.NewBasicPrivateIssuer(sk)}
	}
	mk5 := func() any {
		sk, _ := oprf.DeriveKey(oprf.SuiteRistretto255, oprf.VerifiableMode, seed5, nil)
		return &t5Shared{type5.NewBatchedPrivateIssuer(sk)}
	}
	// requests / tokens prepared against separate issuer objects with the same keys
	p1 := mk1().(*t1Shared).iss
	kid1 := p1.TokenKeyID()
	pk1 := p1.TokenKey()
	p5 := mk5().(*t5Shared).iss
	kid5 := p5.TokenKeyID()
	pk5 := p5.TokenKey()
	key2 := rsaKey(0)
	kid2 := type2.NewBasicPublicIssuer(key2).TokenKeyID()
	chal := detBytes("chal", 0, 20)
	const nPrep = 8
	var req1 [nPrep]*type1.BasicPrivateTokenRequest
	var tok1 [nPrep]tokens.Token
	var req5 [nPrep]*type5.BatchedPrivateTokenRequest
	var tok5 [nPrep]tokens.Token
	var req2 [nPrep]*type2.BasicPublicTokenRequest
	var resp2 [nPrep][]byte
	for i := 0; i < nPrep; i++ {
		st, _ := type1.NewBasicPrivateClient().CreateTokenRequest(chal, detBytes("n1", i, 32), kid1, pk1)
		req1[i] = st.Request()
		r, _ := p1.Evaluate(st.Request())
		tok1[i], _ = st.FinalizeToken(r)
		s5, _ := type5.NewBatchedPrivateClient().CreateTokenRequest(chal, [][]byte{detBytes("n5", i, 32), detBytes("n5b", i, 32)}, kid5, pk5)
		req5[i] = s5.Request()
		r5, _ := p5.Evaluate(s5.Request())
		t5, _ := s5.FinalizeTokens(r5)
		tok5[i] = t5[0]
		s2, _ := type2.NewBasicPublicClient().CreateTokenRequest(chal, detBytes("n2", i, 32), kid2, &key2.PublicKey)
		req2[i] = s2.Request()
		resp2[i], _ = type2.NewBasicPublicIssuer(key2).Evaluate(s2.Request())
	}
	t3seed := detBytes("t3", 0, 32)
	mk3 := func() any {
		return &t3Shared{newT3(c, 0, t3seed, map[string][]byte{"origin.example": detBytes("ik", 0, 48)})}
	}
	env0 := mk3().(*t3Shared).env
	var req3 [nPrep][]byte
	for i := 0; i < nPrep; i++ {
		cl := type3.NewRateLimitedClientFromSecret(detBytes("c3", i, 48))
		st, err := env0.request(cl, chal, detBytes("n3", i, 32), detBytes("b3", i, 48), "origin.example")
		if err == nil {
			req3[i] = st.Request().Marshal()
		}
	}
	// well-formed requests for origins the issuer does not serve: refused after decryption, each with its own origin
	var req3u [nPrep][]byte
	for i := 0; i < nPrep; i++ {
		cl := type3.NewRateLimitedClientFromSecret(detBytes("c3u", i, 48))
		st, err := env0.request(cl, chal, detBytes("n3u", i, 32), detBytes("b3u", i, 48), fmt.Sprintf("unserved-%d.example", i))
		if err == nil {
			req3u[i] = st.Request().Marshal()
		}
	}
	curve := elliptic.P384()
	mkEC := func() any {
		sk, _ := ecdsa.CreateKey(curve, detBytes("ecsk", 0, 48))
		bk, _ := ecdsa.CreateKey(curve, detBytes("ecbk", 0, 48))
		return &ecShared{sk, bk}
	}
	ec0 := mkEC().(*ecShared)
	ecDigest := detBytes("digest", 0, 48)
	ecR, ecS, _ := ecdsa.Sign(crand.Reader, ec0.sk, ecDigest)
	ecSigA, _ := ecdsa.SignASN1(crand.Reader, ec0.sk, ecDigest)
	mkED := func() any {
		priv := ed25519.NewKeyFromSeed(detBytes("edseed", 0, 32))
		buf := make([]byte, 32, 96)
		copy(buf, detBytes("edblind", 0, 32))
		return &edShared{priv, ed25519.PublicKey(priv[32:]), buf}
	}
	ed0 := mkED().(*edShared)
	edMsg := detBytes("edmsg", 0, 40)
	edSig := ed25519.Sign(ed0.priv, edMsg)
	mkBatch := func() any {
		a := mk1().(*t1Shared).iss
		b := type2.NewBasicPublicIssuer(key2)
		return &batchShared{batched.NewBasicBatchedIssuer(wrap1{a}, wrap2{b}), a, b, kid1, kid2}
	}
	k := func(i int) int { return ((i % nPrep) + nPrep) % nPrep }
	// requests the issuers refuse: undecodable / identity / short blinded elements
	bad1 := []*type1.BasicPrivateTokenRequest{
		{TokenKeyID: kid1[31], BlindedReq: bytes.Repeat([]byte{0xff}, 49)},
		{TokenKeyID: kid1[31], BlindedReq: []byte{0}},
		{TokenKeyID: kid1[31], BlindedReq: req1[0].BlindedReq[:20]},
		{TokenKeyID: kid1[31], BlindedReq: nil},
	}
	bad5 := []*type5.BatchedPrivateTokenRequest{
		{TokenKeyID: kid5[31], BlindedReq: [][]byte{bytes.Repeat([]byte{0xff}, 32)}},
		{TokenKeyID: kid5[31], BlindedReq: [][]byte{req5[0].BlindedReq[0], make([]byte, 32)}},
		{TokenKeyID: kid5[31], BlindedReq: [][]byte{req5[0].BlindedReq[0][:7]}},
		{TokenKeyID: kid5[31], BlindedReq: nil},
	}
	return []c17Op{
		{"type1.TokenKeyID", mk1, func(s any, i int) []byte { return s.(*t1Shared).iss.TokenKeyID() }},
		{"type1.TokenKey", mk1, func(s any, i int) []byte { b, _ := s.(*t1Shared).iss.TokenKey().MarshalBinary(); return b }},
		{"type1.Evaluate", mk1, func(s any, i int) []byte { _, err := s.(*t1Shared).iss.Evaluate(req1[k(i)]); return okErr(err) }},
		{"type1.Verify", mk1, func(s any, i int) []byte { return okErr(s.(*t1Shared).iss.Verify(tok1[k(i)])) }},
		{"type1.mixed", mk1, func(s any, i int) []byte {
			is := s.(*t1Shared).iss
			switch i % 3 {
			case 0:
				return is.TokenKeyID()
			case 1:
				_, err := is.Evaluate(req1[k(i)])
				return okErr(err)
			}
			return okErr(is.Verify(tok1[k(i)]))
		}},
		// histories: the shared issuer has REFUSED requests before / between the concurrent calls (error paths must leave
		// it as shareable as successes do)
		{"type1.Evaluate-after-refusals", func() any {
			s := mk1().(*t1Shared)
			for _, b := range bad1 {
				s.iss.Evaluate(b)
			}
			return s
		}, func(s any, i int) []byte { _, err := s.(*t1Shared).iss.Evaluate(req1[k(i)]); return okErr(err) }},
		{"type1.mixed-with-refusals", mk1, func(s any, i int) []byte {
			is := s.(*t1Shared).iss
			switch i % 4 {
			case 0:
				_, err := is.Evaluate(bad1[k(i)%len(bad1)])
				return okErr(err)
			case 1:
				_, err := is.Evaluate(req1[k(i)])
				return okErr(err)
			case 2:
				bt := tok1[k(i)]
				bt.Authenticator = append([]byte{}, bt.Authenticator...)
				bt.Authenticator[0] ^= 1
				return okErr(is.Verify(bt))
			}
			return okErr(is.Verify(tok1[k(i)]))
		}},
		{"type5.Evaluate-after-refusals", func() any {
			s := mk5().(*t5Shared)
			for _, b := range bad5 {
				s.iss.Evaluate(b)
			}
			return s
		}, func(s any, i int) []byte { _, err := s.(*t5Shared).iss.Evaluate(req5[k(i)]); return okErr(err) }},
		{"type5.mixed-with-refusals", mk5, func(s any, i int) []byte {
			is := s.(*t5Shared).iss
			switch i % 3 {
			case 0:
				_, err := is.Evaluate(bad5[k(i)%len(bad5)])
				return okErr(err)
			case 1:
				_, err := is.Evaluate(req5[k(i)])
				return okErr(err)
			}
			return okErr(is.Verify(tok5[k(i)]))
		}},
		{"type5.TokenKeyID", mk5, func(s any, i int) []byte { return s.(*t5Shared).iss.TokenKeyID() }},
		{"type5.Evaluate", mk5, func(s any, i int) []byte { _, err := s.(*t5Shared).iss.Evaluate(req5[k(i)]); return okErr(err) }},
		{"type5.Verify", mk5, func(s any, i int) []byte { return okErr(s.(*t5Shared).iss.Verify(tok5[k(i)])) }},
		{"type5.mixed", mk5, func(s any, i int) []byte {
			is := s.(*t5Shared).iss
			switch i % 3 {
			case 0:
				return is.TokenKeyID()
			case 1:
				_, err := is.Evaluate(req5[k(i)])
				return okErr(err)
			}
			return okErr(is.Verify(tok5[k(i)]))
		}},
		{"type2.TokenKeyID", func() any { return &t2Shared{type2.NewBasicPublicIssuer(key2)} }, func(s any, i int) []byte { return s.(*t2Shared).iss.TokenKeyID() }},
		{"type2.Evaluate", func() any { return &t2Shared{type2.NewBasicPublicIssuer(key2)} }, func(s any, i int) []byte {
			r, err := s.(*t2Shared).iss.Evaluate(req2[k(i)])
			if err != nil {
				return []byte("err")
			}
			return r
		}},
		// a key assembled from its components (N, E, D, primes) with nothing precomputed: the issuer must still only READ it
		{"type2.Evaluate (key without precomputed values)", func() any {
			bare := &rsa.PrivateKey{PublicKey: rsa.PublicKey{N: new(big.Int).Set(key2.N), E: key2.E}, D: new(big.Int).Set(key2.D),
				Primes: []*big.Int{new(big.Int).Set(key2.Primes[0]), new(big.Int).Set(key2.Primes[1])}}
			return &t2Shared{type2.NewBasicPublicIssuer(bare)}
		}, func(s any, i int) []byte {
			r, err := s.(*t2Shared).iss.Evaluate(req2[k(i)])
			if err != nil {
				return []byte("err")
			}
			return r
		}},
		{"type3.TokenKeyID+NameKey", mk3, func(s any, i int) []byte {
			e := s.(*t3Shared).env
			return cat(e.issuer.TokenKeyID(), e.issuer.NameKey().Marshal())
		}},
		{"type3.Evaluate", mk3, func(s any, i int) []byte {
			_, _, err := s.(*t3Shared).env.issuer.Evaluate(req3[k(i)])
			return okErr(err)
		}},
		{"type3.Evaluate (refusals for unserved origins, mixed with served requests)", mk3, func(s any, i int) []byte {
			in := req3u[k(i)]
			if i%3 == 2 {
				in = req3[k(i)]
			}
			_, _, err := s.(*t3Shared).env.issuer.Evaluate(in)
			if err != nil {
				return []byte(err.Error()) // the refusal names the origin of THIS request
			}
			return okErr(err)
		}},
		// a batch issuer whose list holds an issuer that REFUSES (same type and key id) before the one that serves
		{"batched.EvaluateBatch (refusing issuer first)", func() any {
			a := mk1().(*t1Shared).iss
			b := type2.NewBasicPublicIssuer(key2)
			return &batchShared{batched.NewBasicBatchedIssuer(refuser{wrap1{a}, nil}, wrap1{a}, refuser{wrap2{b}, nil}, wrap2{b}), a, b, kid1, kid2}
		}, func(s any, i int) []byte {
			b := s.(*batchShared)
			br, err := batched.NewBasicClient().CreateTokenRequest([]tokens.TokenRequestWithDetails{req1[k(i)], req2[k(i)], req1[k(i+1)]})
			if err != nil {
				return []byte("client-err")
			}
			out, err := b.iss.EvaluateBatch(br)
			if err != nil {
				return []byte("err")
			}
			l, err := batched.UnmarshalBatchedTokenResponses(out)
			if err != nil || len(l) != 3 || len(l[0]) != 145 || !bytes.Equal(l[1], resp2[k(i)]) || len(l[2]) != 145 {
				return []byte("bad-response")
			}
			return []byte("ok")
		}},
		{"batched.EvaluateBatch", mkBatch, func(s any, i int) []byte {
			b := s.(*batchShared)
			br, err := batched.NewBasicClient().CreateTokenRequest([]tokens.TokenRequestWithDetails{req1[k(i)], req2[k(i)], req1[k(i+1)]})
			if err != nil {
				return []byte("client-err")
			}
			out, err := b.iss.EvaluateBatch(br)
			if err != nil {
				return []byte("err")
			}
			l, err := batched.UnmarshalBatchedTokenResponses(out)
			if err != nil || len(l) != 3 || len(l[0]) != 145 || !bytes.Equal(l[1], resp2[k(i)]) || len(l[2]) != 145 {
				return []byte("bad-response")
			}
			return []byte("ok")
		}},
		{"ecdsa.Sign", mkEC, func(s any, i int) []byte {
			e := s.(*ecShared)
			d := detBytes("dg", i, 48)
			r, ss, err := ecdsa.Sign(crand.Reader, e.sk, d)
			if err != nil || !ecdsa.Verify(&e.sk.PublicKey, d, r, ss) {
				return []byte("bad")
			}
			return []byte("ok")
		}},
		{"ecdsa.SignASN1", mkEC, func(s any, i int) []byte {
			e := s.(*ecShared)
			d := detBytes("dg", i, 48)
			sig, err := ecdsa.SignASN1(crand.Reader, e.sk, d)
			if err != nil || !ecdsa.VerifyASN1(&e.sk.PublicKey, d, sig) {
				return []byte("bad")
			}
			return []byte("ok")
		}},
		{"ecdsa.Verify", mkEC, func(s any, i int) []byte { return flagB(ecdsa.Verify(&s.(*ecShared).sk.PublicKey, ecDigest, ecR, ecS)) }},
		{"ecdsa.VerifyASN1", mkEC, func(s any, i int) []byte {
			return flagB(ecdsa.VerifyASN1(&s.(*ecShared).sk.PublicKey, ecDigest, ecSigA))
		}},
		{"ecdsa.BlindPublicKeyWithContext", mkEC, func(s any, i int) []byte {
			e := s.(*ecShared)
			p, err := ecdsa.BlindPublicKeyWithContext(curve, &e.sk.PublicKey, e.bk, []byte("ctx"))
			if err != nil {
				return []byte("err")
			}
			return cat(p.X.Bytes(), p.Y.Bytes())
		}},
		{"ecdsa.UnblindPublicKeyWithContext", mkEC, func(s any, i int) []byte {
			e := s.(*ecShared)
			p, err := ecdsa.UnblindPublicKeyWithContext(curve, &e.sk.PublicKey, e.bk, []byte("ctx"))
			if err != nil {
				return []byte("err")
			}
			return cat(p.X.Bytes(), p.Y.Bytes())
		}},
		{"ecdsa.BlindKeySignWithContext", mkEC, func(s any, i int) []byte {
			e := s.(*ecShared)
			d := detBytes("dg", i, 48)
			r, ss, err := ecdsa.BlindKeySignWithContext(crand.Reader, e.sk, e.bk, d, []byte("ctx"))
			if err != nil {
				return []byte("err")
			}
			pb, _ := ecdsa.BlindPublicKeyWithContext(curve, &e.sk.PublicKey, e.bk, []byte("ctx"))
			return flagB(ecdsa.Verify(pb, d, r, ss))
		}},
		{"ed25519.Sign", mkED, func(s any, i int) []byte { return ed25519.Sign(s.(*edShared).priv, detBytes("m", i, 30)) }},
		{"ed25519.Verify", mkED, func(s any, i int) []byte { return flagB(ed25519.Verify(s.(*edShared).pub, edMsg, edSig)) }},
		{"ed25519.BlindPublicKeyWithContext", mkED, func(s any, i int) []byte {
			e := s.(*edShared)
			p, _ := ed25519.BlindPublicKeyWithContext(e.pub, e.blind, detBytes("ctx", i, 10))
			return p
		}},
		{"ed25519.UnblindPublicKeyWithContext", mkED, func(s any, i int) []byte {
			e := s.(*edShared)
			p, _ := ed25519.UnblindPublicKeyWithContext(e.pub, e.blind, detBytes("ctx", i, 10))
			return p
		}},
		{"ed25519.BlindKeySignWithContext", mkED, func(s any, i int) []byte {
			e := s.(*edShared)
			return ed25519.BlindKeySignWithContext(e.priv, detBytes("m", i, 30), e.blind, detBytes("ctx", i, 10))
		}},
		{"ed25519.mixed-first-use", mkED, func(s any, i int) []byte {
			e := s.(*edShared)
			switch i % 3 {
			case 0:
				return ed25519.NewKeyFromSeed(detBytes("seed", i, 32))
			case 1:
				return ed25519.Sign(e.priv, detBytes("m", i, 30))
			}
			return ed25519.BlindKeySignWithContext(e.priv, detBytes("m", i, 30), e.blind, nil)
		}},
	}
}

type c17RaceResult struct {
	Op        string `json:"op"`
	Calls     int    `json:"calls"`
	Wrong     int    `json:"wrong"`
	Panics    int    `json:"panics"`
	FirstDiff string `json:"first_diff"`
}

// c17Child runs the concurrent leg (meant for the binary built with -race): for each operation, several rounds of
// goroutines released together on a FRESH shared object, results compared with the sequential ones.
func c17Child(c *h.Ctx) {
	if fu := os.Getenv("VERIF_C17_FIRSTUSE"); fu != "" {
		c17FirstUse(c, fu)
		return
	}
	ops := c17Ops(c)
	only := os.Getenv("VERIF_C17_OP")
	rounds, G, K := 3, 8, 3
	if c.Thorough() {
		rounds, G, K = 40, 16, 4
	}
	var results []c17RaceResult
	for _, op := range ops {
		if only != "" && only != op.name {
			continue
		}
		fmt.Fprintf(os.Stderr, "\n@@OP %s\n", op.name)
		// sequential reference on its own object
		ref := map[int][]byte{}
		seq := op.mk()
		for i := 0; i < G*K; i++ {
			ref[i] = op.call(seq, i)
		}
		res := c17RaceResult{Op: op.name}
		for r := 0; r < rounds; r++ {
			if c.Thorough() {
				runtime.GOMAXPROCS([]int{16, 2, 4, 8, 1}[r%5])
			}
			shared := op.mk()
			var wg sync.WaitGroup
			start := make(chan struct{})
			var mu sync.Mutex
			for g := 0; g < G; g++ {
				wg.Add(1)
				go func(g int) {
					defer wg.Done()
					<-start
					for k := 0; k < K; k++ {
						i := g*K + k
						var out []byte
						pan, _ := h.Protect(func() { out = op.call(shared, i) })
						mu.Lock()
						res.Calls++
						if pan {
							res.Panics++
						} else if !bytes.Equal(out, ref[i]) {
							res.Wrong++
							if res.FirstDiff == "" {
								res.FirstDiff = fmt.Sprintf("call %d: got %s want %s", i, h.Hex(out[:minInt(len(out), 24)]), h.Hex(ref[i][:minInt(len(ref[i]), 24)]))
							}
						}
						mu.Unlock()
					}
				}(g)
			}
			close(start)
			wg.Wait()
		}
		runtime.GOMAXPROCS(runtime.NumCPU())
		results = append(results, res)
		fmt.Fprintf(os.Stderr, "\n@@END %s\n", op.name)
	}
	b, _ := json.Marshal(results)
	fmt.Printf("@@RESULTS %s\n", b)
}

var raceHdr = regexp.MustCompile(`WARNING: DATA RACE`)

func runC17(c *h.Ctx) {
	if os.Getenv("VERIF_C17_CHILD") == "1" {
		c17Child(c)
		return
	}
	c17ModelSemantics(c)
	ops := c17Ops(c)
	// ---- leg 1: footprint on the shared object, schedule independent ----------------------------------------------------
	for _, op := range ops {
		shared := op.mk()
		h0, l0 := deep.Snapshot(shared)
		r0 := op.call(shared, 0)
		h1, l1 := deep.Snapshot(shared)
		r1 := op.call(shared, 1)
		op.call(shared, 0)
		h2, l2 := deep.Snapshot(shared)
		c.Count("footprint:"+op.name, 3, op.name)
		// A footprint that is not read-only takes the operation out of the premise of the footprint theorems
		// (readonly_race_free, readers_sequentially_consistent): the property is then no longer SHOWN to hold by them.
		// It is not by itself a failing schedule — a write may be synchronised (sync.Once, a mutex, an atomic) — so it
		// is reported as a broken correspondence; the race-detector legs below search for the failing schedule.
		if h0 != h1 {
			c.Mismatch("footprint premise of the concurrency theorems: the FIRST call of an operation writes to the shared object (lazily initialised state)", map[string]any{"operation": op.name, "changed": deep.Diff(l0, l1)})
		}
		if h1 != h2 {
			c.Mismatch("footprint premise of the concurrency theorems: a later call of an operation writes to the shared object", map[string]any{"operation": op.name, "changed": deep.Diff(l1, l2)})
		}
		again := op.call(op.mk(), 0)
		if !bytes.Equal(r0, again) {
			c.Violation("the harness operation is not a deterministic function of its index (harness bug)", map[string]any{"operation": op.name})
		}
		_ = r1
	}
	// ---- leg 2: the same operations from many goroutines under the race detector -------------------------------------------
	exe, _ := os.Executable()
	race := filepath.Join(filepath.Dir(exe), "implrun-race")
	if _, err := os.Stat(race); err != nil {
		c.Notes["race_leg"] = "bin/implrun-race not built; race leg skipped"
		c.Violation("the race-detector leg could not run (bin/implrun-race missing)", nil)
		return
	}
	tmp, _ := os.MkdirTemp("", "c17")
	defer os.RemoveAll(tmp)
	cmd := exec.Command(race, "-prop", "C17", "-tier", c.Tier, "-seed", fmt.Sprint(c.Seed), "-cases", filepath.Join(tmp, "cases"), "-result", filepath.Join(tmp, "result"))
	cmd.Env = append(os.Environ(), "VERIF_C17_CHILD=1", "GORACE=halt_on_error=0 history_size=3")
	var stdout, stderr bytes.Buffer
	cmd.Stdout, cmd.Stderr = &stdout, &stderr
	err := cmd.Run()
	out := stdout.String()
	var results []c17RaceResult
	if i := strings.Index(out, "@@RESULTS "); i >= 0 {
		json.Unmarshal([]byte(strings.SplitN(out[i+10:], "\n", 2)[0]), &results)
	}
	if len(results) == 0 {
		c.Violation("the race-detector leg did not complete", map[string]any{"err": fmt.Sprint(err), "stderr_tail": tail(stderr.String(), 1500)})
		return
	}
	// attribute race reports to operations by the markers
	races := map[string]int{}
	first := map[string]string{}
	cur := ""
	for _, block := range strings.Split(stderr.String(), "\n@@") {
		if strings.HasPrefix(block, "OP ") {
			cur = strings.TrimSpace(strings.SplitN(block[3:], "\n", 2)[0])
		}
		n := len(raceHdr.FindAllString(block, -1))
		if n > 0 && cur != "" {
			races[cur] += n
			if first[cur] == "" {
				j := strings.Index(block, "WARNING: DATA RACE")
				first[cur] = c17Frames(block[j:])
			}
		}
	}
	total := 0
	for _, r := range results {
		c.Count("race:"+r.Op, r.Calls, "race:"+r.Op)
		total += r.Calls
		if races[r.Op] > 0 {
			c.Violation("concurrent calls on a shared issuer / key are free of data races (Go race detector)", map[string]any{"operation": r.Op, "reports": races[r.Op], "first_report": first[r.Op]})
		}
		if r.Wrong > 0 || r.Panics > 0 {
			c.Violation("every concurrent call produces a result that a sequential call with the same arguments could have produced", map[string]any{"operation": r.Op, "wrong": r.Wrong, "panics": r.Panics, "first": r.FirstDiff})
		}
	}
	c.Notes["race_leg_calls"] = total
	c.Notes["race_leg_operations"] = len(results)
	// ---- leg 3: FIRST use in a process (package-level tables behind sync.Once) — one fresh process per scenario ----------------
	reps := 2
	if c.Thorough() {
		reps = 12
	}
	for _, sc := range []string{"ed25519", "ecdsa", "type1", "type5", "type2", "type3"} {
		for r := 0; r < reps; r++ {
			cmd := exec.Command(race, "-prop", "C17", "-tier", c.Tier, "-seed", fmt.Sprint(c.Seed+int64(r)), "-cases", filepath.Join(tmp, "cases"), "-result", filepath.Join(tmp, "result"))
			cmd.Env = append(os.Environ(), "VERIF_C17_CHILD=1", "VERIF_C17_FIRSTUSE="+sc, "GORACE=halt_on_error=0 history_size=3")
			var so, se bytes.Buffer
			cmd.Stdout, cmd.Stderr = &so, &se
			cmd.Run()
			c.Count("first-use:"+sc, 1, "first-use:"+sc)
			nr := len(raceHdr.FindAllString(se.String(), -1))
			if nr > 0 {
				j := strings.Index(se.String(), "WARNING: DATA RACE")
				c.Violation("concurrent calls are free of data races from the first use in a process onwards (Go race detector)", map[string]any{"scenario": sc, "reports": nr, "first_report": c17Frames(se.String()[j:])})
				break
			}
			if !strings.Contains(so.String(), "@@FIRSTUSE ok") {
				c.Violation("every concurrent call produces a result that a sequential call could have produced (first use in a process)", map[string]any{"scenario": sc, "output": tail(so.String(), 400), "stderr": tail(se.String(), 400)})
				break
			}
		}
	}
}

// c17FirstUse: the very first uses of the library in this process happen concurrently. References come from the Go
// standard library / circl, never from pat-go, so that nothing is initialised before the goroutines start.
func c17FirstUse(c *h.Ctx, scenario string) {
	const G = 8
	var wg sync.WaitGroup
	start := make(chan struct{})
	var mu sync.Mutex
	bad := 0
	fail := func() { mu.Lock(); bad++; mu.Unlock() }
	work := func(g int) {}
	switch scenario {
	case "ed25519":
		seed := detBytes("edseed", 0, 32)
		stdPriv := stded.NewKeyFromSeed(seed)
		blind := detBytes("blind", 0, 32)
		work = func(g int) {
			for k := 0; k < 3; k++ {
				msg := detBytes("m", g*10+k, 33)
				switch (g + k) % 3 {
				case 0:
					if !bytes.Equal(ed25519.NewKeyFromSeed(seed), stdPriv) {
						fail()
					}
				case 1:
					if !bytes.Equal(ed25519.Sign(ed25519.PrivateKey(stdPriv), msg), stded.Sign(stdPriv, msg)) {
						fail()
					}
				case 2:
					sig := ed25519.BlindKeySignWithContext(ed25519.PrivateKey(stdPriv), msg, blind, []byte("c"))
					pk, err := ed25519.BlindPublicKeyWithContext(ed25519.PublicKey(stdPriv[32:]), blind, []byte("c"))
					if err != nil || !stded.Verify(stded.PublicKey(pk), msg, sig) {
						fail()
					}
				}
			}
		}
	case "ecdsa":
		curve := elliptic.P384()
		std, _ := stdecdsa.GenerateKey(curve, crand.Reader)
		sk := &ecdsa.PrivateKey{PublicKey: ecdsa.PublicKey{Curve: curve, X: std.X, Y: std.Y}, D: std.D}
		work = func(g int) {
			for k := 0; k < 3; k++ {
				d := detBytes("d", g*10+k, 48)
				r, s, err := ecdsa.Sign(crand.Reader, sk, d)
				if err != nil || !stdecdsa.Verify(&std.PublicKey, d, r, s) || !ecdsa.Verify(&sk.PublicKey, d, r, s) {
					fail()
				}
			}
		}
	case "type1", "type5":
		suite := oprf.SuiteP384
		if scenario == "type5" {
			suite = oprf.SuiteRistretto255
		}
		sk, _ := oprf.DeriveKey(suite, oprf.VerifiableMode, detBytes("seed", 0, 32), nil)
		var kid func() []byte
		var eval func(g int) bool
		if scenario == "type1" {
			is := type1.NewBasicPrivateIssuer(sk)
			kid = is.TokenKeyID
			eval = func(g int) bool {
				st, err := type1.NewBasicPrivateClient().CreateTokenRequest([]byte("c"), detBytes("n", g, 32), is.TokenKeyID(), is.TokenKey())
				if err != nil {
					return false
				}
				r, err := is.Evaluate(st.Request())
				if err != nil {
					return false
				}
				t, err := st.FinalizeToken(r)
				return err == nil && is.Verify(t) == nil
			}
		} else {
			is := type5.NewBatchedPrivateIssuer(sk)
			kid = is.TokenKeyID
			eval = func(g int) bool {
				st, err := type5.NewBatchedPrivateClient().CreateTokenRequest([]byte("c"), [][]byte{detBytes("n", g, 32)}, is.TokenKeyID(), is.TokenKey())
				if err != nil {
					return false
				}
				r, err := is.Evaluate(st.Request())
				if err != nil {
					return false
				}
				t, err := st.FinalizeTokens(r)
				return err == nil && len(t) == 1 && is.Verify(t[0]) == nil
			}
		}
		pkb, _ := sk.Public().MarshalBinary()
		want := sha256.Sum256(pkb)
		work = func(g int) {
			if !bytes.Equal(kid(), want[:]) || !eval(g) {
				fail()
			}
		}
	case "type2":
		key, _ := rsa.GenerateKey(crand.Reader, 2048)
		is := type2.NewBasicPublicIssuer(key)
		work = func(g int) {
			nonce, chal := detBytes("n", g, 32), []byte("c")
			st, err := type2.NewBasicPublicClient().CreateTokenRequest(chal, nonce, is.TokenKeyID(), is.TokenKey())
			if err != nil {
				fail()
				return
			}
			r, err := is.Evaluate(st.Request())
			if err != nil {
				fail()
				return
			}
			t, err := st.FinalizeToken(r)
			if err != nil || !pssOK(&key.PublicKey, cat(u16b(2), nonce, sha256Bytes(chal), is.TokenKeyID()), t.Authenticator) {
				fail()
			}
		}
	case "type3":
		env := newT3(c, 0, detBytes("t3", 0, 32), map[string][]byte{"origin.example": detBytes("ik", 0, 48)})
		work = func(g int) {
			cl := type3.NewRateLimitedClientFromSecret(detBytes("c3", g, 48))
			nonce, chal := detBytes("n", g, 32), []byte("c")
			st, err := env.request(cl, chal, nonce, detBytes("b", g, 48), "origin.example")
			if err != nil {
				fail()
				return
			}
			r, _, err := env.issuer.Evaluate(st.Request().Marshal())
			if err != nil {
				fail()
				return
			}
			t, err := st.FinalizeToken(r)
			if err != nil || !pssOK(&env.key.PublicKey, cat(u16b(3), nonce, sha256Bytes(chal), env.tokenKeyID), t.Authenticator) {
				fail()
			}
		}
	}
	for g := 0; g < G; g++ {
		wg.Add(1)
		go func(g int) {
			defer wg.Done()
			<-start
			if pan, _ := h.Protect(func() { work(g) }); pan {
				fail()
			}
		}(g)
	}
	close(start)
	wg.Wait()
	if bad == 0 {
		fmt.Println("@@FIRSTUSE ok")
	} else {
		fmt.Println("@@FIRSTUSE wrong results:", bad)
	}
}

func tail(s string, n int) string {
	if len(s) > n {
		return s[len(s)-n:]
	}
	return s
}

// c17Frames extracts the function names of the two conflicting accesses from a race report.
func c17Frames(rep string) string {
	var fr []string
	for _, ln := range strings.Split(rep, "\n") {
		t := strings.TrimSpace(ln)
		if strings.HasPrefix(t, "Write at") || strings.HasPrefix(t, "Read at") || strings.HasPrefix(t, "Previous write at") || strings.HasPrefix(t, "Previous read at") {
			fr = append(fr, "| "+strings.SplitN(t, " by ", 2)[0])
		} else if strings.Contains(t, "(") && !strings.HasPrefix(t, "/") && !strings.HasPrefix(t, "Goroutine") && len(fr) > 0 && len(fr) < 14 {
			fr = append(fr, strings.SplitN(t, "(", 2)[0])
		}
		if strings.HasPrefix(t, "Goroutine") {
			break
		}
	}
	return strings.Join(fr, " ")
}

// c17ModelSemantics executes random schedules of reads, writes and sync.Once initialisations with real Go variables
// and real sync.Once objects (in the order the schedule gives) and compares with the model's interleaving semantics.
func c17ModelSemantics(c *h.Ctx) {
	show := func(set bool, v uint16) []byte {
		if !set {
			return []byte{0}
		}
		return []byte{1, byte(v >> 8), byte(v)}
	}
	for n := 0; n < 300; n++ {
		var cells [8]struct {
			set  bool
			v    uint16
			once sync.Once
		}
		var args, outs [][]byte
		steps := 1 + c.Rng.Intn(14)
		for s := 0; s < steps; s++ {
			t, k, l, v := byte(c.Rng.Intn(4)), byte(c.Rng.Intn(3)), c.Rng.Intn(4), uint16(1+c.Rng.Intn(60000))
			args = append(args, []byte{t, k, byte(l), byte(v >> 8), byte(v)})
			cell := &cells[l]
			switch k {
			case 0:
				outs = append(outs, show(cell.set, cell.v))
			case 1:
				cell.set, cell.v = true, v
				outs = append(outs, show(true, v))
			case 2:
				// once.Do initialises the cell only if nobody did; a cell already written plainly keeps its value:
				// the model's Once looks at the cell, so the Go side does the same through a once per location
				if !cell.set {
					cell.once.Do(func() { cell.set, cell.v = true, v })
				}
				outs = append(outs, show(cell.set, cell.v))
			}
		}
		for l := 0; l < 8; l++ {
			outs = append(outs, show(cells[l].set, cells[l].v))
		}
		c.Case("model:interleaving-semantics", true, "conc_run", args, outs)
	}
}
