(** EdPoint.v — the edwards25519 points of ed25519/internal/edwards25519/edwards25519.go on top of Model/Fe.v:
    extended coordinates (X:Y:Z:T), the cached and P1xP1 intermediate forms, Add, Subtract, Double (through projP2 as
    the scalar multiplications do), Negate, Equal, the encoding (Bytes) and decoding (SetBytes).  The scalar
    multiplications of scalarmult.go (signed 4-bit windows over tables, constant-time selection) are NOT mirrored:
    [pt_mul] is the plain double-and-add, the specification they are compared with through the hooks. *)
From Coq Require Import NArith List.
From PatVerif Require Export Model.Fe Model.Ed25519.
Import ListNotations.
Open Scope N_scope.

Record point := mkpt { px : fe; py : fe; pz : fe; pt : fe }.
Record p1xp1 := mkp1 { qX : fe; qY : fe; qZ : fe; qT : fe }.
Record cached := mkca { cYplusX : fe; cYminusX : fe; cZ : fe; cT2d : fe }.

(** d = -121665/121666 and 2d, as the package computes them from the byte string *)
Definition ed_d_bytes : list byte :=
  map n2b [0xa3; 0x78; 0x59; 0x13; 0xca; 0x4d; 0xeb; 0x75; 0xab; 0xd8; 0x41; 0x41; 0x4d; 0x0a; 0x70; 0x00;
           0x98; 0xe8; 0x79; 0x77; 0x79; 0x40; 0xc7; 0x8c; 0x73; 0xfe; 0x6f; 0x2b; 0xee; 0x6c; 0x03; 0x52].
Definition ed_d : fe := Eval vm_compute in fe_set_bytes ed_d_bytes.
Definition ed_d2 : fe := Eval vm_compute in fe_add ed_d ed_d.

Definition cached_of (p : point) : cached :=
  mkca (fe_add (py p) (px p)) (fe_sub (py p) (px p)) (pz p) (fe_mul (pt p) ed_d2).

Definition p1_add (p : point) (q : cached) : p1xp1 :=
  let YplusX := fe_add (py p) (px p) in
  let YminusX := fe_sub (py p) (px p) in
  let PP := fe_mul YplusX (cYplusX q) in
  let MM := fe_mul YminusX (cYminusX q) in
  let TT2d := fe_mul (pt p) (cT2d q) in
  let ZZ2 := fe_mul (pz p) (cZ q) in
  let ZZ2 := fe_add ZZ2 ZZ2 in
  mkp1 (fe_sub PP MM) (fe_add PP MM) (fe_add ZZ2 TT2d) (fe_sub ZZ2 TT2d).

Definition p1_sub (p : point) (q : cached) : p1xp1 :=
  let YplusX := fe_add (py p) (px p) in
  let YminusX := fe_sub (py p) (px p) in
  let PP := fe_mul YplusX (cYminusX q) in
  let MM := fe_mul YminusX (cYplusX q) in
  let TT2d := fe_mul (pt p) (cT2d q) in
  let ZZ2 := fe_mul (pz p) (cZ q) in
  let ZZ2 := fe_add ZZ2 ZZ2 in
  mkp1 (fe_sub PP MM) (fe_add PP MM) (fe_sub ZZ2 TT2d) (fe_add ZZ2 TT2d).

(** projP1xP1.Double of the projP2 (X, Y, Z) of a point *)
Definition p1_double (X Y Z : fe) : p1xp1 :=
  let XX := fe_square X in
  let YY := fe_square Y in
  let ZZ2 := fe_square Z in
  let ZZ2 := fe_add ZZ2 ZZ2 in
  let XplusYsq := fe_square (fe_add X Y) in
  let vY := fe_add YY XX in
  let vZ := fe_sub YY XX in
  mkp1 (fe_sub XplusYsq vY) vY vZ (fe_sub ZZ2 vZ).

Definition of_p1 (r : p1xp1) : point :=
  mkpt (fe_mul (qX r) (qT r)) (fe_mul (qY r) (qZ r)) (fe_mul (qZ r) (qT r)) (fe_mul (qX r) (qY r)).

Definition pt_add (p q : point) : point := of_p1 (p1_add p (cached_of q)).
Definition pt_sub (p q : point) : point := of_p1 (p1_sub p (cached_of q)).
Definition pt_double (p : point) : point := of_p1 (p1_double (px p) (py p) (pz p)).
Definition pt_neg (p : point) : point := mkpt (fe_neg (px p)) (py p) (pz p) (fe_neg (pt p)).
Definition pt_identity : point := mkpt fe_zero fe_one fe_one fe_zero.

Definition pt_equal (v u : point) : bool :=
  fe_equal (fe_mul (px v) (pz u)) (fe_mul (px u) (pz v)) && fe_equal (fe_mul (py v) (pz u)) (fe_mul (py u) (pz v)).

(** Bytes: y = Y/Z little-endian, the sign of x = X/Z in the top bit *)
Definition set_top_bit (l : list byte) (b : N) : list byte :=
  firstn 31 l ++ [n2b (N.lor (b2n (nth 31 l x00)) (N.shiftl b 7))].
Definition pt_bytes (v : point) : list byte :=
  let zInv := fe_invert (pz v) in
  let x := fe_mul (px v) zInv in
  let y := fe_mul (py v) zInv in
  set_top_bit (fe_bytes y) (fe_is_negative x).

(** SetBytes: None when the y coordinate has no x (the 32-byte length is the caller's check) *)
Definition pt_set_bytes (x : list byte) : option point :=
  let y := fe_set_bytes x in
  let y2 := fe_square y in
  let u := fe_sub y2 fe_one in
  let vv := fe_add (fe_mul y2 ed_d) fe_one in
  let '(xx, wasSquare) := fe_sqrt_ratio u vv in
  if wasSquare then
    let xx := fe_select (fe_neg xx) xx (N.eqb (N.shiftr (b2n (nth 31 x x00)) 7) 1) in
    Some (mkpt xx y fe_one (fe_mul xx y))
  else None.

(** plain double-and-add over the bits of n, most significant first: the specification of [n]P *)
Fixpoint pt_mul_bits (bits : list bool) (acc p : point) : point :=
  match bits with
  | [] => acc
  | b :: r => let a2 := pt_double acc in pt_mul_bits r (if b then pt_add a2 p else a2) p
  end.
Definition bits_msb (n : N) : list bool :=
  rev (map (N.testbit n) (map N.of_nat (seq 0 (N.to_nat (N.size n))))).
Definition pt_mul (n : N) (p : point) : point := pt_mul_bits (bits_msb n) pt_identity p.

Definition ed_base_bytes : list byte := n2b 0x58 :: repeat (n2b 0x66) 31.
Definition ed_base : point :=
  Eval vm_compute in match pt_set_bytes ed_base_bytes with Some p => p | None => pt_identity end.

(** RFC 8032 key derivation, signing and verification entirely inside the model (SHA-512 of Base/Hash.v, scalars
    modulo L, the points above): what ed25519.NewKeyFromSeed / Sign / Verify compute, byte for byte *)
Definition edm_public (seed : list byte) : list byte := pt_bytes (pt_mul (ed_secret_scalar seed) ed_base).
Definition edm_sign (seed msg : list byte) : list byte :=
  let s := ed_secret_scalar seed in
  let A := edm_public seed in
  let r := ed_nonce (ed_prefix seed) msg in
  let R := pt_bytes (pt_mul r ed_base) in
  ed_signature R A msg s r.
Definition edm_verify (pk msg sig : list byte) : bool :=
  if negb (Nat.eqb (length sig) 64) then false
  else if negb (N.eqb (N.land (b2n (nth 63 sig x00)) 224) 0) then false
  else match pt_set_bytes pk with
       | None => false
       | Some A =>
         let R := firstn 32 sig in
         let S := skipn 32 sig in
         if negb (is_reduced S) then false
         else
           let k := ed_hram R pk msg in
           let R' := pt_add (pt_mul k (pt_neg A)) (pt_mul (le_val S) ed_base) in
           bytes_eqb R (pt_bytes R')
       end.
(** key-blinded public key and unblinding: [factor]A and [factor^-1]A *)
Definition edm_scalar_mult (n : N) (pk : list byte) : option (list byte) :=
  match pt_set_bytes pk with Some A => Some (pt_bytes (pt_mul n A)) | None => None end.
