#!/bin/bash
# usage: dbg.sh File.v LINE  — prints goals just before the last tactic on LINE (inserts Show. before the tactic at error col)
f=$1; l=$2; c=$3
python3 - "$f" "$l" "$c" <<'PY'
import sys
f,l,c=sys.argv[1],int(sys.argv[2]),int(sys.argv[3])
L=open(f).read().split('\n')
L[l-1]=L[l-1][:c]+" Show. "+L[l-1][c:]
open('/tmp/dbg.v','w').write('\n'.join(L))
PY
coqc -Q /verif/coq PatVerif /tmp/dbg.v 2>&1 | head -${4:-40}
