From Coq Require Import Field Ring.
From PatVerif Require Import Model.Issuance Proofs.CodecsP Proofs.AlgebraP Proofs.TokenVerifyP Proofs.BatchCodecsP Proofs.QuicwireP Model.Quicwire.
From Coq Require Import ZifyN ZifyNat ZifyBool.
Open Scope N_scope.

Section Type1P.
  Variable F : Type.
  Variables (f0 f1 : F) (fadd fmul fsub : F -> F -> F) (fopp : F -> F) (fdiv : F -> F -> F) (finv : F -> F).
  Variable feqb : F -> F -> bool.
  Hypothesis Fth : field_theory f0 f1 fadd fmul fsub fopp fdiv finv (@eq F).
  Hypothesis feqb_spec : forall a b, feqb a b = true <-> a = b.
  Add Field Ff1 : Fth.
  Variable h256 : list byte -> list byte.
  Variable h2g : list byte -> F.
  Variable enc_elt : F -> list byte.
  Variable dec_elt : list byte -> option F.
  Variable fin : list byte -> F -> list byte.
  Variable prove : F -> F -> F -> list byte -> list byte.
  Variable dleq_ok : F -> F -> F -> list byte -> bool.
  Hypothesis h256_len : forall x, length (h256 x) = 32%nat.
  Hypothesis dec_enc_elt : forall e, dec_elt (enc_elt e) = Some e.
  Hypothesis enc_elt_len : forall e, length (enc_elt e) = 49%nat.
  Hypothesis fin_len : forall i e, length (fin i e) = 48%nat.

  Notation create1 := (create1 F fmul h256 h2g enc_elt).
  Notation evaluate1 := (evaluate1 F f0 fmul feqb enc_elt dec_elt prove).
  Notation finalize1 := (finalize1 F fmul finv dec_elt fin dleq_ok).
  Notation run1 := (run1 F f0 f1 fmul finv feqb h256 h2g enc_elt dec_elt fin prove dleq_ok).
  Notation token_input := (token_input h256).
  Notation s_input := (s_input F). Notation s_blind := (s_blind F). Notation s_blinded := (s_blinded F).
  Notation s_pk := (s_pk F). Notation s_req := (s_req F).

  Lemma token_of_input ty nonce challenge keyid out nk :
    ty < 65536 -> length nonce = 32%nat -> length keyid = 32%nat -> length out = nk ->
    dec_token nk (token_input ty nonce challenge keyid ++ out) =
    Some {| t_type := ty; t_nonce := nonce; t_ctx := h256 challenge; t_keyid := keyid; t_auth := out |}.
  Proof.
    clear dec_enc_elt enc_elt_len fin_len feqb_spec.
    intros Hty Hn Hk Ho.
    set (t := {| t_type := ty; t_nonce := nonce; t_ctx := h256 challenge; t_keyid := keyid; t_auth := out |}).
    assert (E : token_input ty nonce challenge keyid ++ out = enc_token t ++ []).
    { unfold Issuance.token_input, enc_token, t. cbn [t_type t_nonce t_ctx t_keyid t_auth]. now rewrite app_nil_r, <- !app_assoc. }
    rewrite E. apply dec_enc_token. unfold wf_token, t. cbn. repeat split; auto.
  Qed.

  Lemma firstn_enc e r : firstn 49 (enc_elt e ++ r) = enc_elt e.
  Proof. rewrite <- (enc_elt_len e). now rewrite firstn_app, Nat.sub_diag, firstn_O, app_nil_r, firstn_all. Qed.
  Lemma skipn_enc e r : skipn 49 (enc_elt e ++ r) = r.
  Proof. rewrite <- (enc_elt_len e). now rewrite skipn_app, Nat.sub_diag, skipn_O, skipn_all. Qed.

  (** completeness of the DLEQ proof system, the only property of it the honest run needs *)
  Hypothesis dleq_complete : forall k b rnd, dleq_ok (fmul k f1) b (fmul k b) (prove k b (fmul k b) rnd) = true.
  Hypothesis proof_len : forall k b ev rnd, length (prove k b ev rnd) = 96%nat.

  Lemma firstn_proof k b ev rnd : firstn 96 (prove k b ev rnd) = prove k b ev rnd.
  Proof. rewrite <- (proof_len k b ev rnd). apply firstn_all. Qed.

  Theorem honest_type1_l k beta rnd nonce challenge keyid :
    length nonce = 32%nat -> length keyid = 32%nat -> beta <> f0 ->
    h2g (token_input 1 nonce challenge keyid) <> f0 ->
    let input := token_input 1 nonce challenge keyid in
    let tok := {| t_type := 1; t_nonce := nonce; t_ctx := h256 challenge; t_keyid := keyid;
                  t_auth := fin input (fmul k (h2g input)) |} in
    run1 k beta rnd nonce challenge keyid = Some tok /\
    verify (full_evaluate F fmul h2g fin k) tok = true /\
    enc_token tok = u16 1 ++ nonce ++ h256 challenge ++ keyid ++ fin input (fmul k (h2g input)) /\
    length (t_auth tok) = 48%nat.
  Proof.
    intros Hn Hk Hb Hx input tok. split; [|split; [|split]].
    - unfold Issuance.run1, Issuance.create1. cbn [s_req s_input s_blind s_blinded s_pk]. fold input.
      rewrite <- (app_nil_r (enc_req12 1 _)).
      rewrite um_req12_enc; [|lia|split; [cbn [q_keyid]; apply b2n_lt|cbn [q_blinded]; apply enc_elt_len]].
      unfold Issuance.evaluate1. cbn [q_blinded]. rewrite dec_enc_elt.
      assert (Hnz : fmul beta (h2g input) <> f0) by (apply (mul_nonzero F f0 f1 fadd fmul fsub fopp fdiv finv Fth); assumption).
      rewrite (feqb_false F feqb feqb_spec _ _ Hnz).
      unfold Issuance.finalize1. cbn [s_input s_blind s_blinded s_pk].
      rewrite app_length, enc_elt_len, proof_len. cbn [Nat.ltb Nat.leb plus].
      replace (Nat.ltb (49 + 96) 49) with false by reflexivity.
      rewrite firstn_enc, dec_enc_elt, skipn_enc.
      rewrite proof_len. replace (Nat.ltb 96 96) with false by reflexivity.
      rewrite firstn_proof, dleq_complete. cbn [negb].
      replace (fmul (finv beta) (fmul k (fmul beta (h2g input)))) with (fmul k (h2g input)) by (field; exact Hb).
      apply token_of_input; auto; lia.
    - apply verify_iff_l. unfold full_evaluate, auth_input, tok. cbn. reflexivity.
    - reflexivity.
    - apply fin_len.
  Qed.

  (** C02, type 1: whatever bytes come back, a token is output only if the response carries a DLEQ-accepted
      evaluation; the token then has the request's fields and the unblinded output as authenticator *)
  Theorem finalize1_ok_implies_l s resp tok nonce challenge keyid :
    s_input s = token_input 1 nonce challenge keyid -> length nonce = 32%nat -> length keyid = 32%nat ->
    finalize1 s resp = Some tok ->
    exists ev, dec_elt (firstn 49 resp) = Some ev /\ (145 <= length resp)%nat /\
               dleq_ok (s_pk s) (s_blinded s) ev (firstn 96 (skipn 49 resp)) = true /\
               tok = {| t_type := 1; t_nonce := nonce; t_ctx := h256 challenge; t_keyid := keyid;
                        t_auth := fin (s_input s) (fmul (finv (s_blind s)) ev) |}.
  Proof.
    clear dleq_complete proof_len dec_enc_elt enc_elt_len feqb_spec.
    intros Hi Hn Hk. unfold Issuance.finalize1.
    destruct (Nat.ltb (length resp) 49) eqn:L; [discriminate|]. apply Nat.ltb_ge in L.
    destruct (dec_elt (firstn 49 resp)) as [ev|]; [|discriminate].
    destruct (Nat.ltb (length (skipn 49 resp)) 96) eqn:L2; [discriminate|]. apply Nat.ltb_ge in L2.
    destruct (dleq_ok (s_pk s) (s_blinded s) ev (firstn 96 (skipn 49 resp))) eqn:D; cbn [negb]; [|discriminate].
    rewrite Hi, token_of_input by (auto; lia). intros [= <-].
    exists ev. repeat split; auto. rewrite skipn_length in L2. lia.
  Qed.

  (** ... and under DLEQ soundness (accepted proofs imply ev = k * blinded for the pinned key k * 1) that token
      verifies under the issuer's key *)
  Theorem finalize1_sound_l k beta nonce challenge keyid resp tok :
    (forall b ev pf, dleq_ok (fmul k f1) b ev pf = true -> ev = fmul k b) ->
    length nonce = 32%nat -> length keyid = 32%nat -> beta <> f0 ->
    finalize1 (create1 (fmul k f1) beta nonce challenge keyid) resp = Some tok ->
    verify (full_evaluate F fmul h2g fin k) tok = true /\
    t_nonce tok = nonce /\ t_ctx tok = h256 challenge /\ t_keyid tok = keyid /\ t_type tok = 1.
  Proof.
    clear dleq_complete proof_len dec_enc_elt enc_elt_len feqb_spec.
    intros Hsound Hn Hk Hb H.
    assert (Hi : s_input (create1 (fmul k f1) beta nonce challenge keyid) = token_input 1 nonce challenge keyid) by reflexivity.
    destruct (finalize1_ok_implies_l _ resp tok nonce challenge keyid Hi Hn Hk H) as (ev & _ & _ & D & ->).
    cbn [Issuance.s_pk Issuance.s_blinded Issuance.s_blind Issuance.s_input Issuance.create1] in *. apply Hsound in D. subst ev.
    split; [|cbn; auto].
    apply verify_iff_l. unfold full_evaluate, auth_input. cbn [t_type t_nonce t_ctx t_keyid t_auth].
    unfold Issuance.token_input. f_equal. f_equal. field. exact Hb.
  Qed.
End Type1P.

Section Type2P.
  Variable R : Type.
  Variables (r0 r1 : R) (radd rmul rsub : R -> R -> R) (ropp : R -> R).
  Hypothesis Rth : ring_theory r0 r1 radd rmul rsub ropp (@eq R).
  Variable h256 : list byte -> list byte.
  Variable emsa : list byte -> list byte -> R.
  Variable enc_r : R -> list byte.
  Variable dec_r : list byte -> option R.
  Variable pss_ok : list byte -> list byte -> bool.
  Hypothesis h256_len : forall x, length (h256 x) = 32%nat.
  Hypothesis dec_enc_r : forall x, dec_r (enc_r x) = Some x.
  Hypothesis enc_r_len : forall x, length (enc_r x) = 256%nat.
  Notation rpow := (rpow R r1 rmul).
  Notation run2 := (run2 R r1 rmul h256 emsa enc_r dec_r pss_ok).
  Notation finalize2 := (finalize2 R rmul enc_r dec_r pss_ok).
  Notation token_input := (token_input h256).
  Notation s2_input := (s2_input R). Notation s2_rinv := (s2_rinv R). Notation s2_req := (s2_req R).

  Theorem honest_type2_l e d r rinv salt nonce challenge keyid :
    length nonce = 32%nat -> length keyid = 32%nat ->
    rmul r rinv = r1 -> rpow (rpow r e) d = r ->
    let input := token_input 2 nonce challenge keyid in
    (* RSASSA-PSS consistency: the signature m^d of the encoding m of (input, salt) verifies *)
    pss_ok input (enc_r (rpow (emsa input salt) d)) = true ->
    let tok := {| t_type := 2; t_nonce := nonce; t_ctx := h256 challenge; t_keyid := keyid;
                  t_auth := enc_r (rpow (emsa input salt) d) |} in
    run2 e d r rinv salt nonce challenge keyid = Some tok /\
    enc_token tok = u16 2 ++ nonce ++ h256 challenge ++ keyid ++ enc_r (rpow (emsa input salt) d) /\
    length (t_auth tok) = 256%nat.
  Proof.
    intros Hn Hk Hinv Hrsa input Hpss tok. split; [|split; [reflexivity|apply enc_r_len]].
    unfold Issuance.run2, Issuance.create2. cbn [s2_req s2_input s2_rinv]. fold input.
    rewrite <- (app_nil_r (enc_req12 2 _)).
    rewrite um_req12_enc; [|lia|split; [cbn [q_keyid]; apply b2n_lt|cbn [q_blinded]; apply enc_r_len]].
    unfold Issuance.evaluate2. cbn [q_blinded]. rewrite enc_r_len. cbn [Nat.eqb negb]. rewrite dec_enc_r.
    unfold Issuance.finalize2. cbn [s2_input s2_rinv]. rewrite enc_r_len. cbn [Nat.eqb negb]. rewrite dec_enc_r.
    rewrite (rsa_unblind_l R r0 r1 radd rmul rsub ropp Rth) by assumption.
    unfold input in *. rewrite (token_of_input h256 h256_len) by (auto; try lia; apply enc_r_len).
    unfold auth_input. cbn [t_type t_nonce t_ctx t_keyid t_auth].
    change (u16 2 ++ nonce ++ h256 challenge ++ keyid) with (Issuance.token_input h256 2 nonce challenge keyid).
    now rewrite Hpss.
  Qed.

  (** C02, type 2: unconditional — whatever bytes come back, an output token passed the PSS check under the pinned
      key over its own authenticator input, and carries the request's nonce, challenge digest and key id *)
  Theorem finalize2_ok_implies_l s resp tok nonce challenge keyid :
    s2_input s = token_input 2 nonce challenge keyid -> length nonce = 32%nat -> length keyid = 32%nat ->
    finalize2 s resp = Some tok ->
    pss_ok (auth_input tok) (t_auth tok) = true /\ auth_input tok = s2_input s /\
    t_type tok = 2 /\ t_nonce tok = nonce /\ t_ctx tok = h256 challenge /\ t_keyid tok = keyid /\
    length resp = 256%nat.
  Proof.
    clear dec_enc_r.
    intros Hi Hn Hk. unfold Issuance.finalize2.
    destruct (Nat.eqb (length resp) 256) eqn:L; cbn [negb]; [|discriminate]. apply Nat.eqb_eq in L.
    destruct (dec_r resp) as [bs|]; [|discriminate].
    rewrite Hi, (token_of_input h256 h256_len) by (auto; try lia; apply enc_r_len).
    match goal with |- (if pss_ok ?a ?b then _ else _) = _ -> _ => destruct (pss_ok a b) eqn:P end; [|discriminate].
    intros [= <-]. cbn [t_type t_nonce t_ctx t_keyid t_auth]. repeat split; auto.
  Qed.
End Type2P.

Section Type5P.
  Variable F : Type.
  Variables (f0 f1 : F) (fadd fmul fsub : F -> F -> F) (fopp : F -> F) (fdiv : F -> F -> F) (finv : F -> F).
  Hypothesis Fth : field_theory f0 f1 fadd fmul fsub fopp fdiv finv (@eq F).
  Add Field Ff5 : Fth.
  Variable h256 : list byte -> list byte.
  Variable h2g : list byte -> F.
  Variable enc_elt : F -> list byte.
  Variable dec_elt : list byte -> option F.
  Variable fin : list byte -> F -> list byte.
  Variable prove_b : F -> list F -> list F -> list byte -> list byte.
  Variable dleq_b_ok : F -> list F -> list F -> list byte -> bool.
  Hypothesis h256_len : forall x, length (h256 x) = 32%nat.
  Hypothesis dec_enc_elt : forall e, dec_elt (enc_elt e) = Some e.
  Hypothesis enc_elt_len : forall e, length (enc_elt e) = 32%nat.
  Hypothesis fin_len : forall i e, length (fin i e) = 64%nat.
  Hypothesis dleq_b_complete : forall k bs rnd,
    dleq_b_ok (fmul k f1) bs (map (fmul k) bs) (prove_b k bs (map (fmul k) bs) rnd) = true.
  Hypothesis proof_b_len : forall k bs evs rnd, length (prove_b k bs evs rnd) = 64%nat.

  Notation dec_all := (dec_all F dec_elt).
  Notation token_input := (token_input h256).

  Lemma dec_all_enc l : dec_all (map enc_elt l) = Some l.
  Proof. induction l as [|x l IH]; cbn [map Issuance.dec_all]; [reflexivity|]. now rewrite dec_enc_elt, IH. Qed.
  Lemma enc_all_32 l : Forall (fun e => length e = 32%nat) (map enc_elt l).
  Proof. apply Forall_forall. intros e He. apply in_map_iff in He. destruct He as (x & <- & _). apply enc_elt_len. Qed.

  Definition tok5 (k : F) (challenge keyid nonce : list byte) : token :=
    let input := token_input 5 nonce challenge keyid in
    {| t_type := 5; t_nonce := nonce; t_ctx := h256 challenge; t_keyid := keyid; t_auth := fin input (fmul k (h2g input)) |}.

  (** the per-element step: unblinding the evaluation of the blinded input gives F(k, input), and the token decodes *)
  Lemma tokens_of k challenge keyid : length keyid = 32%nat -> forall nonces betas,
    length betas = length nonces -> Forall (fun n => length n = 32%nat) nonces -> Forall (fun b => b <> f0) betas ->
    let inputs := map (fun n => token_input 5 n challenge keyid) nonces in
    let bl := map (fun p => fmul (fst p) (h2g (snd p))) (combine betas inputs) in
    all_some (map (fun p => dec_token 64 (fst (fst p) ++ fin (fst (fst p)) (fmul (finv (snd (fst p))) (snd p))))
                  (combine (combine inputs betas) (map (fmul k) bl)))
    = Some (map (tok5 k challenge keyid) nonces).
  Proof.
    intros Hk. induction nonces as [|n ns IH]; intros [|b bs] L Fn Fb; try discriminate; [reflexivity|].
    cbn [map combine all_some fst snd]. inversion Fn as [|? ? Hn Fn']; subst. inversion Fb as [|? ? Hb Fb']; subst.
    replace (fmul (finv b) (fmul k (fmul b (h2g (token_input 5 n challenge keyid)))))
      with (fmul k (h2g (token_input 5 n challenge keyid))) by (field; exact Hb).
    rewrite (token_of_input h256 h256_len) by (auto; try lia; apply fin_len).
    cbn [length] in L. specialize (IH bs ltac:(lia) Fn' Fb'). cbn zeta in IH. rewrite IH. reflexivity.
  Qed.

  Theorem honest_type5_l k betas rnd nonces challenge keyid :
    length keyid = 32%nat -> length betas = length nonces ->
    Forall (fun n => length n = 32%nat) nonces -> Forall (fun b => b <> f0) betas ->
    N.of_nat (32 * length nonces) <= max_varint ->
    run5 F f1 fmul finv h256 h2g enc_elt dec_elt fin prove_b dleq_b_ok k betas rnd nonces challenge keyid
      = Some (map (tok5 k challenge keyid) nonces).
  Proof.
    intros Hk L Fn Fb Hm. unfold Issuance.run5, Issuance.create5. cbn [s5_req s5_inputs s5_blinds s5_blinded s5_pk].
    set (inputs := map (fun n => token_input 5 n challenge keyid) nonces).
    set (bl := map (fun p => fmul (fst p) (h2g (snd p))) (combine betas inputs)).
    assert (Lbl : length bl = length nonces).
    { unfold bl, inputs. rewrite map_length, combine_length, map_length. lia. }
    rewrite <- (app_nil_r (enc_req5 _)).
    rewrite um_req5_enc.
    2:{ unfold wf_req5. cbn [q5_keyid q5_elems]. split; [apply b2n_lt|]. split; [apply enc_all_32|].
        rewrite (concat32_length _ (enc_all_32 bl)), map_length, Lbl. exact Hm. }
    unfold Issuance.evaluate5. cbn [q5_elems]. rewrite dec_all_enc.
    set (evs := map (fmul k) bl).
    set (body := concat (map enc_elt evs)).
    assert (Lb : length body = (32 * length nonces)%nat).
    { unfold body. rewrite (concat32_length _ (enc_all_32 evs)), map_length. unfold evs. now rewrite map_length, Lbl. }
    unfold Issuance.finalize5. cbn [s5_inputs s5_blinds s5_blinded s5_pk].
    rewrite consume_enc_varint by (rewrite Lb; exact Hm).
    rewrite skipn_app, Nat.sub_diag, skipn_all, skipn_O. cbn [app].
    rewrite app_length.
    replace (N.of_nat (length body + length (prove_b k bl evs rnd)) <? N.of_nat (length body)) with false by lia.
    rewrite Nat2N.id, firstn_app, Nat.sub_diag, firstn_O, app_nil_r, firstn_all.
    rewrite skipn_app, Nat.sub_diag, skipn_all, skipn_O. cbn [app].
    rewrite Lb. replace ((32 * length nonces) mod 32)%nat with 0%nat by (symmetry; rewrite Nat.mul_comm; apply Nat.mod_mul; lia).
    cbn [Nat.eqb negb].
    replace ((32 * length nonces) / 32)%nat with (length nonces) by (symmetry; rewrite Nat.mul_comm; apply Nat.div_mul; lia).
    unfold inputs at 1. rewrite map_length, Nat.eqb_refl. cbn [negb].
    assert (Ch : chunks32 (length nonces) body = map enc_elt evs).
    { unfold body. rewrite <- (app_nil_r (concat _)).
      replace (length nonces) with (length (map enc_elt evs)) by (unfold evs; now rewrite !map_length, Lbl).
      apply chunks32_concat, enc_all_32. }
    rewrite Ch, dec_all_enc, proof_b_len. replace (Nat.ltb 64 64) with false by reflexivity.
    rewrite <- (proof_b_len k bl evs rnd) at 1. rewrite firstn_all.
    unfold evs at 1 2. rewrite dleq_b_complete. cbn [negb].
    apply tokens_of; assumption.
  Qed.
End Type5P.
