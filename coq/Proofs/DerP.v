From PatVerif Require Import Base.Der.
From Coq Require Import ZifyN ZifyNat ZifyBool.
Open Scope N_scope.

Lemma strip_lead0_dec l : be_dec (strip_lead0 l) = be_dec l.
Proof.
  induction l as [|b t IH]; [reflexivity|]. cbn [strip_lead0].
  destruct (byte_eqb b x00) eqn:E; [|reflexivity].
  apply byte_eqb_eq in E. subst b. rewrite IH. cbn [be_dec]. change (b2n x00) with 0. lia.
Qed.

Lemma strip_lead0_hd l : strip_lead0 l = [] \/ exists h t, strip_lead0 l = h :: t /\ h <> x00.
Proof.
  induction l as [|b t IH]; [now left|]. cbn [strip_lead0].
  destruct (byte_eqb b x00) eqn:E; [exact IH|].
  right. exists b, t. split; [reflexivity|]. intro H. subst b. discriminate.
Qed.

Lemma strip_lead0_len l : (length (strip_lead0 l) <= length l)%nat.
Proof.
  induction l as [|b t IH]; [cbn; lia|]. cbn [strip_lead0].
  destruct (byte_eqb b x00); cbn [length]; lia.
Qed.

Lemma size_bound v : v < 256 ^ N.of_nat (byte_len v).
Proof.
  unfold byte_len. rewrite N2Nat.id.
  pose proof (N.size_gt v) as H.
  assert (E : 256 ^ ((N.size v + 7) / 8) = 2 ^ (8 * ((N.size v + 7) / 8))).
  { change 256 with (2 ^ 8). now rewrite <- N.pow_mul_r. }
  rewrite E. eapply N.lt_le_trans; [exact H|]. apply N.pow_le_mono_r; lia.
Qed.

Lemma be_min_dec v : be_dec (be_min v) = v.
Proof. unfold be_min. rewrite be_enc_f_eq, strip_lead0_dec. apply be_enc_small, size_bound. Qed.

Lemma be_min_hd v : be_min v = [] \/ exists h t, be_min v = h :: t /\ h <> x00.
Proof. apply strip_lead0_hd. Qed.

Lemma be_min_zero v : be_min v = [] -> v = 0.
Proof. intro H. rewrite <- (be_min_dec v), H. reflexivity. Qed.

Lemma hd_lower h t : 256 ^ N.of_nat (length t) * b2n h <= be_dec (h :: t).
Proof. cbn [be_dec]. lia. Qed.

Lemma b2n_nonzero h : h <> x00 -> 1 <= b2n h.
Proof.
  intro H. destruct (N.eq_dec (b2n h) 0) as [E|E]; [|lia].
  exfalso. apply H. apply b2n_inj. exact E.
Qed.

Lemma pow256_pos k : 0 < 256 ^ k.
Proof. apply N.neq_0_lt_0, N.pow_nonzero. lia. Qed.

(** a number below 256^k has at most k minimal digits *)
Lemma be_min_len v k : v < 256 ^ N.of_nat k -> (length (be_min v) <= k)%nat.
Proof.
  intro H. destruct (be_min_hd v) as [E|(h & t & E & Hh)]; [rewrite E; cbn; lia|].
  rewrite E. cbn [length].
  destruct (le_lt_dec (S (length t)) k) as [|G]; [assumption|exfalso].
  pose proof (hd_lower h t) as L. rewrite <- E, be_min_dec in L.
  pose proof (b2n_nonzero h Hh).
  assert (256 ^ N.of_nat k <= 256 ^ N.of_nat (length t)) by (apply N.pow_le_mono_r; lia).
  pose proof (pow256_pos (N.of_nat (length t))). nia.
Qed.

Lemma be_min_pos_len v : 0 < v -> (1 <= length (be_min v))%nat.
Proof.
  intro H. destruct (be_min v) eqn:E; [apply be_min_zero in E; lia|cbn; lia].
Qed.

Lemma der_len_length n : n < 4294967296 -> (length (der_len n) <= 5)%nat.
Proof.
  intro H. unfold der_len. destruct (n <? 128); [cbn; lia|]. cbn [length].
  pose proof (be_min_len n 4 ltac:(cbn; lia)). lia.
Qed.

Lemma tlv_length t c : N.of_nat (length c) < 4294967296 ->
  (length c + 2 <= length (tlv t c) <= length c + 6)%nat.
Proof.
  intro H. unfold tlv. cbn [length]. rewrite app_length.
  pose proof (der_len_length _ H).
  assert (1 <= length (der_len (N.of_nat (length c))))%nat.
  { unfold der_len. destruct (_ <? 128); cbn [length]; lia. }
  lia.
Qed.

Lemma read_bytes_app' x r : read_bytes (length x) (x ++ r) = Some (x, r).
Proof. now apply read_bytes_app. Qed.

Lemma read_bytes_N_app x r : read_bytes_N (N.of_nat (length x)) (x ++ r) = Some (x, r).
Proof.
  unfold read_bytes_N. rewrite app_length.
  replace (N.of_nat (length x + length r) <? N.of_nat (length x)) with false by lia.
  rewrite Nat2N.id. apply read_bytes_app'.
Qed.

Lemma read_any_asn1_tlv t c r :
  N.land (b2n t) 31 <> 31 -> N.of_nat (length c) + 6 < 4294967296 ->
  read_any_asn1 (tlv t c ++ r) = Some (t, c, r).
Proof.
  intros Ht Hc. unfold tlv, der_len. set (n := N.of_nat (length c)) in *.
  destruct (n <? 128) eqn:E.
  - cbn [app read_any_asn1].
    replace (N.land (b2n t) 31 =? 31) with false by (symmetry; apply N.eqb_neq; exact Ht).
    rewrite b2n_n2b, N.mod_small by lia. rewrite E.
    replace (N.to_nat n) with (length c) by lia. now rewrite read_bytes_app'.
  - set (b := be_min n).
    assert (Hpos : 0 < n) by lia.
    pose proof (be_min_pos_len n Hpos) as L1. pose proof (be_min_len n 4 ltac:(cbn; lia)) as L4.
    fold b in L1, L4.
    cbn [app read_any_asn1].
    replace (N.land (b2n t) 31 =? 31) with false by (symmetry; apply N.eqb_neq; exact Ht).
    rewrite b2n_n2b, N.mod_small by lia.
    replace (128 + N.of_nat (length b) <? 128) with false by lia.
    replace (128 + N.of_nat (length b) - 128) with (N.of_nat (length b)) by lia.
    replace ((N.of_nat (length b) =? 0) || (4 <? N.of_nat (length b))) with false by lia.
    rewrite Nat2N.id, <- app_assoc, read_bytes_app'.
    assert (Hd : be_dec b = n) by apply be_min_dec. rewrite Hd, E.
    assert (Hq : n / 256 ^ (N.of_nat (length b) - 1) <> 0).
    { destruct (be_min_hd n) as [E0|(h & tl & E0 & Hh)]; fold b in E0; [rewrite E0 in L1; cbn in L1; lia|].
      pose proof (hd_lower h tl) as Lw. rewrite <- E0, Hd in Lw. pose proof (b2n_nonzero h Hh).
      rewrite E0. cbn [length]. replace (N.of_nat (S (length tl)) - 1) with (N.of_nat (length tl)) by lia.
      pose proof (pow256_pos (N.of_nat (length tl))) as Pp.
      intro Q. apply N.div_small_iff in Q; [nia|lia]. }
    replace (n / 256 ^ (N.of_nat (length b) - 1) =? 0) with false by (symmetry; apply N.eqb_neq; exact Hq).
    replace (4294967296 <=? 2 + N.of_nat (length b) + n) with false by lia.
    unfold n. now rewrite read_bytes_N_app.
Qed.

Lemma read_asn1_tlv t c r :
  N.land (b2n t) 31 <> 31 -> N.of_nat (length c) + 6 < 4294967296 ->
  read_asn1 t (tlv t c ++ r) = Some (c, r).
Proof.
  intros. unfold read_asn1. rewrite read_any_asn1_tlv by assumption.
  replace (byte_eqb t t) with true by (symmetry; apply byte_eqb_eq; reflexivity). reflexivity.
Qed.

(** INTEGER contents *)
Lemma int_content_spec v :
  check_int (int_content v) = true /\ signed_val (int_content v) = Z.of_N v /\
  (length (int_content v) <= length (be_min v) + 1)%nat /\ (1 <= length (int_content v))%nat.
Proof.
  unfold int_content. pose proof (be_min_dec v) as D.
  destruct (be_min_hd v) as [E|(h & t & E & Hh)].
  - rewrite E in *. cbn in D. subst v. cbn. repeat split; lia.
  - rewrite E in *. pose proof (b2n_nonzero h Hh) as H1. pose proof (b2n_lt h) as H2.
    destruct (128 <=? b2n h) eqn:G.
    + repeat split; try (cbn [length]; lia).
      * cbn [check_int]. change (b2n x00) with 0.
        replace (b2n h <? 128) with false by lia. reflexivity.
      * cbn [signed_val]. change (b2n x00) with 0. cbn [N.leb N.compare]. 
        rewrite be_dec_h_eq. replace (be_dec (x00 :: h :: t)) with (be_dec (h :: t)); [now rewrite D|].
        cbn [be_dec]. change (b2n x00) with 0. lia.
    + repeat split; try (cbn [length]; lia).
      * destruct t as [|b1 t']; [reflexivity|]. cbn [check_int].
        replace (b2n h =? 0) with false by lia. replace (b2n h =? 255) with false by lia. reflexivity.
      * cbn [signed_val]. rewrite G, be_dec_h_eq. now rewrite D.
Qed.

Lemma read_bigint_der v r : N.of_nat (length (be_min v)) + 7 < 4294967296 ->
  read_bigint (der_int v ++ r) = Some (Z.of_N v, r).
Proof.
  intro H. destruct (int_content_spec v) as (C & S & L & _).
  unfold read_bigint, der_int. rewrite read_asn1_tlv; [|cbn; lia|lia].
  now rewrite C, S.
Qed.

Lemma read_int64_der v r : v < 2 ^ 63 -> read_int64 (der_int v ++ r) = Some (Z.of_N v, r).
Proof.
  intro H. destruct (int_content_spec v) as (C & S & L & _).
  assert (L8 : (length (int_content v) <= 8)%nat).
  { unfold int_content in *. pose proof (be_min_dec v) as D.
    destruct (be_min_hd v) as [E|(h & t & E & Hh)]; rewrite E in *; [cbn; lia|].
    pose proof (be_min_len v 8 ltac:(change (256 ^ N.of_nat 8) with (2 ^ 64); lia)) as L8. rewrite E in L8. cbn [length] in L8.
    destruct (128 <=? b2n h) eqn:G; [|cbn [length]; lia]. cbn [length].
    destruct (le_lt_dec (length t) 6) as [|G6]; [lia|exfalso].
    assert (length t = 7%nat) by lia.
    pose proof (hd_lower h t) as Lw. rewrite D in Lw. replace (length t) with 7%nat in Lw by lia.
    change (256 ^ N.of_nat 7) with 72057594037927936 in Lw. change (2 ^ 63) with 9223372036854775808 in H. lia. }
  unfold read_int64, der_int. rewrite read_asn1_tlv; [|cbn; lia|lia].
  rewrite C, S. replace (N.of_nat (length (int_content v)) <=? 8) with true by lia. reflexivity.
Qed.

Lemma read_bitstring_der c r : c <> [] -> N.of_nat (length c) + 7 < 4294967296 ->
  read_bitstring_aligned (der_bitstring c ++ r) = Some (c, r).
Proof.
  intros Hne H. unfold read_bitstring_aligned, der_bitstring.
  rewrite read_asn1_tlv; [|cbn; lia|cbn [length]; lia].
  change (b2n x00) with 0. cbn [N.ltb N.compare N.eqb]. destruct c as [|c0 c']; [congruence|].
  change (2 ^ 0 - 1) with 0. now rewrite N.land_0_r.
Qed.
