package main

import (
	"bytes"
	"crypto"
	"crypto/rsa"
	"crypto/sha256"
	"crypto/sha512"
	"encoding/hex"
	"encoding/json"
	"fmt"
	"math/big"
	"os"
	"sync"

	"github.com/cloudflare/circl/group"
	"github.com/cloudflare/circl/oprf"
	"github.com/cloudflare/pat-go/tokens"
	"github.com/cloudflare/pat-go/tokens/batched"
	"github.com/cloudflare/pat-go/tokens/type1"
	"github.com/cloudflare/pat-go/tokens/type2"
	"github.com/cloudflare/pat-go/tokens/type5"
	"github.com/cloudflare/pat-go/util"
	"verif/harness/internal/h"
)

func init() { props["C11"] = runC11 }

func scalarBytes(c *h.Ctx, g group.Group) []byte {
	s := g.RandomNonZeroScalar(c.Rng)
	b, _ := s.MarshalBinary()
	return b
}

// rsaBlind: a unit modulo N as 256 bytes.
func rsaBlind(c *h.Ctx, N *big.Int) []byte {
	for {
		r := new(big.Int).SetBytes(rnd(c, 256))
		r.Mod(r, N)
		if r.Sign() != 0 && new(big.Int).GCD(nil, nil, r, N).Cmp(big.NewInt(1)) == 0 {
			out := make([]byte, 256)
			r.FillBytes(out)
			return out
		}
	}
}

// tokenWant: the byte string the token must be, from the Coq model (SHA-256 of the challenge in Coq) and an
// authenticator obtained independently.
func tokenWant(c *h.Ctx, ttype uint16, nonce, challenge, keyID, auth []byte) []byte {
	return c.Model("token_bytes", u16b(ttype), nonce, challenge, keyID, auth)[0]
}

// boundaryScalars: canonical encodings of scalars at the edges of the range (1, 2, order-1, order-2, the largest power
// of two below the order and its neighbours): all are valid non-zero blinds.
func boundaryScalars(g group.Group, order *big.Int, littleEndian bool) [][]byte {
	size := int(g.Params().ScalarLength)
	top := new(big.Int).Lsh(big.NewInt(1), uint(order.BitLen()-1))
	vals := []*big.Int{big.NewInt(1), big.NewInt(2), new(big.Int).Sub(order, big.NewInt(1)), new(big.Int).Sub(order, big.NewInt(2)),
		top, new(big.Int).Add(top, big.NewInt(3)), new(big.Int).Sub(top, big.NewInt(1)), new(big.Int).Lsh(big.NewInt(1), 128)}
	var out [][]byte
	for _, v := range vals {
		if v.Sign() <= 0 || v.Cmp(order) >= 0 {
			continue
		}
		b := make([]byte, size)
		v.FillBytes(b)
		if littleEndian {
			for i, j := 0, len(b)-1; i < j; i, j = i+1, j-1 {
				b[i], b[j] = b[j], b[i]
			}
		}
		out = append(out, b)
	}
	return out
}

var orderP384, _ = new(big.Int).SetString("39402006196394479212279040100143613805079739270465446667946905279627659399113263569398956308152294913554433653942643", 10)
var orderRistretto, _ = new(big.Int).SetString("7237005577332262213973186563042994240857116359379907606001950938285454250989", 10)

func c11Type1(c *h.Ctx, n int) {
	bnd := boundaryScalars(group.P384, orderP384, false)
	for i := 0; i < n+len(bnd); i++ {
		sk, _ := oprf.DeriveKey(oprf.SuiteP384, oprf.VerifiableMode, rnd(c, 32), nil)
		iss := type1.NewBasicPrivateIssuer(sk)
		chal, nonce := c11Challenge(c), rnd(c, 32)
		kid := iss.TokenKeyID()
		b1, b2 := scalarBytes(c, group.P384), scalarBytes(c, group.P384)
		if i >= n {
			b2 = bnd[i-n] // a blind at the edge of the scalar range
		}
		client := type1.NewBasicPrivateClient()
		det := map[string]any{"type": 1, "challenge": h.Hex(chal), "nonce": h.Hex(nonce), "blind1": h.Hex(b1), "blind2": h.Hex(b2)}
		sA, errA := client.CreateTokenRequestWithBlind(chal, nonce, kid, iss.TokenKey(), b1)
		sA2, errA2 := client.CreateTokenRequestWithBlind(chal, nonce, kid, iss.TokenKey(), append([]byte{}, b1...))
		// B is created while A is outstanding, from buffers the caller overwrites right afterwards (odd runs)
		chalB, nonceB, kidB, blindB := clone(chal), clone(nonce), clone(kid), clone(b2)
		sB, errB := client.CreateTokenRequestWithBlind(chalB, nonceB, kidB, iss.TokenKey(), blindB)
		if i%2 == 1 {
			scribble(chalB, nonceB, kidB, blindB)
		}
		c.Count("type1:fixed-blind", 3, h.Hex(nonce)+h.Hex(b1))
		if errA != nil || errA2 != nil || errB != nil {
			c.Violation("request creation with a supplied blind fails", det)
			continue
		}
		if !bytes.Equal(sA.Request().Marshal(), sA2.Request().Marshal()) {
			c.Violation("request creation with a fixed blind is a pure function of its arguments", det)
		}
		if bytes.Equal(sA.Request().Marshal(), sB.Request().Marshal()) {
			c.Violation("the supplied blind is used (two blinds give two requests)", det)
		}
		fin := func(s type1.BasicPrivateTokenRequestState) []byte {
			resp, err := iss.Evaluate(s.Request())
			if err != nil {
				return nil
			}
			t, err := s.FinalizeToken(resp)
			if err != nil {
				return nil
			}
			// the same state finalized again with the same response (a retry): the same token, on every run
			if t2, err2 := s.FinalizeToken(append([]byte{}, resp...)); err2 != nil || !bytes.Equal(t2.Marshal(), t.Marshal()) {
				c.Violation("the same request state finalized twice with the same response gives the same token", det)
			}
			return t.Marshal()
		}
		tA, tB, tA2 := fin(sA), fin(sB), fin(sA2)
		input := cat(u16b(1), nonce, sha256sum(chal), kid)
		auth, _ := oprf.NewVerifiableServer(oprf.SuiteP384, sk).FullEvaluate(input)
		want := tokenWant(c, 1, nonce, chal, kid, auth)
		c.Case("type1:token-bytes", true, "token_bytes", [][]byte{u16b(1), nonce, chal, kid, auth}, [][]byte{tA})
		if tA == nil || !bytes.Equal(tA, tB) || !bytes.Equal(tA, tA2) || !bytes.Equal(tA, want) {
			det["tokenA"], det["tokenB"], det["want"] = h.Hex(tA), h.Hex(tB), h.Hex(want)
			c.Violation("the finalized token is identical under every blind and on every run (and equals type||nonce||SHA-256(challenge)||key id||F(k, input))", det)
		}
	}
}

// c11OddBlinds: blind encodings outside the honest range (other lengths, values >= the group order, zero). Whatever the
// decoder makes of them: no panic, the same outcome on every run, and a token that does come out is THE token.
func c11OddBlinds(c *h.Ctx) {
	sk, _ := oprf.DeriveKey(oprf.SuiteP384, oprf.VerifiableMode, rnd(c, 32), nil)
	iss := type1.NewBasicPrivateIssuer(sk)
	chal, nonce, kid := rnd(c, 20), rnd(c, 32), iss.TokenKeyID()
	auth, _ := oprf.NewVerifiableServer(oprf.SuiteP384, sk).FullEvaluate(cat(u16b(1), nonce, sha256sum(chal), kid))
	want := tokenWant(c, 1, nonce, chal, kid, auth)
	ord := orderP384.Bytes()
	ordP1 := new(big.Int).Add(orderP384, big.NewInt(1)).Bytes()
	for _, b := range [][]byte{nil, {}, {1}, make([]byte, 48), make([]byte, 47), cat(make([]byte, 47), []byte{1}), cat([]byte{0}, make([]byte, 47), []byte{1}), ord, ordP1, bytesFF(48), bytesFF(49), rnd(c, 96)} {
		var tok [2][]byte
		var errs [2]bool
		pan, msg := h.Protect(func() {
			for run := 0; run < 2; run++ {
				st, err := type1.NewBasicPrivateClient().CreateTokenRequestWithBlind(chal, nonce, kid, iss.TokenKey(), clone(b))
				errs[run] = err != nil
				if err != nil {
					continue
				}
				resp, err := iss.Evaluate(st.Request())
				if err != nil {
					continue
				}
				if t, err := st.FinalizeToken(resp); err == nil {
					tok[run] = t.Marshal()
				}
			}
		})
		c.Count("type1:odd-blind-encodings", 2, h.Hex(b))
		det := map[string]any{"type": 1, "blind": h.Hex(b), "panic": msg}
		if pan {
			// blinds longer than a scalar make circl's decoder slice out of range: a caller error outside C11 (blinds are
			// scalars; C03 is about PEER bytes) — observed, not judged
			c.Count("type1:odd-blind-encodings:panics-on-overlong-blind", 1, h.Hex(b))
			if len(b) <= 48 {
				c.Violation("request creation with a supplied blind of at most scalar length panics", det)
			}
		} else if errs[0] != errs[1] || !bytes.Equal(tok[0], tok[1]) {
			c.Violation("request creation with a fixed blind is a pure function of its arguments", det)
		} else if tok[0] != nil && !bytes.Equal(tok[0], want) {
			c.Violation("the finalized token is identical under every blind", det)
		}
	}
	sk5, _ := oprf.DeriveKey(oprf.SuiteRistretto255, oprf.VerifiableMode, rnd(c, 32), nil)
	iss5 := type5.NewBatchedPrivateIssuer(sk5)
	kid5 := iss5.TokenKeyID()
	nonces := [][]byte{rnd(c, 32), rnd(c, 32)}
	good := scalarBytes(c, group.Ristretto255)
	var want5 [][]byte
	for _, n := range nonces {
		a, _ := oprf.NewVerifiableServer(oprf.SuiteRistretto255, sk5).FullEvaluate(cat(u16b(5), n, sha256sum(chal), kid5))
		want5 = append(want5, tokenWant(c, 5, n, chal, kid5, a))
	}
	ordR := make([]byte, 32)
	for i, x := range orderRistretto.Bytes() {
		ordR[len(orderRistretto.Bytes())-1-i] = x
	}
	for _, bl := range [][][]byte{nil, {}, {good}, {good, nil}, {good, make([]byte, 32)}, {good, ordR}, {good, bytesFF(32)}, {good, good[:31]}, {good, cat(good, []byte{0})}, {good, good, good}} {
		var tok [2][][]byte
		var errs [2]bool
		pan, msg := h.Protect(func() {
			for run := 0; run < 2; run++ {
				var cp [][]byte
				for _, x := range bl {
					cp = append(cp, clone(x))
				}
				st, err := type5.NewBatchedPrivateClient().CreateTokenRequestWithBlinds(chal, nonces, kid5, iss5.TokenKey(), cp)
				errs[run] = err != nil
				if err != nil {
					continue
				}
				resp, err := iss5.Evaluate(st.Request())
				if err != nil {
					continue
				}
				if ts, err := st.FinalizeTokens(resp); err == nil {
					for _, t := range ts {
						tok[run] = append(tok[run], t.Marshal())
					}
				}
			}
		})
		c.Count("type5:odd-blind-lists", 2, fmt.Sprint(len(bl)))
		det := map[string]any{"type": 5, "blinds": len(bl), "panic": msg}
		if pan {
			// fewer blinds than nonces: index out of range — a caller error outside C11, observed, not judged
			c.Count("type5:odd-blind-lists:panics-on-short-list", 1, fmt.Sprint(len(bl)))
			if len(bl) >= len(nonces) {
				c.Violation("request creation with one blind per nonce panics", det)
			}
			continue
		}
		same := errs[0] == errs[1] && len(tok[0]) == len(tok[1])
		for i := 0; same && i < len(tok[0]); i++ {
			same = bytes.Equal(tok[0][i], tok[1][i])
		}
		if !same {
			c.Violation("request creation with fixed blinds is a pure function of its arguments", det)
		}
		for i := range tok[0] {
			if i >= len(want5) || !bytes.Equal(tok[0][i], want5[i]) {
				c.Violation("the finalized tokens are identical under every blind", det)
				break
			}
		}
	}
}

func sha256sum(b []byte) []byte { return sha256Bytes(b) }

func c11Type5(c *h.Ctx, n int) {
	bnd := boundaryScalars(group.Ristretto255, orderRistretto, true)
	for i := 0; i < n+len(bnd); i++ {
		sk, _ := oprf.DeriveKey(oprf.SuiteRistretto255, oprf.VerifiableMode, rnd(c, 32), nil)
		iss := type5.NewBatchedPrivateIssuer(sk)
		chal := c11Challenge(c)
		k := 1 + c.Rng.Intn(4)
		if i%3 == 2 {
			k = 3 + c.Rng.Intn(3)
		}
		var nonces, bl1, bl2 [][]byte
		for j := 0; j < k; j++ {
			nonces = append(nonces, rnd(c, 32))
			bl1 = append(bl1, scalarBytes(c, group.Ristretto255))
			bl2 = append(bl2, scalarBytes(c, group.Ristretto255))
		}
		if i >= n {
			bl2[0] = bnd[i-n] // a blind at the edge of the scalar range
			if len(bl2) > 1 {
				bl2[len(bl2)-1] = bnd[(i-n+1)%len(bnd)]
			}
		}
		kid := iss.TokenKeyID()
		client := type5.NewBatchedPrivateClient()
		det := map[string]any{"type": 5, "batch": k, "challenge": h.Hex(chal)}
		// A is created, then B with other blinds while A is still outstanding, then A is finalized
		sA, errA := client.CreateTokenRequestWithBlinds(chal, nonces, kid, iss.TokenKey(), bl1)
		respA, errE := iss.Evaluate(sA.Request())
		chalB, kidB := clone(chal), clone(kid)
		var noncesB, blB [][]byte
		for j := range nonces {
			noncesB = append(noncesB, clone(nonces[j]))
		}
		for j := range bl2 {
			blB = append(blB, clone(bl2[j]))
		}
		var windowBuf, windowBlinds []byte
		if i%3 == 2 { // the caller cut nonces and blinds out of ONE buffer each: every slice has the next ones in its spare capacity
			windowBuf, windowBlinds = cat(nonces...), cat(bl2...)
			for j := range nonces {
				noncesB[j] = windowBuf[32*j : 32*j+32]
				blB[j] = windowBlinds[32*j : 32*j+32]
			}
		}
		sB, errB := client.CreateTokenRequestWithBlinds(chalB, noncesB, kidB, iss.TokenKey(), blB)
		if windowBuf != nil && errB == nil {
			var nc, bc [][]byte
			for j := range nonces {
				nc, bc = append(nc, clone(nonces[j])), append(bc, clone(bl2[j]))
			}
			sB2, errB2 := client.CreateTokenRequestWithBlinds(clone(chal), nc, clone(kid), iss.TokenKey(), bc)
			if errB2 != nil || !bytes.Equal(sB.Request().Marshal(), sB2.Request().Marshal()) || !bytes.Equal(windowBuf, cat(nonces...)) || !bytes.Equal(windowBlinds, cat(bl2...)) {
				c.Violation("request creation is a function of the VALUES of its arguments (nonces and blinds cut from one buffer vs allocated one by one) and leaves them alone", det)
			}
		}
		if i%2 == 1 { // the caller overwrites its buffers once the request exists
			scribble(chalB, kidB)
			scribble(noncesB...)
			scribble(blB...)
		}
		sA2, errA2 := client.CreateTokenRequestWithBlinds(chal, nonces, kid, iss.TokenKey(), bl1)
		c.Count("type5:fixed-blinds", 3, h.Hex(nonces[0])+h.Hex(bl1[0]))
		if errA != nil || errB != nil || errA2 != nil || errE != nil {
			c.Violation("request creation with supplied blinds fails", det)
			continue
		}
		if !bytes.Equal(sA.Request().Marshal(), sA2.Request().Marshal()) {
			c.Violation("request creation with fixed blinds is a pure function of its arguments", det)
		}
		if bytes.Equal(sA.Request().Marshal(), sB.Request().Marshal()) {
			c.Violation("the supplied blinds are used (two blind lists give two requests)", det)
		}
		tA, errFA := sA.FinalizeTokens(respA)
		if errFA == nil {
			// a retry on the same state with the same response — after ANOTHER request was created (and finalized) meanwhile
			if sX, errX := client.CreateTokenRequestWithBlinds(chal, nonces, kid, iss.TokenKey(), bl2); errX == nil && i%2 == 0 {
				if rX, e := iss.Evaluate(sX.Request()); e == nil {
					sX.FinalizeTokens(rX)
				}
			}
			tAgain, errAgain := sA.FinalizeTokens(append([]byte{}, respA...))
			same := errAgain == nil && len(tAgain) == len(tA)
			for j := 0; same && j < len(tA); j++ {
				same = bytes.Equal(tAgain[j].Marshal(), tA[j].Marshal())
			}
			if !same {
				c.Violation("the same request state finalized twice with the same response gives the same tokens", det)
			}
		}
		respB, _ := iss.Evaluate(sB.Request())
		tB, errFB := sB.FinalizeTokens(respB)
		if errFA != nil || errFB != nil || len(tA) != k || len(tB) != k {
			c.Violation("finalization of an honest response fails", det)
			continue
		}
		for j := 0; j < k; j++ {
			input := cat(u16b(5), nonces[j], sha256sum(chal), kid)
			auth, _ := oprf.NewVerifiableServer(oprf.SuiteRistretto255, sk).FullEvaluate(input)
			want := tokenWant(c, 5, nonces[j], chal, kid, auth)
			c.Case("type5:token-bytes", true, "token_bytes", [][]byte{u16b(5), nonces[j], chal, kid, auth}, [][]byte{tA[j].Marshal()})
			if !bytes.Equal(tA[j].Marshal(), tB[j].Marshal()) || !bytes.Equal(tA[j].Marshal(), want) {
				det["index"], det["tokenA"], det["tokenB"], det["want"] = j, h.Hex(tA[j].Marshal()), h.Hex(tB[j].Marshal()), h.Hex(want)
				c.Violation("the finalized token is identical under every blind, also when another request was created before finalization", det)
			}
		}
	}
}

func c11Type2(c *h.Ctx, n int) {
	for i := 0; i < n; i++ {
		key := rsaKey(i)
		iss := type2.NewBasicPublicIssuer(key)
		chal, nonce, salt := c11Challenge(c), rnd(c, 32), rnd(c, 48)
		kid := iss.TokenKeyID()
		b1, b2 := rsaBlind(c, key.N), rsaBlind(c, key.N)
		switch i % 6 { // blinds at the edges of the range of units: 1, n - 1; and structured ones (multiples of 2^64, powers of two)
		case 3:
			b2 = make([]byte, 256)
			b2[255-8] = 1 // 2^64
		case 4:
			b2 = make([]byte, 256)
			b2[1] = 0x40 // 2^2038
		case 5:
			b2 = cat(rnd(c, 240), make([]byte, 16)) // odd-ish multiple of 2^128
			b2[0] = 0
			b2[239] |= 1
		case 1:
			b2 = make([]byte, 256)
			b2[255] = 1
		case 2:
			b2 = make([]byte, 256)
			new(big.Int).Sub(key.N, big.NewInt(1)).FillBytes(b2)
		}
		client := type2.NewBasicPublicClient()
		det := map[string]any{"type": 2, "challenge": h.Hex(chal), "nonce": h.Hex(nonce), "salt": h.Hex(salt)}
		mk := func(b []byte) (type2.BasicPublicTokenRequestState, error) {
			return client.CreateTokenRequestWithBlind(chal, nonce, kid, &key.PublicKey, b, salt)
		}
		sA, errA := mk(b1)
		chalB, nonceB, kidB, blindB, saltB := clone(chal), clone(nonce), clone(kid), clone(b2), clone(salt)
		sB, errB := client.CreateTokenRequestWithBlind(chalB, nonceB, kidB, &key.PublicKey, blindB, saltB)
		scribble(chalB, nonceB, kidB, blindB, saltB) // the caller overwrites its buffers once the request exists
		sA2, errA2 := mk(append([]byte{}, b1...))
		c.Count("type2:fixed-blind-and-salt", 3, h.Hex(nonce)+h.Hex(b1[:8]))
		if errA != nil || errB != nil || errA2 != nil {
			c.Violation("request creation with a supplied blind and salt fails", det)
			continue
		}
		if !bytes.Equal(sA.Request().Marshal(), sA2.Request().Marshal()) {
			c.Violation("request creation with a fixed blind and salt is a pure function of its arguments", det)
		}
		if bytes.Equal(sA.Request().Marshal(), sB.Request().Marshal()) {
			c.Violation("the supplied blind is used (two blinds give two requests)", det)
		}
		fin := func(s type2.BasicPublicTokenRequestState) []byte {
			resp, err := iss.Evaluate(s.Request())
			if err != nil {
				return nil
			}
			t, err := s.FinalizeToken(resp)
			if err != nil {
				return nil
			}
			if t2, err2 := s.FinalizeToken(append([]byte{}, resp...)); err2 != nil || !bytes.Equal(t2.Marshal(), t.Marshal()) {
				c.Violation("the same request state finalized twice with the same response gives the same token", det)
			}
			return t.Marshal()
		}
		tA, tB := fin(sA), fin(sB)
		if tA == nil || !bytes.Equal(tA, tB) || len(tA) != 2+32+32+32+256 {
			c.Violation("the finalized token is identical under every blind (same salt)", det)
			continue
		}
		// the authenticator is the deterministic RSASSA-PSS signature for that salt: it verifies with crypto/rsa
		input := cat(u16b(2), nonce, sha256sum(chal), kid)
		d := sha512.Sum384(input)
		if err := rsa.VerifyPSS(&key.PublicKey, crypto.SHA384, d[:], tA[98:], &rsa.PSSOptions{SaltLength: 48, Hash: crypto.SHA384}); err != nil {
			c.Violation("the type-2 token verifies under the issuer key with crypto/rsa", det)
		}
		c.Case("type2:token-bytes", true, "token_bytes", [][]byte{u16b(2), nonce, chal, kid, tA[98:]}, [][]byte{tA})
		// salts of other shapes (nil, empty, short, long): whatever the outcome, the same on every call
		for _, sl := range [][]byte{nil, {}, {7}, rnd(c, 47), rnd(c, 49), rnd(c, 96)} {
			x1, e1 := client.CreateTokenRequestWithBlind(chal, nonce, kid, &key.PublicKey, clone(b1), clone(sl))
			x2, e2 := client.CreateTokenRequestWithBlind(chal, nonce, kid, &key.PublicKey, clone(b1), clone(sl))
			c.Count("type2:salt-shapes", 2, fmt.Sprint(len(sl), sl == nil))
			if (e1 == nil) != (e2 == nil) || (e1 == nil && !bytes.Equal(x1.Request().Marshal(), x2.Request().Marshal())) {
				c.Violation("request creation with a fixed blind and salt is a pure function of its arguments (salt of another shape)", map[string]any{"type": 2, "salt_len": len(sl), "salt_nil": sl == nil})
			}
		}
		// a different salt gives a different request (the salt is used)
		if sC, err := client.CreateTokenRequestWithBlind(chal, nonce, kid, &key.PublicKey, b1, rnd(c, 48)); err == nil && bytes.Equal(sC.Request().Marshal(), sA.Request().Marshal()) {
			c.Violation("the supplied salt is used", det)
		}
	}
}

// c11Concurrent: request creation is a pure function also when several are created at once for one key object.
func c11Concurrent(c *h.Ctx) {
	key := rsaKey(0)
	iss := type2.NewBasicPublicIssuer(key)
	kid := iss.TokenKeyID()
	type job struct{ chal, nonce, blind, salt, want []byte }
	jobs := make([]job, 8)
	client := type2.NewBasicPublicClient()
	for i := range jobs {
		j := job{rnd(c, 20), rnd(c, 32), rsaBlind(c, key.N), rnd(c, 48), nil}
		s, err := client.CreateTokenRequestWithBlind(j.chal, j.nonce, kid, &key.PublicKey, j.blind, j.salt)
		if err != nil {
			return
		}
		j.want = s.Request().Marshal()
		jobs[i] = j
	}
	rounds := 40
	if c.Thorough() {
		rounds = 400
	}
	var wg sync.WaitGroup
	var mu sync.Mutex
	bad := 0
	for i := range jobs {
		wg.Add(1)
		go func(j job) {
			defer wg.Done()
			for r := 0; r < rounds; r++ {
				var got []byte
				pan, _ := h.Protect(func() {
					s, err := client.CreateTokenRequestWithBlind(j.chal, j.nonce, kid, &key.PublicKey, j.blind, j.salt)
					if err == nil {
						got = s.Request().Marshal()
					}
				})
				if pan || !bytes.Equal(got, j.want) {
					mu.Lock()
					bad++
					mu.Unlock()
				}
			}
		}(jobs[i])
	}
	wg.Wait()
	c.Count("type2:concurrent-creation", len(jobs)*rounds, "concurrent")
	if bad > 0 {
		c.Violation("request creation with a fixed blind and salt gives the same bytes on every run, also when requests are created concurrently for the same key", map[string]any{"differing_or_panicking_runs": bad})
	}
}

type rustIssuance struct {
	Type      string `json:"type"`
	SkS       string `json:"skS"`
	PkS       string `json:"pkS"`
	Challenge string `json:"token_challenge"`
	Nonce     string `json:"nonce"`
	Blind     string `json:"blind"`
	Salt      string `json:"salt"`
	Token     string `json:"token"`
}

func unhex(s string) []byte { b, _ := hex.DecodeString(s); return b }

// c11Vectors: the independent Rust implementation's vectors are reproduced byte for byte.
func c11Vectors(c *h.Ctx) {
	raw, err := os.ReadFile(repoDir() + "/tokens/batched/batched-issuance-test-vectors-rust.json")
	if err != nil {
		c.Violation("the shipped Rust interop vectors are missing", nil)
		return
	}
	var vs []struct {
		Issuance      []rustIssuance `json:"issuance"`
		TokenRequest  string         `json:"token_request"`
		TokenResponse string         `json:"token_response"`
	}
	if json.Unmarshal(raw, &vs) != nil || len(vs) == 0 {
		c.Violation("the shipped Rust interop vectors do not parse", nil)
		return
	}
	type fin interface {
		FinalizeToken([]byte) (tokens.Token, error)
	}
	for vi, v := range vs {
		var reqs []tokens.TokenRequestWithDetails
		var states []fin
		var issuers []batched.Issuer
		ok := true
		for _, is := range v.Issuance {
			switch is.Type {
			case "0001":
				sk := util.MustUnmarshalPrivateOPRFKey(unhex(is.SkS))
				iss := type1.NewBasicPrivateIssuer(sk)
				st, err := type1.NewBasicPrivateClient().CreateTokenRequestWithBlind(unhex(is.Challenge), unhex(is.Nonce), iss.TokenKeyID(), iss.TokenKey(), unhex(is.Blind))
				if err != nil {
					ok = false
					continue
				}
				reqs, states, issuers = append(reqs, st.Request()), append(states, st), append(issuers, wrap1{iss})
				// the vector's token is F(k, input) over the Coq-built input
				kid := iss.TokenKeyID()
				input := cat(u16b(1), unhex(is.Nonce), sha256sum(unhex(is.Challenge)), kid)
				auth, _ := oprf.NewVerifiableServer(oprf.SuiteP384, sk).FullEvaluate(input)
				c.Case("vectors:rust-token-type1", true, "token_bytes", [][]byte{u16b(1), unhex(is.Nonce), unhex(is.Challenge), kid, auth}, [][]byte{unhex(is.Token)})
			case "0002":
				sk := util.MustUnmarshalPrivateKey(unhex(is.SkS))
				iss := type2.NewBasicPublicIssuer(sk)
				st, err := type2.NewBasicPublicClient().CreateTokenRequestWithBlind(unhex(is.Challenge), unhex(is.Nonce), iss.TokenKeyID(), iss.TokenKey(), unhex(is.Blind), unhex(is.Salt))
				if err != nil {
					ok = false
					continue
				}
				reqs, states, issuers = append(reqs, st.Request()), append(states, st), append(issuers, wrap2{iss})
			}
		}
		det := map[string]any{"vector": vi}
		c.Count("vectors:rust", 1, v.TokenRequest[:32])
		if !ok || len(reqs) != len(v.Issuance) {
			c.Violation("a Rust vector's request cannot be recreated", det)
			continue
		}
		br, err := batched.NewBasicClient().CreateTokenRequest(reqs)
		if err != nil || !bytes.Equal(br.Marshal(), unhex(v.TokenRequest)) {
			c.Violation("requests reproduce byte for byte the Rust implementation's vector", det)
		}
		// the Rust RESPONSE is decoded and finalized to the vector's tokens
		resps, err := batched.UnmarshalBatchedTokenResponses(unhex(v.TokenResponse))
		if err != nil || len(resps) != len(states) {
			c.Violation("the Rust vector's response decodes to one entry per request", det)
			continue
		}
		for i, st := range states {
			tok, err := st.FinalizeToken(resps[i])
			if err != nil || !bytes.Equal(tok.Marshal(), unhex(v.Issuance[i].Token)) {
				det["index"] = i
				c.Violation("the Rust response finalizes to the Rust vector's token byte for byte", det)
			}
		}
		// and our own issuer's response gives the same tokens
		own, err := batched.NewBasicBatchedIssuer(issuers...).EvaluateBatch(br)
		if err == nil {
			if rs, err := batched.UnmarshalBatchedTokenResponses(own); err == nil && len(rs) == len(states) {
				// fresh states: finalize was already called on the first ones
				for i, is := range v.Issuance {
					var tok tokens.Token
					var e error
					if is.Type == "0001" {
						sk := util.MustUnmarshalPrivateOPRFKey(unhex(is.SkS))
						iss := type1.NewBasicPrivateIssuer(sk)
						st, _ := type1.NewBasicPrivateClient().CreateTokenRequestWithBlind(unhex(is.Challenge), unhex(is.Nonce), iss.TokenKeyID(), iss.TokenKey(), unhex(is.Blind))
						tok, e = st.FinalizeToken(rs[i])
					} else {
						sk := util.MustUnmarshalPrivateKey(unhex(is.SkS))
						iss := type2.NewBasicPublicIssuer(sk)
						st, _ := type2.NewBasicPublicClient().CreateTokenRequestWithBlind(unhex(is.Challenge), unhex(is.Nonce), iss.TokenKeyID(), iss.TokenKey(), unhex(is.Blind), unhex(is.Salt))
						tok, e = st.FinalizeToken(rs[i])
					}
					if e != nil || !bytes.Equal(tok.Marshal(), unhex(is.Token)) {
						det["index"] = i
						c.Violation("tokens reproduce byte for byte the Rust implementation's vector", det)
					}
				}
			} else {
				c.Violation("the batch response for a Rust vector request does not decode", det)
			}
		} else {
			c.Violation("the batch issuer fails on a Rust vector request", det)
		}
	}
	c.Notes["rust_vectors"] = len(vs)
}

func runC11(c *h.Ctx) {
	n1, n2 := 60, 6
	if c.Thorough() {
		n1, n2 = 600, 30
	}
	c11Type1(c, n1)
	c11OddBlinds(c)
	c11Type5(c, n1)
	c11Type2(c, n2)
	c11Concurrent(c)
	c11Vectors(c)
}

func sha256Bytes(b []byte) []byte {
	s := sha256.Sum256(b)
	return s[:]
}

// c11Challenge: the challenge is an opaque byte string to the client — random bytes, a well-formed TokenChallenge
// structure, and a well-formed structure FOLLOWED BY more bytes (or cut short) must all enter the context as they are.
func c11Challenge(c *h.Ctx) []byte {
	tc := tokens.TokenChallenge{TokenType: uint16(1 + c.Rng.Intn(5)), IssuerName: "issuer.example", RedemptionNonce: rnd(c, 32), OriginInfo: []string{"origin.example", "b.example"}[:c.Rng.Intn(3)]}
	switch c.Rng.Intn(5) {
	case 0:
		return tc.Marshal()
	case 1:
		return cat(tc.Marshal(), rnd(c, 1+c.Rng.Intn(9)))
	case 2:
		m := tc.Marshal()
		return m[:len(m)-1-c.Rng.Intn(4)]
	case 3:
		return cat(tc.Marshal(), []byte{0})
	}
	return rnd(c, c.Rng.Intn(80))
}
