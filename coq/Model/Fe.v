(** Fe.v — the GF(2^255-19) limb arithmetic of ed25519/internal/edwards25519/field (fe.go, fe_generic.go), as the
    Go code computes it: five uint64 limbs in radix 2^51, every addition, multiplication and shift reduced modulo
    2^64 where the Go operator wraps, 128-bit accumulators as (lo, hi) pairs of bits.Mul64 / bits.Add64.
    Nothing here assumes the limbs are small: the theorems (Proofs/FeP.v) state under which bounds no wrap occurs
    and that then the result is the field operation.  Executed against the Go code through the verif hooks
    (the VerifFe functions), limb for limb. *)
From Coq Require Import NArith List.
From PatVerif Require Export Model.Derive.
Import ListNotations.
Open Scope N_scope.

Definition W64 : N := 2 ^ 64.
Definition wrap (x : N) : N := N.land x (N.ones 64).              (* uint64 arithmetic: x mod 2^64 *)
Definition hi64 (x : N) : N := N.shiftr x 64.                     (* x / 2^64 *)
Definition mask51 : N := 2 ^ 51 - 1.                            (* maskLow51Bits *)
Definition lo51 (x : N) : N := N.land x mask51.
Definition shr51 (x : N) : N := N.shiftr x 51.
Definition fe_p : N := 2 ^ 255 - 19.

Record fe := mkfe { l0 : N; l1 : N; l2 : N; l3 : N; l4 : N }.
Definition fe_val (v : fe) : N :=
  l0 v + 2 ^ 51 * l1 v + 2 ^ 102 * l2 v + 2 ^ 153 * l3 v + 2 ^ 204 * l4 v.

Definition fe_zero : fe := mkfe 0 0 0 0 0.
Definition fe_one : fe := mkfe 1 0 0 0 0.

(** uint128 of fe_generic.go *)
Record u128 := mk128 { lo : N; hi : N }.
Definition mul64 (a b : N) : u128 := let p := a * b in mk128 (wrap p) (hi64 p).                (* bits.Mul64 *)
Definition addMul64 (v : u128) (a b : N) : u128 :=
  let p := a * b in
  let s := wrap p + lo v in                                      (* bits.Add64(lo, v.lo, 0) *)
  mk128 (wrap s) (wrap (hi64 p + hi v + hi64 s)).               (* bits.Add64(hi, v.hi, c), carry out dropped *)
Definition shiftRightBy51 (a : u128) : N := N.lor (wrap (N.shiftl (hi a) 13)) (N.shiftr (lo a) 51).

(** carryPropagateGeneric *)
Definition fe_carry (v : fe) : fe :=
  let c0 := shr51 (l0 v) in let c1 := shr51 (l1 v) in let c2 := shr51 (l2 v) in
  let c3 := shr51 (l3 v) in let c4 := shr51 (l4 v) in
  mkfe (wrap (lo51 (l0 v) + wrap (c4 * 19))) (wrap (lo51 (l1 v) + c0)) (wrap (lo51 (l2 v) + c1))
       (wrap (lo51 (l3 v) + c2)) (wrap (lo51 (l4 v) + c3)).

Definition fe_mul (a b : fe) : fe :=
  let a0 := l0 a in let a1 := l1 a in let a2 := l2 a in let a3 := l3 a in let a4 := l4 a in
  let b0 := l0 b in let b1 := l1 b in let b2 := l2 b in let b3 := l3 b in let b4 := l4 b in
  let a1_19 := wrap (a1 * 19) in let a2_19 := wrap (a2 * 19) in
  let a3_19 := wrap (a3 * 19) in let a4_19 := wrap (a4 * 19) in
  let r0 := addMul64 (addMul64 (addMul64 (addMul64 (mul64 a0 b0) a1_19 b4) a2_19 b3) a3_19 b2) a4_19 b1 in
  let r1 := addMul64 (addMul64 (addMul64 (addMul64 (mul64 a0 b1) a1 b0) a2_19 b4) a3_19 b3) a4_19 b2 in
  let r2 := addMul64 (addMul64 (addMul64 (addMul64 (mul64 a0 b2) a1 b1) a2 b0) a3_19 b4) a4_19 b3 in
  let r3 := addMul64 (addMul64 (addMul64 (addMul64 (mul64 a0 b3) a1 b2) a2 b1) a3 b0) a4_19 b4 in
  let r4 := addMul64 (addMul64 (addMul64 (addMul64 (mul64 a0 b4) a1 b3) a2 b2) a3 b1) a4 b0 in
  let c0 := shiftRightBy51 r0 in let c1 := shiftRightBy51 r1 in let c2 := shiftRightBy51 r2 in
  let c3 := shiftRightBy51 r3 in let c4 := shiftRightBy51 r4 in
  fe_carry (mkfe (wrap (lo51 (lo r0) + wrap (c4 * 19))) (wrap (lo51 (lo r1) + c0)) (wrap (lo51 (lo r2) + c1))
                 (wrap (lo51 (lo r3) + c2)) (wrap (lo51 (lo r4) + c3))).

Definition fe_square (a : fe) : fe :=
  let a0 := l0 a in let a1 := l1 a in let a2 := l2 a in let a3 := l3 a in let a4 := l4 a in
  let a0_2 := wrap (a0 * 2) in let a1_2 := wrap (a1 * 2) in
  let a1_38 := wrap (a1 * 38) in let a2_38 := wrap (a2 * 38) in let a3_38 := wrap (a3 * 38) in
  let a3_19 := wrap (a3 * 19) in let a4_19 := wrap (a4 * 19) in
  let r0 := addMul64 (addMul64 (mul64 a0 a0) a1_38 a4) a2_38 a3 in
  let r1 := addMul64 (addMul64 (mul64 a0_2 a1) a2_38 a4) a3_19 a3 in
  let r2 := addMul64 (addMul64 (mul64 a0_2 a2) a1 a1) a3_38 a4 in
  let r3 := addMul64 (addMul64 (mul64 a0_2 a3) a1_2 a2) a4_19 a4 in
  let r4 := addMul64 (addMul64 (mul64 a0_2 a4) a1_2 a3) a2 a2 in
  let c0 := shiftRightBy51 r0 in let c1 := shiftRightBy51 r1 in let c2 := shiftRightBy51 r2 in
  let c3 := shiftRightBy51 r3 in let c4 := shiftRightBy51 r4 in
  fe_carry (mkfe (wrap (lo51 (lo r0) + wrap (c4 * 19))) (wrap (lo51 (lo r1) + c0)) (wrap (lo51 (lo r2) + c1))
                 (wrap (lo51 (lo r3) + c2)) (wrap (lo51 (lo r4) + c3))).

Definition fe_add (a b : fe) : fe :=
  fe_carry (mkfe (wrap (l0 a + l0 b)) (wrap (l1 a + l1 b)) (wrap (l2 a + l2 b)) (wrap (l3 a + l3 b))
                 (wrap (l4 a + l4 b))).

(** uint64 subtraction x - y *)
Definition wsub (x y : N) : N := wrap (x + W64 - wrap y).
Definition two_p0 : N := 0xFFFFFFFFFFFDA.
Definition two_pi : N := 0xFFFFFFFFFFFFE.
Definition fe_sub (a b : fe) : fe :=
  fe_carry (mkfe (wsub (wrap (l0 a + two_p0)) (l0 b)) (wsub (wrap (l1 a + two_pi)) (l1 b))
                 (wsub (wrap (l2 a + two_pi)) (l2 b)) (wsub (wrap (l3 a + two_pi)) (l3 b))
                 (wsub (wrap (l4 a + two_pi)) (l4 b))).
Definition fe_neg (a : fe) : fe := fe_sub fe_zero a.

(** reduce: to the unique representative below p, limbs below 2^51 *)
Definition fe_reduce (v0 : fe) : fe :=
  let v := fe_carry v0 in
  let c := shr51 (wrap (l0 v + 19)) in
  let c := shr51 (wrap (l1 v + c)) in
  let c := shr51 (wrap (l2 v + c)) in
  let c := shr51 (wrap (l3 v + c)) in
  let c := shr51 (wrap (l4 v + c)) in
  let x0 := wrap (l0 v + wrap (19 * c)) in
  let x1 := wrap (l1 v + shr51 x0) in
  let x2 := wrap (l2 v + shr51 x1) in
  let x3 := wrap (l3 v + shr51 x2) in
  let x4 := wrap (l4 v + shr51 x3) in
  mkfe (lo51 x0) (lo51 x1) (lo51 x2) (lo51 x3) (lo51 x4).

(** binary.LittleEndian.Uint64(x[i:i+8]) *)
Definition le64 (x : list byte) (i : nat) : N := le_val (firstn 8 (skipn i x)).
(** SetBytes (the caller guarantees 32 bytes; other lengths panic in Go and are outside the model) *)
Definition fe_set_bytes (x : list byte) : fe :=
  mkfe (lo51 (le64 x 0)) (lo51 (N.shiftr (le64 x 6) 3)) (lo51 (N.shiftr (le64 x 12) 6))
       (lo51 (N.shiftr (le64 x 19) 1)) (lo51 (N.shiftr (le64 x 24) 12)).

(** bytes: reduce, then OR each limb, shifted to its bit offset, into the 32-byte output *)
Fixpoint or_bytes (o b : list byte) : list byte :=
  match o, b with
  | x :: o', y :: b' => n2b (N.lor (b2n x) (b2n y)) :: or_bytes o' b'
  | _, _ => o
  end.
(** out[off+i] |= bs[i] while off+i < len(out) *)
Fixpoint or_at (out : list byte) (off : nat) (bs : list byte) {struct off} : list byte :=
  match off with
  | O => or_bytes out bs
  | S k => match out with x :: out' => x :: or_at out' k bs | [] => [] end
  end.
Definition limb_bytes (l : N) (i : nat) : list byte := le_bytes 8 (wrap (N.shiftl l (N.of_nat ((i * 51) mod 8)))).
Definition fe_bytes (v : fe) : list byte :=
  let t := fe_reduce v in
  let out := repeat x00 32 in
  let out := or_at out 0 (limb_bytes (l0 t) 0) in
  let out := or_at out 6 (limb_bytes (l1 t) 1) in
  let out := or_at out 12 (limb_bytes (l2 t) 2) in
  let out := or_at out 19 (limb_bytes (l3 t) 3) in
  or_at out 25 (limb_bytes (l4 t) 4).

Definition fe_equal (a b : fe) : bool := bytes_eqb (fe_bytes a) (fe_bytes b).
Definition fe_is_negative (a : fe) : N := N.land (b2n (hd x00 (fe_bytes a))) 1.
Definition fe_select (a b : fe) (cond : bool) : fe := if cond then a else b.

(** Mult32 *)
Definition mul51 (a b : N) : N * N :=
  let p := a * b in let mh := hi64 p in let ml := wrap p in
  (lo51 ml, N.lor (wrap (N.shiftl mh 13)) (N.shiftr ml 51)).
Definition fe_mult32 (x : fe) (y : N) : fe :=
  let '(x0lo, x0hi) := mul51 (l0 x) y in let '(x1lo, x1hi) := mul51 (l1 x) y in
  let '(x2lo, x2hi) := mul51 (l2 x) y in let '(x3lo, x3hi) := mul51 (l3 x) y in
  let '(x4lo, x4hi) := mul51 (l4 x) y in
  mkfe (wrap (x0lo + wrap (19 * x4hi))) (wrap (x1lo + x0hi)) (wrap (x2lo + x1hi)) (wrap (x3lo + x2hi))
       (wrap (x4lo + x3hi)).

(** n squarings *)
Fixpoint fe_sqn (n : nat) (t : fe) : fe := match n with O => t | S k => fe_sqn k (fe_square t) end.

(** Invert: z^(p-2) by the addition chain of fe.go *)
Definition fe_invert (z : fe) : fe :=
  let z2 := fe_square z in
  let t := fe_sqn 2 z2 in
  let z9 := fe_mul t z in
  let z11 := fe_mul z9 z2 in
  let t := fe_square z11 in
  let z2_5_0 := fe_mul t z9 in
  let t := fe_sqn 5 z2_5_0 in
  let z2_10_0 := fe_mul t z2_5_0 in
  let t := fe_sqn 10 z2_10_0 in
  let z2_20_0 := fe_mul t z2_10_0 in
  let t := fe_sqn 20 z2_20_0 in
  let t := fe_mul t z2_20_0 in
  let t := fe_sqn 10 t in
  let z2_50_0 := fe_mul t z2_10_0 in
  let t := fe_sqn 50 z2_50_0 in
  let z2_100_0 := fe_mul t z2_50_0 in
  let t := fe_sqn 100 z2_100_0 in
  let t := fe_mul t z2_100_0 in
  let t := fe_sqn 50 t in
  let t := fe_mul t z2_50_0 in
  let t := fe_sqn 5 t in
  fe_mul t z11.

(** Pow22523: x^((p-5)/8) *)
Definition fe_pow22523 (x : fe) : fe :=
  let t0 := fe_square x in
  let t1 := fe_sqn 2 t0 in
  let t1 := fe_mul x t1 in
  let t0 := fe_mul t0 t1 in
  let t0 := fe_square t0 in
  let t0 := fe_mul t1 t0 in
  let t1 := fe_sqn 5 t0 in
  let t0 := fe_mul t1 t0 in
  let t1 := fe_sqn 10 t0 in
  let t1 := fe_mul t1 t0 in
  let t2 := fe_sqn 20 t1 in
  let t1 := fe_mul t2 t1 in
  let t1 := fe_sqn 10 t1 in
  let t0 := fe_mul t1 t0 in
  let t1 := fe_sqn 50 t0 in
  let t1 := fe_mul t1 t0 in
  let t2 := fe_sqn 100 t1 in
  let t1 := fe_mul t2 t1 in
  let t1 := fe_sqn 50 t1 in
  let t0 := fe_mul t1 t0 in
  let t0 := fe_sqn 2 t0 in
  fe_mul t0 x.

Definition fe_sqrt_m1 : fe :=
  mkfe 1718705420411056 234908883556509 2233514472574048 2117202627021982 765476049583133.

(** SqrtRatio: (r, wasSquare) *)
Definition fe_absolute (u : fe) : fe := fe_select (fe_neg u) u (N.eqb (fe_is_negative u) 1).
Definition fe_sqrt_ratio (u v : fe) : fe * bool :=
  let v2 := fe_square v in
  let uv3 := fe_mul u (fe_mul v2 v) in
  let uv7 := fe_mul uv3 (fe_square v2) in
  let r := fe_mul uv3 (fe_pow22523 uv7) in
  let check := fe_mul v (fe_square r) in
  let uNeg := fe_neg u in
  let correct := fe_equal check u in
  let flipped := fe_equal check uNeg in
  let flippedI := fe_equal check (fe_mul uNeg fe_sqrt_m1) in
  let rPrime := fe_mul r fe_sqrt_m1 in
  let r := fe_select rPrime r (flipped || flippedI) in
  (fe_absolute r, correct || flipped).

(** wire form used by the harness: five limbs, 8 bytes little-endian each *)
Definition fe_of_bytes40 (x : list byte) : fe :=
  mkfe (le64 x 0) (le64 x 8) (le64 x 16) (le64 x 24) (le64 x 32).
Definition fe_to_bytes40 (v : fe) : list byte :=
  le_bytes 8 (l0 v) ++ le_bytes 8 (l1 v) ++ le_bytes 8 (l2 v) ++ le_bytes 8 (l3 v) ++ le_bytes 8 (l4 v).
