// Package ref: independent reference computations used as oracles. Nothing here imports pat-go or
// circl's expander/hash-to-field; only the Go standard library.
package ref

import (
	"crypto/elliptic"
	"crypto/sha256"
	"crypto/sha512"
	"hash"
	"math/big"
)

type HashSpec struct {
	New   func() hash.Hash
	Out   int // b_in_bytes
	Block int // s_in_bytes
}

var (
	SHA256 = HashSpec{sha256.New, 32, 64}
	SHA384 = HashSpec{sha512.New384, 48, 128}
	SHA512 = HashSpec{sha512.New, 64, 128}
)

// ExpandXMD is expand_message_xmd of RFC 9380 section 5.3.1 (DST at most 255 bytes).
func ExpandXMD(hs HashSpec, msg, dst []byte, n int) []byte {
	ell := (n + hs.Out - 1) / hs.Out
	dstPrime := append(append([]byte{}, dst...), byte(len(dst)))
	hh := hs.New()
	hh.Write(make([]byte, hs.Block))
	hh.Write(msg)
	hh.Write([]byte{byte(n >> 8), byte(n), 0})
	hh.Write(dstPrime)
	b0 := hh.Sum(nil)
	hh = hs.New()
	hh.Write(b0)
	hh.Write([]byte{1})
	hh.Write(dstPrime)
	bi := hh.Sum(nil)
	out := append([]byte{}, bi...)
	for i := 2; i <= ell; i++ {
		x := make([]byte, len(b0))
		for j := range x {
			x[j] = b0[j] ^ bi[j]
		}
		hh = hs.New()
		hh.Write(x)
		hh.Write([]byte{byte(i)})
		hh.Write(dstPrime)
		bi = hh.Sum(nil)
		out = append(out, bi...)
	}
	return out[:n]
}

type CurveSpec struct {
	Curve elliptic.Curve
	Hash  HashSpec
	L     int
}

func SpecFor(c elliptic.Curve) CurveSpec {
	switch c.Params().Name {
	case "P-224":
		return CurveSpec{c, SHA256, 32}
	case "P-256":
		return CurveSpec{c, SHA256, 48}
	case "P-384":
		return CurveSpec{c, SHA384, 72}
	default:
		return CurveSpec{c, SHA512, 98}
	}
}

// BlindScalar: hash_to_field(XMD(H, "ECDSA Key Blind"), minimal-big-endian(D) || 0x00 || ctx, L) mod N.
func BlindScalar(c elliptic.Curve, blindKey, ctx []byte) *big.Int {
	sp := SpecFor(c)
	d := new(big.Int).SetBytes(blindKey)
	msg := append(append(d.Bytes(), 0x00), ctx...)
	u := ExpandXMD(sp.Hash, msg, []byte("ECDSA Key Blind"), sp.L)
	return new(big.Int).Mod(new(big.Int).SetBytes(u), c.Params().N)
}

// BlindPoint multiplies the (x, y) point by the blind scalar derived from (blindKey, ctx).
func BlindPoint(c elliptic.Curve, x, y *big.Int, blindKey, ctx []byte) (*big.Int, *big.Int) {
	return c.ScalarMult(x, y, BlindScalar(c, blindKey, ctx).Bytes())
}

var (
	CtxClientBlind = append([]byte{0, 3}, []byte("ClientBlind")...)
	CtxIssuerBlind = append([]byte{0, 3}, []byte("IssuerBlind")...)
)

// BlindCompressedP384: compressed encoding of the client key blinded with the request blind; nil if the key does not parse.
func BlindCompressedP384(clientKeyEnc, blindKey, ctx []byte) []byte {
	c := elliptic.P384()
	x, y := elliptic.UnmarshalCompressed(c, clientKeyEnc)
	if x == nil {
		return nil
	}
	bx, by := BlindPoint(c, x, y, blindKey, ctx)
	return elliptic.MarshalCompressed(c, bx, by)
}

func ParsesP384(b []byte) bool {
	x, _ := elliptic.UnmarshalCompressed(elliptic.P384(), b)
	return x != nil
}
