(** BatchCodecs.v — the generic batch request list (tokens/batched/token_request.go) and
    response list (tokens/batched/tokens.go, issuer.go), after the fix: commits. *)
From PatVerif Require Export Model.Codecs.
Open Scope N_scope.

(** * Request list: elements are type-1 or type-2 requests *)
Definition bitem : Type := (N * breq)%type.
Definition enc_bitem (it : bitem) : list byte := enc_req12 (fst it) (snd it).
Definition enc_batch (l : list bitem) : list byte :=
  let body := concat (map enc_bitem l) in enc_varint (N.of_nat (length body)) ++ body.

Definition fresh_breq : breq := {| q_keyid := 0; q_blinded := [] |}.   (* new(BasicP..TokenRequest) *)

(** the loop of Unmarshal over the declared list; [i += len(token_request.Marshal())] is
    [skipn (length (enc_req12 ty r))].  Fuel = number of remaining bytes (each turn consumes > 0). *)
Fixpoint dec_items (fuel : nat) (s : list byte) : option (list bitem) :=
  match s with
  | [] => Some []
  | _ =>
    match fuel with
    | O => None
    | S f =>
      match read_u16 s with
      | None => None                       (* fewer than 2 bytes left *)
      | Some (ty, _) =>
        let ne := if ty =? 1 then Some ne1 else if ty =? 2 then Some ne2 else None in
        match ne with
        | None => None                     (* the generic batch carries only types 1 and 2 *)
        | Some ne =>
          match um_req12 ty ne fresh_breq s with
          | (true, r) =>
            match dec_items f (skipn (length (enc_req12 ty r)) s) with
            | Some l => Some ((ty, r) :: l)
            | None => None
            end
          | (false, _) => None
          end
        end
      end
    end
  end.

Definition dec_batch (data : list byte) : option (list bitem) :=
  match consume_varint data with
  | None => None
  | Some (l, off) =>
    if N.of_nat (length data - off) <? l then None
    else let body := firstn (N.to_nat l) (skipn off data) in dec_items (length body) body
  end.

Definition wf_bitem (it : bitem) : Prop :=
  (fst it = 1 /\ wf_req12 ne1 (snd it)) \/ (fst it = 2 /\ wf_req12 ne2 (snd it)).
Definition wf_batch (l : list bitem) : Prop :=
  Forall wf_bitem l /\ N.of_nat (length (concat (map enc_bitem l))) <= max_varint.

(** * Response list *)
Definition resp_len (ty : N) : option nat :=
  match ty with 1 => Some 145%nat | 2 => Some 256%nat | _ => None end.

Fixpoint dec_resp_items (fuel : nat) (s : list byte) : option (list (list byte)) :=
  match s with
  | [] => Some []
  | p :: s1 =>
    match fuel with
    | O => None
    | S f =>
      if b2n p =? 0 then
        match dec_resp_items f s1 with Some rest => Some ([] :: rest) | None => None end
      else if b2n p =? 1 then
        match read_u16 s1 with
        | None => None
        | Some (ty, s2) =>
          match resp_len ty with
          | None => None
          | Some n =>
            match read_bytes n s2 with
            | None => None
            | Some (r, s3) =>
              match dec_resp_items f s3 with Some rest => Some (r :: rest) | None => None end
            end
          end
        end
      else None
    end
  end.

Definition dec_resps (data : list byte) : option (list (list byte)) :=
  match consume_varint data with
  | None => None
  | Some (l, off) =>
    if N.of_nat (length data - off) <? l then None
    else let body := firstn (N.to_nat l) (skipn off data) in dec_resp_items (length body) body
  end.

(** canonical encoding of a decoded response list: the type is determined by the length *)
Definition enc_resp_item (r : list byte) : list byte :=
  match r with
  | [] => [x00]
  | _ => x01 :: u16 (if Nat.eqb (length r) 145 then 1 else 2) ++ r
  end.
Definition enc_resps (l : list (list byte)) : list byte :=
  let body := concat (map enc_resp_item l) in enc_varint (N.of_nat (length body)) ++ body.
Definition wf_resp (r : list byte) : Prop := r = [] \/ length r = 145%nat \/ length r = 256%nat.

(** what EvaluateBatch writes for (request type, per-request response): empty response = absent *)
Definition enc_resp_typed (it : N * list byte) : list byte :=
  match snd it with
  | [] => [x00]
  | r => x01 :: u16 (fst it) ++ r
  end.
Definition enc_resps_typed (l : list (N * list byte)) : list byte :=
  let body := concat (map enc_resp_typed l) in enc_varint (N.of_nat (length body)) ++ body.

Close Scope N_scope.
