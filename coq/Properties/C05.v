(** C05 — generic batch issuance keeps order and count and isolates failures.
    Model/BatchIssuer.v: EvaluateBatch over a list of issuers, each an ARBITRARY partial evaluation function with its
    token type and the last byte of its key id; the response list codec is Model/BatchCodecs.v (the C04 model of
    UnmarshalBatchedTokenResponses).  [wf_issuer]: a successful evaluation returns a response of its type's fixed
    length (145 = Ne + 2 Ns for type 1, 256 = Nk for type 2) — what the response framing relies on. *)
From PatVerif Require Import Model.BatchIssuer Proofs.BatchIssuerP Proofs.BatchCodecsP Model.Quicwire.
Open Scope N_scope.

(** the decoded response list is EXACTLY the list of per-request slots, in request order: one entry per request,
    entry n = the slot of request n *)
Theorem batch_length_order : forall is rs, Forall wf_issuer is ->
  N.of_nat (length (concat (map enc_resp_item (responses is rs)))) <= max_varint ->
  dec_resps (evaluate_batch is rs) = Some (responses is rs) /\
  length (responses is rs) = length rs /\
  forall n, nth_error (responses is rs) n = option_map (eval_one is) (nth_error rs n).
Proof.
  intros is rs F Hm. split; [now apply batch_decodes_l|]. split; [apply responses_length|intro; apply responses_nth].
Qed.
Print Assumptions batch_length_order.

(** the size side condition holds for every batch of fewer than 2^53 requests *)
Theorem batch_size_ok : forall is rs, Forall wf_issuer is ->
  (length (concat (map enc_resp_item (responses is rs))) <= 259 * length rs)%nat.
Proof. exact body_bound. Qed.
Print Assumptions batch_size_ok.

(** an entry is present exactly when a configured issuer of the request's type and truncated key id evaluates it
    successfully; it then holds the response of the FIRST such issuer that succeeds *)
Theorem present_iff : forall is it, Forall wf_issuer is ->
  (eval_one is it <> [] <->
   exists i r, In i is /\ matches i it = true /\ i_eval i (q_keyid (snd it)) (q_blinded (snd it)) = Some r).
Proof.
  intros is it F. split.
  - intro H. destruct (eval_one_cases is it) as [E|(i & Hi & M & E)]; [contradiction|]. eauto.
  - now apply eval_one_present.
Qed.
Print Assumptions present_iff.

Theorem present_is_an_issuer_response : forall is it, eval_one is it <> [] ->
  exists i, In i is /\ matches i it = true /\ i_eval i (q_keyid (snd it)) (q_blinded (snd it)) = Some (eval_one is it).
Proof. intros is it H. destruct (eval_one_cases is it) as [E|X]; [contradiction|exact X]. Qed.
Print Assumptions present_is_an_issuer_response.

(** isolation: entry n depends on request n only — replacing any other request (by a failing one, a malformed one,
    anything) leaves it unchanged, and the list still decodes *)
Theorem isolation : forall is rs rs' n, nth_error rs n = nth_error rs' n ->
  nth_error (responses is rs) n = nth_error (responses is rs') n.
Proof. exact isolation_l. Qed.
Print Assumptions isolation.

(** non-vacuity: two issuers sharing type and truncated key id, the first failing on this request *)
Example first_success_example :
  let i1 := {| i_type := 2; i_kid := 7; i_eval := fun _ _ => None |} in
  let i2 := {| i_type := 2; i_kid := 7; i_eval := fun _ _ => Some (repeat x41 256) |} in
  let it := (2, {| q_keyid := 7; q_blinded := [] |}) in
  eval_one [i1; i2] it = repeat x41 256 /\ eval_one [i1] it = [] /\ eval_one [i2; i1] (1, snd it) = [].
Proof. vm_compute. repeat split; reflexivity. Qed.
