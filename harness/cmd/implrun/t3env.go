package main

import (
	crand "crypto/rand"
	"crypto/rsa"
	"crypto/x509"
	"embed"
	"encoding/pem"
	"sort"
	"sync"

	"github.com/cloudflare/pat-go/ecdsa"
	"github.com/cloudflare/pat-go/tokens/type3"
	"verif/harness/internal/h"

	"crypto/elliptic"
)

var (
	rsaOnce sync.Once
	rsaKeys []*rsa.PrivateKey
)

// rsaKey returns the i-th process-wide RSA-2048 key (generated once; key generation is too slow per case).
func rsaKey(i int) *rsa.PrivateKey {
	rsaOnce.Do(func() {
		rsaKeys = make([]*rsa.PrivateKey, 3)
		var wg sync.WaitGroup
		for j := range rsaKeys {
			wg.Add(1)
			go func(j int) {
				defer wg.Done()
				k, err := rsa.GenerateKey(crand.Reader, 2048)
				if err != nil {
					panic(err)
				}
				rsaKeys[j] = k
			}(j)
		}
		wg.Wait()
	})
	return rsaKeys[i%len(rsaKeys)]
}

//go:embed testdata/*.pem
var testKeys embed.FS

// specialRSAKeys: committed RSA-2048 test keys whose token key id (SHA-256 of the RSASSA-PSS SPKI) has a boundary
// byte where the protocols truncate it: last byte 00 / 01 / ff (types 1, 2, 5 carry the last byte), first byte 00
// (the type-3 inner request carries the first byte).
func specialRSAKeys() map[string]*rsa.PrivateKey {
	out := map[string]*rsa.PrivateKey{}
	ents, _ := testKeys.ReadDir("testdata")
	for _, e := range ents {
		b, _ := testKeys.ReadFile("testdata/" + e.Name())
		blk, _ := pem.Decode(b)
		if blk == nil {
			continue
		}
		if k, err := x509.ParsePKCS1PrivateKey(blk.Bytes); err == nil {
			out[e.Name()] = k
		}
	}
	return out
}

func specialRSAKeyList() []*rsa.PrivateKey {
	m := specialRSAKeys()
	var names []string
	for n := range m {
		names = append(names, n)
	}
	sort.Strings(names)
	var out []*rsa.PrivateKey
	for _, n := range names {
		out = append(out, m[n])
	}
	return out
}

// newT3WithKey is newT3 with a given RSA token key.
func newT3WithKey(c *h.Ctx, k *rsa.PrivateKey, seed []byte, origins map[string][]byte) *t3env {
	nk, err := type3.CreatePrivateEncapKeyFromSeed(seed)
	if err != nil {
		panic(err)
	}
	iss := type3.VerifNewIssuerWithNameKey(k, nk)
	for name, ik := range origins {
		priv, _ := ecdsa.CreateKey(elliptic.P384(), ik)
		iss.AddOriginWithIndexKey(name, priv)
	}
	return &t3env{issuer: iss, nameKey: iss.NameKey(), tokenKeyID: iss.TokenKeyID(), key: k}
}

type t3env struct {
	issuer     *type3.RateLimitedIssuer
	nameKey    type3.EncapKey
	tokenKeyID []byte
	key        *rsa.PrivateKey
}

// newT3 builds an issuer with a seed-derived name key and the given origins (name -> index key bytes).
func newT3(c *h.Ctx, rsaIdx int, seed []byte, origins map[string][]byte) *t3env {
	k := rsaKey(rsaIdx)
	nk, err := type3.CreatePrivateEncapKeyFromSeed(seed)
	if err != nil {
		panic(err)
	}
	iss := type3.VerifNewIssuerWithNameKey(k, nk)
	for name, ik := range origins {
		priv, _ := ecdsa.CreateKey(elliptic.P384(), ik)
		iss.AddOriginWithIndexKey(name, priv)
	}
	return &t3env{issuer: iss, nameKey: iss.NameKey(), tokenKeyID: iss.TokenKeyID(), key: k}
}

func (e *t3env) request(client type3.RateLimitedClient, challenge, nonce, blind []byte, origin string) (type3.RateLimitedTokenRequestState, error) {
	return client.CreateTokenRequest(challenge, nonce, blind, e.tokenKeyID, e.issuer.TokenKey(), origin, e.nameKey)
}
