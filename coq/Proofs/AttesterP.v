From PatVerif Require Import Model.Attester.

Lemma fset_eq {V} (m : fmap V) k v : fset m k v k = Some v.
Proof. unfold fset. now rewrite bytes_eqb_refl. Qed.
Lemma fset_ne {V} (m : fmap V) k v k' : k' <> k -> fset m k v k' = m k'.
Proof. unfold fset. intro H. destruct (bytes_eqb k' k) eqn:E; [apply bytes_eqb_eq in E; congruence|reflexivity]. Qed.

Lemma key_dec (a b : key) : {a = b} + {a <> b}.
Proof. destruct (bytes_eqb a b) eqn:E; [left; now apply bytes_eqb_eq|right; intro H; apply bytes_eqb_eq in H; congruence]. Qed.

(** * one step *)
Lemma finalize_spec s c i a :
  let '(s', r) := finalize s c i a in
  match r with
  | Reject =>
      (registered s c = false \/ exists a', bound s c i = Some a' /\ a' <> a) /\
      (forall c' i', bound s' c' i' = bound s c' i') /\ (forall c', registered s' c' = registered s c')
  | Accept j =>
      j = i /\ registered s c = true /\ (bound s c i = None \/ bound s c i = Some a) /\
      bound s' c i = Some a /\
      (forall c' i', (c', i') <> (c, i) -> bound s' c' i' = bound s c' i') /\
      (forall c', registered s' c' = registered s c')
  | Registered => False
  end.
Proof.
  unfold finalize, registered, bound. destruct (s c) as [st|] eqn:Ec.
  - assert (Hoth : forall (st' : cstate) c', c' <> c -> fset s c st' c' = s c') by (intros; now apply fset_ne).
    destruct (clientIndices st i) as [e|] eqn:Ei.
    + destruct (bytes_eqb e a) eqn:Eq; cbn [negb].
      * apply bytes_eqb_eq in Eq. subst e.
        split; [reflexivity|]. split; [reflexivity|]. split; [now right|].
        rewrite fset_eq. cbn [clientIndices]. split; [apply fset_eq|]. split.
        -- intros c' i' Hne. destruct (key_dec c' c) as [->|Hc].
           ++ rewrite fset_eq, Ec. cbn [clientIndices]. apply fset_ne. congruence.
           ++ now rewrite Hoth.
        -- intro c'. destruct (key_dec c' c) as [->|Hc]; [now rewrite fset_eq, Ec|now rewrite Hoth].
      * split; [right; exists e; split; [reflexivity|]|].
        { intro H. subst. now rewrite bytes_eqb_refl in Eq. }
        split.
        -- intros c' i'. destruct (key_dec c' c) as [->|Hc]; [now rewrite fset_eq, Ec|now rewrite Hoth].
        -- intro c'. destruct (key_dec c' c) as [->|Hc]; [now rewrite fset_eq, Ec|now rewrite Hoth].
    + split; [reflexivity|]. split; [reflexivity|]. split; [now left|].
      rewrite fset_eq. cbn [clientIndices]. split; [apply fset_eq|]. split.
      * intros c' i' Hne. destruct (key_dec c' c) as [->|Hc].
        -- rewrite fset_eq, Ec. cbn [clientIndices]. apply fset_ne. congruence.
        -- now rewrite Hoth.
      * intro c'. destruct (key_dec c' c) as [->|Hc]; [now rewrite fset_eq, Ec|now rewrite Hoth].
  - split; [left; reflexivity|]. split; reflexivity.
Qed.

Lemma register_spec s c :
  registered (register s c) c = true /\
  (forall c', c' <> c -> registered (register s c) c' = registered s c') /\
  (forall c' i', bound (register s c) c' i' = bound s c' i') /\
  (forall c', registered s c' = true -> registered (register s c) c' = true).
Proof.
  unfold register, registered, bound. destruct (s c) as [st|] eqn:Ec.
  - rewrite Ec. repeat split; auto.
  - rewrite fset_eq. split; [reflexivity|]. split; [intros c' H; now rewrite fset_ne|]. split.
    + intros c' i'. destruct (key_dec c' c) as [->|Hc]; [now rewrite fset_eq, Ec|now rewrite fset_ne].
    + intros c' H. destruct (key_dec c' c) as [->|Hc]; [now rewrite fset_eq|now rewrite fset_ne].
Qed.

(** a rejected call changes no binding and no registration *)
Theorem reject_preserves_l s c i a s' : step s (Finalize c i a) = (s', Reject) ->
  (forall c' i', bound s' c' i' = bound s c' i') /\ (forall c', registered s' c' = registered s c').
Proof.
  cbn [step]. intro H. pose proof (finalize_spec s c i a) as S. rewrite H in S. tauto.
Qed.

(** * histories *)
Lemma final_app s h1 h2 : final s (h1 ++ h2) = final (final s h1) h2.
Proof. unfold final. apply fold_left_app. Qed.
Lemma final_snoc s h o : final s (h ++ [o]) = fst (step (final s h) o).
Proof. rewrite final_app. reflexivity. Qed.

(** bindings are never changed once made *)
Lemma bound_step_mono s o c i a : bound s c i = Some a -> bound (fst (step s o)) c i = Some a.
Proof.
  intro H. destruct o as [c0|c0 i0 a0]; cbn [step fst].
  - destruct (register_spec s c0) as (_ & _ & Hb & _). now rewrite Hb.
  - pose proof (finalize_spec s c0 i0 a0) as S. destruct (finalize s c0 i0 a0) as [s' r]. cbn [fst].
    destruct r as [|j|]; [contradiction| |].
    + destruct S as (-> & _ & Hprev & Hnew & Hother & _).
      destruct (key_dec c c0) as [->|Hc]; [destruct (key_dec i i0) as [->|Hi]|].
      * rewrite Hnew. destruct Hprev as [Hp|Hp]; congruence.
      * rewrite Hother by congruence. exact H.
      * rewrite Hother by congruence. exact H.
    + destruct S as (_ & Hb & _). now rewrite Hb.
Qed.

Lemma bound_final_mono h : forall s c i a, bound s c i = Some a -> bound (final s h) c i = Some a.
Proof.
  induction h as [|o h IH]; intros s c i a H; [exact H|]. cbn [final fold_left]. apply IH.
  now apply bound_step_mono.
Qed.

Lemma registered_final_mono h : forall s c, registered s c = true -> registered (final s h) c = true.
Proof.
  induction h as [|o h IH]; intros s c H; [exact H|]. cbn [final fold_left]. apply IH.
  destruct o as [c0|c0 i0 a0]; cbn [step fst].
  - destruct (register_spec s c0) as (_ & _ & _ & Hm). now apply Hm.
  - pose proof (finalize_spec s c0 i0 a0) as S. destruct (finalize s c0 i0 a0) as [s' r]. cbn [fst].
    destruct r as [|j|]; [contradiction| |].
    + destruct S as (_ & _ & _ & _ & _ & Hr). now rewrite Hr.
    + destruct S as (_ & _ & Hr). now rewrite Hr.
Qed.

(** where a binding / a registration in the final state came from *)
Lemma bound_origin h : forall c i a, bound (final init h) c i = Some a -> accepted h c i a.
Proof.
  induction h as [|o h IH] using rev_ind; intros c i a H.
  - cbn in H. discriminate.
  - rewrite final_snoc in H. destruct o as [c0|c0 i0 a0]; cbn [step fst] in H.
    + destruct (register_spec (final init h) c0) as (_ & _ & Hb & _). rewrite Hb in H.
      destruct (IH _ _ _ H) as (p1 & p2 & -> & Ho). exists p1, (p2 ++ [Register c0]).
      split; [now rewrite <- app_assoc|exact Ho].
    + pose proof (finalize_spec (final init h) c0 i0 a0) as S.
      destruct (finalize (final init h) c0 i0 a0) as [s' r] eqn:F. cbn [fst] in H.
      destruct r as [|j|]; [contradiction| |].
      * destruct S as (-> & _ & _ & Hnew & Hother & _).
        destruct (key_dec c c0) as [->|Hc]; [destruct (key_dec i i0) as [->|Hi]|].
        -- rewrite Hnew in H. inversion H; subst a0.
           exists h, []. split; [reflexivity|]. unfold outcome. cbn [step]. now rewrite F.
        -- rewrite Hother in H by congruence. destruct (IH _ _ _ H) as (p1 & p2 & -> & Ho).
           exists p1, (p2 ++ [Finalize c0 i0 a0]). split; [now rewrite <- app_assoc|exact Ho].
        -- rewrite Hother in H by congruence. destruct (IH _ _ _ H) as (p1 & p2 & -> & Ho).
           exists p1, (p2 ++ [Finalize c0 i0 a0]). split; [now rewrite <- app_assoc|exact Ho].
      * destruct S as (_ & Hb & _). rewrite Hb in H. destruct (IH _ _ _ H) as (p1 & p2 & -> & Ho).
        exists p1, (p2 ++ [Finalize c0 i0 a0]). split; [now rewrite <- app_assoc|exact Ho].
Qed.

Lemma registered_origin h : forall c, registered (final init h) c = true -> In (Register c) h.
Proof.
  induction h as [|o h IH] using rev_ind; intros c H.
  - cbn in H. discriminate.
  - rewrite final_snoc in H. apply in_or_app. destruct o as [c0|c0 i0 a0]; cbn [step fst] in H.
    + destruct (key_dec c c0) as [->|Hc]; [right; now left|].
      destruct (register_spec (final init h) c0) as (_ & Hn & _). rewrite Hn in H by exact Hc. left. now apply IH.
    + pose proof (finalize_spec (final init h) c0 i0 a0) as S.
      destruct (finalize (final init h) c0 i0 a0) as [s' r]. cbn [fst] in H.
      destruct r as [|j|]; [contradiction| |].
      * destruct S as (_ & _ & _ & _ & _ & Hr). rewrite Hr in H. left. now apply IH.
      * destruct S as (_ & _ & Hr). rewrite Hr in H. left. now apply IH.
Qed.

Lemma registered_after h c : In (Register c) h -> registered (final init h) c = true.
Proof.
  intro H. apply in_split in H. destruct H as (p1 & p2 & ->). rewrite final_app.
  change (final (final init p1) (Register c :: p2)) with (final (register (final init p1) c) p2).
  apply registered_final_mono. destruct (register_spec (final init p1) c) as (Hr & _). exact Hr.
Qed.

(** an accepted call leaves its binding in every later state *)
Lemma accepted_bound h c i a : accepted h c i a -> bound (final init h) c i = Some a.
Proof.
  intros (p1 & p2 & -> & Ho). rewrite final_app.
  change (final (final init p1) (Finalize c i a :: p2)) with (final (fst (step (final init p1) (Finalize c i a))) p2).
  apply bound_final_mono.
  unfold outcome in Ho. cbn [step] in *.
  pose proof (finalize_spec (final init p1) c i a) as S.
  destruct (finalize (final init p1) c i a) as [s' r]. cbn [snd fst] in *. subst r. tauto.
Qed.

(** * the property, clause by clause *)
Theorem no_two_anon_l h c i a a' : accepted h c i a -> accepted h c i a' -> a = a'.
Proof. intros H1 H2. apply accepted_bound in H1. apply accepted_bound in H2. congruence. Qed.

Theorem reject_only_if_l h c i a : outcome h (Finalize c i a) = Reject ->
  ~ In (Register c) h \/ exists a', a' <> a /\ accepted h c i a'.
Proof.
  unfold outcome. cbn [step]. intro H.
  pose proof (finalize_spec (final init h) c i a) as S.
  destruct (finalize (final init h) c i a) as [s' r]. cbn [snd] in H. subst r.
  destruct S as ([Hr|(a' & Hb & Hne)] & _).
  - left. intro Hin. apply registered_after in Hin. congruence.
  - right. exists a'. split; [exact Hne|now apply bound_origin].
Qed.

Theorem accept_if_l h c i a : In (Register c) h -> (forall a', accepted h c i a' -> a' = a) ->
  outcome h (Finalize c i a) = Accept i.
Proof.
  intros Hreg Hall. destruct (outcome h (Finalize c i a)) as [|j|] eqn:E.
  - unfold outcome in E. cbn [step] in E. pose proof (finalize_spec (final init h) c i a) as S.
    destruct (finalize (final init h) c i a) as [s' r]. cbn [snd] in E. subst r. contradiction.
  - unfold outcome in E. cbn [step] in E. pose proof (finalize_spec (final init h) c i a) as S.
    destruct (finalize (final init h) c i a) as [s' r]. cbn [snd] in E. subst r. destruct S as (-> & _). reflexivity.
  - apply reject_only_if_l in E. destruct E as [E|(a' & Hne & Hacc)]; [contradiction|].
    apply Hall in Hacc. congruence.
Qed.

Theorem unregistered_refused_l h c i a : ~ In (Register c) h -> outcome h (Finalize c i a) = Reject.
Proof.
  intro H. unfold outcome. cbn [step]. unfold finalize.
  destruct (final init h c) as [st|] eqn:E; [|reflexivity].
  exfalso. apply H. apply registered_origin. unfold registered. now rewrite E.
Qed.

(** a rejected call leaves all previously accepted bindings in force: they still decide later calls *)
Theorem rejected_call_keeps_bindings_l h c i a c' i' a' :
  outcome h (Finalize c i a) = Reject -> accepted h c' i' a' ->
  bound (final init (h ++ [Finalize c i a])) c' i' = Some a'.
Proof.
  intros Hrej Hacc. rewrite final_snoc. apply accepted_bound in Hacc.
  unfold outcome in Hrej. destruct (step (final init h) (Finalize c i a)) as [s' r] eqn:S. cbn [snd fst] in *. subst r.
  apply reject_preserves_l in S. destruct S as [Hb _]. now rewrite Hb.
Qed.

(** Non-vacuity: a concrete history with a collision between two anon ids on one index *)
Example ex_history :
  let c := [x01] in let i := [x02] in let a := [x0a] in let b := [x0b] in
  let h := [Register c; Finalize c i a; Finalize c i b; Finalize c i a] in
  outcome [] (Finalize c i a) = Reject /\
  outcome [Register c] (Finalize c i a) = Accept i /\
  outcome [Register c; Finalize c i a] (Finalize c i b) = Reject /\
  outcome [Register c; Finalize c i a; Finalize c i b] (Finalize c i a) = Accept i /\
  bound (final init h) c i = Some a.
Proof. vm_compute. repeat split; reflexivity. Qed.
