(** C19 — QUIC varints and length-prefixed byte strings are exact and bounds-safe.
    Only statements; every proof is [exact <lemma from Proofs/QuicwireP.v>]. *)
From PatVerif Require Import Model.Quicwire Proofs.QuicwireP.
Open Scope N_scope.

(** every value up to 2^62-1: shortest form after the untouched prefix; size function agrees *)
Theorem append_varint_exact : forall p v, v <= max_varint ->
  exists e, append_varint p v = Ok (p ++ e) /\ size_varint v = Ok (length e) /\ shortest v (length e).
Proof. exact append_varint_exact_l. Qed.
Print Assumptions append_varint_exact.

(** decoder returns the value and that length *)
Theorem consume_append : forall v rest e, v <= max_varint -> append_varint [] v = Ok e ->
  consume_varint (e ++ rest) = Some (v, length e).
Proof. exact consume_append_l. Qed.
Print Assumptions consume_append.

(** every byte string: reads exactly the announced bytes, fails exactly when fewer are available *)
Theorem consume_reads_announced : forall c0 t,
  let k := announced c0 in
  (consume_varint (c0 :: t) = None <-> (length (c0 :: t) < k)%nat) /\
  (forall v n, consume_varint (c0 :: t) = Some (v, n) ->
     n = k /\ v < 2 ^ 62 /\
     forall t', firstn k (c0 :: t') = firstn k (c0 :: t) -> consume_varint (c0 :: t') = Some (v, n)).
Proof. exact consume_reads_announced_l. Qed.
Print Assumptions consume_reads_announced.

Theorem announced_is_top_two_bits : forall c0, N.of_nat (announced c0) = 2 ^ (b2n c0 / 64).
Proof. exact announced_pow. Qed.
Print Assumptions announced_is_top_two_bits.

Theorem consume_nil : consume_varint [] = None.
Proof. exact consume_empty. Qed.

(** length-prefixed byte strings: never out of bounds (no Panic) on any input; result is a sub-list *)
Theorem consume_varint_bytes_safe : forall b,
  match consume_varint_bytes b with
  | Panic => False | Err => False | Ok None => True
  | Ok (Some (v, n)) =>
      exists h r, b = h ++ v ++ r /\ n = (length h + length v)%nat /\
                  consume_varint b = Some (N.of_nat (length v), length h)
  end.
Proof. exact consume_varint_bytes_safe_l. Qed.
Print Assumptions consume_varint_bytes_safe.

Theorem declared_too_long_rejected : forall b len h,
  consume_varint b = Some (len, h) -> N.of_nat (length b - h) < len -> consume_varint_bytes b = Ok None.
Proof. exact declared_too_long_rejected_l. Qed.
Print Assumptions declared_too_long_rejected.

Theorem varint_bytes_roundtrip : forall p v rest, N.of_nat (length v) <= max_varint ->
  exists e, append_varint_bytes p v = Ok (p ++ e) /\
            consume_varint_bytes (e ++ rest) = Ok (Some (v, length e)).
Proof. exact varint_bytes_roundtrip_l. Qed.
Print Assumptions varint_bytes_roundtrip.

Theorem consume_uint8_bytes_safe : forall b,
  match consume_uint8_bytes b with
  | Panic => False | Err => False
  | Ok None => b = [] \/ exists c0 t, b = c0 :: t /\ (length t < N.to_nat (b2n c0))%nat
  | Ok (Some (v, n)) => exists c0 r, b = c0 :: v ++ r /\ n = S (length v) /\ b2n c0 = N.of_nat (length v)
  end.
Proof. exact consume_uint8_bytes_safe_l. Qed.
Print Assumptions consume_uint8_bytes_safe.

Theorem uint8_bytes_roundtrip : forall p v rest, (length v <= 255)%nat ->
  exists e, append_uint8_bytes p v = Ok (p ++ e) /\ consume_uint8_bytes (e ++ rest) = Ok (Some (v, length e)).
Proof. exact uint8_bytes_roundtrip_l. Qed.
Print Assumptions uint8_bytes_roundtrip.

(** the encoder's documented panics are the only ones *)
Theorem encoder_panics_exactly_above_max : forall v, max_varint < v ->
  size_varint v = Panic /\ forall p, append_varint p v = Panic.
Proof. exact size_varint_panics. Qed.
Print Assumptions encoder_panics_exactly_above_max.

Theorem uint32_roundtrip : forall v rest, v < 2 ^ 32 -> consume_uint32 (be_enc 4 v ++ rest) = Some (v, 4%nat).
Proof. exact uint32_roundtrip_l. Qed.
Theorem uint64_roundtrip : forall v rest, v < 2 ^ 64 -> consume_uint64 (be_enc 8 v ++ rest) = Some (v, 8%nat).
Proof. exact uint64_roundtrip_l. Qed.
Theorem uint_short : forall b, (consume_uint32 b = None <-> (length b < 4)%nat) /\ (consume_uint64 b = None <-> (length b < 8)%nat).
Proof. exact uint_short_l. Qed.
Print Assumptions uint64_roundtrip.

(** the encoding is prefix-free: varint-framed fields laid end to end parse in exactly one way *)
Theorem append_varint_prefix_free : forall v1 v2 e1 e2 r1 r2,
  v1 <= max_varint -> v2 <= max_varint ->
  append_varint [] v1 = Ok e1 -> append_varint [] v2 = Ok e2 ->
  e1 ++ r1 = e2 ++ r2 -> v1 = v2 /\ e1 = e2 /\ r1 = r2.
Proof. exact append_varint_prefix_free_l. Qed.
Print Assumptions append_varint_prefix_free.
Theorem append_varint_injective : forall v1 v2 e, v1 <= max_varint -> v2 <= max_varint ->
  append_varint [] v1 = Ok e -> append_varint [] v2 = Ok e -> v1 = v2.
Proof. exact append_varint_injective_l. Qed.
Print Assumptions append_varint_injective.

(** length-prefixed byte strings are prefix-free as well (varint and one-byte length framings) *)
Theorem varint_bytes_prefix_free : forall v1 v2 e1 e2 r1 r2,
  N.of_nat (length v1) <= max_varint -> N.of_nat (length v2) <= max_varint ->
  append_varint_bytes [] v1 = Ok e1 -> append_varint_bytes [] v2 = Ok e2 ->
  e1 ++ r1 = e2 ++ r2 -> v1 = v2 /\ e1 = e2 /\ r1 = r2.
Proof. exact varint_bytes_prefix_free_l. Qed.
Print Assumptions varint_bytes_prefix_free.
Theorem uint8_bytes_prefix_free : forall v1 v2 e1 e2 r1 r2,
  (length v1 <= 255)%nat -> (length v2 <= 255)%nat ->
  append_uint8_bytes [] v1 = Ok e1 -> append_uint8_bytes [] v2 = Ok e2 ->
  e1 ++ r1 = e2 ++ r2 -> v1 = v2 /\ e1 = e2 /\ r1 = r2.
Proof. exact uint8_bytes_prefix_free_l. Qed.
Print Assumptions uint8_bytes_prefix_free.
