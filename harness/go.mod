module verif/harness

go 1.23.0

require (
	github.com/cisco/go-hpke v0.0.0-20210524174249-dd22b38cf960
	github.com/cloudflare/circl v1.3.7
	github.com/cloudflare/pat-go v0.0.0
	golang.org/x/crypto v0.35.0
)

require (
	git.schwanenlied.me/yawning/x448.git v0.0.0-20170617130356-01b048fb03d6 // indirect
	github.com/bwesterb/go-ristretto v1.2.3 // indirect
	github.com/cisco/go-tls-syntax v0.0.0-20200617162716-46b0cfb76b9b // indirect
	golang.org/x/sys v0.30.0 // indirect
)

replace github.com/cloudflare/pat-go => /repo
