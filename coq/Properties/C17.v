(** C17 — issuers, verifiers and keys can be shared between goroutines.
    Layer D (Base/Conc.v): goroutines as sequences of reads, plain writes and sync.Once-guarded initialisations on
    shared locations; a data race is a pair of conflicting accesses of two goroutines (nothing but Once orders them).
    The theorems are about this footprint model; that each exported operation has a read-only footprint on the
    shared issuer / key is established by deep snapshots and the Go race detector in the harness (partial). *)
From Coq Require Import List NArith.
Import ListNotations.
From PatVerif Require Import Base.Conc Proofs.ConcP.

(** any number of goroutines whose operations never plainly write shared state are free of data races *)
Theorem readonly_race_free : forall ts, (forall t, In t ts -> read_only t) -> ~ racy ts.
Proof. exact readonly_race_free_l. Qed.
Print Assumptions readonly_race_free.

(** and in EVERY interleaving each of them observes exactly what it observes running alone, the shared state being
    left unchanged: every concurrent call returns what a sequential call returns *)
Theorem readers_sequentially_consistent : forall h sched i,
  (forall p, In p sched -> pure_reader (snd p)) ->
  fst (run h sched) = h /\ obs_of i (snd (run h sched)) = alone h (acts_of i sched).
Proof. exact readers_sequentially_consistent_l. Qed.
Print Assumptions readers_sequentially_consistent.

(** package-level tables behind sync.Once: every goroutine sees the initialised value, whatever the interleaving *)
Theorem once_initialisation_consistent : forall h sched l v, h l = None ->
  (forall p, In p sched -> snd p = Once l v) ->
  forall i o, In (i, o) (snd (run h sched)) -> o = Some v.
Proof. exact run_once. Qed.
Print Assumptions once_initialisation_consistent.

(** a lazily initialised field WITHOUT Once ("if k.pub == nil { k.pub = ... }", reached from the type-1/5 issuers
    before the repair) races as soon as two goroutines use the object, and there is an interleaving in which both
    see it empty and both write *)
Theorem lazy_init_refuted : forall l v w, racy [lazy_init l v; lazy_init l w].
Proof. exact lazy_init_racy_l. Qed.
Print Assumptions lazy_init_refuted.
Theorem lazy_init_double_write : forall l v w,
  let sched := [(0, Rd l); (1, Rd l); (0, Wr l v); (1, Wr l w)] in
  obs_of 0 (snd (run (fun _ => None) sched)) = [None; Some v] /\
  obs_of 1 (snd (run (fun _ => None) sched)) = [None; Some w] /\
  fst (run (fun _ => None) sched) l = Some w.
Proof. exact lazy_init_double_write_l. Qed.
Print Assumptions lazy_init_double_write.

(** a memoised key id, a response cache, a shared scratch buffer: any plain write to a location another goroutine
    touches is a race *)
Theorem shared_write_racy : forall l v a t1 t2, In (Wr l v) t1 -> In a t2 -> loc a = l -> racy [t1; t2].
Proof. exact shared_write_racy_l. Qed.
Print Assumptions shared_write_racy.
