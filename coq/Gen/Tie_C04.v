(** source tie for C04 (and C10's token layout): token type numbers, element / authenticator lengths, token field lengths *)
From Coq Require Import List NArith.
From PatVerif Require Import Model.Codecs Gen.Src.
Import ListNotations. Open Scope N_scope.
Example tie_types : [s_type1; s_type2; s_type3; s_type5] = [1; 2; 3; 5]. Proof. reflexivity. Qed.
Example tie_ne : [s_ne1; s_nk2] = [N.of_nat ne1; N.of_nat ne2]. Proof. reflexivity. Qed.
Example tie_token_fields : (s_token1_fields ++ [s_nk1], s_token2_fields, s_token3_fields, s_token5_fields) =
  ([32; 32; 32; 48], [32; 32; 32; 256], [32; 32; 32; 256], [32; 32; 32; 64]). Proof. reflexivity. Qed.
Example tie_challenge_sep : (s_challenge_sep_marshal, s_challenge_sep_unmarshal) = ([44], [44]). Proof. reflexivity. Qed.
