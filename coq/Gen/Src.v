(* GENERATED on every run by tools/gen_src.py from the Go source of the repository under check — do not edit. *)
From Coq Require Import List NArith.
Import ListNotations.
Open Scope N_scope.

Definition s_ecdsa_dst : list N := [69; 67; 68; 83; 65; 32; 75; 101; 121; 32; 66; 108; 105; 110; 100]. (* 'ECDSA Key Blind' *)
Definition s_ecdsa_L : list N := [32; 48; 72; 98].
Definition s_ecdsa_curves : list (list N) := [[80; 45; 50; 50; 52]; [80; 45; 50; 53; 54]; [80; 45; 51; 56; 52]; [80; 45; 53; 50; 49]].
Definition s_ecdsa_sep : N := 0.
Definition s_ecdsa_sign_entropy : N := 32.
Definition s_t3_client_blind_attester_verify : list N := [67; 108; 105; 101; 110; 116; 66; 108; 105; 110; 100]. (* 'ClientBlind' *)
Definition s_t3_client_blind_attester_finalize : list N := [67; 108; 105; 101; 110; 116; 66; 108; 105; 110; 100]. (* 'ClientBlind' *)
Definition s_t3_client_blind_client : list N := [67; 108; 105; 101; 110; 116; 66; 108; 105; 110; 100]. (* 'ClientBlind' *)
Definition s_t3_issuer_blind : list N := [73; 115; 115; 117; 101; 114; 66; 108; 105; 110; 100]. (* 'IssuerBlind' *)
Definition s_t3_index_info : list N := [73; 115; 115; 117; 101; 114; 79; 114; 105; 103; 105; 110; 65; 108; 105; 97; 115]. (* 'IssuerOriginAlias' *)
Definition s_t3_label_key : list N := [107; 101; 121]. (* 'key' *)
Definition s_t3_label_nonce : list N := [110; 111; 110; 99; 101]. (* 'nonce' *)
Definition s_t3_info_request_client : list N := [84; 111; 107; 101; 110; 82; 101; 113; 117; 101; 115; 116]. (* 'TokenRequest' *)
Definition s_t3_info_response_client : list N := [84; 111; 107; 101; 110; 82; 101; 115; 112; 111; 110; 115; 101]. (* 'TokenResponse' *)
Definition s_t3_info_request_issuer : list N := [84; 111; 107; 101; 110; 82; 101; 113; 117; 101; 115; 116]. (* 'TokenRequest' *)
Definition s_t3_info_response_issuer : list N := [84; 111; 107; 101; 110; 82; 101; 115; 112; 111; 110; 115; 101]. (* 'TokenResponse' *)
Definition s_t3_pad : list N := [].
Definition s_t3_request_fields : list N := [49; 32; 96].
Definition s_type1 : N := 1.
Definition s_type2 : N := 2.
Definition s_type3 : N := 3.
Definition s_type5 : N := 5.
Definition s_nk1 : N := 48.
Definition s_ne1 : N := 49.
Definition s_nk2 : N := 256.
Definition s_token1_fields : list N := [32; 32; 32].
Definition s_token2_fields : list N := [32; 32; 32; 256].
Definition s_token3_fields : list N := [32; 32; 32; 256].
Definition s_token5_fields : list N := [32; 32; 32; 64].
Definition s_oid_pss : list N := [1; 2; 840; 113549; 1; 1; 10].
Definition s_oid_sha384 : list N := [2; 16; 840; 1; 101; 3; 4; 2; 2].
Definition s_oid_mgf1 : list N := [1; 2; 840; 113549; 1; 1; 8].
Definition s_pss_salt : N := 48.
Definition s_varint_thresholds : list N := [63; 16383; 1073741823; 4611686018427387903].
Definition s_varint_size_thresholds : list N := [63; 16383; 1073741823; 4611686018427387903].
Definition s_max_varint : N := 4611686018427387903.
Definition s_ed_sizes : list N := [32; 64; 64; 32].
Definition s_ed_blind_sep : N := 0.
Definition s_ed_sign_blind_sep : N := 0.
Definition s_challenge_sep_marshal : list N := [44]. (* ',' *)
Definition s_challenge_sep_unmarshal : list N := [44]. (* ',' *)
