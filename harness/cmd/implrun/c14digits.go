package main

import (
	"math/big"

	"github.com/cloudflare/pat-go/ed25519"
	"verif/harness/internal/h"
	"verif/harness/internal/ref"
)

// c14Digits: Scalar.signedRadix16 and Scalar.nonAdjacentForm (the digits the scalar multiplications consume) against
// Model/Radix16.v and Model/Naf.v, digit for digit: scalars whose nibbles sit at the recentring boundary (7, 8, 9, f), carry chains
// through all 64 digits, the ends of the range, random ones.
func c14Digits(c *h.Ctx, part int) {
	L := ref.EdL()
	var xs []*big.Int
	for _, nib := range []byte{0x00, 0x77, 0x78, 0x87, 0x88, 0x89, 0x98, 0x7f, 0xf7, 0x8f, 0xf8, 0xff} {
		b := make([]byte, 32)
		for i := range b {
			b[i] = nib
		}
		b[0] &= 0x0f // below L: the top nibble of a canonical scalar is 0 or 1
		xs = append(xs, new(big.Int).SetBytes(b))
		b2 := append([]byte{}, b...)
		b2[31-part%31] ^= 0x18
		xs = append(xs, new(big.Int).SetBytes(b2))
	}
	xs = append(xs, big.NewInt(0), big.NewInt(1), big.NewInt(7), big.NewInt(8), big.NewInt(9), big.NewInt(15), big.NewInt(16), new(big.Int).Sub(L, big.NewInt(1)),
		new(big.Int).Lsh(big.NewInt(1), 252), new(big.Int).Sub(new(big.Int).Lsh(big.NewInt(1), 252), big.NewInt(1)), new(big.Int).Lsh(big.NewInt(8), 248))
	n := 20
	if c.Thorough() {
		n = 400
	}
	for i := 0; i < n; i++ {
		xs = append(xs, new(big.Int).SetBytes(rnd(c, 40)))
	}
	widths := []uint{5, 8} // the two widths Verify uses
	if c.Thorough() {
		widths = []uint{5, 8, 2, 3, 4, 6, 7}
	}
	for _, x := range xs {
		sb := leBytes(new(big.Int).Mod(x, L), 32)
		var got []byte
		pan, msg := h.Protect(func() { got = ed25519.VerifScalarSignedRadix16(sb) })
		if pan {
			c.Violation("signedRadix16 does not panic on a canonical scalar", map[string]any{"scalar": h.Hex(sb), "panic": msg})
			continue
		}
		c.Case("scalar:signed-radix-16", true, "signed_radix16", [][]byte{sb}, [][]byte{got})
		for _, w := range widths {
			var naf []byte
			pan, msg := h.Protect(func() { naf = ed25519.VerifScalarNonAdjacentForm(sb, w) })
			if pan {
				c.Violation("nonAdjacentForm does not panic on a canonical scalar", map[string]any{"scalar": h.Hex(sb), "w": w, "panic": msg})
				continue
			}
			c.Case("scalar:non-adjacent-form", true, "naf", [][]byte{{byte(w)}, sb}, [][]byte{naf})
		}
	}
}
