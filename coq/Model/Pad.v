(** Pad.v — origin-name padding of the rate-limited protocol (tokens/type3/client.go
    padOriginName / unpadOriginName) and the wire length of a rate-limited request. *)
From PatVerif Require Export Model.Codecs.

(** N := 31 - ((len(originName) - 1) % 32) with Go's truncated remainder on int *)
Definition pad_count (n : nat) : nat := Z.to_nat (31 - Z.rem (Z.of_nat n - 1) 32).
Definition pad (name : list byte) : list byte := name ++ repeat x00 (pad_count (length name)).

(** unpadOriginName: index of the last non-zero byte, scanning from the end *)
Fixpoint strip0 (r : list byte) : list byte :=
  match r with
  | b :: t => if byte_eqb b x00 then strip0 t else r
  | [] => []
  end.
Definition unpad (p : list byte) : list byte := rev (strip0 (rev p)).

Definition ends_nonzero (name : list byte) : Prop := name = [] \/ last name x01 <> x00.
Definition blocks (n : nat) : nat := Nat.max 1 ((n + 31) / 32).

(** Wire size of a RateLimitedTokenRequest for an origin name of [n] bytes:
    type(2) + request key(49) + name key id(32) + u16 length(2) +
    [ KEM enc(32) + AEAD( key id(1) + blinded msg(256) + u16 length(2) + padded name ) + tag(16) ] + signature(96).
    32 and 16 are the X25519 KEM output and AES-GCM tag sizes of the fixed suite. *)
Definition kem_enc_len : nat := 32.
Definition aead_tag_len : nat := 16.
Definition inner_len (n : nat) : nat := 1 + 256 + 2 + (n + pad_count n).
Definition request_wire_len (n : nat) : nat :=
  2 + 49 + 32 + 2 + (kem_enc_len + inner_len n + aead_tag_len) + 96.

(** The issuer's origin lookup on the recovered name *)
Definition served (name : list byte) (registered : list (list byte)) : bool :=
  existsb (bytes_eqb (unpad (pad name))) registered.
