(** Cryptobyte.v — the golang.org/x/crypto/cryptobyte readers and builders pat-go uses, as
    parser combinators over [list byte], each with a *produce* lemma (reading what was just
    written returns it) and a *consume* lemma (a successful read splits the input). *)
From PatVerif Require Export Base.GoSem.
From Coq Require Import ZifyN ZifyNat ZifyBool.
Open Scope N_scope.

Definition P (A : Type) : Type := list byte -> option (A * list byte).

(** String.ReadBytes(&out, n) / String.read(n) *)
Definition read_bytes (n : nat) : P (list byte) := fun s =>
  if Nat.ltb (length s) n then None else Some (firstn n s, skipn n s).
Definition read_u8 : P N := fun s =>
  match s with b :: t => Some (b2n b, t) | [] => None end.
Definition read_u16 : P N := fun s =>
  match s with a :: b :: t => Some (b2n a * 256 + b2n b, t) | _ => None end.
Definition read_u8_prefixed : P (list byte) := fun s =>
  match read_u8 s with Some (n, t) => read_bytes (N.to_nat n) t | None => None end.
Definition read_u16_prefixed : P (list byte) := fun s =>
  match read_u16 s with Some (n, t) => read_bytes (N.to_nat n) t | None => None end.

(** Builder.AddUint8 / AddUint16 / Add*LengthPrefixed (the length check that makes
    BytesOrPanic panic is [fits8]/[fits16]) *)
Definition u8 (v : N) : list byte := [n2b v].
Definition u16 (v : N) : list byte := [n2b (v / 256); n2b v].
Definition u8p (x : list byte) : list byte := u8 (N.of_nat (length x)) ++ x.
Definition u16p (x : list byte) : list byte := u16 (N.of_nat (length x)) ++ x.
Definition fits8 (x : list byte) : bool := N.of_nat (length x) <=? 255.
Definition fits16 (x : list byte) : bool := N.of_nat (length x) <=? 65535.

Lemma read_bytes_app n x r : length x = n -> read_bytes n (x ++ r) = Some (x, r).
Proof.
  intro H. unfold read_bytes. rewrite app_length.
  replace (Nat.ltb (length x + length r) n) with false by (symmetry; apply Nat.ltb_ge; lia).
  subst n. rewrite firstn_app, Nat.sub_diag, firstn_O, app_nil_r, firstn_all.
  rewrite skipn_app, Nat.sub_diag, skipn_all, skipn_O. reflexivity.
Qed.

Lemma read_bytes_inv n s x r : read_bytes n s = Some (x, r) -> s = x ++ r /\ length x = n.
Proof.
  unfold read_bytes. destruct (Nat.ltb (length s) n) eqn:E; [discriminate|].
  apply Nat.ltb_ge in E. intro H. inversion H; subst. split.
  - now rewrite firstn_skipn.
  - now apply firstn_length_le.
Qed.

Lemma read_u8_app v r : v < 256 -> read_u8 (u8 v ++ r) = Some (v, r).
Proof. intro H. unfold u8, read_u8. cbn [app]. now rewrite b2n_n2b, N.mod_small. Qed.

Lemma read_u8_inv s v r : read_u8 s = Some (v, r) -> s = u8 v ++ r /\ v < 256.
Proof.
  destruct s as [|b t]; [discriminate|]. cbn [read_u8]. intro H. inversion H; subst.
  unfold u8. cbn [app]. rewrite n2b_b2n. split; [reflexivity|apply b2n_lt].
Qed.

Lemma read_u16_app v r : v < 65536 -> read_u16 (u16 v ++ r) = Some (v, r).
Proof.
  intro H. unfold u16, read_u16. cbn [app]. rewrite !b2n_n2b.
  rewrite (N.mod_small (v / 256)) by lia. f_equal. f_equal. lia.
Qed.

Lemma read_u16_inv s v r : read_u16 s = Some (v, r) -> s = u16 v ++ r /\ v < 65536.
Proof.
  destruct s as [|a [|b t]]; try discriminate. cbn [read_u16]. intro H. inversion H; subst.
  pose proof (b2n_lt a). pose proof (b2n_lt b). unfold u16. cbn [app]. split; [|lia].
  f_equal; [|f_equal].
  - symmetry. apply n2b_of. rewrite N.div_add_l by lia. rewrite (N.div_small (b2n b)) by lia.
    rewrite N.add_0_r. now apply N.mod_small.
  - symmetry. apply n2b_of. rewrite N.add_comm, N.mod_add by lia. now apply N.mod_small.
Qed.

Lemma read_u16p_app x r : fits16 x = true -> read_u16_prefixed (u16p x ++ r) = Some (x, r).
Proof.
  unfold fits16, u16p, read_u16_prefixed. intro H. apply N.leb_le in H.
  rewrite <- app_assoc, read_u16_app by lia. rewrite Nat2N.id. now apply read_bytes_app.
Qed.

Lemma read_u16p_inv s x r : read_u16_prefixed s = Some (x, r) -> s = u16p x ++ r /\ fits16 x = true.
Proof.
  unfold read_u16_prefixed. destruct (read_u16 s) as [[n t]|] eqn:E; [|discriminate].
  apply read_u16_inv in E. destruct E as [-> Hn]. intro H. apply read_bytes_inv in H.
  destruct H as [-> Hl]. unfold u16p, fits16. rewrite Hl, N2Nat.id, <- app_assoc. split; [reflexivity|].
  apply N.leb_le. lia.
Qed.

Lemma read_u8p_app x r : fits8 x = true -> read_u8_prefixed (u8p x ++ r) = Some (x, r).
Proof.
  unfold fits8, u8p, read_u8_prefixed. intro H. apply N.leb_le in H.
  rewrite <- app_assoc, read_u8_app by lia. rewrite Nat2N.id. now apply read_bytes_app.
Qed.

Lemma read_u8p_inv s x r : read_u8_prefixed s = Some (x, r) -> s = u8p x ++ r /\ fits8 x = true.
Proof.
  unfold read_u8_prefixed. destruct (read_u8 s) as [[n t]|] eqn:E; [|discriminate].
  apply read_u8_inv in E. destruct E as [-> Hn]. intro H. apply read_bytes_inv in H.
  destruct H as [-> Hl]. unfold u8p, fits8. rewrite Hl, N2Nat.id, <- app_assoc. split; [reflexivity|].
  apply N.leb_le. lia.
Qed.

Lemma u16_length v : length (u16 v) = 2%nat. Proof. reflexivity. Qed.
Lemma u8_length v : length (u8 v) = 1%nat. Proof. reflexivity. Qed.

(** exact-input variants *)
Lemma read_bytes_exact n x : length x = n -> read_bytes n x = Some (x, []).
Proof. intro H. rewrite <- (app_nil_r x) at 1. now apply read_bytes_app. Qed.

Close Scope N_scope.
