(** source tie for C08: blind contexts and the index label of tokens/type3 (attester, client, issuer) *)
From Coq Require Import List NArith.
From PatVerif Require Import Base.Bytes Model.Derive Gen.Src.
Import ListNotations.
Ltac t := vm_compute; first [reflexivity | exact I | repeat split; reflexivity].
Definition ctx_of (ty : option N) (label : option (list N)) : option (list byte) :=
  match ty, label with Some t, Some l => Some ([x00; n2b t] ++ map n2b l) | _, _ => None end.
Example tie_client_blind_verify : tie (ctx_of s_type3 s_t3_client_blind_attester_verify) (fun v => v = ctx_client_blind). Proof. t. Qed.
Example tie_client_blind_finalize : tie (ctx_of s_type3 s_t3_client_blind_attester_finalize) (fun v => v = ctx_client_blind). Proof. t. Qed.
Example tie_client_blind_client : tie (ctx_of s_type3 s_t3_client_blind_client) (fun v => v = ctx_client_blind). Proof. t. Qed.
Example tie_issuer_blind : tie (ctx_of s_type3 s_t3_issuer_blind) (fun v => v = ctx_issuer_blind). Proof. t. Qed.
Example tie_index_info : tie s_t3_index_info (fun v => map n2b v = info_issuer_origin_alias). Proof. t. Qed.
