#!/bin/bash
# replay_benign.sh — behaviour-preserving refactorings of /repo (benign/<ID>-<x>/patch.diff, written by fresh sub-agents given
# only a property text and its anchored files): each is applied in a scratch worktree and the quick checks of every
# property anchored in a touched file (+ C03, C16, C17) are run against it. Expected: no VIOLATION line, all exit codes 0.
cd "$(dirname "$0")/.."
for d in benign/C*-[a-d]; do
  id=${d#benign/}; pid=${id%-*}
  patch=$PWD/$d/patch.diff
  props=$(python3 - "$patch" "$pid" <<'PY'
import sys, json, re
patch, pid = sys.argv[1], sys.argv[2]
files = set(re.findall(r"^\+\+\+ b/(\S+)", open(patch).read(), re.M))
props = []
for l in open("properties.jsonl"):
    p = json.loads(l)
    if p["id"] == pid or files & set(p["anchors"]["files"]):
        props.append(p["id"])
for e in ("C16", "C17", "C03"):
    if e not in props: props.append(e)
print(" ".join(props))
PY
)
  echo "=== $id -> $props"
  tools/try_mutant.sh "$patch" $props 2>&1 | grep -E "^VIOLATION|exit\[|HARNESS|PATCH DOES NOT" | grep -v "=0$" || echo "no alarm"
done
