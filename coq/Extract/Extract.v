(** Extraction of the executable models.  ExtrOcamlBasic only: bool, option, unit, list, prod,
    sumbool, sumor and the andb/orb inlinings.  N, positive, nat, byte, ascii, string stay the
    Coq inductives.  Run with coqc from the output directory (ocaml/gen). *)
Require Import ExtrOcamlBasic.
From PatVerif Require Import Model.Dispatch Model.Dispatch2.
Extraction "model.ml" dispatch dispatch2.
