(** Output lengths of the SHA-2 reference (Base/Hash.v): 32 / 48 / 64 bytes for EVERY message. *)
From PatVerif Require Import Base.Hash.
From Coq Require Import ZifyN ZifyNat ZifyBool.
Open Scope N_scope.

Section Len.
  Variable p : sha2.
  Hypothesis k_nonempty : kconst p <> [].
  Hypothesis iv8 : length (ivs p) = 8%nat.

  Lemma round_fst_len st k : length (fst (round p st k)) = 8%nat.
  Proof. unfold round. destruct st as [v ws]. reflexivity. Qed.

  Lemma fold_round_len l st : l <> [] -> length (fst (fold_left (round p) l st)) = 8%nat.
  Proof.
    intro Hl. destruct (exists_last Hl) as (l' & k & ->). rewrite fold_left_app. cbn [fold_left]. apply round_fst_len.
  Qed.

  Lemma compress_len hs block : length hs = 8%nat -> length (compress p hs block) = 8%nat.
  Proof.
    intro H. unfold compress.
    pose proof (fold_round_len (kconst p) (hs, words p 16 block) k_nonempty) as L.
    destruct (fold_left (round p) (kconst p) (hs, words p 16 block)) as [v ws]. cbn [fst] in L.
    rewrite map_length, combine_length, H, L. reflexivity.
  Qed.

  Lemma blocks_len fuel : forall hs b, length hs = 8%nat -> length (blocks p fuel hs b) = 8%nat.
  Proof.
    induction fuel as [|f IH]; intros hs b H; cbn [blocks]; [exact H|].
    destruct b; [exact H|]. apply IH. now apply compress_len.
  Qed.

  Lemma concat_be_len (l : list N) k : length (concat (map (be_enc k) l)) = (k * length l)%nat.
  Proof. induction l as [|x l IH]; cbn [map concat length]; [lia|]. rewrite app_length, be_enc_length, IH. lia. Qed.

  Lemma sha_len msg : (out_len p <= N.to_nat (wbits p / 8) * 8)%nat -> length (sha p msg) = out_len p.
  Proof.
    intro H. unfold sha. rewrite firstn_length, concat_be_len, blocks_len by exact iv8. lia.
  Qed.
End Len.

Theorem sha256_length msg : length (sha256 msg) = 32%nat.
Proof. apply sha_len; [discriminate|reflexivity|cbn; lia]. Qed.
Theorem sha384_length msg : length (sha384 msg) = 48%nat.
Proof. apply sha_len; [discriminate|reflexivity|cbn; lia]. Qed.
Theorem sha512_length msg : length (sha512 msg) = 64%nat.
Proof. apply sha_len; [discriminate|reflexivity|cbn; lia]. Qed.
