(** Dispatch2.v — entry points of the models added after Dispatch.v (DER/token keys, hashes, key blinding, ...).
    [dispatch2] is what the OCaml runner calls; unknown names fall through to [dispatch]. *)
From Coq Require Import Strings.String.
From PatVerif Require Import Base.GoSem Model.Dispatch Model.TokenKey Model.Codecs Model.Derive Model.Ed25519 Model.Fe Model.EdPoint Model.Radix16 Model.Naf Model.TokenVerify Model.Ecdsa Model.BatchIssuer Base.Mem Base.Conc Model.Frontends Model.RateLimited.
Open Scope N_scope.

Definition out_z (z : Z) : list (list byte) :=
  [if (z <? 0)%Z then [x01] else [x00]; be_min (Z.abs_N z)].

Definition dispatch_tokenkey (name : list byte) (a : list (list byte)) : option (list (list byte)) :=
  if is name "marshal_pss" then Some [marshal_pss (narg a 0) (narg a 1)]
  else if is name "marshal_legacy" then Some [marshal_legacy (narg a 0) (narg a 1)]
  else if is name "unmarshal_token_key" then
    Some (match unmarshal_token_key (arg a 0) with
          | Some (n, e) => st_ok :: out_z n ++ out_z e
          | None => [st_none] end)
  else if is name "rsa_token_key_id" then
    let id := rsa_token_key_id (narg a 0) (narg a 1) in Some [id; [truncated_key_id id]]
  else if is name "token_key_id" then
    let id := token_key_id (arg a 0) in Some [id; [truncated_key_id id]]
  else if is name "name_key_id" then
    (* id kem pk kdf aead *)
    Some [sha256 (enc_encap {| e_id := narg a 0; e_kem := narg a 1; e_pk := arg a 2; e_kdf := narg a 3; e_aead := narg a 4 |})]
  else if is name "sha256" then Some [sha256 (arg a 0)]
  else if is name "sha384" then Some [sha384 (arg a 0)]
  else if is name "sha512" then Some [sha512 (arg a 0)]
  else None.

(** derivations; numbers travel as big-endian byte strings (minimal on output) *)
Definition dispatch_derive (name : list byte) (a : list (list byte)) : option (list (list byte)) :=
  if is name "ecdsa_blind_factor" then Some [be_min (ecdsa_blind_factor (narg a 0) (arg a 1) (arg a 2))]
  else if is name "ecdsa_blind_exp" then
    (* curve, secret d, blind key, context -> factor, d*factor mod N, factor^-1 mod N, factor * factor^-1 mod N *)
    let q := curve_order (narg a 0) in
    let f := ecdsa_blind_factor (narg a 0) (arg a 2) (arg a 3) in
    let i := invm q f in
    Some [be_min f; be_min (mulm q (narg a 1 mod q) f); be_min i; be_min (mulm q f i)]
  else if is name "mulm" then Some [be_min (mulm (narg a 0) (narg a 1) (narg a 2))]
  else if is name "invm" then Some [be_min (invm (narg a 0) (narg a 1))]
  else if is name "ed_blind_factor" then
    let f := ed_blind_factor (arg a 0) (arg a 1) in
    let i := invm order_ed25519 f in
    Some [le_bytes 32 f; le_bytes 32 i; le_bytes 32 (mulm order_ed25519 f i)]
  else if is name "ed_mul_add" then
    Some [le_bytes 32 ((le_val (arg a 0) * le_val (arg a 1) + le_val (arg a 2)) mod order_ed25519)]
  else if is name "ed_reduce" then Some [le_bytes 32 (le_val (arg a 0) mod order_ed25519)]
  else if is name "compute_index" then Some [compute_index (arg a 0) (arg a 1)]
  else if is name "origin_exponent" then Some [be_min (origin_exponent (narg a 0) (arg a 1))]
  else if is name "token_bytes" then Some [token_bytes (narg a 0) (arg a 1) (arg a 2) (arg a 3) (arg a 4)]
  else if is name "hkdf384" then Some [hkdf p384 (arg a 0) (arg a 1) (arg a 2) (N.to_nat (narg a 3))]
  else if is name "xmd" then Some [expand_message_xmd (curve_hash (narg a 0)) (arg a 1) (arg a 2) (N.to_nat (narg a 3))]
  else None.

Definition curve_bits (c : N) : N := match c with 1 => 224 | 2 => 256 | 3 => 384 | _ => 521 end.
Fixpoint script_of (l : list (list byte)) : list rd_ev :=
  match l with
  | [] => []
  | (x :: b) :: t => (if byte_eqb x x44 then Data b else Fault) :: script_of t     (* 'D' ++ bytes | anything else = fault *)
  | [] :: t => Fault :: script_of t
  end.
Definition dispatch_ed (name : list byte) (a : list (list byte)) : option (list (list byte)) :=
  if is name "ed_sign_prep" then           (* seed msg -> secret scalar, nonce *)
    Some [le_bytes 32 (ed_secret_scalar (arg a 0)); le_bytes 32 (ed_nonce (ed_prefix (arg a 0)) (arg a 1))]
  else if is name "ed_blind_sign_prep" then (* seed blind context msg -> factor, blinded secret, nonce *)
    Some [le_bytes 32 (ed_blind_factor (arg a 1) (arg a 2)); le_bytes 32 (ed_blind_secret (arg a 0) (arg a 1) (arg a 2));
          le_bytes 32 (ed_nonce (ed_blind_prefix (arg a 0) (arg a 1) (arg a 2)) (arg a 3))]
  else if is name "ed_signature" then       (* R A msg s nonce -> 64 bytes *)
    Some [ed_signature (arg a 0) (arg a 1) (arg a 2) (le_val (arg a 3)) (le_val (arg a 4))]
  else if is name "ed_hram" then Some [le_bytes 32 (ed_hram (arg a 0) (arg a 1) (arg a 2))]
  else if is name "ed_is_reduced" then Some [if is_reduced (arg a 0) then st_ok else st_none]
  else if is name "ed_clamp" then Some [le_bytes 32 (clamp (arg a 0))]
  else if is name "ed_verify_pre" then
    (* sig -> [length ok && early check passes ; S canonical] *)
    let sig := arg a 0 in
    let okl := Nat.eqb (length sig) 64 && (N.land (b2n (nth 63 sig x00)) 224 =? 0) in
    Some [if okl then st_ok else st_none; if is_reduced (skipn 32 sig) then st_ok else st_none]
  else if is name "ed_keygen_entropy" then
    Some (match read_full (script_of a) 32 [] with Ok (b, _) => [st_ok; b] | _ => [st_none; []] end)
  else None.

Definition dispatch_verify (name : list byte) (a : list (list byte)) : option (list (list byte)) :=
  if is name "verify_token" then
    (* type nonce ctx keyid auth | oracle: prf_ok prf_output ; answer: verdict, authenticator input *)
    let t := mk_token a 0 in
    let prf := fun _ : list byte => if flag (arg a 5) then Some (arg a 6) else None in
    Some [if verify prf t then st_ok else st_none; auth_input t]
  else None.

Definition out_entropy (r : res (list byte)) : list (list byte) :=
  match r with Ok e => [st_ok; e] | Err => [st_none; []] | Panic => [st_panic; []] end.
Definition dispatch_ecdsa (name : list byte) (a : list (list byte)) : option (list (list byte)) :=
  if is name "ecdsa_parse" then
    let n := curve_order (narg a 0) in
    Some (match fork_accepts n (arg a 1), std_accepts n (arg a 1) with
          | Some (r, s), Some _ => [st_ok; be_min r; be_min s]
          | None, None => [st_none]
          | _, _ => [st_panic] end)          (* cannot happen: theorem parse_equiv *)
  else if is name "hash_to_int" then Some [be_min (hash_to_int (arg a 1) (curve_bits (narg a 0)))]
  else if is name "ecdsa_keygen_entropy" then
    Some (out_entropy (generate_key_entropy (N.to_nat (curve_bits (narg a 0))) (script_of (skipn 1 a))))
  else if is name "ecdsa_sign_entropy" then
    Some (out_entropy (sign_entropy false (script_of a)) ++ out_entropy (sign_entropy true (script_of a)))
  else None.

(** batch_shape: k | (type kid) x k | per request: type keyid (flag||resp) x k.
    Answer: decode status of the model's own output, then per request 00/01 ++ u16 length, then the total length. *)
Fixpoint chunk (n : nat) (fuel : nat) (l : list (list byte)) : list (list (list byte)) :=
  match fuel with O => [] | S f => match l with [] => [] | _ => firstn n l :: chunk n f (skipn n l) end end.
Definition dispatch_batch (name : list byte) (a : list (list byte)) : option (list (list byte)) :=
  if is name "batch_shape" then
    let k := N.to_nat (narg a 0) in
    let cfg := firstn (2 * k) (skipn 1 a) in
    let reqs := chunk (2 + k) (length a) (skipn (1 + 2 * k) a) in
    let table (j idx : nat) : option (list byte) :=
      match nth (2 + j) (nth idx reqs []) [] with x :: r => if byte_eqb x x01 then Some r else None | [] => None end in
    let iss := map (fun j => {| i_type := be_dec_h (nth (2 * j) cfg []); i_kid := be_dec_h (nth (2 * j + 1) cfg []);
                                i_eval := fun _ b => table j (N.to_nat (be_dec_h b)) |}) (seq 0 k) in
    let items := map (fun p => (be_dec_h (nth 0 (snd p) []), {| q_keyid := be_dec_h (nth 1 (snd p) []); q_blinded := be_enc 2 (N.of_nat (fst p)) |}))
                     (combine (seq 0 (length reqs)) reqs) in
    let out := evaluate_batch iss items in
    Some ((match dec_resps out with Some l => if Nat.eqb (length l) (length items) then st_ok else st_none | None => st_none end)
          :: map (fun it => let r := eval_one iss it in (if Nat.eqb (length r) 0 then x00 else x01) :: be_enc 2 (N.of_nat (length r))) items
          ++ [nat8 (length out)])
  else None.

(** memory model: one backing array [buf]; the argument is buf[off : off+len : off+cap].
    mem_append: buf off len cap xs -> in-place flag, the backing array afterwards, the resulting slice's bytes.
    mem_build: which(0 = on the argument, 1 = fresh) abuf off len cap bbytes -> a's backing array afterwards, result bytes *)
Definition dispatch_mem (name : list byte) (a : list (list byte)) : option (list (list byte)) :=
  if is name "mem_append" then
    let s := {| rg := 0; off := N.to_nat (narg a 1); len := N.to_nat (narg a 2); cap := N.to_nat (narg a 3) |} in
    let '(h', s') := go_append [arg a 0] s (arg a 4) in
    Some [if Nat.eqb (rg s') 0 then st_ok else st_none; region h' 0; view h' s']
  else if is name "mem_build" then
    let sa := {| rg := 0; off := N.to_nat (narg a 2); len := N.to_nat (narg a 3); cap := N.to_nat (narg a 4) |} in
    let sb := {| rg := 1; off := 0; len := length (arg a 5); cap := length (arg a 5) |} in
    let h := [arg a 1; arg a 5] in
    let '(h', t) := if narg a 0 =? 0 then build_on_arg h sa sb else build_fresh h sa sb in
    Some [region h' 0; view h' t]
  else None.

(** conc_run: each argument is one scheduled action: thread id, kind (0 read, 1 write, 2 once), location, value.
    Answer: per step the observation (00 = none | 01 value), then the final contents of locations 0..7. *)
Definition act_of (b : list byte) : nat * act :=
  let t := N.to_nat (be_dec_h (firstn 1 b)) in
  let k := be_dec_h (firstn 1 (skipn 1 b)) in
  let l := N.to_nat (be_dec_h (firstn 1 (skipn 2 b))) in
  let v := be_dec_h (skipn 3 b) in
  (t, if k =? 0 then Rd l else if k =? 1 then Wr l v else Base.Conc.Once l v).
Definition show_obs (o : option N) : list byte := match o with None => [x00] | Some v => x01 :: be_enc 2 v end.
Definition dispatch_conc (name : list byte) (a : list (list byte)) : option (list (list byte)) :=
  if is name "conc_run" then
    let '(hf, obs) := Base.Conc.run (fun _ => None) (map act_of a) in
    Some (map (fun p => show_obs (snd p)) obs ++ map (fun l => show_obs (hf l)) (seq 0 8))
  else None.

(** exact finalization runs: the primitives' answers are supplied by the harness from circl / crypto/rsa called
    directly with the same verifier state.  fin1_full: input resp elt_ok proof_ok (flag||out) ;
    fin2_full: input resp (flag||sig) pss_ok ; fin5_full: n resp elts_ok proof_ok (flag||concat outs 64 each) inputs... *)
Definition opt_arg (b : list byte) : option (list byte) :=
  match b with x :: r => if byte_eqb x x01 then Some r else None | [] => None end.
Fixpoint chunks_of (k : nat) (fuel : nat) (l : list byte) : list (list byte) :=
  match fuel with O => [] | S f => match l with [] => [] | _ => firstn k l :: chunks_of k f (skipn k l) end end.
Definition out_tok (r : res token) : list (list byte) :=
  match r with Ok t => [st_ok; enc_token t] | Err => [st_none] | Panic => [st_panic] end.
Definition dispatch_fin (name : list byte) (a : list (list byte)) : option (list (list byte)) :=
  if is name "fin1_full" then
    Some (out_tok (fin1 (fun _ => flag (arg a 2)) (fun _ => flag (arg a 3)) (fun _ _ => opt_arg (arg a 4)) (arg a 0) (arg a 1)))
  else if is name "fin2_full" then
    Some (out_tok (fin2 (fun _ => opt_arg (arg a 2)) (fun _ _ => flag (arg a 3)) (arg a 0) (arg a 1)))
  else if is name "t3_response_keys" then
    let '(k, n) := response_keys (arg a 0) (arg a 1) (arg a 2) in Some [k; n]
  else if is name "fin3_full" then
    (* input encap resp (flag||blind signature from AES-GCM open) (flag||signature from the RSA finalization) pss_ok *)
    Some (out_tok (fin3 (fun _ _ => opt_arg (arg a 3)) (fun _ => opt_arg (arg a 4)) (fun _ _ => flag (arg a 5)) (arg a 1) (arg a 0) (arg a 2)))
  else if is name "fin5_full" then
    let outs := match opt_arg (arg a 4) with Some o => Some (chunks_of 64 (length o) o) | None => None end in
    Some (match fin5 (fun _ => flag (arg a 2)) (fun _ => flag (arg a 3)) (fun _ _ => outs) (skipn 5 a) (arg a 1) with
          | Ok (ts, _) => [st_ok; concat (map enc_token ts)] | Err => [st_none] | Panic => [st_panic] end)
  else None.

(** the field arithmetic of Model/Fe.v; elements travel as five 8-byte little-endian limbs *)
Definition fe_flag (b : bool) : list byte := if b then [x01] else [x00].
Definition dispatch_fe (name : list byte) (a : list (list byte)) : option (list (list byte)) :=
  let x := fe_of_bytes40 (arg a 0) in let y := fe_of_bytes40 (arg a 1) in
  if is name "fe_mul" then Some [fe_to_bytes40 (fe_mul x y)]
  else if is name "fe_square" then Some [fe_to_bytes40 (fe_square x)]
  else if is name "fe_add" then Some [fe_to_bytes40 (fe_add x y)]
  else if is name "fe_sub" then Some [fe_to_bytes40 (fe_sub x y)]
  else if is name "fe_neg" then Some [fe_to_bytes40 (fe_neg x)]
  else if is name "fe_carry" then Some [fe_to_bytes40 (fe_carry x)]
  else if is name "fe_reduce" then Some [fe_to_bytes40 (fe_reduce x)]
  else if is name "fe_bytes" then Some [fe_bytes x]
  else if is name "fe_set_bytes" then Some [fe_to_bytes40 (fe_set_bytes (arg a 0))]
  else if is name "fe_invert" then Some [fe_to_bytes40 (fe_invert x)]
  else if is name "fe_pow22523" then Some [fe_to_bytes40 (fe_pow22523 x)]
  else if is name "fe_sqrt_ratio" then
    let '(r, sq) := fe_sqrt_ratio x y in Some [fe_to_bytes40 r; fe_flag sq]
  else if is name "fe_mult32" then Some [fe_to_bytes40 (fe_mult32 x (le_val (arg a 1)))]
  else if is name "fe_equal" then Some [fe_flag (fe_equal x y)]
  else if is name "fe_is_negative" then Some [fe_flag (N.eqb (fe_is_negative x) 1)]
  else if is name "fe_absolute" then Some [fe_to_bytes40 (fe_absolute x)]
  else if is name "fe_select" then Some [fe_to_bytes40 (fe_select x y (flag (arg a 2)))]
  else if is name "fe_swap" then
    let c := flag (arg a 2) in Some [fe_to_bytes40 (fe_select y x c); fe_to_bytes40 (fe_select x y c)]
  else None.

(** the points of Model/EdPoint.v; points travel as their 32-byte encodings, scalars as 32 bytes little-endian *)
Definition pt_out (o : option point) : list (list byte) :=
  match o with Some p => [st_ok; pt_bytes p] | None => [st_none] end.
Definition pt_bin (f : point -> point -> point) (a b : list byte) : list (list byte) :=
  match pt_set_bytes a, pt_set_bytes b with Some p, Some q => [st_ok; pt_bytes (f p q)] | _, _ => [st_none] end.
Definition dispatch_pt (name : list byte) (a : list (list byte)) : option (list (list byte)) :=
  if is name "pt_decode" then Some (pt_out (pt_set_bytes (arg a 0)))
  else if is name "pt_add" then Some (pt_bin pt_add (arg a 0) (arg a 1))
  else if is name "pt_sub" then Some (pt_bin pt_sub (arg a 0) (arg a 1))
  else if is name "pt_double" then Some (pt_out (option_map pt_double (pt_set_bytes (arg a 0))))
  else if is name "pt_neg" then Some (pt_out (option_map pt_neg (pt_set_bytes (arg a 0))))
  else if is name "pt_equal" then
    Some (match pt_set_bytes (arg a 0), pt_set_bytes (arg a 1) with
          | Some p, Some q => [st_ok; fe_flag (pt_equal p q)] | _, _ => [st_none] end)
  else if is name "pt_mul" then Some (pt_out (option_map (pt_mul (le_val (arg a 0))) (pt_set_bytes (arg a 1))))
  else if is name "pt_base_mul" then Some [pt_bytes (pt_mul (le_val (arg a 0)) ed_base)]
  else if is name "edm_public" then Some [edm_public (arg a 0)]
  else if is name "edm_sign" then Some [edm_sign (arg a 0) (arg a 1)]
  else if is name "edm_verify" then Some [fe_flag (edm_verify (arg a 0) (arg a 1) (arg a 2))]
  else if is name "signed_radix16" then Some [map digit_byte (signed_radix16 (arg a 0))]
  else if is name "naf" then Some [map digit_byte (naf (Z.of_N (narg a 0)) (Z.of_N (le_val (arg a 1))))]
  else None.

Definition dispatch2 (name : list byte) (a : list (list byte)) : list (list byte) :=
  match dispatch_tokenkey name a with Some r => r | None =>
  match dispatch_derive name a with Some r => r | None =>
  match dispatch_ed name a with Some r => r | None =>
  match dispatch_verify name a with Some r => r | None =>
  match dispatch_ecdsa name a with Some r => r | None =>
  match dispatch_batch name a with Some r => r | None =>
  match dispatch_mem name a with Some r => r | None =>
  match dispatch_conc name a with Some r => r | None =>
  match dispatch_fin name a with Some r => r | None =>
  match dispatch_fe name a with Some r => r | None =>
  match dispatch_pt name a with Some r => r | None => dispatch name a end end end end end end end end end end end.
