package main

import (
	"bytes"
	stded "crypto/ed25519"
	"math/big"

	"github.com/cloudflare/pat-go/ed25519"
	"verif/harness/internal/h"
	"verif/harness/internal/ref"
)

// The edwards25519 points (edwards25519.go) against Model/EdPoint.v, and Ed25519 key derivation, signing and verification
// computed ENTIRELY inside the Coq model (SHA-512, scalars modulo L, double-and-add over the proved field arithmetic)
// against the fork's NewKeyFromSeed / Sign / Verify, byte for byte. The theorems of Proofs/EdPointP.v say the model's
// addition and doubling are the RFC 8032 formulas on the field values; the scalar multiplications of scalarmult.go
// (windows, tables) are compared with the model's plain double-and-add.
func c14Points(c *h.Ctx, part int) {
	L := ref.EdL()
	randScalar := func() []byte { return leBytes(new(big.Int).Mod(new(big.Int).SetBytes(rnd(c, 40)), L), 32) }
	randPoint := func() []byte { return ed25519.VerifPointScalarBaseMult(randScalar()) }
	status := func(err error) []byte {
		if err != nil {
			return h.StNone
		}
		return h.StOK
	}
	outs := func(err error, b []byte) [][]byte {
		if err != nil {
			return [][]byte{h.StNone}
		}
		return [][]byte{h.StOK, b}
	}
	_ = status
	// --- decoding: which 32-byte strings are points, and their canonical re-encoding ---------------------------------
	p25519 := new(big.Int).Sub(new(big.Int).Lsh(big.NewInt(1), 255), big.NewInt(19))
	var encs [][]byte
	for _, d := range []int64{0, 1, 2, 3, 4, 5, -1, -2, 18, 19, 20} { // y = d or p + d (non-canonical y), both signs
		y := new(big.Int).Add(p25519, big.NewInt(d))
		if d >= 0 && d < 18 {
			encs = append(encs, leBytes(big.NewInt(d), 32))
		}
		if y.BitLen() <= 255 {
			encs = append(encs, leBytes(y, 32))
		}
	}
	for i, e := range append([][]byte{}, encs...) {
		if i%2 == part%2 {
			s := clone(e)
			s[31] |= 0x80
			encs = append(encs, s)
		}
	}
	encs = append(encs, bytesFF(32), randPoint(), rnd(c, 32), rnd(c, 32))
	for i, e := range encs {
		if i%4 != part%4 && !c.Thorough() {
			continue
		}
		var out []byte
		var err error
		pan, msg := h.Protect(func() { out, _, err = ed25519.VerifPointOp("decode", e, nil) })
		if pan {
			c.Violation("point decoding does not panic", map[string]any{"encoding": h.Hex(e), "panic": msg})
			continue
		}
		c.Case("point:decode", true, "pt_decode", [][]byte{e}, outs(err, out))
	}
	// --- the group operations --------------------------------------------------------------------------------------
	small := [][]byte{leBytes(big.NewInt(1), 32), // the identity
		append(leBytes(new(big.Int).Sub(p25519, big.NewInt(1)), 32)[:31], 0x7f), // (0, -1), order 2
		make([]byte, 32)} // y = 0: order 4
	n := 1
	if c.Thorough() {
		n = 8
	}
	if part >= 4 && !c.Thorough() {
		n = 0 // the quick tier runs the group operations in four of the eight parts
	}
	for i := 0; i < n; i++ {
		P, Q := randPoint(), randPoint()
		switch (i + part) % 4 {
		case 1:
			Q = clone(P)
		case 2:
			Q = small[part%len(small)]
		case 3:
			if o, _, err := ed25519.VerifPointOp("neg", P, nil); err == nil {
				Q = o // P + (-P)
			}
		}
		for _, op := range []string{"add", "sub", "double", "neg", "equal"}[(part+i)%2:] {
			var out []byte
			var fl int
			var err error
			pan, msg := h.Protect(func() { out, fl, err = ed25519.VerifPointOp(op, P, Q) })
			if pan || err != nil {
				c.Violation("a point operation fails on valid points", map[string]any{"op": op, "p": h.Hex(P), "q": h.Hex(Q), "panic": msg})
				continue
			}
			switch op {
			case "equal":
				c.Case("point:equal", true, "pt_equal", [][]byte{P, Q}, [][]byte{h.StOK, {byte(fl)}})
			case "double", "neg":
				c.Case("point:"+op, true, "pt_"+op, [][]byte{P}, [][]byte{h.StOK, out})
			default:
				c.Case("point:"+op, true, "pt_"+op, [][]byte{P, Q}, [][]byte{h.StOK, out})
			}
		}
	}
	// --- scalar multiplication: the windowed implementations against the model's double-and-add ---------------------
	if part == 1 || c.Thorough() {
		s := randScalar()
		if part%8 == 1 {
			s = leBytes(new(big.Int).Sub(L, big.NewInt(1)), 32)
		}
		c.Case("point:base-mult", true, "pt_base_mul", [][]byte{s}, [][]byte{ed25519.VerifPointScalarBaseMult(s)})
	}
	if part == 2 || c.Thorough() {
		s, P := randScalar(), randPoint()
		out, err := ed25519.VerifPointScalarMult(s, P)
		c.Case("point:scalar-mult", true, "pt_mul", [][]byte{s, P}, outs(err, out))
	}
	// --- Ed25519 inside the model: key, signature, verdict -----------------------------------------------------------
	if part == 3 || c.Thorough() {
		seed := rnd(c, 32)
		priv := ed25519.NewKeyFromSeed(seed)
		msg := rnd(c, 1+c.Rng.Intn(200))
		sig := ed25519.Sign(priv, msg)
		if !bytes.Equal(sig, stded.Sign(stded.NewKeyFromSeed(seed), msg)) {
			c.Violation("Sign produces exactly the bytes crypto/ed25519 produces", map[string]any{"seed": h.Hex(seed)})
		}
		c.Case("model-only:public-key", true, "edm_public", [][]byte{seed}, [][]byte{priv[32:]})
		c.Case("model-only:signature", true, "edm_sign", [][]byte{seed, msg}, [][]byte{sig})
	}
	if part == 0 || part == 4 || c.Thorough() {
		seed := rnd(c, 32)
		priv := ed25519.NewKeyFromSeed(seed)
		pub := []byte(priv[32:])
		msg := rnd(c, 1+c.Rng.Intn(100))
		sig := ed25519.Sign(priv, msg)
		if part == 0 || c.Thorough() {
			c.Case("model-only:verdict", true, "edm_verify", [][]byte{pub, msg, sig}, [][]byte{flagB(ed25519.Verify(pub, msg, sig))})
		}
		if part == 4 || c.Thorough() {
			bad := clone(sig)
			msg2 := clone(msg)
			if c.Rng.Intn(2) == 0 {
				bad[c.Rng.Intn(64)] ^= 1 << uint(c.Rng.Intn(8))
			} else {
				msg2[0] ^= 1
			}
			c.Case("model-only:verdict", true, "edm_verify", [][]byte{pub, msg2, bad}, [][]byte{flagB(ed25519.Verify(pub, msg2, bad))})
		}
	}
}
