module verif/harness

go 1.23.0

require (
	github.com/cisco/go-hpke v0.0.0-20210524174249-dd22b38cf960
	github.com/cloudflare/circl v1.3.7
	github.com/cloudflare/pat-go v0.0.0
	golang.org/x/crypto v0.35.0
)

replace github.com/cloudflare/pat-go => /repo
