package main

import (
	"bytes"
	"fmt"
	"runtime"
	"sync"

	"github.com/cloudflare/pat-go/quicwire"
	"verif/harness/internal/h"
)

func init() { props["C19"] = runC19 }

func optNum(v uint64, n int) [][]byte {
	if n < 0 {
		return [][]byte{h.StNone}
	}
	return [][]byte{h.StOK, h.U64(v), h.U64(uint64(n))}
}
func optBytes(v []byte, n int) [][]byte {
	if n < 0 {
		return [][]byte{h.StNone}
	}
	return [][]byte{h.StOK, v, h.U64(uint64(n))}
}

func withSpare(p []byte, spare int) []byte {
	buf := make([]byte, len(p), len(p)+spare)
	copy(buf, p)
	full := buf[:cap(buf)]
	for i := len(p); i < len(full); i++ {
		full[i] = 0xa5
	}
	return buf
}

func varintValues(c *h.Ctx) []uint64 {
	vals := []uint64{0, 1, 62, 63, 64, 65, 16382, 16383, 16384, 16385, 1<<30 - 2, 1<<30 - 1, 1 << 30, 1<<30 + 1,
		1<<62 - 2, 1<<62 - 1, 1 << 62, 1<<62 + 1, 1<<63 - 1, 1 << 63, ^uint64(0)}
	for k := uint(0); k <= 63; k++ {
		vals = append(vals, 1<<k-1, 1<<k, 1<<k+1)
	}
	per := 8
	if c.Thorough() {
		per = 200
	}
	for k := uint(1); k <= 64; k++ {
		for i := 0; i < per; i++ {
			v := c.Rng.Uint64()
			if k < 64 {
				v &= (1 << k) - 1
				v |= 1 << (k - 1)
			}
			vals = append(vals, v)
		}
	}
	return vals
}

func runC19(c *h.Ctx) {
	// 1. encoder / size on values, with prefixes (incl. spare capacity) --------------------------
	prefixes := [][]byte{nil, {0x01}, {0xde, 0xad, 0xbe, 0xef}}
	for _, v := range varintValues(c) {
		cat := "enc:in-range"
		if v > quicwire.MaxVarint {
			cat = "enc:above-max"
		}
		for pi, p := range prefixes {
			for _, spare := range []int{0, 16} {
				buf := withSpare(p, spare)
				var out []byte
				pan, _ := h.Protect(func() { out = quicwire.AppendVarint(buf, v) })
				if pan {
					c.Case(cat, true, "append_varint", [][]byte{p, h.U64(v)}, [][]byte{h.StPanic})
				} else {
					c.Case(cat, true, "append_varint", [][]byte{p, h.U64(v)}, [][]byte{h.StOK, out})
					// predicate on the implementation alone
					if !bytes.Equal(out[:len(p)], p) {
						c.Violation("encoder leaves prefix untouched", map[string]any{"v": v, "prefix": h.Hex(p), "out": h.Hex(out)})
					}
					if v <= quicwire.MaxVarint {
						dv, n := quicwire.ConsumeVarint(out[len(p):])
						if dv != v || n != len(out)-len(p) || n != quicwire.SizeVarint(v) || !shortest(v, n) {
							c.Violation("round trip / size / shortest form", map[string]any{"v": v, "out": h.Hex(out), "decoded": dv, "n": n})
						}
					}
				}
				if pi > 0 {
					break
				}
			}
		}
		var sz int
		pan, _ := h.Protect(func() { sz = quicwire.SizeVarint(v) })
		if pan {
			c.Case("size", true, "size_varint", [][]byte{h.U64(v)}, [][]byte{h.StPanic})
		} else {
			c.Case("size", true, "size_varint", [][]byte{h.U64(v)}, [][]byte{h.StOK, h.U64(uint64(sz))})
		}
	}
	// 2. decoder: all first bytes x lengths 0..9 x fill patterns (exhaustive) ---------------------
	fills := []byte{0x00, 0xff, 0x5a}
	for b0 := 0; b0 < 256; b0++ {
		for l := 0; l <= 9; l++ {
			for _, f := range fills {
				in := make([]byte, l)
				for i := range in {
					in[i] = f + byte(i)
				}
				if l > 0 {
					in[0] = byte(b0)
				}
				doConsume(c, "dec:first-byte-sweep", in)
				if l == 0 {
					break
				}
			}
		}
	}
	nr := 2000
	if c.Thorough() {
		nr = 40000
	}
	for i := 0; i < nr; i++ {
		in := make([]byte, c.Rng.Intn(12))
		c.Rng.Read(in)
		doConsume(c, "dec:random", in)
	}
	// 3. length-prefixed strings: declared lengths x remaining lengths -----------------------------
	declared := []uint64{0, 1, 2, 62, 63, 64, 65, 70, 71, 255, 256, 16383, 16384, 1<<30 - 1, 1 << 30, 1 << 32, 1 << 40, 1<<62 - 1}
	for _, d := range declared {
		for rem := 0; rem <= 70; rem++ {
			if !c.Thorough() && rem > 8 && rem < 60 && rem%7 != 0 {
				continue
			}
			in := quicwire.AppendVarint(nil, d)
			body := make([]byte, rem)
			c.Rng.Read(body)
			in = append(in, body...)
			doConsumeVarintBytes(c, "vbytes:declared-vs-remaining", in, d, rem)
		}
	}
	for b0 := 0; b0 < 256; b0++ { // every header byte on short inputs
		for l := 0; l <= 10; l++ {
			in := make([]byte, l)
			c.Rng.Read(in)
			if l > 0 {
				in[0] = byte(b0)
			}
			doConsumeVarintBytes(c, "vbytes:first-byte-sweep", in, 0, -1)
			doConsumeUint8Bytes(c, "u8bytes:first-byte-sweep", in)
		}
	}
	for _, l := range []int{0, 1, 63, 64, 255, 256, 257, 16383, 16384, 70000} {
		v := make([]byte, l)
		c.Rng.Read(v)
		for _, p := range prefixes {
			var out []byte
			pan, _ := h.Protect(func() { out = quicwire.AppendVarintBytes(withSpare(p, 8), v) })
			if pan {
				c.Case("vbytes:append", true, "append_varint_bytes", [][]byte{p, v}, [][]byte{h.StPanic})
			} else {
				c.Case("vbytes:append", true, "append_varint_bytes", [][]byte{p, v}, [][]byte{h.StOK, out})
				got, n := quicwire.ConsumeVarintBytes(out[len(p):])
				if !bytes.Equal(got, v) || n != len(out)-len(p) || !bytes.Equal(out[:len(p)], p) {
					c.Violation("varint-prefixed bytes round trip", map[string]any{"len": l, "n": n})
				}
			}
			pan, _ = h.Protect(func() { out = quicwire.AppendUint8Bytes(withSpare(p, 8), v) })
			if pan {
				c.Case("u8bytes:append", true, "append_uint8_bytes", [][]byte{p, v}, [][]byte{h.StPanic})
			} else {
				c.Case("u8bytes:append", true, "append_uint8_bytes", [][]byte{p, v}, [][]byte{h.StOK, out})
				got, n := quicwire.ConsumeUint8Bytes(out[len(p):])
				if !bytes.Equal(got, v) || n != len(out)-len(p) || l > 255 {
					c.Violation("uint8-prefixed bytes round trip", map[string]any{"len": l, "n": n})
				}
			}
		}
	}
	// 3b. a length-prefixed string INSIDE a longer message: the result depends on the prefix and the announced bytes only,
	// whatever follows and however much of it (trailing lengths around 2^8 and 2^16: conversions of the remaining length)
	for _, bl := range []int{0, 1, 2, 63, 64, 127, 128, 200, 254, 255} {
		body := rnd(c, bl)
		for _, trail := range []int{0, 1, 2, 7, 8, 254, 255, 256, 257, 300, 511, 512, 65535, 65536, 65537, 70000} {
			if !c.Thorough() && trail > 600 && bl%64 != 0 && bl != 255 {
				continue
			}
			tr := rnd(c, trail)
			u8 := cat([]byte{byte(bl)}, body, tr)
			doConsumeUint8Bytes(c, "u8bytes:inside-longer-message", u8)
			got, n := quicwire.ConsumeUint8Bytes(u8)
			if n != 1+bl || !bytes.Equal(got, body) {
				c.Violation("ConsumeUint8Bytes returns exactly the announced bytes of a complete string, whatever follows it", map[string]any{"declared": bl, "trailing": trail, "n": n})
			}
			vb := cat(quicwire.AppendVarint(nil, uint64(bl)), body, tr)
			doConsumeVarintBytes(c, "vbytes:inside-longer-message", vb, uint64(bl), bl+trail)
			got, n = quicwire.ConsumeVarintBytes(vb)
			if n != len(vb)-trail || !bytes.Equal(got, body) {
				c.Violation("ConsumeVarintBytes returns exactly the announced bytes of a complete string, whatever follows it", map[string]any{"declared": bl, "trailing": trail, "n": n})
			}
		}
	}
	// every varint form decoded from its exact bytes and from the same bytes followed by 1..9 more: same value, same length
	for _, v := range []uint64{0, 1, 63, 64, 16383, 16384, 1 << 20, 1<<26 - 1, 1 << 26, 1<<26 + 5, 1 << 29, 1<<30 - 1, 1 << 30, 1 << 40, 1<<62 - 1} {
		for _, w := range []int{1, 2, 4, 8} {
			if v >= 1<<(uint(8*w)-2) {
				continue
			}
			enc := make([]byte, w)
			for i, x := 0, v; i < w; i++ {
				enc[w-1-i] = byte(x)
				x >>= 8
			}
			enc[0] |= map[int]byte{1: 0, 2: 0x40, 4: 0x80, 8: 0xc0}[w]
			v0, n0 := quicwire.ConsumeVarint(enc)
			for extra := 0; extra <= 9; extra++ {
				in := cat(enc, rnd(c, extra))
				doConsume(c, "dec:followed-by-more-bytes", in)
				v1, n1 := quicwire.ConsumeVarint(in)
				if v0 != v || n0 != w || v1 != v || n1 != w {
					c.Violation("the decoded value depends only on the announced bytes, not on how many bytes follow", map[string]any{"value": v, "width": w, "extra": extra, "got": v1, "n": n1})
				}
			}
		}
	}
	// 3c. the encoder writes only the bytes it reports as appended: spare capacity behind the result keeps its contents
	// (in-place framing: payload already behind the length prefix), and what it returns is nobody else's memory (a
	// result edited in place does not change what later calls return)
	for _, v := range varintValues(c) {
		if v > quicwire.MaxVarint {
			continue
		}
		for _, pl := range []int{0, 1, 5} {
			for _, spare := range []int{1, 2, 7, 8, 9, 16, 64} {
				buf := withSpare(rnd(c, pl), spare)
				var out []byte
				if pan, _ := h.Protect(func() { out = quicwire.AppendVarint(buf, v) }); pan {
					continue
				}
				c.Count("enc:spare-capacity-kept", 1, fmt.Sprint(v, pl, spare))
				if len(out) <= cap(buf) { // the result fits: append works in place, buf's backing array is the result's
					full := buf[:cap(buf)]
					for i := len(out); i < len(full); i++ {
						if full[i] != 0xa5 {
							c.Violation("the encoder writes only the bytes it reports as appended (spare capacity behind the result is left alone)", map[string]any{"v": v, "prefix_len": pl, "spare": spare, "offset": i})
							break
						}
					}
				}
			}
		}
		first := quicwire.AppendVarint(nil, v)
		want := append([]byte{}, first...)
		for i := range first {
			first[i] ^= 0xff
		}
		again := quicwire.AppendVarint(nil, v)
		again2 := quicwire.AppendVarint([]byte{}, v)
		if !bytes.Equal(again, want) || !bytes.Equal(again2, want) {
			c.Violation("the encoding of a value does not depend on what a caller did to an earlier result", map[string]any{"v": v, "want": h.Hex(want), "got": h.Hex(again)})
		}
	}
	// 4. fixed-width integers ----------------------------------------------------------------------
	for l := 0; l <= 10; l++ {
		for i := 0; i < 6; i++ {
			in := make([]byte, l)
			c.Rng.Read(in)
			if i == 0 {
				for j := range in {
					in[j] = 0xff
				}
			}
			v32, n32 := quicwire.ConsumeUint32(in)
			c.Case("uint32", true, "consume_uint32", [][]byte{in}, optNum(uint64(v32), n32))
			v64, n64 := quicwire.ConsumeUint64(in)
			c.Case("uint64", true, "consume_uint64", [][]byte{in}, optNum(v64, n64))
		}
	}
	// 5. predicate sweep on the implementation alone (exhaustive below the bound) -------------------
	bound := uint64(1) << 20
	if c.Thorough() {
		bound = 1 << 30
	}
	sweepVarints(c, bound)
	c.Notes["exhaustive_sweep_below"] = bound
}

func shortest(v uint64, n int) bool {
	switch {
	case v < 1<<6:
		return n == 1
	case v < 1<<14:
		return n == 2
	case v < 1<<30:
		return n == 4
	default:
		return n == 8
	}
}

func sweepVarints(c *h.Ctx, bound uint64) {
	workers := runtime.NumCPU()
	var wg sync.WaitGroup
	chunk := bound / uint64(workers)
	for w := 0; w < workers; w++ {
		lo, hi := uint64(w)*chunk, uint64(w+1)*chunk
		if w == workers-1 {
			hi = bound
		}
		wg.Add(1)
		go func() {
			defer wg.Done()
			buf := make([]byte, 0, 16)
			for v := lo; v < hi; v++ {
				out := quicwire.AppendVarint(buf[:0], v)
				dv, n := quicwire.ConsumeVarint(out)
				if dv != v || n != len(out) || quicwire.SizeVarint(v) != n || !shortest(v, n) {
					c.Violation("exhaustive sweep: round trip / size / shortest", map[string]any{"v": v, "out": h.Hex(out), "decoded": dv, "n": n})
					return
				}
			}
		}()
	}
	wg.Wait()
	c.Count("sweep:roundtrip", int(bound), fmt.Sprintf("sweep<%d", bound))
}

func doConsume(c *h.Ctx, cat string, in []byte) {
	var v uint64
	var n int
	pan, _ := h.Protect(func() { v, n = quicwire.ConsumeVarint(in) })
	if pan {
		c.Case(cat, true, "consume_varint", [][]byte{in}, [][]byte{h.StPanic})
		c.Violation("decoder panics", map[string]any{"input": h.Hex(in)})
		return
	}
	c.Case(cat, len(in) > 0, "consume_varint", [][]byte{in}, optNum(v, n))
	if v64, n64 := quicwire.ConsumeVarintInt64(in); n64 != n || v64 < 0 || uint64(v64) != v {
		c.Violation("ConsumeVarintInt64 returns the value and length ConsumeVarint returns (62 bits never overflow an int64)", map[string]any{"input": h.Hex(in), "v": v, "v64": v64})
	}
	// predicate: reads only the announced bytes; fails exactly when fewer are available
	if len(in) > 0 {
		k := 1 << (in[0] >> 6)
		if (n < 0) != (len(in) < k) || (n >= 0 && n != k) {
			c.Violation("decoder fails exactly when fewer than announced bytes are available", map[string]any{"input": h.Hex(in), "n": n})
		}
		if n >= 0 {
			mut := append([]byte{}, in...)
			for i := k; i < len(mut); i++ {
				mut[i] ^= 0xff
			}
			v2, n2 := quicwire.ConsumeVarint(mut)
			if v2 != v || n2 != n {
				c.Violation("decoder depends on bytes beyond the announced length", map[string]any{"input": h.Hex(in)})
			}
		}
	} else if n >= 0 {
		c.Violation("decoder accepts empty input", nil)
	}
}

func doConsumeVarintBytes(c *h.Ctx, cat string, in []byte, declared uint64, rem int) {
	var v []byte
	var n int
	pan, msg := h.Protect(func() { v, n = quicwire.ConsumeVarintBytes(in) })
	if pan {
		c.Case(cat, true, "consume_varint_bytes", [][]byte{in}, [][]byte{h.StPanic})
		c.Violation("ConsumeVarintBytes panics / reads out of bounds", map[string]any{"input": h.Hex(in), "panic": msg})
		return
	}
	c.Case(cat, true, "consume_varint_bytes", [][]byte{in}, optBytes(v, n))
	if rem >= 0 {
		if (declared > uint64(rem)) != (n < 0) {
			c.Violation("declared length larger than remaining input must be an error (and only then)", map[string]any{"declared": declared, "remaining": rem, "n": n})
		}
	}
}

func doConsumeUint8Bytes(c *h.Ctx, cat string, in []byte) {
	var v []byte
	var n int
	pan, msg := h.Protect(func() { v, n = quicwire.ConsumeUint8Bytes(in) })
	if pan {
		c.Case(cat, true, "consume_uint8_bytes", [][]byte{in}, [][]byte{h.StPanic})
		c.Violation("ConsumeUint8Bytes panics", map[string]any{"input": h.Hex(in), "panic": msg})
		return
	}
	c.Case(cat, true, "consume_uint8_bytes", [][]byte{in}, optBytes(v, n))
}
