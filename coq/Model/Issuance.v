(** Issuance.v — Layer C: the issuance protocols of types 0x0001 (VOPRF, P-384) and 0x0002 (blind RSA) end to end,
    with the C04 codecs as the wire.  Group elements are scalars of an abstract field (exponent form), RSA values
    are elements of an abstract commutative ring; encodings, hash-to-group, the output hash, DLEQ proofs, the
    EMSA-PSS encoding and SHA-256 are parameters.  The client finalization functions transcribe
    type1/client.go:36-70 and type2/client.go:36-65 for ARBITRARY response bytes (used by C02). *)
From PatVerif Require Export Model.Codecs Model.TokenVerify Model.Algebra.
Open Scope N_scope.

Definition fresh12 : breq := {| q_keyid := 0; q_blinded := [] |}.

Section Type1.
  Variable F : Type.
  Variables (f0 f1 : F) (fmul : F -> F -> F) (finv : F -> F) (feqb : F -> F -> bool).
  Variable h256 : list byte -> list byte.                (* SHA-256 *)
  Variable h2g : list byte -> F.                         (* hash_to_group of the token input *)
  Variable enc_elt : F -> list byte.                     (* 49-byte compressed encoding *)
  Variable dec_elt : list byte -> option F.
  Variable fin : list byte -> F -> list byte.            (* output hash of (input, unblinded element) *)
  Variable prove : F -> F -> F -> list byte -> list byte.    (* key, blinded, evaluated, randomness -> 96-byte proof *)
  Variable dleq_ok : F -> F -> F -> list byte -> bool.       (* public key, blinded, evaluated, proof bytes *)

  Definition token_input (ty : N) (nonce challenge keyid : list byte) : list byte :=
    u16 ty ++ nonce ++ h256 challenge ++ keyid.

  (** client state after CreateTokenRequest *)
  Record state1 := { s_input : list byte; s_blind : F; s_blinded : F; s_pk : F; s_req : breq }.
  Definition create1 (pk : F) (beta : F) (nonce challenge keyid : list byte) : state1 :=
    let input := token_input 1 nonce challenge keyid in
    let b := fmul beta (h2g input) in
    {| s_input := input; s_blind := beta; s_blinded := b; s_pk := pk;
       s_req := {| q_keyid := b2n (last keyid x00); q_blinded := enc_elt b |} |}.

  (** BasicPrivateIssuer.Evaluate on a decoded request (identity rejected: fix d05aafb) *)
  Definition evaluate1 (k : F) (rnd : list byte) (r : breq) : option (list byte) :=
    match dec_elt (q_blinded r) with
    | None => None
    | Some b => if feqb b f0 then None else let ev := fmul k b in Some (enc_elt ev ++ prove k b ev rnd)
    end.

  (** BasicPrivateTokenRequestState.FinalizeToken on ARBITRARY response bytes *)
  Definition finalize1 (s : state1) (resp : list byte) : option token :=
    if Nat.ltb (length resp) 49 then None else
    match dec_elt (firstn 49 resp) with
    | None => None
    | Some ev =>
      let rest := skipn 49 resp in
      if Nat.ltb (length rest) 96 then None else               (* proof.UnmarshalBinary: io.ErrShortBuffer below two 48-byte scalars; *)
      let pf := firstn 96 rest in                              (* anything after them is ignored *)
      if negb (dleq_ok (s_pk s) (s_blinded s) ev pf) then None else
      dec_token 48 (s_input s ++ fin (s_input s) (fmul (finv (s_blind s)) ev))
    end.

  (** the honest run with every message crossing the wire as bytes *)
  Definition run1 (k beta : F) (rnd nonce challenge keyid : list byte) : option token :=
    let s := create1 (fmul k f1) beta nonce challenge keyid in
    match um_req12 1 ne1 fresh12 (enc_req12 1 (s_req s)) with
    | (true, r) => match evaluate1 k rnd r with Some resp => finalize1 s resp | None => None end
    | (false, _) => None
    end.

  (** the issuer's full evaluation F(k, input), what Verify recomputes *)
  Definition full_evaluate (k : F) (input : list byte) : option (list byte) := Some (fin input (fmul k (h2g input))).
End Type1.

Section Type2.
  Variable R : Type.
  Variables (r1 : R) (rmul : R -> R -> R).
  Variable h256 : list byte -> list byte.
  Variable emsa : list byte -> list byte -> R.           (* EMSA-PSS(SHA-384(input), salt) as an integer mod n *)
  Variable enc_r : R -> list byte.                       (* 256-byte big-endian *)
  Variable dec_r : list byte -> option R.                (* value below the modulus *)
  Variable pss_ok : list byte -> list byte -> bool.      (* rsa.VerifyPSS under the pinned key: input, signature *)

  Record state2 := { s2_input : list byte; s2_rinv : R; s2_req : breq }.
  Definition create2 (e : nat) (r rinv : R) (salt nonce challenge keyid : list byte) : state2 :=
    let input := token_input h256 2 nonce challenge keyid in
    {| s2_input := input; s2_rinv := rinv;
       s2_req := {| q_keyid := b2n (last keyid x00); q_blinded := enc_r (rsa_blind R r1 rmul (emsa input salt) r e) |} |}.
  (** BasicPublicIssuer.Evaluate: blind signature of a 256-byte message *)
  Definition evaluate2 (d : nat) (r : breq) : option (list byte) :=
    if negb (Nat.eqb (length (q_blinded r)) 256) then None else
    match dec_r (q_blinded r) with Some m => Some (enc_r (rsa_blind_sign R r1 rmul m d)) | None => None end.
  (** BasicPublicTokenRequestState.FinalizeToken on ARBITRARY response bytes: unblind, build the token, re-verify *)
  Definition finalize2 (s : state2) (resp : list byte) : option token :=
    if negb (Nat.eqb (length resp) 256) then None else
    match dec_r resp with
    | None => None
    | Some bs =>
      match dec_token 256 (s2_input s ++ enc_r (rsa_finalize R rmul bs (s2_rinv s))) with
      | None => None
      | Some t => if pss_ok (auth_input t) (t_auth t) then Some t else None
      end
    end.
  Definition run2 (e d : nat) (r rinv : R) (salt nonce challenge keyid : list byte) : option token :=
    let s := create2 e r rinv salt nonce challenge keyid in
    match um_req12 2 ne2 fresh12 (enc_req12 2 (s2_req s)) with
    | (true, rq) => match evaluate2 d rq with Some resp => finalize2 s resp | None => None end
    | (false, _) => None
    end.
End Type2.

(** ** type 0x0005: the VOPRF core per element over ristretto255 (32-byte encodings, 64-byte outputs), one batched
    DLEQ proof, elements carried in the varint-prefixed list of the C04 codec *)
Section Type5.
  Variable F : Type.
  Variables (f0 f1 : F) (fmul : F -> F -> F) (finv : F -> F).
  Variable h256 : list byte -> list byte.
  Variable h2g : list byte -> F.
  Variable enc_elt : F -> list byte.                     (* 32 bytes *)
  Variable dec_elt : list byte -> option F.
  Variable fin : list byte -> F -> list byte.            (* 64 bytes *)
  Variable prove_b : F -> list F -> list F -> list byte -> list byte.   (* 64-byte batched proof *)
  Variable dleq_b_ok : F -> list F -> list F -> list byte -> bool.     (* decodes canonically and verifies *)

  Record state5 := { s5_inputs : list (list byte); s5_blinds : list F; s5_blinded : list F; s5_pk : F; s5_req : req5 }.
  Definition create5 (pk : F) (betas : list F) (nonces : list (list byte)) (challenge keyid : list byte) : state5 :=
    let inputs := map (fun n => token_input h256 5 n challenge keyid) nonces in
    let bl := map (fun p => fmul (fst p) (h2g (snd p))) (combine betas inputs) in
    {| s5_inputs := inputs; s5_blinds := betas; s5_blinded := bl; s5_pk := pk;
       s5_req := {| q5_keyid := b2n (last keyid x00); q5_elems := map enc_elt bl |} |}.
  Fixpoint dec_all (l : list (list byte)) : option (list F) :=
    match l with
    | [] => Some []
    | e :: t => match dec_elt e, dec_all t with Some x, Some r => Some (x :: r) | _, _ => None end
    end.
  (** BatchedPrivateIssuer.Evaluate on a decoded request *)
  Definition evaluate5 (k : F) (rnd : list byte) (r : req5) : option (list byte) :=
    match dec_all (q5_elems r) with
    | None => None
    | Some bs =>
      let evs := map (fmul k) bs in
      let body := concat (map enc_elt evs) in
      Some (enc_varint (N.of_nat (length body)) ++ body ++ prove_b k bs evs rnd)
    end.
  Fixpoint all_some {A} (l : list (option A)) : option (list A) :=
    match l with
    | [] => Some []
    | Some x :: t => match all_some t with Some r => Some (x :: r) | None => None end
    | None :: _ => None
    end.
  (** BatchedPrivateTokenRequestState.FinalizeTokens on ARBITRARY response bytes *)
  Definition finalize5 (s : state5) (resp : list byte) : option (list token) :=
    match consume_varint resp with
    | None => None
    | Some (l, off) =>
      let r1 := skipn off resp in
      if N.of_nat (length r1) <? l then None else
      let body := firstn (N.to_nat l) r1 in
      let r2 := skipn (N.to_nat l) r1 in
      if negb (Nat.eqb (Nat.modulo (length body) 32) 0) then None else
      let n := Nat.div (length body) 32 in
      if negb (Nat.eqb n (length (s5_inputs s))) then None else
      match dec_all (chunks32 n body) with
      | None => None
      | Some evs =>
        if Nat.ltb (length r2) 64 then None else
        if negb (dleq_b_ok (s5_pk s) (s5_blinded s) evs (firstn 64 r2)) then None else
        all_some (map (fun p => dec_token 64 (fst (fst p) ++ fin (fst (fst p)) (fmul (finv (snd (fst p))) (snd p))))
                      (combine (combine (s5_inputs s) (s5_blinds s)) evs))
      end
    end.
  Definition run5 (k : F) (betas : list F) (rnd : list byte) (nonces : list (list byte)) (challenge keyid : list byte)
    : option (list token) :=
    let s := create5 (fmul k f1) betas nonces challenge keyid in
    match um_req5 {| q5_keyid := 0; q5_elems := [] |} (enc_req5 (s5_req s)) with
    | (true, r) => match evaluate5 k rnd r with Some resp => finalize5 s resp | None => None end
    | (false, _) => None
    end.
End Type5.
Close Scope N_scope.
