(** C02 — a client only outputs tokens that verify and belong to its own request.
    Model/Issuance.v [finalize1] / [finalize2] transcribe the client finalizations of types 0x0001 and 0x0002 for
    ARBITRARY response bytes and ARBITRARY primitives.  Type 2 (and the type-3 client, which ends with the same
    unblind-then-PSS-verify step) is unconditional; type 1 (and type 5, the same check over a list) is under DLEQ
    soundness as a named hypothesis. *)
From Coq Require Import Field Ring.
From PatVerif Require Import Model.Issuance Proofs.IssuanceP.
Open Scope N_scope.

Section Type2.
  Variable R : Type.
  Variables (r1 : R) (rmul : R -> R -> R).
  Variable h256 : list byte -> list byte.
  Variable emsa : list byte -> list byte -> R.
  Variable enc_r : R -> list byte.
  Variable dec_r : list byte -> option R.
  Variable pss_ok : list byte -> list byte -> bool.
  Hypothesis h256_len : forall x, length (h256 x) = 32%nat.
  Hypothesis enc_r_len : forall x, length (enc_r x) = 256%nat.

  (** whatever bytes come back: an output token passed RSA-PSS verification under the pinned key over its own
      authenticator input, that input is the request's (same nonce, challenge digest, key id), and the response had
      exactly 256 bytes — every other response is an error *)
  Theorem finalize2_ok_implies_valid_bound : forall (s : state2 R) resp tok nonce challenge keyid,
    s2_input R s = token_input h256 2 nonce challenge keyid -> length nonce = 32%nat -> length keyid = 32%nat ->
    finalize2 R rmul enc_r dec_r pss_ok s resp = Some tok ->
    pss_ok (auth_input tok) (t_auth tok) = true /\ auth_input tok = s2_input R s /\
    t_type tok = 2 /\ t_nonce tok = nonce /\ t_ctx tok = h256 challenge /\ t_keyid tok = keyid /\
    length resp = 256%nat.
  Proof. exact (finalize2_ok_implies_l R rmul h256 emsa enc_r dec_r pss_ok h256_len enc_r_len). Qed.
End Type2.
Print Assumptions finalize2_ok_implies_valid_bound.

Section Type1.
  Variable F : Type.
  Variables (f0 f1 : F) (fadd fmul fsub : F -> F -> F) (fopp : F -> F) (fdiv : F -> F -> F) (finv : F -> F).
  Variable feqb : F -> F -> bool.
  Hypothesis Fth : field_theory f0 f1 fadd fmul fsub fopp fdiv finv (@eq F).
  Variable h256 : list byte -> list byte.
  Variable h2g : list byte -> F.
  Variable enc_elt : F -> list byte.
  Variable dec_elt : list byte -> option F.
  Variable fin : list byte -> F -> list byte.
  Variable prove : F -> F -> F -> list byte -> list byte.
  Variable dleq_ok : F -> F -> F -> list byte -> bool.
  Hypothesis h256_len : forall x, length (h256 x) = 32%nat.
  Hypothesis fin_len : forall i e, length (fin i e) = 48%nat.

  (** whatever bytes come back: a token is output only if the response has at least 145 bytes, its first 49 decode
      to an element, and the DLEQ proof in the next 96 is accepted for (pinned key, own blinded element, that element);
      bytes after the proof are ignored by the code (and by the model) *)
  Theorem finalize1_ok_implies : forall (s : state1 F) resp tok nonce challenge keyid,
    s_input F s = token_input h256 1 nonce challenge keyid -> length nonce = 32%nat -> length keyid = 32%nat ->
    finalize1 F fmul finv dec_elt fin dleq_ok s resp = Some tok ->
    exists ev, dec_elt (firstn 49 resp) = Some ev /\ (145 <= length resp)%nat /\
               dleq_ok (s_pk F s) (s_blinded F s) ev (firstn 96 (skipn 49 resp)) = true /\
               tok = {| t_type := 1; t_nonce := nonce; t_ctx := h256 challenge; t_keyid := keyid;
                        t_auth := fin (s_input F s) (fmul (finv (s_blind F s)) ev) |}.
  Proof. exact (finalize1_ok_implies_l F fmul finv feqb h256 h2g enc_elt dec_elt fin prove dleq_ok h256_len fin_len). Qed.

  (** under DLEQ soundness for the pinned key, the output token verifies under the issuer's key and carries the
      request's nonce, challenge digest and key id *)
  Theorem finalize1_ok_implies_valid_bound : forall k beta nonce challenge keyid resp tok,
    (forall b ev pf, dleq_ok (fmul k f1) b ev pf = true -> ev = fmul k b) ->
    length nonce = 32%nat -> length keyid = 32%nat -> beta <> f0 ->
    finalize1 F fmul finv dec_elt fin dleq_ok (create1 F fmul h256 h2g enc_elt (fmul k f1) beta nonce challenge keyid) resp = Some tok ->
    verify (full_evaluate F fmul h2g fin k) tok = true /\
    t_nonce tok = nonce /\ t_ctx tok = h256 challenge /\ t_keyid tok = keyid /\ t_type tok = 1.
  Proof. exact (finalize1_sound_l F f0 f1 fadd fmul fsub fopp fdiv finv feqb Fth h256 h2g enc_elt dec_elt fin prove dleq_ok h256_len fin_len). Qed.
End Type1.
Print Assumptions finalize1_ok_implies.
Print Assumptions finalize1_ok_implies_valid_bound.

(** ** all four types, over the BYTE-LEVEL finalization models that are executed against the code
    (Model/Frontends.v fin1, fin2, fin3, fin5: every slice expression and length check of the Go functions, with the
    cryptographic steps as ARBITRARY functions).  [tok_input ty nonce ctx keyid] is the request's token input. *)
From PatVerif Require Import Model.Frontends Proofs.FinalizeP.

(** type 2 — unconditional: an output token passed RSA-PSS verification under the pinned key over its own input,
    and that input, nonce, challenge digest and key id are the request's *)
Theorem fin2_ok_implies : forall rsa_finalize pss_ok ty nonce ctx keyid resp t,
  ty < 65536 -> length nonce = 32%nat -> length ctx = 32%nat -> length keyid = 32%nat ->
  fin2 rsa_finalize pss_ok (tok_input ty nonce ctx keyid) resp = Ok t ->
  pss_ok (auth_input t) (t_auth t) = true /\ auth_input t = tok_input ty nonce ctx keyid /\
  t_nonce t = nonce /\ t_ctx t = ctx /\ t_keyid t = keyid /\ t_type t = ty /\ length (t_auth t) = 256%nat.
Proof. exact fin2_ok_implies_l. Qed.
Print Assumptions fin2_ok_implies.

(** type 3 — unconditional: additionally the response decrypted under the key derived from the request's own HPKE
    context (salt = encapsulated key || response nonce) *)
Theorem fin3_ok_implies : forall aead_open rsa_finalize pss_ok encap ty nonce ctx keyid resp t,
  ty < 65536 -> length nonce = 32%nat -> length ctx = 32%nat -> length keyid = 32%nat ->
  fin3 aead_open rsa_finalize pss_ok encap (tok_input ty nonce ctx keyid) resp = Ok t ->
  (16 <= length resp)%nat /\
  (exists bs, aead_open (encap ++ firstn 16 resp) (skipn 16 resp) = Some bs) /\
  pss_ok (auth_input t) (t_auth t) = true /\ auth_input t = tok_input ty nonce ctx keyid /\
  t_nonce t = nonce /\ t_ctx t = ctx /\ t_keyid t = keyid /\ t_type t = ty.
Proof. exact fin3_ok_implies_l. Qed.
Print Assumptions fin3_ok_implies.

(** type 1 — the token is built from exactly what the verifiable-OPRF client's Finalize returned for (element,
    proof) = (first 49 bytes, rest), and carries the request's fields *)
Theorem fin1_ok_implies : forall elt_ok proof_ok finalize ty nonce ctx keyid resp t,
  ty < 65536 -> length nonce = 32%nat -> length ctx = 32%nat -> length keyid = 32%nat ->
  fin1 elt_ok proof_ok finalize (tok_input ty nonce ctx keyid) resp = Ok t ->
  (49 <= length resp)%nat /\
  exists out, finalize (firstn 49 resp) (skipn 49 resp) = Some out /\ (exists tl, out = t_auth t ++ tl) /\
              length (t_auth t) = 48%nat /\ auth_input t = tok_input ty nonce ctx keyid /\
              t_nonce t = nonce /\ t_ctx t = ctx /\ t_keyid t = keyid /\ t_type t = ty.
Proof. exact fin1_ok_implies_l. Qed.
Print Assumptions fin1_ok_implies.

(** type 5 — batch_count: success means exactly one token per requested nonce (the element count was checked
    against the number of requested tokens), all from ONE accepted (elements, proof) pair ... *)
Theorem fin5_count : forall elt_ok proof_ok finalize inputs resp toks a,
  fin5 elt_ok proof_ok finalize inputs resp = Ok (toks, a) ->
  length toks = length inputs /\
  exists elems pf outs, finalize elems pf = Some outs /\ length outs = length inputs /\ length elems = length inputs /\
    Forall2 (fun io t => dec_token 64 (fst io ++ snd io) = Some t) (combine inputs outs) toks.
Proof. exact fin5_ok_implies_l. Qed.
Print Assumptions fin5_count.

(** ... and token i is bound to nonce i (so dropping, duplicating or reordering elements can only lead to an error
    or to tokens that are still each bound to their own nonce — never to a token for another nonce) *)
Theorem fin5_binding : forall elt_ok proof_ok finalize nonces ctx keyid resp toks a,
  Forall (fun n => length n = 32%nat) nonces -> length ctx = 32%nat -> length keyid = 32%nat ->
  fin5 elt_ok proof_ok finalize (map (fun n => tok_input 5 n ctx keyid) nonces) resp = Ok (toks, a) ->
  length toks = length nonces /\
  forall i n t, nth_error nonces i = Some n -> nth_error toks i = Some t ->
    t_nonce t = n /\ t_ctx t = ctx /\ t_keyid t = keyid /\ t_type t = 5 /\ length (t_auth t) = 64%nat.
Proof. exact fin5_binding_l. Qed.
Print Assumptions fin5_binding.
