package main

import (
	"bytes"
	"crypto/elliptic"
	"fmt"
	pecdsa "github.com/cloudflare/pat-go/ecdsa"
	"math/big"

	"github.com/cloudflare/pat-go/tokens/type3"
	"verif/harness/internal/h"
)

func init() { props["C08"] = runC08 }

var ctxClientBlind = cat([]byte{0, 3}, []byte("ClientBlind"))
var ctxIssuerBlind = cat([]byte{0, 3}, []byte("IssuerBlind"))

type c08Origin struct {
	name     string
	indexKey []byte
}

// c08Expect asks the model for the closed form: index = HKDF(ikm = enc([b_o d]G), salt = enc([d]G)).
func c08Expect(c *h.Ctx, secret, indexKey []byte) (clientKeyEnc, index []byte) {
	curve := elliptic.P384()
	cx, cy := curve.ScalarBaseMult(new(big.Int).Mod(new(big.Int).SetBytes(secret), curve.Params().N).Bytes())
	clientKeyEnc = elliptic.MarshalCompressed(curve, cx, cy)
	m := c.Model("origin_exponent", secret, indexKey)
	ox, oy := curve.ScalarBaseMult(m[0])
	index = c.Model("compute_index", clientKeyEnc, elliptic.MarshalCompressed(curve, ox, oy))[0]
	return
}

func runC08(c0 *h.Ctx) {
	curve := elliptic.P384()
	N := curve.Params().N
	c0.Parallel(8, func(part int, c *h.Ctx) {
		shared := rnd(c, 48)
		small := rnd(c, 48)
		small[0], small[1] = 0, 0
		big1 := new(big.Int).Add(new(big.Int).SetBytes(small), N).Bytes() // same value as small + N: a DIFFERENT index key
		origins := []c08Origin{{"a.example", rnd(c, 48)}, {"b.example", shared}, {"c.example", shared}, {"lead0.example", small},
			{"plusN.example", big1}, {"ff.example", bytesFF(48)}, {"short.example", rnd(c, 20)}, {"", rnd(c, 48)},
			// names that differ only in presentation are different origins with their own index keys
			{"a.example.", rnd(c, 48)}, {"A.Example", rnd(c, 48)}, {"a.example..", rnd(c, 48)}, {" a.example", rnd(c, 48)}}
		om := map[string][]byte{}
		for _, o := range origins {
			om[o.name] = o.indexKey
		}
		env := newT3(c, part, rnd(c, 32), om)
		nClients := 2
		if c.Thorough() {
			nClients = 6
		}
		var seenIdx = map[string]string{} // index -> "client/indexkey" that produced it
		for ci := 0; ci < nClients; ci++ {
			secret := rnd(c, 48)
			switch (ci + part) % 4 {
			case 1:
				secret[0], secret[1] = 0, 0 // leading zero bytes
			case 2:
				secret = bytesFF(48) // >= N: reduced by the group, not by hashBlind (secret is not hashed)
			}
			client := type3.NewRateLimitedClientFromSecret(secret)
			att := type3.NewRateLimitedAttester(newRecCache())
			reuseBlind := rnd(c, 48) // ONE request blind reused across origins
			anonShared := rnd(c, 32) // ONE anonymous origin ID reused across origins with different index keys
			steps := 0
			for round := 0; round < 2; round++ {
				for oi, o := range origins {
					if !c.Thorough() && (oi+ci+round+part)%2 != 0 && oi > 2 {
						continue
					}
					wantKey, wantIdx := c08Expect(c, secret, o.indexKey)
					blind := rnd(c, 48)
					switch (oi + round + ci) % 4 {
					case 1:
						blind = reuseBlind
					case 2:
						blind[0] = 0
					case 3:
						blind = new(big.Int).Add(new(big.Int).SetBytes(blind[:47]), N).Bytes() // >= N
					}
					anon := rnd(c, 32)
					if round == 1 && oi%2 == 0 {
						anon = anonShared
					}
					chal := rnd(c, c.Rng.Intn(70))
					st, err := env.request(client, chal, rnd(c, 32), blind, o.name)
					det := map[string]any{"client_secret": h.Hex(secret), "origin": o.name, "index_key": h.Hex(o.indexKey), "blind": h.Hex(blind), "anon": h.Hex(anon), "step": steps}
					steps++
					if err != nil {
						det["err"] = err.Error()
						c.Violation("honest request creation fails", det)
						continue
					}
					// (RateLimitedTokenRequestState.RequestKey() returns nil on the unchanged tree: its field is never assigned.
					// No listed property speaks about that accessor; the request key is taken from the wire request.)
					if !bytes.Equal(st.ClientKey(), wantKey) {
						c.Violation("client key encoding differs from [d]G compressed", det)
					}
					if err := att.VerifyRequest(*st.Request(), blind, st.ClientKey(), anon); err != nil {
						det["err"] = err.Error()
						c.Violation("an honest request is refused by the attester", det)
						continue
					}
					respEv, brk, err := env.issuer.Evaluate(st.Request().Marshal())
					if err != nil {
						det["err"] = err.Error()
						c.Violation("an honest request is refused by the issuer", det)
						continue
					}
					// the two results are independent values: the attester appends a trailer to the response it forwards
					// (writes into its spare capacity) before it derives the ID from the key
					{
						keep := clone(brk)
						ext := respEv[:cap(respEv)]
						for k := len(respEv); k < len(ext); k++ {
							ext[k] ^= 0x5A
						}
						if !bytes.Equal(brk, keep) {
							c.Violation("the issuer's blinded request key is unaffected by what the caller does with the response returned beside it", det)
							continue
						}
					}
					// Evaluate's second return value = [b_o * b_c * d]G
					me := c.Model("ecdsa_blind_exp", []byte{3}, secret, blind, ctxClientBlind)
					mo := c.Model("origin_exponent", me[1], o.indexKey)
					bx, by := curve.ScalarBaseMult(mo[0])
					if !bytes.Equal(brk, elliptic.MarshalCompressed(curve, bx, by)) {
						c.Violation("the issuer's blinded request key is the request key blinded by the origin index key (context IssuerBlind)", det)
					}
					idx, err := att.FinalizeIndex(st.ClientKey(), blind, brk, anon)
					c.Count("index:protocol-run", 1, h.Hex(secret)+o.name+h.Hex(blind))
					if err != nil {
						// a collision of anonymous origin IDs is the attester's business (C09), not an index failure:
						// recompute on a scratch attester
						scratch := type3.NewRateLimitedAttester(newRecCache())
						scratch.VerifyRequest(*st.Request(), blind, st.ClientKey(), anon)
						idx, err = scratch.FinalizeIndex(st.ClientKey(), blind, brk, anon)
						if err != nil {
							det["err"] = err.Error()
							c.Violation("FinalizeIndex fails on an honest run", det)
							continue
						}
					}
					c.Case("index:closed-form", true, "compute_index", [][]byte{wantKey, c08IkmOf(c, secret, o.indexKey)}, [][]byte{idx})
					if !bytes.Equal(idx, wantIdx) {
						det["got"], det["want"] = h.Hex(idx), h.Hex(wantIdx)
						c.Violation("the anonymous issuer origin ID equals HKDF-SHA-384(salt = client key, ikm = client key blinded by the origin index key, info IssuerOriginAlias) on every request of the history", det)
					}
					// the same client public key in its other SEC1 presentations (uncompressed, hybrid): refused, or the same ID
					if cx, cy := elliptic.UnmarshalCompressed(curve, st.ClientKey()); cx != nil && (oi+round)%3 == 0 {
						unc := elliptic.Marshal(curve, cx, cy)
						hyb := append([]byte{6 + byte(cy.Bit(0))}, unc[1:]...)
						for _, alt := range [][]byte{unc, hyb} {
							a2 := type3.NewRateLimitedAttester(newRecCache())
							var e1, e2 error
							var idx2 []byte
							pan, _ := h.Protect(func() {
								e1 = a2.VerifyRequest(*st.Request(), blind, alt, anon)
								idx2, e2 = a2.FinalizeIndex(alt, blind, brk, anon)
							})
							c.Count("index:client-key-other-encoding", 1, h.Hex(alt))
							if pan {
								c.Violation("the attester panics on another encoding of the client key", det)
							} else if e2 == nil && !bytes.Equal(idx2, wantIdx) {
								det["alt_client_key"], det["got"], det["want"], det["verify_err"] = h.Hex(alt), h.Hex(idx2), h.Hex(wantIdx), e1 != nil
								c.Violation("the ID depends only on the client's public key: another encoding of the same key yields another ID", det)
							}
						}
					}
					who := h.Hex(secret) + "/" + new(big.Int).SetBytes(o.indexKey).String()
					if prev, ok := seenIdx[string(idx)]; ok && prev != who {
						c.Violation("distinct clients or origins with distinct index keys yield distinct IDs", det)
					}
					seenIdx[string(idx)] = who
				}
			}
			// an index key for which the unblinded point [b_o d]G has an X coordinate with TWO leading zero bytes (one in
			// 65536; searched with the model's exponent and crypto/elliptic): fixed-width encodings must keep both
			if ci == 0 && part == 0 {
				var ikShort []byte
				for trial := 0; trial < 400000 && ikShort == nil; trial++ {
					cand := sha256Bytes(cat(secret, h.U64(uint64(trial))))
					cand = cat(cand, cand[:16])
					f, err := pecdsa.VerifHashBlind(curve, &pecdsa.PrivateKey{D: new(big.Int).SetBytes(cand)}, ctxIssuerBlind)
					if err != nil {
						break
					}
					e := new(big.Int).Mul(f, new(big.Int).SetBytes(secret))
					e.Mod(e, N)
					x, _ := curve.ScalarBaseMult(e.Bytes())
					if x.BitLen() <= 368 {
						ikShort = cand
					}
				}
				c.Notes["short_x_index_key_found"] = ikShort != nil
				if ikShort != nil {
					priv, _ := pecdsa.CreateKey(curve, ikShort)
					env.issuer.AddOriginWithIndexKey("short-x.example", priv)
					_, wantIdx := c08Expect(c, secret, ikShort)
					for rep := 0; rep < 3; rep++ {
						bl := rnd(c, 48)
						stS, err := env.request(client, rnd(c, 9), rnd(c, 32), bl, "short-x.example")
						if err != nil {
							continue
						}
						_, brkS, err := env.issuer.Evaluate(stS.Request().Marshal())
						if err != nil {
							continue
						}
						a := type3.NewRateLimitedAttester(newRecCache())
						a.VerifyRequest(*stS.Request(), bl, stS.ClientKey(), nil)
						idxS, err := a.FinalizeIndex(stS.ClientKey(), bl, brkS, []byte("x"))
						c.Count("index:unblinded-point-with-short-x", 1, fmt.Sprint(rep))
						if err != nil || !bytes.Equal(idxS, wantIdx) {
							c.Violation("the ID equals the closed form when the blinded key's X coordinate has two leading zero bytes", map[string]any{"index_key": h.Hex(ikShort), "request": rep})
						}
					}
				}
			}
			// an origin whose index key is REPLACED on the live issuer (after it has served requests): the ID follows the
			// key in force — it depends on the origin's index key, not on the key the name once had
			if ci == 0 {
				rotName := "rotated.example"
				for gen := 0; gen < 3; gen++ {
					ik := rnd(c, 48)
					priv, _ := pecdsa.CreateKey(curve, ik)
					env.issuer.AddOriginWithIndexKey(rotName, priv)
					_, wantIdx := c08Expect(c, secret, ik)
					for rep := 0; rep < 2; rep++ {
						bl := rnd(c, 48)
						stR, err := env.request(client, rnd(c, 9), rnd(c, 32), bl, rotName)
						if err != nil {
							continue
						}
						_, brkR, err := env.issuer.Evaluate(stR.Request().Marshal())
						if err != nil {
							c.Violation("an honest request is refused by the issuer", map[string]any{"origin": rotName})
							continue
						}
						a := type3.NewRateLimitedAttester(newRecCache())
						a.VerifyRequest(*stR.Request(), bl, stR.ClientKey(), nil)
						idxR, err := a.FinalizeIndex(stR.ClientKey(), bl, brkR, []byte("x"))
						c.Count("index:origin-index-key-replaced", 1, fmt.Sprint(gen, rep))
						if err != nil || !bytes.Equal(idxR, wantIdx) {
							c.Violation("the ID equals the closed form under the origin's CURRENT index key (key replaced on a live issuer)", map[string]any{"generation": gen, "request": rep})
						}
					}
				}
			}
			// two requests of ONE client in flight at the attester			// two requests of ONE client in flight at the attester: both verified first, then both finalized (each with its
			// own blind), in both orders — the ID must not depend on which request the attester saw last
			for oi := 0; oi < 2; oi++ {
				o := origins[oi]
				_, wantIdx := c08Expect(c, secret, o.indexKey)
				b1, b2 := rnd(c, 48), rnd(c, 48)
				s1, e1 := env.request(client, rnd(c, 9), rnd(c, 32), b1, o.name)
				s2, e2 := env.request(client, rnd(c, 9), rnd(c, 32), b2, o.name)
				if e1 != nil || e2 != nil {
					continue
				}
				_, k1, e3 := env.issuer.Evaluate(s1.Request().Marshal())
				_, k2, e4 := env.issuer.Evaluate(s2.Request().Marshal())
				if e3 != nil || e4 != nil {
					continue
				}
				for order := 0; order < 2; order++ {
					a := type3.NewRateLimitedAttester(newRecCache())
					anon := rnd(c, 32)
					v1 := a.VerifyRequest(*s1.Request(), b1, s1.ClientKey(), anon)
					v2 := a.VerifyRequest(*s2.Request(), b2, s2.ClientKey(), anon)
					var i1, i2 []byte
					var f1, f2 error
					if order == 0 {
						i1, f1 = a.FinalizeIndex(s1.ClientKey(), b1, k1, anon)
						i2, f2 = a.FinalizeIndex(s2.ClientKey(), b2, k2, anon)
					} else {
						i2, f2 = a.FinalizeIndex(s2.ClientKey(), b2, k2, anon)
						i1, f1 = a.FinalizeIndex(s1.ClientKey(), b1, k1, anon)
					}
					c.Count("index:two-requests-in-flight", 1, fmt.Sprint(ci, oi, order))
					if v1 != nil || v2 != nil || f1 != nil || f2 != nil || !bytes.Equal(i1, wantIdx) || !bytes.Equal(i2, wantIdx) {
						c.Violation("the ID is identical across all requests of the client for the origin, also when several are in flight at the attester (each finalized with its own blind)", map[string]any{"client_secret": h.Hex(secret), "origin": o.name, "order": order, "id1": h.Hex(i1), "id2": h.Hex(i2), "want": h.Hex(wantIdx)})
					}
				}
			}
		}
	})
}

func c08IkmOf(c *h.Ctx, secret, indexKey []byte) []byte {
	curve := elliptic.P384()
	m := c.Model("origin_exponent", secret, indexKey)
	ox, oy := curve.ScalarBaseMult(m[0])
	return elliptic.MarshalCompressed(curve, ox, oy)
}
