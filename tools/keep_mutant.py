#!/usr/bin/env python3
"""keep_mutant.py <ID> <a|b> <caught-by text> — copy a verified mutant from /tmp/mutout into seeded/<ID>-<x>/."""
import sys, os, json, shutil
pid, x, caught = sys.argv[1], sys.argv[2], sys.argv[3]
src = "/tmp/mutout/%s/%s" % (pid, x)
dst = "/verif/seeded/%s-%s" % (pid, x)
os.makedirs(dst, exist_ok=True)
for f in ("patch.diff", "demo_test.go"):
    shutil.copy(os.path.join(src, f), os.path.join(dst, f))
m = json.load(open(os.path.join(src, "meta.json")))
m["ran"] = "tools/verify_mutant.py (applies; demo passes unpatched; full suite passes patched; demo fails patched) then tools/try_mutant.sh patch.diff " + pid
m["caught_by"] = caught
json.dump(m, open(os.path.join(dst, "meta.json"), "w"), indent=1)
print("kept", dst)
