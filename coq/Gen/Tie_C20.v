(** source tie for C20: padOriginName's arithmetic  N := 31 - ((len - 1) % 32)  with the literals of the source *)
From Coq Require Import List NArith ZArith.
From PatVerif Require Import Model.Pad Gen.Src.
Import ListNotations.
Definition pad_count_src (n : nat) : nat :=
  match s_t3_pad with
  | [a; b; c] => Z.to_nat (Z.of_N a - Z.rem (Z.of_nat n - Z.of_N b) (Z.of_N c))
  | _ => 0%nat end.
Example tie_pad : forallb (fun n => Nat.eqb (pad_count n) (pad_count_src n)) (seq 0 200) = true. Proof. vm_compute. reflexivity. Qed.
Example tie_pad_literals : s_t3_pad = [31; 1; 32]%N. Proof. reflexivity. Qed.
