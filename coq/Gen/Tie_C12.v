(** source tie for C12: the constants of ecdsa.hashBlind as they stand in the Go source (Gen/Src.v, regenerated on every
    run) are the ones Model/Derive.v uses. [tie s P] holds vacuously when the literal is no longer at its place. *)
From Coq Require Import List NArith.
From PatVerif Require Import Base.Bytes Model.Derive Gen.Src.
Import ListNotations.
Ltac t := vm_compute; first [reflexivity | exact I | repeat split; reflexivity].
Example tie_dst : tie s_ecdsa_dst (fun v => map n2b v = dst_ecdsa_key_blind). Proof. t. Qed.
Example tie_L : tie s_ecdsa_L (fun v => v = map (fun c => N.of_nat (curve_L c)) [1; 2; 3; 4]%N). Proof. t. Qed.
Example tie_curves : tie s_ecdsa_curves (fun v => v = [[80; 45; 50; 50; 52]; [80; 45; 50; 53; 54]; [80; 45; 51; 56; 52]; [80; 45; 53; 50; 49]]%N).  (* P-224, P-256, P-384, P-521: curve ids 1..4 *)
Proof. t. Qed.
Example tie_sep : tie s_ecdsa_sep (fun v => [n2b v] = [x00]). Proof. t. Qed.
