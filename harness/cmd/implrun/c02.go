package main

import (
	"bytes"
	"crypto/aes"
	"crypto/cipher"
	"crypto/elliptic"
	crand "crypto/rand"
	"crypto/rsa"
	"crypto/sha256"
	"fmt"
	hpke "github.com/cisco/go-hpke"
	"math/big"

	"github.com/cloudflare/circl/group"
	"github.com/cloudflare/circl/oprf"
	"github.com/cloudflare/circl/zk/dleq"
	"github.com/cloudflare/pat-go/quicwire"
	"github.com/cloudflare/pat-go/tokens"
	"github.com/cloudflare/pat-go/tokens/type1"
	"github.com/cloudflare/pat-go/tokens/type2"
	"github.com/cloudflare/pat-go/tokens/type3"
	"github.com/cloudflare/pat-go/tokens/type5"
	"verif/harness/internal/h"
)

func init() { props["C02"] = runC02 }

// c02Out: what one finalization call returned.
type c02Out struct {
	toks []tokens.Token
	err  error
	pan  bool
	msg  string
}

// c02Judge applies the property to one finalization: success => every token verifies under the pinned key and carries
// the request's nonce / challenge digest / key id; mustReject => an error.
func c02Judge(c *h.Ctx, cat_ string, o c02Out, valid func(i int, t tokens.Token) bool, want int, mustReject bool, det map[string]any) {
	c.Count(cat_, 1, "")
	if o.pan {
		det["panic"] = o.msg
		c.Violation("client finalization panics", det)
		return
	}
	if o.err == nil {
		ok := len(o.toks) == want
		for i, t := range o.toks {
			if !valid(i, t) {
				ok = false
			}
		}
		if !ok {
			det["category"] = cat_
			c.Violation("a finalization call succeeds only if the token(s) it returns verify under the issuer key the request was created for and carry that request's nonce, challenge digest and key id", det)
			return
		}
		if mustReject {
			det["category"] = cat_
			c.Violation("a corrupted / foreign response is rejected with an error", det)
		}
	} else if len(o.toks) != 0 {
		c.Violation("an error is returned together with a token", det)
	}
}

func c02Type1(c *h.Ctx, n int) {
	mk := func(seed []byte) (*type1.BasicPrivateIssuer, *oprf.PrivateKey) {
		sk, _ := oprf.DeriveKey(oprf.SuiteP384, oprf.VerifiableMode, seed, nil)
		return type1.NewBasicPrivateIssuer(sk), sk
	}
	for r := 0; r < n; r++ {
		iss, sk := mk(rnd(c, 32))
		issB, _ := mk(rnd(c, 32))
		kid := iss.TokenKeyID()
		chal, nonce := rnd(c, 20), rnd(c, 32)
		client := type1.NewBasicPrivateClient()
		chalA, nonceA, kidA := clone(chal), clone(nonce), clone(kid)
		st, err := client.CreateTokenRequest(chalA, nonceA, kidA, iss.TokenKey())
		if r%2 == 1 { // the caller refills / wipes the buffers it passed before the response arrives
			scribble(chalA, nonceA, kidA)
		}
		st2, err2 := client.CreateTokenRequest(chal, rnd(c, 32), kid, iss.TokenKey()) // another request, same key
		if err != nil || err2 != nil {
			c.Violation("honest request creation fails", nil)
			continue
		}
		resp, _ := iss.Evaluate(st.Request())
		respOther, _ := iss.Evaluate(st2.Request())
		respB, _ := issB.Evaluate(st.Request()) // the same request answered under ANOTHER key
		input := cat(u16b(1), nonce, sha256Bytes(chal), kid)
		want, _ := oprf.NewVerifiableServer(oprf.SuiteP384, sk).FullEvaluate(input)
		valid := func(_ int, t tokens.Token) bool { return bytes.Equal(t.Marshal(), cat(input, want)) }
		fin := func(b []byte) c02Out {
			var o c02Out
			o.pan, o.msg = h.Protect(func() {
				t, e := st.FinalizeToken(b)
				o.err = e
				if e == nil {
					o.toks = []tokens.Token{t}
				}
			})
			st3 := h.StOK
			if o.pan {
				st3 = h.StPanic
			} else if o.err != nil {
				st3 = h.StNone
			}
			c.Case("type1:model-front-end", len(b) > 0, "fe_fin1", [][]byte{st3, b}, [][]byte{h.StOK})
			// exact run of the model with the primitives' answers recomputed from circl directly
			eltOK, proofOK, outOpt := false, false, []byte{0}
			if len(b) >= 49 {
				e := group.P384.NewElement()
				eltOK = e.UnmarshalBinary(b[:49]) == nil
				p := new(dleq.Proof)
				proofOK = p.UnmarshalBinary(group.P384, b[49:]) == nil
				if eltOK && proofOK {
					h.Protect(func() {
						outs, err := oprf.NewVerifiableClient(oprf.SuiteP384, iss.TokenKey()).Finalize(st.ForTestsOnlyVerifier(), &oprf.Evaluation{Elements: []oprf.Evaluated{e}, Proof: p})
						if err == nil && len(outs) == 1 {
							outOpt = cat([]byte{1}, outs[0])
						}
					})
				}
			}
			implOuts := [][]byte{st3}
			if !o.pan && o.err == nil {
				implOuts = append(implOuts, o.toks[0].Marshal())
			}
			c.Case("type1:model-exact", true, "fin1_full", [][]byte{input, b, flagB(eltOK), flagB(proofOK), outOpt}, implOuts)
			return o
		}
		det := func(k string, v any) map[string]any { return map[string]any{"type": 1, k: v} }
		c02Judge(c, "type1:honest", fin(append([]byte{}, resp...)), valid, 1, false, det("case", "honest"))
		for bit := 0; bit < 8*len(resp); bit++ {
			c02Judge(c, "type1:bitflip:every-position", fin(flipBit(resp, bit)), valid, 1, true, det("bit", bit))
		}
		// a request filed under the SAME key id bytes but for ANOTHER key (made after requests for the first key): it must
		// be checked against the key it was created for, so the first issuer's answer to it is refused
		if stF, errF := client.CreateTokenRequest(chal, nonce, kid, issB.TokenKey()); errF == nil {
			if respF, e := iss.Evaluate(stF.Request()); e == nil {
				var o c02Out
				o.pan, o.msg = h.Protect(func() {
					t, e := stF.FinalizeToken(respF)
					o.err = e
					if e == nil {
						o.toks = []tokens.Token{t}
					}
				})
				never := func(int, tokens.Token) bool { return false }
				c02Judge(c, "type1:foreign:same-key-id-bytes-other-key", o, never, 1, true, det("case", "same key id, other key"))
			}
		}
		c02Judge(c, "type1:foreign:other-issuer-key", fin(respB), valid, 1, true, det("case", "other key"))
		c02Judge(c, "type1:foreign:other-request-same-key", fin(respOther), valid, 1, true, det("case", "other request"))
		c02Judge(c, "type1:foreign:element-of-other-proof-of-own", fin(cat(respOther[:49], resp[49:])), valid, 1, true, det("case", "mixed"))
		for _, l := range []int{0, 1, 48, 49, 50, 96, 144} {
			c02Judge(c, "type1:truncated", fin(resp[:l]), valid, 1, true, det("len", l))
		}
		// bytes after the proof are ignored by the proof decoder: not one of the listed corruptions, judged by the implication only
		c02Judge(c, "type1:extended", fin(cat(resp, []byte{0})), valid, 1, false, det("case", "extended"))
		c02Judge(c, "type1:honest-again", fin(append([]byte{}, resp...)), valid, 1, false, det("case", "honest again"))
	}
	// one client object used for two issuer keys whose key ids end in the same byte
	issA, skA := mk(rnd(c, 32))
	var issB2 *type1.BasicPrivateIssuer
	var skB *oprf.PrivateKey
	for {
		issB2, skB = mk(rnd(c, 32))
		if issB2.TokenKeyID()[31] == issA.TokenKeyID()[31] {
			break
		}
	}
	client := type1.NewBasicPrivateClient()
	chal := rnd(c, 9)
	nA, nB := rnd(c, 32), rnd(c, 32)
	stA, _ := client.CreateTokenRequest(chal, nA, issA.TokenKeyID(), issA.TokenKey())
	stB, _ := client.CreateTokenRequest(chal, nB, issB2.TokenKeyID(), issB2.TokenKey())
	rA, _ := issA.Evaluate(stA.Request())
	rBunderA, _ := issA.Evaluate(stB.Request()) // B's request answered under key A
	rB, _ := issB2.Evaluate(stB.Request())
	inB := cat(u16b(1), nB, sha256Bytes(chal), issB2.TokenKeyID())
	wB, _ := oprf.NewVerifiableServer(oprf.SuiteP384, skB).FullEvaluate(inB)
	inA := cat(u16b(1), nA, sha256Bytes(chal), issA.TokenKeyID())
	wA, _ := oprf.NewVerifiableServer(oprf.SuiteP384, skA).FullEvaluate(inA)
	one := func(st type1.BasicPrivateTokenRequestState, b []byte) c02Out {
		var o c02Out
		o.pan, o.msg = h.Protect(func() {
			t, e := st.FinalizeToken(b)
			o.err = e
			if e == nil {
				o.toks = []tokens.Token{t}
			}
		})
		return o
	}
	c02Judge(c, "type1:one-client-two-keys-same-last-byte", one(stA, rA), func(_ int, t tokens.Token) bool { return bytes.Equal(t.Marshal(), cat(inA, wA)) }, 1, false, map[string]any{"case": "A honest"})
	c02Judge(c, "type1:one-client-two-keys-same-last-byte", one(stB, rBunderA), func(_ int, t tokens.Token) bool { return bytes.Equal(t.Marshal(), cat(inB, wB)) }, 1, true, map[string]any{"case": "B's request answered under key A"})
	oB := one(stB, rB)
	c02Judge(c, "type1:one-client-two-keys-same-last-byte", oB, func(_ int, t tokens.Token) bool { return bytes.Equal(t.Marshal(), cat(inB, wB)) }, 1, false, map[string]any{"case": "B honest"})
	if oB.err != nil {
		c.Violation("the honest response of the second issuer is rejected (request pinned to the wrong key)", nil)
	}
}

func c02Type2(c *h.Ctx, keys []*rsa.PrivateKey, flips int) {
	for ki, key := range keys {
		iss := type2.NewBasicPublicIssuer(key)
		other := type2.NewBasicPublicIssuer(rsaKey(ki + 1))
		kid := iss.TokenKeyID()
		chal, nonce := rnd(c, 20), rnd(c, 32)
		client := type2.NewBasicPublicClient()
		chalA, nonceA, kidA := clone(chal), clone(nonce), clone(kid)
		st, err := client.CreateTokenRequest(chalA, nonceA, kidA, &key.PublicKey)
		if ki%2 == 1 || len(keys) == 1 {
			scribble(chalA, nonceA, kidA)
		}
		st2, err2 := client.CreateTokenRequest(chal, rnd(c, 32), kid, &key.PublicKey)
		if err != nil || err2 != nil {
			c.Violation("honest request creation fails", nil)
			continue
		}
		resp, errE := iss.Evaluate(st.Request())
		respOther, _ := iss.Evaluate(st2.Request())
		input := cat(u16b(2), nonce, sha256Bytes(chal), kid)
		valid := func(_ int, t tokens.Token) bool {
			m := t.Marshal()
			return len(m) > len(input) && bytes.Equal(m[:len(input)], input) && pssOK(&key.PublicKey, input, m[len(input):]) && bytes.Equal(t.Authenticator, m[len(input):])
		}
		fin := func(b []byte) c02Out {
			var o c02Out
			o.pan, o.msg = h.Protect(func() {
				t, e := st.FinalizeToken(b)
				o.err = e
				if e == nil {
					o.toks = []tokens.Token{t}
				}
			})
			sigOpt, pss := []byte{0}, false
			h.Protect(func() {
				if sig, err := st.ForTestsOnlyVerifier().Finalize(b); err == nil {
					sigOpt = cat([]byte{1}, sig)
					if len(sig) >= 256 {
						pss = pssOK(&key.PublicKey, input, sig[:256])
					}
				}
			})
			st3 := h.StOK
			if o.pan {
				st3 = h.StPanic
			} else if o.err != nil {
				st3 = h.StNone
			}
			implOuts := [][]byte{st3}
			if !o.pan && o.err == nil {
				implOuts = append(implOuts, o.toks[0].Marshal())
			}
			c.Case("type2:model-exact", true, "fin2_full", [][]byte{input, b, sigOpt, flagB(pss)}, implOuts)
			return o
		}
		bits := key.N.BitLen()
		det := func(k string, v any) map[string]any { return map[string]any{"type": 2, "modulus_bits": bits, k: v} }
		if errE != nil {
			continue
		}
		// for moduli other than 2048 bits the token format cannot hold the signature: an error is fine, a token that
		// does not verify is not
		c02Judge(c, "type2:honest", fin(append([]byte{}, resp...)), valid, 1, false, det("case", "honest"))
		step := 1
		if flips > 0 && 8*len(resp) > flips {
			step = 8 * len(resp) / flips
		}
		for bit := 0; bit < 8*len(resp); bit += step {
			c02Judge(c, "type2:bitflip", fin(flipBit(resp, bit)), valid, 1, true, det("bit", bit))
		}
		if bits == 2048 {
			if respB, err := other.Evaluate(st.Request()); err == nil {
				c02Judge(c, "type2:foreign:other-issuer-key", fin(respB), valid, 1, true, det("case", "other key"))
			}
		}
		c02Judge(c, "type2:foreign:other-request-same-key", fin(respOther), valid, 1, true, det("case", "other request"))
		for _, l := range []int{0, 1, len(resp) - 1} {
			c02Judge(c, "type2:truncated", fin(resp[:l]), valid, 1, true, det("len", l))
		}
		c02Judge(c, "type2:extended", fin(cat(resp, []byte{0})), valid, 1, true, det("case", "extended"))
		c02Judge(c, "type2:zero", fin(make([]byte, len(resp))), valid, 1, true, det("case", "zero"))
	}
}

func c02Type3(c *h.Ctx, n int, flips int) {
	for r := 0; r < n; r++ {
		env := newT3(c, r, rnd(c, 32), map[string][]byte{"origin.example": rnd(c, 48)})
		envB := newT3(c, r+1, rnd(c, 32), map[string][]byte{"origin.example": rnd(c, 48)})
		client := type3.NewRateLimitedClientFromSecret(rnd(c, 48))
		chal, nonce := rnd(c, 20), rnd(c, 32)
		chalA, nonceA, blindA := clone(chal), clone(nonce), rnd(c, 48)
		st, err := env.request(client, chalA, nonceA, blindA, "origin.example")
		if r%2 == 1 {
			scribble(chalA, nonceA, blindA)
		}
		st2, err2 := env.request(client, chal, rnd(c, 32), rnd(c, 48), "origin.example")
		if err != nil || err2 != nil {
			c.Violation("honest request creation fails", nil)
			continue
		}
		resp, _, errE := env.issuer.Evaluate(st.Request().Marshal())
		respOther, _, _ := env.issuer.Evaluate(st2.Request().Marshal())
		if errE != nil {
			c.Violation("the issuer refuses an honest request", nil)
			continue
		}
		kid := env.tokenKeyID
		input := cat(u16b(3), nonce, sha256Bytes(chal), kid)
		valid := func(_ int, t tokens.Token) bool {
			m := t.Marshal()
			return len(m) == len(input)+256 && bytes.Equal(m[:len(input)], input) && pssOK(&env.key.PublicKey, input, m[len(input):])
		}
		reqBefore := st.Request().Marshal()
		fin := func(b []byte) c02Out {
			var o c02Out
			o.pan, o.msg = h.Protect(func() {
				t, e := st.FinalizeToken(b)
				o.err = e
				if e == nil {
					o.toks = []tokens.Token{t}
				}
			})
			st3 := h.StOK
			if o.pan {
				st3 = h.StPanic
			} else if o.err != nil {
				st3 = h.StNone
			}
			c.Case("type3:model-front-end", len(b) > 0, "fe_fin3", [][]byte{st3, b}, [][]byte{h.StOK})
			// exact run of the model: the response key schedule is computed by the Coq HKDF, AES-GCM by the Go standard
			// library, the RSA finalization by circl through the request state, PSS by crypto/rsa
			secret, encapEnc := st.VerifResponseSecrets()
			bsOpt, sigOpt, pss := []byte{0}, []byte{0}, false
			if len(b) >= 16 {
				keys := c.Model("t3_response_keys", secret, encapEnc, b[:16])
				if blk, err := aes.NewCipher(keys[0]); err == nil {
					if gcm, err := cipher.NewGCM(blk); err == nil {
						if bs, err := gcm.Open(nil, keys[1], b[16:], nil); err == nil {
							bsOpt = cat([]byte{1}, bs)
							h.Protect(func() {
								if sig, err := st.VerifFinalizeBlindSignature(bs); err == nil {
									sigOpt = cat([]byte{1}, sig)
									if len(sig) >= 256 {
										pss = pssOK(&env.key.PublicKey, input, sig[:256])
									}
								}
							})
						}
					}
				}
			}
			implOuts := [][]byte{st3}
			if !o.pan && o.err == nil {
				implOuts = append(implOuts, o.toks[0].Marshal())
			}
			c.Case("type3:model-exact", true, "fin3_full", [][]byte{input, encapEnc, b, bsOpt, sigOpt, flagB(pss)}, implOuts)
			return o
		}
		det := func(k string, v any) map[string]any { return map[string]any{"type": 3, k: v} }
		c02Judge(c, "type3:honest", fin(append([]byte{}, resp...)), valid, 1, false, det("case", "honest"))
		step := 1
		if flips > 0 && 8*len(resp) > flips {
			step = 8 * len(resp) / flips
		}
		for bit := 0; bit < 8*len(resp); bit += step {
			c02Judge(c, "type3:bitflip", fin(flipBit(resp, bit)), valid, 1, true, det("bit", bit))
		}
		c02Judge(c, "type3:foreign:other-request-same-issuer", fin(respOther), valid, 1, true, det("case", "other request"))
		// the same client request re-encrypted to another issuer cannot be built by an attacker; a response made by
		// another issuer for ITS OWN view of a request of this client:
		if stB, err := envB.request(client, chal, nonce, rnd(c, 48), "origin.example"); err == nil {
			if respB, _, err := envB.issuer.Evaluate(stB.Request().Marshal()); err == nil {
				c02Judge(c, "type3:foreign:other-issuer", fin(respB), valid, 1, true, det("case", "other issuer"))
			}
		}
		for _, l := range []int{0, 1, 15, 16, 17, 31, 32, len(resp) - 1} {
			c02Judge(c, "type3:truncated", fin(resp[:l]), valid, 1, true, det("len", l))
		}
		// a malicious ISSUER knows the response keys: responses that open correctly but carry another blind signature
		{
			secret, encapEnc := st.VerifResponseSecrets()
			seal := func(bs []byte) []byte {
				rn := rnd(c, 16)
				keys := c.Model("t3_response_keys", secret, encapEnc, rn)
				blk, _ := aes.NewCipher(keys[0])
				gcm, _ := cipher.NewGCM(blk)
				return cat(rn, gcm.Seal(nil, keys[1], bs, nil))
			}
			var honestBS []byte
			if len(resp) >= 16 {
				keys := c.Model("t3_response_keys", secret, encapEnc, resp[:16])
				blk, _ := aes.NewCipher(keys[0])
				gcm, _ := cipher.NewGCM(blk)
				honestBS, _ = gcm.Open(nil, keys[1], resp[16:], nil)
			}
			if honestBS != nil {
				c02Judge(c, "type3:sealed:honest-signature-resealed", fin(seal(honestBS)), valid, 1, false, det("case", "resealed"))
				for _, bit := range []int{0, 7, 1000, 2047} {
					c02Judge(c, "type3:sealed:blind-signature-bitflip", fin(seal(flipBit(honestBS, bit))), valid, 1, true, det("bit", bit))
				}
				nMinus := new(big.Int).Sub(env.key.N, big.NewInt(1)).FillBytes(make([]byte, 256))
				for name, bs := range map[string][]byte{"empty": {}, "zero": make([]byte, 256), "one": cat(make([]byte, 255), []byte{1}), "n-1": nMinus, "modulus": env.key.N.FillBytes(make([]byte, 256)),
					"ff": bytesFF(256), "short": honestBS[:255], "long": cat(honestBS, []byte{0}), "random": rnd(c, 256)} {
					c02Judge(c, "type3:sealed:other-blind-signature", fin(seal(bs)), valid, 1, true, det("blind_signature", name))
				}
				// the blind signature the same issuer gave to ANOTHER request
				if len(respOther) >= 16 {
					s2, e2 := st2.VerifResponseSecrets()
					k2 := c.Model("t3_response_keys", s2, e2, respOther[:16])
					blk, _ := aes.NewCipher(k2[0])
					gcm, _ := cipher.NewGCM(blk)
					if bsO, err := gcm.Open(nil, k2[1], respOther[16:], nil); err == nil {
						c02Judge(c, "type3:sealed:blind-signature-of-another-request", fin(seal(bsO)), valid, 1, true, det("case", "other request's blind signature"))
					}
				}
			}
		}
		c02Judge(c, "type3:extended", fin(cat(resp, []byte{0})), valid, 1, true, det("case", "extended"))
		c02Judge(c, "type3:honest-again", fin(append([]byte{}, resp...)), valid, 1, false, det("case", "honest again"))
		if !bytes.Equal(reqBefore, st.Request().Marshal()) {
			c.Violation("finalization changed the request it belongs to", nil)
		}
	}
}

func c02Type5(c *h.Ctx, sizes []int, flipAll bool) {
	sk, _ := oprf.DeriveKey(oprf.SuiteRistretto255, oprf.VerifiableMode, rnd(c, 32), nil)
	skB, _ := oprf.DeriveKey(oprf.SuiteRistretto255, oprf.VerifiableMode, rnd(c, 32), nil)
	iss, issB := type5.NewBatchedPrivateIssuer(sk), type5.NewBatchedPrivateIssuer(skB)
	kid := iss.TokenKeyID()
	srv := oprf.NewVerifiableServer(oprf.SuiteRistretto255, sk)
	for si, n := range sizes {
		chal := rnd(c, 20)
		var nonces, noncesA [][]byte
		for j := 0; j < n; j++ {
			nonces = append(nonces, rnd(c, 32))
			noncesA = append(noncesA, clone(nonces[j]))
		}
		client := type5.NewBatchedPrivateClient()
		chalA, kidA := clone(chal), clone(kid)
		st, err := client.CreateTokenRequest(chalA, noncesA, kidA, iss.TokenKey())
		if si%2 == 1 || len(sizes) == 1 {
			scribble(chalA, kidA)
			scribble(noncesA...)
			for j := range noncesA {
				noncesA[j] = nil
			}
		}
		var nonces2 [][]byte
		for j := 0; j < n; j++ {
			nonces2 = append(nonces2, rnd(c, 32))
		}
		st2, err2 := client.CreateTokenRequest(chal, nonces2, kid, iss.TokenKey())
		if err != nil || err2 != nil {
			c.Violation("honest request creation fails", nil)
			continue
		}
		resp, _ := iss.Evaluate(st.Request())
		respOther, _ := iss.Evaluate(st2.Request())
		respB, _ := issB.Evaluate(st.Request())
		var want [][]byte
		for j := 0; j < n; j++ {
			in := cat(u16b(5), nonces[j], sha256Bytes(chal), kid)
			a, _ := srv.FullEvaluate(in)
			want = append(want, cat(in, a))
		}
		valid := func(i int, t tokens.Token) bool { return i < len(want) && bytes.Equal(t.Marshal(), want[i]) }
		fin := func(b []byte) c02Out {
			var o c02Out
			o.pan, o.msg = h.Protect(func() { o.toks, o.err = st.FinalizeTokens(b) })
			st3 := h.StOK
			if o.pan {
				st3 = h.StPanic
			} else if o.err != nil {
				st3 = h.StNone
			}
			c.Case("type5:model-front-end", len(b) > 0, "fe_fin5", [][]byte{st3, h.U64(uint64(n)), b}, [][]byte{h.StOK})
			if o.err != nil {
				o.toks = nil
			}
			// exact run of the model with the primitives' answers recomputed from circl directly
			eltsOK, proofOK, outOpt := false, false, []byte{0}
			if l, off := quicwire.ConsumeVarint(b); off > 0 && l <= uint64(len(b)-off) && l%32 == 0 && int(l/32) == n {
				body := b[off : off+int(l)]
				rest := b[off+int(l):]
				var es []oprf.Evaluated
				eltsOK = true
				for j := 0; j < n; j++ {
					e := group.Ristretto255.NewElement()
					if e.UnmarshalBinary(body[32*j:32*j+32]) != nil {
						eltsOK = false
					}
					es = append(es, e)
				}
				if len(rest) >= 64 {
					p := new(dleq.Proof)
					if p.UnmarshalBinary(group.Ristretto255, rest[:64]) == nil {
						if canon, err := p.MarshalBinary(); err == nil && bytes.Equal(canon, rest[:64]) {
							proofOK = true
						}
					}
					if eltsOK && proofOK {
						h.Protect(func() {
							outs, err := oprf.NewVerifiableClient(oprf.SuiteRistretto255, iss.TokenKey()).Finalize(st.ForTestsOnlyVerifier(), &oprf.Evaluation{Elements: es, Proof: p})
							if err == nil && len(outs) == n {
								outOpt = cat(append([][]byte{{1}}, outs...)...)
							}
						})
					}
				}
			}
			var inputs [][]byte
			for j := 0; j < n; j++ {
				inputs = append(inputs, cat(u16b(5), nonces[j], sha256Bytes(chal), kid))
			}
			implOuts := [][]byte{st3}
			if !o.pan && o.err == nil {
				var all []byte
				for _, t := range o.toks {
					all = append(all, t.Marshal()...)
				}
				implOuts = append(implOuts, all)
			}
			c.Case("type5:model-exact", true, "fin5_full", append([][]byte{h.U64(uint64(n)), b, flagB(eltsOK), flagB(proofOK), outOpt}, inputs...), implOuts)
			return o
		}
		det := func(k string, v any) map[string]any { return map[string]any{"type": 5, "batch": n, k: v} }
		c02Judge(c, "type5:honest", fin(append([]byte{}, resp...)), valid, n, false, det("case", "honest"))
		if o := fin(append([]byte{}, resp...)); !o.pan && o.err == nil {
			tokensIndependent(c, o.toks, det("case", "honest tokens, the spare capacity behind each written"))
		}
		// decompose: varint || elements || proof
		l, off := quicwire.ConsumeVarint(resp)
		elems := resp[off : off+int(l)]
		proof := resp[off+int(l):]
		rebuild := func(es [][]byte) []byte {
			body := cat(es...)
			return cat(quicwire.AppendVarint(nil, uint64(len(body))), body, proof)
		}
		var es [][]byte
		for j := 0; j < n; j++ {
			es = append(es, elems[32*j:32*j+32])
		}
		for j := 0; j < n; j++ {
			dropped := append(append([][]byte{}, es[:j]...), es[j+1:]...)
			c02Judge(c, "type5:element-dropped", fin(rebuild(dropped)), valid, n, true, det("dropped", j))
			dup := append(append(append([][]byte{}, es[:j+1]...), es[j]), es[j+1:]...)
			c02Judge(c, "type5:element-duplicated", fin(rebuild(dup)), valid, n, true, det("duplicated", j))
			if n > 1 {
				repl := append([][]byte{}, es...)
				repl[j] = es[(j+1)%n]
				c02Judge(c, "type5:element-replaced-by-another", fin(rebuild(repl)), valid, n, true, det("replaced", j))
			}
			if j+1 < n {
				sw := append([][]byte{}, es...)
				sw[j], sw[j+1] = sw[j+1], sw[j]
				c02Judge(c, "type5:adjacent-swapped", fin(rebuild(sw)), valid, n, true, det("swapped", j))
			}
		}
		if n > 2 {
			rev := make([][]byte, n)
			for j := range es {
				rev[n-1-j] = es[j]
			}
			c02Judge(c, "type5:reversed", fin(rebuild(rev)), valid, n, true, det("case", "reversed"))
		}
		c02Judge(c, "type5:foreign:other-issuer-key", fin(respB), valid, n, true, det("case", "other key"))
		c02Judge(c, "type5:foreign:other-request-same-key", fin(respOther), valid, n, true, det("case", "other request"))
		for _, cut := range []int{0, 1, off, off + 1, off + 32, len(resp) - 64, len(resp) - 1} {
			if cut >= 0 && cut < len(resp) {
				c02Judge(c, "type5:truncated", fin(resp[:cut]), valid, n, true, det("len", cut))
			}
		}
		c02Judge(c, "type5:extended", fin(cat(resp, []byte{0})), valid, n, false, det("case", "extended")) // trailing bytes are ignored: judged by the implication only
		nbits := 8 * len(resp)
		stepB := 1
		if !flipAll && nbits > 600 {
			stepB = nbits / 600
		}
		for bit := 0; bit < nbits; bit += stepB {
			c02Judge(c, "type5:bitflip", fin(flipBit(resp, bit)), valid, n, true, det("bit", bit))
		}
		c02Judge(c, "type5:honest-again", fin(append([]byte{}, resp...)), valid, n, false, det("case", "honest again"))
	}
}

// c02SuppliedBlinds: requests created through the fixed-blind entry points with blinds at the edges of the scalar range
// (1, order-1, zero, non-canonical encodings of zero and of other values). The response is the one an issuer computes
// for the request as sent — taken from circl directly, so that an issuer-side refusal cannot hide what the CLIENT does
// with it. The rule is the same: finalization succeeds only with tokens that verify and belong to the request.
func c02SuppliedBlinds(c *h.Ctx) {
	sk, _ := oprf.DeriveKey(oprf.SuiteRistretto255, oprf.VerifiableMode, rnd(c, 32), nil)
	iss := type5.NewBatchedPrivateIssuer(sk)
	kid := iss.TokenKeyID()
	srv := oprf.NewVerifiableServer(oprf.SuiteRistretto255, sk)
	le := func(v *big.Int) []byte {
		o := make([]byte, 32)
		for i, x := range v.FillBytes(make([]byte, 32)) {
			o[31-i] = x
		}
		return o
	}
	L, _ := new(big.Int).SetString("7237005577332262213973186563042994240857116359379907606001950938285454250989", 10)
	one := big.NewInt(1)
	edge := [][]byte{le(one), le(new(big.Int).Sub(L, one)), make([]byte, 32), le(L), le(new(big.Int).Lsh(L, 1)), le(new(big.Int).Add(L, one)), bytesFF(32)}
	for ei, eb := range edge {
		for pos := 0; pos < 2; pos++ {
			chal := rnd(c, 20)
			nonces := [][]byte{rnd(c, 32), rnd(c, 32)}
			good := le(new(big.Int).SetBytes(rnd(c, 31)))
			bl := [][]byte{good, good}
			bl[pos] = eb
			det := map[string]any{"type": 5, "blind": h.Hex(eb), "position": pos}
			var st type5.BatchedPrivateTokenRequestState
			var err error
			pan, msg := h.Protect(func() {
				st, err = type5.NewBatchedPrivateClient().CreateTokenRequestWithBlinds(chal, nonces, kid, iss.TokenKey(), bl)
			})
			c.Count("type5:supplied-blinds:edge", 1, fmt.Sprint(ei, pos))
			if pan {
				det["panic"] = msg
				c.Violation("request creation with an in-range blind encoding panics", det)
				continue
			}
			if err != nil {
				continue // refused at creation: nothing is outstanding
			}
			// the response of an issuer that evaluates whatever it was sent
			var resp []byte
			h.Protect(func() {
				els := make([]group.Element, 2)
				for j := range els {
					els[j] = group.Ristretto255.NewElement()
					if els[j].UnmarshalBinary(st.Request().BlindedReq[j]) != nil {
						return
					}
				}
				ev, e := srv.Evaluate(&oprf.EvaluationRequest{Elements: els})
				if e != nil {
					return
				}
				var body []byte
				for _, x := range ev.Elements {
					xb, _ := x.MarshalBinaryCompress()
					body = append(body, xb...)
				}
				pb, _ := ev.Proof.MarshalBinary()
				resp = cat(quicwire.AppendVarint(nil, uint64(len(body))), body, pb)
			})
			if resp == nil {
				continue
			}
			valid := func(i int, t tokens.Token) bool {
				input := cat(u16b(5), nonces[i], sha256Bytes(chal), kid)
				want, _ := srv.FullEvaluate(input)
				return bytes.Equal(t.Marshal(), cat(input, want)) && iss.Verify(t) == nil
			}
			var o c02Out
			o.pan, o.msg = h.Protect(func() { o.toks, o.err = st.FinalizeTokens(resp) })
			c02Judge(c, "type5:supplied-blinds:finalize", o, valid, 2, false, det)
			if honest, e := iss.Evaluate(st.Request()); e == nil {
				var o2 c02Out
				o2.pan, o2.msg = h.Protect(func() { o2.toks, o2.err = st.FinalizeTokens(honest) })
				c02Judge(c, "type5:supplied-blinds:finalize-honest-issuer", o2, valid, 2, false, det)
			}
		}
	}
	// type 1
	sk1, _ := oprf.DeriveKey(oprf.SuiteP384, oprf.VerifiableMode, rnd(c, 32), nil)
	iss1 := type1.NewBasicPrivateIssuer(sk1)
	kid1 := iss1.TokenKeyID()
	srv1 := oprf.NewVerifiableServer(oprf.SuiteP384, sk1)
	N := elliptic.P384().Params().N
	be := func(v *big.Int) []byte { return v.FillBytes(make([]byte, 48)) }
	for ei, eb := range [][]byte{be(one), be(new(big.Int).Sub(N, one)), make([]byte, 48), be(N), be(new(big.Int).Add(N, one)), bytesFF(48)} {
		chal, nonce := rnd(c, 20), rnd(c, 32)
		det := map[string]any{"type": 1, "blind": h.Hex(eb)}
		var st type1.BasicPrivateTokenRequestState
		var err error
		pan, msg := h.Protect(func() {
			st, err = type1.NewBasicPrivateClient().CreateTokenRequestWithBlind(chal, nonce, kid1, iss1.TokenKey(), eb)
		})
		c.Count("type1:supplied-blinds:edge", 1, fmt.Sprint(ei))
		if pan {
			det["panic"] = msg
			c.Violation("request creation with an in-range blind encoding panics", det)
			continue
		}
		if err != nil {
			continue
		}
		var resp []byte
		h.Protect(func() {
			e := group.P384.NewElement()
			if e.UnmarshalBinary(st.Request().BlindedReq) != nil {
				return
			}
			ev, er := srv1.Evaluate(&oprf.EvaluationRequest{Elements: []oprf.Blinded{e}})
			if er != nil {
				return
			}
			xb, _ := ev.Elements[0].MarshalBinaryCompress()
			pb, _ := ev.Proof.MarshalBinary()
			resp = cat(xb, pb)
		})
		if resp == nil {
			continue
		}
		input := cat(u16b(1), nonce, sha256Bytes(chal), kid1)
		want, _ := srv1.FullEvaluate(input)
		valid := func(_ int, t tokens.Token) bool { return bytes.Equal(t.Marshal(), cat(input, want)) }
		var o c02Out
		o.pan, o.msg = h.Protect(func() {
			t, e := st.FinalizeToken(resp)
			o.err = e
			if e == nil {
				o.toks = []tokens.Token{t}
			}
		})
		c02Judge(c, "type1:supplied-blinds:finalize", o, valid, 1, false, det)
	}
}

// c02Type3OddKey: a type-3 request created for an issuer token key that is not 2048 bits, answered by an issuer played by
// hand (HPKE open, raw RSA on the blinded message, response sealed under the request's response keys): finalization must
// fail or return a token that verifies under that key — never succeed with a truncated, non-verifying authenticator.
func c02Type3OddKey(c *h.Ctx, k *rsa.PrivateKey) {
	seed := rnd(c, 32)
	env := newT3WithKey(c, k, seed, map[string][]byte{"origin.example": rnd(c, 48)})
	suite, _ := hpke.AssembleCipherSuite(hpke.DHKEM_X25519, hpke.KDF_HKDF_SHA256, hpke.AEAD_AESGCM128)
	sk, pk, _ := suite.KEM.DeriveKeyPair(seed)
	cfg := []byte{0x01, 0x00, 0x20, 0x00, 0x01, 0x00, 0x01}
	encap := cat([]byte{0x01, 0x00, 0x20}, suite.KEM.SerializePublicKey(pk), []byte{0x00, 0x01, 0x00, 0x01})
	nkid := sha256.Sum256(encap)
	modLen := (k.N.BitLen() + 7) / 8
	for r := 0; r < 2; r++ {
		client := type3.NewRateLimitedClientFromSecret(rnd(c, 48))
		chal, nonce := rnd(c, 20), rnd(c, 32)
		det := map[string]any{"type": 3, "issuer_key_bits": k.N.BitLen()}
		var st type3.RateLimitedTokenRequestState
		var err error
		pan, msg := h.Protect(func() { st, err = env.request(client, chal, nonce, rnd(c, 48), "origin.example") })
		c.Count("type3:odd-key-size:request", 1, fmt.Sprint(k.N.BitLen(), r))
		if pan {
			det["panic"] = msg
			c.Violation("request creation panics for an issuer key of another size", det)
			return
		}
		if err != nil {
			return // refused at creation: nothing outstanding
		}
		wire := st.Request().Marshal()
		if len(wire) < 85+32 {
			return
		}
		key, ect := wire[2:51], wire[85:len(wire)-96]
		ctx, err := hpke.SetupBaseR(suite, sk, ect[:32], []byte("TokenRequest"))
		if err != nil {
			return
		}
		pt, err := ctx.Open(cat(cfg, []byte{0, 3}, key, nkid[:]), ect[32:])
		if err != nil || len(pt) < 1+modLen {
			c.Count("type3:odd-key-size:envelope-not-opened", 1, "")
			return
		}
		m := new(big.Int).SetBytes(pt[1 : 1+modLen])
		bs := new(big.Int).Exp(m, k.D, k.N).FillBytes(make([]byte, modLen))
		secret, encapEnc := st.VerifResponseSecrets()
		rn := rnd(c, 16)
		keys := c.Model("t3_response_keys", secret, encapEnc, rn)
		blk, _ := aes.NewCipher(keys[0])
		gcm, _ := cipher.NewGCM(blk)
		resp := cat(rn, gcm.Seal(nil, keys[1], bs, nil))
		input := cat(u16b(3), nonce, sha256Bytes(chal), env.tokenKeyID)
		valid := func(_ int, t tokens.Token) bool {
			mm := t.Marshal()
			return len(mm) > len(input) && bytes.Equal(mm[:len(input)], input) && pssOK(&k.PublicKey, input, mm[len(input):])
		}
		var o c02Out
		o.pan, o.msg = h.Protect(func() {
			t, e := st.FinalizeToken(resp)
			o.err = e
			if e == nil {
				o.toks = []tokens.Token{t}
			}
		})
		c02Judge(c, "type3:odd-key-size:hand-played-issuer", o, valid, 1, false, det)
	}
}

// c02Type2Salts: the fixed-blind entry point of type 2 with PSS salts of other lengths than 48, honest issuer: a token that
// comes out verifies with the parameters of the token type (SHA-384, MGF1, salt length 48), or the call fails.
func c02Type2Salts(c *h.Ctx) {
	key := rsaKey(0)
	iss := type2.NewBasicPublicIssuer(key)
	kid := iss.TokenKeyID()
	for _, sl := range []int{48, 0, 1, 20, 32, 47, 49, 64, 96} {
		chal, nonce := rnd(c, 20), rnd(c, 32)
		blind := cat([]byte{0}, rnd(c, 255))
		det := map[string]any{"type": 2, "salt_len": sl}
		var st type2.BasicPublicTokenRequestState
		var err error
		pan, msg := h.Protect(func() {
			st, err = type2.NewBasicPublicClient().CreateTokenRequestWithBlind(chal, nonce, kid, &key.PublicKey, blind, rnd(c, sl))
		})
		c.Count("type2:supplied-salt", 1, fmt.Sprint(sl))
		if pan {
			det["panic"] = msg
			c.Violation("request creation with a supplied salt panics", det)
			continue
		}
		if err != nil {
			continue
		}
		resp, err := iss.Evaluate(st.Request())
		if err != nil {
			continue
		}
		input := cat(u16b(2), nonce, sha256Bytes(chal), kid)
		valid := func(_ int, t tokens.Token) bool {
			mm := t.Marshal()
			return len(mm) == len(input)+256 && bytes.Equal(mm[:len(input)], input) && pssOK(&key.PublicKey, input, mm[len(input):])
		}
		var o c02Out
		o.pan, o.msg = h.Protect(func() {
			t, e := st.FinalizeToken(resp)
			o.err = e
			if e == nil {
				o.toks = []tokens.Token{t}
			}
		})
		c02Judge(c, "type2:supplied-salt:finalize", o, valid, 1, false, det)
		if sl == 48 && (o.err != nil || o.pan) {
			c.Violation("finalization fails for a 48-byte supplied salt", det)
		}
	}
}

func runC02(c0 *h.Ctx) {
	c0.Parallel(5, func(part int, c *h.Ctx) {
		switch part {
		case 0:
			n := 2
			if c.Thorough() {
				n = 10
			}
			c02Type1(c, n)
		case 1:
			flips := 512
			if c.Thorough() {
				flips = 0
			}
			c02Type2(c, []*rsa.PrivateKey{rsaKey(0), rsaKey(1)}, flips)
		case 2:
			flips := 700
			n := 1
			if c.Thorough() {
				flips, n = 0, 3
			}
			c02Type3(c, n, flips)
		case 3:
			sizes := []int{1, 2, 3, 5}
			if c.Thorough() {
				sizes = []int{1, 2, 3, 4, 5, 8, 16}
			}
			c02Type5(c, sizes, c.Thorough())
			c02SuppliedBlinds(c)
			c02ForgedAfterFailedDecode(c)
		case 4:
			// an issuer key of another size than 2048 bits: finalization must fail or return a verifying token
			k3, err := rsa.GenerateKey(crand.Reader, 3072)
			if err == nil {
				c02Type2(c, []*rsa.PrivateKey{k3}, 64)
			}
			if err == nil {
				c02Type3OddKey(c, k3)
			}
			if k1, err := rsa.GenerateKey(crand.Reader, 1024); err == nil {
				c02Type2(c, []*rsa.PrivateKey{k1}, 64)
				c02Type3OddKey(c, k1)
			}
			if k4, err := rsa.GenerateKey(crand.Reader, 4096); err == nil {
				c02Type3OddKey(c, k4)
			}
			c02Type2Salts(c)
		}
	})
}
