(** C12 — ECDSA key blinding: consistent, invertible, commutative, context-bound.
    Layer B (Model/Algebra.v): the curve group in exponent form over an ARBITRARY field (F, 0, 1, +, *, -, /, inv)
    with decidable equality; [xr] (x-coordinate of [k]G reduced mod N, read as a scalar) is an arbitrary function.
    Secret key d has public key d * 1.  The derivation of the blinding factor is Model/Derive.v
    [ecdsa_blind_factor] (hash_to_field over bytes(D) || 0x00 || context, Coq XMD), executed against the code. *)
From Coq Require Import Field Bool.
From PatVerif Require Import Model.Algebra Proofs.AlgebraP.

Section C12.
  Variable F : Type.
  Variables (f0 f1 : F) (fadd fmul fsub : F -> F -> F) (fopp : F -> F) (fdiv : F -> F -> F) (finv : F -> F).
  Variable feqb : F -> F -> bool.
  Hypothesis Fth : field_theory f0 f1 fadd fmul fsub fopp fdiv finv (@eq F).
  Hypothesis feqb_spec : forall a b, feqb a b = true <-> a = b.
  Variable xr : F -> F.
  Notation blind_pk := (blind_pk F fmul). Notation unblind_pk := (unblind_pk F fmul finv).
  Notation blind_key_sign := (blind_key_sign F fadd fmul finv xr).
  Notation ecdsa_verify := (ecdsa_verify F f0 fadd fmul finv feqb xr).

  (** a signature made with the blinded signing key verifies under the blinded public key — for every key d, blind
      factor b, digest scalar e and nonce k (k <> 0, r <> 0, s <> 0 are the retry conditions of the signer) *)
  Theorem blind_sign_verifies : forall d b e k,
    k <> f0 -> xr k <> f0 -> fadd e (fmul (fmul d b) (xr k)) <> f0 ->
    let '(r, s) := blind_key_sign d b e k in ecdsa_verify (blind_pk (fmul d f1) b) e r s = true.
  Proof. exact (blind_sign_verifies_l F f0 f1 fadd fmul fsub fopp fdiv finv feqb Fth feqb_spec xr). Qed.

  (** ... and under the unblinded key only in the explicit event that the recovered point
      k (e + r d) / (e + r d b) has the x-coordinate scalar of [k]G *)
  Theorem not_under_unblinded : forall d b e k,
    k <> f0 -> xr k <> f0 -> fadd e (fmul (fmul d b) (xr k)) <> f0 ->
    let '(r, s) := blind_key_sign d b e k in
    ecdsa_verify (fmul d f1) e r s = true ->
    xr (fdiv (fmul k (fadd e (fmul (xr k) d))) (fadd e (fmul (fmul d b) (xr k)))) = xr k.
  Proof. exact (blind_sign_unblinded_l F f0 f1 fadd fmul fsub fopp fdiv finv feqb Fth feqb_spec xr). Qed.

  (** when x-coordinates identify points up to sign, that event is: the factor is 1, or the digest is the single
      value with 2e + r d (1 + b) = 0 *)
  Theorem not_under_unblinded_event : forall d b e k,
    (forall u v, xr u = xr v -> u = v \/ u = fopp v) ->
    k <> f0 -> d <> f0 -> xr k <> f0 -> fadd e (fmul (fmul d b) (xr k)) <> f0 ->
    xr (fdiv (fmul k (fadd e (fmul (xr k) d))) (fadd e (fmul (fmul d b) (xr k)))) = xr k ->
    b = f1 \/ fadd (fadd e e) (fmul (fmul (xr k) d) (fadd f1 b)) = f0.
  Proof. exact (blind_sign_unblinded_event_l F f0 f1 fadd fmul fsub fopp fdiv finv Fth xr). Qed.

  Theorem unblind_blind : forall P b, b <> f0 -> unblind_pk (blind_pk P b) b = P.
  Proof. exact (unblind_blind_l F f0 f1 fadd fmul fsub fopp fdiv finv Fth). Qed.

  Theorem blind_commutes : forall P b1 b2, blind_pk (blind_pk P b1) b2 = blind_pk (blind_pk P b2) b1.
  Proof. exact (blind_commutes_l F f0 f1 fadd fmul fsub fopp fdiv finv Fth). Qed.

  (** changing the blind or the context changes the blinded key exactly when the derived factors differ
      (equal factors for different inputs are a hash_to_field collision) *)
  Theorem blinded_key_changes_iff : forall P b1 b2, P <> f0 -> (blind_pk P b1 = blind_pk P b2 <-> b1 = b2).
  Proof. exact (blind_injective_l F f0 f1 fadd fmul fsub fopp fdiv finv Fth). Qed.

  (** the blinded secret key is the secret of the blinded public key *)
  Theorem blinded_keys_correspond : forall d b, blind_pk (fmul d f1) b = fmul (blind_sk F fmul d b) f1.
  Proof. exact (blind_sk_pk_l F f0 f1 fadd fmul fsub fopp fdiv finv Fth). Qed.
End C12.

Print Assumptions blind_sign_verifies.
Print Assumptions not_under_unblinded.
Print Assumptions not_under_unblinded_event.
Print Assumptions unblind_blind.
Print Assumptions blind_commutes.
Print Assumptions blinded_key_changes_iff.
Print Assumptions blinded_keys_correspond.

(** the same laws at the arithmetic the harness EXECUTES against the code (Model/Derive.v [mulm], [invm] on N), for every
    prime group order q; the abstract field the theorems above quantify over is inhabited by this executable structure
    (Base/Zq.v [zq_field]) *)
From Coq Require Import ZArith NArith Znumtheory.
From PatVerif Require Import Base.Zq Model.Derive Proofs.ZqP.
Theorem inverse_executed : forall q a, prime (Z.of_N q) -> (a mod q <> 0)%N -> mulm q a (invm q a) = 1%N.
Proof. exact invm_correct. Qed.
Theorem unblind_blind_executed : forall q P b, prime (Z.of_N q) -> (b mod q <> 0)%N ->
  mulm q (invm q b) (mulm q b P) = (P mod q)%N.
Proof. exact exec_unblind_blind. Qed.
Theorem blind_commutes_executed : forall q P b1 b2, q <> 0%N -> mulm q b2 (mulm q b1 P) = mulm q b1 (mulm q b2 P).
Proof. exact exec_blind_commutes. Qed.
Theorem blinded_key_changes_executed : forall q P b1 b2, prime (Z.of_N q) -> (P mod q <> 0)%N ->
  mulm q b1 P = mulm q b2 P -> (b1 mod q = b2 mod q)%N.
Proof. exact exec_blind_injective. Qed.
Theorem exponent_field_exists : forall q (Hq : prime q),
  field_theory (z0 q Hq) (z1 q Hq) (zadd q Hq) (zmul q Hq) (zsub q Hq) (zopp q Hq) (zdiv q Hq) (zinv q Hq) (@eq (zq q)).
Proof. exact zq_instance. Qed.
Print Assumptions inverse_executed.
Print Assumptions unblind_blind_executed.
Print Assumptions blind_commutes_executed.
Print Assumptions blinded_key_changes_executed.
Print Assumptions exponent_field_exists.
