#!/bin/bash
# run_all.sh [quick|thorough] — every claimed check on the current tree, one summary line each.
tier=${1:-quick}
cd "$(dirname "$0")/.."
for id in $(python3 -c "import json;print(' '.join(c['property_id'] for c in json.load(open('MANIFEST.json'))['checks']))"); do
  out=$(./check $id --tier $tier 2>&1); rc=$?
  echo "$out" | grep -E "VIOLATION|KNOWN-FINDING|HARNESS-TROUBLE" | head -3
  echo "$out" | tail -1 | sed "s/^/[rc=$rc] /"
done
