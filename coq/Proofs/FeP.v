(** FeP.v — the limb arithmetic of Model/Fe.v computes in GF(2^255-19): under the stated limb bounds no uint64 or
    128-bit operation wraps, the results satisfy the bounds again, and their values are the field operations. *)
From Coq Require Import NArith ZArith List Lia ZifyN ZifyNat ZifyBool.
From PatVerif Require Import Model.Fe.
Import ListNotations.
Open Scope N_scope.
Ltac Zify.zify_post_hook ::= Z.div_mod_to_equations.

Lemma W64_eq : W64 = 18446744073709551616. Proof. reflexivity. Qed.
Lemma p51_eq : 2 ^ 51 = 2251799813685248. Proof. reflexivity. Qed.
Lemma wrap_eq x : wrap x = x mod 18446744073709551616.
Proof. unfold wrap. rewrite N.land_ones. reflexivity. Qed.
Lemma hi64_eq x : hi64 x = x / 18446744073709551616.
Proof. unfold hi64. rewrite N.shiftr_div_pow2. reflexivity. Qed.
Lemma wrap_small x : x < 18446744073709551616 -> wrap x = x.
Proof. intro H. rewrite wrap_eq. now apply N.mod_small. Qed.
Lemma lo51_eq x : lo51 x = x mod 2251799813685248.
Proof. unfold lo51, mask51. change (2 ^ 51 - 1) with (N.ones 51). rewrite N.land_ones. reflexivity. Qed.
Lemma shr51_eq x : shr51 x = x / 2251799813685248.
Proof. unfold shr51. rewrite N.shiftr_div_pow2. reflexivity. Qed.

Definition limbs_lt (B : N) (v : fe) : Prop := l0 v < B /\ l1 v < B /\ l2 v < B /\ l3 v < B /\ l4 v < B.
(** what carryPropagate guarantees: every limb below 2^51 + 2^13 * 19 *)
Definition tight (v : fe) : Prop := limbs_lt (2251799813685248 + 155648) v.
(** what the multiplication tolerates *)
Definition loose (v : fe) : Prop := limbs_lt 4503599627370496 v.
Definition u64s (v : fe) : Prop := limbs_lt 18446744073709551616 v.

Lemma tight_loose v : tight v -> loose v.
Proof. unfold tight, loose, limbs_lt. lia. Qed.
Lemma loose_u64s v : loose v -> u64s v.
Proof. unfold u64s, loose, limbs_lt. lia. Qed.

Lemma fe_val_eq v : fe_val v = l0 v + 2251799813685248 * l1 v + 5070602400912917605986812821504 * l2 v
  + 11417981541647679048466287755595961091061972992 * l3 v
  + 25711008708143844408671393477458601640355247900524685364822016 * l4 v.
Proof. reflexivity. Qed.
Lemma fe_p_eq : fe_p = 57896044618658097711785492504343953926634992332820282019728792003956564819949.
Proof. reflexivity. Qed.

(** carryPropagate on ANY five uint64 limbs: tight result, value changed by a multiple of p *)
Lemma fe_carry_spec v : u64s v ->
  tight (fe_carry v) /\ fe_val v = fe_val (fe_carry v) + shr51 (l4 v) * fe_p.
Proof.
  destruct v as [a0 a1 a2 a3 a4]. unfold u64s, tight, limbs_lt, fe_carry. cbn [l0 l1 l2 l3 l4].
  intros (H0 & H1 & H2 & H3 & H4).
  rewrite !lo51_eq, !shr51_eq.
  assert (E : forall x y, x < 2251799813685248 -> y <= 8191 * 19 -> wrap (x + wrap y) = x + y).
  { intros x y Hx Hy. rewrite (wrap_small y) by lia. apply wrap_small. lia. }
  assert (E' : forall x y, x < 2251799813685248 -> y <= 8191 -> wrap (x + y) = x + y).
  { intros x y Hx Hy. apply wrap_small. lia. }
  rewrite E by lia. rewrite !E' by lia.
  rewrite fe_p_eq, !fe_val_eq. cbn [l0 l1 l2 l3 l4].
  repeat split; lia.
Qed.

(** 128-bit accumulators *)
Definition v128 (a : u128) : N := lo a + 18446744073709551616 * hi a.
Definition wf128 (a : u128) : Prop := lo a < 18446744073709551616 /\ hi a < 18446744073709551616.

Lemma mul64_spec a b : a < 18446744073709551616 -> b < 18446744073709551616 ->
  wf128 (mul64 a b) /\ v128 (mul64 a b) = a * b.
Proof.
  intros Ha Hb. unfold wf128, v128, mul64. cbn [lo hi]. rewrite wrap_eq, hi64_eq.
  assert (Hp : a * b < 18446744073709551616 * 18446744073709551616) by nia.
  generalize dependent (a * b). intros p Hp. repeat split; lia.
Qed.

Lemma addMul64_spec v a b : wf128 v ->
  v128 v + a * b < 18446744073709551616 * 18446744073709551616 ->
  wf128 (addMul64 v a b) /\ v128 (addMul64 v a b) = v128 v + a * b.
Proof.
  destruct v as [vl vh]. unfold wf128, v128, addMul64. cbn [lo hi]. rewrite !wrap_eq, !hi64_eq.
  generalize (a * b). intros p (Hl & Hh) Hp.
  assert (Hs : p / 18446744073709551616 + vh + (p mod 18446744073709551616 + vl) / 18446744073709551616
               < 18446744073709551616) by lia.
  rewrite (N.mod_small _ _ Hs). repeat split; lia.
Qed.

Lemma shiftRightBy51_spec a : wf128 a -> hi a < 2251799813685248 ->
  shiftRightBy51 a = v128 a / 2251799813685248.
Proof.
  destruct a as [al ah]. unfold wf128, v128, shiftRightBy51. cbn [lo hi]. intros (Hl & _) Hh.
  rewrite N.shiftl_mul_pow2, N.shiftr_div_pow2. change (2 ^ 13) with 8192. change (2 ^ 51) with 2251799813685248.
  rewrite wrap_small by lia.
  replace (ah * 8192) with (N.shiftl ah 13) by (rewrite N.shiftl_mul_pow2; reflexivity).
  rewrite lor_shiftl_add by (change (2 ^ 13) with 8192; lia).
  change (2 ^ 13) with 8192. lia.
Qed.

(** five products accumulated the way feMulGeneric does *)
Lemma acc5_spec x0 y0 x1 y1 x2 y2 x3 y3 x4 y4 :
  x0 < 18446744073709551616 -> y0 < 18446744073709551616 ->
  x0 * y0 + x1 * y1 + x2 * y2 + x3 * y3 + x4 * y4 < 18446744073709551616 * 18446744073709551616 ->
  let r := addMul64 (addMul64 (addMul64 (addMul64 (mul64 x0 y0) x1 y1) x2 y2) x3 y3) x4 y4 in
  wf128 r /\ v128 r = x0 * y0 + x1 * y1 + x2 * y2 + x3 * y3 + x4 * y4.
Proof.
  intros Hx Hy Hs r. subst r.
  destruct (mul64_spec x0 y0 Hx Hy) as [W0 V0].
  destruct (addMul64_spec _ x1 y1 W0) as [W1 V1]; [rewrite V0; lia|]. rewrite V0 in V1.
  destruct (addMul64_spec _ x2 y2 W1) as [W2 V2]; [rewrite V1; lia|]. rewrite V1 in V2.
  destruct (addMul64_spec _ x3 y3 W2) as [W3 V3]; [rewrite V2; lia|]. rewrite V2 in V3.
  destruct (addMul64_spec _ x4 y4 W3) as [W4 V4]; [rewrite V3; lia|]. rewrite V3 in V4.
  split; assumption.
Qed.

Lemma acc3_spec x0 y0 x1 y1 x2 y2 :
  x0 < 18446744073709551616 -> y0 < 18446744073709551616 ->
  x0 * y0 + x1 * y1 + x2 * y2 < 18446744073709551616 * 18446744073709551616 ->
  let r := addMul64 (addMul64 (mul64 x0 y0) x1 y1) x2 y2 in
  wf128 r /\ v128 r = x0 * y0 + x1 * y1 + x2 * y2.
Proof.
  intros Hx Hy Hs r. subst r.
  destruct (mul64_spec x0 y0 Hx Hy) as [W0 V0].
  destruct (addMul64_spec _ x1 y1 W0) as [W1 V1]; [rewrite V0; lia|]. rewrite V0 in V1.
  destruct (addMul64_spec _ x2 y2 W1) as [W2 V2]; [rewrite V1; lia|]. rewrite V1 in V2.
  split; assumption.
Qed.

Definition wide_out (r0 r1 r2 r3 r4 : u128) : fe :=
  let c0 := shiftRightBy51 r0 in let c1 := shiftRightBy51 r1 in let c2 := shiftRightBy51 r2 in
  let c3 := shiftRightBy51 r3 in let c4 := shiftRightBy51 r4 in
  fe_carry (mkfe (wrap (lo51 (lo r0) + wrap (c4 * 19))) (wrap (lo51 (lo r1) + c0)) (wrap (lo51 (lo r2) + c1))
                 (wrap (lo51 (lo r3) + c2)) (wrap (lo51 (lo r4) + c3))).

(** the reduction of five wide coefficients shared by multiplication and squaring *)
Lemma wide_spec r0 r1 r2 r3 r4 :
  wf128 r0 -> wf128 r1 -> wf128 r2 -> wf128 r3 -> wf128 r4 ->
  v128 r0 < 2 ^ 111 -> v128 r1 < 2 ^ 111 -> v128 r2 < 2 ^ 111 -> v128 r3 < 2 ^ 111 -> v128 r4 < 2 ^ 107 ->
  tight (wide_out r0 r1 r2 r3 r4) /\
  exists k, v128 r0 + 2251799813685248 * v128 r1 + 5070602400912917605986812821504 * v128 r2
    + 11417981541647679048466287755595961091061972992 * v128 r3
    + 25711008708143844408671393477458601640355247900524685364822016 * v128 r4
    = fe_val (wide_out r0 r1 r2 r3 r4) + k * fe_p.
Proof.
  intros W0 W1 W2 W3 W4 B0 B1 B2 B3 B4.
  change (2 ^ 111) with 2596148429267413814265248164610048 in *.
  change (2 ^ 107) with 162259276829213363391578010288128 in *.
  unfold wide_out.
  rewrite !shiftRightBy51_spec by (try assumption; unfold v128, wf128 in *; lia).
  rewrite !lo51_eq.
  set (R0 := v128 r0) in *. set (R1 := v128 r1) in *. set (R2 := v128 r2) in *.
  set (R3 := v128 r3) in *. set (R4 := v128 r4) in *.
  assert (M : forall r, wf128 r -> lo r mod 2251799813685248 = v128 r mod 2251799813685248).
  { intros [l h] (Hl & Hh). unfold v128. cbn [lo hi]. lia. }
  rewrite !M by assumption. fold R0 R1 R2 R3 R4.
  clearbody R0 R1 R2 R3 R4. clear M W0 W1 W2 W3 W4.
  rewrite (wrap_small (R4 / 2251799813685248 * 19)) by lia.
  rewrite !wrap_small by lia.
  match goal with |- tight (fe_carry ?v) /\ _ => destruct (fe_carry_spec v) as [T E] end.
  { unfold u64s, limbs_lt. cbn [l0 l1 l2 l3 l4]. lia. }
  split; [exact T|].
  match type of E with _ = _ + ?s * _ => exists (s + R4 / 2251799813685248) end.
  rewrite N.mul_add_distr_r, N.add_assoc, <- E. rewrite fe_val_eq, fe_p_eq. cbn [l0 l1 l2 l3 l4]. lia.
Qed.

Lemma mul_lt_104 x y : x < 4503599627370496 -> y < 4503599627370496 ->
  x * y < 20282409603651670423947251286016.
Proof. intros Hx Hy. change 20282409603651670423947251286016 with (4503599627370496 * 4503599627370496). nia. Qed.

Lemma mod_of_eq big out k : big = out + k * fe_p -> big mod fe_p = out mod fe_p.
Proof. intros ->. apply N.mod_add. rewrite fe_p_eq. discriminate. Qed.

(** Multiply: loose inputs, tight output, value the product modulo p *)
Lemma fe_mul_spec a b : loose a -> loose b ->
  tight (fe_mul a b) /\ fe_val (fe_mul a b) mod fe_p = (fe_val a * fe_val b) mod fe_p.
Proof.
  destruct a as [a0 a1 a2 a3 a4], b as [b0 b1 b2 b3 b4]. unfold loose, limbs_lt. cbn [l0 l1 l2 l3 l4].
  intros (A0 & A1 & A2 & A3 & A4) (B0 & B1 & B2 & B3 & B4).
  unfold fe_mul. cbn [l0 l1 l2 l3 l4].
  rewrite (wrap_small (a1 * 19)), (wrap_small (a2 * 19)), (wrap_small (a3 * 19)), (wrap_small (a4 * 19)) by lia.
  pose proof (mul_lt_104 a0 b0 A0 B0). pose proof (mul_lt_104 a0 b1 A0 B1). pose proof (mul_lt_104 a0 b2 A0 B2).
  pose proof (mul_lt_104 a0 b3 A0 B3). pose proof (mul_lt_104 a0 b4 A0 B4).
  pose proof (mul_lt_104 a1 b0 A1 B0). pose proof (mul_lt_104 a1 b1 A1 B1). pose proof (mul_lt_104 a1 b2 A1 B2).
  pose proof (mul_lt_104 a1 b3 A1 B3). pose proof (mul_lt_104 a1 b4 A1 B4).
  pose proof (mul_lt_104 a2 b0 A2 B0). pose proof (mul_lt_104 a2 b1 A2 B1). pose proof (mul_lt_104 a2 b2 A2 B2).
  pose proof (mul_lt_104 a2 b3 A2 B3). pose proof (mul_lt_104 a2 b4 A2 B4).
  pose proof (mul_lt_104 a3 b0 A3 B0). pose proof (mul_lt_104 a3 b1 A3 B1). pose proof (mul_lt_104 a3 b2 A3 B2).
  pose proof (mul_lt_104 a3 b3 A3 B3). pose proof (mul_lt_104 a3 b4 A3 B4).
  pose proof (mul_lt_104 a4 b0 A4 B0). pose proof (mul_lt_104 a4 b1 A4 B1). pose proof (mul_lt_104 a4 b2 A4 B2).
  pose proof (mul_lt_104 a4 b3 A4 B3). pose proof (mul_lt_104 a4 b4 A4 B4).
  destruct (acc5_spec a0 b0 (a1 * 19) b4 (a2 * 19) b3 (a3 * 19) b2 (a4 * 19) b1) as [W0 V0]; [lia | lia | lia |].
  destruct (acc5_spec a0 b1 a1 b0 (a2 * 19) b4 (a3 * 19) b3 (a4 * 19) b2) as [W1 V1]; [lia | lia | lia |].
  destruct (acc5_spec a0 b2 a1 b1 a2 b0 (a3 * 19) b4 (a4 * 19) b3) as [W2 V2]; [lia | lia | lia |].
  destruct (acc5_spec a0 b3 a1 b2 a2 b1 a3 b0 (a4 * 19) b4) as [W3 V3]; [lia | lia | lia |].
  destruct (acc5_spec a0 b4 a1 b3 a2 b2 a3 b1 a4 b0) as [W4 V4]; [lia | lia | lia |].
  match goal with |- tight (fe_carry ?v) /\ _ =>
    match type of W0 with wf128 ?r0 => match type of W1 with wf128 ?r1 => match type of W2 with wf128 ?r2 =>
    match type of W3 with wf128 ?r3 => match type of W4 with wf128 ?r4 =>
      change (fe_carry v) with (wide_out r0 r1 r2 r3 r4);
      destruct (wide_spec r0 r1 r2 r3 r4 W0 W1 W2 W3 W4) as [T [k E]]
    end end end end end
  end.
  1-5: (change (2 ^ 111) with 2596148429267413814265248164610048;
        change (2 ^ 107) with 162259276829213363391578010288128; lia).
  split; [exact T|].
  symmetry. apply mod_of_eq with (k := k + (a1 * b4 + a2 * b3 + a3 * b2 + a4 * b1
      + 2251799813685248 * (a2 * b4 + a3 * b3 + a4 * b2)
      + 5070602400912917605986812821504 * (a3 * b4 + a4 * b3)
      + 11417981541647679048466287755595961091061972992 * (a4 * b4))).
  rewrite N.mul_add_distr_r, N.add_assoc, <- E, V0, V1, V2, V3, V4.
  rewrite !fe_val_eq, fe_p_eq. cbn [l0 l1 l2 l3 l4]. ring.
Qed.

(** Square *)
Lemma fe_square_spec a : loose a ->
  tight (fe_square a) /\ fe_val (fe_square a) mod fe_p = (fe_val a * fe_val a) mod fe_p.
Proof.
  destruct a as [a0 a1 a2 a3 a4]. unfold loose, limbs_lt. cbn [l0 l1 l2 l3 l4].
  intros (A0 & A1 & A2 & A3 & A4).
  unfold fe_square. cbn [l0 l1 l2 l3 l4].
  rewrite (wrap_small (a0 * 2)), (wrap_small (a1 * 2)), (wrap_small (a1 * 38)), (wrap_small (a2 * 38)),
    (wrap_small (a3 * 38)), (wrap_small (a3 * 19)), (wrap_small (a4 * 19)) by lia.
  pose proof (mul_lt_104 a0 a0 A0 A0). pose proof (mul_lt_104 a0 a1 A0 A1). pose proof (mul_lt_104 a0 a2 A0 A2).
  pose proof (mul_lt_104 a0 a3 A0 A3). pose proof (mul_lt_104 a0 a4 A0 A4).
  pose proof (mul_lt_104 a1 a1 A1 A1). pose proof (mul_lt_104 a1 a2 A1 A2).
  pose proof (mul_lt_104 a1 a3 A1 A3). pose proof (mul_lt_104 a1 a4 A1 A4).
  pose proof (mul_lt_104 a2 a2 A2 A2). pose proof (mul_lt_104 a2 a3 A2 A3). pose proof (mul_lt_104 a2 a4 A2 A4).
  pose proof (mul_lt_104 a3 a3 A3 A3). pose proof (mul_lt_104 a3 a4 A3 A4). pose proof (mul_lt_104 a4 a4 A4 A4).
  destruct (acc3_spec a0 a0 (a1 * 38) a4 (a2 * 38) a3) as [W0 V0]; [lia | lia | lia |].
  destruct (acc3_spec (a0 * 2) a1 (a2 * 38) a4 (a3 * 19) a3) as [W1 V1]; [lia | lia | lia |].
  destruct (acc3_spec (a0 * 2) a2 a1 a1 (a3 * 38) a4) as [W2 V2]; [lia | lia | lia |].
  destruct (acc3_spec (a0 * 2) a3 (a1 * 2) a2 (a4 * 19) a4) as [W3 V3]; [lia | lia | lia |].
  destruct (acc3_spec (a0 * 2) a4 (a1 * 2) a3 a2 a2) as [W4 V4]; [lia | lia | lia |].
  match goal with |- tight (fe_carry ?v) /\ _ =>
    match type of W0 with wf128 ?r0 => match type of W1 with wf128 ?r1 => match type of W2 with wf128 ?r2 =>
    match type of W3 with wf128 ?r3 => match type of W4 with wf128 ?r4 =>
      change (fe_carry v) with (wide_out r0 r1 r2 r3 r4);
      destruct (wide_spec r0 r1 r2 r3 r4 W0 W1 W2 W3 W4) as [T [k E]]
    end end end end end
  end.
  1-5: (change (2 ^ 111) with 2596148429267413814265248164610048;
        change (2 ^ 107) with 162259276829213363391578010288128; lia).
  split; [exact T|].
  symmetry. apply mod_of_eq with (k := k + (2 * (a1 * a4 + a2 * a3)
      + 2251799813685248 * (2 * (a2 * a4) + a3 * a3)
      + 5070602400912917605986812821504 * (2 * (a3 * a4))
      + 11417981541647679048466287755595961091061972992 * (a4 * a4))).
  rewrite N.mul_add_distr_r, N.add_assoc, <- E, V0, V1, V2, V3, V4.
  rewrite !fe_val_eq, fe_p_eq. cbn [l0 l1 l2 l3 l4]. ring.
Qed.

(** Add: any limbs below 2^63 *)
Lemma fe_add_spec a b : limbs_lt 9223372036854775808 a -> limbs_lt 9223372036854775808 b ->
  tight (fe_add a b) /\ fe_val (fe_add a b) mod fe_p = (fe_val a + fe_val b) mod fe_p.
Proof.
  destruct a as [a0 a1 a2 a3 a4], b as [b0 b1 b2 b3 b4]. unfold limbs_lt. cbn [l0 l1 l2 l3 l4].
  intros (A0 & A1 & A2 & A3 & A4) (B0 & B1 & B2 & B3 & B4).
  unfold fe_add. cbn [l0 l1 l2 l3 l4]. rewrite !wrap_small by lia.
  match goal with |- tight (fe_carry ?v) /\ _ => destruct (fe_carry_spec v) as [T E] end.
  { unfold u64s, limbs_lt. cbn [l0 l1 l2 l3 l4]. lia. }
  split; [exact T|]. symmetry. eapply mod_of_eq. rewrite <- E. rewrite !fe_val_eq. cbn [l0 l1 l2 l3 l4]. lia.
Qed.

(** Subtract: a below 2^63, b within what 2p's limbs cover (every tight or Mult32 output is) *)
Lemma fe_sub_spec a b : limbs_lt 9223372036854775808 a -> limbs_lt 4503599627370458 b ->
  tight (fe_sub a b) /\ (fe_val (fe_sub a b) + fe_val b) mod fe_p = fe_val a mod fe_p.
Proof.
  destruct a as [a0 a1 a2 a3 a4], b as [b0 b1 b2 b3 b4]. unfold limbs_lt. cbn [l0 l1 l2 l3 l4].
  intros (A0 & A1 & A2 & A3 & A4) (B0 & B1 & B2 & B3 & B4).
  unfold fe_sub, two_p0, two_pi. cbn [l0 l1 l2 l3 l4]. rewrite !wrap_small by lia.
  assert (S : forall x y, y <= x -> x < 18446744073709551616 -> wsub x y = x - y).
  { intros x y Hy Hx. unfold wsub. rewrite !wrap_eq, W64_eq. rewrite (N.mod_small y) by lia.
    replace (x + 18446744073709551616 - y) with (x - y + 1 * 18446744073709551616) by lia.
    rewrite N.mod_add by discriminate. apply N.mod_small. lia. }
  rewrite !S by lia.
  match goal with |- tight (fe_carry ?v) /\ _ => destruct (fe_carry_spec v) as [T E] end.
  { unfold u64s, limbs_lt. cbn [l0 l1 l2 l3 l4]. lia. }
  split; [exact T|].
  assert (Pnz : fe_p <> 0) by (rewrite fe_p_eq; discriminate).
  match type of E with _ = _ + ?s * _ =>
    rewrite <- (N.mod_add (_ + _) s fe_p Pnz), <- (N.mod_add (fe_val (mkfe a0 a1 a2 a3 a4)) 2 fe_p Pnz) end.
  f_equal. rewrite fe_val_eq in E. cbn [l0 l1 l2 l3 l4] in E.
  rewrite (fe_val_eq (mkfe a0 a1 a2 a3 a4)), (fe_val_eq (mkfe b0 b1 b2 b3 b4)). cbn [l0 l1 l2 l3 l4].
  rewrite fe_p_eq in *. lia.
Qed.

(** reduce: the canonical representative — limbs below 2^51 and the value below p, equal to the input's modulo p *)
Ltac dm z q r :=
  let Hq := fresh "Hq" in let Hr := fresh "Hr" in
  pose proof (N.div_mod z 2251799813685248 ltac:(discriminate)) as Hq;
  pose proof (N.mod_lt z 2251799813685248 ltac:(discriminate)) as Hr;
  set (q := z / 2251799813685248) in *; set (r := z mod 2251799813685248) in *; clearbody q r.

Lemma fe_reduce_spec v : u64s v ->
  limbs_lt 2251799813685248 (fe_reduce v) /\ fe_val (fe_reduce v) = fe_val v mod fe_p.
Proof.
  intro U. destruct (fe_carry_spec v U) as [T E]. unfold fe_reduce.
  assert (Pnz : fe_p <> 0) by (rewrite fe_p_eq; discriminate).
  rewrite E, N.mod_add by exact Pnz. clear E U.
  destruct (fe_carry v) as [t0 t1 t2 t3 t4]. unfold tight, limbs_lt in *. cbn [l0 l1 l2 l3 l4] in *.
  destruct T as (T0 & T1 & T2 & T3 & T4).
  rewrite !shr51_eq, !lo51_eq.
  rewrite (wrap_small (t0 + 19)) by lia. dm (t0 + 19) c0 w0.
  rewrite (wrap_small (t1 + c0)) by lia. dm (t1 + c0) c1 w1.
  rewrite (wrap_small (t2 + c1)) by lia. dm (t2 + c1) c2 w2.
  rewrite (wrap_small (t3 + c2)) by lia. dm (t3 + c2) c3 w3.
  rewrite (wrap_small (t4 + c3)) by lia. dm (t4 + c3) c w4.
  assert (C : c = 0 \/ c = 1) by lia.
  rewrite (wrap_small (19 * c)) by lia. rewrite (wrap_small (t0 + 19 * c)) by lia.
  dm (t0 + 19 * c) q0 y0.
  rewrite (wrap_small (t1 + q0)) by lia. dm (t1 + q0) q1 y1.
  rewrite (wrap_small (t2 + q1)) by lia. dm (t2 + q1) q2 y2.
  rewrite (wrap_small (t3 + q2)) by lia. dm (t3 + q2) q3 y3.
  rewrite (wrap_small (t4 + q3)) by lia. dm (t4 + q3) q4 y4.
  split; [repeat split; assumption|].
  symmetry. rewrite !fe_val_eq. cbn [l0 l1 l2 l3 l4].
  assert (Q : q4 = c).
  { destruct C as [C | C]; subst c.
    - assert (q0 <= c0) by lia. assert (q1 <= c1) by lia. assert (q2 <= c2) by lia. assert (q3 <= c3) by lia. lia.
    - assert (q0 = c0) by lia. subst q0. assert (y0 = w0) by lia. subst y0.
      assert (q1 = c1) by lia. subst q1. assert (q2 = c2) by lia. subst q2. assert (q3 = c3) by lia. subst q3. lia. }
  assert (K1 : t0 + 2251799813685248 * t1 + 5070602400912917605986812821504 * t2
      + 11417981541647679048466287755595961091061972992 * t3
      + 25711008708143844408671393477458601640355247900524685364822016 * t4
      = (y0 + 2251799813685248 * y1 + 5070602400912917605986812821504 * y2
         + 11417981541647679048466287755595961091061972992 * y3
         + 25711008708143844408671393477458601640355247900524685364822016 * y4) + c * fe_p).
  { rewrite fe_p_eq. subst q4. lia. }
  assert (K2 : y0 + 2251799813685248 * y1 + 5070602400912917605986812821504 * y2
         + 11417981541647679048466287755595961091061972992 * y3
         + 25711008708143844408671393477458601640355247900524685364822016 * y4 < fe_p).
  { rewrite fe_p_eq in *. destruct C as [C | C]; subst c.
    - assert (t0 + 19 + 2251799813685248 * t1 + 5070602400912917605986812821504 * t2
      + 11417981541647679048466287755595961091061972992 * t3
      + 25711008708143844408671393477458601640355247900524685364822016 * t4
      = w0 + 2251799813685248 * w1 + 5070602400912917605986812821504 * w2
         + 11417981541647679048466287755595961091061972992 * w3
         + 25711008708143844408671393477458601640355247900524685364822016 * w4) by lia.
      lia.
    - lia. }
  rewrite K1, N.mod_add by exact Pnz. apply N.mod_small. exact K2.
Qed.

(** powers: n squarings, the inversion chain (z^(p-2)) and the square-root chain (z^((p-5)/8)) *)
Lemma pow_mod_compat a b e : a mod fe_p = b mod fe_p -> a ^ e mod fe_p = b ^ e mod fe_p.
Proof.
  intro H. assert (Pnz : fe_p <> 0) by (rewrite fe_p_eq; discriminate).
  induction e as [|e IH] using N.peano_ind; [reflexivity|].
  rewrite !N.pow_succ_r'. rewrite (N.mul_mod a), (N.mul_mod b) by exact Pnz. now rewrite H, IH.
Qed.

Definition pw (z t : fe) (e : N) : Prop := loose t /\ fe_val t mod fe_p = fe_val z ^ e mod fe_p.

Lemma pw_base z : loose z -> pw z z 1.
Proof. intro H. split; [exact H|]. now rewrite N.pow_1_r. Qed.

Lemma pw_mul z t1 t2 e1 e2 : pw z t1 e1 -> pw z t2 e2 -> pw z (fe_mul t1 t2) (e1 + e2).
Proof.
  intros [L1 V1] [L2 V2]. destruct (fe_mul_spec t1 t2 L1 L2) as [T V].
  assert (Pnz : fe_p <> 0) by (rewrite fe_p_eq; discriminate).
  split; [apply tight_loose; exact T|].
  rewrite V, N.mul_mod, V1, V2, <- N.mul_mod, N.pow_add_r by exact Pnz. reflexivity.
Qed.

Lemma pw_sq z t e : pw z t e -> pw z (fe_square t) (2 * e).
Proof.
  intros [L1 V1]. destruct (fe_square_spec t L1) as [T V].
  assert (Pnz : fe_p <> 0) by (rewrite fe_p_eq; discriminate).
  split; [apply tight_loose; exact T|].
  rewrite V, N.mul_mod, V1, <- N.mul_mod by exact Pnz.
  replace (2 * e) with (e + e) by lia. now rewrite N.pow_add_r.
Qed.

Lemma pw_sqn z n : forall t e, pw z t e -> pw z (fe_sqn n t) (2 ^ N.of_nat n * e).
Proof.
  induction n as [|n IH]; intros t e H.
  - cbn [fe_sqn]. change (2 ^ N.of_nat 0) with 1. now rewrite N.mul_1_l.
  - cbn [fe_sqn]. apply pw_sq in H. apply IH in H.
    replace (2 ^ N.of_nat (S n) * e) with (2 ^ N.of_nat n * (2 * e)); [exact H|].
    rewrite Nat2N.inj_succ, N.pow_succ_r'. lia.
Qed.

Lemma pw_exp z t e e' : e = e' -> pw z t e -> pw z t e'.
Proof. now intros ->. Qed.

Lemma fe_invert_spec z : loose z -> pw z (fe_invert z) (fe_p - 2).
Proof.
  intro Hz. pose proof (pw_base z Hz) as P1. unfold fe_invert.
  pose proof (pw_sq _ _ _ P1) as Pz2.
  pose proof (pw_mul _ _ _ _ _ (pw_sqn z 2 _ _ Pz2) P1) as Pz9.
  pose proof (pw_mul _ _ _ _ _ Pz9 Pz2) as Pz11.
  pose proof (pw_mul _ _ _ _ _ (pw_sq _ _ _ Pz11) Pz9) as P5.
  pose proof (pw_mul _ _ _ _ _ (pw_sqn z 5 _ _ P5) P5) as P10.
  pose proof (pw_mul _ _ _ _ _ (pw_sqn z 10 _ _ P10) P10) as P20.
  pose proof (pw_mul _ _ _ _ _ (pw_sqn z 20 _ _ P20) P20) as P40.
  pose proof (pw_mul _ _ _ _ _ (pw_sqn z 10 _ _ P40) P10) as P50.
  pose proof (pw_mul _ _ _ _ _ (pw_sqn z 50 _ _ P50) P50) as P100.
  pose proof (pw_mul _ _ _ _ _ (pw_sqn z 100 _ _ P100) P100) as P200.
  pose proof (pw_mul _ _ _ _ _ (pw_sqn z 50 _ _ P200) P50) as P250.
  pose proof (pw_mul _ _ _ _ _ (pw_sqn z 5 _ _ P250) Pz11) as Pf.
  refine (pw_exp _ _ _ _ _ Pf). vm_compute. reflexivity.
Qed.

Lemma fe_pow22523_spec z : loose z -> pw z (fe_pow22523 z) ((fe_p - 5) / 8).
Proof.
  intro Hz. pose proof (pw_base z Hz) as P1. unfold fe_pow22523.
  pose proof (pw_sq _ _ _ P1) as P2.
  pose proof (pw_mul _ _ _ _ _ P1 (pw_sqn z 2 _ _ P2)) as P9.
  pose proof (pw_mul _ _ _ _ _ P2 P9) as P11.
  pose proof (pw_mul _ _ _ _ _ P9 (pw_sq _ _ _ P11)) as P31.
  pose proof (pw_mul _ _ _ _ _ (pw_sqn z 5 _ _ P31) P31) as Q10.
  pose proof (pw_mul _ _ _ _ _ (pw_sqn z 10 _ _ Q10) Q10) as Q20.
  pose proof (pw_mul _ _ _ _ _ (pw_sqn z 20 _ _ Q20) Q20) as Q40.
  pose proof (pw_mul _ _ _ _ _ (pw_sqn z 10 _ _ Q40) Q10) as Q50.
  pose proof (pw_mul _ _ _ _ _ (pw_sqn z 50 _ _ Q50) Q50) as Q100.
  pose proof (pw_mul _ _ _ _ _ (pw_sqn z 100 _ _ Q100) Q100) as Q200.
  pose proof (pw_mul _ _ _ _ _ (pw_sqn z 50 _ _ Q200) Q50) as Q250.
  pose proof (pw_mul _ _ _ _ _ (pw_sqn z 2 _ _ Q250) P1) as Pf.
  refine (pw_exp _ _ _ _ _ Pf). vm_compute. reflexivity.
Qed.

(** little-endian values of byte strings *)
Lemma le_val_be s : le_val s = be_dec (rev s).
Proof. unfold le_val. apply be_dec_h_eq. Qed.

Lemma le_val_app a b : le_val (a ++ b) = le_val a + 256 ^ N.of_nat (length a) * le_val b.
Proof. rewrite !le_val_be, rev_app_distr, be_dec_app, rev_length. lia. Qed.

Lemma le_val_lt s : le_val s < 256 ^ N.of_nat (length s).
Proof. rewrite le_val_be, <- rev_length. apply be_dec_lt. Qed.

Lemma le_val_slice x i n : (i + n <= length x)%nat ->
  le_val (firstn n (skipn i x)) = (le_val x / 256 ^ N.of_nat i) mod 256 ^ N.of_nat n.
Proof.
  intro H.
  rewrite <- (firstn_skipn i x) at 2. rewrite <- (firstn_skipn n (skipn i x)) at 2.
  rewrite !le_val_app.
  assert (L1 : length (firstn i x) = i) by (apply firstn_length_le; lia).
  assert (L2 : length (firstn n (skipn i x)) = n) by (apply firstn_length_le; rewrite skipn_length; lia).
  rewrite L1, L2.
  pose proof (le_val_lt (firstn i x)) as B1. rewrite L1 in B1.
  pose proof (le_val_lt (firstn n (skipn i x))) as B2. rewrite L2 in B2.
  set (A := le_val (firstn i x)) in *. set (M := le_val (firstn n (skipn i x))) in *.
  set (R := le_val (skipn n (skipn i x))).
  assert (P1 : 256 ^ N.of_nat i <> 0) by (apply N.pow_nonzero; discriminate).
  assert (P2 : 256 ^ N.of_nat n <> 0) by (apply N.pow_nonzero; discriminate).
  rewrite (N.mul_comm (256 ^ N.of_nat i)), N.div_add by exact P1. rewrite (N.div_small A) by exact B1.
  rewrite N.add_0_l, (N.mul_comm (256 ^ N.of_nat n)), N.mod_add by exact P2. symmetry. apply N.mod_small. exact B2.
Qed.

(** radix-2^51 digits *)
Lemma digits5 V : V mod 2 ^ 255 =
  V mod 2 ^ 51 + 2 ^ 51 * ((V / 2 ^ 51) mod 2 ^ 51) + 2 ^ 102 * ((V / 2 ^ 102) mod 2 ^ 51)
  + 2 ^ 153 * ((V / 2 ^ 153) mod 2 ^ 51) + 2 ^ 204 * ((V / 2 ^ 204) mod 2 ^ 51).
Proof.
  assert (D : 2 ^ 51 <> 0) by discriminate.
  change (2 ^ 255) with (2 ^ 51 * (2 ^ 51 * (2 ^ 51 * (2 ^ 51 * 2 ^ 51)))).
  change (2 ^ 102) with (2 ^ 51 * 2 ^ 51). change (2 ^ 153) with (2 ^ 51 * (2 ^ 51 * 2 ^ 51)).
  change (2 ^ 204) with (2 ^ 51 * (2 ^ 51 * (2 ^ 51 * 2 ^ 51))).
  rewrite N.mod_mul_r by discriminate.
  rewrite (N.mod_mul_r (V / 2 ^ 51)) by discriminate. rewrite N.div_div by discriminate.
  rewrite (N.mod_mul_r (V / (2 ^ 51 * 2 ^ 51))) by discriminate. rewrite N.div_div by discriminate.
  rewrite (N.mod_mul_r (V / (2 ^ 51 * (2 ^ 51 * 2 ^ 51)))) by discriminate. rewrite N.div_div by discriminate.
  change (2 ^ 51 * (2 ^ 51 * 2 ^ 51) * 2 ^ 51) with (2 ^ 51 * (2 ^ 51 * (2 ^ 51 * 2 ^ 51))).
  ring.
Qed.

(** one limb of SetBytes: a 64-bit window at byte offset i, shifted right by s, masked to 51 bits *)
Lemma window_limb V i s : (s + 51 <= 64) ->
  lo51 (N.shiftr ((V / 256 ^ i) mod 2 ^ 64) s) = (V / 2 ^ (8 * i + s)) mod 2 ^ 51.
Proof.
  intro Hs. unfold lo51, mask51. change (2 ^ 51 - 1) with (N.ones 51).
  rewrite <- (N.land_ones _ 64). replace (256 ^ i) with (2 ^ (8 * i)) by (rewrite N.pow_mul_r; reflexivity).
  rewrite <- N.shiftr_div_pow2, N.shiftr_land, N.shiftr_shiftr, <- N.land_assoc.
  replace (N.land (N.shiftr (N.ones 64) s) (N.ones 51)) with (N.ones 51).
  - rewrite N.land_ones, N.shiftr_div_pow2. reflexivity.
  - assert (C : forallb (fun k => N.land (N.shiftr (N.ones 64) (N.of_nat k)) (N.ones 51) =? N.ones 51) (seq 0 14) = true)
      by (vm_compute; reflexivity).
    rewrite forallb_forall in C. specialize (C (N.to_nat s)). rewrite N2Nat.id in C.
    symmetry. apply N.eqb_eq, C, in_seq. lia.
Qed.

(** SetBytes: the 255 low bits of the little-endian value, limbs below 2^51 *)
Lemma fe_set_bytes_spec x : length x = 32%nat ->
  limbs_lt 2251799813685248 (fe_set_bytes x) /\ fe_val (fe_set_bytes x) = le_val x mod 2 ^ 255.
Proof.
  intro Hx. unfold fe_set_bytes, le64.
  rewrite !le_val_slice by (rewrite Hx; repeat constructor).
  set (V := le_val x). clearbody V.
  change (256 ^ N.of_nat 8) with (2 ^ 64).
  rewrite <- (N.shiftr_0_r ((V / 256 ^ N.of_nat 0) mod 2 ^ 64)).
  rewrite !window_limb by lia.
  change (8 * N.of_nat 0 + 0) with 0. change (8 * N.of_nat 6 + 3) with 51. change (8 * N.of_nat 12 + 6) with 102.
  change (8 * N.of_nat 19 + 1) with 153. change (8 * N.of_nat 24 + 12) with 204.
  split.
  - unfold limbs_lt. cbn [l0 l1 l2 l3 l4]. change 2251799813685248 with (2 ^ 51).
    repeat split; apply N.mod_lt; discriminate.
  - unfold fe_val. cbn [l0 l1 l2 l3 l4]. rewrite digits5. change (2 ^ 0) with 1. now rewrite N.div_1_r.
Qed.

(** Bytes: the 32-byte little-endian encoding of the canonical representative *)
Lemma lor_small n x y : x < 2 ^ n -> y < 2 ^ n -> N.lor x y < 2 ^ n.
Proof.
  intros Hx Hy. assert (P : 2 ^ n <> 0) by (apply N.pow_nonzero; discriminate).
  apply N.div_small_iff; [exact P|]. rewrite <- N.shiftr_div_pow2, N.shiftr_lor, !N.shiftr_div_pow2.
  rewrite (N.div_small x), (N.div_small y) by assumption. reflexivity.
Qed.

Lemma lor_split n x y A B : x < 2 ^ n -> y < 2 ^ n ->
  N.lor (x + 2 ^ n * A) (y + 2 ^ n * B) = N.lor x y + 2 ^ n * N.lor A B.
Proof.
  intros Hx Hy.
  rewrite (N.add_comm x), (N.add_comm y), (N.mul_comm _ A), (N.mul_comm _ B).
  rewrite <- !lor_shiftl_add by assumption.
  rewrite N.lor_assoc, <- (N.lor_assoc (N.shiftl A n)), (N.lor_comm x), N.lor_assoc, <- N.lor_assoc, <- N.shiftl_lor.
  rewrite lor_shiftl_add by (apply lor_small; assumption). lia.
Qed.

Lemma le_val_cons x l : le_val (x :: l) = b2n x + 2 ^ 8 * le_val l.
Proof. change (x :: l) with ([x] ++ l). rewrite le_val_app. cbn [length]. change (256 ^ N.of_nat 1) with (2 ^ 8).
  reflexivity. Qed.

Lemma le_val_nil : le_val [] = 0. Proof. reflexivity. Qed.

Lemma or_bytes_val o : forall b, le_val (or_bytes o b) = N.lor (le_val o) (le_val (firstn (length o) b)).
Proof.
  induction o as [|x o IH]; intro b.
  - cbn. reflexivity.
  - destruct b as [|y b].
    + cbn [or_bytes firstn length]. rewrite le_val_nil, N.lor_0_r. reflexivity.
    + cbn [or_bytes firstn length]. rewrite !le_val_cons, IH.
      rewrite b2n_n2b, N.mod_small by (apply (lor_small 8); apply b2n_lt).
      symmetry. apply lor_split; apply b2n_lt.
Qed.

Lemma or_bytes_length o : forall b, length (or_bytes o b) = length o.
Proof. induction o as [|x o IH]; intros [|y b]; cbn; auto. Qed.

Lemma or_at_length off : forall out bs, length (or_at out off bs) = length out.
Proof.
  induction off as [|k IH]; intros out bs.
  - cbn [or_at]. apply or_bytes_length.
  - destruct out as [|x out]; cbn [or_at length]; auto.
Qed.

Lemma or_at_val off : forall out bs, (off <= length out)%nat ->
  le_val (or_at out off bs) =
  N.lor (le_val out) (2 ^ (8 * N.of_nat off) * le_val (firstn (length out - off) bs)).
Proof.
  induction off as [|k IH]; intros out bs H.
  - cbn [or_at]. rewrite or_bytes_val, Nat.sub_0_r. change (2 ^ (8 * N.of_nat 0)) with 1. now rewrite N.mul_1_l.
  - destruct out as [|x out]; [cbn in H; lia|]. cbn [or_at length Nat.sub].
    rewrite !le_val_cons, IH by (cbn in H; lia).
    replace (2 ^ (8 * N.of_nat (S k)) * le_val (firstn (length out - k) bs))
      with (0 + 2 ^ 8 * (2 ^ (8 * N.of_nat k) * le_val (firstn (length out - k) bs))).
    + rewrite lor_split by (try apply b2n_lt; reflexivity). now rewrite N.lor_0_r.
    + rewrite Nat2N.inj_succ. replace (8 * N.succ (N.of_nat k)) with (8 + 8 * N.of_nat k) by lia.
      rewrite N.pow_add_r. lia.
Qed.

Lemma le_val_le_bytes n v : le_val (le_bytes n v) = v mod 256 ^ N.of_nat n.
Proof. unfold le_bytes. rewrite le_val_be, rev_involutive, be_enc_f_eq. apply be_dec_enc. Qed.

Lemma le_bytes_length n v : length (le_bytes n v) = n.
Proof. unfold le_bytes. rewrite rev_length, be_enc_f_eq. apply be_enc_length. Qed.

Lemma le_bytes_le_val l : le_bytes (length l) (le_val l) = l.
Proof. unfold le_bytes. rewrite be_enc_f_eq, le_val_be, <- (rev_length l), be_enc_dec. apply rev_involutive. Qed.

Ltac pow_consts := repeat match goal with
  | |- context [2 ^ ?c] => let v := eval vm_compute in (2 ^ c) in progress change (2 ^ c) with v
  | H : context [2 ^ ?c] |- _ => let v := eval vm_compute in (2 ^ c) in progress change (2 ^ c) with v in H
  end.

Lemma piece_val y s k : y < 2 ^ 51 -> s <= 7 -> (k = 8%nat \/ (k = 7%nat /\ s <= 5)) ->
  le_val (firstn k (le_bytes 8 (wrap (N.shiftl y s)))) = 2 ^ s * y.
Proof.
  intros Hy Hs Hk. rewrite N.shiftl_mul_pow2.
  assert (S8 : s = 0 \/ s = 1 \/ s = 2 \/ s = 3 \/ s = 4 \/ s = 5 \/ s = 6 \/ s = 7) by lia.
  change (le_bytes 8 (wrap (y * 2 ^ s))) with (skipn 0 (le_bytes 8 (wrap (y * 2 ^ s)))).
  rewrite le_val_slice by (rewrite le_bytes_length; lia).
  rewrite le_val_le_bytes. change (256 ^ N.of_nat 0) with 1. rewrite N.div_1_r.
  change (256 ^ N.of_nat 8) with 18446744073709551616. rewrite wrap_eq.
  destruct Hk as [-> | [-> Hs5]].
  - change (256 ^ N.of_nat 8) with 18446744073709551616.
    destruct S8 as [-> | [-> | [-> | [-> | [-> | [-> | [-> | ->]]]]]]]; pow_consts; lia.
  - change (256 ^ N.of_nat 7) with 72057594037927936.
    destruct S8 as [-> | [-> | [-> | [-> | [-> | [-> | [-> | ->]]]]]]]; pow_consts; lia.
Qed.

Lemma lor_add_hi A a B : A < 2 ^ a -> N.lor A (2 ^ a * B) = A + 2 ^ a * B.
Proof. intro H. rewrite N.lor_comm, N.mul_comm, <- N.shiftl_mul_pow2, lor_shiftl_add by exact H. rewrite N.shiftl_mul_pow2. ring. Qed.

Lemma fe_bytes_spec v : u64s v -> fe_bytes v = le_bytes 32 (fe_val v mod fe_p).
Proof.
  intro U. destruct (fe_reduce_spec v U) as [Lm Ev]. unfold fe_bytes. rewrite <- Ev. clear Ev.
  destruct (fe_reduce v) as [y0 y1 y2 y3 y4]. unfold limbs_lt in Lm. cbn [l0 l1 l2 l3 l4] in *.
  destruct Lm as (Y0 & Y1 & Y2 & Y3 & Y4). change 2251799813685248 with (2 ^ 51) in *.
  match goal with |- ?o = _ => set (out := o) end.
  assert (Lo : length out = 32%nat) by (subst out; rewrite !or_at_length; reflexivity).
  rewrite <- (le_bytes_le_val out), Lo. f_equal.
  subst out. unfold limb_bytes.
  change (N.of_nat ((0 * 51) mod 8)) with 0. change (N.of_nat ((1 * 51) mod 8)) with 3.
  change (N.of_nat ((2 * 51) mod 8)) with 6. change (N.of_nat ((3 * 51) mod 8)) with 1.
  change (N.of_nat ((4 * 51) mod 8)) with 4.
  rewrite or_at_val by (rewrite !or_at_length; cbn; lia).
  rewrite or_at_val by (rewrite !or_at_length; cbn; lia).
  rewrite or_at_val by (rewrite !or_at_length; cbn; lia).
  rewrite or_at_val by (rewrite !or_at_length; cbn; lia).
  rewrite or_at_val by (cbn; lia).
  rewrite !or_at_length. change (length (repeat x00 32)) with 32%nat.
  change (32 - 0)%nat with 32%nat. change (32 - 6)%nat with 26%nat. change (32 - 12)%nat with 20%nat.
  change (32 - 19)%nat with 13%nat. change (32 - 25)%nat with 7%nat.
  assert (F : forall n (l : list byte), (8 <= n)%nat -> length l = 8%nat -> firstn n l = firstn 8 l).
  { intros n l Hn Hl. rewrite (firstn_all2 l) by lia. rewrite <- Hl. now rewrite firstn_all. }
  rewrite (F 32%nat), (F 26%nat), (F 20%nat), (F 13%nat) by (try apply le_bytes_length; lia).
  rewrite !piece_val by (try assumption; try lia; auto).
  change (le_val (repeat x00 32)) with 0. rewrite N.lor_0_l.
  change (8 * N.of_nat 0) with 0. change (8 * N.of_nat 6) with 48. change (8 * N.of_nat 12) with 96.
  change (8 * N.of_nat 19) with 152. change (8 * N.of_nat 25) with 200.
  rewrite !N.mul_assoc. change (2 ^ 0 * 2 ^ 0) with 1. change (2 ^ 48 * 2 ^ 3) with (2 ^ 51).
  change (2 ^ 96 * 2 ^ 6) with (2 ^ 102). change (2 ^ 152 * 2 ^ 1) with (2 ^ 153).
  change (2 ^ 200 * 2 ^ 4) with (2 ^ 204). rewrite N.mul_1_l.
  unfold fe_val. cbn [l0 l1 l2 l3 l4].
  rewrite (lor_add_hi y0 51) by exact Y0.
  rewrite (lor_add_hi _ 102) by (pow_consts; lia).
  rewrite (lor_add_hi _ 153) by (pow_consts; lia).
  rewrite (lor_add_hi _ 204) by (pow_consts; lia).
  reflexivity.
Qed.

Lemma fe_p_lt : fe_p < 2 ^ 255. Proof. reflexivity. Qed.

(** Equal decides equality in the field; IsNegative is the parity of the canonical representative;
    SetBytes inverts Bytes *)
Lemma fe_equal_spec a b : u64s a -> u64s b ->
  (fe_equal a b = true <-> fe_val a mod fe_p = fe_val b mod fe_p).
Proof.
  intros Ua Ub. unfold fe_equal. rewrite bytes_eqb_eq, !fe_bytes_spec by assumption.
  assert (Pnz : fe_p <> 0) by (rewrite fe_p_eq; discriminate).
  assert (B : forall x, x mod fe_p < 256 ^ N.of_nat 32).
  { intro x. apply N.lt_trans with fe_p; [apply N.mod_lt; exact Pnz | reflexivity]. }
  split.
  - intro E. apply (f_equal le_val) in E. rewrite !le_val_le_bytes in E.
    rewrite (N.mod_small (fe_val a mod fe_p)), (N.mod_small (fe_val b mod fe_p)) in E by apply B. exact E.
  - now intros ->.
Qed.

Lemma fe_is_negative_spec a : u64s a -> fe_is_negative a = (fe_val a mod fe_p) mod 2.
Proof.
  intro U. unfold fe_is_negative. rewrite fe_bytes_spec by exact U.
  set (Y := fe_val a mod fe_p).
  assert (H : b2n (hd x00 (le_bytes 32 Y)) = Y mod 256).
  { pose proof (le_val_le_bytes 32 Y) as E. pose proof (le_bytes_length 32 Y) as Ln.
    destruct (le_bytes 32 Y) as [|h t]; [discriminate|]. cbn [hd]. rewrite le_val_cons in E.
    pose proof (b2n_lt h). change (2 ^ 8) with 256 in E.
    change (256 ^ N.of_nat 32) with (256 * 256 ^ 31) in E. rewrite N.mod_mul_r in E by discriminate.
    generalize dependent (le_val t). generalize ((Y / 256) mod 256 ^ 31). intros Q T E.
    clear - E H. lia. }
  rewrite H. change 1 with (N.ones 1). rewrite N.land_ones. change (2 ^ 1) with 2.
  generalize Y. intro y. lia.
Qed.

Lemma fe_set_bytes_bytes v : u64s v -> fe_val (fe_set_bytes (fe_bytes v)) = fe_val v mod fe_p.
Proof.
  intro U. destruct (fe_set_bytes_spec (fe_bytes v)) as [_ E].
  { rewrite fe_bytes_spec by exact U. apply le_bytes_length. }
  rewrite E, fe_bytes_spec, le_val_le_bytes by exact U.
  assert (Pnz : fe_p <> 0) by (rewrite fe_p_eq; discriminate).
  pose proof (N.mod_lt (fe_val v) fe_p Pnz) as B. pose proof fe_p_lt as P.
  rewrite (N.mod_small (fe_val v mod fe_p) (256 ^ N.of_nat 32)) by (eapply N.lt_trans; [exact B|reflexivity]).
  apply N.mod_small. eapply N.lt_trans; eassumption.
Qed.

(** Mult32: multiplication by a 32-bit constant (exported by the field package, unused by the points) *)
Lemma mul51_spec a b : a < 4503599627370496 -> b < 4294967296 ->
  fst (mul51 a b) = (a * b) mod 2251799813685248 /\ snd (mul51 a b) = (a * b) / 2251799813685248.
Proof.
  intros Ha Hb. unfold mul51. cbn [fst snd].
  assert (Hp : a * b < 4503599627370496 * 4294967296) by nia.
  generalize dependent (a * b). intros p Hp.
  pose proof (shiftRightBy51_spec (mk128 (wrap p) (hi64 p))) as S. unfold shiftRightBy51, v128, wf128 in S. cbn [lo hi] in S.
  rewrite !wrap_eq, !hi64_eq in *. rewrite lo51_eq.
  split; [lia|]. rewrite S by lia. lia.
Qed.

Lemma fe_mult32_spec x y : loose x -> y < 4294967296 ->
  limbs_lt (2251799813685248 + 274877906944) (fe_mult32 x y) /\ fe_val (fe_mult32 x y) mod fe_p = (fe_val x * y) mod fe_p.
Proof.
  destruct x as [a0 a1 a2 a3 a4]. unfold loose, limbs_lt. cbn [l0 l1 l2 l3 l4]. intros (A0 & A1 & A2 & A3 & A4) Hy.
  unfold fe_mult32. cbn [l0 l1 l2 l3 l4].
  replace (fe_val {| l0 := a0; l1 := a1; l2 := a2; l3 := a3; l4 := a4 |} * y) with
    (a0 * y + 2251799813685248 * (a1 * y) + 5070602400912917605986812821504 * (a2 * y)
     + 11417981541647679048466287755595961091061972992 * (a3 * y)
     + 25711008708143844408671393477458601640355247900524685364822016 * (a4 * y))
    by (rewrite fe_val_eq; cbn [l0 l1 l2 l3 l4]; ring).
  destruct (mul51_spec a0 y A0 Hy) as [L0 H0]. destruct (mul51_spec a1 y A1 Hy) as [L1 H1].
  destruct (mul51_spec a2 y A2 Hy) as [L2 H2]. destruct (mul51_spec a3 y A3 Hy) as [L3 H3].
  destruct (mul51_spec a4 y A4 Hy) as [L4 H4].
  destruct (mul51 a0 y) as [x0lo x0hi], (mul51 a1 y) as [x1lo x1hi], (mul51 a2 y) as [x2lo x2hi],
    (mul51 a3 y) as [x3lo x3hi], (mul51 a4 y) as [x4lo x4hi]. cbn [fst snd] in *. subst.
  assert (P0 : a0 * y < 4503599627370496 * 4294967296) by nia. assert (P1 : a1 * y < 4503599627370496 * 4294967296) by nia.
  assert (P2 : a2 * y < 4503599627370496 * 4294967296) by nia. assert (P3 : a3 * y < 4503599627370496 * 4294967296) by nia.
  assert (P4 : a4 * y < 4503599627370496 * 4294967296) by nia.
  generalize dependent (a0 * y). intros p0 P0. generalize dependent (a1 * y). intros p1 P1.
  generalize dependent (a2 * y). intros p2 P2. generalize dependent (a3 * y). intros p3 P3.
  generalize dependent (a4 * y). intros p4 P4.
  rewrite (wrap_small (19 * (p4 / 2251799813685248))) by lia. rewrite !wrap_small by lia.
  cbn [l0 l1 l2 l3 l4]. split; [repeat split; lia|].
  symmetry. apply mod_of_eq with (k := p4 / 2251799813685248).
  rewrite !fe_val_eq, fe_p_eq. cbn [l0 l1 l2 l3 l4]. lia.
Qed.
