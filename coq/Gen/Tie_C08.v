(** source tie for C08: blind contexts and the index label of tokens/type3 (attester, client, issuer) *)
From Coq Require Import List NArith.
From PatVerif Require Import Base.Bytes Model.Derive Gen.Src.
Import ListNotations.
Example tie_client_blind_verify : [x00; n2b s_type3] ++ map n2b s_t3_client_blind_attester_verify = ctx_client_blind. Proof. reflexivity. Qed.
Example tie_client_blind_finalize : [x00; n2b s_type3] ++ map n2b s_t3_client_blind_attester_finalize = ctx_client_blind. Proof. reflexivity. Qed.
Example tie_client_blind_client : [x00; n2b s_type3] ++ map n2b s_t3_client_blind_client = ctx_client_blind. Proof. reflexivity. Qed.
Example tie_issuer_blind : [x00; n2b s_type3] ++ map n2b s_t3_issuer_blind = ctx_issuer_blind. Proof. reflexivity. Qed.
Example tie_index_info : map n2b s_t3_index_info = info_issuer_origin_alias. Proof. reflexivity. Qed.
