package main

import (
	"bytes"
	"encoding/binary"
	"encoding/hex"
	"encoding/json"
	"fmt"
	"os"
	"strings"

	hpke "github.com/cisco/go-hpke"
	"github.com/cloudflare/pat-go/quicwire"
	"github.com/cloudflare/pat-go/tokens"
	"github.com/cloudflare/pat-go/tokens/batched"
	"github.com/cloudflare/pat-go/tokens/type1"
	"github.com/cloudflare/pat-go/tokens/type2"
	"github.com/cloudflare/pat-go/tokens/type3"
	"github.com/cloudflare/pat-go/tokens/type5"
	"verif/harness/internal/h"
)

func init() { props["C04"] = runC04 }

func u16b(v uint16) []byte { return []byte{byte(v >> 8), byte(v)} }
func rnd(c *h.Ctx, n int) []byte {
	b := make([]byte, n)
	c.Rng.Read(b)
	return b
}
func cat(parts ...[]byte) []byte {
	var o []byte
	for _, p := range parts {
		o = append(o, p...)
	}
	return o
}
func u16pfx(b []byte) []byte { return cat(u16b(uint16(len(b))), b) }

// ---- tokens ---------------------------------------------------------------------------------
func tokenOuts(t tokens.Token, err error) [][]byte {
	if err != nil {
		return [][]byte{h.StNone}
	}
	return [][]byte{h.StOK, u16b(t.TokenType), t.Nonce, t.Context, t.KeyID, t.Authenticator}
}

func decTokenImpl(nk int, data []byte) (tokens.Token, error) {
	switch nk {
	case 48:
		return type1.UnmarshalPrivateToken(data)
	case 64:
		return type5.UnmarshalBatchedPrivateToken(data)
	default:
		if len(data)%2 == 0 {
			return type2.UnmarshalToken(data)
		}
		return type3.UnmarshalToken(data)
	}
}

func c04Tokens(c *h.Ctx) {
	for _, nk := range []int{48, 256, 64} {
		for rep := 0; rep < 3; rep++ {
			tok := tokens.Token{TokenType: uint16(c.Rng.Intn(6)), Nonce: rnd(c, 32), Context: rnd(c, 32), KeyID: rnd(c, 32), Authenticator: rnd(c, nk)}
			if rep == 2 {
				tok.TokenType = 0xffff
			}
			enc := tok.Marshal()
			c.Case("token:enc", true, "enc_token", [][]byte{u16b(tok.TokenType), tok.Nonce, tok.Context, tok.KeyID, tok.Authenticator}, [][]byte{h.StOK, enc})
			c.Case("token:auth-input", true, "auth_input", [][]byte{u16b(tok.TokenType), tok.Nonce, tok.Context, tok.KeyID, tok.Authenticator}, [][]byte{h.StOK, tok.AuthenticatorInput()})
			inputs := [][]byte{enc, cat(enc, []byte{1}), cat(enc, []byte{1, 2, 3})}
			step := 1
			if !c.Thorough() && rep > 0 {
				step = 7
			}
			for l := 0; l < len(enc); l += step {
				inputs = append(inputs, enc[:l])
			}
			for _, in := range inputs {
				t, err := decTokenImpl(nk, in)
				c.Case("token:dec", len(in) > 0, "dec_token", [][]byte{{byte(nk >> 8), byte(nk)}, in}, tokenOuts(t, err))
				if err == nil { // predicate: canonical re-encoding
					re := t.Marshal()
					t2, err2 := decTokenImpl(nk, re)
					if len(re) > len(in) || err2 != nil || !bytes.Equal(t2.Marshal(), re) {
						c.Violation("token: accepted bytes re-encode canonically", map[string]any{"nk": nk, "input": h.Hex(in)})
					}
				}
			}
		}
	}
}

// ---- challenge ------------------------------------------------------------------------------
func challengeArgs(ch tokens.TokenChallenge) [][]byte {
	a := [][]byte{u16b(ch.TokenType), []byte(ch.IssuerName), ch.RedemptionNonce}
	for _, o := range ch.OriginInfo {
		a = append(a, []byte(o))
	}
	return a
}

func decChallenge(c *h.Ctx, cat_ string, in []byte) {
	ch, err := tokens.UnmarshalTokenChallenge(in)
	if err != nil {
		c.Case(cat_, len(in) > 0, "dec_challenge", [][]byte{in}, [][]byte{h.StNone})
		return
	}
	outs := append([][]byte{h.StOK}, challengeArgs(ch)...)
	c.Case(cat_, true, "dec_challenge", [][]byte{in}, outs)
	re := ch.Marshal()
	ch2, err2 := tokens.UnmarshalTokenChallenge(re)
	if len(re) > len(in) || err2 != nil || !ch2.Equals(ch) {
		c.Violation("challenge: accepted bytes re-encode canonically to the same value", map[string]any{"input": h.Hex(in)})
	}
}

func c04Challenge(c *h.Ctx) {
	issLens := []int{0, 1, 2, 17, 255, 256, 65535, 65536}
	nonceLens := []int{0, 1, 32, 255, 256}
	origins := [][]string{nil, {""}, {"a"}, {"a", "b"}, {"", ""}, {"a,b"}, {"origin.example", "x.example", ""}, {strings.Repeat("o", 65535)}, {strings.Repeat("o", 65535), ""}}
	for _, il := range issLens {
		for _, nl := range nonceLens {
			for oi, og := range origins {
				if !c.Thorough() && il > 300 && nl > 1 && oi > 2 {
					continue
				}
				ch := tokens.TokenChallenge{TokenType: uint16(c.Rng.Intn(70000)), IssuerName: string(rnd(c, il)), RedemptionNonce: rnd(c, nl), OriginInfo: og}
				if il > 0 && il < 30 {
					ch.IssuerName = strings.Repeat("i", il)
				}
				var enc []byte
				pan, _ := h.Protect(func() { enc = ch.Marshal() })
				if pan {
					c.Case("challenge:enc-overflow", true, "enc_challenge", challengeArgs(ch), [][]byte{h.StPanic})
					continue
				}
				c.Case("challenge:enc", true, "enc_challenge", challengeArgs(ch), [][]byte{h.StOK, enc})
				decChallenge(c, "challenge:dec-of-enc", enc)
				wf := il > 0 && len(og) > 0
				for _, o := range og {
					if strings.Contains(o, ",") {
						wf = false
					}
				}
				if wf {
					got, err := tokens.UnmarshalTokenChallenge(enc)
					if err != nil || !got.Equals(ch) {
						c.Violation("challenge: decode(encode(v)) = v for well-formed v", map[string]any{"issuer_len": il, "nonce_len": nl, "origins": len(og)})
					}
				}
				if len(enc) < 80 {
					for l := 0; l < len(enc); l++ {
						decChallenge(c, "challenge:truncation", enc[:l])
					}
					decChallenge(c, "challenge:extension", cat(enc, []byte{0}))
					for i := 0; i < len(enc) && i < 12; i++ {
						m := append([]byte{}, enc...)
						m[i]++
						decChallenge(c, "challenge:length-field+1", m)
						m[i] -= 2
						decChallenge(c, "challenge:length-field-1", m)
					}
				}
			}
		}
	}
	for i := 0; i < 300; i++ {
		decChallenge(c, "challenge:random", rnd(c, c.Rng.Intn(40)))
	}
}

// ---- request object histories ---------------------------------------------------------------
type reqObj interface {
	Marshal() []byte
	Unmarshal([]byte) bool
}
type reqKind struct {
	name  string
	tag   uint16
	fresh func(sdata []byte) reqObj // nil sdata: zero object
	show  func(o reqObj) [][]byte
	good  func(c *h.Ctx) []byte // S-data of a random well-formed value
	odd   func(c *h.Ctx) []byte // S-data of a value that is not well-formed (wrong lengths)
}

func kinds() []reqKind {
	return []reqKind{
		{"hist_req1", 1, func(s []byte) reqObj {
			if s == nil {
				return new(type1.BasicPrivateTokenRequest)
			}
			return &type1.BasicPrivateTokenRequest{TokenKeyID: s[0], BlindedReq: append([]byte{}, s[1:]...)}
		}, func(o reqObj) [][]byte {
			r := o.(*type1.BasicPrivateTokenRequest)
			return [][]byte{{r.TokenKeyID}, r.BlindedReq}
		}, func(c *h.Ctx) []byte { return cat([]byte{byte(c.Rng.Intn(256))}, rnd(c, 49)) },
			func(c *h.Ctx) []byte {
				return cat([]byte{byte(c.Rng.Intn(256))}, rnd(c, []int{0, 48, 50}[c.Rng.Intn(3)]))
			}},
		{"hist_req2", 2, func(s []byte) reqObj {
			if s == nil {
				return new(type2.BasicPublicTokenRequest)
			}
			return &type2.BasicPublicTokenRequest{TokenKeyID: s[0], BlindedReq: append([]byte{}, s[1:]...)}
		}, func(o reqObj) [][]byte {
			r := o.(*type2.BasicPublicTokenRequest)
			return [][]byte{{r.TokenKeyID}, r.BlindedReq}
		}, func(c *h.Ctx) []byte { return cat([]byte{byte(c.Rng.Intn(256))}, rnd(c, 256)) },
			func(c *h.Ctx) []byte {
				return cat([]byte{byte(c.Rng.Intn(256))}, rnd(c, []int{0, 255, 257}[c.Rng.Intn(3)]))
			}},
		{"hist_req3", 3, func(s []byte) reqObj {
			if s == nil {
				return new(type3.RateLimitedTokenRequest)
			}
			rd := func() []byte {
				n := int(binary.BigEndian.Uint16(s))
				v := append([]byte{}, s[2:2+n]...)
				s = s[2+n:]
				return v
			}
			k, n, e := rd(), rd(), rd()
			return &type3.RateLimitedTokenRequest{RequestKey: k, NameKeyID: n, EncryptedTokenRequest: e, Signature: append([]byte{}, s...)}
		}, func(o reqObj) [][]byte {
			r := o.(*type3.RateLimitedTokenRequest)
			return [][]byte{r.RequestKey, r.NameKeyID, r.EncryptedTokenRequest, r.Signature}
		}, func(c *h.Ctx) []byte {
			return cat(u16pfx(rnd(c, 49)), u16pfx(rnd(c, 32)), u16pfx(rnd(c, 1+c.Rng.Intn(600))), rnd(c, 96))
		}, func(c *h.Ctx) []byte {
			return cat(u16pfx(rnd(c, 48+c.Rng.Intn(3))), u16pfx(rnd(c, 31+c.Rng.Intn(3))), u16pfx(rnd(c, c.Rng.Intn(3))), rnd(c, 95+c.Rng.Intn(3)))
		}},
		{"hist_req5", 5, func(s []byte) reqObj {
			if s == nil {
				return new(type5.BatchedPrivateTokenRequest)
			}
			r := &type5.BatchedPrivateTokenRequest{TokenKeyID: s[0], BlindedReq: [][]byte{}}
			for b := s[1:]; len(b) >= 32; b = b[32:] {
				r.BlindedReq = append(r.BlindedReq, append([]byte{}, b[:32]...))
			}
			return r
		}, func(o reqObj) [][]byte {
			r := o.(*type5.BatchedPrivateTokenRequest)
			return [][]byte{{r.TokenKeyID}, h.U64(uint64(len(r.BlindedReq))), bytes.Join(r.BlindedReq, nil)}
		}, func(c *h.Ctx) []byte {
			n := []int{0, 1, 2, 3, 5, 64, 513}[c.Rng.Intn(7)]
			return cat([]byte{byte(c.Rng.Intn(256))}, rnd(c, 32*n))
		}, func(c *h.Ctx) []byte { return cat([]byte{byte(c.Rng.Intn(256))}, rnd(c, 32*c.Rng.Intn(3))) }},
		{"hist_inner", 0xffff, func(s []byte) reqObj {
			if s == nil {
				return new(type3.InnerTokenRequest)
			}
			n := int(binary.BigEndian.Uint16(s[1:]))
			return type3.VerifNewInner(s[0], append([]byte{}, s[3:3+n]...), append([]byte{}, s[3+n:]...))
		}, func(o reqObj) [][]byte {
			k, b, p := o.(*type3.InnerTokenRequest).VerifFields()
			return [][]byte{{k}, b, p}
		}, func(c *h.Ctx) []byte {
			return cat([]byte{byte(c.Rng.Intn(256))}, u16pfx(rnd(c, 256)), rnd(c, 32*c.Rng.Intn(4)))
		}, func(c *h.Ctx) []byte {
			return cat([]byte{byte(c.Rng.Intn(256))}, u16pfx(rnd(c, 255+c.Rng.Intn(3))), rnd(c, c.Rng.Intn(40)))
		}},
	}
}

// runHist executes ops on the implementation and records the model case.
func runHist(c *h.Ctx, cat_ string, k reqKind, ops [][]byte) {
	obj := k.fresh(nil)
	var outs [][]byte
	for _, op := range ops {
		switch op[0] {
		case 'M':
			outs = append(outs, append([]byte{}, obj.Marshal()...))
		case 'U':
			var ok bool
			if pan, msg := h.Protect(func() { ok = obj.Unmarshal(op[1:]) }); pan {
				outs = append(outs, h.StPanic)
				c.Violation("request Unmarshal panics", map[string]any{"type": k.name, "input": h.Hex(op[1:]), "panic": msg})
				c.Case(cat_, true, k.name, ops, outs)
				return
			}
			if ok {
				outs = append(outs, h.StOK)
			} else {
				outs = append(outs, h.StNone)
			}
			outs = append(outs, k.show(obj)...)
			if ok { // predicate on the implementation alone
				re := obj.Marshal()
				o2 := k.fresh(nil)
				canon := canonOf(k, obj)
				if len(re) > len(op)-1 || !o2.Unmarshal(re) || !bytes.Equal(o2.Marshal(), re) || !eqFields(k.show(o2), k.show(obj)) || !bytes.Equal(re, canon) {
					c.Violation("request: after Unmarshal accepts b, Marshal returns a canonical encoding no longer than b that decodes to the same value",
						map[string]any{"type": k.name, "input": h.Hex(op[1:]), "marshal": h.Hex(re)})
				}
			}
		case 'S':
			obj = k.fresh(op[1:])
		}
	}
	c.Case(cat_, true, k.name, ops, outs)
}

// canonOf: encoding of a freshly constructed object holding the same field values
func canonOf(k reqKind, o reqObj) []byte {
	switch r := o.(type) {
	case *type1.BasicPrivateTokenRequest:
		return (&type1.BasicPrivateTokenRequest{TokenKeyID: r.TokenKeyID, BlindedReq: r.BlindedReq}).Marshal()
	case *type2.BasicPublicTokenRequest:
		return (&type2.BasicPublicTokenRequest{TokenKeyID: r.TokenKeyID, BlindedReq: r.BlindedReq}).Marshal()
	case *type3.RateLimitedTokenRequest:
		return (&type3.RateLimitedTokenRequest{RequestKey: r.RequestKey, NameKeyID: r.NameKeyID, EncryptedTokenRequest: r.EncryptedTokenRequest, Signature: r.Signature}).Marshal()
	case *type5.BatchedPrivateTokenRequest:
		return (&type5.BatchedPrivateTokenRequest{TokenKeyID: r.TokenKeyID, BlindedReq: r.BlindedReq}).Marshal()
	case *type3.InnerTokenRequest:
		a, b, c := r.VerifFields()
		return type3.VerifNewInner(a, b, c).Marshal()
	}
	return nil
}

func eqFields(a, b [][]byte) bool {
	if len(a) != len(b) {
		return false
	}
	for i := range a {
		if !bytes.Equal(a[i], b[i]) {
			return false
		}
	}
	return true
}

func opS(d []byte) []byte { return cat([]byte{'S'}, d) }
func opU(d []byte) []byte { return cat([]byte{'U'}, d) }

var opM = []byte{'M'}

func c04Requests(c *h.Ctx) {
	for _, k := range kinds() {
		// pool of values and byte strings
		var vals [][]byte
		for i := 0; i < 4; i++ {
			vals = append(vals, k.good(c))
		}
		vals = append(vals, k.odd(c), k.odd(c))
		var encs [][]byte
		for _, v := range vals {
			o := k.fresh(v)
			var e []byte
			if pan, _ := h.Protect(func() { e = append([]byte{}, o.Marshal()...) }); pan {
				continue
			}
			encs = append(encs, e)
		}
		pool := append([][]byte{}, encs...)
		for _, e := range encs[:3] {
			pool = append(pool, cat(e, []byte{0}), cat(e, []byte{1, 2, 3}), e[:len(e)-1], e[:len(e)/2], e[:3], e[:2], e[:1])
			w := append([]byte{}, e...)
			w[1] ^= 0x04
			pool = append(pool, w)
			w2 := append([]byte{}, e...)
			w2[0] = 1
			pool = append(pool, w2)
		}
		pool = append(pool, nil, rnd(c, 60))
		if k.tag == 5 { // non-minimal and inconsistent varints
			body := rnd(c, 64)
			pool = append(pool,
				cat([]byte{0, 5, 9, 0x40, 0x40}, body), cat([]byte{0, 5, 9, 0x80, 0, 0, 0x40}, body), cat([]byte{0, 5, 9, 0xc0, 0, 0, 0, 0, 0, 0, 0x40}, body),
				cat([]byte{0, 5, 9, 0x41}, body), cat([]byte{0, 5, 9, 0x3f}, body), cat([]byte{0, 5, 9, 0x21}, body), []byte{0, 5, 9}, []byte{0, 5, 9, 0}, []byte{0, 5, 9, 0x40},
				cat([]byte{0, 5, 9, 0x20}, body), cat([]byte{0, 5, 9}, quicwire.AppendVarint(nil, 1<<62-1)), cat([]byte{0, 5, 9}, quicwire.AppendVarint(nil, 1<<32)))
		}
		if k.tag == 3 {
			e := encs[0]
			noSig := e[:len(e)-96]
			pool = append(pool, noSig, e[:len(e)-1], cat(u16b(3), rnd(c, 49), rnd(c, 32), u16b(0), rnd(c, 96)), cat(u16b(3), rnd(c, 49), rnd(c, 32), u16b(5), rnd(c, 3)))
		}
		// (previous value, new bytes) pairs: S(prev) M U(new) M M
		for _, pv := range vals {
			for _, nb := range pool {
				runHist(c, "req:reuse-pairs", k, [][]byte{opS(pv), opM, opU(nb), opM, opM})
			}
		}
		for _, nb := range pool {
			runHist(c, "req:fresh-unmarshal", k, [][]byte{opU(nb), opM})
		}
		// random histories
		nh := 150
		if c.Thorough() {
			nh = 3000
		}
		for i := 0; i < nh; i++ {
			var ops [][]byte
			for j, n := 0, 1+c.Rng.Intn(7); j < n; j++ {
				switch c.Rng.Intn(5) {
				case 0:
					ops = append(ops, opS(vals[c.Rng.Intn(len(vals))]))
				case 1, 2:
					ops = append(ops, opM)
				default:
					ops = append(ops, opU(pool[c.Rng.Intn(len(pool))]))
				}
			}
			runHist(c, "req:random-history", k, ops)
		}
		// type separation: all 2^16 tags on a valid body (predicate on the implementation; sample to the model)
		if k.tag != 0xffff {
			body := encs[0][2:]
			accepted := 0
			for tag := 0; tag < 65536; tag++ {
				msg := cat(u16b(uint16(tag)), body)
				o := k.fresh(nil)
				ok := o.Unmarshal(msg)
				if ok {
					accepted++
				}
				if ok != (uint16(tag) == k.tag) {
					c.Violation("request decoder of one type rejects every other type tag (and accepts its own)", map[string]any{"decoder": k.name, "tag": tag, "accepted": ok})
				}
				if tag%509 == 0 || (tag >= int(k.tag)-2 && tag <= int(k.tag)+2) || tag&0xff == int(k.tag) || tag>>8 == int(k.tag) {
					runHist(c, "req:tag-sweep-sample", k, [][]byte{opU(msg)})
				}
			}
			c.Count("req:tag-sweep-all-65536", 65536, k.name+":tags")
		}
	}
}

// ---- encap key ------------------------------------------------------------------------------
func c04Encap(c *h.Ctx) {
	kems := []uint16{0x0010, 0x0012, 0x0020, 0x0021, 0xfffe, 0xffff, 0x0011, 0x0000, 0x0030}
	sizes := map[uint16]int{0x0010: 65, 0x0012: 133, 0x0020: 32, 0x0021: 56, 0xfffe: 378, 0xffff: 564}
	valid := func(kem uint16, pk []byte) byte {
		suite, err := hpke.AssembleCipherSuite(hpke.KEMID(kem), hpke.KDF_HKDF_SHA256, hpke.AEAD_AESGCM128)
		if err != nil {
			return 0
		}
		ok := byte(0)
		h.Protect(func() {
			if _, err := suite.KEM.DeserializePublicKey(pk); err == nil {
				ok = 1
			}
		})
		return ok
	}
	goodPK := func(kem uint16) []byte {
		suite, err := hpke.AssembleCipherSuite(hpke.KEMID(kem), hpke.KDF_HKDF_SHA256, hpke.AEAD_AESGCM128)
		if err != nil {
			return rnd(c, 32)
		}
		var pk []byte
		pan, _ := h.Protect(func() {
			_, pub, err := suite.KEM.DeriveKeyPair(rnd(c, suite.KEM.PrivateKeySize()))
			if err == nil {
				pk = suite.KEM.SerializePublicKey(pub)
			}
		})
		if pan || pk == nil {
			return rnd(c, sizes[kem])
		}
		return pk
	}
	var heldEncap [][2][]byte
	try := func(cat_ string, data []byte) {
		var k type3.EncapKey
		var err error
		pan, msg := h.Protect(func() { k, err = type3.UnmarshalEncapKey(data) })
		v := byte(0)
		if len(data) >= 3 {
			kem := binary.BigEndian.Uint16(data[1:])
			if n, ok := sizes[kem]; ok && len(data) >= 3+n {
				v = valid(kem, data[3:3+n])
			}
		}
		if pan {
			c.Case(cat_, true, "dec_encap", [][]byte{data, {v}}, [][]byte{h.StPanic})
			c.Violation("UnmarshalEncapKey panics", map[string]any{"input": h.Hex(data), "panic": msg})
			return
		}
		if err != nil {
			c.Case(cat_, len(data) > 0, "dec_encap", [][]byte{data, {v}}, [][]byte{h.StNone})
			return
		}
		id, kem, kdf, aead, pk := k.VerifFields()
		re := k.Marshal()
		if len(heldEncap) < 400 {
			heldEncap = append(heldEncap, [2][]byte{re, append([]byte{}, re...)})
		}
		c.Case(cat_, true, "dec_encap", [][]byte{data, {v}}, [][]byte{h.StOK, re, {id}, u16b(kem), pk, u16b(kdf), u16b(aead)})
		// decoding the encoding of a well-formed value returns that value: the fields are those laid out in the bytes
		if n := sizes[kem]; len(data) >= 3+n+4 && (id != data[0] || kem != binary.BigEndian.Uint16(data[1:]) || !bytes.Equal(pk, data[3:3+n]) ||
			kdf != binary.BigEndian.Uint16(data[3+n:]) || aead != binary.BigEndian.Uint16(data[5+n:])) {
			c.Violation("encap key: decoding the encoding of a well-formed value returns that value (id, KEM, public key, KDF, AEAD)", map[string]any{"input": h.Hex(data), "decoded_kdf": kdf, "decoded_aead": aead})
		}
		k2, err2 := type3.UnmarshalEncapKey(re)
		if len(re) > len(data) || err2 != nil || !bytes.Equal(k2.Marshal(), re) {
			c.Violation("encap key: accepted bytes re-encode canonically", map[string]any{"input": h.Hex(data)})
		}
	}
	for _, kem := range kems {
		pk := goodPK(kem)
		for _, kdf := range []uint16{0, 1, 2, 3, 4, 0xffff} {
			for _, aead := range []uint16{0, 1, 2, 3, 4, 0xffff} {
				enc := cat([]byte{byte(c.Rng.Intn(256))}, u16b(kem), pk, u16b(kdf), u16b(aead))
				try("encap:id-table", enc)
				if kdf == 1 && aead == 1 {
					try("encap:extended", cat(enc, []byte{9}))
					for l := 0; l < len(enc); l += 1 + len(enc)/40 {
						try("encap:truncated", enc[:l])
					}
					bad := append([]byte{}, enc...)
					bad[3] ^= 0xff
					try("encap:bad-point", bad)
					bad2 := append([]byte{}, enc...)
					bad2[len(bad2)-5] ^= 0x01
					try("encap:bad-point", bad2)
				}
			}
		}
	}
	for i := 0; i < 200; i++ {
		try("encap:random", rnd(c, c.Rng.Intn(80)))
	}
	// the encodings handed out above, after all the later ones were made: decode(encode(v)) = v needs encode(v) to stay
	// encode(v)
	for i, hp := range heldEncap {
		if !bytes.Equal(hp[0], hp[1]) {
			c.Violation("encap key: an encoding returned by Marshal changed when other keys were encoded afterwards", map[string]any{"index": i, "was": h.Hex(hp[1]), "now": h.Hex(hp[0])})
			break
		}
	}
	c.Count("encap:held-encodings", len(heldEncap), "")
}

// ---- generic batch --------------------------------------------------------------------------
func bitemsOuts(r *batched.BatchedTokenRequest) [][]byte {
	outs := [][]byte{h.StOK}
	for _, q := range r.VerifRequests() {
		switch v := q.(type) {
		case *type1.BasicPrivateTokenRequest:
			outs = append(outs, u16b(1), []byte{v.TokenKeyID}, v.BlindedReq)
		case *type2.BasicPublicTokenRequest:
			outs = append(outs, u16b(2), []byte{v.TokenKeyID}, v.BlindedReq)
		}
	}
	return outs
}

func decBatch(c *h.Ctx, cat_ string, data []byte) {
	r := new(batched.BatchedTokenRequest)
	var ok bool
	pan, msg := h.Protect(func() { ok = r.Unmarshal(data) })
	if pan {
		c.Case(cat_, true, "dec_batch", [][]byte{data}, [][]byte{h.StPanic})
		c.Violation("batched request Unmarshal panics", map[string]any{"input": h.Hex(data), "panic": msg})
		return
	}
	if !ok {
		c.Case(cat_, len(data) > 0, "dec_batch", [][]byte{data}, [][]byte{h.StNone})
		return
	}
	c.Case(cat_, true, "dec_batch", [][]byte{data}, bitemsOuts(r))
	re := r.Marshal()
	r2 := new(batched.BatchedTokenRequest)
	if len(re) > len(data) || !r2.Unmarshal(re) || !eqFields(bitemsOuts(r2), bitemsOuts(r)) || !bytes.Equal(r2.Marshal(), re) {
		c.Violation("batch request: accepted bytes re-encode canonically (no longer, same value, accepted again)", map[string]any{"input": h.Hex(data), "reencoded": h.Hex(re)})
	}
	for _, q := range r.VerifRequests() {
		if q.Type() != 1 && q.Type() != 2 {
			c.Violation("batch decoder carries only types 1 and 2", map[string]any{"input": h.Hex(data)})
		}
	}
}

func c04Batch(c *h.Ctx) {
	mk := func(ty int) (tokens.TokenRequestWithDetails, [][]byte) {
		if ty == 1 {
			r := &type1.BasicPrivateTokenRequest{TokenKeyID: byte(c.Rng.Intn(256)), BlindedReq: rnd(c, 49)}
			return r, [][]byte{u16b(1), {r.TokenKeyID}, r.BlindedReq}
		}
		r := &type2.BasicPublicTokenRequest{TokenKeyID: byte(c.Rng.Intn(256)), BlindedReq: rnd(c, 256)}
		return r, [][]byte{u16b(2), {r.TokenKeyID}, r.BlindedReq}
	}
	maxLen := 4
	if c.Thorough() {
		maxLen = 6
	}
	var sampleEnc [][]byte
	for n := 1; n <= maxLen; n++ {
		for mask := 0; mask < 1<<n; mask++ {
			var reqs []tokens.TokenRequestWithDetails
			var args [][]byte
			for i := 0; i < n; i++ {
				r, a := mk(1 + (mask>>i)&1)
				reqs = append(reqs, r)
				args = append(args, a...)
			}
			br, err := batched.BatchedClient{}.CreateTokenRequest(reqs)
			if err != nil {
				c.Violation("batched client refuses a list of type-1/2 requests", map[string]any{"n": n})
				continue
			}
			enc := br.Marshal()
			c.Case("batch:enc", true, "enc_batch", args, [][]byte{h.StOK, enc})
			decBatch(c, "batch:dec-of-enc", enc)
			r := new(batched.BatchedTokenRequest)
			if !r.Unmarshal(enc) || !eqFields(bitemsOuts(r)[1:], args) {
				c.Violation("batch request: decode(encode(l)) = l", map[string]any{"n": n, "mask": mask})
			}
			if len(sampleEnc) < 6 {
				sampleEnc = append(sampleEnc, enc)
			}
		}
	}
	// lists whose encoded length crosses the 2-byte / 4-byte varint boundary (16384) and large ones
	for _, shape := range [][2]int{{2, 60}, {2, 61}, {2, 62}, {2, 63}, {2, 64}, {2, 65}, {2, 66}, {1, 296}, {1, 300}, {1, 303}, {1, 304}, {1, 310}, {1, 315}, {1, 316}, {1, 320}, {3, 130}, {2, 300}} {
		var reqs []tokens.TokenRequestWithDetails
		var args [][]byte
		for i := 0; i < shape[1]; i++ {
			ty := shape[0]
			if ty == 3 {
				ty = 1 + i%2
			}
			r, a := mk(ty)
			reqs = append(reqs, r)
			args = append(args, a...)
		}
		br, err := batched.BatchedClient{}.CreateTokenRequest(reqs)
		if err != nil {
			c.Violation("batched client refuses a list of type-1/2 requests", map[string]any{"n": shape[1]})
			continue
		}
		enc := br.Marshal()
		c.Case("batch:enc:around-16384-bytes", true, "enc_batch", args, [][]byte{h.StOK, enc})
		decBatch(c, "batch:dec-of-enc:around-16384-bytes", enc)
		r := new(batched.BatchedTokenRequest)
		if !r.Unmarshal(enc) || !eqFields(bitemsOuts(r)[1:], args) {
			c.Violation("batch request: decode(encode(l)) = l", map[string]any{"n": shape[1], "type": shape[0], "encoded_len": len(enc)})
		}
	}
	// a request object handed out by the batch CLIENT (possibly already marshalled) reused as decode target: Marshal
	// afterwards is the canonical encoding of what was decoded, not of what the object held before
	for rep := 0; rep < 6; rep++ {
		var l1, l2 []tokens.TokenRequestWithDetails
		for i := 0; i < 1+rep%3; i++ {
			r, _ := mk(1 + (rep+i)%2)
			l1 = append(l1, r)
		}
		for i := 0; i < 1+(rep+1)%3; i++ {
			r, _ := mk(1 + (rep+i+1)%2)
			l2 = append(l2, r)
		}
		o, err1 := batched.BatchedClient{}.CreateTokenRequest(l1)
		o2, err2 := batched.BatchedClient{}.CreateTokenRequest(l2)
		if err1 != nil || err2 != nil {
			continue
		}
		if rep%2 == 0 {
			o.Marshal()
		}
		enc2 := append([]byte{}, o2.Marshal()...)
		ok := o.Unmarshal(enc2)
		c.Count("batch:client-made-object-reused-as-decode-target", 1, fmt.Sprint(rep))
		if !ok || !bytes.Equal(o.Marshal(), enc2) {
			c.Violation("batch request: Marshal after Unmarshal on a reused object (one handed out by the batch client) returns the encoding of the decoded list", map[string]any{"previous_elements": len(l1), "decoded_elements": len(l2)})
		}
	}
	for _, enc := range sampleEnc {
		_, hl := quicwire.ConsumeVarint(enc)
		body := enc[hl:]
		l := uint64(len(body))
		decBatch(c, "batch:extended", cat(enc, []byte{0, 1, 0}))
		decBatch(c, "batch:followed-by-request", cat(enc, body))
		for _, hdr := range [][]byte{{0x40 | byte(l>>8), byte(l)}, {0x80, 0, byte(l >> 8), byte(l)}, {0xc0, 0, 0, 0, 0, 0, byte(l >> 8), byte(l)}} {
			if l < 16384 {
				decBatch(c, "batch:non-minimal-varint", cat(hdr, body))
			}
		}
		for _, d := range []int64{-3, -2, -1, 1, 2, 52} {
			if int64(l)+d >= 0 {
				decBatch(c, "batch:declared-length-off", cat(quicwire.AppendVarint(nil, uint64(int64(l)+d)), body))
				decBatch(c, "batch:declared-length-off", cat(quicwire.AppendVarint(nil, uint64(int64(l)+d)), body, rnd(c, 60)))
			}
		}
		step := 1 + len(enc)/60
		for i := 0; i < len(enc); i += step {
			decBatch(c, "batch:truncated", enc[:i])
		}
		for _, ty := range []uint16{0, 3, 5, 0x0100, 0x0201, 0xffff} {
			m := append([]byte{}, body...)
			binary.BigEndian.PutUint16(m, ty)
			decBatch(c, "batch:other-type-first", cat(quicwire.AppendVarint(nil, l), m))
			m2 := cat(body, u16b(ty), rnd(c, 50))
			decBatch(c, "batch:other-type-last", cat(quicwire.AppendVarint(nil, uint64(len(m2))), m2))
		}
	}
	for _, s := range [][]byte{nil, {0}, {0, 0, 0, 0}, {0x40, 0}, {0x40}, {0xc0, 0, 0, 0}, {0xff, 0xff, 0xff, 0xff, 0xff, 0xff, 0xff, 0xff}, {1, 0}, {2, 0, 1}, {3, 0, 1, 7}, {0x80, 0, 0, 0}} {
		decBatch(c, "batch:degenerate", s)
	}
	for i := 0; i < 300; i++ {
		decBatch(c, "batch:random", rnd(c, c.Rng.Intn(70)))
	}
	// responses -------------------------------------------------------------------------------
	var wantResps [][]byte // when non-nil: the entries a spec-format list was built from (absent = empty)
	decResps := func(cat_ string, data []byte) {
		var l [][]byte
		var err error
		want := wantResps
		wantResps = nil
		defer func() {
			if want == nil {
				return
			}
			ok := err == nil && len(l) == len(want)
			for i := 0; ok && i < len(l); i++ {
				ok = bytes.Equal(l[i], want[i])
			}
			if !ok {
				c.Violation("response list: decoding a well-formed list in the specified format (status 0 = absent, 1 = present, type, fixed-length response) returns its entries", map[string]any{"input": h.Hex(data[:minInt(len(data), 64)]), "entries": len(want)})
			}
		}()
		pan, msg := h.Protect(func() { l, err = batched.UnmarshalBatchedTokenResponses(data) })
		if pan {
			c.Case(cat_, true, "dec_resps", [][]byte{data}, [][]byte{h.StPanic})
			c.Violation("UnmarshalBatchedTokenResponses panics", map[string]any{"input": h.Hex(data), "panic": msg})
			return
		}
		if err != nil {
			c.Case(cat_, len(data) > 0, "dec_resps", [][]byte{data}, [][]byte{h.StNone})
			return
		}
		c.Case(cat_, true, "dec_resps", [][]byte{data}, append([][]byte{h.StOK, h.U64(uint64(len(l)))}, l...))
	}
	items := [][]byte{{0}, cat([]byte{1, 0, 1}, rnd(c, 145)), cat([]byte{1, 0, 2}, rnd(c, 256))}
	maxR := 3
	if c.Thorough() {
		maxR = 5
	}
	var total int
	for n := 0; n <= maxR; n++ {
		pow := 1
		for i := 0; i < n; i++ {
			pow *= 3
		}
		for code := 0; code < pow; code++ {
			var body []byte
			var typed [][]byte
			for i, x := 0, code; i < n; i, x = i+1, x/3 {
				it := items[x%3]
				body = append(body, it...)
				if x%3 == 0 {
					typed = append(typed, u16b(uint16(1+c.Rng.Intn(2))), nil)
				} else {
					typed = append(typed, it[1:3], it[3:])
				}
			}
			enc := cat(quicwire.AppendVarint(nil, uint64(len(body))), body)
			c.Case("resps:enc-typed", true, "enc_resps_typed", typed, [][]byte{h.StOK, enc})
			wantResps = [][]byte{}
			for i := 1; i < len(typed); i += 2 {
				wantResps = append(wantResps, append([]byte{}, typed[i]...))
			}
			decResps("resps:well-formed", enc)
			total++
			if total%5 == 0 {
				decResps("resps:extended", cat(enc, []byte{0}))
				if len(body) > 0 {
					decResps("resps:declared-length-off", cat(quicwire.AppendVarint(nil, uint64(len(body)-1)), body))
					decResps("resps:declared-length-off", cat(quicwire.AppendVarint(nil, uint64(len(body)+1)), body))
					decResps("resps:truncated", enc[:len(enc)-1])
					if len(body) < 16384 {
						decResps("resps:non-minimal-varint", cat([]byte{0x80, 0, byte(len(body) >> 8), byte(len(body))}, body))
					}
				}
			}
		}
	}
	for _, s := range [][]byte{nil, {0}, {1, 2}, {1, 1}, {3, 1, 0, 1}, {4, 1, 0, 3, 0}, {1, 0}, {2, 0, 0}, {0x40}, {0xff, 0xff, 0xff, 0xff, 0xff, 0xff, 0xff, 0xff}, {0x40, 1, 0}} {
		decResps("resps:degenerate", s)
	}
	for i := 0; i < 200; i++ {
		decResps("resps:random", rnd(c, c.Rng.Intn(30)))
	}
}

// ---- Rust interop vectors as independent encodings ----------------------------------------------
func c04Vectors(c *h.Ctx) {
	raw, err := os.ReadFile(repoDir() + "/tokens/batched/batched-issuance-test-vectors-rust.json")
	if err != nil {
		c.Notes["rust_vectors"] = "not found"
		return
	}
	var vs []struct {
		TokenRequest  string `json:"token_request"`
		TokenResponse string `json:"token_response"`
	}
	json.Unmarshal(raw, &vs)
	for _, v := range vs {
		req, _ := hex.DecodeString(v.TokenRequest)
		resp, _ := hex.DecodeString(v.TokenResponse)
		decBatch(c, "vectors:rust-request", req)
		r := new(batched.BatchedTokenRequest)
		if !r.Unmarshal(req) || !bytes.Equal(r.Marshal(), req) {
			c.Violation("Rust vector request decodes and re-encodes byte for byte", map[string]any{"request": v.TokenRequest[:40]})
		}
		l, err := batched.UnmarshalBatchedTokenResponses(resp)
		c.Case("vectors:rust-response", true, "dec_resps", [][]byte{resp}, func() [][]byte {
			if err != nil {
				return [][]byte{h.StNone}
			}
			return append([][]byte{h.StOK, h.U64(uint64(len(l)))}, l...)
		}())
	}
	c.Notes["rust_vectors"] = len(vs)
}

func runC04(c *h.Ctx) {
	c04Tokens(c)
	c04Challenge(c)
	c04Requests(c)
	c04Encap(c)
	c04Batch(c)
	c04Vectors(c)
}
