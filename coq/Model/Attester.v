(** Attester.v — the rate-limited attester's per-client bookkeeping
    (tokens/type3/attester.go: the cache use of VerifyRequest and FinalizeIndex).
    Maps are total functions [key -> option _]; keys are byte strings (hex strings in Go). *)
From PatVerif Require Export Base.GoSem.

Definition key := list byte.
Definition fmap (V : Type) := key -> option V.
Definition fempty {V} : fmap V := fun _ => None.
Definition fset {V} (m : fmap V) (k : key) (v : V) : fmap V :=
  fun k' => if bytes_eqb k' k then Some v else m k'.

(** ClientState: originIndices (anon origin id -> index), clientIndices (index -> anon origin id).
    originCounts is never touched by the code. *)
Record cstate := { originIndices : fmap key; clientIndices : fmap key }.
Definition fresh_cstate : cstate := {| originIndices := fempty; clientIndices := fempty |}.

(** the cache: client id -> state *)
Definition cache := fmap cstate.

Inductive op :=
| Register (c : key)                      (* a VerifyRequest call that passed every check for client c *)
| Finalize (c : key) (idx : key) (anon : key).   (* FinalizeIndex reaching the bookkeeping with computed index idx *)

Inductive out := Registered | Accept (idx : key) | Reject.

(** VerifyRequest, after its checks: Get; if absent, Put a fresh state *)
Definition register (s : cache) (c : key) : cache :=
  match s c with Some _ => s | None => fset s c fresh_cstate end.

(** FinalizeIndex from "Look up per-client cached state" on.  The maps are mutated in place in Go
    (the state is shared through the pointer held by the cache), so the new state is written back. *)
Definition finalize (s : cache) (c idx anon : key) : cache * out :=
  match s c with
  | None => (s, Reject)                                   (* Unknown client ID *)
  | Some st =>
    let oi := match originIndices st anon with
              | Some _ => originIndices st
              | None => fset (originIndices st) anon idx  (* newly visited origin *)
              end in
    match clientIndices st idx with
    | Some expected =>
      if negb (bytes_eqb expected anon)
      then (fset s c {| originIndices := oi; clientIndices := clientIndices st |}, Reject)
      else (fset s c {| originIndices := oi; clientIndices := fset (clientIndices st) idx anon |}, Accept idx)
    | None =>
      (fset s c {| originIndices := oi; clientIndices := fset (clientIndices st) idx anon |}, Accept idx)
    end
  end.

Definition step (s : cache) (o : op) : cache * out :=
  match o with
  | Register c => (register s c, Registered)
  | Finalize c idx anon => finalize s c idx anon
  end.

Definition init : cache := fempty.
Definition final (s : cache) (h : list op) : cache := fold_left (fun s o => fst (step s o)) h s.
Definition outcome (h : list op) (o : op) : out := snd (step (final init h) o).

(** observables of a state *)
Definition registered (s : cache) (c : key) : bool := match s c with Some _ => true | None => false end.
Definition bound (s : cache) (c idx : key) : option key :=
  match s c with Some st => clientIndices st idx | None => None end.

(** "accepted in history h": some call Finalize c idx anon in h was answered Accept *)
Definition accepted (h : list op) (c idx anon : key) : Prop :=
  exists p1 p2, h = p1 ++ Finalize c idx anon :: p2 /\ outcome p1 (Finalize c idx anon) = Accept idx.
