(** C09 — attester origin bookkeeping stays one-to-one over every request history.
    [h] ranges over all finite sequences of Register / Finalize operations from any mix of clients;
    [outcome h o] is the attester's answer to [o] after history [h];
    [accepted h c i a]: some call Finalize c i a inside [h] was answered Accept. *)
From PatVerif Require Import Model.Attester Proofs.AttesterP.

(** never two different anonymous origin IDs accepted for one issuer origin ID of one client *)
Theorem no_two_anon : forall h c i a a', accepted h c i a -> accepted h c i a' -> a = a'.
Proof. exact no_two_anon_l. Qed.
Print Assumptions no_two_anon.

(** a call is rejected only for an unverified client or a conflicting earlier accepted binding ... *)
Theorem reject_only_if : forall h c i a, outcome h (Finalize c i a) = Reject ->
  ~ In (Register c) h \/ exists a', a' <> a /\ accepted h c i a'.
Proof. exact reject_only_if_l. Qed.
Print Assumptions reject_only_if.

(** ... so repeats of accepted pairs and still-unbound issuer origin IDs are always accepted *)
Theorem accept_if : forall h c i a, In (Register c) h -> (forall a', accepted h c i a' -> a' = a) ->
  outcome h (Finalize c i a) = Accept i.
Proof. exact accept_if_l. Qed.
Print Assumptions accept_if.

(** every client without a verified request is refused *)
Theorem unregistered_refused : forall h c i a, ~ In (Register c) h -> outcome h (Finalize c i a) = Reject.
Proof. exact unregistered_refused_l. Qed.
Print Assumptions unregistered_refused.

(** a rejected call changes no binding and no registration *)
Theorem reject_preserves : forall s c i a s', step s (Finalize c i a) = (s', Reject) ->
  (forall c' i', bound s' c' i' = bound s c' i') /\ (forall c', registered s' c' = registered s c').
Proof. exact reject_preserves_l. Qed.
Print Assumptions reject_preserves.

Theorem rejected_call_keeps_bindings : forall h c i a c' i' a',
  outcome h (Finalize c i a) = Reject -> accepted h c' i' a' ->
  bound (final init (h ++ [Finalize c i a])) c' i' = Some a'.
Proof. exact rejected_call_keeps_bindings_l. Qed.
Print Assumptions rejected_call_keeps_bindings.
