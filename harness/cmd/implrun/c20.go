package main

import (
	"bytes"
	"fmt"

	"github.com/cloudflare/pat-go/tokens/type3"
	"verif/harness/internal/h"
)

func init() { props["C20"] = runC20 }

func nameOfLen(c *h.Ctx, n int, pattern int) []byte {
	b := make([]byte, n)
	for i := range b {
		b[i] = byte(1 + c.Rng.Intn(255))
	}
	switch pattern {
	case 1: // interior zeros
		for i := 0; i+1 < n; i += 3 {
			b[i] = 0
		}
	case 2: // zero run just before the last byte
		for i := n - 2; i >= 0 && i >= n-5; i-- {
			b[i] = 0
		}
	case 3: // ends in zero: outside the property's quantifier, compared model<->impl only
		if n > 0 {
			b[n-1] = 0
		}
	}
	return b
}

func runC20(c *h.Ctx) {
	maxLen := 200
	if c.Thorough() {
		maxLen = 4100
	}
	// 1. pad / unpad through the hooks, every length ------------------------------------------------
	for n := 0; n <= maxLen; n++ {
		for pat := 0; pat < 4; pat++ {
			name := nameOfLen(c, n, pat)
			var padded []byte
			var back string
			pan, msg := h.Protect(func() {
				padded = type3.VerifPadOriginName(string(name))
				back = type3.VerifUnpadOriginName(padded)
			})
			if pan {
				c.Violation("padding panics", map[string]any{"len": n, "panic": msg})
				continue
			}
			c.Case("pad:every-length", true, "pad", [][]byte{name}, [][]byte{h.StOK, padded})
			c.Case("unpad:of-padded", true, "unpad", [][]byte{padded}, [][]byte{h.StOK, []byte(back)})
			blocksWant := (n + 31) / 32
			if blocksWant == 0 {
				blocksWant = 1
			}
			if len(padded) != 32*blocksWant {
				c.Violation("padded length is 32 x number of blocks needed (one block for the empty name)", map[string]any{"len": n, "padded_len": len(padded)})
			}
			if pat != 3 && !bytes.Equal([]byte(back), name) {
				c.Violation("a name not ending in a zero byte is recovered exactly", map[string]any{"name": h.Hex(name), "recovered": h.Hex([]byte(back))})
			}
		}
	}
	for i := 0; i < 300; i++ { // unpad on arbitrary plaintexts (what a malicious client may encrypt)
		p := rnd(c, c.Rng.Intn(70))
		for j := len(p) - c.Rng.Intn(5); j >= 0 && j < len(p); j++ {
			p[j] = 0
		}
		c.Case("unpad:arbitrary", len(p) > 0, "unpad", [][]byte{p}, [][]byte{h.StOK, []byte(type3.VerifUnpadOriginName(p))})
	}
	// 2. end to end: wire length and origin lookup --------------------------------------------------
	client := type3.NewRateLimitedClientFromSecret(rnd(c, 48))
	lens := []int{0, 1, 2, 30, 31, 32, 33, 34, 63, 64, 65, 95, 96, 97, 127, 128, 129}
	if c.Thorough() {
		for _, m := range []int{256, 512, 1024, 1056, 2048, 4096} {
			lens = append(lens, m-1, m, m+1)
		}
	}
	for _, n := range lens {
		for pat := 0; pat < 3; pat++ {
			name := nameOfLen(c, n, pat)
			// near-miss names
			var near [][]byte
			if n > 0 {
				near = append(near, name[:n-1])
				l := append([]byte{}, name...)
				l[n-1] ^= 0x01
				if l[n-1] == 0 {
					l[n-1] = 2
				}
				near = append(near, l)
			}
			near = append(near, append(append([]byte{}, name...), '0'), append(append([]byte{}, name...), 0, 1))
			regSets := [][][]byte{{name}, near, append(append([][]byte{}, near...), name), {}}
			for ri, reg := range regSets {
				origins := map[string][]byte{}
				for _, r := range reg {
					origins[string(r)] = rnd(c, 48)
				}
				env := newT3(c, 0, rnd(c, 32), origins)
				st, err := env.request(client, rnd(c, 40), rnd(c, 32), rnd(c, 48), string(name))
				if err != nil {
					c.Violation("honest rate-limited request creation fails", map[string]any{"len": n, "err": err.Error()})
					continue
				}
				wire := st.Request().Marshal()
				if ri == 0 {
					c.Case("wire-len", true, "wire_len", [][]byte{h.U64(uint64(n))}, [][]byte{h.StOK, h.U64(uint64(len(wire)))})
				}
				var everr error
				pan, msg := h.Protect(func() { _, _, everr = env.issuer.Evaluate(wire) })
				if pan {
					c.Violation("issuer Evaluate panics on an honest request", map[string]any{"len": n, "panic": msg})
					continue
				}
				servedImpl := everr == nil
				st2 := h.StNone
				if servedImpl {
					st2 = h.StOK
				}
				c.Case("lookup:registered-sets", true, "served", append([][]byte{name}, reg...), [][]byte{st2})
				want := false
				for _, r := range reg {
					if bytes.Equal(r, name) {
						want = true
					}
				}
				if servedImpl != want {
					c.Violation("a request is served exactly when its own origin name is registered", map[string]any{"name": h.Hex(name), "registered": len(reg), "served": servedImpl})
				}
			}
		}
	}
	// host-name shaped origins: each registered alone, together with its look-alikes, and only its look-alikes
	shapes := []string{"origin.example", "origin.example.", "Origin.Example", "ORIGIN.EXAMPLE", " origin.example", "origin.example ", "a..b", ".", "..",
		"*.example", "origin.example:443", "https://origin.example/", "xn--bcher-kva.example", "origin.example,other.example", "www.origin.example", "origin.example.com"}
	for si, sh := range shapes {
		var others [][]byte
		for sj, o := range shapes {
			if sj != si {
				others = append(others, []byte(o))
			}
		}
		for ri, reg := range [][][]byte{{[]byte(sh)}, others, append(append([][]byte{}, others...), []byte(sh))} {
			origins := map[string][]byte{}
			for _, r := range reg {
				origins[string(r)] = rnd(c, 48)
			}
			env := newT3(c, 0, rnd(c, 32), origins)
			st, err := env.request(client, rnd(c, 12), rnd(c, 32), rnd(c, 48), sh)
			if err != nil {
				c.Violation("honest rate-limited request creation fails", map[string]any{"name": sh, "err": err.Error()})
				continue
			}
			var everr error
			pan, msg := h.Protect(func() { _, _, everr = env.issuer.Evaluate(st.Request().Marshal()) })
			if pan {
				c.Violation("issuer Evaluate panics on an honest request", map[string]any{"name": sh, "panic": msg})
				continue
			}
			st2 := h.StNone
			if everr == nil {
				st2 = h.StOK
			}
			c.Case("lookup:host-name-shapes", true, "served", append([][]byte{[]byte(sh)}, reg...), [][]byte{st2})
			if (everr == nil) != (ri != 1) {
				c.Violation("a request is served exactly when its own origin name is registered (host-name shaped names and their look-alikes)", map[string]any{"name": sh, "registered_set": ri, "served": everr == nil})
			}
		}
	}
	// names needing the same number of blocks give equal wire lengths (implementation alone)
	env := newT3(c, 0, rnd(c, 32), map[string][]byte{})
	byBlocks := map[int]int{}
	for n := 0; n <= 130; n++ {
		st, err := env.request(client, nil, rnd(c, 32), rnd(c, 48), string(nameOfLen(c, n, 0)))
		if err != nil {
			continue
		}
		l := len(st.Request().Marshal())
		b := (n + 31) / 32
		if b == 0 {
			b = 1
		}
		if prev, ok := byBlocks[b]; ok && prev != l {
			c.Violation("names needing the same number of 32-byte blocks give equal request lengths", map[string]any{"len": n, "wire": l, "other": prev})
		}
		byBlocks[b] = l
		c.Count("wire-len:bucket-sweep", 1, "")
	}
	// ... and the length does not depend on what was requested BEFORE (descending and shuffled orders, other client
	// objects in between): the sweep above goes upwards, which hides a buffer that only ever grows
	{
		lens := []int{200, 1, 129, 0, 96, 33, 64, 32, 5, 224, 31, 97, 65, 1, 160, 2}
		for round := 0; round < 3; round++ {
			for _, n := range lens {
				cl := client
				if round == 1 {
					cl = type3.NewRateLimitedClientFromSecret(rnd(c, 48))
				}
				st, err := env.request(cl, nil, rnd(c, 32), rnd(c, 48), string(nameOfLen(c, n, 0)))
				if err != nil {
					continue
				}
				l := len(st.Request().Marshal())
				b := (n + 31) / 32
				if b == 0 {
					b = 1
				}
				c.Count("wire-len:history-independence", 1, fmt.Sprint(round, n))
				if prev, ok := byBlocks[b]; ok && prev != l {
					c.Violation("the request length depends on the origin name only through its number of 32-byte blocks, whatever was requested before", map[string]any{"len": n, "wire": l, "expected": prev, "round": round})
				}
			}
		}
	}
	// the same sweep under name keys with every supported KDF / AEAD (as a peer may publish them): the bucket size is 32
	// bytes whatever the HPKE suite; the request grows by exactly 32 bytes per block
	pkBytes := env.nameKey.Marshal()
	if len(pkBytes) == 1+2+32+4 {
		for _, kdf := range []uint16{1, 2, 3} {
			for _, aead := range []uint16{1, 2, 3} {
				encap := cat(pkBytes[:35], u16b(kdf), u16b(aead))
				nk, err := type3.UnmarshalEncapKey(encap)
				if err != nil {
					continue
				}
				base := -1
				for _, n := range []int{0, 1, 31, 32, 33, 47, 48, 49, 63, 64, 65, 95, 96, 97, 128, 129} {
					var st type3.RateLimitedTokenRequestState
					var err error
					pan, _ := h.Protect(func() {
						st, err = client.CreateTokenRequest(nil, rnd(c, 32), rnd(c, 48), env.tokenKeyID, env.issuer.TokenKey(), string(nameOfLen(c, n, 0)), nk)
					})
					c.Count("wire-len:other-hpke-suites", 1, fmt.Sprint(kdf, aead, n))
					if pan || err != nil {
						continue
					}
					l := len(st.Request().Marshal())
					b := (n + 31) / 32
					if b == 0 {
						b = 1
					}
					if base < 0 {
						base = l - 32*b
					}
					if l != base+32*b {
						c.Violation("the request length depends on the origin name only through its number of 32-byte blocks, under every HPKE suite of the name key", map[string]any{"kdf": kdf, "aead": aead, "name_len": n, "wire": l, "want": base + 32*b})
					}
				}
			}
		}
	}
}
