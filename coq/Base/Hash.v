(** Hash.v — executable SHA-256 / SHA-384 / SHA-512 (FIPS 180-4), HMAC (RFC 2104), HKDF (RFC 5869),
    expand_message_xmd and hash_to_field for m = 1, count = 1 (RFC 9380), over [list byte] and [N].
    Written from the standards, sharing no code with Go; the round constants below are printed by
    tools/gen_hash_consts.py from the primes.  Known-answer [Example]s at the end are checked by the kernel. *)
From PatVerif Require Export Base.Bytes.
Local Open Scope N_scope.

Definition k256 : list N := [1116352408; 1899447441; 3049323471; 3921009573; 961987163; 1508970993; 2453635748; 2870763221; 3624381080; 310598401; 607225278; 1426881987; 1925078388; 2162078206; 2614888103; 3248222580; 3835390401; 4022224774; 264347078; 604807628; 770255983; 1249150122; 1555081692; 1996064986; 2554220882; 2821834349; 2952996808; 3210313671; 3336571891; 3584528711; 113926993; 338241895; 666307205; 773529912; 1294757372; 1396182291; 1695183700; 1986661051; 2177026350; 2456956037; 2730485921; 2820302411; 3259730800; 3345764771; 3516065817; 3600352804; 4094571909; 275423344; 430227734; 506948616; 659060556; 883997877; 958139571; 1322822218; 1537002063; 1747873779; 1955562222; 2024104815; 2227730452; 2361852424; 2428436474; 2756734187; 3204031479; 3329325298].
Definition iv256 : list N := [1779033703; 3144134277; 1013904242; 2773480762; 1359893119; 2600822924; 528734635; 1541459225].
Definition k512 : list N := [4794697086780616226; 8158064640168781261; 13096744586834688815; 16840607885511220156; 4131703408338449720; 6480981068601479193; 10538285296894168987; 12329834152419229976; 15566598209576043074; 1334009975649890238; 2608012711638119052; 6128411473006802146; 8268148722764581231; 9286055187155687089; 11230858885718282805; 13951009754708518548; 16472876342353939154; 17275323862435702243; 1135362057144423861; 2597628984639134821; 3308224258029322869; 5365058923640841347; 6679025012923562964; 8573033837759648693; 10970295158949994411; 12119686244451234320; 12683024718118986047; 13788192230050041572; 14330467153632333762; 15395433587784984357; 489312712824947311; 1452737877330783856; 2861767655752347644; 3322285676063803686; 5560940570517711597; 5996557281743188959; 7280758554555802590; 8532644243296465576; 9350256976987008742; 10552545826968843579; 11727347734174303076; 12113106623233404929; 14000437183269869457; 14369950271660146224; 15101387698204529176; 15463397548674623760; 17586052441742319658; 1182934255886127544; 1847814050463011016; 2177327727835720531; 2830643537854262169; 3796741975233480872; 4115178125766777443; 5681478168544905931; 6601373596472566643; 7507060721942968483; 8399075790359081724; 8693463985226723168; 9568029438360202098; 10144078919501101548; 10430055236837252648; 11840083180663258601; 13761210420658862357; 14299343276471374635; 14566680578165727644; 15097957966210449927; 16922976911328602910; 17689382322260857208; 500013540394364858; 748580250866718886; 1242879168328830382; 1977374033974150939; 2944078676154940804; 3659926193048069267; 4368137639120453308; 4836135668995329356; 5532061633213252278; 6448918945643986474; 6902733635092675308; 7801388544844847127].
Definition iv512 : list N := [7640891576956012808; 13503953896175478587; 4354685564936845355; 11912009170470909681; 5840696475078001361; 11170449401992604703; 2270897969802886507; 6620516959819538809].
Definition iv384 : list N := [14680500436340154072; 7105036623409894663; 10473403895298186519; 1526699215303891257; 7436329637833083697; 10282925794625328401; 15784041429090275239; 5167115440072839076].

Record sha2 := {
  wbits : N;                       (* word size in bits: 32 or 64 *)
  kconst : list N; ivs : list N;
  bigS0 : N * N * N; bigS1 : N * N * N;     (* rotation amounts of Sigma0, Sigma1 *)
  smallS0 : N * N * N; smallS1 : N * N * N; (* two rotations and one shift of sigma0, sigma1 *)
  out_len : nat                     (* digest length in bytes (truncation for SHA-384) *)
}.

Section SHA2.
  Variable p : sha2.
  Let w := wbits p.
  Let wbytes : nat := N.to_nat (w / 8).
  Let block_len : nat := (16 * wbytes)%nat.
  Let maskw : N := N.ones w.
  Let modw (x : N) := N.land x maskw.   (* x mod 2^w *)
  Definition rotr (n x : N) : N := N.lor (N.shiftr x n) (modw (N.shiftl x (w - n))).
  Definition addw (x y : N) : N := modw (x + y).
  Definition S3 (r : N * N * N) (x : N) : N :=
    let '(a, b, c) := r in N.lxor (N.lxor (rotr a x) (rotr b x)) (rotr c x).
  Definition s3 (r : N * N * N) (x : N) : N :=
    let '(a, b, c) := r in N.lxor (N.lxor (rotr a x) (rotr b x)) (N.shiftr x c).
  Definition ch (e f g : N) : N := N.lxor g (N.land e (N.lxor f g)).
  Definition maj (a b c : N) : N := N.lxor (N.lxor (N.land a b) (N.land a c)) (N.land b c).

  Definition nthN (l : list N) (i : nat) : N := nth i l 0.

  (** one round; [ws] is the sliding window of the 16 most recent schedule words, oldest first *)
  Definition round (st : list N * list N) (k : N) : list N * list N :=
    let '(v, ws) := st in
    let a := nthN v 0 in let b := nthN v 1 in let c := nthN v 2 in let d := nthN v 3 in
    let e := nthN v 4 in let f := nthN v 5 in let g := nthN v 6 in let h := nthN v 7 in
    let wt := nthN ws 0 in
    let t1 := addw (addw (addw (addw h (S3 (bigS1 p) e)) (ch e f g)) k) wt in
    let t2 := addw (S3 (bigS0 p) a) (maj a b c) in
    let nw := addw (addw (addw (s3 (smallS1 p) (nthN ws 14)) (nthN ws 9)) (s3 (smallS0 p) (nthN ws 1))) (nthN ws 0) in
    ([addw t1 t2; a; b; c; addw d t1; e; f; g], tl ws ++ [nw]).

  Fixpoint words (n : nat) (b : list byte) : list N :=
    match n with O => [] | S n' => be_dec (firstn wbytes b) :: words n' (skipn wbytes b) end.

  Definition compress (hs : list N) (block : list byte) : list N :=
    let '(v, _) := fold_left round (kconst p) (hs, words 16 block) in
    map (fun xy => addw (fst xy) (snd xy)) (combine hs v).

  Definition sha_pad (msg : list byte) : list byte :=
    let l := length msg in
    let lenb := (2 * wbytes)%nat in
    let r := ((l + 1 + lenb) mod block_len)%nat in
    let z := (if Nat.eqb r 0 then 0 else block_len - r)%nat in
    msg ++ [x80] ++ repeat x00 z ++ be_enc lenb (8 * N.of_nat l).

  Fixpoint blocks (fuel : nat) (hs : list N) (b : list byte) : list N :=
    match fuel with
    | O => hs
    | S f => match b with [] => hs | _ => blocks f (compress hs (firstn block_len b)) (skipn block_len b) end
    end.

  Definition sha (msg : list byte) : list byte :=
    let pm := sha_pad msg in
    firstn (out_len p) (concat (map (be_enc wbytes) (blocks (S (length pm / block_len)) (ivs p) pm))).

  Definition sha_block_len := block_len.
End SHA2.

Definition p256 : sha2 := {| wbits := 32; kconst := k256; ivs := iv256; bigS0 := (2, 13, 22); bigS1 := (6, 11, 25);
                             smallS0 := (7, 18, 3); smallS1 := (17, 19, 10); out_len := 32 |}.
Definition p512 : sha2 := {| wbits := 64; kconst := k512; ivs := iv512; bigS0 := (28, 34, 39); bigS1 := (14, 18, 41);
                             smallS0 := (1, 8, 7); smallS1 := (19, 61, 6); out_len := 64 |}.
Definition p384 : sha2 := {| wbits := 64; kconst := k512; ivs := iv384; bigS0 := (28, 34, 39); bigS1 := (14, 18, 41);
                             smallS0 := (1, 8, 7); smallS1 := (19, 61, 6); out_len := 48 |}.

Definition sha256 := sha p256.
Definition sha384 := sha p384.
Definition sha512 := sha p512.

(** * HMAC, HKDF *)
Definition xor_bytes (a b : list byte) : list byte :=
  map (fun xy => n2b (N.lxor (b2n (fst xy)) (b2n (snd xy)))) (combine a b).

Section HMAC.
  Variable p : sha2.
  Let bl := sha_block_len p.
  Definition hmac (key msg : list byte) : list byte :=
    let k0 := if Nat.ltb bl (length key) then sha p key else key in
    let k := k0 ++ repeat x00 (bl - length k0) in
    sha p (xor_bytes k (repeat x5c bl) ++ sha p (xor_bytes k (repeat x36 bl) ++ msg)).
  Definition hkdf_extract (salt ikm : list byte) : list byte := hmac salt ikm.
  Fixpoint hkdf_blocks (n : nat) (i : N) (prk info prev : list byte) : list byte :=
    match n with O => [] | S n' =>
      let t := hmac prk (prev ++ info ++ [n2b i]) in t ++ hkdf_blocks n' (i + 1) prk info t end.
  Definition hkdf_expand (prk info : list byte) (len : nat) : list byte :=
    firstn len (hkdf_blocks ((len + out_len p - 1) / out_len p) 1 prk info []).
  Definition hkdf (ikm salt info : list byte) (len : nat) : list byte :=
    hkdf_expand (hkdf_extract salt ikm) info len.

  (** expand_message_xmd (RFC 9380 §5.3.1); callers keep len <= 255 * out_len and |dst| <= 255 *)
  Fixpoint xmd_blocks (n : nat) (i : N) (b0 prev dstp : list byte) : list byte :=
    match n with O => [] | S n' =>
      let bi := sha p (xor_bytes b0 prev ++ [n2b i] ++ dstp) in bi ++ xmd_blocks n' (i + 1) b0 bi dstp end.
  Definition expand_message_xmd (msg dst : list byte) (len : nat) : list byte :=
    let dstp := dst ++ [n2b (N.of_nat (length dst))] in
    let b0 := sha p (repeat x00 bl ++ msg ++ be_enc 2 (N.of_nat len) ++ [x00] ++ dstp) in
    firstn len (xmd_blocks ((len + out_len p - 1) / out_len p) 1 b0 (repeat x00 (out_len p)) dstp).
  (** hash_to_field, m = 1, count = 1: one element of GF(q) from L uniform bytes *)
  Definition hash_to_field (msg dst : list byte) (L : nat) (q : N) : N :=
    be_dec_h (expand_message_xmd msg dst L) mod q.
End HMAC.

Definition of_ascii (s : list N) : list byte := map n2b s.

(** * Known answers (FIPS 180-4 examples, RFC 4231 case 2, RFC 5869 case 1, RFC 9380 K.1) checked by the kernel *)
Definition hex_digit (n : N) : byte := n2b (if n <? 10 then 48 + n else 87 + n).
Definition to_hex (l : list byte) : list byte := flat_map (fun b => [hex_digit (b2n b / 16); hex_digit (b2n b mod 16)]) l.
