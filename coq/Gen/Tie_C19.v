(** source tie for C19: the named constant MaxVarint *)
From Coq Require Import List NArith.
From PatVerif Require Import Model.Quicwire Gen.Src.
Import ListNotations. Open Scope N_scope.
Ltac t := vm_compute; first [reflexivity | exact I | repeat split; reflexivity].
Example tie_max : tie s_max_varint (fun v => v = max_varint). Proof. t. Qed.
(** the anonymous literals in the case clauses of AppendVarint / SizeVarint are NOT tied: a rewrite that classifies by
    bit length (limits 6, 14, 30, 62) puts other numbers at the same places without changing any threshold — an
    unnamed literal has no fixed meaning; the thresholds are decided by the correspondence runs (exhaustive below 2^20
    and at every class boundary) *)
