(** source tie for C14/C15: Ed25519 sizes and the 0x00 separator of the blinding-factor input *)
From Coq Require Import List NArith.
From PatVerif Require Import Gen.Src.
Import ListNotations. Open Scope N_scope.
Ltac t := vm_compute; first [reflexivity | exact I | repeat split; reflexivity].
Example tie_sizes : tie s_ed_sizes (fun v => v = [32; 64; 64; 32]). Proof. t. Qed.
Example tie_sep : tie s_ed_blind_sep (fun v => v = 0). Proof. t. Qed.
Example tie_sep_sign : tie s_ed_sign_blind_sep (fun v => v = 0). Proof. t. Qed.
