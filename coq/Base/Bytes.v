(** Bytes.v — bytes as [Coq.Strings.Byte.byte], numbers as [N]; big-endian digits.
    Stdlib only. *)
From Coq Require Export List NArith ZArith Lia Bool.
From Coq Require Export Strings.Byte.
From Coq Require Import ZifyN ZifyNat ZifyBool.
Export ListNotations.
Open Scope N_scope.

Ltac Zify.zify_post_hook ::= Z.div_mod_to_equations.

Definition b2n (b : byte) : N := Byte.to_N b.
Definition n2b (n : N) : byte :=
  match Byte.of_N (n mod 256) with Some b => b | None => x00 end.

Lemma b2n_lt b : b2n b < 256.
Proof. unfold b2n. pose proof (Byte.to_N_bounded b). lia. Qed.

Lemma n2b_b2n b : n2b (b2n b) = b.
Proof.
  unfold n2b, b2n. rewrite N.mod_small by (pose proof (Byte.to_N_bounded b); lia).
  now rewrite Byte.of_to_N.
Qed.

Lemma b2n_n2b n : b2n (n2b n) = n mod 256.
Proof.
  unfold n2b, b2n.
  destruct (Byte.of_N (n mod 256)) eqn:E.
  - now apply Byte.to_of_N.
  - apply Byte.of_N_None_iff in E. pose proof (N.mod_lt n 256). lia.
Qed.

Lemma b2n_inj a b : b2n a = b2n b -> a = b.
Proof. intro H. rewrite <- (n2b_b2n a), <- (n2b_b2n b). now rewrite H. Qed.

Lemma n2b_of v b : v mod 256 = b2n b -> n2b v = b.
Proof. intro H. apply b2n_inj. now rewrite b2n_n2b. Qed.

Lemma n2b_mod v : n2b (v mod 256) = n2b v.
Proof. apply b2n_inj. rewrite !b2n_n2b. now rewrite N.mod_mod. Qed.

Definition byte_eqb (a b : byte) : bool := Byte.eqb a b.
Lemma byte_eqb_eq a b : byte_eqb a b = true <-> a = b.
Proof. unfold byte_eqb. apply Byte.byte_dec_lb || idtac. split.
  - apply Byte.byte_dec_bl. - apply Byte.byte_dec_lb. Qed.

Fixpoint bytes_eqb (a b : list byte) : bool :=
  match a, b with
  | [], [] => true
  | x :: a', y :: b' => byte_eqb x y && bytes_eqb a' b'
  | _, _ => false
  end.
Lemma bytes_eqb_eq a b : bytes_eqb a b = true <-> a = b.
Proof.
  revert b; induction a as [|x a IH]; intros [|y b]; cbn; try (split; congruence).
  rewrite andb_true_iff, byte_eqb_eq, IH. split; [intros [-> ->]; reflexivity | intros H; inversion H; auto].
Qed.
Lemma bytes_eqb_refl a : bytes_eqb a a = true.
Proof. now apply bytes_eqb_eq. Qed.

(** Big-endian digits. [be_dec] by recursion on the list, most significant first. *)
Fixpoint be_dec (l : list byte) : N :=
  match l with
  | [] => 0
  | b :: t => b2n b * 256 ^ N.of_nat (length t) + be_dec t
  end.

Fixpoint be_enc (k : nat) (v : N) : list byte :=
  match k with
  | O => []
  | S k' => n2b (v / 256 ^ N.of_nat k') :: be_enc k' v
  end.

Lemma be_enc_length k v : length (be_enc k v) = k.
Proof. induction k; cbn [be_enc length]; congruence. Qed.

Lemma be_dec_lt l : be_dec l < 256 ^ N.of_nat (length l).
Proof.
  induction l as [|b t IH]; cbn [be_dec length].
  - cbn. lia.
  - rewrite Nat2N.inj_succ, N.pow_succ_r'. pose proof (b2n_lt b).
    set (P := 256 ^ N.of_nat (length t)) in *. nia.
Qed.

Lemma be_dec_enc k v : be_dec (be_enc k v) = v mod 256 ^ N.of_nat k.
Proof.
  induction k as [|k IH]; cbn [be_enc be_dec].
  - cbn. now rewrite N.mod_1_r.
  - rewrite be_enc_length, IH, b2n_n2b, Nat2N.inj_succ, N.pow_succ_r'.
    set (P := 256 ^ N.of_nat k).
    assert (HP : P <> 0) by (unfold P; apply N.pow_nonzero; lia).
    rewrite (N.mul_comm 256 P), N.mod_mul_r by lia. lia.
Qed.

Lemma be_enc_dec l : be_enc (length l) (be_dec l) = l.
Proof.
  induction l as [|b t IH]; cbn [length be_enc be_dec]; [reflexivity|].
  set (P := 256 ^ N.of_nat (length t)).
  assert (HP : P <> 0) by (unfold P; apply N.pow_nonzero; lia).
  pose proof (be_dec_lt t) as Hlt. fold P in Hlt.
  f_equal.
  - apply n2b_of. rewrite N.div_add_l by exact HP.
    rewrite (N.div_small (be_dec t) P) by exact Hlt.
    rewrite N.add_0_r. apply N.mod_small, b2n_lt.
  - transitivity (be_enc (length t) (be_dec t)); [|exact IH]. clear IH.
    (* be_enc k ignores multiples of 256^k *)
    assert (G : forall k a r, be_enc k (a * 256 ^ N.of_nat k + r) = be_enc k r).
    { clear. induction k as [|k IH]; intros a r; cbn [be_enc]; [reflexivity|].
      rewrite Nat2N.inj_succ, N.pow_succ_r'.
      set (Q := 256 ^ N.of_nat k).
      assert (HQ : Q <> 0) by (unfold Q; apply N.pow_nonzero; lia).
      f_equal.
      - apply b2n_inj. rewrite !b2n_n2b.
        replace (a * (256 * Q) + r) with ((a * 256) * Q + r) by lia.
        rewrite N.div_add_l by exact HQ.
        rewrite N.add_comm, N.mod_add by lia. reflexivity.
      - replace (a * (256 * Q) + r) with ((a * 256) * Q + r) by lia. apply IH. }
    unfold P. apply G.
Qed.

Lemma be_enc_small k v : v < 256 ^ N.of_nat k -> be_dec (be_enc k v) = v.
Proof. intro H. rewrite be_dec_enc. now apply N.mod_small. Qed.

Lemma be_enc_inj k v w :
  v < 256 ^ N.of_nat k -> w < 256 ^ N.of_nat k -> be_enc k v = be_enc k w -> v = w.
Proof. intros Hv Hw E. rewrite <- (be_enc_small k v Hv), <- (be_enc_small k w Hw). now rewrite E. Qed.

Lemma be_dec_app a b : be_dec (a ++ b) = be_dec a * 256 ^ N.of_nat (length b) + be_dec b.
Proof.
  induction a as [|x a IH]; cbn [app be_dec]; [lia|].
  rewrite IH, app_length, Nat2N.inj_add, N.pow_add_r. lia.
Qed.

(** Disjoint [lor] is addition; shifts are multiplications/divisions. *)
Lemma lor_shiftl_add a n b : b < 2 ^ n -> N.lor (N.shiftl a n) b = a * 2 ^ n + b.
Proof.
  intro Hb. rewrite N.shiftl_mul_pow2.
  assert (Hland : N.land (a * 2 ^ n) b = 0).
  { apply N.bits_inj. intro m. rewrite N.land_spec, N.bits_0.
    destruct (N.lt_ge_cases m n) as [Hm|Hm].
    - rewrite N.mul_pow2_bits_low by exact Hm. reflexivity.
    - destruct (N.eq_dec b 0) as [->|Hnz]; [now rewrite N.bits_0, andb_false_r|].
      rewrite (N.bits_above_log2 b m), andb_false_r; [reflexivity|].
      apply N.log2_lt_pow2 in Hb; lia. }
  rewrite <- N.lxor_lor by exact Hland.
  symmetry. apply N.add_nocarry_lxor. exact Hland.
Qed.

Lemma lor_shiftl_be b0 n rest :
  be_dec rest < 2 ^ n -> N.lor (N.shiftl b0 n) (be_dec rest) = b0 * 2 ^ n + be_dec rest.
Proof. apply lor_shiftl_add. Qed.

(** Linear-time variants used where the models are *run* on long strings (2048-bit moduli): Horner decoding and
    least-significant-first encoding with shifts; each is proved equal to the specification form above. *)
(** multiplication by 256 is a shift (8 constructors, not a pass over the number) and the low byte is a mask *)
Definition n2b_f (n : N) : byte :=
  match Byte.of_N (N.land n 255) with Some b => b | None => x00 end.
Lemma n2b_f_eq n : n2b_f n = n2b n.
Proof. unfold n2b_f, n2b. change 255 with (N.ones 8). now rewrite N.land_ones. Qed.
Definition be_dec_h (l : list byte) : N := fold_left (fun acc b => N.shiftl acc 8 + b2n b) l 0.
Fixpoint be_enc_acc (k : nat) (v : N) (acc : list byte) : list byte :=
  match k with O => acc | S k' => be_enc_acc k' (N.shiftr v 8) (n2b_f v :: acc) end.
Definition be_enc_f (k : nat) (v : N) : list byte := be_enc_acc k v [].

Lemma be_dec_h_gen l acc :
  fold_left (fun acc b => N.shiftl acc 8 + b2n b) l acc = acc * 256 ^ N.of_nat (length l) + be_dec l.
Proof.
  revert acc. induction l as [|b t IH]; intro acc; cbn [fold_left be_dec length].
  - cbn. lia.
  - rewrite IH, N.shiftl_mul_pow2, Nat2N.inj_succ, N.pow_succ_r'. change (2 ^ 8) with 256. lia.
Qed.
Lemma be_dec_h_eq l : be_dec_h l = be_dec l.
Proof. unfold be_dec_h. rewrite be_dec_h_gen. lia. Qed.

Lemma be_enc_snoc k v : be_enc (S k) v = be_enc k (v / 256) ++ [n2b v].
Proof.
  induction k as [|k IH].
  - cbn [be_enc app]. change (256 ^ N.of_nat 0) with 1. now rewrite N.div_1_r.
  - change (be_enc (S (S k)) v) with (n2b (v / 256 ^ N.of_nat (S k)) :: be_enc (S k) v).
    rewrite IH. cbn [be_enc app]. f_equal. f_equal.
    rewrite Nat2N.inj_succ, N.pow_succ_r', N.div_div by (try apply N.pow_nonzero; lia). reflexivity.
Qed.
Lemma be_enc_acc_eq k v acc : be_enc_acc k v acc = be_enc k v ++ acc.
Proof.
  revert v acc. induction k as [|k IH]; intros v acc; [reflexivity|].
  cbn [be_enc_acc]. rewrite IH, n2b_f_eq, N.shiftr_div_pow2, be_enc_snoc, <- app_assoc. reflexivity.
Qed.
Lemma be_enc_f_eq k v : be_enc_f k v = be_enc k v.
Proof. unfold be_enc_f. now rewrite be_enc_acc_eq, app_nil_r. Qed.

Definition repeat_byte (b : byte) (n : nat) : list byte := repeat b n.

Close Scope N_scope.
