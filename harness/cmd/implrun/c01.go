package main

import (
	"bytes"
	"crypto"
	"crypto/rsa"
	"crypto/sha512"
	"fmt"

	"github.com/cloudflare/circl/oprf"
	"github.com/cloudflare/pat-go/tokens"
	"github.com/cloudflare/pat-go/tokens/type1"
	"github.com/cloudflare/pat-go/tokens/type2"
	"github.com/cloudflare/pat-go/tokens/type3"
	"github.com/cloudflare/pat-go/tokens/type5"
	"verif/harness/internal/h"
)

func init() { props["C01"] = runC01 }

func pssOK(pub *rsa.PublicKey, input, sig []byte) bool {
	d := sha512.Sum384(input)
	return rsa.VerifyPSS(pub, crypto.SHA384, d[:], sig, &rsa.PSSOptions{SaltLength: 48, Hash: crypto.SHA384}) == nil
}

// c01Token checks the token's exact layout against the Coq-built bytes (SHA-256 in Coq) around the given authenticator.
func c01Token(c *h.Ctx, cat_ string, ttype uint16, nonce, chal, kid []byte, nk int, tok tokens.Token, det map[string]any) {
	m := tok.Marshal()
	auth := tok.Authenticator
	c.Case(cat_, true, "token_bytes", [][]byte{u16b(ttype), nonce, chal, kid, auth}, [][]byte{m})
	if tok.TokenType != ttype || !bytes.Equal(tok.Nonce, nonce) || !bytes.Equal(tok.Context, sha256Bytes(chal)) || !bytes.Equal(tok.KeyID, kid) || len(auth) != nk ||
		!bytes.Equal(m, cat(u16b(ttype), nonce, sha256Bytes(chal), kid, auth)) {
		c.Violation("the token is exactly type || nonce || SHA-256(challenge) || token-key-id || authenticator with the authenticator length of its type", det)
	}
}

// scribble overwrites buffers the caller handed to CreateTokenRequest: a client that refills one nonce / challenge
// buffer for its next request (or wipes its scratch space) before finalizing must still get the token of THIS request
func scribble(bufs ...[]byte) {
	for _, b := range bufs {
		for i := range b {
			b[i] ^= 0xa5
		}
	}
}

func clone(b []byte) []byte { return append([]byte{}, b...) }

// voprfKeyWithLastByte searches derived keys for a token key id ending in the given byte.
func voprfKeyWithLastByte(c *h.Ctx, suite oprf.Suite, last byte) *oprf.PrivateKey {
	for {
		sk, _ := oprf.DeriveKey(suite, oprf.VerifiableMode, rnd(c, 32), nil)
		pk, _ := sk.Public().MarshalBinary()
		if id := sha256Bytes(pk); id[31] == last {
			return sk
		}
	}
}

func c01Type1(c *h.Ctx, chalLens []int, nKeys int) {
	for ki := 0; ki < nKeys+2; ki++ {
		sk, _ := oprf.DeriveKey(oprf.SuiteP384, oprf.VerifiableMode, rnd(c, 32), nil)
		if ki >= nKeys { // key ids whose truncated byte is 00 / ff
			sk = voprfKeyWithLastByte(c, oprf.SuiteP384, []byte{0x00, 0xff}[ki-nKeys])
		}
		iss := type1.NewBasicPrivateIssuer(sk)
		kid := iss.TokenKeyID()
		if ki%2 == 1 {
			// the caller decodes ANOTHER key into the key object it built the issuer from (an object reused for loading
			// keys): the issuer is the issuer of the key it was constructed with
			enc, _ := sk.MarshalBinary()
			keep := new(oprf.PrivateKey)
			keep.UnmarshalBinary(oprf.SuiteP384, enc)
			otherKey, _ := oprf.DeriveKey(oprf.SuiteP384, oprf.VerifiableMode, rnd(c, 32), nil)
			oenc, _ := otherKey.MarshalBinary()
			sk.UnmarshalBinary(oprf.SuiteP384, oenc)
			sk = keep
		}
		for ci, cl := range chalLens {
			chal, nonce := rnd(c, cl), rnd(c, 32)
			det := map[string]any{"type": 1, "challenge_len": cl, "nonce": h.Hex(nonce)}
			chalA, nonceA, kidA := clone(chal), clone(nonce), clone(kid)
			st, err := type1.NewBasicPrivateClient().CreateTokenRequest(chalA, nonceA, kidA, iss.TokenKey())
			if (ci+ki)%2 == 1 {
				det["caller_buffers_overwritten_after_request"] = true
				scribble(chalA, nonceA, kidA)
			}
			if err != nil {
				c.Violation("honest request creation fails", det)
				continue
			}
			wire := st.Request().Marshal()
			dec := new(type1.BasicPrivateTokenRequest)
			if !dec.Unmarshal(wire) {
				c.Violation("the issuer cannot unmarshal an honest request", det)
				continue
			}
			resp, err := iss.Evaluate(dec)
			if err != nil {
				det["err"] = err.Error()
				c.Violation("the issuer fails on an honest request that crossed the wire", det)
				continue
			}
			tok, err := st.FinalizeToken(append([]byte{}, resp...))
			if err != nil {
				det["err"] = err.Error()
				c.Violation("the client fails to finalize an honest response", det)
				continue
			}
			c01Token(c, "type1:wire-run", 1, nonce, chal, kid, 48, tok, det)
			want, _ := oprf.NewVerifiableServer(oprf.SuiteP384, sk).FullEvaluate(cat(u16b(1), nonce, sha256Bytes(chal), kid))
			if iss.Verify(tok) != nil || !bytes.Equal(tok.Authenticator, want) {
				c.Violation("the token verifies under the issuer's key (authenticator = F(k, input))", det)
			}
		}
	}
}

func c01Type2(c *h.Ctx, chalLens []int, nKeys int) {
	special := specialRSAKeyList()
	for ki := 0; ki < nKeys+len(special); ki++ {
		key := rsaKey(ki)
		if ki >= nKeys {
			key = special[ki-nKeys] // token key ids with a boundary byte (00 / 01 / ff) where they are truncated
		}
		iss := type2.NewBasicPublicIssuer(key)
		kid := iss.TokenKeyID()
		for ci, cl := range chalLens {
			chal, nonce := rnd(c, cl), rnd(c, 32)
			det := map[string]any{"type": 2, "challenge_len": cl, "nonce": h.Hex(nonce)}
			chalA, nonceA, kidA := clone(chal), clone(nonce), clone(kid)
			st, err := type2.NewBasicPublicClient().CreateTokenRequest(chalA, nonceA, kidA, &key.PublicKey)
			if (ci+ki)%2 == 1 {
				det["caller_buffers_overwritten_after_request"] = true
				scribble(chalA, nonceA, kidA)
			}
			if err != nil {
				c.Violation("honest request creation fails", det)
				continue
			}
			dec := new(type2.BasicPublicTokenRequest)
			if !dec.Unmarshal(st.Request().Marshal()) {
				c.Violation("the issuer cannot unmarshal an honest request", det)
				continue
			}
			resp, err := iss.Evaluate(dec)
			if err != nil {
				c.Violation("the issuer fails on an honest request that crossed the wire", det)
				continue
			}
			tok, err := st.FinalizeToken(append([]byte{}, resp...))
			if err != nil {
				c.Violation("the client fails to finalize an honest response", det)
				continue
			}
			c01Token(c, "type2:wire-run", 2, nonce, chal, kid, 256, tok, det)
			if !pssOK(&key.PublicKey, cat(u16b(2), nonce, sha256Bytes(chal), kid), tok.Authenticator) {
				c.Violation("the token verifies under the issuer's key (RSASSA-PSS, SHA-384, salt 48)", det)
			}
		}
	}
}

func c01Type5(c *h.Ctx, chalLens []int, batches []int) {
	for _, last := range []int{-1, 0x00, 0xff} {
		sk, _ := oprf.DeriveKey(oprf.SuiteRistretto255, oprf.VerifiableMode, rnd(c, 32), nil)
		bs := batches
		if last >= 0 {
			sk = voprfKeyWithLastByte(c, oprf.SuiteRistretto255, byte(last))
			bs = []int{1, 3}
		}
		c01Type5Key(c, chalLens, bs, sk)
	}
}

func c01Type5Key(c *h.Ctx, chalLens []int, batches []int, sk *oprf.PrivateKey) {
	iss := type5.NewBatchedPrivateIssuer(sk)
	kid := iss.TokenKeyID()
	{
		enc, _ := sk.MarshalBinary()
		keep := new(oprf.PrivateKey)
		keep.UnmarshalBinary(oprf.SuiteRistretto255, enc)
		otherKey, _ := oprf.DeriveKey(oprf.SuiteRistretto255, oprf.VerifiableMode, rnd(c, 32), nil)
		oenc, _ := otherKey.MarshalBinary()
		sk.UnmarshalBinary(oprf.SuiteRistretto255, oenc) // the caller's key object now holds another key
		sk = keep
	}
	// ONE challenge buffer per length, refilled in place for every next request (a caller's scratch buffer)
	chalBufs := map[int][]byte{}
	for bi, n := range batches {
		cl5 := chalLens[bi%len(chalLens)]
		if bi >= len(chalLens) {
			cl5 = chalLens[2] // the same 31-byte buffer for consecutive requests
		}
		if chalBufs[cl5] == nil {
			chalBufs[cl5] = make([]byte, cl5)
		}
		copy(chalBufs[cl5], rnd(c, cl5))
		chal := clone(chalBufs[cl5])
		var nonces [][]byte
		for j := 0; j < n; j++ {
			nonces = append(nonces, rnd(c, 32))
		}
		det := map[string]any{"type": 5, "batch": n, "challenge_len": len(chal)}
		chalA, kidA := chalBufs[cl5], clone(kid) // the reused buffer itself is what the client is given
		noncesA := make([][]byte, len(nonces))
		for j := range nonces {
			noncesA[j] = clone(nonces[j])
		}
		st, err := type5.NewBatchedPrivateClient().CreateTokenRequest(chalA, noncesA, kidA, iss.TokenKey())
		if bi%2 == 1 {
			det["caller_buffers_overwritten_after_request"] = true
			scribble(kidA)
			scribble(noncesA...)
			for j := range noncesA {
				noncesA[j] = nil
			}
		}
		if err != nil {
			c.Violation("honest request creation fails", det)
			continue
		}
		dec := new(type5.BatchedPrivateTokenRequest)
		if !dec.Unmarshal(st.Request().Marshal()) {
			c.Violation("the issuer cannot unmarshal an honest request", det)
			continue
		}
		resp, err := iss.Evaluate(dec)
		if err != nil {
			det["err"] = err.Error()
			c.Violation("the issuer fails on an honest request that crossed the wire", det)
			continue
		}
		toks, err := st.FinalizeTokens(append([]byte{}, resp...))
		if err != nil || len(toks) != n {
			if err != nil {
				det["err"] = err.Error()
			}
			c.Violation("the client fails to finalize an honest response (one token per nonce)", det)
			continue
		}
		srv := oprf.NewVerifiableServer(oprf.SuiteRistretto255, sk)
		for j, tok := range toks {
			if j < 4 || j >= n-2 || c.Thorough() {
				c01Token(c, "type5:wire-run", 5, nonces[j], chal, kid, 64, tok, det)
			} else if !bytes.Equal(tok.Nonce, nonces[j]) {
				c.Violation("token i is bound to nonce i", det)
			}
			want, _ := srv.FullEvaluate(cat(u16b(5), nonces[j], sha256Bytes(chal), kid))
			if iss.Verify(tok) != nil || !bytes.Equal(tok.Authenticator, want) {
				det["index"] = j
				c.Violation("token i verifies under the issuer's key and is bound to nonce i", det)
				break
			}
		}
		tokensIndependent(c, toks, det)
		for j, tok := range toks { // still valid after the spare capacity behind each was written
			if iss.Verify(tok) != nil {
				det["index"] = j
				c.Violation("token i still verifies after the caller appended to the other tokens of the batch", det)
				break
			}
			if j > 8 && !c.Thorough() {
				break
			}
		}
		c.Count("type5:batch-size", 1, "")
	}
}

func c01Type3(c *h.Ctx, chalLens []int, nameLens []int) {
	// host-name shaped origins, registered and requested with the same spelling
	shapes := []string{"origin.example", "origin.example.", "Origin.Example", "ORIGIN.EXAMPLE", " origin.example", "origin.example ", "a..b", ".", "..",
		"*.example", "origin.example:443", "https://origin.example/", "xn--bcher-kva.example", "b\u00fccher.example", "origin.example,other.example", "origin\x00.example", "-", "0"}
	special := specialRSAKeyList()
	for ni := 0; ni < len(nameLens)+len(shapes); ni++ {
		var name string
		nl := -1
		if ni < len(nameLens) {
			nl = nameLens[ni]
			name = string(nameOfLen(c, nl, ni%2))
		} else {
			name = shapes[ni-len(nameLens)]
			nl = len(name)
		}
		env := newT3(c, ni, rnd(c, 32), map[string][]byte{name: rnd(c, 48), "other.example": rnd(c, 48)})
		if ni%3 == 0 && len(special) > 0 { // token keys whose key id has a boundary first / last byte
			env = newT3WithKey(c, special[(ni/3)%len(special)], rnd(c, 32), map[string][]byte{name: rnd(c, 48), "other.example": rnd(c, 48)})
		}
		client := type3.NewRateLimitedClientFromSecret(rnd(c, 48))
		chal, nonce := rnd(c, chalLens[ni%len(chalLens)]), rnd(c, 32)
		det := map[string]any{"type": 3, "origin_len": nl, "origin": h.Hex([]byte(name)), "challenge_len": len(chal)}
		if ni%2 == 1 { // registered through AddOrigin (library-generated index key) instead of AddOriginWithIndexKey
			env = newT3(c, ni, rnd(c, 32), map[string][]byte{"other.example": rnd(c, 48)})
			if ni%3 == 0 && len(special) > 0 {
				env = newT3WithKey(c, special[(ni/3)%len(special)], rnd(c, 32), map[string][]byte{"other.example": rnd(c, 48)})
			}
			env.issuer.AddOrigin(name)
			det["registered_with"] = "AddOrigin"
		}
		chalA, nonceA, blindA := clone(chal), clone(nonce), rnd(c, 48)
		st, err := env.request(client, chalA, nonceA, blindA, name)
		if err != nil {
			det["err"] = err.Error()
			c.Violation("honest request creation fails", det)
			continue
		}
		wire := st.Request().Marshal()
		if ni%4 >= 2 {
			det["caller_buffers_overwritten_after_request"] = true
			scribble(chalA, nonceA, blindA)
		}
		resp, _, err := env.issuer.Evaluate(wire)
		if err != nil {
			det["err"] = err.Error()
			c.Violation("the issuer fails on an honest request that crossed the wire", det)
			continue
		}
		tok, err := st.FinalizeToken(append([]byte{}, resp...))
		if err != nil {
			det["err"] = err.Error()
			c.Violation("the client fails to finalize an honest response", det)
			continue
		}
		kid := env.tokenKeyID
		c01Token(c, "type3:wire-run", 3, nonce, chal, kid, 256, tok, det)
		if !pssOK(&env.key.PublicKey, cat(u16b(3), nonce, sha256Bytes(chal), kid), tok.Authenticator) {
			c.Violation("the token verifies under the issuer's key (RSASSA-PSS, SHA-384, salt 48)", det)
		}
	}
}

// c01InFlight: several honest runs in flight at ONE issuer object — all requests evaluated first, the responses (the
// slices the issuer returned, not copies) finalized afterwards, in order and in reverse: every run must still complete.
func c01InFlight(c *h.Ctx) {
	const n = 3
	chal := rnd(c, 20)
	// type 1
	sk1, _ := oprf.DeriveKey(oprf.SuiteP384, oprf.VerifiableMode, rnd(c, 32), nil)
	iss1 := type1.NewBasicPrivateIssuer(sk1)
	// type 2
	key2 := rsaKey(0)
	iss2 := type2.NewBasicPublicIssuer(key2)
	// type 5
	sk5, _ := oprf.DeriveKey(oprf.SuiteRistretto255, oprf.VerifiableMode, rnd(c, 32), nil)
	iss5 := type5.NewBatchedPrivateIssuer(sk5)
	// type 3
	env := newT3(c, 1, rnd(c, 32), map[string][]byte{"origin.example": rnd(c, 48)})
	type run struct {
		ty    uint16
		nonce []byte
		fin   func([]byte) ([]tokens.Token, error)
		resp  []byte
		kid   []byte
		nk    int
	}
	for order := 0; order < 2; order++ {
		var runs []*run
		for i := 0; i < n; i++ {
			nonce := rnd(c, 32)
			if st, err := type1.NewBasicPrivateClient().CreateTokenRequest(chal, nonce, iss1.TokenKeyID(), iss1.TokenKey()); err == nil {
				dec := new(type1.BasicPrivateTokenRequest)
				if dec.Unmarshal(st.Request().Marshal()) {
					if resp, err := iss1.Evaluate(dec); err == nil {
						runs = append(runs, &run{1, nonce, func(b []byte) ([]tokens.Token, error) { t, e := st.FinalizeToken(b); return []tokens.Token{t}, e }, resp, iss1.TokenKeyID(), 48})
					}
				}
			}
			nonce2 := rnd(c, 32)
			if st, err := type2.NewBasicPublicClient().CreateTokenRequest(chal, nonce2, iss2.TokenKeyID(), &key2.PublicKey); err == nil {
				dec := new(type2.BasicPublicTokenRequest)
				if dec.Unmarshal(st.Request().Marshal()) {
					if resp, err := iss2.Evaluate(dec); err == nil {
						runs = append(runs, &run{2, nonce2, func(b []byte) ([]tokens.Token, error) { t, e := st.FinalizeToken(b); return []tokens.Token{t}, e }, resp, iss2.TokenKeyID(), 256})
					}
				}
			}
			nonce5 := rnd(c, 32)
			if st, err := type5.NewBatchedPrivateClient().CreateTokenRequest(chal, [][]byte{nonce5}, iss5.TokenKeyID(), iss5.TokenKey()); err == nil {
				dec := new(type5.BatchedPrivateTokenRequest)
				if dec.Unmarshal(st.Request().Marshal()) {
					if resp, err := iss5.Evaluate(dec); err == nil {
						runs = append(runs, &run{5, nonce5, func(b []byte) ([]tokens.Token, error) { return st.FinalizeTokens(b) }, resp, iss5.TokenKeyID(), 64})
					}
				}
			}
			nonce3 := rnd(c, 32)
			client := type3.NewRateLimitedClientFromSecret(rnd(c, 48))
			if st, err := env.request(client, chal, nonce3, rnd(c, 48), "origin.example"); err == nil {
				if resp, _, err := env.issuer.Evaluate(st.Request().Marshal()); err == nil {
					runs = append(runs, &run{3, nonce3, func(b []byte) ([]tokens.Token, error) { t, e := st.FinalizeToken(b); return []tokens.Token{t}, e }, resp, env.tokenKeyID, 256})
				}
			}
		}
		if len(runs) != 4*n {
			c.Violation("an honest request is refused while several are in flight at one issuer", map[string]any{"served": len(runs), "of": 4 * n})
		}
		idx := make([]int, len(runs))
		for i := range idx {
			idx[i] = i
			if order == 1 {
				idx[i] = len(runs) - 1 - i
			}
		}
		for _, i := range idx {
			r := runs[i]
			toks, err := r.fin(r.resp)
			det := map[string]any{"type": r.ty, "runs_in_flight": len(runs), "position": i, "finalized_in_reverse": order == 1}
			c.Count(fmt.Sprintf("type%d:in-flight", r.ty), 1, fmt.Sprint(order, i))
			if err != nil || len(toks) != 1 {
				if err != nil {
					det["err"] = err.Error()
				}
				c.Violation("an honest run fails to complete when other honest runs are in flight at the same issuer (responses evaluated before earlier ones are finalized)", det)
				continue
			}
			c01Token(c, fmt.Sprintf("type%d:wire-run:in-flight", r.ty), r.ty, r.nonce, chal, r.kid, r.nk, toks[0], det)
		}
	}
}

func runC01(c0 *h.Ctx) {
	chalLens := []int{0, 1, 31, 32, 33, 255, 4096}
	c0.Parallel(4, func(part int, c *h.Ctx) {
		switch part {
		case 0:
			n := 3
			if c.Thorough() {
				n = 20
			}
			c01Type1(c, chalLens, n)
		case 1:
			n := 2
			if c.Thorough() {
				n = 3
			}
			c01Type2(c, chalLens, n)
			if c.Thorough() {
				for r := 0; r < 5; r++ {
					c01Type2(c, chalLens, 3)
				}
			}
		case 2:
			batches := []int{1, 2, 3, 4, 5, 8, 16, 511, 512, 513}
			if c.Thorough() {
				batches = nil
				for n := 1; n <= 64; n++ {
					batches = append(batches, n)
				}
				batches = append(batches, 127, 128, 129, 511, 512, 513, 1023, 1024)
			}
			c01Type5(c, chalLens, batches)
		case 3:
			nameLens := []int{0, 1, 14, 31, 32, 33, 63, 64, 65, 96, 128}
			if c.Thorough() {
				for n := 0; n <= 200; n += 7 {
					nameLens = append(nameLens, n)
				}
				nameLens = append(nameLens, 255, 256, 257, 1024, 4096)
			}
			c01Type3(c, chalLens, nameLens)
			c01InFlight(c)
			c01Type3Volume(c)
		}
	})
}

// c01Type3Volume: many honest type-3 requests from one client to one issuer, each with a fresh request blind: every
// one must be accepted (the request signature's two scalars take every shape, leading zero bytes included), and the
// run must complete for a sample of them.
func c01Type3Volume(c *h.Ctx) {
	n := 320
	if c.Thorough() {
		n = 4000
	}
	name := "origin.example"
	env := newT3(c, 1, rnd(c, 32), map[string][]byte{name: rnd(c, 48)})
	client := type3.NewRateLimitedClientFromSecret(rnd(c, 48))
	short := 0
	for i := 0; i < n; i++ {
		chal, nonce := rnd(c, 32), rnd(c, 32)
		st, err := env.request(client, chal, nonce, rnd(c, 48), name)
		det := map[string]any{"type": 3, "leg": "volume", "i": i}
		if err != nil {
			det["err"] = err.Error()
			c.Violation("honest request creation fails", det)
			return
		}
		req := st.Request()
		wire := req.Marshal()
		if len(req.Signature) == 96 && (req.Signature[0] == 0 || req.Signature[48] == 0) {
			short++
		}
		resp, _, err := env.issuer.Evaluate(wire)
		if err != nil {
			det["err"], det["request"] = err.Error(), h.Hex(wire)
			c.Violation("the issuer fails on an honest request that crossed the wire", det)
			return
		}
		if i%40 == 0 {
			tok, err := st.FinalizeToken(append([]byte{}, resp...))
			if err != nil || !pssOK(&env.key.PublicKey, cat(u16b(3), nonce, sha256Bytes(chal), env.tokenKeyID), tok.Authenticator) {
				c.Violation("the client fails to finalize an honest response", det)
				return
			}
		}
	}
	c.Count("type3:volume-runs", n, "")
	c.Count("type3:volume-runs-with-a-leading-zero-signature-scalar", short, "")
}
