(** Naf.v — Scalar.nonAdjacentForm(w) of scalar.go: the 256 width-w NAF digits the variable-time double scalar
    multiplication of Verify consumes.  The Go code reads the window bits out of four uint64 words; the model reads them
    as (x / 2^pos) mod 2^w of the scalar's value (the two agree bit for bit; the harness compares the digits). *)
From Coq Require Import ZArith List.
Import ListNotations.
Open Scope Z_scope.

(** digits for the positions pos, pos+1, ... (unbounded; the first 256 - pos are the array's) *)
Fixpoint naf_from (fuel : nat) (w x pos carry : Z) : list Z :=
  match fuel with
  | O => []
  | S f =>
    if 256 <=? pos then []
    else
      let window := carry + (x / 2 ^ pos) mod 2 ^ w in
      if Z.even window then 0 :: naf_from f w x (pos + 1) carry
      else if window <? 2 ^ (w - 1)
           then window :: repeat 0 (Z.to_nat (w - 1)) ++ naf_from f w x (pos + w) 0
           else (window - 2 ^ w) :: repeat 0 (Z.to_nat (w - 1)) ++ naf_from f w x (pos + w) 1
  end.

Definition naf (w x : Z) : list Z := firstn 256 (naf_from 256 w x 0 0 ++ repeat 0 256).
