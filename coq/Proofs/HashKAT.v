(** Known-answer tests for Base/Hash.v, evaluated by the kernel's VM (tests of the reference, not theorems
    about the code): FIPS 180-4 "abc" and the 448-bit message, RFC 4231 test case 2, RFC 9380 K.1. *)
From PatVerif Require Import Base.Hash.
Require Import Coq.Strings.String Coq.Strings.Ascii.
Open Scope N_scope.
Definition s2b (s : string) : list byte := List.map (fun a => n2b (N_of_ascii a)) (list_ascii_of_string s).
Definition b2s (l : list byte) : string := string_of_list_ascii (List.map (fun b => ascii_of_N (b2n b)) l).
Definition hexs (l : list byte) := b2s (to_hex l).
Example kat_sha256_abc : hexs (sha256 (s2b "abc")) = "ba7816bf8f01cfea414140de5dae2223b00361a396177a9cb410ff61f20015ad"%string.
Proof. vm_compute. reflexivity. Qed.
Example kat_sha256_448 : hexs (sha256 (s2b "abcdbcdecdefdefgefghfghighijhijkijkljklmklmnlmnomnopnopq")) = "248d6a61d20638b8e5c026930c3e6039a33ce45964ff2167f6ecedd419db06c1"%string.
Proof. vm_compute. reflexivity. Qed.
Example kat_sha384_abc : hexs (sha384 (s2b "abc")) = "cb00753f45a35e8bb5a03d699ac65007272c32ab0eded1631a8b605a43ff5bed8086072ba1e7cc2358baeca134c825a7"%string.
Proof. vm_compute. reflexivity. Qed.
Example kat_sha512_abc : hexs (sha512 (s2b "abc")) = "ddaf35a193617abacc417349ae20413112e6fa4e89a97ea20a9eeee64b55d39a2192992a274fc1a836ba3c23a3feebbd454d4423643ce80e2a9ac94fa54ca49f"%string.
Proof. vm_compute. reflexivity. Qed.
Example kat_hmac256 : hexs (hmac p256 (s2b "Jefe") (s2b "what do ya want for nothing?")) = "5bdcc146bf60754e6a042426089575c75a003f089d2739839dec58b964ec3843"%string.
Proof. vm_compute. reflexivity. Qed.
Example kat_xmd256 : hexs (expand_message_xmd p256 (s2b "abc") (s2b "QUUX-V01-CS02-with-expander-SHA256-128") 32) = "d8ccab23b5985ccea865c6c97b6e5b8350e794e603b4b97902f53a8a0d605615"%string.
Proof. vm_compute. reflexivity. Qed.
