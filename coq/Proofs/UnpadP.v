(** UnpadP.v — the issuer's unpadding LOOP (Model/Frontends.v unpad_go: index arithmetic as in the Go code) recovers
    the name from its padding: ties the C20 theorems (about Model/Pad.v) to the function the issuer model runs. *)
From PatVerif Require Import Model.Frontends Proofs.FrontendsP Proofs.PadP.
From Coq Require Import ZifyN ZifyNat ZifyBool.

Lemma last_nonzero_app q t : forall fuel i, (i < Z.of_nat (length q))%Z ->
  last_nonzero fuel (q ++ t) i = last_nonzero fuel q i.
Proof.
  induction fuel as [|f IH]; intros i Hi; cbn [last_nonzero]; [reflexivity|].
  destruct (i <? 0)%Z eqn:E; [reflexivity|]. apply Z.ltb_ge in E.
  unfold index. rewrite nth_error_app1 by lia.
  destruct (nth_error q (Z.to_nat i)) as [b|]; cbn [bind]; [|reflexivity].
  destruct (byte_eqb b x00); cbn [negb]; [|reflexivity]. apply IH. lia.
Qed.

Lemma last_nonzero_S f p i : last_nonzero (S f) p i =
  if (i <? 0)%Z then Ok i else
  do b <- index p (Z.to_nat i); if negb (byte_eqb b x00) then Ok i else last_nonzero f p (i - 1).
Proof. reflexivity. Qed.

Lemma unpad_go_nil : unpad_go [] = Ok [].
Proof. reflexivity. Qed.

Lemma unpad_go_nonzero_end q b : b <> x00 -> unpad_go (q ++ [b]) = Ok (q ++ [b]).
Proof.
  intro Hb. unfold unpad_go. rewrite app_length. cbn [length].
  replace (Z.of_nat (length q + 1) - 1)%Z with (Z.of_nat (length q)) by lia.
  rewrite last_nonzero_S. replace (Z.of_nat (length q) <? 0)%Z with false by lia.
  unfold index. rewrite Nat2Z.id, nth_error_app2, Nat.sub_diag by lia. cbn [nth_error bind].
  replace (byte_eqb b x00) with false by (symmetry; destruct (byte_eqb b x00) eqn:E; [apply byte_eqb_eq in E; congruence|reflexivity]).
  cbn [negb bind]. replace (Z.of_nat (length q) <? 0)%Z with false by lia.
  rewrite slice_ok by (rewrite ?app_length; cbn [length]; lia).
  rewrite skipn_O. replace (Z.to_nat (Z.of_nat (length q) + 1) - 0)%nat with (length (q ++ [b])) by (rewrite app_length; cbn [length]; lia).
  now rewrite firstn_all.
Qed.

Lemma unpad_go_zero_end q : unpad_go (q ++ [x00]) = unpad_go q.
Proof.
  unfold unpad_go. rewrite app_length. cbn [length].
  replace (Z.of_nat (length q + 1) - 1)%Z with (Z.of_nat (length q)) by lia.
  replace (S (length q + 1)) with (S (S (length q))) by lia.
  rewrite (last_nonzero_S (S (length q)) (q ++ [x00])). replace (Z.of_nat (length q) <? 0)%Z with false by lia.
  unfold index at 1. rewrite Nat2Z.id, nth_error_app2, Nat.sub_diag by lia. cbn [nth_error bind].
  change (byte_eqb x00 x00) with true. cbn [negb].
  destruct (Nat.eq_dec (length q) 0) as [Hz|Hz].
  - destruct q; [reflexivity|discriminate].
  - rewrite last_nonzero_app by lia.
    destruct (last_nonzero_spec q (S (length q)) (Z.of_nat (length q) - 1) ltac:(lia) ltac:(lia) ltac:(lia)) as (j & Ej & Hj).
    rewrite Ej. cbn [bind]. destruct (j <? 0)%Z eqn:E; [reflexivity|]. apply Z.ltb_ge in E.
    rewrite !slice_ok by (rewrite ?app_length; cbn [length]; lia).
    rewrite !skipn_O. f_equal. rewrite firstn_app.
    replace (Z.to_nat (j + 1) - 0 - length q)%nat with 0%nat by lia. now rewrite firstn_O, app_nil_r.
Qed.

Lemma unpad_go_zeros q k : unpad_go (q ++ repeat x00 k) = unpad_go q.
Proof.
  induction k as [|k IH]; [now rewrite app_nil_r|].
  replace (repeat x00 (S k)) with (repeat x00 k ++ [x00]) by (clear; induction k; cbn; [reflexivity|now f_equal]).
  rewrite app_assoc, unpad_go_zero_end. exact IH.
Qed.

(** for every name that does not end in a zero byte, the issuer's loop returns exactly the name from its padding *)
Theorem unpad_go_pad_l name : ends_nonzero name -> unpad_go (pad name) = Ok name.
Proof.
  intro H. unfold pad. rewrite unpad_go_zeros. destruct H as [->|H]; [reflexivity|].
  destruct name as [|x t _] using rev_ind; [reflexivity|].
  apply unpad_go_nonzero_end. intro Z. apply H. rewrite Z. now rewrite last_last.
Qed.

(** and on every input the loop computes the same as the specification-level unpad of Model/Pad.v *)
Theorem unpad_go_eq_l p : unpad_go p = Ok (unpad p).
Proof.
  induction p as [|b q IH] using rev_ind; [reflexivity|].
  unfold unpad. rewrite rev_app_distr. cbn [rev app strip0].
  destruct (byte_eqb b x00) eqn:E.
  - apply byte_eqb_eq in E. subst b. rewrite unpad_go_zero_end. exact IH.
  - rewrite unpad_go_nonzero_end by (intro Z; subst b; discriminate).
    cbn [rev]. now rewrite rev_involutive.
Qed.
