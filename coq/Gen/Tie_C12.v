(** source tie for C12: the constants of ecdsa.hashBlind as they stand in the Go source (Gen/Src.v, regenerated on every
    run) are the ones Model/Derive.v uses. *)
From Coq Require Import List NArith.
From PatVerif Require Import Base.Bytes Model.Derive Gen.Src.
Import ListNotations.
Example tie_dst : map n2b s_ecdsa_dst = dst_ecdsa_key_blind. Proof. reflexivity. Qed.
Example tie_L : s_ecdsa_L = map (fun c => N.of_nat (curve_L c)) [1; 2; 3; 4]%N. Proof. reflexivity. Qed.
Example tie_curves : s_ecdsa_curves = [[80; 45; 50; 50; 52]; [80; 45; 50; 53; 54]; [80; 45; 51; 56; 52]; [80; 45; 53; 50; 49]]%N.  (* P-224, P-256, P-384, P-521: curve ids 1..4 *)
Proof. reflexivity. Qed.
Example tie_sep : [n2b s_ecdsa_sep] = [x00]. Proof. reflexivity. Qed.
