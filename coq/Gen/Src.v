(* GENERATED on every run by tools/gen_src.py from the Go source of the repository under check — do not edit. *)
From Coq Require Import List NArith.
Import ListNotations.
Open Scope N_scope.
(** [tie s P]: the source value, where it still stands at its place, satisfies P *)
Definition tie {A : Type} (s : option A) (P : A -> Prop) : Prop := match s with Some v => P v | None => True end.

Definition s_ecdsa_dst : option (list N) := Some [69; 67; 68; 83; 65; 32; 75; 101; 121; 32; 66; 108; 105; 110; 100]. (* 'ECDSA Key Blind' *)
Definition s_ecdsa_L : option (list N) := Some [32; 48; 72; 98].
Definition s_ecdsa_curves : option (list (list N)) := Some [[80; 45; 50; 50; 52]; [80; 45; 50; 53; 54]; [80; 45; 51; 56; 52]; [80; 45; 53; 50; 49]].
Definition s_ecdsa_sep : option N := Some 0.
Definition s_ecdsa_sign_entropy : option N := Some 32.
Definition s_t3_client_blind_attester_verify : option (list N) := Some [67; 108; 105; 101; 110; 116; 66; 108; 105; 110; 100]. (* 'ClientBlind' *)
Definition s_t3_client_blind_attester_finalize : option (list N) := Some [67; 108; 105; 101; 110; 116; 66; 108; 105; 110; 100]. (* 'ClientBlind' *)
Definition s_t3_client_blind_client : option (list N) := Some [67; 108; 105; 101; 110; 116; 66; 108; 105; 110; 100]. (* 'ClientBlind' *)
Definition s_t3_issuer_blind : option (list N) := Some [73; 115; 115; 117; 101; 114; 66; 108; 105; 110; 100]. (* 'IssuerBlind' *)
Definition s_t3_index_info : option (list N) := Some [73; 115; 115; 117; 101; 114; 79; 114; 105; 103; 105; 110; 65; 108; 105; 97; 115]. (* 'IssuerOriginAlias' *)
Definition s_t3_label_key : option (list N) := Some [107; 101; 121]. (* 'key' *)
Definition s_t3_label_nonce : option (list N) := Some [110; 111; 110; 99; 101]. (* 'nonce' *)
Definition s_t3_info_request_client : option (list N) := Some [84; 111; 107; 101; 110; 82; 101; 113; 117; 101; 115; 116]. (* 'TokenRequest' *)
Definition s_t3_info_response_client : option (list N) := Some [84; 111; 107; 101; 110; 82; 101; 115; 112; 111; 110; 115; 101]. (* 'TokenResponse' *)
Definition s_t3_info_request_issuer : option (list N) := Some [84; 111; 107; 101; 110; 82; 101; 113; 117; 101; 115; 116]. (* 'TokenRequest' *)
Definition s_t3_info_response_issuer : option (list N) := Some [84; 111; 107; 101; 110; 82; 101; 115; 112; 111; 110; 115; 101]. (* 'TokenResponse' *)
Definition s_t3_request_fields : option (list N) := Some [49; 32; 96].
Definition s_type1 : option N := Some 1.
Definition s_type2 : option N := Some 2.
Definition s_type3 : option N := Some 3.
Definition s_type5 : option N := Some 5.
Definition s_nk1 : option N := Some 48.
Definition s_ne1 : option N := Some 49.
Definition s_nk2 : option N := Some 256.
Definition s_token1_fields : option (list N) := Some [32; 32; 32].
Definition s_token2_fields : option (list N) := Some [32; 32; 32; 256].
Definition s_token3_fields : option (list N) := Some [32; 32; 32; 256].
Definition s_token5_fields : option (list N) := Some [32; 32; 32; 64].
Definition s_oid_pss : option (list N) := Some [1; 2; 840; 113549; 1; 1; 10].
Definition s_oid_sha384 : option (list N) := Some [2; 16; 840; 1; 101; 3; 4; 2; 2].
Definition s_oid_mgf1 : option (list N) := Some [1; 2; 840; 113549; 1; 1; 8].
Definition s_pss_salt : option N := Some 48.
Definition s_max_varint : option N := Some 4611686018427387903.
Definition s_ed_sizes : option (list N) := Some [32; 64; 64; 32].
Definition s_ed_blind_sep : option N := Some 0.
Definition s_ed_sign_blind_sep : option N := Some 0.
Definition s_challenge_sep_marshal : option (list N) := Some [44]. (* ',' *)
Definition s_challenge_sep_unmarshal : option (list N) := Some [44]. (* ',' *)
