(** FinalizeP.v — C02 over the byte-level client finalization models of Model/Frontends.v (fin1, fin2, fin3, fin5),
    which are the ones executed against the code by C03 and C02.  Primitives are arbitrary functions. *)
From PatVerif Require Import Model.Frontends Proofs.CodecsP.
From Coq Require Import ZifyN ZifyNat ZifyBool.
Open Scope N_scope.

Definition tok_input (ty : N) (nonce ctx keyid : list byte) : list byte := u16 ty ++ nonce ++ ctx ++ keyid.

Lemma dec_token_of_input nk ty nonce ctx keyid out t :
  ty < 65536 -> length nonce = 32%nat -> length ctx = 32%nat -> length keyid = 32%nat ->
  dec_token nk (tok_input ty nonce ctx keyid ++ out) = Some t ->
  t_type t = ty /\ t_nonce t = nonce /\ t_ctx t = ctx /\ t_keyid t = keyid /\
  auth_input t = tok_input ty nonce ctx keyid /\ length (t_auth t) = nk /\ exists tl, out = t_auth t ++ tl.
Proof.
  intros Hty Hn Hc Hk H. apply dec_token_inv in H. destruct H as [(W1 & W2 & W3 & W4 & W5) (tl & E)].
  unfold tok_input, enc_token in E. rewrite <- !app_assoc in E.
  assert (E1 : u16 ty = u16 (t_type t) /\ nonce ++ ctx ++ keyid ++ out = t_nonce t ++ t_ctx t ++ t_keyid t ++ t_auth t ++ tl).
  { unfold u16 in *. cbn [app] in E. injection E as A B C. split; [congruence|exact C]. }
  destruct E1 as [Eu Er].
  assert (app_inv : forall (a a' b b' : list byte), length a = length a' -> a ++ b = a' ++ b' -> a = a' /\ b = b').
  { intros a. induction a as [|x a IH]; intros [|y a'] b b' L X; try discriminate; [now split|].
    cbn in L, X. injection X as -> X. destruct (IH a' b b' ltac:(lia) X) as [-> ->]. now split. }
  apply app_inv in Er; [|lia]. destruct Er as [En Er].
  apply app_inv in Er; [|lia]. destruct Er as [Ec Er].
  apply app_inv in Er; [|lia]. destruct Er as [Ek Eo].
  assert (Et : t_type t = ty).
  { unfold u16 in Eu. injection Eu as A B. apply (f_equal b2n) in A, B. rewrite !b2n_n2b in A, B.
    rewrite (N.mod_small (ty / 256)), (N.mod_small (t_type t / 256)) in A by lia. lia. }
  repeat split; auto.
  - unfold auth_input, tok_input. now rewrite Et, <- En, <- Ec, <- Ek.
  - now exists tl.
Qed.

(** ** type 2 and type 3: unconditional *)
Theorem fin2_ok_implies_l rsa_finalize pss_ok ty nonce ctx keyid resp t :
  ty < 65536 -> length nonce = 32%nat -> length ctx = 32%nat -> length keyid = 32%nat ->
  fin2 rsa_finalize pss_ok (tok_input ty nonce ctx keyid) resp = Ok t ->
  pss_ok (auth_input t) (t_auth t) = true /\ auth_input t = tok_input ty nonce ctx keyid /\
  t_nonce t = nonce /\ t_ctx t = ctx /\ t_keyid t = keyid /\ t_type t = ty /\ length (t_auth t) = 256%nat.
Proof.
  intros Hty Hn Hc Hk. unfold fin2. destruct (rsa_finalize resp) as [sig|]; [|discriminate].
  destruct (dec_token 256 _) as [t'|] eqn:D; [|discriminate].
  destruct (pss_ok (auth_input t') (t_auth t')) eqn:P; [|discriminate]. intros [= <-].
  destruct (dec_token_of_input _ _ _ _ _ _ _ Hty Hn Hc Hk D) as (A & B & C & E & G & L & _). repeat split; auto.
Qed.

Theorem fin3_ok_implies_l aead_open rsa_finalize pss_ok encap ty nonce ctx keyid resp t :
  ty < 65536 -> length nonce = 32%nat -> length ctx = 32%nat -> length keyid = 32%nat ->
  fin3 aead_open rsa_finalize pss_ok encap (tok_input ty nonce ctx keyid) resp = Ok t ->
  (16 <= length resp)%nat /\
  (exists bs, aead_open (encap ++ firstn 16 resp) (skipn 16 resp) = Some bs) /\
  pss_ok (auth_input t) (t_auth t) = true /\ auth_input t = tok_input ty nonce ctx keyid /\
  t_nonce t = nonce /\ t_ctx t = ctx /\ t_keyid t = keyid /\ t_type t = ty.
Proof.
  intros Hty Hn Hc Hk. unfold fin3, response_nonce_len.
  destruct (Nat.ltb (length resp) 16) eqn:L; [discriminate|]. apply Nat.ltb_ge in L.
  unfold slice_to, slice_from. replace (Nat.ltb (length resp) 16) with false by lia. cbn [bind].
  destruct (aead_open _ _) as [bs|] eqn:A; [|discriminate]. intro H.
  destruct (fin2_ok_implies_l _ _ _ _ _ _ _ _ Hty Hn Hc Hk H) as (P & I & N1 & C & K & T & _).
  repeat split; auto. now exists bs.
Qed.

(** ** type 1: a token is output only from a response whose element and proof the OPRF client accepted *)
Theorem fin1_ok_implies_l elt_ok proof_ok finalize ty nonce ctx keyid resp t :
  ty < 65536 -> length nonce = 32%nat -> length ctx = 32%nat -> length keyid = 32%nat ->
  fin1 elt_ok proof_ok finalize (tok_input ty nonce ctx keyid) resp = Ok t ->
  (49 <= length resp)%nat /\
  exists out, finalize (firstn 49 resp) (skipn 49 resp) = Some out /\ (exists tl, out = t_auth t ++ tl) /\
              length (t_auth t) = 48%nat /\ auth_input t = tok_input ty nonce ctx keyid /\
              t_nonce t = nonce /\ t_ctx t = ctx /\ t_keyid t = keyid /\ t_type t = ty.
Proof.
  intros Hty Hn Hc Hk. unfold fin1.
  destruct (Nat.ltb (length resp) 49) eqn:L; [discriminate|]. apply Nat.ltb_ge in L.
  unfold slice_to, slice_from. replace (Nat.ltb (length resp) 49) with false by lia. cbn [bind].
  destruct (elt_ok _); cbn [negb]; [|discriminate]. destruct (proof_ok _); cbn [negb]; [|discriminate].
  destruct (finalize _ _) as [out|] eqn:F; [|discriminate]. unfold opt_res.
  destruct (dec_token 48 _) as [t'|] eqn:D; [|discriminate]. intros [= <-].
  destruct (dec_token_of_input _ _ _ _ _ _ _ Hty Hn Hc Hk D) as (A & B & C & E & G & Ln & X).
  split; [exact L|]. exists out. repeat split; auto.
Qed.

(** ** type 5: exactly one token per requested nonce, token i bound to nonce i *)
Lemma fold_tokens l ts :
  fold_right (fun (io : list byte * list byte) acc =>
                match acc, dec_token 64 (fst io ++ snd io) with
                | Some ts, Some t => Some (t :: ts) | _, _ => None end) (Some []) l = Some ts ->
  Forall2 (fun io t => dec_token 64 (fst io ++ snd io) = Some t) l ts.
Proof.
  revert ts. induction l as [|io l IH]; intros ts H; cbn [fold_right] in H.
  - injection H as <-. constructor.
  - destruct (fold_right _ _ l) as [ts'|] eqn:E; [|discriminate].
    destruct (dec_token 64 (fst io ++ snd io)) as [t|] eqn:D; [|discriminate]. injection H as <-.
    constructor; [exact D|now apply IH].
Qed.

Lemma forall2_len {A B} (R : A -> B -> Prop) l l' : Forall2 R l l' -> length l = length l'.
Proof. induction 1; cbn; congruence. Qed.

Theorem fin5_ok_implies_l elt_ok proof_ok finalize inputs resp toks a :
  fin5 elt_ok proof_ok finalize inputs resp = Ok (toks, a) ->
  length toks = length inputs /\
  exists elems pf outs, finalize elems pf = Some outs /\ length outs = length inputs /\ length elems = length inputs /\
    Forall2 (fun io t => dec_token 64 (fst io ++ snd io) = Some t) (combine inputs outs) toks.
Proof.
  unfold fin5. destruct (consume_varint resp) as [[l off]|]; [|discriminate].
  destruct (read_bytes off resp) as [[x r1]|]; [|discriminate].
  destruct (N.of_nat (length r1) <? l); [discriminate|].
  destruct (read_bytes (N.to_nat l) r1) as [[body r2]|]; [|discriminate].
  destruct (Nat.eqb (Nat.modulo (length body) 32) 0); cbn [negb]; [|discriminate].
  destruct (Nat.eqb (Nat.div (length body) 32) (length inputs)) eqn:En; cbn [negb]; [|discriminate].
  apply Nat.eqb_eq in En.
  destruct (chunks_go _ 0 _ body) as [elems| |] eqn:Ch; cbn [bind]; try discriminate.
  destruct (forallb elt_ok elems); cbn [negb]; [|discriminate].
  destruct (read_bytes 64 r2) as [[pf r3]|]; [|discriminate].
  destruct (proof_ok pf); cbn [negb]; [|discriminate].
  destruct (finalize elems pf) as [outs|] eqn:F; [|discriminate].
  destruct (Nat.eqb (length outs) (Nat.div (length body) 32)) eqn:Eo; cbn [negb]; [|discriminate].
  apply Nat.eqb_eq in Eo.
  destruct (fold_right _ _ (combine inputs outs)) as [ts|] eqn:Fo; [|discriminate].
  intros [= <- <-]. apply fold_tokens in Fo.
  assert (Lc : length (combine inputs outs) = length inputs) by (rewrite combine_length; lia).
  split; [rewrite <- (forall2_len _ _ _ Fo); exact Lc|].
  exists elems, pf, outs. repeat split; auto; try lia.
  (* chunks_go n 0 n returns n elements *)
  assert (G : forall fuel i n s es, chunks_go fuel i n s = Ok es -> (n - i <= fuel)%nat -> length es = (n - i)%nat).
  { clear. induction fuel as [|f IH]; intros i n s es H Hf; cbn [chunks_go] in H.
    - destruct (Nat.ltb i n) eqn:E; [discriminate|]. injection H as <-. apply Nat.ltb_ge in E. cbn. lia.
    - destruct (Nat.ltb i n) eqn:E.
      + destruct (slice s (32 * i) (32 * (i + 1))); cbn [bind] in H; try discriminate.
        destruct (chunks_go f (i + 1) n s) as [rest| |] eqn:R; cbn [bind] in H; try discriminate.
        injection H as <-. apply Nat.ltb_lt in E. cbn [length]. rewrite (IH _ _ _ _ R) by lia. lia.
      + injection H as <-. apply Nat.ltb_ge in E. cbn. lia. }
  rewrite (G _ _ _ _ _ Ch) by lia. lia.
Qed.

(** with the token inputs of the request (type 5, nonce i, one challenge digest, one key id), token i carries nonce i *)
Theorem fin5_binding_l elt_ok proof_ok finalize nonces ctx keyid resp toks a :
  Forall (fun n => length n = 32%nat) nonces -> length ctx = 32%nat -> length keyid = 32%nat ->
  fin5 elt_ok proof_ok finalize (map (fun n => tok_input 5 n ctx keyid) nonces) resp = Ok (toks, a) ->
  length toks = length nonces /\
  forall i n t, nth_error nonces i = Some n -> nth_error toks i = Some t ->
    t_nonce t = n /\ t_ctx t = ctx /\ t_keyid t = keyid /\ t_type t = 5 /\ length (t_auth t) = 64%nat.
Proof.
  intros Fn Hc Hk H. apply fin5_ok_implies_l in H. destruct H as (L & elems & pf & outs & _ & Lo & _ & F2).
  rewrite map_length in L, Lo. split; [exact L|].
  clear L. revert outs toks Lo F2. induction nonces as [|n0 ns IH]; intros outs toks Lo F2 i n t Hn Ht.
  - destruct i; discriminate.
  - destruct outs as [|o outs]; [discriminate|]. cbn [map combine] in F2. inversion F2 as [|io t0 l ts D F2' E1 E2]; subst.
    inversion Fn as [|? ? Hn0 Fn']; subst.
    destruct i as [|i].
    + cbn in Hn, Ht. injection Hn as <-. injection Ht as <-. cbn [fst snd] in D.
      assert (H5 : 5 < 65536) by lia.
      destruct (dec_token_of_input 64 5 n0 ctx keyid o t0 H5 Hn0 Hc Hk D) as (A & B & C & E & _ & Ln & _). auto.
    + cbn in Hn, Ht. cbn [length] in Lo. eapply (IH Fn' outs ts ltac:(lia) F2'); eauto.
Qed.
