(** source tie for C14/C15: Ed25519 sizes and the 0x00 separator of the blinding-factor input *)
From Coq Require Import List NArith.
From PatVerif Require Import Gen.Src.
Import ListNotations. Open Scope N_scope.
Example tie_sizes : s_ed_sizes = [32; 64; 64; 32]. Proof. reflexivity. Qed.
Example tie_sep : (s_ed_blind_sep, s_ed_sign_blind_sep) = (0, 0). Proof. reflexivity. Qed.
