(** NafP.v — nonAdjacentForm(w) represents the scalar: sum naf_i 2^i = x for every x below 2^255 and every width
    2 <= w <= 8 (no carry is lost at the top), and every non-zero digit is odd and lies in (-2^(w-1), 2^(w-1)) — within
    the precomputed odd multiples the double scalar multiplication looks up, and within an int8. *)
From Coq Require Import ZArith List Lia.
From PatVerif Require Import Model.Naf.
Import ListNotations.
Open Scope Z_scope.

Fixpoint ev2 (l : list Z) : Z := match l with [] => 0 | d :: r => d + 2 * ev2 r end.

Lemma ev2_app a b : ev2 (a ++ b) = ev2 a + 2 ^ Z.of_nat (length a) * ev2 b.
Proof.
  induction a as [|d r IH]; [cbn [app ev2 length]; change (2 ^ Z.of_nat 0) with 1; lia|].
  cbn [app ev2 length]. rewrite IH, Nat2Z.inj_succ, Z.pow_succ_r by lia. lia.
Qed.
Lemma ev2_zeros k : ev2 (repeat 0 k) = 0.
Proof. induction k as [|k IH]; [reflexivity|]. cbn [repeat ev2]. lia. Qed.

Definition digit_ok (w d : Z) : Prop := d = 0 \/ (Z.odd d = true /\ - 2 ^ (w - 1) < d < 2 ^ (w - 1)).

Lemma div_step x pos w : 0 <= x -> 0 <= pos -> 0 <= w ->
  x / 2 ^ pos = 2 ^ w * (x / 2 ^ (pos + w)) + (x / 2 ^ pos) mod 2 ^ w.
Proof.
  intros Hx Hp Hw. rewrite Z.pow_add_r by lia. rewrite <- Z.div_div by (try apply Z.pow_pos_nonneg; lia).
  apply Z.div_mod. apply Z.pow_nonzero; lia.
Qed.

Lemma naf_from_spec fuel : forall w x pos carry,
  2 <= w <= 8 -> 0 <= x < 2 ^ 255 -> 0 <= pos -> 0 <= carry <= 1 -> (256 <= pos -> carry = 0) ->
  256 - pos <= Z.of_nat fuel ->
  let l := naf_from fuel w x pos carry in
  ev2 l = carry + x / 2 ^ pos /\ Forall (digit_ok w) l /\
  (forall k, (Z.to_nat (256 - pos) <= k)%nat -> nth k l 0 = 0).
Proof.
  induction fuel as [|f IH]; intros w x pos carry Hw Hx Hpos Hc Htop Hfuel l; subst l; cbn [naf_from].
  - assert (256 <= pos) by lia. rewrite (Htop H). cbn [ev2].
    assert (x / 2 ^ pos = 0).
    { apply Z.div_small. split; [lia|]. apply Z.lt_le_trans with (2 ^ 255); [lia|]. apply Z.pow_le_mono_r; lia. }
    split; [lia|]. split; [constructor|]. intros k _. now destruct k.
  - destruct (Z.leb_spec 256 pos) as [Hge|Hlt].
    + rewrite (Htop Hge). cbn [ev2].
      assert (x / 2 ^ pos = 0).
      { apply Z.div_small. split; [lia|]. apply Z.lt_le_trans with (2 ^ 255); [lia|]. apply Z.pow_le_mono_r; lia. }
      split; [lia|]. split; [constructor|]. intros k _. now destruct k.
    + set (m := (x / 2 ^ pos) mod 2 ^ w). set (window := carry + m).
      assert (P2w : 0 < 2 ^ w) by (apply Z.pow_pos_nonneg; lia).
      assert (Hm : 0 <= m < 2 ^ w) by (subst m; apply Z.mod_pos_bound; lia).
      assert (Hq : 0 <= x / 2 ^ pos) by (apply Z.div_pos; [lia | apply Z.pow_pos_nonneg; lia]).
      (* the high part: x / 2^pos < 2^(255 - pos) *)
      assert (Hhi : x / 2 ^ pos < 2 ^ (255 - pos)).
      { apply Z.div_lt_upper_bound; [apply Z.pow_pos_nonneg; lia|]. rewrite <- Z.pow_add_r by lia.
        replace (pos + (255 - pos)) with 255 by lia. lia. }
      destruct (Z.even window) eqn:Ev.
      * (* even: one zero digit, the carry is kept *)
        pose proof (div_step x pos 1 ltac:(lia) Hpos ltac:(lia)) as D1. change (2 ^ 1) with 2 in D1.
        assert (Hbit : 0 <= (x / 2 ^ pos) mod 2 < 2) by (apply Z.mod_pos_bound; lia).
        (* window even <-> carry + lowest bit even *)
        assert (Hmm : m mod 2 = (x / 2 ^ pos) mod 2).
        { subst m. replace (2 ^ w) with (2 * 2 ^ (w - 1)) by (rewrite <- Z.pow_succ_r by lia; f_equal; lia).
          rewrite Z.rem_mul_r by (try apply Z.pow_nonzero; lia). rewrite Z.mul_comm, Z.mod_add by lia. apply Z.mod_mod. lia. }
        apply Z.even_spec in Ev. destruct Ev as [h Eh].
        assert (Hcb : carry = (x / 2 ^ pos) mod 2).
        { subst window. rewrite <- Hmm. pose proof (Z.mod_pos_bound m 2 ltac:(lia)).
          pose proof (Z.div_mod m 2 ltac:(lia)). lia. }
        destruct (IH w x (pos + 1) carry Hw Hx ltac:(lia) Hc) as (V & F & Zs).
        { intro H256. assert (pos = 255) by lia. subst pos. replace (255 - 255) with 0 in Hhi by lia.
          change (2 ^ 0) with 1 in Hhi. assert (x / 2 ^ 255 = 0) by lia. rewrite H in Hcb. exact Hcb. }
        { lia. }
        cbn [ev2]. rewrite V. split; [lia|]. split; [constructor; [left; reflexivity | exact F]|].
        intros [|k] Hk; [exfalso; lia|]. cbn [nth]. apply Zs. lia.
      * (* odd: a digit, w - 1 zeros, a new carry *)
        pose proof (div_step x pos w ltac:(lia) Hpos ltac:(lia)) as Dw. fold m in Dw.
        assert (Hodd : Z.odd window = true) by (rewrite <- Z.negb_even, Ev; reflexivity).
        assert (Hlen : length (repeat 0 (Z.to_nat (w - 1))) = Z.to_nat (w - 1)) by apply repeat_length.
        assert (P2w1 : 0 < 2 ^ (w - 1)) by (apply Z.pow_pos_nonneg; lia).
        assert (E2 : 2 ^ w = 2 * 2 ^ (w - 1)) by (rewrite <- Z.pow_succ_r by lia; f_equal; lia).
        destruct (Z.ltb_spec window (2 ^ (w - 1))) as [Hsmall|Hbig].
        -- destruct (IH w x (pos + w) 0 Hw Hx ltac:(lia) ltac:(lia) ltac:(lia) ltac:(lia)) as (V & F & Zs).
           split; [|split].
           ++ change (window :: repeat 0 (Z.to_nat (w - 1)) ++ ?t) with ((window :: repeat 0 (Z.to_nat (w - 1))) ++ t).
              rewrite ev2_app. cbn [ev2 length]. rewrite ev2_zeros, Hlen, V.
              replace (Z.of_nat (S (Z.to_nat (w - 1)))) with w by lia. subst window. lia.
           ++ constructor; [right; split; [exact Hodd | subst window; lia]|].
              apply Forall_app. split; [apply Forall_forall; intros z Hz; apply repeat_spec in Hz; left; exact Hz | exact F].
           ++ intros [|k] Hk; [exfalso; lia|]. cbn [nth].
              destruct (Nat.lt_ge_cases k (Z.to_nat (w - 1))) as [Hk1|Hk1].
              ** rewrite app_nth1 by (rewrite Hlen; exact Hk1). apply nth_repeat.
              ** rewrite app_nth2 by (rewrite Hlen; exact Hk1). rewrite Hlen. apply Zs. lia.
        -- (* the carry out is 1: impossible at the top, where it would be lost *)
           assert (Hroom : pos + w < 256).
           { destruct (Z.lt_ge_cases (pos + w) 256) as [|Hno]; [assumption|exfalso].
             assert (2 ^ (255 - pos) <= 2 ^ (w - 1)) by (apply Z.pow_le_mono_r; lia).
             assert (m <= x / 2 ^ pos) by (subst m; apply Z.mod_le; lia).
             assert (window <= 2 ^ (w - 1)) by (subst window; lia).
             assert (Hw1 : window = 2 ^ (w - 1)) by lia.
             rewrite Hw1 in Hodd. replace (w - 1) with (Z.succ (w - 2)) in Hodd by lia.
             rewrite Z.pow_succ_r in Hodd by lia. rewrite Z.odd_mul in Hodd. discriminate. }
           destruct (IH w x (pos + w) 1 Hw Hx ltac:(lia) ltac:(lia) ltac:(lia) ltac:(lia)) as (V & F & Zs).
           assert (Hwin : window <= 2 ^ w) by (subst window; lia).
           assert (Hne : window <> 2 ^ w).
           { intro E. rewrite E, E2, Z.odd_mul in Hodd. discriminate. }
           assert (Hne1 : window <> 2 ^ (w - 1)).
           { intro E. rewrite E in Hodd. replace (w - 1) with (Z.succ (w - 2)) in Hodd by lia.
             rewrite Z.pow_succ_r, Z.odd_mul in Hodd by lia. discriminate. }
           split; [|split].
           ++ change ((window - 2 ^ w) :: repeat 0 (Z.to_nat (w - 1)) ++ ?t) with (((window - 2 ^ w) :: repeat 0 (Z.to_nat (w - 1))) ++ t).
              rewrite ev2_app. cbn [ev2 length]. rewrite ev2_zeros, Hlen, V.
              replace (Z.of_nat (S (Z.to_nat (w - 1)))) with w by lia. subst window. lia.
           ++ constructor.
              { right. split; [|lia]. rewrite Z.odd_sub, Hodd, E2, Z.odd_mul. reflexivity. }
              apply Forall_app. split; [apply Forall_forall; intros z Hz; apply repeat_spec in Hz; left; exact Hz | exact F].
           ++ intros [|k] Hk; [exfalso; lia|]. cbn [nth].
              destruct (Nat.lt_ge_cases k (Z.to_nat (w - 1))) as [Hk1|Hk1].
              ** rewrite app_nth1 by (rewrite Hlen; exact Hk1). apply nth_repeat.
              ** rewrite app_nth2 by (rewrite Hlen; exact Hk1). rewrite Hlen. apply Zs. lia.
Qed.

Lemma ev2_firstn_tail n : forall l, (forall k, (n <= k)%nat -> nth k l 0 = 0) -> ev2 (firstn n (l ++ repeat 0 n)) = ev2 l.
Proof.
  induction n as [|n IH]; intros l H.
  - cbn [firstn ev2]. induction l as [|d r IHr]; [reflexivity|]. cbn [ev2].
    rewrite <- IHr by (intros k Hk; apply (H (S k)); lia). pose proof (H 0%nat ltac:(lia)) as H0. cbn in H0. lia.
  - destruct l as [|d r].
    + cbn [app]. rewrite firstn_all2 by (rewrite repeat_length; lia). apply ev2_zeros.
    + cbn [app firstn ev2]. f_equal. f_equal.
      assert (E : r ++ repeat 0 (S n) = (r ++ repeat 0 n) ++ [0]).
      { rewrite <- app_assoc. f_equal. change [0] with (repeat 0 1). rewrite <- repeat_app. f_equal. lia. }
      assert (Z0 : forall m, ev2 (firstn m [0]) = 0) by (intros [|[|m]]; reflexivity).
      rewrite E, firstn_app, ev2_app, Z0. rewrite (IH r) by (intros k Hk; apply (H (S k)); lia). lia.
Qed.

Theorem naf_spec w x : 2 <= w <= 8 -> 0 <= x < 2 ^ 255 ->
  length (naf w x) = 256%nat /\ ev2 (naf w x) = x /\ Forall (digit_ok w) (naf w x).
Proof.
  intros Hw Hx. unfold naf.
  destruct (naf_from_spec 256 w x 0 0 Hw Hx ltac:(lia) ltac:(lia) ltac:(lia) ltac:(lia)) as (V & F & Zs).
  change (2 ^ 0) with 1 in V. rewrite Z.div_1_r in V.
  split; [|split].
  - rewrite firstn_length, app_length, repeat_length. lia.
  - rewrite ev2_firstn_tail; [lia|]. intros k Hk. apply Zs. change (Z.to_nat (256 - 0)) with 256%nat. exact Hk.
  - assert (FF : forall (P : Z -> Prop) n l, Forall P l -> Forall P (firstn n l)).
    { intros P n. induction n as [|n IHn]; intros l Hl; [constructor|]. destruct l as [|a l]; [constructor|].
      inversion Hl; subst. cbn [firstn]. constructor; [assumption|]. now apply IHn. }
    apply FF, Forall_app. split; [exact F|]. apply Forall_forall. intros z Hz. apply repeat_spec in Hz. left; exact Hz.
Qed.
