(** Zq.v — the executable field Z/qZ for a prime q: canonical representatives, modular operations, inverse by the
    extended Euclidean algorithm (well-founded recursion, no fuel), and the proof that these operations form a field.
    This is the instance at which the every-field theorems of Layer B (Model/Algebra.v) are executed in the harness
    (Model/Derive.v mulm / invm compute the same operations on N). *)
From Coq Require Import ZArith Lia Recdef Znumtheory Field Eqdep_dec Bool.
Open Scope Z_scope.

(** extended Euclid on (a, b) carrying coefficients with  a = sa * A,  b = sb * A  (mod Q) *)
Function egcd_wf (a b sa sb : Z) {measure Z.to_nat a} : Z * Z :=
  if a <=? 0 then (b, sb) else
  match Z.div_eucl b a with (k, r) => egcd_wf r a (sb - k * sa) sa end.   (* one division per step: k = b / a, r = b mod a *)
Proof.
  intros a b sa sb H k r E. apply Z.leb_gt in H.
  pose proof (Z.mod_pos_bound b a H) as Hm. unfold Z.modulo in Hm. rewrite E in Hm. lia.
Defined.

Lemma egcd_wf_spec A Q : forall a b sa sb, 0 <= a -> 0 <= b ->
  (Q | a - sa * A) -> (Q | b - sb * A) ->
  let '(g, s) := egcd_wf a b sa sb in (Q | g - s * A) /\ Zis_gcd a b g /\ 0 <= g.
Proof.
  intros a b sa sb. functional induction (egcd_wf a b sa sb) as [a b sa sb E|a b sa sb E k r E2 IH]; intros Ha Hb Da Db.
  - apply Z.leb_le in E. assert (a = 0) by lia. subst a. split; [exact Db|]. split; [|exact Hb].
    apply Zis_gcd_sym, Zis_gcd_0.
  - apply Z.leb_gt in E.
    assert (Hk : k = b / a) by (unfold Z.div; now rewrite E2).
    assert (Hr : r = b mod a) by (unfold Z.modulo; now rewrite E2).
    subst k r.
    pose proof (Z.mod_pos_bound b a E) as Hm.
    assert (D' : (Q | b mod a - (sb - b / a * sa) * A)).
    { replace (b mod a - (sb - b / a * sa) * A) with ((b - sb * A) - (b / a) * (a - sa * A)).
      - apply Z.divide_sub_r; [exact Db|]. now apply Z.divide_mul_r.
      - rewrite (Z.mod_eq b a) by lia. ring. }
    specialize (IH ltac:(lia) ltac:(lia) D' Da).
    destruct (egcd_wf (b mod a) a (sb - b / a * sa) sa) as [g s]. destruct IH as (I1 & I2 & I3).
    split; [exact I1|]. split; [|exact I3].
    pose proof (Zis_gcd_for_euclid2 a g (b / a) (b mod a) I2) as G.
    rewrite <- Z.div_mod in G by lia. exact G.
Qed.

Definition inv_mod (q a : Z) : Z := snd (egcd_wf (a mod q) q 1 0) mod q.

Lemma inv_mod_correct q a : prime q -> a mod q <> 0 -> (a * inv_mod q a) mod q = 1.
Proof.
  intros Hp Ha. pose proof (prime_ge_2 q Hp) as Hq.
  pose proof (Z.mod_pos_bound a q ltac:(lia)) as Hm. unfold inv_mod.
  pose proof (egcd_wf_spec (a mod q) q (a mod q) q 1 0 ltac:(lia) ltac:(lia)) as S.
  assert (D1 : (q | a mod q - 1 * (a mod q))) by (exists 0; ring).
  assert (D2 : (q | q - 0 * (a mod q))) by (exists 1; ring).
  specialize (S D1 D2). destruct (egcd_wf (a mod q) q 1 0) as [g s]. destruct S as (S1 & S2 & S3). cbn [snd].
  assert (Hg : g = 1).
  { assert (R : rel_prime (a mod q) q) by (apply rel_prime_le_prime; [exact Hp|lia]).
    destruct (Zis_gcd_unique _ _ _ _ S2 R); lia. }
  subst g. destruct S1 as [k Hk].
  rewrite Z.mul_mod_idemp_r by lia. rewrite <- Z.mul_mod_idemp_l by lia.
  replace (a mod q * s) with (1 + (- k) * q) by lia.
  rewrite Z.mod_add by lia. apply Z.mod_small. lia.
Qed.

Section Zq.
  Variable q : Z.
  Hypothesis q_prime : prime q.
  Let q_ge2 : 2 <= q := prime_ge_2 q q_prime.

  Definition in_range (x : Z) : bool := (0 <=? x) && (x <? q).
  Record zq := mkzq { val : Z; val_ok : in_range val = true }.

  Lemma val_range a : 0 <= val a < q.
  Proof. pose proof (val_ok a) as H. unfold in_range in H. lia. Qed.
  Lemma zq_eq a b : val a = val b -> a = b.
  Proof.
    destruct a as [x px], b as [y py]. cbn. intros ->. f_equal. apply UIP_dec, bool_dec.
  Qed.
  Lemma mod_in_range x : in_range (x mod q) = true.
  Proof. pose proof q_ge2 as Hq2. unfold in_range. pose proof (Z.mod_pos_bound x q ltac:(lia)). lia. Qed.
  Definition of_Z (x : Z) : zq := mkzq (x mod q) (mod_in_range x).
  Lemma val_of_Z x : val (of_Z x) = x mod q. Proof. reflexivity. Qed.
  Lemma of_Z_val a : of_Z (val a) = a.
  Proof. apply zq_eq. cbn. apply Z.mod_small, val_range. Qed.

  Definition z0 := of_Z 0.
  Definition z1 := of_Z 1.
  Definition zadd a b := of_Z (val a + val b).
  Definition zmul a b := of_Z (val a * val b).
  Definition zopp a := of_Z (- val a).
  Definition zsub a b := of_Z (val a - val b).
  Definition zinv a := of_Z (inv_mod q (val a)).
  Definition zdiv a b := zmul a (zinv b).

  Ltac zq := intros; pose proof q_ge2 as Hq2; apply zq_eq; unfold zadd, zmul, zopp, zsub, z0, z1; rewrite ?val_of_Z.

  Lemma zq_ring : ring_theory z0 z1 zadd zmul zsub zopp (@eq zq).
  Proof.
    constructor.
    - zq. rewrite Z.mod_0_l by lia. cbn. apply Z.mod_small, val_range.
    - zq. f_equal. lia.
    - zq. rewrite Z.add_mod_idemp_r, Z.add_mod_idemp_l by lia. f_equal. lia.
    - zq. rewrite (Z.mod_small 1) by lia. rewrite Z.mul_1_l. apply Z.mod_small, val_range.
    - zq. f_equal. lia.
    - zq. rewrite Z.mul_mod_idemp_r, Z.mul_mod_idemp_l by lia. f_equal. lia.
    - zq. rewrite Z.mul_mod_idemp_l by lia. rewrite <- Z.add_mod by lia. f_equal. lia.
    - zq. rewrite Z.add_mod_idemp_r by lia. reflexivity.
    - zq. rewrite Z.add_mod_idemp_r by lia. replace (val x + - val x) with 0 by lia. reflexivity.
  Qed.

  Lemma zq_field : field_theory z0 z1 zadd zmul zsub zopp zdiv zinv (@eq zq).
  Proof.
    constructor.
    - exact zq_ring.
    - pose proof q_ge2 as Hq2. intro H. apply (f_equal val) in H. unfold z1, z0 in H. rewrite !val_of_Z in H.
      rewrite Z.mod_0_l, Z.mod_small in H by lia. discriminate.
    - reflexivity.
    - pose proof q_ge2 as Hq2. intros p Hp. apply zq_eq. unfold zmul, zinv, z1. rewrite !val_of_Z.
      rewrite Z.mul_mod_idemp_l by lia. rewrite (Z.mod_small 1) by lia.
      rewrite Z.mul_comm. apply inv_mod_correct; [exact q_prime|].
      intro Z0. apply Hp. apply zq_eq. unfold z0. rewrite val_of_Z, Z.mod_0_l by lia.
      rewrite Z.mod_small in Z0 by apply val_range. exact Z0.
  Qed.

  Definition zeqb (a b : zq) : bool := val a =? val b.
  Lemma zeqb_spec a b : zeqb a b = true <-> a = b.
  Proof. unfold zeqb. rewrite Z.eqb_eq. split; [apply zq_eq|now intros ->]. Qed.
End Zq.
