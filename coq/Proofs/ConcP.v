From PatVerif Require Import Base.Conc.
From Coq Require Import List Arith NArith Lia Bool.
Import ListNotations.

Definition read_only (t : thread) : Prop := forall a, In a t -> plain_write a = false.

(** goroutines that only read (or go through sync.Once) cannot race, however many there are *)
Theorem readonly_race_free_l ts : (forall t, In t ts -> read_only t) -> ~ racy ts.
Proof.
  intros H (i & j & ti & tj & a & b & _ & Hi & Hj & Ha & Hb & C).
  apply nth_error_In in Hi, Hj. unfold conflict in C. apply andb_prop in C. destruct C as [_ C].
  rewrite (H ti Hi a Ha), (H tj Hj b Hb) in C. discriminate.
Qed.

(** pure readers: in EVERY interleaving each goroutine observes exactly what it observes running alone, and the
    shared state is unchanged — every concurrent call returns what a sequential call returns *)
Definition pure_reader (a : act) : Prop := exists l, a = Rd l.

Lemma run_readers h sched : (forall p, In p sched -> pure_reader (snd p)) ->
  fst (run h sched) = h /\ snd (run h sched) = map (fun p => (fst p, h (loc (snd p)))) sched.
Proof.
  induction sched as [|[i a] rest IH]; intro H; [now split|].
  cbn [run]. destruct (H (i, a) (or_introl eq_refl)) as [l E]. cbn [snd] in E. subst a. cbn [step].
  destruct (IH (fun p Hp => H p (or_intror Hp))) as [E1 E2].
  destruct (run h rest) as [h2 obs]. cbn [fst snd] in *. subst. split; reflexivity.
Qed.

Theorem readers_sequentially_consistent_l h sched i :
  (forall p, In p sched -> pure_reader (snd p)) ->
  fst (run h sched) = h /\ obs_of i (snd (run h sched)) = alone h (acts_of i sched).
Proof.
  intro H. destruct (run_readers h sched H) as [E1 E2]. split; [exact E1|].
  rewrite E2. unfold obs_of, alone, acts_of.
  assert (Hs : forall p, In p (map (fun a => (0, a)) (map snd (filter (fun p => Nat.eqb (fst p) i) sched))) -> pure_reader (snd p)).
  { intros p Hp. apply in_map_iff in Hp. destruct Hp as (a & <- & Ha). apply in_map_iff in Ha.
    destruct Ha as (q & <- & Hq). apply filter_In in Hq. apply (H q (proj1 Hq)). }
  rewrite (proj2 (run_readers h _ Hs)). clear.
  induction sched as [|[j a] rest IH]; [reflexivity|]. cbn [map filter fst snd].
  destruct (Nat.eqb j i); cbn [map filter fst snd]; [f_equal|]; exact IH.
Qed.

(** sync.Once: whatever the interleaving, every goroutine passing through Once(l, v) on an uninitialised cell
    observes v, and the cell is written at most once *)
Lemma run_once h sched l v : h l = None ->
  (forall p, In p sched -> snd p = Once l v) ->
  forall i o, In (i, o) (snd (run h sched)) -> o = Some v.
Proof.
  intros Hn H.
  assert (G : forall h', (h' l = None \/ h' l = Some v) -> forall i o, In (i, o) (snd (run h' sched)) -> o = Some v).
  { induction sched as [|[j a] rest IH]; intros h' Hh i o Hin; [destruct Hin|].
    pose proof (H (j, a) (or_introl eq_refl)) as Ea. cbn [snd] in Ea. subst a.
    cbn [run step] in Hin.
    destruct Hh as [Hh|Hh]; rewrite Hh in Hin.
    - destruct (run (upd h' l v) rest) as [h2 obs] eqn:E. cbn [snd] in Hin. destruct Hin as [Hin|Hin]; [congruence|].
      apply (IH (fun p Hp => H p (or_intror Hp)) (upd h' l v)) with (i := i); [right; unfold upd; now rewrite Nat.eqb_refl|now rewrite E].
    - destruct (run h' rest) as [h2 obs] eqn:E. cbn [snd] in Hin. destruct Hin as [Hin|Hin]; [congruence|].
      apply (IH (fun p Hp => H p (or_intror Hp)) h') with (i := i); [now right|now rewrite E]. }
  apply G. now left.
Qed.

(** the lazily initialised cell WITHOUT Once: "if cell == nil { cell = v }" is a read followed by a write; two
    goroutines doing it race — and there is an interleaving in which both see it empty and both write *)
Definition lazy_init (l : nat) (v : N) : thread := [Rd l; Wr l v].
Theorem lazy_init_racy_l l v w : racy [lazy_init l v; lazy_init l w].
Proof.
  exists 0, 1, (lazy_init l v), (lazy_init l w), (Rd l), (Wr l w).
  repeat split; try reflexivity; [lia|now left|right; now left|].
  unfold conflict. cbn. now rewrite Nat.eqb_refl.
Qed.
Theorem lazy_init_double_write_l l v w : 
  let sched := [(0, Rd l); (1, Rd l); (0, Wr l v); (1, Wr l w)] in
  obs_of 0 (snd (run (fun _ => None) sched)) = [None; Some v] /\
  obs_of 1 (snd (run (fun _ => None) sched)) = [None; Some w] /\
  fst (run (fun _ => None) sched) l = Some w.
Proof. cbn. unfold upd. rewrite !Nat.eqb_refl. repeat split; reflexivity. Qed.

(** a goroutine that writes a shared location which another goroutine accesses always races *)
Theorem shared_write_racy_l l v a t1 t2 : In (Wr l v) t1 -> In a t2 -> loc a = l -> racy [t1; t2].
Proof.
  intros H1 H2 Hl. exists 0, 1, t1, t2, (Wr l v), a. repeat split; try reflexivity; auto.
  unfold conflict. cbn [loc plain_write]. rewrite Hl, Nat.eqb_refl. reflexivity.
Qed.
