(** source tie for C07 (and the type-3 legs of C01/C02): response key labels; the HPKE info / exporter strings agree
    between the client and the issuer; the fixed field lengths of the request decoder *)
From Coq Require Import List NArith.
From PatVerif Require Import Base.Bytes Model.RateLimited Gen.Src.
Import ListNotations.
Ltac t := vm_compute; first [reflexivity | exact I | repeat split; reflexivity].
Example tie_label_key : tie s_t3_label_key (fun v => map n2b v = label_key). Proof. t. Qed.
Example tie_label_nonce : tie s_t3_label_nonce (fun v => map n2b v = label_nonce). Proof. t. Qed.
Example tie_info_request_client : tie s_t3_info_request_client (fun v => v = [84; 111; 107; 101; 110; 82; 101; 113; 117; 101; 115; 116]%N). Proof. t. Qed.
Example tie_info_request_issuer : tie s_t3_info_request_issuer (fun v => v = [84; 111; 107; 101; 110; 82; 101; 113; 117; 101; 115; 116]%N). Proof. t. Qed.
Example tie_info_response_client : tie s_t3_info_response_client (fun v => v = [84; 111; 107; 101; 110; 82; 101; 115; 112; 111; 110; 115; 101]%N). Proof. t. Qed.
Example tie_info_response_issuer : tie s_t3_info_response_issuer (fun v => v = [84; 111; 107; 101; 110; 82; 101; 115; 112; 111; 110; 115; 101]%N). Proof. t. Qed.
Example tie_request_fields : tie s_t3_request_fields (fun v => v = [49; 32; 96]%N). Proof. t. Qed.
