From PatVerif Require Import Model.TokenVerify.
From Coq Require Import ZifyN ZifyNat ZifyBool.
Open Scope N_scope.

Lemma app_inv_len {A} (a a' b b' : list A) : length a = length a' -> a ++ b = a' ++ b' -> a = a' /\ b = b'.
Proof.
  revert a'. induction a as [|x a IH]; intros [|y a'] L E; try discriminate; [now split|].
  cbn in L, E. injection E as -> E. destruct (IH a' ltac:(lia) E) as [-> ->]. now split.
Qed.

Section VerifyP.
  Variable prf : list byte -> option (list byte).

  Lemma verify_iff_l t : verify prf t = true <-> prf (auth_input t) = Some (t_auth t).
  Proof.
    unfold verify. destruct (prf (auth_input t)) as [o|]; [|split; discriminate].
    rewrite bytes_eqb_eq. split; [now intros ->|now intros [= ->]].
  Qed.

  (** any change to the authenticator alone is rejected *)
  Lemma auth_change_rejected_l t a' : verify prf t = true -> a' <> t_auth t ->
    verify prf {| t_type := t_type t; t_nonce := t_nonce t; t_ctx := t_ctx t; t_keyid := t_keyid t; t_auth := a' |} = false.
  Proof.
    intros H Hne. apply verify_iff_l in H.
    destruct (verify prf _) eqn:E; [|reflexivity]. apply verify_iff_l in E.
    cbn [t_auth] in E.
    assert (A : auth_input {| t_type := t_type t; t_nonce := t_nonce t; t_ctx := t_ctx t; t_keyid := t_keyid t; t_auth := a' |} = auth_input t) by reflexivity.
    rewrite A, H in E. congruence.
  Qed.

  (** the verdict depends on the token only through (authenticator input, authenticator) *)
  Lemma verify_ext_l t t' : auth_input t = auth_input t' -> t_auth t = t_auth t' -> verify prf t = verify prf t'.
  Proof. unfold verify. now intros -> ->. Qed.

  (** two accepted tokens with the same authenticator have inputs that collide under the PRF *)
  Lemma field_change_collision_l t t' : verify prf t = true -> verify prf t' = true -> t_auth t = t_auth t' ->
    prf (auth_input t) = prf (auth_input t').
  Proof. intros H H' E. apply verify_iff_l in H, H'. rewrite H, H', E. reflexivity. Qed.

  (** tokens whose authenticator does not have the PRF's output length are rejected (cross-type: 48 vs 64) *)
  Lemma wrong_length_rejected_l n t : (forall x o, prf x = Some o -> length o = n) ->
    length (t_auth t) <> n -> verify prf t = false.
  Proof.
    intros Hlen Hne. destruct (verify prf t) eqn:E; [|reflexivity].
    apply verify_iff_l in E. apply Hlen in E. congruence.
  Qed.

  (** with the fixed field widths of the wire format the authenticator input determines every field *)
  Lemma auth_input_inj_l t t' :
    t_type t < 65536 -> t_type t' < 65536 ->
    length (t_nonce t) = length (t_nonce t') -> length (t_ctx t) = length (t_ctx t') ->
    auth_input t = auth_input t' ->
    t_type t = t_type t' /\ t_nonce t = t_nonce t' /\ t_ctx t = t_ctx t' /\ t_keyid t = t_keyid t'.
  Proof.
    intros Ht Ht' Ln Lc E. unfold auth_input in E.
    assert (Eu : u16 (t_type t) = u16 (t_type t') /\ t_nonce t ++ t_ctx t ++ t_keyid t = t_nonce t' ++ t_ctx t' ++ t_keyid t').
    { unfold u16 in *. cbn [app] in E. injection E as E1 E2 E3. split; [congruence|exact E3]. }
    destruct Eu as [Eu Er].
    apply (app_inv_len _ _ _ _ Ln) in Er. destruct Er as [En Er].
    apply (app_inv_len _ _ _ _ Lc) in Er. destruct Er as [Ec Ek].
    repeat split; try assumption.
    unfold u16 in Eu. inversion Eu as [[E1 E2]].
    apply (f_equal b2n) in E1, E2. rewrite !b2n_n2b in E1, E2.
    rewrite (N.mod_small (t_type t / 256)), (N.mod_small (t_type t' / 256)) in E1 by lia. lia.
  Qed.
End VerifyP.
