#!/bin/bash
# replay_seeded.sh [ID-prefix] — run every seeded change under seeded/ against its property's quick check (in a scratch
# worktree, /repo untouched) and report which are caught (expected: all).  Writes seeded/REPORT.txt.
cd "$(dirname "$0")/.."
out=seeded/REPORT.txt; : > $out.tmp
for d in seeded/${1:-C}*/; do
  id=$(basename $d); pid=${id%%-*}
  [ -f $d/patch.diff ] || continue
  r=$(tools/try_mutant.sh $(pwd)/$d/patch.diff $pid 2>&1 | grep -E "exit\[|PATCH DOES NOT APPLY" | tail -1)
  case "$r" in *"=1") v=caught;; *"=0") v=MISSED;; *) v="ERROR($r)";; esac
  echo "$id $v" | tee -a $out.tmp
done
mv $out.tmp $out
