(** Proofs about Model/Quicwire.v. *)
From PatVerif Require Import Model.Quicwire.
From Coq Require Import ZifyN ZifyNat ZifyBool.
Open Scope N_scope.

(** * Specification-level functions the model is shown equal to *)

Definition class_of (c0 : byte) : N := b2n c0 / 64.
Definition announced (c0 : byte) : nat :=
  match class_of c0 with 0 => 1%nat | 1 => 2%nat | 2 => 4%nat | _ => 8%nat end.

Definition consume_spec (b : list byte) : option (N * nat) :=
  match b with
  | [] => None
  | c0 :: t =>
    let k := announced c0 in
    if Nat.ltb (length b) k then None
    else Some ((b2n c0 mod 64) * 256 ^ N.of_nat (k - 1) + be_dec (firstn (k - 1) t), k)
  end.

Definition size_spec (v : N) : nat :=
  if v <? 2 ^ 6 then 1%nat else if v <? 2 ^ 14 then 2%nat else if v <? 2 ^ 30 then 4%nat else 8%nat.
Definition class_spec (v : N) : N :=
  if v <? 2 ^ 6 then 0 else if v <? 2 ^ 14 then 1 else if v <? 2 ^ 30 then 2 else 3.
Definition enc_spec (v : N) : list byte :=
  let k := size_spec v in
  n2b (class_spec v * 64 + v / 256 ^ N.of_nat (k - 1)) :: be_enc (k - 1) v.

Lemma class_lt c0 : class_of c0 < 4.
Proof. unfold class_of. pose proof (b2n_lt c0). lia. Qed.

Lemma shiftr6 x : N.shiftr x 6 = x / 64.
Proof. now rewrite N.shiftr_div_pow2. Qed.
Lemma land63 x : N.land x 63 = x mod 64.
Proof. change 63 with (N.ones 6). now rewrite N.land_ones. Qed.

Lemma lor2 a b : b < 256 -> N.lor (N.shiftl a 8) b = a * 256 + b.
Proof. intro H. now rewrite lor_shiftl_add by (change (2 ^ 8) with 256; lia). Qed.

Lemma lor4 a b c d : b < 256 -> c < 256 -> d < 256 ->
  N.lor (N.lor (N.lor (N.shiftl a 24) (N.shiftl b 16)) (N.shiftl c 8)) d
  = a * 2 ^ 24 + (b * 2 ^ 16 + (c * 2 ^ 8 + d)).
Proof.
  intros Hb Hc Hd. rewrite <- !N.lor_assoc.
  rewrite (lor_shiftl_add c 8 d) by (change (2 ^ 8) with 256; lia).
  rewrite (lor_shiftl_add b 16) by (change (2 ^ 16) with 65536; change (2 ^ 8) with 256; lia).
  rewrite (lor_shiftl_add a 24)
    by (change (2 ^ 24) with 16777216; change (2 ^ 16) with 65536; change (2 ^ 8) with 256; lia).
  reflexivity.
Qed.

Lemma lor8 a b1 b2 b3 b4 b5 b6 b7 :
  b1 < 256 -> b2 < 256 -> b3 < 256 -> b4 < 256 -> b5 < 256 -> b6 < 256 -> b7 < 256 ->
  N.lor (N.lor (N.lor (N.lor (N.lor (N.lor (N.lor
     (N.shiftl a 56) (N.shiftl b1 48)) (N.shiftl b2 40)) (N.shiftl b3 32))
     (N.shiftl b4 24)) (N.shiftl b5 16)) (N.shiftl b6 8)) b7
  = a * 2 ^ 56 + (b1 * 2 ^ 48 + (b2 * 2 ^ 40 + (b3 * 2 ^ 32 + (b4 * 2 ^ 24 + (b5 * 2 ^ 16 + (b6 * 2 ^ 8 + b7)))))).
Proof.
  intros H1 H2 H3 H4 H5 H6 H7. rewrite <- !N.lor_assoc.
  rewrite (lor_shiftl_add b6 8 b7) by (change (2 ^ 8) with 256; lia).
  rewrite (lor_shiftl_add b5 16) by (change (2 ^ 16) with 65536; change (2 ^ 8) with 256; lia).
  rewrite (lor_shiftl_add b4 24)
    by (change (2 ^ 24) with 16777216; change (2 ^ 16) with 65536; change (2 ^ 8) with 256; lia).
  rewrite (lor_shiftl_add b3 32)
    by (change (2 ^ 32) with 4294967296; change (2 ^ 24) with 16777216; change (2 ^ 16) with 65536;
        change (2 ^ 8) with 256; lia).
  rewrite (lor_shiftl_add b2 40)
    by (change (2 ^ 40) with 1099511627776; change (2 ^ 32) with 4294967296;
        change (2 ^ 24) with 16777216; change (2 ^ 16) with 65536; change (2 ^ 8) with 256; lia).
  rewrite (lor_shiftl_add b1 48)
    by (change (2 ^ 48) with 281474976710656; change (2 ^ 40) with 1099511627776;
        change (2 ^ 32) with 4294967296; change (2 ^ 24) with 16777216; change (2 ^ 16) with 65536;
        change (2 ^ 8) with 256; lia).
  rewrite (lor_shiftl_add a 56)
    by (change (2 ^ 56) with 72057594037927936; change (2 ^ 48) with 281474976710656;
        change (2 ^ 40) with 1099511627776; change (2 ^ 32) with 4294967296;
        change (2 ^ 24) with 16777216; change (2 ^ 16) with 65536; change (2 ^ 8) with 256; lia).
  reflexivity.
Qed.

(** * The decoder equals its specification on every byte string *)
Lemma consume_varint_eq_spec b : consume_varint b = consume_spec b.
Proof.
  destruct b as [|c0 t]; [reflexivity|].
  unfold consume_varint, consume_spec, announced.
  rewrite shiftr6, land63. fold (class_of c0).
  pose proof (class_lt c0) as Hc.
  assert (Hcase : class_of c0 = 0 \/ class_of c0 = 1 \/ class_of c0 = 2 \/ class_of c0 = 3) by lia.
  destruct Hcase as [E|[E|[E|E]]]; rewrite E.
  - cbn [length Nat.ltb Nat.leb Nat.sub firstn be_dec N.of_nat]. rewrite N.pow_0_r. f_equal. f_equal. now rewrite N.mul_1_r, N.add_0_r.
  - destruct t as [|b1 t]; [reflexivity|].
    unfold at_. cbn [length Nat.ltb Nat.leb Nat.sub firstn be_dec N.of_nat nth].
    rewrite lor2 by apply b2n_lt. f_equal. f_equal.
    change (N.pos (Pos.of_succ_nat 0)) with 1. rewrite N.pow_1_r, N.pow_0_r. lia.
  - destruct t as [|b1 [|b2 [|b3 t]]]; try reflexivity.
    unfold at_. cbn [length Nat.ltb Nat.leb Nat.sub firstn be_dec nth].
    rewrite lor4 by apply b2n_lt. f_equal. f_equal. cbn [length N.of_nat Pos.of_succ_nat Pos.succ].
    change (256 ^ 3) with (2 ^ 24). change (256 ^ 2) with (2 ^ 16). change (256 ^ 1) with (2 ^ 8).
    rewrite N.pow_0_r. lia.
  - destruct t as [|b1 [|b2 [|b3 [|b4 [|b5 [|b6 [|b7 t]]]]]]]; try reflexivity.
    unfold at_. cbn [length Nat.ltb Nat.leb Nat.sub firstn be_dec nth].
    rewrite lor8 by apply b2n_lt. f_equal. f_equal. cbn [length N.of_nat Pos.of_succ_nat Pos.succ].
    change (256 ^ 7) with (2 ^ 56). change (256 ^ 6) with (2 ^ 48). change (256 ^ 5) with (2 ^ 40).
    change (256 ^ 4) with (2 ^ 32).
    change (256 ^ 3) with (2 ^ 24). change (256 ^ 2) with (2 ^ 16). change (256 ^ 1) with (2 ^ 8).
    rewrite N.pow_0_r. lia.
Qed.

(** * The encoder equals its specification *)
Lemma bsh_eq v k : bsh v (8 * N.of_nat k) = n2b (v / 256 ^ N.of_nat k).
Proof. unfold bsh. rewrite N.shiftr_div_pow2, N.pow_mul_r. reflexivity. Qed.

Lemma tag_eq c x : x < 64 -> tag (N.shiftl c 6) (n2b x) = n2b (c * 64 + x).
Proof.
  intro H. unfold tag. rewrite b2n_n2b, (N.mod_small x 256) by lia.
  rewrite lor_shiftl_add by (change (2 ^ 6) with 64; lia). reflexivity.
Qed.

Lemma size_varint_eq_spec v : v <= max_varint -> size_varint v = Ok (size_spec v).
Proof.
  unfold max_varint, size_varint, size_spec. intro H.
  change (2 ^ 6) with 64. change (2 ^ 14) with 16384. change (2 ^ 30) with 1073741824.
  destruct (v <=? 63) eqn:E1; destruct (v <? 64) eqn:F1; try lia; [reflexivity|].
  destruct (v <=? 16383) eqn:E2; destruct (v <? 16384) eqn:F2; try lia; [reflexivity|].
  destruct (v <=? 1073741823) eqn:E3; destruct (v <? 1073741824) eqn:F3; try lia; [reflexivity|].
  destruct (v <=? 4611686018427387903) eqn:E4; try lia; reflexivity.
Qed.

Lemma size_varint_panics v : max_varint < v -> size_varint v = Panic /\ forall p, append_varint p v = Panic.
Proof.
  unfold max_varint, size_varint, append_varint. intro H.
  destruct (v <=? 63) eqn:E1; try lia. destruct (v <=? 16383) eqn:E2; try lia.
  destruct (v <=? 1073741823) eqn:E3; try lia. destruct (v <=? 4611686018427387903) eqn:E4; try lia.
  split; reflexivity.
Qed.

Lemma append_varint_eq_spec p v : v <= max_varint -> append_varint p v = Ok (p ++ enc_spec v).
Proof.
  unfold max_varint, append_varint, enc_spec, size_spec, class_spec. intro H.
  change (2 ^ 6) with 64. change (2 ^ 14) with 16384. change (2 ^ 30) with 1073741824.
  destruct (v <=? 63) eqn:E1; destruct (v <? 64) eqn:F1; try lia.
  { cbn [Nat.sub be_enc N.of_nat]. rewrite N.pow_0_r, N.div_1_r. reflexivity. }
  destruct (v <=? 16383) eqn:E2; destruct (v <? 16384) eqn:F2; try lia.
  { cbn [Nat.sub be_enc]. do 3 f_equal.
    - change 8 with (8 * N.of_nat 1). rewrite bsh_eq. change 64 with (N.shiftl 1 6) at 1.
      apply tag_eq. change (256 ^ N.of_nat 1) with 256. lia.
    - f_equal. now rewrite N.pow_0_r, N.div_1_r. }
  destruct (v <=? 1073741823) eqn:E3; destruct (v <? 1073741824) eqn:F3; try lia.
  { cbn [Nat.sub be_enc]. do 3 f_equal; [|do 1 f_equal; [|do 1 f_equal; [|f_equal]]].
    - change 24 with (8 * N.of_nat 3). rewrite bsh_eq. change 128 with (N.shiftl 2 6) at 1.
      apply tag_eq. change (256 ^ N.of_nat 3) with 16777216. lia.
    - change 16 with (8 * N.of_nat 2). apply bsh_eq.
    - change 8 with (8 * N.of_nat 1). apply bsh_eq.
    - now rewrite N.pow_0_r, N.div_1_r. }
  destruct (v <=? 4611686018427387903) eqn:E4; try lia.
  cbn [Nat.sub be_enc]. do 3 f_equal; [|repeat (f_equal; [|])].
  - change 56 with (8 * N.of_nat 7). rewrite bsh_eq. change 192 with (N.shiftl 3 6) at 1.
    apply tag_eq. change (256 ^ N.of_nat 7) with 72057594037927936. lia.
  - change 48 with (8 * N.of_nat 6). apply bsh_eq.
  - change 40 with (8 * N.of_nat 5). apply bsh_eq.
  - change 32 with (8 * N.of_nat 4). apply bsh_eq.
  - change 24 with (8 * N.of_nat 3). apply bsh_eq.
  - change 16 with (8 * N.of_nat 2). apply bsh_eq.
  - change 8 with (8 * N.of_nat 1). apply bsh_eq.
  - f_equal. now rewrite N.pow_0_r, N.div_1_r.
Qed.

Lemma enc_spec_length v : length (enc_spec v) = size_spec v.
Proof.
  unfold enc_spec. cbn [length]. rewrite be_enc_length. unfold size_spec.
  destruct (v <? 2 ^ 6), (v <? 2 ^ 14), (v <? 2 ^ 30); reflexivity.
Qed.

(** hi digit and class facts *)
Lemma spec_hi_lt v : v <= max_varint -> v / 256 ^ N.of_nat (size_spec v - 1) < 64.
Proof.
  unfold max_varint, size_spec. intro H.
  change (2 ^ 6) with 64. change (2 ^ 14) with 16384. change (2 ^ 30) with 1073741824.
  destruct (v <? 64) eqn:F1; [cbn [Nat.sub N.of_nat]; rewrite N.pow_0_r, N.div_1_r; lia|].
  destruct (v <? 16384) eqn:F2; [change (256 ^ N.of_nat (2 - 1)) with 256; lia|].
  destruct (v <? 1073741824) eqn:F3; [change (256 ^ N.of_nat (4 - 1)) with 16777216; lia|].
  change (256 ^ N.of_nat (8 - 1)) with 72057594037927936; lia.
Qed.

Lemma class_spec_lt v : class_spec v < 4.
Proof. unfold class_spec. destruct (v <? 2 ^ 6), (v <? 2 ^ 14), (v <? 2 ^ 30); lia. Qed.

Lemma announced_class_spec v c0 : class_of c0 = class_spec v -> announced c0 = size_spec v.
Proof.
  unfold announced, class_spec, size_spec. intros ->.
  destruct (v <? 2 ^ 6), (v <? 2 ^ 14), (v <? 2 ^ 30); reflexivity.
Qed.

Lemma consume_enc_spec v rest : v <= max_varint ->
  consume_spec (enc_spec v ++ rest) = Some (v, size_spec v).
Proof.
  intro H. unfold enc_spec. cbn [app]. unfold consume_spec.
  set (k := size_spec v). set (hi := v / 256 ^ N.of_nat (k - 1)).
  assert (Hhi : hi < 64) by (apply spec_hi_lt; exact H).
  pose proof (class_spec_lt v) as Hc.
  set (c0 := n2b (class_spec v * 64 + hi)).
  assert (Hc0 : b2n c0 = class_spec v * 64 + hi).
  { unfold c0. rewrite b2n_n2b. apply N.mod_small. lia. }
  assert (Hcl : class_of c0 = class_spec v).
  { unfold class_of. rewrite Hc0. rewrite N.div_add_l by lia. rewrite (N.div_small hi 64) by lia. lia. }
  rewrite (announced_class_spec v c0 Hcl). fold k.
  assert (Hk : (1 <= k)%nat).
  { unfold k, size_spec. destruct (v <? 2 ^ 6), (v <? 2 ^ 14), (v <? 2 ^ 30); lia. }
  cbn [length]. rewrite app_length, be_enc_length.
  replace (Nat.ltb (S (k - 1 + length rest)) k) with false by (symmetry; apply Nat.ltb_ge; lia).
  rewrite firstn_app, be_enc_length, Nat.sub_diag, firstn_O, app_nil_r.
  rewrite firstn_all2 by (rewrite be_enc_length; lia).
  rewrite be_dec_enc. f_equal. f_equal.
  replace (b2n c0 mod 64) with hi
    by (rewrite Hc0, (N.add_comm _ hi), N.mod_add by lia; now rewrite N.mod_small by lia).
  unfold hi. set (P := 256 ^ N.of_nat (k - 1)).
  assert (HP : P <> 0) by (apply N.pow_nonzero; lia).
  rewrite (N.div_mod v P) at 3 by exact HP. lia.
Qed.

(** shortest form *)
Definition in_classes (k : nat) : Prop := k = 1%nat \/ k = 2%nat \/ k = 4%nat \/ k = 8%nat.
Definition fits (v : N) (k : nat) : Prop := v < 2 ^ (8 * N.of_nat k - 2).
Definition shortest (v : N) (k : nat) : Prop :=
  in_classes k /\ fits v k /\ forall k', in_classes k' -> fits v k' -> (k <= k')%nat.

Lemma size_spec_shortest v : v <= max_varint -> shortest v (size_spec v).
Proof.
  unfold max_varint, shortest, in_classes, fits, size_spec. intro H.
  change (2 ^ 6) with 64. change (2 ^ 14) with 16384. change (2 ^ 30) with 1073741824.
  destruct (v <? 64) eqn:F1; [|destruct (v <? 16384) eqn:F2; [|destruct (v <? 1073741824) eqn:F3]].
  - split; [auto|]. split; [change (2 ^ (8 * N.of_nat 1 - 2)) with 64; lia|].
    intros k' [->|[->|[->| ->]]] _; lia.
  - split; [auto|]. split; [change (2 ^ (8 * N.of_nat 2 - 2)) with 16384; lia|].
    intros k' [->|[->|[->| ->]]]; try lia. change (2 ^ (8 * N.of_nat 1 - 2)) with 64. lia.
  - split; [auto|]. split; [change (2 ^ (8 * N.of_nat 4 - 2)) with 1073741824; lia|].
    intros k' [->|[->|[->| ->]]]; try lia.
    + change (2 ^ (8 * N.of_nat 1 - 2)) with 64. lia.
    + change (2 ^ (8 * N.of_nat 2 - 2)) with 16384. lia.
  - split; [auto 6|]. split; [change (2 ^ (8 * N.of_nat 8 - 2)) with 4611686018427387904; lia|].
    intros k' [->|[->|[->| ->]]]; try lia.
    + change (2 ^ (8 * N.of_nat 1 - 2)) with 64. lia.
    + change (2 ^ (8 * N.of_nat 2 - 2)) with 16384. lia.
    + change (2 ^ (8 * N.of_nat 4 - 2)) with 1073741824. lia.
Qed.

(** * Property-level statements *)

Theorem append_varint_exact_l p v : v <= max_varint ->
  exists e, append_varint p v = Ok (p ++ e) /\ size_varint v = Ok (length e) /\ shortest v (length e).
Proof.
  intro H. exists (enc_spec v). rewrite enc_spec_length.
  split; [now apply append_varint_eq_spec|]. split; [now apply size_varint_eq_spec|].
  now apply size_spec_shortest.
Qed.

Theorem consume_append_l v rest e : v <= max_varint -> append_varint [] v = Ok e ->
  consume_varint (e ++ rest) = Some (v, length e).
Proof.
  intros H E. rewrite append_varint_eq_spec in E by exact H. cbn [app] in E. inversion E; subst e.
  rewrite consume_varint_eq_spec, enc_spec_length. now apply consume_enc_spec.
Qed.

Lemma announced_pow c0 : N.of_nat (announced c0) = 2 ^ (b2n c0 / 64).
Proof.
  unfold announced. fold (class_of c0). pose proof (class_lt c0).
  assert (Hcase : class_of c0 = 0 \/ class_of c0 = 1 \/ class_of c0 = 2 \/ class_of c0 = 3) by lia.
  destruct Hcase as [E|[E|[E|E]]]; rewrite E; reflexivity.
Qed.

Lemma announced_pos c0 : (1 <= announced c0)%nat.
Proof.
  unfold announced. destruct (class_of c0) as [|[[[]|[]|]|[[]|[]|]|]]; lia.
Qed.

Theorem consume_reads_announced_l c0 t :
  let k := announced c0 in
  (consume_varint (c0 :: t) = None <-> (length (c0 :: t) < k)%nat) /\
  (forall v n, consume_varint (c0 :: t) = Some (v, n) ->
     n = k /\ v < 2 ^ 62 /\
     forall t', firstn k (c0 :: t') = firstn k (c0 :: t) -> consume_varint (c0 :: t') = Some (v, n)).
Proof.
  intro k. rewrite consume_varint_eq_spec. unfold consume_spec. fold k.
  pose proof (announced_pos c0) as Hk. fold k in Hk.
  destruct (Nat.ltb (length (c0 :: t)) k) eqn:E.
  - apply Nat.ltb_lt in E. split; [tauto|]. intros v n Hv. discriminate.
  - apply Nat.ltb_ge in E. split; [split; [discriminate|lia]|].
    intros v n Hv. inversion Hv; subst n. clear Hv. split; [reflexivity|]. split.
    + (* value < 2^62 *)
      assert (Hm : b2n c0 mod 64 < 64) by (apply N.mod_lt; lia).
      pose proof (be_dec_lt (firstn (k - 1) t)) as Hd.
      rewrite firstn_length_le in Hd by (cbn [length] in E; lia).
      set (P := 256 ^ N.of_nat (k - 1)) in *.
      assert (HP : 64 * P <= 2 ^ 62).
      { unfold P, k, announced. destruct (class_of c0) as [|[[[]|[]|]|[[]|[]|]|]]; vm_compute; discriminate. }
      nia.
    + intros t' Hf. rewrite consume_varint_eq_spec. unfold consume_spec. fold k.
      assert (Hl : (k <= length (c0 :: t'))%nat).
      { apply (f_equal (@length byte)) in Hf. rewrite !firstn_length in Hf. lia. }
      replace (Nat.ltb (length (c0 :: t')) k) with false by (symmetry; apply Nat.ltb_ge; exact Hl).
      f_equal. f_equal. f_equal. f_equal.
      destruct k as [|k']; [lia|]. cbn [firstn] in Hf. inversion Hf.
      replace (S k' - 1)%nat with k' by lia. assumption.
Qed.

Theorem consume_empty : consume_varint [] = None.
Proof. reflexivity. Qed.

(** * Length-prefixed byte strings *)

Lemma consume_varint_le b v n : consume_varint b = Some (v, n) -> (n <= length b)%nat.
Proof.
  destruct b as [|c0 t]; [discriminate|]. intro H.
  destruct (consume_reads_announced_l c0 t) as [Hnone Hsome].
  destruct (Hsome v n H) as [-> _].
  destruct (Nat.lt_ge_cases (length (c0 :: t)) (announced c0)) as [Hlt|Hge]; [|exact Hge].
  apply Hnone in Hlt. congruence.
Qed.

Theorem consume_varint_bytes_safe_l b :
  match consume_varint_bytes b with
  | Panic => False
  | Err => False
  | Ok None => True
  | Ok (Some (v, n)) =>
      exists h r, b = h ++ v ++ r /\ n = (length h + length v)%nat /\
                  consume_varint b = Some (N.of_nat (length v), length h)
  end.
Proof.
  unfold consume_varint_bytes. destruct (consume_varint b) as [[size n]|] eqn:E; [|exact I].
  pose proof (consume_varint_le _ _ _ E) as Hn.
  unfold slice_from. replace (Nat.ltb (length b) n) with false by (symmetry; apply Nat.ltb_ge; lia).
  cbn [bind]. rewrite skipn_length.
  destruct (N.of_nat (length b - n) <? size) eqn:F; [exact I|].
  apply N.ltb_ge in F. unfold slice_to. rewrite skipn_length.
  replace (Nat.ltb (length b - n) (N.to_nat size)) with false by (symmetry; apply Nat.ltb_ge; lia).
  cbn [bind].
  exists (firstn n b), (skipn (N.to_nat size) (skipn n b)).
  rewrite firstn_length_le by exact Hn.
  rewrite firstn_length_le by (rewrite skipn_length; lia).
  rewrite N2Nat.id. split; [|split; [lia|reflexivity]].
  rewrite (firstn_skipn (N.to_nat size) (skipn n b)). now rewrite firstn_skipn.
Qed.

Theorem declared_too_long_rejected_l b len h :
  consume_varint b = Some (len, h) -> N.of_nat (length b - h) < len -> consume_varint_bytes b = Ok None.
Proof.
  intros E Hlt. unfold consume_varint_bytes. rewrite E.
  pose proof (consume_varint_le _ _ _ E) as Hn.
  unfold slice_from. replace (Nat.ltb (length b) h) with false by (symmetry; apply Nat.ltb_ge; lia).
  cbn [bind]. rewrite skipn_length. apply N.ltb_lt in Hlt. now rewrite Hlt.
Qed.

Theorem varint_bytes_roundtrip_l p v rest :
  N.of_nat (length v) <= max_varint ->
  exists e, append_varint_bytes p v = Ok (p ++ e) /\
            consume_varint_bytes (e ++ rest) = Ok (Some (v, length e)).
Proof.
  intro H. unfold append_varint_bytes. rewrite append_varint_eq_spec by exact H. cbn [bind].
  set (hd := enc_spec (N.of_nat (length v))).
  exists (hd ++ v). split; [now rewrite app_assoc|].
  unfold consume_varint_bytes. rewrite <- app_assoc.
  rewrite consume_varint_eq_spec. unfold hd. rewrite consume_enc_spec by exact H.
  fold hd. assert (Hl : length hd = size_spec (N.of_nat (length v))) by apply enc_spec_length.
  rewrite <- Hl. unfold slice_from. rewrite app_length.
  replace (Nat.ltb (length hd + length (v ++ rest)) (length hd)) with false
    by (symmetry; apply Nat.ltb_ge; lia).
  cbn [bind]. rewrite skipn_app, Nat.sub_diag, skipn_all, skipn_O. cbn [app].
  rewrite app_length.
  replace (N.of_nat (length v + length rest) <? N.of_nat (length v)) with false
    by (symmetry; apply N.ltb_ge; lia).
  unfold slice_to. rewrite Nat2N.id, app_length.
  replace (Nat.ltb (length v + length rest) (length v)) with false by (symmetry; apply Nat.ltb_ge; lia).
  cbn [bind]. rewrite firstn_app, Nat.sub_diag, firstn_O, app_nil_r, firstn_all.
  do 3 f_equal. rewrite app_length. lia.
Qed.

Theorem append_varint_bytes_panics_l p v :
  max_varint < N.of_nat (length v) -> append_varint_bytes p v = Panic.
Proof.
  intro H. unfold append_varint_bytes. destruct (size_varint_panics _ H) as [_ Hp]. now rewrite Hp.
Qed.

Theorem consume_uint8_bytes_safe_l b :
  match consume_uint8_bytes b with
  | Panic => False
  | Err => False
  | Ok None => b = [] \/ exists c0 t, b = c0 :: t /\ (length t < N.to_nat (b2n c0))%nat
  | Ok (Some (v, n)) =>
      exists c0 r, b = c0 :: v ++ r /\ n = S (length v) /\ b2n c0 = N.of_nat (length v)
  end.
Proof.
  destruct b as [|c0 t]; [cbn; auto|].
  unfold consume_uint8_bytes, slice_from. change (Nat.ltb (length (c0 :: t)) 1) with false. cbn [bind skipn].
  destruct (Nat.ltb (length t) (N.to_nat (b2n c0))) eqn:E.
  - apply Nat.ltb_lt in E. right. exists c0, t. auto.
  - unfold slice_to. rewrite E. cbn [bind]. apply Nat.ltb_ge in E.
    exists c0, (skipn (N.to_nat (b2n c0)) t). rewrite firstn_skipn.
    rewrite firstn_length_le by exact E. split; [reflexivity|]. split; [lia|]. now rewrite N2Nat.id.
Qed.

Theorem uint8_bytes_roundtrip_l p v rest :
  (length v <= 255)%nat ->
  exists e, append_uint8_bytes p v = Ok (p ++ e) /\
            consume_uint8_bytes (e ++ rest) = Ok (Some (v, length e)).
Proof.
  intro H. unfold append_uint8_bytes.
  replace (Nat.ltb 255 (length v)) with false by (symmetry; apply Nat.ltb_ge; lia).
  exists (n2b (N.of_nat (length v)) :: v). split; [now rewrite <- app_assoc|].
  cbn [app]. unfold consume_uint8_bytes, slice_from.
  change (Nat.ltb (length (n2b (N.of_nat (length v)) :: v ++ rest)) 1) with false. cbn [bind skipn].
  rewrite b2n_n2b, N.mod_small by lia. rewrite Nat2N.id, app_length.
  replace (Nat.ltb (length v + length rest) (length v)) with false by (symmetry; apply Nat.ltb_ge; lia).
  unfold slice_to. rewrite app_length.
  replace (Nat.ltb (length v + length rest) (length v)) with false by (symmetry; apply Nat.ltb_ge; lia).
  cbn [bind]. rewrite firstn_app, Nat.sub_diag, firstn_O, app_nil_r, firstn_all.
  do 3 f_equal. cbn [length]. lia.
Qed.

Theorem append_uint8_bytes_panics_l p v : (255 < length v)%nat -> append_uint8_bytes p v = Panic.
Proof. intro H. unfold append_uint8_bytes. apply Nat.ltb_lt in H. now rewrite H. Qed.

Theorem uint32_roundtrip_l v rest : v < 2 ^ 32 -> consume_uint32 (be_enc 4 v ++ rest) = Some (v, 4%nat).
Proof.
  intro H. unfold consume_uint32. rewrite app_length, be_enc_length.
  replace (Nat.ltb (4 + length rest) 4) with false by (symmetry; apply Nat.ltb_ge; lia).
  rewrite firstn_app, be_enc_length, Nat.sub_diag, firstn_O, app_nil_r.
  rewrite firstn_all2 by (rewrite be_enc_length; lia).
  rewrite be_enc_small by (change (256 ^ N.of_nat 4) with (2 ^ 32); exact H). reflexivity.
Qed.
Theorem uint64_roundtrip_l v rest : v < 2 ^ 64 -> consume_uint64 (be_enc 8 v ++ rest) = Some (v, 8%nat).
Proof.
  intro H. unfold consume_uint64. rewrite app_length, be_enc_length.
  replace (Nat.ltb (8 + length rest) 8) with false by (symmetry; apply Nat.ltb_ge; lia).
  rewrite firstn_app, be_enc_length, Nat.sub_diag, firstn_O, app_nil_r.
  rewrite firstn_all2 by (rewrite be_enc_length; lia).
  rewrite be_enc_small by (change (256 ^ N.of_nat 8) with (2 ^ 64); exact H). reflexivity.
Qed.
Theorem uint_short_l b : (consume_uint32 b = None <-> (length b < 4)%nat) /\ (consume_uint64 b = None <-> (length b < 8)%nat).
Proof.
  unfold consume_uint32, consume_uint64.
  destruct (Nat.ltb (length b) 4) eqn:E4; destruct (Nat.ltb (length b) 8) eqn:E8;
  try apply Nat.ltb_lt in E4; try apply Nat.ltb_ge in E4; try apply Nat.ltb_lt in E8; try apply Nat.ltb_ge in E8;
  split; split; try discriminate; try lia; auto.
Qed.

(** The encoding is prefix-free: two encodings followed by anything agree as byte strings
    only if the values, the encodings and the tails agree — so a concatenation of
    varint-framed fields parses in exactly one way. *)
Theorem append_varint_prefix_free_l v1 v2 e1 e2 r1 r2 :
  v1 <= max_varint -> v2 <= max_varint ->
  append_varint [] v1 = Ok e1 -> append_varint [] v2 = Ok e2 ->
  e1 ++ r1 = e2 ++ r2 -> v1 = v2 /\ e1 = e2 /\ r1 = r2.
Proof.
  intros H1 H2 E1 E2 Heq.
  pose proof (consume_append_l v1 r1 e1 H1 E1) as C1.
  pose proof (consume_append_l v2 r2 e2 H2 E2) as C2.
  rewrite Heq in C1. rewrite C1 in C2. injection C2 as Hv Hl.
  subst v2. rewrite E1 in E2. injection E2 as He. subst e2.
  split; [reflexivity | split; [reflexivity | exact (app_inv_head _ _ _ Heq)]].
Qed.
Theorem append_varint_injective_l v1 v2 e :
  v1 <= max_varint -> v2 <= max_varint ->
  append_varint [] v1 = Ok e -> append_varint [] v2 = Ok e -> v1 = v2.
Proof.
  intros H1 H2 E1 E2.
  destruct (append_varint_prefix_free_l v1 v2 e e [] [] H1 H2 E1 E2 eq_refl) as [Hv _]. exact Hv.
Qed.

(** Length-prefixed byte strings are prefix-free too (both framings). *)
Theorem varint_bytes_prefix_free_l v1 v2 e1 e2 r1 r2 :
  N.of_nat (length v1) <= max_varint -> N.of_nat (length v2) <= max_varint ->
  append_varint_bytes [] v1 = Ok e1 -> append_varint_bytes [] v2 = Ok e2 ->
  e1 ++ r1 = e2 ++ r2 -> v1 = v2 /\ e1 = e2 /\ r1 = r2.
Proof.
  intros H1 H2 E1 E2 Heq.
  destruct (varint_bytes_roundtrip_l [] v1 r1 H1) as [x1 [A1 C1]].
  destruct (varint_bytes_roundtrip_l [] v2 r2 H2) as [x2 [A2 C2]].
  cbn [app] in A1, A2. rewrite E1 in A1. injection A1 as <-. rewrite E2 in A2. injection A2 as <-.
  rewrite Heq in C1. rewrite C1 in C2. injection C2 as Hv Hl.
  subst v2. rewrite E1 in E2. injection E2 as He. subst e2.
  split; [reflexivity | split; [reflexivity | exact (app_inv_head _ _ _ Heq)]].
Qed.
Theorem uint8_bytes_prefix_free_l v1 v2 e1 e2 r1 r2 :
  (length v1 <= 255)%nat -> (length v2 <= 255)%nat ->
  append_uint8_bytes [] v1 = Ok e1 -> append_uint8_bytes [] v2 = Ok e2 ->
  e1 ++ r1 = e2 ++ r2 -> v1 = v2 /\ e1 = e2 /\ r1 = r2.
Proof.
  intros H1 H2 E1 E2 Heq.
  destruct (uint8_bytes_roundtrip_l [] v1 r1 H1) as [x1 [A1 C1]].
  destruct (uint8_bytes_roundtrip_l [] v2 r2 H2) as [x2 [A2 C2]].
  cbn [app] in A1, A2. rewrite E1 in A1. injection A1 as <-. rewrite E2 in A2. injection A2 as <-.
  rewrite Heq in C1. rewrite C1 in C2. injection C2 as Hv Hl.
  subst v2. rewrite E1 in E2. injection E2 as He. subst e2.
  split; [reflexivity | split; [reflexivity | exact (app_inv_head _ _ _ Heq)]].
Qed.

(** Non-vacuity: concrete instances *)
Example ex_enc_16383 : append_varint [x01] 16383 = Ok [x01; x7f; xff].
Proof. vm_compute. reflexivity. Qed.
Example ex_enc_16384 : append_varint [] 16384 = Ok [x80; x00; x40; x00].
Proof. vm_compute. reflexivity. Qed.
Example ex_dec_max : consume_varint [xff;xff;xff;xff;xff;xff;xff;xff;x00] = Some (max_varint, 8%nat).
Proof. vm_compute. reflexivity. Qed.
Example ex_bytes_too_long : consume_varint_bytes [xff;xff;xff;xff;xff;xff;xff;xff;x00] = Ok None.
Proof. vm_compute. reflexivity. Qed.
