(** C08 — the anonymous issuer origin ID depends only on the client key and the origin index key.
    Layer B over an ARBITRARY field, point encoding [enc] and KDF [kdf]: client secret d (public key d * 1),
    per-request blind factor bc, origin index factor bo.  The factors are Model/Derive.v [ecdsa_blind_factor]
    with the contexts u16(3)||"ClientBlind" / u16(3)||"IssuerBlind"; the KDF is [compute_index]
    (HKDF-SHA-384, salt = client key, ikm = unblinded key, info "IssuerOriginAlias"), both executed against the code. *)
From Coq Require Import Field Bool.
From PatVerif Require Import Model.Algebra Proofs.AlgebraP.

Section C08.
  Variable F : Type.
  Variables (f0 f1 : F) (fadd fmul fsub : F -> F -> F) (fopp : F -> F) (fdiv : F -> F -> F) (finv : F -> F).
  Hypothesis Fth : field_theory f0 f1 fadd fmul fsub fopp fdiv finv (@eq F).
  Variable B : Type.
  Variable enc : F -> B.
  Variable kdf : B -> B -> B.
  Notation finalize_index := (finalize_index F fmul finv B enc kdf).
  Notation origin_index := (origin_index F fmul B enc kdf).
  Notation request_key := (request_key F fmul).
  Notation issuer_blinded_key := (issuer_blinded_key F fmul).

  (** what the attester derives at the end of client -> issuer -> attester is KDF(ikm = enc(bo * d), salt = enc(d)),
      for every client key, index factor and non-zero request blind *)
  Theorem index_closed_form : forall d bc bo, bc <> f0 ->
    finalize_index d bc (issuer_blinded_key (request_key d bc) bo) = origin_index d bo.
  Proof. exact (index_closed_form_l F f0 f1 fadd fmul fsub fopp fdiv finv Fth B enc kdf). Qed.

  (** hence identical across all request blinds (nonces and challenges do not enter the computation at all) *)
  Theorem index_stable : forall d bo bc bc', bc <> f0 -> bc' <> f0 ->
    finalize_index d bc (issuer_blinded_key (request_key d bc) bo) =
    finalize_index d bc' (issuer_blinded_key (request_key d bc') bo).
  Proof. exact (index_stable_l F f0 f1 fadd fmul fsub fopp fdiv finv Fth B enc kdf). Qed.

  (** distinct clients, or distinct index factors, feed DISTINCT inputs to the KDF when point encoding is injective:
      equal IDs would then be an HKDF collision *)
  Theorem index_inputs_distinct : forall d d' bo bo', (forall u v, enc u = enc v -> u = v) -> d <> f0 ->
    (d <> d' \/ bo <> bo') ->
    (enc (blind_pk F fmul d bo), enc d) <> (enc (blind_pk F fmul d' bo'), enc d').
  Proof. exact (index_inputs_distinct_l F f0 f1 fadd fmul fsub fopp fdiv finv Fth B enc). Qed.

  (** the issuer's second return value is the request key blinded once more; blinding order does not matter *)
  Theorem issuer_key_commutes : forall d bc bo,
    issuer_blinded_key (request_key d bc) bo = request_key (blind_pk F fmul d bo) bc.
  Proof. intros. apply (blind_commutes_l F f0 f1 fadd fmul fsub fopp fdiv finv Fth). Qed.
End C08.
Print Assumptions index_closed_form.
Print Assumptions index_stable.
Print Assumptions index_inputs_distinct.
Print Assumptions issuer_key_commutes.

(** the same at the arithmetic the harness EXECUTES against the code (Model/Derive.v [mulm], [invm] on N; the inverse is
    the extended-Euclid loop of Base/Zq.v), for every prime group order q: removing the client blind bc from the
    issuer-blinded request key exponent bo * (bc * d) leaves bo * d *)
From Coq Require Import ZArith NArith Znumtheory.
From PatVerif Require Import Model.Derive Proofs.ZqP.
Theorem index_exponent_executed : forall q d bc bo, prime (Z.of_N q) -> (bc mod q <> 0)%N ->
  mulm q (invm q bc) (mulm q bo (mulm q bc d)) = mulm q bo d.
Proof. exact exec_index_exponent. Qed.
Print Assumptions index_exponent_executed.

(** ... and with the executed KDF (Model/Derive.v [compute_index]: the Coq HKDF-SHA-384 with the label of the source, see
    Gen/Tie_C08.v) over ANY encoding of exponents as points: the ID the attester computes is the closed form's, and is
    the same for every non-zero request blind *)
Theorem index_executed_closed_form : forall q (enc : N -> list Byte.byte) d bc bo, prime (Z.of_N q) -> (bc mod q <> 0)%N ->
  compute_index (enc (d mod q)%N) (enc (mulm q (invm q bc) (mulm q bo (mulm q bc d)))) =
  compute_index (enc (d mod q)%N) (enc (mulm q bo d)).
Proof. exact exec_index_closed_form. Qed.
Theorem index_executed_stable : forall q (enc : N -> list Byte.byte) d bo bc bc', prime (Z.of_N q) -> (bc mod q <> 0)%N -> (bc' mod q <> 0)%N ->
  compute_index (enc (d mod q)%N) (enc (mulm q (invm q bc) (mulm q bo (mulm q bc d)))) =
  compute_index (enc (d mod q)%N) (enc (mulm q (invm q bc') (mulm q bo (mulm q bc' d)))).
Proof. exact exec_index_stable. Qed.
Print Assumptions index_executed_closed_form.
Print Assumptions index_executed_stable.
