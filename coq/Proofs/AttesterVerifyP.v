From PatVerif Require Import Model.AttesterVerify Proofs.CodecsP.
From Coq Require Import ZifyN ZifyNat ZifyBool.

Section P.
  Variable parse_pk : list byte -> bool.
  Variable sig_verify : list byte -> list byte -> list byte -> bool.
  Variable blind_pk : list byte -> list byte -> list byte.
  Notation vr := (verify_request parse_pk sig_verify blind_pk).

  Theorem accept_only_authentic_l s r blind ck s' tr :
    vr s r blind ck = (Ok tt, s', tr) ->
    parse_pk (q3_key r) = true /\
    sig_verify (q3_key r) (signed_message r) (q3_sig r) = true /\
    parse_pk ck = true /\
    blind_pk ck blind = q3_key r /\
    s' = register s ck.
  Proof.
    unfold verify_request, inner_verify.
    destruct (parse_pk (q3_key r)) eqn:E1; cbn [negb]; [|intro H; inversion H].
    destruct (Nat.eqb (length (q3_sig r)) 96) eqn:E2; cbn [negb]; [|intro H; inversion H].
    destruct (fits16 (q3_enc r)) eqn:E3; cbn [negb]; [|intro H; inversion H].
    destruct (sig_verify (q3_key r) (signed_message r) (q3_sig r)) eqn:E4; [|intro H; inversion H].
    destruct (parse_pk ck) eqn:E5; cbn [negb]; [|intro H; inversion H].
    destruct (bytes_eqb (blind_pk ck blind) (q3_key r)) eqn:E6; cbn [negb]; [|intro H; inversion H].
    apply bytes_eqb_eq in E6. unfold register.
    destruct (s ck) eqn:E7; intro H; inversion H; subst; auto.
  Qed.

  (** the converse: exactly these four checks decide; nothing else can cause a rejection *)
  Theorem authentic_accepted_l s r blind ck :
    length (q3_sig r) = 96%nat -> fits16 (q3_enc r) = true ->
    parse_pk (q3_key r) = true -> sig_verify (q3_key r) (signed_message r) (q3_sig r) = true ->
    parse_pk ck = true -> blind_pk ck blind = q3_key r ->
    exists tr, vr s r blind ck = (Ok tt, register s ck, tr).
  Proof.
    intros Hl Hf H1 H2 H3 H4. unfold verify_request, inner_verify. rewrite H1. cbn [negb].
    rewrite Hl. cbn [Nat.eqb negb].
    rewrite Hf. cbn [negb]. rewrite H2, H3. cbn [negb]. rewrite H4, bytes_eqb_refl. cbn [negb].
    unfold register. destruct (s ck); eexists; reflexivity.
  Qed.

  Theorem reject_no_state_l s r blind ck res s' tr :
    vr s r blind ck = (res, s', tr) -> res <> Ok tt ->
    s' = s /\ (forall k, ~ In (CPut k) tr).
  Proof.
    unfold verify_request. destruct (inner_verify parse_pk sig_verify r) as [[]| |].
    - destruct (parse_pk ck); cbn [negb].
      + destruct (bytes_eqb (blind_pk ck blind) (q3_key r)); cbn [negb].
        * destruct (s ck); intros H Hne; inversion H; subst; congruence.
        * intros H _. inversion H; subst. split; [reflexivity|intros k []].
      + intros H _. inversion H; subst. split; [reflexivity|intros k []].
    - intros H _. inversion H; subst. split; [reflexivity|intros k []].
    - intros H _. inversion H; subst. split; [reflexivity|intros k []].
  Qed.

  (** state is created at most once per client and only under the verified client key *)
  Theorem accept_registers_once_l s r blind ck s' tr :
    vr s r blind ck = (Ok tt, s', tr) ->
    (forall k, In (CPut k) tr -> k = ck /\ s ck = None) /\
    (forall k, k <> ck -> s' k = s k) /\ (forall st, s ck = Some st -> s' = s).
  Proof.
    intro H. pose proof (accept_only_authentic_l _ _ _ _ _ _ H) as (_ & _ & _ & _ & Hs).
    unfold verify_request in H. destruct (inner_verify parse_pk sig_verify r) as [[]| |]; try (inversion H; fail).
    destruct (parse_pk ck); cbn [negb] in H; [|inversion H].
    destruct (bytes_eqb (blind_pk ck blind) (q3_key r)); cbn [negb] in H; [|inversion H].
    destruct (s ck) as [st|] eqn:E; inversion H; subst.
    - split; [intros k [Hk|[]]; discriminate|]. split; [reflexivity|reflexivity].
    - split; [intros k [Hk|[Hk|[]]]; [discriminate|inversion Hk; auto]|].
      split; [intros k Hk; unfold fset; destruct (bytes_eqb k ck) eqn:B; [apply bytes_eqb_eq in B; congruence|reflexivity]|].
      intros st Hst. discriminate.
  Qed.
End P.

(** the signed message determines the request fields it covers (so "over the request's exact contents") *)
Lemma signed_message_inj r r' :
  length (q3_key r) = 49%nat -> length (q3_key r') = 49%nat ->
  length (q3_nkid r) = 32%nat -> length (q3_nkid r') = 32%nat ->
  fits16 (q3_enc r) = true -> fits16 (q3_enc r') = true ->
  signed_message r = signed_message r' ->
  q3_key r = q3_key r' /\ q3_nkid r = q3_nkid r' /\ q3_enc r = q3_enc r'.
Proof.
  intros K K' N N' F F' H. unfold signed_message in H. apply app_inv_head in H.
  assert (E1 : read_bytes 49 (q3_key r ++ q3_nkid r ++ u16p (q3_enc r)) = Some (q3_key r, q3_nkid r ++ u16p (q3_enc r)))
    by now apply read_bytes_app.
  rewrite H in E1. rewrite read_bytes_app in E1 by exact K'. inversion E1 as [[Hk Hrest]].
  assert (E2 : read_bytes 32 (q3_nkid r ++ u16p (q3_enc r)) = Some (q3_nkid r, u16p (q3_enc r)))
    by now apply read_bytes_app.
  rewrite <- Hrest in E2. rewrite read_bytes_app in E2 by exact N'. inversion E2 as [[Hn Hrest2]].
  assert (E3 : read_u16_prefixed (u16p (q3_enc r) ++ []) = Some (q3_enc r, [])) by now apply read_u16p_app.
  assert (E3' : read_u16_prefixed (u16p (q3_enc r') ++ []) = Some (q3_enc r', [])) by now apply read_u16p_app.
  assert (Heq : u16p (q3_enc r) = u16p (q3_enc r')) by congruence.
  rewrite Heq, E3' in E3. inversion E3. split; [congruence|]. split; congruence.
Qed.
