package main

import (
	stdecdsa "crypto/ecdsa"
	"crypto/elliptic"
	crand "crypto/rand"
	"math/big"

	"github.com/cloudflare/pat-go/ecdsa"
	"verif/harness/internal/h"
)

func init() { props["C12"] = runC12 }

type curveT struct {
	id byte
	c  elliptic.Curve
}

func curvesAll() []curveT {
	return []curveT{{1, elliptic.P224()}, {2, elliptic.P256()}, {3, elliptic.P384()}, {4, elliptic.P521()}}
}

func scalarLen(c elliptic.Curve) int { return (c.Params().N.BitLen() + 7) / 8 }

// keyEncodings: byte strings for secret / blind keys incl. leading-zero, zero-padded, >= N and over-long encodings.
func keyEncodings(c *h.Ctx, cv elliptic.Curve, n int) [][]byte {
	N := cv.Params().N
	sl := scalarLen(cv)
	var out [][]byte
	for i := 0; i < n; i++ {
		out = append(out, rnd(c, sl))
	}
	small := rnd(c, sl)
	small[0], small[1] = 0, 0 // value with leading zero bytes
	out = append(out, small)
	v := new(big.Int).SetBytes(rnd(c, sl-1))
	v.Add(v, big.NewInt(2))
	out = append(out, v.Bytes())                                        // minimal, shorter than the scalar length
	out = append(out, cat(make([]byte, 3), v.Bytes()))                  // the same value, zero-padded on the left
	out = append(out, new(big.Int).Add(v, N).Bytes())                   // the same value + N (>= N, not reduced by the code)
	out = append(out, N.Bytes())                                        // N itself
	out = append(out, new(big.Int).Sub(N, big.NewInt(1)).Bytes())       // N - 1
	out = append(out, bytesFF(sl+3))                                    // over-long, far above N
	out = append(out, []byte{1}, []byte{2}, []byte{0x80}, []byte{0, 1}) // tiny values
	return out
}

func samePoint(x1, y1, x2, y2 *big.Int) bool { return x1.Cmp(x2) == 0 && y1.Cmp(y2) == 0 }

func runC12(c0 *h.Ctx) {
	cvs := curvesAll()
	c0.Parallel(4*len(cvs), func(i int, c *h.Ctx) { runC12Curve(c, cvs[i%len(cvs)], i/len(cvs)) })
	c12Wrappers(c0, cvs)
	for _, cv := range cvs {
		c12RelatedKeys(c0, cv)
	}
}

// c12Wrappers: the context-free entry points are the operations with the EMPTY context (nil and []byte{} alike), and a
// curve the derivation does not support is refused with an error by every entry point.
func c12Wrappers(c *h.Ctx, cvs []curveT) {
	for _, cv := range cvs {
		curve := cv.c
		name := curve.Params().Name
		sk, _ := ecdsa.GenerateKey(curve, crand.Reader)
		bk, _ := ecdsa.GenerateKey(curve, crand.Reader)
		digest := rnd(c, 32)
		det := map[string]any{"curve": name, "blind_key": bk.D.String()}
		p0, e0 := ecdsa.BlindPublicKey(curve, &sk.PublicKey, bk)
		p1, e1 := ecdsa.BlindPublicKeyWithContext(curve, &sk.PublicKey, bk, nil)
		p2, e2 := ecdsa.BlindPublicKeyWithContext(curve, &sk.PublicKey, bk, []byte{})
		c.Count(name+":wrappers", 6, name)
		if e0 != nil || e1 != nil || e2 != nil || !samePoint(p0.X, p0.Y, p1.X, p1.Y) || !samePoint(p0.X, p0.Y, p2.X, p2.Y) {
			c.Violation("BlindPublicKey is BlindPublicKeyWithContext with the empty context (nil or empty slice)", det)
			continue
		}
		m := c.Model("ecdsa_blind_exp", []byte{cv.id}, sk.D.Bytes(), bk.D.Bytes(), nil)
		ex, ey := curve.ScalarBaseMult(m[1])
		c.Case(name+":wrappers:factor", true, "ecdsa_blind_factor", [][]byte{{cv.id}, bk.D.Bytes(), nil}, [][]byte{m[0]})
		if !samePoint(p0.X, p0.Y, ex, ey) {
			c.Violation("the context-free blinded key is [d * hash_to_field(blind-key bytes || 0x00) mod N] G", det)
		}
		u0, e3 := ecdsa.UnblindPublicKey(curve, p0, bk)
		u1, e4 := ecdsa.UnblindPublicKeyWithContext(curve, p0, bk, []byte{})
		if e3 != nil || e4 != nil || !samePoint(u0.X, u0.Y, sk.X, sk.Y) || !samePoint(u1.X, u1.Y, sk.X, sk.Y) {
			c.Violation("UnblindPublicKey inverts BlindPublicKey (and the empty-context form inverts it too)", det)
		}
		r, s, e5 := ecdsa.BlindKeySign(crand.Reader, sk, bk, digest)
		if e5 != nil || !stdecdsa.Verify(&stdecdsa.PublicKey{Curve: curve, X: p2.X, Y: p2.Y}, digest, r, s) {
			c.Violation("a BlindKeySign signature verifies (crypto/ecdsa) under the key blinded with the empty context", det)
		}
	}
	// consecutive derivations whose (blind key, context) pairs differ only in WHERE the boundary between the two lies
	// (the last byte of the blind key moved to the front of the context, and the reverse): the 0x00 separator of the
	// derivation makes them different inputs; each factor against the Coq hash_to_field
	for _, cv := range cvs {
		curve := cv.c
		name := curve.Params().Name
		for rep := 0; rep < 3; rep++ {
			kb := rnd(c, scalarLen(curve))
			kb[0] &= 0x3f
			if kb[len(kb)-1] == 0 {
				kb[len(kb)-1] = 1
			}
			ctx := rnd(c, 1+c.Rng.Intn(20))
			pairs := [][2][]byte{{kb, ctx}, {kb[:len(kb)-1], cat(kb[len(kb)-1:], ctx)}, {cat(kb, ctx[:1]), ctx[1:]}, {kb, ctx}, {cat(kb, []byte{0}), ctx}, {kb, cat([]byte{0}, ctx)}}
			for pi, pr := range pairs {
				bk, err := ecdsa.CreateKey(curve, pr[0])
				if err != nil || bk.D.Sign() == 0 {
					continue
				}
				f, err := ecdsa.VerifHashBlind(curve, bk, pr[1])
				if err != nil {
					c.Violation("hashBlind fails on a supported curve", map[string]any{"curve": name})
					continue
				}
				c.Case(name+":blind:factor:boundary-shifted-pairs", true, "ecdsa_blind_factor", [][]byte{{cv.id}, pr[0], pr[1]}, [][]byte{f.Bytes()})
				m := c.Model("ecdsa_blind_factor", []byte{cv.id}, pr[0], pr[1])
				if new(big.Int).SetBytes(m[0]).Cmp(f) != 0 {
					c.Violation("the blinding factor is hash_to_field(blind-key bytes || 0x00 || context), also right after a derivation for a pair with the same concatenation", map[string]any{"curve": name, "pair": pi, "blind_key": h.Hex(pr[0]), "context": h.Hex(pr[1])})
				}
			}
		}
	}
	// an unsupported curve: same parameters as P-256 under another name
	params := *elliptic.P256().Params()
	params.Name = "P-256-under-another-name"
	other := elliptic.Curve(&params)
	sk, _ := ecdsa.GenerateKey(other, crand.Reader)
	bk, _ := ecdsa.GenerateKey(other, crand.Reader)
	var errs []error
	var outs []bool
	pan, msg := h.Protect(func() {
		p, e := ecdsa.BlindPublicKeyWithContext(other, &sk.PublicKey, bk, []byte("x"))
		errs, outs = append(errs, e), append(outs, p == nil)
		p, e = ecdsa.UnblindPublicKeyWithContext(other, &sk.PublicKey, bk, []byte("x"))
		errs, outs = append(errs, e), append(outs, p == nil)
		r, s, e := ecdsa.BlindKeySignWithContext(crand.Reader, sk, bk, rnd(c, 32), []byte("x"))
		errs, outs = append(errs, e), append(outs, r == nil && s == nil)
		p, e = ecdsa.BlindPublicKey(other, &sk.PublicKey, bk)
		errs, outs = append(errs, e), append(outs, p == nil)
	})
	c.Count("unsupported-curve", 4, "")
	if pan {
		c.Violation("key blinding on an unsupported curve panics", map[string]any{"panic": msg})
	}
	for i := range errs {
		if errs[i] == nil || !outs[i] {
			c.Violation("key blinding on a curve the derivation does not support reports an error and returns no key / signature", map[string]any{"entry_point": i})
		}
	}
}

// runC12Curve: part p takes the secrets with index = p mod 4 of one curve.
func runC12Curve(c *h.Ctx, cv curveT, part int) {
	contexts := [][]byte{nil, {0}, {0x41}, rnd(c, 32), cat([]byte("ab"), []byte{0}, []byte("cd")), rnd(c, 95), rnd(c, 96), rnd(c, 200)}
	nKeys := 2
	if c.Thorough() {
		nKeys = 8
	}
	{
		curve := cv.c
		N := curve.Params().N
		name := curve.Params().Name
		secrets := keyEncodings(c, curve, nKeys)
		blinds := keyEncodings(c, curve, nKeys)
		for si, sec := range secrets {
			if si%4 != part {
				continue
			}
			sk, _ := ecdsa.CreateKey(curve, sec)
			dModN := new(big.Int).Mod(sk.D, N)
			if dModN.Sign() == 0 {
				continue // the point at infinity is not a key
			}
			for bi, bl := range blinds {
				if (si+bi)%3 != 0 && !c.Thorough() && si > 1 && bi > 1 {
					continue
				}
				bk, _ := ecdsa.CreateKey(curve, bl)
				for ci, ctx := range contexts {
					if ci > 2 && (si+bi+ci)%4 != 0 && !c.Thorough() {
						continue
					}
					cat_ := name + ":blind"
					det := map[string]any{"curve": name, "secret": h.Hex(sec), "blind_key": h.Hex(bl), "context": h.Hex(ctx)}
					// --- the blinding factor: code (hook) vs Coq hash_to_field -----------------------------------------
					f, err := ecdsa.VerifHashBlind(curve, bk, ctx)
					if err != nil {
						c.Violation("hashBlind fails on a supported curve", det)
						continue
					}
					c.Case(cat_+":factor", true, "ecdsa_blind_factor", [][]byte{{cv.id}, bl, ctx}, [][]byte{f.Bytes()})
					m := c.Model("ecdsa_blind_exp", []byte{cv.id}, sec, bl, ctx)
					mf, mExp, mInv, mOne := new(big.Int).SetBytes(m[0]), new(big.Int).SetBytes(m[1]), new(big.Int).SetBytes(m[2]), new(big.Int).SetBytes(m[3])
					if mf.Sign() == 0 {
						continue // a zero factor has no inverse (no input known; would need a hash preimage)
					}
					if mOne.Cmp(big.NewInt(1)) != 0 {
						c.Mismatch("model inverse is not an inverse (group order not prime?)", det)
					}
					// --- blinded public key = [factor] pk, by the standard library's scalar multiplication -------------
					var pkB, pkU *ecdsa.PublicKey
					pan, msg := h.Protect(func() { pkB, err = ecdsa.BlindPublicKeyWithContext(curve, &sk.PublicKey, bk, ctx) })
					if pan || err != nil {
						det["panic"] = msg
						c.Violation("BlindPublicKeyWithContext fails", det)
						continue
					}
					c.Count(cat_+":public-key", 1, "")
					wx, wy := curve.ScalarMult(sk.PublicKey.X, sk.PublicKey.Y, mf.Bytes())
					if !samePoint(pkB.X, pkB.Y, wx, wy) {
						c.Violation("the blinded public key is the public key multiplied by hash_to_field(blind-key bytes || 0x00 || context) as recomputed by the independent reference", det)
					}
					ex, ey := curve.ScalarBaseMult(mExp.Bytes())
					if !samePoint(pkB.X, pkB.Y, ex, ey) {
						c.Violation("the blinded public key is [d * factor mod N] G (closed form of the model)", det)
					}
					// --- unblinding inverts blinding; unblinded key = [factor^-1] of its input -------------------------
					pan, msg = h.Protect(func() { pkU, err = ecdsa.UnblindPublicKeyWithContext(curve, pkB, bk, ctx) })
					if pan || err != nil {
						det["panic"] = msg
						c.Violation("UnblindPublicKeyWithContext fails", det)
						continue
					}
					if !samePoint(pkU.X, pkU.Y, sk.PublicKey.X, sk.PublicKey.Y) {
						c.Violation("unblinding inverts blinding", det)
					}
					ux, uy := curve.ScalarMult(sk.PublicKey.X, sk.PublicKey.Y, mInv.Bytes())
					if pkU2, err := ecdsa.UnblindPublicKeyWithContext(curve, &sk.PublicKey, bk, ctx); err != nil || !samePoint(pkU2.X, pkU2.Y, ux, uy) {
						c.Violation("the unblinded key is the key multiplied by the inverse of the blinding factor", det)
					}
					// --- the blinded key moves: it differs from the unblinded key unless the factor is 1 ---------------
					if samePoint(pkB.X, pkB.Y, sk.PublicKey.X, sk.PublicKey.Y) && mf.Cmp(big.NewInt(1)) != 0 {
						c.Violation("the blinded key equals the unblinded key", det)
					}
					// --- signatures ------------------------------------------------------------------------------------
					for _, dl := range []int{0, 1, 20, 28, 32, 48, 64, 65, 66, 67, 80, 128} {
						if !c.Thorough() && (si+bi+ci+dl)%3 != 0 {
							continue
						}
						digest := rnd(c, dl)
						if dl >= 66 && c.Rng.Intn(2) == 0 {
							digest[0] &= 0x7f
						}
						r, s, err := ecdsa.BlindKeySignWithContext(crand.Reader, sk, bk, digest, ctx)
						c.Count(name+":blind-key-sign", 1, "")
						d2 := map[string]any{"curve": name, "secret": h.Hex(sec), "blind_key": h.Hex(bl), "context": h.Hex(ctx), "digest": h.Hex(digest)}
						if err != nil {
							c.Violation("BlindKeySignWithContext fails", d2)
							continue
						}
						d2["r"], d2["s"] = r.String(), s.String()
						if !ecdsa.Verify(pkB, digest, r, s) {
							c.Violation("a signature made with the blinded signing key verifies under the blinded public key (this package's verifier)", d2)
						}
						if !stdecdsa.Verify(&stdecdsa.PublicKey{Curve: curve, X: wx, Y: wy}, digest, r, s) {
							c.Violation("a signature made with the blinded signing key verifies under the blinded public key (crypto/ecdsa, key recomputed by the reference)", d2)
						}
						if mf.Cmp(big.NewInt(1)) != 0 {
							if ecdsa.Verify(&sk.PublicKey, digest, r, s) || stdecdsa.Verify(&stdecdsa.PublicKey{Curve: curve, X: sk.PublicKey.X, Y: sk.PublicKey.Y}, digest, r, s) {
								c.Violation("a signature made with the blinded signing key verifies under the UNBLINDED key", d2)
							}
						}
					}
				}
			}
		}
		if part != 0 {
			return
		}
		// --- two blinds commute; changing blind or context changes the key ---------------------------------------------
		sk, _ := ecdsa.CreateKey(curve, rnd(c, scalarLen(curve)))
		for i := 0; i+1 < len(blinds); i++ {
			b1, _ := ecdsa.CreateKey(curve, blinds[i])
			b2, _ := ecdsa.CreateKey(curve, blinds[i+1])
			for _, ctx := range contexts[:4] {
				p1, e1 := ecdsa.BlindPublicKeyWithContext(curve, &sk.PublicKey, b1, ctx)
				p2, e2 := ecdsa.BlindPublicKeyWithContext(curve, &sk.PublicKey, b2, ctx)
				if e1 != nil || e2 != nil {
					continue
				}
				p12, _ := ecdsa.BlindPublicKeyWithContext(curve, p1, b2, ctx)
				p21, _ := ecdsa.BlindPublicKeyWithContext(curve, p2, b1, ctx)
				c.Count(name+":commute", 1, "")
				det := map[string]any{"curve": name, "blind1": h.Hex(blinds[i]), "blind2": h.Hex(blinds[i+1]), "context": h.Hex(ctx)}
				if !samePoint(p12.X, p12.Y, p21.X, p21.Y) {
					c.Violation("blinding with two blinds gives the same key in either order", det)
				}
				// different blind-key integers give different keys (equal factors would be a hash collision)
				if b1.D.Cmp(b2.D) != 0 && samePoint(p1.X, p1.Y, p2.X, p2.Y) {
					c.Violation("changing the blind changes the blinded key", det)
				}
				// b and b + N are different blind keys
				bN, _ := ecdsa.CreateKey(curve, new(big.Int).Add(b1.D, N).Bytes())
				if pN, err := ecdsa.BlindPublicKeyWithContext(curve, &sk.PublicKey, bN, ctx); err == nil && samePoint(p1.X, p1.Y, pN.X, pN.Y) {
					c.Violation("changing the blind (b -> b + N) changes the blinded key", det)
				}
				for _, ctx2 := range [][]byte{cat(ctx, []byte{0}), cat(ctx, []byte{1}), cat([]byte{0}, ctx), flipCtx(ctx)} {
					if string(ctx2) == string(ctx) {
						continue
					}
					if pc, err := ecdsa.BlindPublicKeyWithContext(curve, &sk.PublicKey, b1, ctx2); err == nil && samePoint(p1.X, p1.Y, pc.X, pc.Y) {
						det["context2"] = h.Hex(ctx2)
						c.Violation("changing the context changes the blinded key", det)
					}
				}
			}
		}
		// long contexts differing only in one late byte
		b1, _ := ecdsa.CreateKey(curve, blinds[0])
		for _, l := range []int{64, 96, 127, 128, 129, 255, 256, 300} {
			ctx := rnd(c, l)
			p1, _ := ecdsa.BlindPublicKeyWithContext(curve, &sk.PublicKey, b1, ctx)
			ctx2 := append([]byte{}, ctx...)
			ctx2[l-1] ^= 1
			p2, _ := ecdsa.BlindPublicKeyWithContext(curve, &sk.PublicKey, b1, ctx2)
			c.Count(name+":long-context", 1, "")
			if samePoint(p1.X, p1.Y, p2.X, p2.Y) {
				c.Violation("changing the context (last byte of a long context) changes the blinded key", map[string]any{"curve": name, "len": l})
			}
			f, _ := ecdsa.VerifHashBlind(curve, b1, ctx)
			c.Case(name+":blind:factor:long-context", true, "ecdsa_blind_factor", [][]byte{{cv.id}, blinds[0], ctx}, [][]byte{f.Bytes()})
		}
	}
}

func flipCtx(ctx []byte) []byte {
	if len(ctx) == 0 {
		return []byte{0xff}
	}
	o := append([]byte{}, ctx...)
	o[len(o)/2] ^= 0x10
	return o
}
