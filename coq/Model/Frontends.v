(** Frontends.v — for every function that consumes peer bytes: the Go control flow from the byte
    string to the first call into a cryptographic primitive, with every slice expression, index,
    integer conversion, make() and loop written with the *partial* GoSem operations, so that an
    out-of-range access is a [Panic] of the model.  Primitives are parameters returning option /
    bool (assumed total: they return, they do not panic).  [cost] counts the bytes requested by
    make/append whose size depends on the input. *)
From PatVerif Require Export Model.BatchCodecs Model.Pad Model.AttesterVerify.
Open Scope N_scope.

Definition opt_res {A} (o : option A) : res A := match o with Some a => Ok a | None => Err end.

(** * type1.FinalizeToken:  len check (fix), resp[:Ne], resp[Ne:] *)
Section Fin1.
  Variable elt_ok : list byte -> bool.                 (* Element.UnmarshalBinary *)
  Variable proof_ok : list byte -> bool.               (* dleq.Proof.UnmarshalBinary *)
  Variable finalize : list byte -> list byte -> option (list byte).  (* client.Finalize -> outputs[0] *)
  Definition fin1 (token_input resp : list byte) : res token :=
    if Nat.ltb (length resp) 49 then Err else
    do e <- slice_to resp 49;
    if negb (elt_ok e) then Err else
    do p <- slice_from resp 49;
    if negb (proof_ok p) then Err else
    match finalize e p with
    | None => Err
    | Some out => opt_res (dec_token 48 (token_input ++ out))
    end.
End Fin1.

(** * type2.FinalizeToken: no slicing before the primitive *)
Section Fin2.
  Variable rsa_finalize : list byte -> option (list byte).   (* VerifierState.Finalize *)
  Variable pss_ok : list byte -> list byte -> bool.          (* rsa.VerifyPSS(input, authenticator) *)
  Definition fin2 (token_input resp : list byte) : res token :=
    match rsa_finalize resp with
    | None => Err
    | Some sig =>
      match dec_token 256 (token_input ++ sig) with
      | None => Err
      | Some t => if pss_ok (auth_input t) (t_auth t) then Ok t else Err
      end
    end.
End Fin2.

(** * type3.FinalizeToken: len check (fix), resp[:16], resp[16:] *)
Section Fin3.
  Variable aead_open : list byte -> list byte -> option (list byte).  (* salt -> ct -> blind signature *)
  Variable rsa_finalize : list byte -> option (list byte).
  Variable pss_ok : list byte -> list byte -> bool.
  Definition response_nonce_len : nat := 16.   (* max(AEAD key size 16, nonce size 12) *)
  Definition fin3 (encap_enc token_input resp : list byte) : res token :=
    if Nat.ltb (length resp) response_nonce_len then Err else
    do n <- slice_to resp response_nonce_len;
    let salt := encap_enc ++ n in
    do ct <- slice_from resp response_nonce_len;
    match aead_open salt ct with
    | None => Err
    | Some bs => fin2 rsa_finalize pss_ok token_input bs
    end.
End Fin3.

(** * type5: request decoder with the raw slice data[3:] and element loop; FinalizeTokens *)
Fixpoint chunks_go (fuel : nat) (i : nat) (n : nat) (s : list byte) : res (list (list byte)) :=
  (* for i < n: elements[i] = s[32*i : 32*(i+1)] *)
  match fuel with
  | O => if Nat.ltb i n then Panic else Ok []
  | S f =>
    if Nat.ltb i n then
      do e <- slice s (32 * i) (32 * (i + 1));
      do rest <- chunks_go f (i + 1) n s;
      Ok (e :: rest)
    else Ok []
  end.

Definition um_req5_go (data : list byte) : res (N * list (list byte) * N) :=
  match read_u16 data with
  | None => Err
  | Some (t, s1) =>
    if negb (t =? 5) then Err else
    match read_u8 s1 with
    | None => Err
    | Some (k, s2) =>
      do d3 <- slice_from data 3;                       (* data[3:] *)
      match consume_varint d3 with
      | None => Err
      | Some (l, off) =>
        match read_bytes off s2 with                    (* s.Skip(offset) *)
        | None => Err
        | Some (_, s3) =>
          if N.of_nat (length s3) <? l then Err else
          match read_bytes (N.to_nat l) s3 with
          | None => Err
          | Some (body, _) =>
            if negb (Nat.eqb (Nat.modulo (length body) 32) 0) then Err else
            let n := Nat.div (length body) 32 in
            (* r.BlindedReq[i] = make(32); copy(.., body[32*i:]) *)
            do elems <- chunks_go n 0 n body;
            Ok (k, elems, N.of_nat (n * (24 + 32)))     (* slice headers + element copies *)
          end
        end
      end
    end
  end.

Section Fin5.
  Variable elt_ok : list byte -> bool.
  Variable proof_ok : list byte -> bool.
  Variable finalize : list (list byte) -> list byte -> option (list (list byte)).
  Definition fin5 (token_inputs : list (list byte)) (resp : list byte) : res (list token * N) :=
    match consume_varint resp with
    | None => Err
    | Some (l, off) =>
      match read_bytes off resp with
      | None => Err
      | Some (_, r1) =>
        if N.of_nat (length r1) <? l then Err else
        match read_bytes (N.to_nat l) r1 with
        | None => Err
        | Some (body, r2) =>
          if negb (Nat.eqb (Nat.modulo (length body) 32) 0) then Err else
          let n := Nat.div (length body) 32 in
          if negb (Nat.eqb n (length token_inputs)) then Err else
          do elems <- chunks_go n 0 n body;
          if negb (forallb elt_ok elems) then Err else
          match read_bytes 64 r2 with
          | None => Err
          | Some (pf, _) =>
            if negb (proof_ok pf) then Err else
            match finalize elems pf with
            | None => Err
            | Some outs =>
              (* tokens[i] = Unmarshal(append(tokenInputs[i], outputs[i]...)): outputs has n entries *)
              if negb (Nat.eqb (length outs) n) then Panic else
              match fold_right (fun io acc =>
                        match acc, dec_token 64 (fst io ++ snd io) with
                        | Some ts, Some t => Some (t :: ts) | _, _ => None end)
                      (Some []) (combine token_inputs outs) with
              | Some ts => Ok (ts, N.of_nat (n * 16 + 64))
              | None => Err
              end
            end
          end
        end
      end
    end.
End Fin5.

(** * batched: request list and response list decoders with their raw slices *)
Fixpoint dec_items_go (fuel : nat) (i : nat) (data : list byte) : res (list bitem) :=
  (* for i < len(data): data[i:i+2], Unmarshal(data[i:]), i += len(Marshal()) *)
  if Nat.leb (length data) i then Ok [] else
  match fuel with
  | O => Err
  | S f =>
    if Nat.ltb (length data - i) 2 then Err else
    do tb <- slice data i (i + 2);
    let ty := be_dec tb in
    let ne := if ty =? 1 then Some ne1 else if ty =? 2 then Some ne2 else None in
    match ne with
    | None => Err
    | Some ne =>
      do tl <- slice_from data i;
      match um_req12 ty ne fresh_breq tl with
      | (true, r) =>
        do rest <- dec_items_go f (i + length (enc_req12 ty r)) data;
        Ok ((ty, r) :: rest)
      | (false, _) => Err
      end
    end
  end.

Definition dec_batch_go (data : list byte) : res (list bitem) :=
  match consume_varint data with
  | None => Err
  | Some (l, off) =>
    if N.of_nat (length data - off) <? l then Err else
    do body <- slice data off (off + N.to_nat l);
    dec_items_go (length body) 0 body
  end.

Definition dec_resps_go (data : list byte) : res (list (list byte)) :=
  match consume_varint data with
  | None => Err
  | Some (l, off) =>
    if N.of_nat (length data - off) <? l then Err else
    do body <- slice data off (off + N.to_nat l);
    opt_res (dec_resp_items (length body) body)
  end.

(** * unpadOriginName with its index expressions *)
Fixpoint last_nonzero (fuel : nat) (p : list byte) (i : Z) : res Z :=
  if (i <? 0)%Z then Ok i else
  match fuel with
  | O => Panic
  | S f =>
    do b <- index p (Z.to_nat i);
    if negb (byte_eqb b x00) then Ok i else last_nonzero f p (i - 1)
  end.
Definition unpad_go (p : list byte) : res (list byte) :=
  do i <- last_nonzero (S (length p)) p (Z.of_nat (length p) - 1);
  if (i <? 0)%Z then Ok [] else slice p 0 (Z.to_nat (i + 1)).

(** * type3 issuer.Evaluate up to the signature check *)
Section Eval3.
  (** HPKE SetupBaseR + Open under the issuer's private name key: enc -> aad -> ct -> (plaintext, exported secret) *)
  Variable hpke_open : list byte -> list byte -> list byte -> option (list byte * list byte).
  (** the issuer's name key configuration: u8 key id ++ u16 KEM ++ u16 KDF ++ u16 AEAD, and SHA-256 of its encoding *)
  Variable cfg_prefix : list byte.
  Variable issuer_key_id : list byte.
  Definition aad (request_key : list byte) : list byte :=
    cfg_prefix ++ u16 3 ++ request_key ++ issuer_key_id.
  Variable parse_pk : list byte -> bool.
  Variable sig_verify : list byte -> list byte -> list byte -> bool.
  Variable registered : list byte -> bool.
  Variable sign_and_seal : req3 -> inner -> list byte -> option (list byte * list byte).

  Definition decrypt_go (request_key ect : list byte) : res (inner * list byte) :=
    if Nat.ltb (length ect) 32 then Err else          (* fix: shorter than the KEM output *)
    do enc <- slice ect 0 32;
    do ct <- slice_from ect 32;
    match hpke_open enc (aad request_key) ct with
    | None => Err
    | Some (pt, secret) =>
      match um_inner {| in_keyid := 0; in_blinded := []; in_padded := [] |} pt with
      | (true, r) => Ok (r, secret)
      | (false, _) => Ok ({| in_keyid := 0; in_blinded := []; in_padded := [] |}, [])
          (* the code returns the zero request with a nil error here; the empty origin is then looked up *)
      end
    end.

  Definition eval3 (data : list byte) : res (list byte * list byte) :=
    match um_req3 {| q3_key := []; q3_nkid := []; q3_enc := []; q3_sig := [] |} data with
    | (false, _) => Err
    | (true, r) =>
      do ir <- decrypt_go (q3_key r) (q3_enc r);
      do name <- unpad_go (in_padded (fst ir));
      if negb (registered name) then Err else
      if negb (parse_pk (q3_key r)) then Err else
      do rb <- slice_to (q3_sig r) 48;                (* req.Signature[:scalarLen] *)
      do sb <- slice_from (q3_sig r) 48;
      if negb (fits16 (q3_enc r)) then Panic else     (* builder for the signed message *)
      if negb (sig_verify (q3_key r) (signed_message r) (q3_sig r)) then Err else
      do _e <- slice (q3_enc r) 0 32;                 (* copy(enc, req.EncryptedTokenRequest[0:32]) *)
      opt_res (sign_and_seal r (fst ir) (snd ir))
    end.
End Eval3.

(** * attester.FinalizeIndex up to the bookkeeping *)
Section FinIdx.
  Variable parse_pk : list byte -> bool.
  Variable unblind_index : list byte -> list byte -> list byte -> option (list byte). (* client key, blind, blinded key -> index *)
  Definition finalize_index (s : cache) (client_key blind brk anon : list byte) : res (cache * out) :=
    if negb (parse_pk brk) then Err else
    match unblind_index client_key blind brk with
    | None => Err
    | Some idx => Ok (finalize s client_key idx anon)
    end.
End FinIdx.

Close Scope N_scope.
