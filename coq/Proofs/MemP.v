From PatVerif Require Import Base.Mem.
From Coq Require Import ZifyNat ZifyBool Lia.

Lemma set_region_length h r v : length (set_region h r v) = length h.
Proof. revert r. induction h as [|x t IH]; intros [|r]; cbn; auto. Qed.
Lemma region_set_same h r v : r < length h -> region (set_region h r v) r = v.
Proof. revert r. induction h as [|x t IH]; intros [|r] H; cbn in *; try lia; auto. apply IH. lia. Qed.
Lemma region_set_other h r r' v : r <> r' -> region (set_region h r v) r' = region h r'.
Proof.
  revert r r'. induction h as [|x t IH]; intros [|r] [|r'] H; cbn; auto; try congruence. apply IH. congruence.
Qed.
Lemma region_app_old h x r : r < length h -> region (h ++ [x]) r = region h r.
Proof. intro H. unfold region. now rewrite app_nth1. Qed.
Lemma region_app_new h x : region (h ++ [x]) (length h) = x.
Proof. unfold region. rewrite app_nth2, Nat.sub_diag by lia. reflexivity. Qed.

Lemma firstn_app_exact {A} (a b : list A) : firstn (length a) (a ++ b) = a.
Proof. now rewrite firstn_app, Nat.sub_diag, firstn_O, app_nil_r, firstn_all. Qed.
Lemma firstn_app_plus {A} (a b : list A) n : firstn (length a + n) (a ++ b) = a ++ firstn n b.
Proof. rewrite firstn_app. replace (length a + n - length a) with n by lia. rewrite firstn_all2 by lia. reflexivity. Qed.
Lemma skipn_app_exact {A} (a b : list A) : skipn (length a) (a ++ b) = b.
Proof. now rewrite skipn_app, Nat.sub_diag, skipn_all, skipn_O. Qed.

(** regions other than the slice's own are never touched; on reallocation no existing region is *)
Theorem append_other_regions h s xs r : r < length h -> r <> rg s ->
  region (fst (go_append h s xs)) r = region h r.
Proof.
  intros Hr Hne. unfold go_append. destruct (Nat.leb (len s + length xs) (cap s)); cbn [fst].
  - unfold write_at. apply region_set_other. congruence.
  - now apply region_app_old.
Qed.
Theorem append_realloc_pure h s xs r : cap s < len s + length xs -> r < length h ->
  region (fst (go_append h s xs)) r = region h r.
Proof.
  intros Hc Hr. unfold go_append. replace (Nat.leb (len s + length xs) (cap s)) with false by lia.
  cbn [fst]. now apply region_app_old.
Qed.

Lemma view_length h s : wf_slice h s -> length (view h s) = len s.
Proof. intros (_ & H1 & H2). unfold view. rewrite firstn_length, skipn_length. lia. Qed.

(** the result of append holds the old contents followed by the new bytes *)
Theorem append_view h s xs : wf_slice h s ->
  let '(h', s') := go_append h s xs in view h' s' = view h s ++ xs /\ wf_slice h' s'.
Proof.
  intros W. pose proof W as (Hr & Hl & Hc). unfold go_append.
  destruct (Nat.leb (len s + length xs) (cap s)) eqn:E.
  - apply Nat.leb_le in E. set (old := region h (rg s)) in *.
    set (new := firstn (off s + len s) old ++ xs ++ skipn (off s + len s + length xs) old).
    assert (Rn : region (write_at h (rg s) (off s + len s) xs) (rg s) = new) by (unfold write_at; now apply region_set_same).
    assert (Ln : length new = length old).
    { unfold new. rewrite !app_length, firstn_length, skipn_length. lia. }
    split.
    + unfold view. cbn [rg off len]. rewrite Rn. unfold new.
      assert (Lf : length (firstn (off s + len s) old) = off s + len s) by (rewrite firstn_length; lia).
      rewrite <- (firstn_skipn (off s) (firstn (off s + len s) old)) at 1.
      rewrite <- app_assoc.
      assert (La : length (firstn (off s) (firstn (off s + len s) old)) = off s) by (rewrite firstn_length; lia).
      rewrite <- La at 1. rewrite skipn_app_exact.
      assert (Lb : length (skipn (off s) (firstn (off s + len s) old)) = len s) by (rewrite skipn_length; lia).
      rewrite app_assoc. rewrite <- Lb at 1. rewrite <- (app_length (skipn (off s) (firstn (off s + len s) old)) xs) at 1.
      rewrite firstn_app_exact. f_equal. symmetry. fold old. apply firstn_skipn_comm.
    + unfold wf_slice. cbn [rg off len cap]. rewrite Rn, Ln. unfold write_at. rewrite set_region_length. lia.
  - apply Nat.leb_gt in E. split.
    + unfold view at 1. cbn [rg off len]. rewrite region_app_new, skipn_O.
      rewrite <- (view_length h s W), <- app_length. apply firstn_all.
    + unfold wf_slice. cbn [rg off len cap]. rewrite region_app_new, !app_length, (view_length h s W). cbn. lia.
Qed.

(** the in-place case writes the new bytes into the spare capacity behind the slice: anyone else holding that
    memory sees them *)
Theorem append_in_place_overwrites h s xs : wf_slice h s -> len s + length xs <= cap s ->
  firstn (length xs) (skipn (off s + len s) (region (fst (go_append h s xs)) (rg s))) = xs.
Proof.
  intros (Hr & Hl & Hc) E. unfold go_append. replace (Nat.leb (len s + length xs) (cap s)) with true by lia.
  cbn [fst]. unfold write_at. rewrite region_set_same by exact Hr. set (old := region h (rg s)) in *.
  assert (Lf : length (firstn (off s + len s) old) = off s + len s) by (rewrite firstn_length; lia).
  rewrite <- Lf at 1. rewrite skipn_app_exact. apply firstn_app_exact.
Qed.

(** building  a || 00 || b  by appending onto the argument changes caller-visible memory: a witness *)
Definition wit_heap : heap := [[x61; x62; x63; x64; xa5; xa5; xa5; xa5]; [x78; x79]].
Definition wit_a : slice := {| rg := 0; off := 0; len := 4; cap := 8 |}.     (* a 4-byte argument with 4 bytes of spare capacity *)
Definition wit_b : slice := {| rg := 1; off := 0; len := 2; cap := 2 |}.
Theorem build_on_arg_refuted :
  wf_slice wit_heap wit_a /\ wf_slice wit_heap wit_b /\
  region (fst (build_on_arg wit_heap wit_a wit_b)) 0 <> region wit_heap 0.
Proof. unfold wf_slice. cbn. repeat split; try lia. discriminate. Qed.

(** building it in fresh storage leaves EVERY existing region unchanged, whatever the arguments' spare capacity,
    and yields exactly  view a ++ [00] ++ view b  (so the result cannot depend on what the spare capacity holds) *)
Theorem build_fresh_pure h a b : wf_slice h a -> wf_slice h b ->
  let '(h', t) := build_fresh h a b in
  (forall r, r < length h -> region h' r = region h r) /\ view h' t = view h a ++ [x00] ++ view h b.
Proof.
  intros Wa Wb. unfold build_fresh, go_make.
  set (h0 := h ++ [repeat x00 (len a + 1 + len b)]).
  set (t0 := {| rg := length h; off := 0; len := 0; cap := len a + 1 + len b |}).
  assert (W0 : wf_slice h0 t0).
  { unfold wf_slice, h0, t0. cbn [rg off len cap]. rewrite app_length, region_app_new, repeat_length. cbn. lia. }
  assert (V0 : view h0 t0 = []) by reflexivity.
  assert (Old0 : forall r, r < length h -> region h0 r = region h r) by (intros; now apply region_app_old).
  assert (Va0 : view h0 a = view h a) by (unfold view; rewrite Old0 by apply Wa; reflexivity).
  assert (Lh0 : length h0 = S (length h)) by (unfold h0; rewrite app_length; cbn; lia).
  (* first append *)
  pose proof (append_view h0 t0 (view h0 a) W0) as A1.
  destruct (go_append h0 t0 (view h0 a)) as [h1 t1] eqn:E1. destruct A1 as [V1 W1].
  assert (R1 : rg t1 = length h /\ length h1 = length h0).
  { unfold go_append in E1. rewrite Va0, (view_length h a Wa) in E1.
    replace (Nat.leb (len t0 + len a) (cap t0)) with true in E1 by (cbn; lia).
    injection E1 as <- <-. cbn [rg]. unfold write_at. rewrite set_region_length. auto. }
  destruct R1 as [Rg1 L1].
  assert (Old1 : forall r, r < length h -> region h1 r = region h r).
  { intros r Hr. rewrite <- Old0 by exact Hr. replace h1 with (fst (go_append h0 t0 (view h0 a))) by now rewrite E1.
    apply append_other_regions; [lia|cbn; lia]. }
  (* second append *)
  pose proof (append_view h1 t1 [x00] W1) as A2.
  destruct (go_append h1 t1 [x00]) as [h2 t2] eqn:E2. destruct A2 as [V2 W2].
  assert (Len1 : len t1 = len a /\ cap t1 = len a + 1 + len b).
  { unfold go_append in E1. rewrite Va0, (view_length h a Wa) in E1.
    replace (Nat.leb (len t0 + len a) (cap t0)) with true in E1 by (cbn; lia). injection E1 as _ <-. cbn. auto. }
  destruct Len1 as [Ln1 Cp1].
  assert (R2 : rg t2 = length h /\ length h2 = length h0 /\ len t2 = len a + 1 /\ cap t2 = len a + 1 + len b).
  { unfold go_append in E2. cbn [length] in E2. replace (Nat.leb (len t1 + 1) (cap t1)) with true in E2 by lia.
    injection E2 as <- <-. cbn [rg len cap]. unfold write_at. rewrite set_region_length. lia. }
  destruct R2 as (Rg2 & L2 & Ln2 & Cp2).
  assert (Old2 : forall r, r < length h -> region h2 r = region h r).
  { intros r Hr. rewrite <- Old1 by exact Hr. replace h2 with (fst (go_append h1 t1 [x00])) by now rewrite E2.
    apply append_other_regions; lia. }
  assert (Vb2 : view h2 b = view h b) by (unfold view; rewrite Old2 by apply Wb; reflexivity).
  (* third append *)
  pose proof (append_view h2 t2 (view h2 b) W2) as A3.
  destruct (go_append h2 t2 (view h2 b)) as [h3 t3] eqn:E3. destruct A3 as [V3 _].
  split.
  - intros r Hr. rewrite <- Old2 by exact Hr. replace h3 with (fst (go_append h2 t2 (view h2 b))) by now rewrite E3.
    apply append_other_regions; lia.
  - rewrite V3, V2, V1, V0, Va0, Vb2. cbn [app]. now rewrite <- app_assoc.
Qed.

(** a holder of a slice sees only the bytes within its length: its view does not depend on anything else *)
Theorem view_depends_on_window h h' s :
  firstn (len s) (skipn (off s) (region h (rg s))) = firstn (len s) (skipn (off s) (region h' (rg s))) ->
  view h s = view h' s.
Proof. auto. Qed.
