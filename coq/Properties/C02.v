(** C02 — a client only outputs tokens that verify and belong to its own request.
    Model/Issuance.v [finalize1] / [finalize2] transcribe the client finalizations of types 0x0001 and 0x0002 for
    ARBITRARY response bytes and ARBITRARY primitives.  Type 2 (and the type-3 client, which ends with the same
    unblind-then-PSS-verify step) is unconditional; type 1 (and type 5, the same check over a list) is under DLEQ
    soundness as a named hypothesis. *)
From Coq Require Import Field Ring.
From PatVerif Require Import Model.Issuance Proofs.IssuanceP.
Open Scope N_scope.

Section Type2.
  Variable R : Type.
  Variables (r1 : R) (rmul : R -> R -> R).
  Variable h256 : list byte -> list byte.
  Variable emsa : list byte -> list byte -> R.
  Variable enc_r : R -> list byte.
  Variable dec_r : list byte -> option R.
  Variable pss_ok : list byte -> list byte -> bool.
  Hypothesis h256_len : forall x, length (h256 x) = 32%nat.
  Hypothesis enc_r_len : forall x, length (enc_r x) = 256%nat.

  (** whatever bytes come back: an output token passed RSA-PSS verification under the pinned key over its own
      authenticator input, that input is the request's (same nonce, challenge digest, key id), and the response had
      exactly 256 bytes — every other response is an error *)
  Theorem finalize2_ok_implies_valid_bound : forall (s : state2 R) resp tok nonce challenge keyid,
    s2_input R s = token_input h256 2 nonce challenge keyid -> length nonce = 32%nat -> length keyid = 32%nat ->
    finalize2 R rmul enc_r dec_r pss_ok s resp = Some tok ->
    pss_ok (auth_input tok) (t_auth tok) = true /\ auth_input tok = s2_input R s /\
    t_type tok = 2 /\ t_nonce tok = nonce /\ t_ctx tok = h256 challenge /\ t_keyid tok = keyid /\
    length resp = 256%nat.
  Proof. exact (finalize2_ok_implies_l R rmul h256 emsa enc_r dec_r pss_ok h256_len enc_r_len). Qed.
End Type2.
Print Assumptions finalize2_ok_implies_valid_bound.

Section Type1.
  Variable F : Type.
  Variables (f0 f1 : F) (fadd fmul fsub : F -> F -> F) (fopp : F -> F) (fdiv : F -> F -> F) (finv : F -> F).
  Variable feqb : F -> F -> bool.
  Hypothesis Fth : field_theory f0 f1 fadd fmul fsub fopp fdiv finv (@eq F).
  Variable h256 : list byte -> list byte.
  Variable h2g : list byte -> F.
  Variable enc_elt : F -> list byte.
  Variable dec_elt : list byte -> option F.
  Variable fin : list byte -> F -> list byte.
  Variable prove : F -> F -> F -> list byte -> list byte.
  Variable dleq_ok : F -> F -> F -> list byte -> bool.
  Hypothesis h256_len : forall x, length (h256 x) = 32%nat.
  Hypothesis fin_len : forall i e, length (fin i e) = 48%nat.

  (** whatever bytes come back: a token is output only if the response has at least 145 bytes, its first 49 decode
      to an element, and the DLEQ proof in the next 96 is accepted for (pinned key, own blinded element, that element);
      bytes after the proof are ignored by the code (and by the model) *)
  Theorem finalize1_ok_implies : forall (s : state1 F) resp tok nonce challenge keyid,
    s_input F s = token_input h256 1 nonce challenge keyid -> length nonce = 32%nat -> length keyid = 32%nat ->
    finalize1 F fmul finv dec_elt fin dleq_ok s resp = Some tok ->
    exists ev, dec_elt (firstn 49 resp) = Some ev /\ (145 <= length resp)%nat /\
               dleq_ok (s_pk F s) (s_blinded F s) ev (firstn 96 (skipn 49 resp)) = true /\
               tok = {| t_type := 1; t_nonce := nonce; t_ctx := h256 challenge; t_keyid := keyid;
                        t_auth := fin (s_input F s) (fmul (finv (s_blind F s)) ev) |}.
  Proof. exact (finalize1_ok_implies_l F fmul finv feqb h256 h2g enc_elt dec_elt fin prove dleq_ok h256_len fin_len). Qed.

  (** under DLEQ soundness for the pinned key, the output token verifies under the issuer's key and carries the
      request's nonce, challenge digest and key id *)
  Theorem finalize1_ok_implies_valid_bound : forall k beta nonce challenge keyid resp tok,
    (forall b ev pf, dleq_ok (fmul k f1) b ev pf = true -> ev = fmul k b) ->
    length nonce = 32%nat -> length keyid = 32%nat -> beta <> f0 ->
    finalize1 F fmul finv dec_elt fin dleq_ok (create1 F fmul h256 h2g enc_elt (fmul k f1) beta nonce challenge keyid) resp = Some tok ->
    verify (full_evaluate F fmul h2g fin k) tok = true /\
    t_nonce tok = nonce /\ t_ctx tok = h256 challenge /\ t_keyid tok = keyid /\ t_type tok = 1.
  Proof. exact (finalize1_sound_l F f0 f1 fadd fmul fsub fopp fdiv finv feqb Fth h256 h2g enc_elt dec_elt fin prove dleq_ok h256_len fin_len). Qed.
End Type1.
Print Assumptions finalize1_ok_implies.
Print Assumptions finalize1_ok_implies_valid_bound.
