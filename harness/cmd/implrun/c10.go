package main

import (
	"bytes"

	"github.com/cloudflare/circl/oprf"
	"github.com/cloudflare/pat-go/tokens"
	"github.com/cloudflare/pat-go/tokens/type1"
	"github.com/cloudflare/pat-go/tokens/type5"
	"verif/harness/internal/h"
)

func init() { props["C10"] = runC10 }

type c10Issuer struct {
	name   string
	suite  oprf.Suite
	sk     *oprf.PrivateKey
	verify func(tokens.Token) error
	nk     int
}

func c10Issuers(c *h.Ctx, n int) (out []*c10Issuer, i1 []*type1.BasicPrivateIssuer, i5 []*type5.BatchedPrivateIssuer) {
	for i := 0; i < n; i++ {
		sk1, _ := oprf.DeriveKey(oprf.SuiteP384, oprf.VerifiableMode, rnd(c, 32), nil)
		a := type1.NewBasicPrivateIssuer(sk1)
		out = append(out, &c10Issuer{"type1", oprf.SuiteP384, sk1, a.Verify, 48})
		i1 = append(i1, a)
		sk5, _ := oprf.DeriveKey(oprf.SuiteRistretto255, oprf.VerifiableMode, rnd(c, 32), nil)
		b := type5.NewBatchedPrivateIssuer(sk5)
		out = append(out, &c10Issuer{"type5", oprf.SuiteRistretto255, sk5, b.Verify, 64})
		i5 = append(i5, b)
	}
	return
}

// c10Check runs Verify on tok and compares with the independent oracle (circl FullEvaluate called directly).
func c10Check(c *h.Ctx, cat_ string, is *c10Issuer, tok tokens.Token) bool {
	var err error
	pan, msg := h.Protect(func() { err = is.verify(tok) })
	input := cat(u16b(tok.TokenType), tok.Nonce, tok.Context, tok.KeyID) // built here, not by the library
	var out []byte
	var oerr error
	h.Protect(func() { out, oerr = oprf.NewVerifiableServer(is.suite, is.sk).FullEvaluate(input) })
	det := map[string]any{"issuer": is.name, "category": cat_, "type": tok.TokenType, "nonce": h.Hex(tok.Nonce), "context": h.Hex(tok.Context), "key_id": h.Hex(tok.KeyID), "authenticator": h.Hex(tok.Authenticator)}
	if pan {
		det["panic"] = msg
		c.Violation("Verify panics", det)
		return false
	}
	implIn := tok.AuthenticatorInput()
	st := h.StNone
	if err == nil {
		st = h.StOK
	}
	c.Case(cat_, true, "verify_token", [][]byte{u16b(tok.TokenType), tok.Nonce, tok.Context, tok.KeyID, tok.Authenticator, flagB(oerr == nil), out}, [][]byte{st, implIn})
	want := oerr == nil && bytes.Equal(out, tok.Authenticator)
	if (err == nil) != want {
		det["accepted"] = err == nil
		c.Violation("verification accepts a token exactly when its authenticator is the VOPRF evaluation of type || nonce || context || key id under the issuer's key", det)
	}
	return err == nil
}

func cloneTok(t tokens.Token) tokens.Token {
	return tokens.Token{TokenType: t.TokenType, Nonce: append([]byte{}, t.Nonce...), Context: append([]byte{}, t.Context...), KeyID: append([]byte{}, t.KeyID...), Authenticator: append([]byte{}, t.Authenticator...)}
}

// c10IssuersReusedKeyObject loads n issuers of each type through ONE key object per type that is overwritten in place
// for each next issuer (key rotation by `*key = *next`); the oracle keys are independent copies. "Under that issuer's
// key" means the key the issuer was constructed with (whose id and public key it still advertises), whatever the
// caller's object holds later.
func c10IssuersReusedKeyObject(c *h.Ctx, n int) (out []*c10Issuer, i1 []*type1.BasicPrivateIssuer, i5 []*type5.BatchedPrivateIssuer) {
	scratch1, scratch5 := new(oprf.PrivateKey), new(oprf.PrivateKey)
	for i := 0; i < n; i++ {
		sk1, _ := oprf.DeriveKey(oprf.SuiteP384, oprf.VerifiableMode, rnd(c, 32), nil)
		enc1, _ := sk1.MarshalBinary()
		*scratch1 = oprf.PrivateKey{}
		scratch1.UnmarshalBinary(oprf.SuiteP384, enc1)
		a := type1.NewBasicPrivateIssuer(scratch1)
		out = append(out, &c10Issuer{"type1", oprf.SuiteP384, sk1, a.Verify, 48})
		i1 = append(i1, a)
		sk5, _ := oprf.DeriveKey(oprf.SuiteRistretto255, oprf.VerifiableMode, rnd(c, 32), nil)
		enc5, _ := sk5.MarshalBinary()
		*scratch5 = oprf.PrivateKey{}
		scratch5.UnmarshalBinary(oprf.SuiteRistretto255, enc5)
		b := type5.NewBatchedPrivateIssuer(scratch5)
		out = append(out, &c10Issuer{"type5", oprf.SuiteRistretto255, sk5, b.Verify, 64})
		i5 = append(i5, b)
	}
	return
}

func runC10(c *h.Ctx) {
	nKeys := 2
	if c.Thorough() {
		nKeys = 4
	}
	issuers, i1, i5 := c10Issuers(c, nKeys)
	runC10With(c, "", nKeys, issuers, i1, i5, true)
	issuers, i1, i5 = c10IssuersReusedKeyObject(c, 2)
	runC10With(c, "key-object-reused:", 2, issuers, i1, i5, false)
	// issuers of one type whose key ids end in the SAME byte (the only part of the id a request carries)
	issuers, i1, i5 = c10IssuersCollidingLastByte(c)
	runC10With(c, "colliding-truncated-key-ids:", 2, issuers, i1, i5, false)
}

func c10IssuersCollidingLastByte(c *h.Ctx) (out []*c10Issuer, i1 []*type1.BasicPrivateIssuer, i5 []*type5.BatchedPrivateIssuer) {
	last1, last5 := byte(c.Rng.Intn(256)), byte(c.Rng.Intn(256))
	for i := 0; i < 2; i++ {
		sk1 := voprfKeyWithLastByte(c, oprf.SuiteP384, last1)
		a := type1.NewBasicPrivateIssuer(sk1)
		out = append(out, &c10Issuer{"type1", oprf.SuiteP384, sk1, a.Verify, 48})
		i1 = append(i1, a)
		sk5 := voprfKeyWithLastByte(c, oprf.SuiteRistretto255, last5)
		b := type5.NewBatchedPrivateIssuer(sk5)
		out = append(out, &c10Issuer{"type5", oprf.SuiteRistretto255, sk5, b.Verify, 64})
		i5 = append(i5, b)
	}
	return
}

func runC10With(c *h.Ctx, pfx string, nKeys int, issuers []*c10Issuer, i1 []*type1.BasicPrivateIssuer, i5 []*type5.BatchedPrivateIssuer, full bool) {
	var honest []tokens.Token
	var owner []int
	for k := 0; k < nKeys; k++ {
		chal := rnd(c, 10+k)
		// type 1
		st, err := type1.NewBasicPrivateClient().CreateTokenRequest(chal, rnd(c, 32), i1[k].TokenKeyID(), i1[k].TokenKey())
		if err == nil {
			if resp, err := i1[k].Evaluate(st.Request()); err == nil {
				if tok, err := st.FinalizeToken(resp); err == nil {
					honest = append(honest, tok)
					owner = append(owner, 2*k)
				}
			}
		}
		// type 5
		st5, err := type5.NewBatchedPrivateClient().CreateTokenRequest(chal, [][]byte{rnd(c, 32), rnd(c, 32)}, i5[k].TokenKeyID(), i5[k].TokenKey())
		if err == nil {
			if resp, err := i5[k].Evaluate(st5.Request()); err == nil {
				if toks, err := st5.FinalizeTokens(resp); err == nil {
					for _, t := range toks {
						honest = append(honest, t)
						owner = append(owner, 2*k+1)
					}
				}
			}
		}
	}
	if len(honest) < 3*nKeys {
		c.Violation("honest issuance failed while preparing tokens", map[string]any{"tokens": len(honest)})
		return
	}
	for ti, tok := range honest {
		is := issuers[owner[ti]]
		if !c10Check(c, pfx+"honest", is, tok) {
			c.Violation("an honestly issued token is rejected by its issuer", map[string]any{"issuer": is.name})
		}
		// the SAME token object edited in place between verifications (a server decoding each next redemption into the
		// buffers of the previous one): accepted, then one byte of a field changed in the same backing array, then
		// restored. A verdict memo that keeps the caller's slices instead of copies compares the edit with itself.
		if ti < 6 || c.Thorough() {
			// w shares its backing arrays with tok, the object whose acceptance just above was the FIRST one of these
			// bytes (a memo that only stores on a miss aliases that object, not a later equal copy)
			w := tok
			saved := cloneTok(tok)
			if !c10Check(c, pfx+"in-place:accepted-first", is, w) {
				c.Violation("an honestly issued token is rejected by its issuer the second time", map[string]any{"issuer": is.name})
			}
			for fi, f := range [][]byte{w.Authenticator, w.Nonce, w.Context, w.KeyID} {
				for _, pos := range []int{0, len(f) / 2, len(f) - 1} {
					for _, m := range []byte{0x01, 0x80, 0xff} {
						f[pos] ^= m
						if c10Check(c, pfx+"in-place:edited-after-accept", is, w) {
							c.Violation("a token edited in place after it was accepted is accepted again", map[string]any{"field": fi, "byte": pos, "mask": m})
						}
						f[pos] ^= m
						if !c10Check(c, pfx+"in-place:restored", is, w) {
							c.Violation("a token restored in place to its issued value is rejected", map[string]any{"field": fi, "byte": pos})
						}
					}
				}
			}
			for i := range w.Authenticator {
				w.Authenticator[i] = 0
			}
			if c10Check(c, pfx+"in-place:edited-after-accept", is, w) {
				c.Violation("a token whose authenticator was zeroed in place after it was accepted is accepted again", nil)
			}
			copy(w.Authenticator, saved.Authenticator)
			if !c10Check(c, pfx+"in-place:restored", is, w) {
				c.Violation("a token restored in place to its issued value is rejected", nil)
			}
		}
		if full && ti < 2 { // one type-1 and one type-5 token (the first two honest tokens are of the two types)
			c10Sweeps(c, is, tok)
		}
		// every single-bit variant of every field (the honest token was verified first: a verdict cache would show here)
		if full && (ti < 4 || c.Thorough()) {
			fields := []func(*tokens.Token) *[]byte{
				func(t *tokens.Token) *[]byte { return &t.Nonce }, func(t *tokens.Token) *[]byte { return &t.Context },
				func(t *tokens.Token) *[]byte { return &t.KeyID }, func(t *tokens.Token) *[]byte { return &t.Authenticator }}
			for fi, f := range fields {
				n := len(*f(&tok))
				for bit := 0; bit < 8*n; bit++ {
					v := cloneTok(tok)
					(*f(&v))[bit/8] ^= 1 << uint(bit%8)
					if c10Check(c, pfx+"bitflip:every-position", is, v) {
						c.Violation("a single-bit change to a token is accepted", map[string]any{"field": fi, "bit": bit})
					}
				}
			}
			for bit := 0; bit < 16; bit++ {
				v := cloneTok(tok)
				v.TokenType ^= 1 << uint(bit)
				if c10Check(c, pfx+"bitflip:type", is, v) {
					c.Violation("a single-bit change to the token type is accepted", map[string]any{"bit": bit})
				}
			}
		}
		// authenticator length variants: truncated, extended (valid prefix + extra bytes), empty, nil
		for _, a := range [][]byte{nil, {}, tok.Authenticator[:1], tok.Authenticator[:len(tok.Authenticator)-1], cat(tok.Authenticator, []byte{0}), cat(tok.Authenticator, rnd(c, 16)), cat(tok.Authenticator, tok.Authenticator), cat([]byte{0}, tok.Authenticator)} {
			v := cloneTok(tok)
			v.Authenticator = a
			if c10Check(c, pfx+"authenticator:length-variants", is, v) {
				c.Violation("a token whose authenticator is not exactly the VOPRF output is accepted", map[string]any{"len": len(a)})
			}
		}
		// arbitrary field lengths / shifted field boundaries (same concatenated input: same verdict as the honest token)
		v := cloneTok(tok)
		v.Nonce, v.Context = tok.Nonce[:20], cat(tok.Nonce[20:], tok.Context)
		c10Check(c, pfx+"fields:shifted-boundaries", is, v)
		v = cloneTok(tok)
		v.Nonce, v.Context, v.KeyID = nil, nil, cat(tok.Nonce, tok.Context, tok.KeyID)
		c10Check(c, pfx+"fields:shifted-boundaries", is, v)
		// the same concatenation of ALL fields cut at other places between key id and authenticator: the authenticator
		// carried is then not the evaluation of the input carried
		na := len(tok.Authenticator)
		for _, k := range []int{1, 16, na / 2, na - 1, na} {
			v = cloneTok(tok)
			v.KeyID, v.Authenticator = cat(tok.KeyID, tok.Authenticator[:k]), append([]byte{}, tok.Authenticator[k:]...)
			if c10Check(c, pfx+"fields:recut-keyid-authenticator", is, v) {
				c.Violation("a token whose key id / authenticator boundary was moved (same concatenation) is accepted", map[string]any{"moved": k})
			}
			if k < 32 {
				v = cloneTok(tok)
				v.KeyID, v.Authenticator = append([]byte{}, tok.KeyID[:32-k]...), cat(tok.KeyID[32-k:], tok.Authenticator)
				if c10Check(c, pfx+"fields:recut-keyid-authenticator", is, v) {
					c.Violation("a token whose key id / authenticator boundary was moved (same concatenation) is accepted", map[string]any{"moved": -k})
				}
			}
		}
		for _, l := range []int{0, 1, 31, 33, 64} {
			v = cloneTok(tok)
			v.Nonce = rnd(c, l)
			c10Check(c, pfx+"fields:arbitrary-lengths", is, v)
			v = cloneTok(tok)
			v.KeyID = rnd(c, l)
			c10Check(c, pfx+"fields:arbitrary-lengths", is, v)
		}
		// every (token, issuer key) pairing, incl. the issuer of the other type
		for ii, other := range issuers {
			if ii == owner[ti] {
				continue
			}
			if c10Check(c, pfx+"pairing:token-x-issuer", other, tok) {
				c.Violation("a token issued under another key / of the other type is accepted", map[string]any{"token_owner": owner[ti], "issuer": ii})
			}
			// a token of the other type re-labelled with this issuer's type
			v := cloneTok(tok)
			v.TokenType = map[string]uint16{"type1": 1, "type5": 5}[other.name]
			if c10Check(c, pfx+"pairing:relabelled-type", other, v) {
				c.Violation("a re-labelled token of another issuer is accepted", nil)
			}
		}
		// the untouched token still verifies after all of the above
		if !c10Check(c, pfx+"honest:again", is, tok) {
			c.Violation("an honestly issued token is rejected after other tokens were presented", nil)
		}
	}
	// swapping authenticators between two honest tokens of the same issuer
	for a := 0; a < len(honest); a++ {
		for b := 0; b < len(honest); b++ {
			if a != b && owner[a] == owner[b] {
				v := cloneTok(honest[a])
				v.Authenticator = append([]byte{}, honest[b].Authenticator...)
				if c10Check(c, pfx+"swap:authenticator-of-another-token", issuers[owner[a]], v) {
					c.Violation("a token carrying another token's authenticator is accepted", nil)
				}
			}
		}
	}
}
