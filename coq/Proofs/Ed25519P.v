From PatVerif Require Import Model.Ed25519 Model.Ecdsa Proofs.EcdsaP.
From Coq Require Import ZifyN ZifyNat ZifyBool.
Open Scope N_scope.

Lemma le_bytes_leq_spec a : forall b, length a = length b ->
  (le_bytes_leq a b = true <-> be_dec a <= be_dec b).
Proof.
  induction a as [|x a IH]; intros [|y b] Hl; try discriminate; [cbn; split; [lia|reflexivity]|].
  cbn [le_bytes_leq be_dec]. injection Hl as Hl. rewrite <- Hl.
  pose proof (be_dec_lt a) as La. pose proof (be_dec_lt b) as Lb. rewrite <- Hl in Lb.
  set (P := 256 ^ N.of_nat (length a)) in *.
  destruct (b2n y <? b2n x) eqn:E1.
  - split; [discriminate|]. intro H. exfalso. nia.
  - destruct (b2n x <? b2n y) eqn:E2.
    + split; [intros _; nia|reflexivity].
    + assert (b2n x = b2n y) by lia. rewrite (IH b Hl). split; nia.
Qed.

Lemma L_bound : L < 2 ^ 253 /\ 0 < L. Proof. unfold L, order_ed25519. split; [vm_compute; reflexivity|lia]. Qed.

Lemma le_val_rev s : le_val s = be_dec (rev s).
Proof. unfold le_val. apply be_dec_h_eq. Qed.

Theorem is_reduced_spec_l s : length s = 32%nat -> (is_reduced s = true <-> le_val s < L).
Proof.
  intro H. unfold is_reduced, le_bytes. rewrite rev_involutive, be_enc_f_eq.
  rewrite le_bytes_leq_spec by (rewrite rev_length, be_enc_length; exact H).
  rewrite be_enc_small by (unfold L, order_ed25519; vm_compute; reflexivity).
  rewrite le_val_rev. pose proof L_bound. lia.
Qed.

Lemma land224_small z : z < 32 -> N.land z 224 = 0.
Proof.
  intro H. assert (E : forallb (fun k => N.land (N.of_nat k) 224 =? 0) (seq 0 32) = true) by (vm_compute; reflexivity).
  rewrite forallb_forall in E. specialize (E (N.to_nat z)). rewrite N2Nat.id in E.
  apply N.eqb_eq, E, in_seq. lia.
Qed.

(** the early rejection sig[63] & 224 != 0 never changes a verdict: every canonical S passes it *)
Theorem precheck_redundant_l s : length s = 32%nat -> le_val s < L -> N.land (b2n (nth 31 s x00)) 224 = 0.
Proof.
  intros H Hlt. apply land224_small.
  destruct (rev s) as [|z t] eqn:E.
  { apply (f_equal (@length byte)) in E. rewrite rev_length, H in E. discriminate. }
  assert (Hz : nth 31 s x00 = z).
  { rewrite <- (rev_involutive s), E. cbn [rev]. rewrite app_nth2; rewrite rev_length.
    - assert (length t = 31%nat). { apply (f_equal (@length byte)) in E. rewrite rev_length, H in E. cbn in E. lia. }
      replace (31 - length t)%nat with 0%nat by lia. reflexivity.
    - apply (f_equal (@length byte)) in E. rewrite rev_length, H in E. cbn in E. lia. }
  rewrite Hz. rewrite le_val_rev, E in Hlt. cbn [be_dec] in Hlt.
  assert (length t = 31%nat). { apply (f_equal (@length byte)) in E. rewrite rev_length, H in E. cbn in E. lia. }
  rewrite H0 in Hlt. pose proof L_bound as [Lb _].
  change (256 ^ N.of_nat 31) with (2 ^ 248) in Hlt. change (2 ^ 253) with (32 * 2 ^ 248) in Lb.
  assert (0 < 2 ^ 248) by (apply N.neq_0_lt_0, N.pow_nonzero; lia). nia.
Qed.

(** clamping: before the reduction mod L the value is a multiple of 8 in [2^254, 2^255) *)
Definition clamp_pre (v : N) : N := (v mod 2 ^ 254) / 8 * 8 + 2 ^ 254.
Theorem clamp_pre_spec_l v : clamp_pre v mod 8 = 0 /\ 2 ^ 254 <= clamp_pre v < 2 ^ 255.
Proof.
  unfold clamp_pre. assert (P : 2 ^ 254 = 8 * 2 ^ 251) by (vm_compute; reflexivity).
  assert (Q : 2 ^ 255 = 2 * 2 ^ 254) by (vm_compute; reflexivity).
  set (m := v mod 2 ^ 254). assert (m < 2 ^ 254) by (apply N.mod_upper_bound; vm_compute; discriminate).
  set (T := 2 ^ 254) in *. split.
  - rewrite P. replace (m / 8 * 8 + 8 * 2 ^ 251) with ((m / 8 + 2 ^ 251) * 8) by lia. apply N.mod_mul. lia.
  - split; [lia|]. rewrite Q. assert (m / 8 * 8 <= m) by (rewrite N.mul_comm; apply N.mul_div_le; lia). lia.
Qed.
Lemma clamp_is b : clamp b = clamp_pre (le_val b) mod L.
Proof. reflexivity. Qed.

(** GenerateKey consumes the reader exactly like io.ReadFull(rand, seed[0:32]) *)
Definition ed_generate_key_entropy (script : list rd_ev) : res (list byte) :=
  match read_full script 32 [] with Ok (b, _) => Ok b | Err => Err | Panic => Panic end.
Theorem ed_generate_fail_closed_l script : (total script < 32)%nat -> ed_generate_key_entropy script = Err.
Proof.
  intro H. unfold ed_generate_key_entropy.
  destruct (read_full script 32 []) as [[out rest]| |] eqn:E; try reflexivity.
  - apply read_full_needs in E. lia.
  - exfalso. eapply read_full_never_panics; exact E.
Qed.
Theorem ed_generate_succeeds_l script : (32 <= available script)%nat ->
  exists seed, ed_generate_key_entropy script = Ok seed /\ length seed = 32%nat.
Proof.
  intro H. unfold ed_generate_key_entropy. destruct (read_full_enough script 32 [] H) as (out & rest & E).
  rewrite E. apply read_full_needs in E. exists out. split; [reflexivity|cbn [length] in E; lia].
Qed.
