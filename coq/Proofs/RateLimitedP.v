From PatVerif Require Import Model.RateLimited Proofs.FrontendsP Proofs.CodecsP Proofs.UnpadP Proofs.PadP Proofs.FinalizeP.
From Coq Require Import ZifyN ZifyNat ZifyBool.
Open Scope N_scope.

Section Run3P.
  Variable hpke_open : list byte -> list byte -> list byte -> option (list byte * list byte).
  Variable cfg_prefix issuer_key_id : list byte.
  Variable parse_pk : list byte -> bool.
  Variable sig_verify : list byte -> list byte -> list byte -> bool.
  Variable registered : list byte -> bool.
  Variable sign_and_seal : req3 -> inner -> list byte -> option (list byte * list byte).
  Variable aead_open : list byte -> list byte -> option (list byte).
  Variable rsa_finalize : list byte -> option (list byte).
  Variable pss_ok : list byte -> list byte -> bool.
  Notation run3 := (run3 hpke_open cfg_prefix issuer_key_id parse_pk sig_verify registered sign_and_seal aead_open rsa_finalize pss_ok).
  Notation aad := (aad cfg_prefix issuer_key_id).

  Theorem honest_type3_l r keyid0 bm name secret rnonce ct brk bs sg ty nonce ctx keyid :
    (* the request is well formed: 49-byte request key, 32-byte name key id, ciphertext of 32..65535 bytes, 96-byte signature *)
    wf_req3 r -> (32 <= length (q3_enc r))%nat ->
    (* the origin name does not end in a zero byte, is registered, and its padding fits the u16 length field *)
    ends_nonzero name -> registered name = true -> fits16 (pad name) = true ->
    keyid0 < 256 -> length bm = 256%nat ->
    (* HPKE correctness: the issuer opens what the client sealed, with the request key bound as associated data *)
    hpke_open (firstn 32 (q3_enc r)) (aad (q3_key r)) (skipn 32 (q3_enc r)) = Some (enc_inner (inner_for keyid0 bm name), secret) ->
    (* the request key parses and the request signature verifies (C12/C13: what the blinded key signs, it verifies) *)
    parse_pk (q3_key r) = true -> sig_verify (q3_key r) (signed_message r) (q3_sig r) = true ->
    (* the issuer's blind signature, sealed under the key derived from (secret, encapsulated key || response nonce) *)
    sign_and_seal r (inner_for keyid0 bm name) secret = Some (rnonce ++ ct, brk) -> length rnonce = 16%nat ->
    (* AEAD correctness, RSA unblinding (C11), PSS consistency *)
    aead_open (firstn 32 (q3_enc r) ++ rnonce) ct = Some bs ->
    rsa_finalize bs = Some sg -> length sg = 256%nat ->
    ty < 65536 -> length nonce = 32%nat -> length ctx = 32%nat -> length keyid = 32%nat ->
    pss_ok (tok_input ty nonce ctx keyid) sg = true ->
    run3 r (tok_input ty nonce ctx keyid)
      = Ok {| t_type := ty; t_nonce := nonce; t_ctx := ctx; t_keyid := keyid; t_auth := sg |}.
  Proof.
    intros W L32 Hend Hreg Hfit Hk0 Hbm Hopen Hpk Hsig Hseal Lrn Haead Hfin Lsg Hty Hn Hc Hk Hpss.
    pose proof W as (Wk & Wn & We & Wf & Ws).
    unfold RateLimited.run3, eval3. rewrite um_req3_enc by exact W.
    unfold decrypt_go. replace (Nat.ltb (length (q3_enc r)) 32) with false by lia.
    rewrite slice_ok by lia. rewrite slice_from_ok by lia. cbn [bind].
    rewrite skipn_O. replace (32 - 0)%nat with 32%nat by lia. rewrite Hopen.
    rewrite <- (app_nil_r (enc_inner _)).
    rewrite um_inner_enc by (unfold wf_inner, inner_for; cbn; auto).
    cbn [bind fst snd inner_for in_padded].
    rewrite unpad_go_pad_l by exact Hend. cbn [bind]. rewrite Hreg, Hpk. cbn [negb].
    rewrite slice_to_ok, slice_from_ok by lia. cbn [bind]. rewrite Wf, Hsig. cbn [negb].
    rewrite Hseal. cbn [opt_res].
    unfold fin3, response_nonce_len. rewrite app_length, Lrn.
    replace (Nat.ltb (16 + length ct) 16) with false by lia.
    rewrite slice_to_ok, slice_from_ok by (rewrite app_length; lia). cbn [bind].
    assert (F16 : firstn 16 (rnonce ++ ct) = rnonce).
    { rewrite <- Lrn. now rewrite firstn_app, Nat.sub_diag, firstn_O, app_nil_r, firstn_all. }
    assert (S16 : skipn 16 (rnonce ++ ct) = ct).
    { rewrite <- Lrn. now rewrite skipn_app, Nat.sub_diag, skipn_O, skipn_all. }
    rewrite F16, S16.
    rewrite Haead. unfold fin2. rewrite Hfin.
    set (t := {| t_type := ty; t_nonce := nonce; t_ctx := ctx; t_keyid := keyid; t_auth := sg |}).
    assert (E : tok_input ty nonce ctx keyid ++ sg = enc_token t ++ []).
    { unfold tok_input, enc_token, t. cbn [t_type t_nonce t_ctx t_keyid t_auth]. now rewrite app_nil_r, <- !app_assoc. }
    rewrite E, dec_enc_token by (unfold wf_token, t; cbn; auto).
    unfold auth_input, t. cbn [t_type t_nonce t_ctx t_keyid t_auth].
    change (u16 ty ++ nonce ++ ctx ++ keyid) with (tok_input ty nonce ctx keyid). now rewrite Hpss.
  Qed.
End Run3P.

(** ** client and issuer agree: the request the client model assembles is accepted by the issuer model *)
From PatVerif Require Import Proofs.HashP.
Section ClientIssuer.
  Variable hpke_seal : list byte -> list byte -> list byte -> list byte * list byte * list byte.
  Variable hpke_open : list byte -> list byte -> list byte -> option (list byte * list byte).
  Variable sign : list byte -> list byte.
  Variable parse_pk : list byte -> bool.
  Variable sig_verify : list byte -> list byte -> list byte -> bool.
  Variable registered : list byte -> bool.
  Variable sign_and_seal : req3 -> inner -> list byte -> option (list byte * list byte).
  Variable aead_open : list byte -> list byte -> option (list byte).
  Variable rsa_finalize : list byte -> option (list byte).
  Variable pss_ok : list byte -> list byte -> bool.

  (** the two sites build the same associated data and the same signed message *)
  Lemma aad_agree nk rk : aad (issuer_cfg nk) (name_key_id nk) rk = client_aad nk rk.
  Proof. unfold aad, client_aad, issuer_cfg. now rewrite <- !app_assoc. Qed.
  Lemma signed_agree r : signed_message r = client_signed (q3_key r) (q3_nkid r) (q3_enc r).
  Proof. reflexivity. Qed.

  (** HPKE correctness, the signature scheme's correctness, and sizes, as laws of the primitives *)
  Hypothesis hpke_correct : forall rnd ad pt, let '(enc, ct, secret) := hpke_seal rnd ad pt in
    length enc = 32%nat /\ hpke_open enc ad ct = Some (pt, secret).
  Hypothesis sign_correct : forall rk msg, parse_pk rk = true -> sig_verify rk msg (sign msg) = true.
  Hypothesis sign_len : forall msg, length (sign msg) = 96%nat.

  Theorem client_request_served_l nk rk keyid0 bm name rnd rnonce ct brk bs sg ty nonce ctx keyid :
    length rk = 49%nat -> parse_pk rk = true ->
    ends_nonzero name -> registered name = true -> fits16 (pad name) = true -> keyid0 < 256 -> length bm = 256%nat ->
    let '(r, secret) := client_request3 hpke_seal sign nk rk keyid0 bm name rnd in
    fits16 (q3_enc r) = true ->
    sign_and_seal r (inner_for keyid0 bm name) secret = Some (rnonce ++ ct, brk) -> length rnonce = 16%nat ->
    aead_open (firstn 32 (q3_enc r) ++ rnonce) ct = Some bs ->
    rsa_finalize bs = Some sg -> length sg = 256%nat ->
    ty < 65536 -> length nonce = 32%nat -> length ctx = 32%nat -> length keyid = 32%nat ->
    pss_ok (tok_input ty nonce ctx keyid) sg = true ->
    run3 hpke_open (issuer_cfg nk) (name_key_id nk) parse_pk sig_verify registered sign_and_seal aead_open rsa_finalize pss_ok
         r (tok_input ty nonce ctx keyid)
      = Ok {| t_type := ty; t_nonce := nonce; t_ctx := ctx; t_keyid := keyid; t_auth := sg |}.
  Proof.
    intros Lrk Hpk Hend Hreg Hfit Hk0 Hbm. unfold client_request3.
    pose proof (hpke_correct rnd (client_aad nk rk) (enc_inner (inner_for keyid0 bm name))) as HC.
    destruct (hpke_seal rnd (client_aad nk rk) (enc_inner (inner_for keyid0 bm name))) as [[enc c] secret].
    destruct HC as [Lenc Hopen]. intros Hf16 Hseal Lrn Haead Hfin Lsg Hty Hn Hc Hk Hpss.
    set (r := {| q3_key := rk; q3_nkid := name_key_id nk; q3_enc := enc ++ c;
                 q3_sig := sign (client_signed rk (name_key_id nk) (enc ++ c)) |}) in *.
    assert (F32 : firstn 32 (enc ++ c) = enc) by (rewrite <- Lenc; now rewrite firstn_app, Nat.sub_diag, firstn_O, app_nil_r, firstn_all).
    assert (S32 : skipn 32 (enc ++ c) = c) by (rewrite <- Lenc; now rewrite skipn_app, Nat.sub_diag, skipn_O, skipn_all).
    apply (honest_type3_l hpke_open (issuer_cfg nk) (name_key_id nk) parse_pk sig_verify registered sign_and_seal
             aead_open rsa_finalize pss_ok r keyid0 bm name secret rnonce ct brk bs sg ty nonce ctx keyid); auto.
    - unfold wf_req3, r. cbn [q3_key q3_nkid q3_enc q3_sig]. repeat split; auto.
      + unfold name_key_id. apply sha256_length.
      + destruct enc; [discriminate|discriminate].
    - unfold r. cbn [q3_enc]. rewrite app_length. lia.
    - unfold r. cbn [q3_enc q3_key]. now rewrite F32, S32, aad_agree.
    - unfold r at 1 3. cbn [q3_key q3_sig]. rewrite signed_agree. unfold r. cbn [q3_key q3_nkid q3_enc]. now apply sign_correct.
  Qed.
End ClientIssuer.
