(** C14 — the Ed25519 fork is bit-compatible with standard Ed25519.
    Layer A (Model/Ed25519.v): RFC 8032 key derivation and signing byte-exact up to the group operations, the
    verifier's canonical-S test and early rejection, clamping, and entropy consumption.  Layer B: the verification
    equation in exponent form.  Layer A' (Model/Fe.v): the GF(2^255-19) limb arithmetic of field/ as the Go code
    computes it (uint64 wrap-around, 128-bit accumulators), proved to be the field operations under the limb bounds
    the code maintains; Model/EdPoint.v: the extended-coordinate points on top of it, proved to compute the RFC 8032
    addition and doubling formulas on the field values.  The scalar limb arithmetic (scalar.go) and the windowed scalar
    multiplications with their tables remain primitives, tied to Z mod L and to the model's double-and-add by
    differential execution only (partial). *)
From Coq Require Import Field Bool.
From PatVerif Require Import Model.Ed25519 Proofs.Ed25519P Model.Fe Proofs.FeP Model.EdPoint Proofs.EdPointP Model.Radix16 Proofs.Radix16P Model.Naf Proofs.NafP Model.Ecdsa Proofs.EcdsaP Model.Algebra Proofs.AlgebraP.
Open Scope N_scope.

(** scalar.isReduced (byte-wise comparison with L-1 from the most significant byte) decides value < L,
    for EVERY 32-byte string: S, S+L, S with high bits set are told apart exactly *)
Theorem is_reduced_spec : forall s, length s = 32%nat -> (is_reduced s = true <-> le_val s < L).
Proof. exact is_reduced_spec_l. Qed.
Print Assumptions is_reduced_spec.

(** the early rejection sig[63] & 224 != 0 never changes a verdict *)
Theorem precheck_redundant : forall s, length s = 32%nat -> le_val s < L -> N.land (b2n (nth 31 s x00)) 224 = 0.
Proof. exact precheck_redundant_l. Qed.
Print Assumptions precheck_redundant.

(** clamping (SetBytesWithClamping): the secret scalar is (a multiple of 8 in [2^254, 2^255)) mod L *)
Theorem clamp_value : forall b, clamp b = clamp_pre (le_val b) mod L /\
  clamp_pre (le_val b) mod 8 = 0 /\ 2 ^ 254 <= clamp_pre (le_val b) < 2 ^ 255.
Proof. intro b. split; [apply clamp_is|apply clamp_pre_spec_l]. Qed.
Print Assumptions clamp_value.

(** key generation consumes the entropy reader like io.ReadFull of 32 bytes: it fails for EVERY script that
    cannot deliver 32 bytes and succeeds, with exactly the first 32 bytes as seed, when it can *)
Theorem generate_key_fail_closed : forall script, (total script < 32)%nat -> ed_generate_key_entropy script = Err.
Proof. exact ed_generate_fail_closed_l. Qed.
Print Assumptions generate_key_fail_closed.
Theorem generate_key_succeeds : forall script, (32 <= available script)%nat ->
  exists seed, ed_generate_key_entropy script = Ok seed /\ length seed = 32%nat.
Proof. exact ed_generate_succeeds_l. Qed.
Print Assumptions generate_key_succeeds.

(** what is signed verifies (exponent form, any field): S = n + h a satisfies [S]B = R + [h]A *)
Section Eq.
  Variable F : Type.
  Variables (f0 f1 : F) (fadd fmul fsub : F -> F -> F) (fopp : F -> F) (fdiv : F -> F -> F) (finv : F -> F).
  Variable feqb : F -> F -> bool.
  Hypothesis Fth : field_theory f0 f1 fadd fmul fsub fopp fdiv finv (@eq F).
  Hypothesis feqb_spec : forall a b, feqb a b = true <-> a = b.
  Theorem sign_verifies : forall a n h,
    let '(Rp, Sc) := ed_sign F fadd fmul a n h in ed_verify F fadd fmul feqb (fmul a f1) Rp Sc h = true.
  Proof. exact (ed_sign_verifies_l F f0 f1 fadd fmul fsub fopp fdiv finv feqb Fth feqb_spec). Qed.
End Eq.
Print Assumptions sign_verifies.

Example is_reduced_examples :
  is_reduced (le_bytes 32 (L - 1)) = true /\ is_reduced (le_bytes 32 L) = false /\
  is_reduced (le_bytes 32 (L + 18)) = false /\ is_reduced (le_bytes 32 0) = true /\ is_reduced (repeat xff 32) = false.
Proof. vm_compute. repeat split; reflexivity. Qed.

(** ---- the field GF(2^255-19) in five 51-bit limbs (Model/Fe.v mirrors fe.go / fe_generic.go operation by operation) ----
    [u64s]: any five uint64 limbs.  [loose]: limbs below 2^52, what Multiply and Square tolerate.  [tight]: limbs below
    2^51 + 2^13*19, what every operation that ends in carryPropagate leaves.  Under these bounds no 64-bit or 128-bit
    operation of the Go code wraps, and the results are the field operations on the values. *)
Theorem field_carry : forall v, u64s v ->
  tight (fe_carry v) /\ fe_val v = fe_val (fe_carry v) + shr51 (l4 v) * fe_p.
Proof. exact fe_carry_spec. Qed.
Print Assumptions field_carry.

Theorem field_mul : forall a b, loose a -> loose b ->
  tight (fe_mul a b) /\ fe_val (fe_mul a b) mod fe_p = (fe_val a * fe_val b) mod fe_p.
Proof. exact fe_mul_spec. Qed.
Print Assumptions field_mul.

Theorem field_square : forall a, loose a ->
  tight (fe_square a) /\ fe_val (fe_square a) mod fe_p = (fe_val a * fe_val a) mod fe_p.
Proof. exact fe_square_spec. Qed.
Print Assumptions field_square.

Theorem field_add : forall a b, limbs_lt 9223372036854775808 a -> limbs_lt 9223372036854775808 b ->
  tight (fe_add a b) /\ fe_val (fe_add a b) mod fe_p = (fe_val a + fe_val b) mod fe_p.
Proof. exact fe_add_spec. Qed.
Print Assumptions field_add.

(** Subtract adds 2p limb-wise before subtracting: no limb underflows as long as b's limbs stay within 2p's *)
Theorem field_sub : forall a b, limbs_lt 9223372036854775808 a -> limbs_lt 4503599627370458 b ->
  tight (fe_sub a b) /\ (fe_val (fe_sub a b) + fe_val b) mod fe_p = fe_val a mod fe_p.
Proof. exact fe_sub_spec. Qed.
Print Assumptions field_sub.

(** Mult32 (exported by the field package; the point code does not use it): limbs below 2^51 + 2^38, value x*y *)
Theorem field_mult32 : forall x y, loose x -> y < 4294967296 ->
  limbs_lt (2251799813685248 + 274877906944) (fe_mult32 x y) /\ fe_val (fe_mult32 x y) mod fe_p = (fe_val x * y) mod fe_p.
Proof. exact fe_mult32_spec. Qed.
Print Assumptions field_mult32.

(** reduce yields THE canonical representative, for any five uint64 limbs *)
Theorem field_reduce_canonical : forall v, u64s v ->
  limbs_lt 2251799813685248 (fe_reduce v) /\ fe_val (fe_reduce v) = fe_val v mod fe_p.
Proof. exact fe_reduce_spec. Qed.
Print Assumptions field_reduce_canonical.

(** Bytes is the 32-byte little-endian encoding of the canonical representative (bit 255 clear); SetBytes reads the
    low 255 bits and inverts Bytes; Equal decides equality in the field; IsNegative is the canonical parity *)
Theorem field_bytes_canonical : forall v, u64s v -> fe_bytes v = le_bytes 32 (fe_val v mod fe_p).
Proof. exact fe_bytes_spec. Qed.
Print Assumptions field_bytes_canonical.

Theorem field_set_bytes : forall x, length x = 32%nat ->
  limbs_lt 2251799813685248 (fe_set_bytes x) /\ fe_val (fe_set_bytes x) = le_val x mod 2 ^ 255.
Proof. exact fe_set_bytes_spec. Qed.
Print Assumptions field_set_bytes.

Theorem field_set_bytes_inverts_bytes : forall v, u64s v -> fe_val (fe_set_bytes (fe_bytes v)) = fe_val v mod fe_p.
Proof. exact fe_set_bytes_bytes. Qed.
Print Assumptions field_set_bytes_inverts_bytes.

Theorem field_equal : forall a b, u64s a -> u64s b ->
  (fe_equal a b = true <-> fe_val a mod fe_p = fe_val b mod fe_p).
Proof. exact fe_equal_spec. Qed.
Print Assumptions field_equal.

Theorem field_is_negative : forall a, u64s a -> fe_is_negative a = (fe_val a mod fe_p) mod 2.
Proof. exact fe_is_negative_spec. Qed.
Print Assumptions field_is_negative.

(** the two addition chains compute the powers they are meant to: Invert is z^(p-2), Pow22523 is z^((p-5)/8), with
    every intermediate inside the multiplication's bounds ([pw z t e]: t is loose and its value is z^e modulo p) *)
Theorem field_invert_power : forall z, loose z -> pw z (fe_invert z) (fe_p - 2).
Proof. exact fe_invert_spec. Qed.
Print Assumptions field_invert_power.

Theorem field_pow22523_power : forall z, loose z -> pw z (fe_pow22523 z) ((fe_p - 5) / 8).
Proof. exact fe_pow22523_spec. Qed.
Print Assumptions field_pow22523_power.

(** the bounds are inhabited and the chains run: 2 * 2^-1 = 1, sqrt(-1)^2 = -1, and an element at the edge of [loose] *)
Example field_examples :
  loose (mkfe 4503599627370495 4503599627370495 4503599627370495 4503599627370495 4503599627370495) /\
  tight fe_sqrt_m1 /\
  fe_val (fe_reduce (fe_mul (fe_invert (mkfe 2 0 0 0 0)) (mkfe 2 0 0 0 0))) = 1 /\
  fe_val (fe_reduce (fe_square fe_sqrt_m1)) = fe_p - 1 /\
  fe_bytes (mkfe 18446744073709551615 18446744073709551615 18446744073709551615 18446744073709551615 18446744073709551615)
    = le_bytes 32 ((18446744073709551615 * (1 + 2 ^ 51 + 2 ^ 102 + 2 ^ 153 + 2 ^ 204)) mod fe_p).
Proof. vm_compute. repeat split; reflexivity. Qed.

(** ---- the points (Model/EdPoint.v mirrors edwards25519.go: cached form, P1xP1, Add, Subtract, Double, Negate) ----
    [pt_ok]: all four coordinates tight.  [fz]: the value of a field element as an integer; [==]: congruence modulo p.
    For ALL bounded inputs (on the curve or not) the results are bounded again and are the formulas of RFC 8032, 5.1.4,
    evaluated in the field. *)
Theorem point_add_is_rfc8032 : forall p q, pt_ok p -> pt_ok q ->
  pt_ok (pt_add p q) /\
  eqp (fz (px (pt_add p q))) (add_X3 (fz (px p)) (fz (py p)) (fz (pz p)) (fz (pt p)) (fz (px q)) (fz (py q)) (fz (pz q)) (fz (pt q))) /\
  eqp (fz (py (pt_add p q))) (add_Y3 (fz (px p)) (fz (py p)) (fz (pz p)) (fz (pt p)) (fz (px q)) (fz (py q)) (fz (pz q)) (fz (pt q))) /\
  eqp (fz (pz (pt_add p q))) (add_Z3 (fz (px p)) (fz (py p)) (fz (pz p)) (fz (pt p)) (fz (px q)) (fz (py q)) (fz (pz q)) (fz (pt q))) /\
  eqp (fz (pt (pt_add p q))) (add_T3 (fz (px p)) (fz (py p)) (fz (pz p)) (fz (pt p)) (fz (px q)) (fz (py q)) (fz (pz q)) (fz (pt q))).
Proof. exact pt_add_formula. Qed.
Print Assumptions point_add_is_rfc8032.

(** subtraction is the addition of the negated point (x and t negated) *)
Theorem point_sub_is_add_of_negation : forall p q, pt_ok p -> pt_ok q ->
  pt_ok (pt_sub p q) /\
  eqp (fz (px (pt_sub p q))) (add_X3 (fz (px p)) (fz (py p)) (fz (pz p)) (fz (pt p)) (- fz (px q)) (fz (py q)) (fz (pz q)) (- fz (pt q))) /\
  eqp (fz (py (pt_sub p q))) (add_Y3 (fz (px p)) (fz (py p)) (fz (pz p)) (fz (pt p)) (- fz (px q)) (fz (py q)) (fz (pz q)) (- fz (pt q))) /\
  eqp (fz (pz (pt_sub p q))) (add_Z3 (fz (px p)) (fz (py p)) (fz (pz p)) (fz (pt p)) (- fz (px q)) (fz (py q)) (fz (pz q)) (- fz (pt q))) /\
  eqp (fz (pt (pt_sub p q))) (add_T3 (fz (px p)) (fz (py p)) (fz (pz p)) (fz (pt p)) (- fz (px q)) (fz (py q)) (fz (pz q)) (- fz (pt q))).
Proof. exact pt_sub_formula. Qed.
Print Assumptions point_sub_is_add_of_negation.

(** doubling: the RFC formulas with all four coordinates negated (the code computes -E and -G), the same projective point *)
Theorem point_double_is_rfc8032 : forall p, pt_ok p ->
  pt_ok (pt_double p) /\
  eqp (fz (px (pt_double p))) (- (dbl_E (fz (px p)) (fz (py p)) * dbl_F (fz (px p)) (fz (py p)) (fz (pz p)))) /\
  eqp (fz (py (pt_double p))) (- (dbl_G (fz (px p)) (fz (py p)) * dbl_H (fz (px p)) (fz (py p)))) /\
  eqp (fz (pz (pt_double p))) (- (dbl_F (fz (px p)) (fz (py p)) (fz (pz p)) * dbl_G (fz (px p)) (fz (py p)))) /\
  eqp (fz (pt (pt_double p))) (- (dbl_E (fz (px p)) (fz (py p)) * dbl_H (fz (px p)) (fz (py p)))).
Proof. exact pt_double_formula. Qed.
Print Assumptions point_double_is_rfc8032.

(** X*Y = Z*T holds for every result, whatever the (bounded) inputs were; every multiple computed by double-and-add from
    a bounded point is bounded: no limb operation wraps anywhere in a scalar multiplication of the model *)
Theorem point_results_keep_extended_invariant : forall p q, pt_ok p -> pt_ok q ->
  ext_inv (pt_add p q) /\ ext_inv (pt_sub p q) /\ ext_inv (pt_double p).
Proof. intros p q Hp Hq. split; [|split]; [exact (pt_add_ext_inv p q Hp Hq) | exact (pt_sub_ext_inv p q Hp Hq) | exact (pt_double_ext_inv p Hp)]. Qed.
Print Assumptions point_results_keep_extended_invariant.

Theorem point_multiples_stay_bounded : forall n p, pt_ok p -> pt_ok (pt_mul n p).
Proof. exact pt_mul_ok. Qed.
Print Assumptions point_multiples_stay_bounded.

(** Equal decides equality of projective points; Bytes is the encoding of the affine point (y little-endian, parity of
    x in the top bit) with Z^(p-2) in the place of 1/Z; an accepted encoding decodes to a bounded point with Z = 1,
    Y = the low 255 bits of the input, T = X*Y; hence no limb operation wraps anywhere in the model's verification *)
Theorem point_equal_decides_projective_equality : forall v u, pt_ok v -> pt_ok u ->
  (pt_equal v u = true <->
   eqp (fz (px v) * fz (pz u)) (fz (px u) * fz (pz v)) /\ eqp (fz (py v) * fz (pz u)) (fz (py u) * fz (pz v))).
Proof. exact pt_equal_spec. Qed.
Print Assumptions point_equal_decides_projective_equality.

Theorem point_bytes_is_the_affine_encoding : forall v, pt_ok v ->
  pt_bytes v = set_top_bit (le_bytes 32 ((fe_val (py v) * fe_val (pz v) ^ (fe_p - 2)) mod fe_p))
                           (((fe_val (px v) * fe_val (pz v) ^ (fe_p - 2)) mod fe_p) mod 2).
Proof. exact pt_bytes_spec. Qed.
Print Assumptions point_bytes_is_the_affine_encoding.

Theorem point_decoding_yields_bounded_points : forall x p, length x = 32%nat -> pt_set_bytes x = Some p ->
  pt_ok p /\ fe_val (py p) = le_val x mod 2 ^ 255 /\ pz p = fe_one /\ eqp (fz (pt p)) (fz (px p) * fz (py p)).
Proof. exact pt_set_bytes_ok. Qed.
Print Assumptions point_decoding_yields_bounded_points.

Theorem verification_in_the_model_never_wraps : forall pk A k S, length pk = 32%nat -> pt_set_bytes pk = Some A ->
  pt_ok (pt_add (pt_mul k (pt_neg A)) (pt_mul S ed_base)).
Proof. exact edm_verify_point_bounded. Qed.
Print Assumptions verification_in_the_model_never_wraps.

(** Ed25519 inside the model (edm_sign / edm_verify: SHA-512, scalars modulo L, double-and-add over the proved field
    arithmetic; compared byte for byte with the fork): the verifier refuses — before any curve arithmetic — every
    signature of another length than 64, with one of the three top bits of S set, with a non-canonical S, or under a key
    that does not decode; every signature the signer produces has 64 bytes and a canonical S *)
Theorem model_verifier_refuses_malformed : forall pk msg sig,
  length sig <> 64%nat \/ N.land (b2n (nth 63 sig x00)) 224 <> 0 \/ is_reduced (skipn 32 sig) = false \/ pt_set_bytes pk = None ->
  edm_verify pk msg sig = false.
Proof. exact edm_verify_refuses. Qed.
Print Assumptions model_verifier_refuses_malformed.

Theorem model_signer_produces_canonical_S : forall seed msg,
  length (edm_sign seed msg) = 64%nat /\ is_reduced (skipn 32 (edm_sign seed msg)) = true.
Proof. exact edm_sign_canonical. Qed.
Print Assumptions model_signer_produces_canonical_S.

(** Scalar.signedRadix16 (the digits ScalarMult and ScalarBaseMult consume): for every 32-byte scalar below 2^255 the
    64 digits represent the scalar (sum d_i 16^i), all but the last lie in [-8, 8) and the last in [0, 8] — so every
    table lookup of the scalar multiplications is within the 8 precomputed multiples — and every intermediate of the
    int8 arithmetic fits *)
Theorem signed_radix16_represents_the_scalar : forall s, length s = 32%nat -> (b2n (nth 31 s x00) <= 127)%N ->
  length (signed_radix16 s) = 64%nat /\
  eval16 (signed_radix16 s) = Z.of_N (le_val s) /\
  (forall k, (k < 63)%nat -> (-8 <= nth k (signed_radix16 s) 0 < 8)%Z) /\
  (0 <= nth 63 (signed_radix16 s) 0 <= 8)%Z.
Proof. exact signed_radix16_of_scalar. Qed.
Print Assumptions signed_radix16_represents_the_scalar.

(** Scalar.nonAdjacentForm(w) (the digits the variable-time double scalar multiplication of Verify consumes, w = 5 and
    w = 8): for every scalar below 2^255 and every width 2..8 the 256 digits represent the scalar (no carry is lost at
    the top) and every non-zero digit is odd and lies strictly between -2^(w-1) and 2^(w-1) *)
Theorem naf_represents_the_scalar : forall w x, (2 <= w <= 8)%Z -> (0 <= x < 2 ^ 255)%Z ->
  length (naf w x) = 256%nat /\ ev2 (naf w x) = x /\ Forall (digit_ok w) (naf w x).
Proof. exact naf_spec. Qed.
Print Assumptions naf_represents_the_scalar.

(** the base point decoded by the model is bounded; doubling and adding it to itself give the same point *)
Example point_examples :
  pt_ok ed_base /\ pt_equal (pt_double ed_base) (pt_add ed_base ed_base) = true /\
  pt_equal (pt_add ed_base (pt_neg ed_base)) pt_identity = true.
Proof. split; [exact ed_base_ok|]. vm_compute. split; reflexivity. Qed.
