#!/usr/bin/env python3
"""design_table.py — prints the numeric columns of DESIGN.md §11.2 from the evidence files of the last runs."""
import json
for i in range(1, 21):
    e = json.load(open("/verif/evidence/C%02d.json" % i))
    c = e["coverage"]
    print("C%02d theorems=%d model-cases=%s impl-evals=%s distinct=%s wall=%ss ties=%s" % (
        i, len(c.get("theorems", [])), c.get("traces_validated_against_impl"), c.get("evaluations"), c.get("distinct_nontrivial"), e["wall_s"], ",".join(c.get("source_ties", []))))
