(** C16 — operations have no hidden side effects on caller-visible memory.
    Layer D (Base/Mem.v): Go slices over a heap of backing arrays with Go's append rule.  The theorems are about the
    slice programs the code base uses to build derived byte strings; that every exported operation of pat-go is
    such a program (writes only to storage it allocated) is established by snapshots in the harness, not proved
    (partial). *)
From PatVerif Require Import Base.Mem Proofs.MemP.

(** append never touches another backing array, and none at all when it has to reallocate *)
Theorem append_other_regions : forall h s xs r, r < length h -> r <> rg s ->
  region (fst (go_append h s xs)) r = region h r.
Proof. exact MemP.append_other_regions. Qed.
Print Assumptions append_other_regions.
Theorem append_realloc_pure : forall h s xs r, cap s < len s + length xs -> r < length h ->
  region (fst (go_append h s xs)) r = region h r.
Proof. exact MemP.append_realloc_pure. Qed.
Print Assumptions append_realloc_pure.

(** what append returns: the old contents followed by the new bytes (both branches) *)
Theorem append_view : forall h s xs, wf_slice h s ->
  let '(h', s') := go_append h s xs in view h' s' = view h s ++ xs /\ wf_slice h' s'.
Proof. exact MemP.append_view. Qed.
Print Assumptions append_view.

(** the hazard: with spare capacity the new bytes are WRITTEN behind the argument, into memory the caller (or a
    neighbouring value cut from the same buffer) can see *)
Theorem append_in_place_overwrites : forall h s xs, wf_slice h s -> len s + length xs <= cap s ->
  firstn (length xs) (skipn (off s + len s) (region (fst (go_append h s xs)) (rg s))) = xs.
Proof. exact MemP.append_in_place_overwrites. Qed.
Print Assumptions append_in_place_overwrites.

(** append(arg, 0x00) ++ context, as ed25519 did before e5526a5 and type-3 finalization before 2f7a328: refuted *)
Theorem append_onto_argument_refuted :
  wf_slice wit_heap wit_a /\ wf_slice wit_heap wit_b /\
  region (fst (build_on_arg wit_heap wit_a wit_b)) 0 <> region wit_heap 0.
Proof. exact build_on_arg_refuted. Qed.
Print Assumptions append_onto_argument_refuted.

(** the repaired pattern (fresh storage, then appends onto it): for EVERY heap and EVERY pair of argument slices —
    any offsets, lengths and spare capacities — every existing backing array is unchanged and the result is exactly
    view a ++ [00] ++ view b, hence independent of whatever the spare capacity holds *)
Theorem fresh_storage_pure : forall h a b, wf_slice h a -> wf_slice h b ->
  let '(h', t) := build_fresh h a b in
  (forall r, r < length h -> region h' r = region h r) /\ view h' t = view h a ++ [x00] ++ view h b.
Proof. exact build_fresh_pure. Qed.
Print Assumptions fresh_storage_pure.
