(** EdPointP.v — the point arithmetic of Model/EdPoint.v computes the addition and doubling formulas of RFC 8032
    (section 5.1.4) on the field values, for all points whose coordinates satisfy the limb bounds every operation
    re-establishes; no limb operation wraps on the way (Proofs/FeP.v). *)
From Coq Require Import NArith ZArith List Lia Setoid Morphisms.
From PatVerif Require Import Model.Fe Proofs.FeP Model.EdPoint.
Open Scope Z_scope.

Definition P : Z := Z.of_N fe_p.
Definition eqp (a b : Z) : Prop := a mod P = b mod P.
Infix "==" := eqp (at level 70, no associativity).

Lemma P_pos : 0 < P. Proof. reflexivity. Qed.
Lemma P_nz : P <> 0. Proof. discriminate. Qed.

#[global] Instance eqp_equiv : Equivalence eqp.
Proof. split; unfold eqp; [intro x; reflexivity | intros x y H; symmetry; exact H | intros x y z H1 H2; congruence]. Qed.
#[global] Instance add_eqp : Proper (eqp ==> eqp ==> eqp) Z.add.
Proof. intros a b H c d H'. unfold eqp in *. rewrite (Z.add_mod a c), (Z.add_mod b d) by exact P_nz. now rewrite H, H'. Qed.
#[global] Instance mul_eqp : Proper (eqp ==> eqp ==> eqp) Z.mul.
Proof. intros a b H c d H'. unfold eqp in *. rewrite (Z.mul_mod a c), (Z.mul_mod b d) by exact P_nz. now rewrite H, H'. Qed.
#[global] Instance opp_eqp : Proper (eqp ==> eqp) Z.opp.
Proof.
  intros a b H. unfold eqp in *.
  replace (- a) with (0 - a) by lia. replace (- b) with (0 - b) by lia.
  rewrite (Zminus_mod 0 a), (Zminus_mod 0 b). now rewrite H.
Qed.
#[global] Instance sub_eqp : Proper (eqp ==> eqp ==> eqp) Z.sub.
Proof. intros a b H c d H'. unfold eqp in *. rewrite (Zminus_mod a c), (Zminus_mod b d). now rewrite H, H'. Qed.

(** the value of a field element as an integer *)
Definition fz (v : fe) : Z := Z.of_N (fe_val v).

Lemma of_N_eqp a b : (a mod fe_p = b mod fe_p)%N -> Z.of_N a == Z.of_N b.
Proof. intro H. unfold eqp, P. rewrite <- !N2Z.inj_mod. now rewrite H. Qed.

Lemma fz_mul a b : loose a -> loose b -> tight (fe_mul a b) /\ fz (fe_mul a b) == fz a * fz b.
Proof.
  intros La Lb. destruct (fe_mul_spec a b La Lb) as [T V]. split; [exact T|].
  unfold fz. rewrite <- N2Z.inj_mul. now apply of_N_eqp.
Qed.
Lemma fz_square a : loose a -> tight (fe_square a) /\ fz (fe_square a) == fz a * fz a.
Proof.
  intros La. destruct (fe_square_spec a La) as [T V]. split; [exact T|].
  unfold fz. rewrite <- N2Z.inj_mul. now apply of_N_eqp.
Qed.
Lemma loose_lt63 a : loose a -> limbs_lt 9223372036854775808 a.
Proof. unfold loose, limbs_lt. lia. Qed.
Lemma tight_sub_ok a : tight a -> limbs_lt 4503599627370458 a.
Proof. unfold tight, limbs_lt. lia. Qed.
Lemma fz_add a b : loose a -> loose b -> tight (fe_add a b) /\ fz (fe_add a b) == fz a + fz b.
Proof.
  intros La Lb. destruct (fe_add_spec a b (loose_lt63 a La) (loose_lt63 b Lb)) as [T V]. split; [exact T|].
  unfold fz. rewrite <- N2Z.inj_add. now apply of_N_eqp.
Qed.
Lemma fz_sub a b : loose a -> tight b -> tight (fe_sub a b) /\ fz (fe_sub a b) == fz a - fz b.
Proof.
  intros La Tb. destruct (fe_sub_spec a b (loose_lt63 a La) (tight_sub_ok b Tb)) as [T V]. split; [exact T|].
  assert (E : fz (fe_sub a b) + fz b == fz a).
  { unfold fz. rewrite <- N2Z.inj_add. now apply of_N_eqp. }
  rewrite <- E. unfold eqp. f_equal. lia.
Qed.
Lemma fe_zero_loose : loose fe_zero. Proof. unfold loose, limbs_lt, fe_zero. cbn. lia. Qed.
Lemma fz_neg a : tight a -> tight (fe_neg a) /\ fz (fe_neg a) == - fz a.
Proof.
  intro Ta. destruct (fz_sub fe_zero a fe_zero_loose Ta) as [T V]. split; [exact T|].
  unfold fe_neg. rewrite V. unfold eqp. f_equal.
Qed.

Definition pt_ok (p : point) : Prop := tight (px p) /\ tight (py p) /\ tight (pz p) /\ tight (pt p).
Lemma ed_d2_tight : tight ed_d2. Proof. unfold tight, limbs_lt, ed_d2. cbn. lia. Qed.
Lemma ed_d_tight : tight ed_d. Proof. unfold tight, limbs_lt, ed_d. cbn. lia. Qed.
Definition d2z : Z := fz ed_d2.

(** RFC 8032, 5.1.4, addition: A = (Y1-X1)(Y2-X2), B = (Y1+X1)(Y2+X2), C = T1*2d*T2, D = Z1*2*Z2, E = B-A, F = D-C,
    G = D+C, H = B+A; X3 = E*F, Y3 = G*H, T3 = E*H, Z3 = F*G *)
Definition add_A (X1 Y1 X2 Y2 : Z) := (Y1 - X1) * (Y2 - X2).
Definition add_B (X1 Y1 X2 Y2 : Z) := (Y1 + X1) * (Y2 + X2).
Definition add_C (T1 T2 : Z) := T1 * (T2 * d2z).
Definition add_D (Z1 Z2 : Z) := Z1 * Z2 + Z1 * Z2.
Definition add_X3 (X1 Y1 Z1 T1 X2 Y2 Z2 T2 : Z) := (add_B X1 Y1 X2 Y2 - add_A X1 Y1 X2 Y2) * (add_D Z1 Z2 - add_C T1 T2).
Definition add_Y3 (X1 Y1 Z1 T1 X2 Y2 Z2 T2 : Z) := (add_D Z1 Z2 + add_C T1 T2) * (add_B X1 Y1 X2 Y2 + add_A X1 Y1 X2 Y2).
Definition add_Z3 (X1 Y1 Z1 T1 X2 Y2 Z2 T2 : Z) := (add_D Z1 Z2 - add_C T1 T2) * (add_D Z1 Z2 + add_C T1 T2).
Definition add_T3 (X1 Y1 Z1 T1 X2 Y2 Z2 T2 : Z) := (add_B X1 Y1 X2 Y2 - add_A X1 Y1 X2 Y2) * (add_B X1 Y1 X2 Y2 + add_A X1 Y1 X2 Y2).

Ltac spec H := let T := fresh "T" in let V := fresh "V" in destruct H as [T V].

Theorem pt_add_formula p q : pt_ok p -> pt_ok q ->
  pt_ok (pt_add p q) /\
  fz (px (pt_add p q)) == add_X3 (fz (px p)) (fz (py p)) (fz (pz p)) (fz (pt p)) (fz (px q)) (fz (py q)) (fz (pz q)) (fz (pt q)) /\
  fz (py (pt_add p q)) == add_Y3 (fz (px p)) (fz (py p)) (fz (pz p)) (fz (pt p)) (fz (px q)) (fz (py q)) (fz (pz q)) (fz (pt q)) /\
  fz (pz (pt_add p q)) == add_Z3 (fz (px p)) (fz (py p)) (fz (pz p)) (fz (pt p)) (fz (px q)) (fz (py q)) (fz (pz q)) (fz (pt q)) /\
  fz (pt (pt_add p q)) == add_T3 (fz (px p)) (fz (py p)) (fz (pz p)) (fz (pt p)) (fz (px q)) (fz (py q)) (fz (pz q)) (fz (pt q)).
Proof.
  destruct p as [x1 y1 z1 t1], q as [x2 y2 z2 t2]. unfold pt_ok. cbn [px py pz pt].
  intros (Tx1 & Ty1 & Tz1 & Tt1) (Tx2 & Ty2 & Tz2 & Tt2).
  pose proof (tight_loose _ Tx1) as Lx1. pose proof (tight_loose _ Ty1) as Ly1. pose proof (tight_loose _ Tz1) as Lz1.
  pose proof (tight_loose _ Tt1) as Lt1. pose proof (tight_loose _ Tx2) as Lx2. pose proof (tight_loose _ Ty2) as Ly2.
  pose proof (tight_loose _ Tz2) as Lz2. pose proof (tight_loose _ Tt2) as Lt2.
  unfold pt_add, of_p1, p1_add, cached_of. cbv zeta. cbn [px py pz pt qX qY qZ qT cYplusX cYminusX cZ cT2d].
  (* the cached form of q *)
  destruct (fz_add y2 x2 Ly2 Lx2) as [Tq1 Vq1]. destruct (fz_sub y2 x2 Ly2 Tx2) as [Tq2 Vq2].
  destruct (fz_mul t2 ed_d2 Lt2 (tight_loose _ ed_d2_tight)) as [Tq3 Vq3].
  (* p1xp1 *)
  destruct (fz_add y1 x1 Ly1 Lx1) as [Tp1 Vp1]. destruct (fz_sub y1 x1 Ly1 Tx1) as [Tp2 Vp2].
  destruct (fz_mul _ _ (tight_loose _ Tp1) (tight_loose _ Tq1)) as [TPP VPP].
  destruct (fz_mul _ _ (tight_loose _ Tp2) (tight_loose _ Tq2)) as [TMM VMM].
  destruct (fz_mul t1 _ Lt1 (tight_loose _ Tq3)) as [TTT VTT].
  destruct (fz_mul z1 z2 Lz1 Lz2) as [TZZ VZZ].
  destruct (fz_add _ _ (tight_loose _ TZZ) (tight_loose _ TZZ)) as [TZ2 VZ2].
  destruct (fz_sub _ _ (tight_loose _ TPP) TMM) as [TE VE].
  destruct (fz_add _ _ (tight_loose _ TPP) (tight_loose _ TMM)) as [TH VH].
  destruct (fz_add _ _ (tight_loose _ TZ2) (tight_loose _ TTT)) as [TG VG].
  destruct (fz_sub _ _ (tight_loose _ TZ2) TTT) as [TF VF].
  destruct (fz_mul _ _ (tight_loose _ TE) (tight_loose _ TF)) as [TX3 VX3].
  destruct (fz_mul _ _ (tight_loose _ TH) (tight_loose _ TG)) as [TY3 VY3].
  destruct (fz_mul _ _ (tight_loose _ TG) (tight_loose _ TF)) as [TZ3 VZ3].
  destruct (fz_mul _ _ (tight_loose _ TE) (tight_loose _ TH)) as [TT3 VT3].
  split; [split; [exact TX3 | split; [exact TY3 | split; [exact TZ3 | exact TT3]]]|].
  unfold add_X3, add_Y3, add_Z3, add_T3, add_A, add_B, add_C, add_D, d2z.
  repeat split.
  - rewrite VX3, VE, VF, VPP, VMM, VZ2, VTT, VZZ, Vp1, Vp2, Vq1, Vq2, Vq3. reflexivity.
  - rewrite VY3, VH, VG, VPP, VMM, VZ2, VTT, VZZ, Vp1, Vp2, Vq1, Vq2, Vq3. unfold eqp. f_equal. ring.
  - rewrite VZ3, VG, VF, VZ2, VTT, VZZ, Vq3. unfold eqp. f_equal. ring.
  - rewrite VT3, VE, VH, VPP, VMM, Vp1, Vp2, Vq1, Vq2. reflexivity.
Qed.

(** subtraction = addition of the negated point: the cached form is used with its two sums exchanged and the sign of
    the 2dT product flipped *)
Theorem pt_sub_formula p q : pt_ok p -> pt_ok q ->
  pt_ok (pt_sub p q) /\
  fz (px (pt_sub p q)) == add_X3 (fz (px p)) (fz (py p)) (fz (pz p)) (fz (pt p)) (- fz (px q)) (fz (py q)) (fz (pz q)) (- fz (pt q)) /\
  fz (py (pt_sub p q)) == add_Y3 (fz (px p)) (fz (py p)) (fz (pz p)) (fz (pt p)) (- fz (px q)) (fz (py q)) (fz (pz q)) (- fz (pt q)) /\
  fz (pz (pt_sub p q)) == add_Z3 (fz (px p)) (fz (py p)) (fz (pz p)) (fz (pt p)) (- fz (px q)) (fz (py q)) (fz (pz q)) (- fz (pt q)) /\
  fz (pt (pt_sub p q)) == add_T3 (fz (px p)) (fz (py p)) (fz (pz p)) (fz (pt p)) (- fz (px q)) (fz (py q)) (fz (pz q)) (- fz (pt q)).
Proof.
  destruct p as [x1 y1 z1 t1], q as [x2 y2 z2 t2]. unfold pt_ok. cbn [px py pz pt].
  intros (Tx1 & Ty1 & Tz1 & Tt1) (Tx2 & Ty2 & Tz2 & Tt2).
  pose proof (tight_loose _ Tx1) as Lx1. pose proof (tight_loose _ Ty1) as Ly1. pose proof (tight_loose _ Tz1) as Lz1.
  pose proof (tight_loose _ Tt1) as Lt1. pose proof (tight_loose _ Tx2) as Lx2. pose proof (tight_loose _ Ty2) as Ly2.
  pose proof (tight_loose _ Tz2) as Lz2. pose proof (tight_loose _ Tt2) as Lt2.
  unfold pt_sub, of_p1, p1_sub, cached_of. cbv zeta. cbn [px py pz pt qX qY qZ qT cYplusX cYminusX cZ cT2d].
  destruct (fz_add y2 x2 Ly2 Lx2) as [Tq1 Vq1]. destruct (fz_sub y2 x2 Ly2 Tx2) as [Tq2 Vq2].
  destruct (fz_mul t2 ed_d2 Lt2 (tight_loose _ ed_d2_tight)) as [Tq3 Vq3].
  destruct (fz_add y1 x1 Ly1 Lx1) as [Tp1 Vp1]. destruct (fz_sub y1 x1 Ly1 Tx1) as [Tp2 Vp2].
  destruct (fz_mul _ _ (tight_loose _ Tp1) (tight_loose _ Tq2)) as [TPP VPP].
  destruct (fz_mul _ _ (tight_loose _ Tp2) (tight_loose _ Tq1)) as [TMM VMM].
  destruct (fz_mul t1 _ Lt1 (tight_loose _ Tq3)) as [TTT VTT].
  destruct (fz_mul z1 z2 Lz1 Lz2) as [TZZ VZZ].
  destruct (fz_add _ _ (tight_loose _ TZZ) (tight_loose _ TZZ)) as [TZ2 VZ2].
  destruct (fz_sub _ _ (tight_loose _ TPP) TMM) as [TE VE].
  destruct (fz_add _ _ (tight_loose _ TPP) (tight_loose _ TMM)) as [TH VH].
  destruct (fz_sub _ _ (tight_loose _ TZ2) TTT) as [TG VG].
  destruct (fz_add _ _ (tight_loose _ TZ2) (tight_loose _ TTT)) as [TF VF].
  destruct (fz_mul _ _ (tight_loose _ TE) (tight_loose _ TF)) as [TX3 VX3].
  destruct (fz_mul _ _ (tight_loose _ TH) (tight_loose _ TG)) as [TY3 VY3].
  destruct (fz_mul _ _ (tight_loose _ TG) (tight_loose _ TF)) as [TZ3 VZ3].
  destruct (fz_mul _ _ (tight_loose _ TE) (tight_loose _ TH)) as [TT3 VT3].
  split; [split; [exact TX3 | split; [exact TY3 | split; [exact TZ3 | exact TT3]]]|].
  unfold add_X3, add_Y3, add_Z3, add_T3, add_A, add_B, add_C, add_D, d2z.
  repeat split.
  - rewrite VX3, VE, VF, VPP, VMM, VZ2, VTT, VZZ, Vp1, Vp2, Vq1, Vq2, Vq3. unfold eqp. f_equal. ring.
  - rewrite VY3, VH, VG, VPP, VMM, VZ2, VTT, VZZ, Vp1, Vp2, Vq1, Vq2, Vq3. unfold eqp. f_equal. ring.
  - rewrite VZ3, VG, VF, VZ2, VTT, VZZ, Vq3. unfold eqp. f_equal. ring.
  - rewrite VT3, VE, VH, VPP, VMM, Vp1, Vp2, Vq1, Vq2. unfold eqp. f_equal. ring.
Qed.

(** RFC 8032, 5.1.4, doubling: A = X1^2, B = Y1^2, C = 2 Z1^2, H = A+B, E = H-(X1+Y1)^2, G = A-B, F = C+G;
    X3 = E*F, Y3 = G*H, T3 = E*H, Z3 = F*G.  The code computes -E and -G: all four coordinates come out negated,
    which is the same projective point. *)
Definition dbl_E (X1 Y1 : Z) := (X1 * X1 + Y1 * Y1) - (X1 + Y1) * (X1 + Y1).
Definition dbl_G (X1 Y1 : Z) := X1 * X1 - Y1 * Y1.
Definition dbl_H (X1 Y1 : Z) := X1 * X1 + Y1 * Y1.
Definition dbl_F (X1 Y1 Z1 : Z) := (Z1 * Z1 + Z1 * Z1) + dbl_G X1 Y1.

Theorem pt_double_formula p : pt_ok p ->
  pt_ok (pt_double p) /\
  fz (px (pt_double p)) == - (dbl_E (fz (px p)) (fz (py p)) * dbl_F (fz (px p)) (fz (py p)) (fz (pz p))) /\
  fz (py (pt_double p)) == - (dbl_G (fz (px p)) (fz (py p)) * dbl_H (fz (px p)) (fz (py p))) /\
  fz (pz (pt_double p)) == - (dbl_F (fz (px p)) (fz (py p)) (fz (pz p)) * dbl_G (fz (px p)) (fz (py p))) /\
  fz (pt (pt_double p)) == - (dbl_E (fz (px p)) (fz (py p)) * dbl_H (fz (px p)) (fz (py p))).
Proof.
  destruct p as [x1 y1 z1 t1]. unfold pt_ok. cbn [px py pz pt]. intros (Tx1 & Ty1 & Tz1 & Tt1).
  pose proof (tight_loose _ Tx1) as Lx1. pose proof (tight_loose _ Ty1) as Ly1. pose proof (tight_loose _ Tz1) as Lz1.
  unfold pt_double, of_p1, p1_double. cbv zeta. cbn [px py pz pt qX qY qZ qT].
  destruct (fz_square x1 Lx1) as [TXX VXX]. destruct (fz_square y1 Ly1) as [TYY VYY]. destruct (fz_square z1 Lz1) as [TZZ VZZ].
  destruct (fz_add _ _ (tight_loose _ TZZ) (tight_loose _ TZZ)) as [TZ2 VZ2].
  destruct (fz_add x1 y1 Lx1 Ly1) as [TS0 VS0]. destruct (fz_square _ (tight_loose _ TS0)) as [TS VS].
  destruct (fz_add _ _ (tight_loose _ TYY) (tight_loose _ TXX)) as [TvY VvY].
  destruct (fz_sub _ _ (tight_loose _ TYY) TXX) as [TvZ VvZ].
  destruct (fz_sub _ _ (tight_loose _ TS) TvY) as [TvX VvX].
  destruct (fz_sub _ _ (tight_loose _ TZ2) TvZ) as [TvT VvT].
  destruct (fz_mul _ _ (tight_loose _ TvX) (tight_loose _ TvT)) as [TX3 VX3].
  destruct (fz_mul _ _ (tight_loose _ TvY) (tight_loose _ TvZ)) as [TY3 VY3].
  destruct (fz_mul _ _ (tight_loose _ TvZ) (tight_loose _ TvT)) as [TZ3 VZ3].
  destruct (fz_mul _ _ (tight_loose _ TvX) (tight_loose _ TvY)) as [TT3 VT3].
  split; [split; [exact TX3 | split; [exact TY3 | split; [exact TZ3 | exact TT3]]]|].
  unfold dbl_E, dbl_F, dbl_G, dbl_H.
  repeat split.
  - rewrite VX3, VvX, VvT, VS, VS0, VvY, VvZ, VZ2, VZZ, VXX, VYY. unfold eqp. f_equal. ring.
  - rewrite VY3, VvY, VvZ, VXX, VYY. unfold eqp. f_equal. ring.
  - rewrite VZ3, VvT, VvZ, VZ2, VZZ, VXX, VYY. unfold eqp. f_equal. ring.
  - rewrite VT3, VvX, VvY, VS, VS0, VXX, VYY. unfold eqp. f_equal. ring.
Qed.

Theorem pt_neg_formula p : pt_ok p ->
  pt_ok (pt_neg p) /\ fz (px (pt_neg p)) == - fz (px p) /\ py (pt_neg p) = py p /\ pz (pt_neg p) = pz p /\
  fz (pt (pt_neg p)) == - fz (pt p).
Proof.
  destruct p as [x1 y1 z1 t1]. unfold pt_ok, pt_neg. cbn [px py pz pt]. intros (Tx1 & Ty1 & Tz1 & Tt1).
  destruct (fz_neg x1 Tx1) as [Tx Vx]. destruct (fz_neg t1 Tt1) as [Tt Vt].
  split; [split; [exact Tx | split; [exact Ty1 | split; [exact Tz1 | exact Tt]]] | split; [exact Vx | split; [reflexivity | split; [reflexivity | exact Vt]]]].
Qed.

(** the extended-coordinate invariant X*Y = Z*T is re-established by every addition, subtraction and doubling, from
    ANY bounded input (it does not depend on the inputs being on the curve) *)
Definition ext_inv (p : point) : Prop := fz (px p) * fz (py p) == fz (pz p) * fz (pt p).

Theorem pt_add_ext_inv p q : pt_ok p -> pt_ok q -> ext_inv (pt_add p q).
Proof.
  intros Hp Hq. destruct (pt_add_formula p q Hp Hq) as (_ & Vx & Vy & Vz & Vt). unfold ext_inv.
  rewrite Vx, Vy, Vz, Vt. unfold add_X3, add_Y3, add_Z3, add_T3. unfold eqp. f_equal. ring.
Qed.
Theorem pt_sub_ext_inv p q : pt_ok p -> pt_ok q -> ext_inv (pt_sub p q).
Proof.
  intros Hp Hq. destruct (pt_sub_formula p q Hp Hq) as (_ & Vx & Vy & Vz & Vt). unfold ext_inv.
  rewrite Vx, Vy, Vz, Vt. unfold add_X3, add_Y3, add_Z3, add_T3. unfold eqp. f_equal. ring.
Qed.
Theorem pt_double_ext_inv p : pt_ok p -> ext_inv (pt_double p).
Proof.
  intros Hp. destruct (pt_double_formula p Hp) as (_ & Vx & Vy & Vz & Vt). unfold ext_inv.
  rewrite Vx, Vy, Vz, Vt. unfold eqp. f_equal. ring.
Qed.

(** every multiple computed by double-and-add from a bounded point stays within the bounds *)
Lemma pt_identity_ok : pt_ok pt_identity.
Proof. unfold pt_ok, pt_identity, tight, limbs_lt, fe_zero, fe_one. cbn. lia. Qed.
Lemma pt_mul_bits_ok bits : forall acc p, pt_ok acc -> pt_ok p -> pt_ok (pt_mul_bits bits acc p).
Proof.
  induction bits as [|b r IH]; intros acc p Ha Hp; cbn [pt_mul_bits]; [exact Ha|].
  destruct (pt_double_formula acc Ha) as [Hd _].
  apply IH; [|exact Hp]. destruct b; [|exact Hd]. now destruct (pt_add_formula _ p Hd Hp).
Qed.
Theorem pt_mul_ok n p : pt_ok p -> pt_ok (pt_mul n p).
Proof. intro Hp. apply pt_mul_bits_ok; [exact pt_identity_ok | exact Hp]. Qed.
Lemma ed_base_ok : pt_ok ed_base.
Proof. unfold pt_ok, ed_base, tight, limbs_lt. cbn. lia. Qed.

(** Equal decides equality of projective points: X1*Z2 = X2*Z1 and Y1*Z2 = Y2*Z1 in the field *)
Lemma tight_u64s v : tight v -> u64s v.
Proof. intro H. apply loose_u64s, tight_loose, H. Qed.

Lemma eqp_of_N a b : Z.of_N a == Z.of_N b <-> (a mod fe_p = b mod fe_p)%N.
Proof.
  unfold eqp, P. rewrite <- !N2Z.inj_mod. split; [intro H; now apply N2Z.inj in H | now intros ->].
Qed.

Theorem pt_equal_spec v u : pt_ok v -> pt_ok u ->
  (pt_equal v u = true <->
   fz (px v) * fz (pz u) == fz (px u) * fz (pz v) /\ fz (py v) * fz (pz u) == fz (py u) * fz (pz v)).
Proof.
  intros (Tvx & Tvy & Tvz & _) (Tux & Tuy & Tuz & _). unfold pt_equal.
  destruct (fz_mul (px v) (pz u) (tight_loose _ Tvx) (tight_loose _ Tuz)) as [T1 V1].
  destruct (fz_mul (px u) (pz v) (tight_loose _ Tux) (tight_loose _ Tvz)) as [T2 V2].
  destruct (fz_mul (py v) (pz u) (tight_loose _ Tvy) (tight_loose _ Tuz)) as [T3 V3].
  destruct (fz_mul (py u) (pz v) (tight_loose _ Tuy) (tight_loose _ Tvz)) as [T4 V4].
  rewrite Bool.andb_true_iff.
  rewrite (fe_equal_spec _ _ (tight_u64s _ T1) (tight_u64s _ T2)), (fe_equal_spec _ _ (tight_u64s _ T3) (tight_u64s _ T4)).
  rewrite <- !eqp_of_N. fold (fz (fe_mul (px v) (pz u))) (fz (fe_mul (px u) (pz v))) (fz (fe_mul (py v) (pz u))) (fz (fe_mul (py u) (pz v))).
  rewrite V1, V2, V3, V4. reflexivity.
Qed.

(** Bytes: the little-endian encoding of y = Y * Z^(p-2) with the parity of x = X * Z^(p-2) in the top bit
    (Z^(p-2) is the inverse of Z when p is prime, which is not formalised here) *)
Theorem pt_bytes_spec v : pt_ok v ->
  pt_bytes v = set_top_bit (le_bytes 32 ((fe_val (py v) * fe_val (pz v) ^ (fe_p - 2)) mod fe_p))
                           (((fe_val (px v) * fe_val (pz v) ^ (fe_p - 2)) mod fe_p) mod 2).
Proof.
  intros (Tx & Ty & Tz & _). unfold pt_bytes.
  destruct (fe_invert_spec (pz v) (tight_loose _ Tz)) as [Li Vi].
  destruct (fe_mul_spec (px v) _ (tight_loose _ Tx) Li) as [T1 V1].
  destruct (fe_mul_spec (py v) _ (tight_loose _ Ty) Li) as [T2 V2].
  assert (Pnz : fe_p <> 0%N) by (rewrite fe_p_eq; discriminate).
  rewrite (fe_bytes_spec _ (tight_u64s _ T2)), (fe_is_negative_spec _ (tight_u64s _ T1)).
  rewrite V1, V2. rewrite (N.mul_mod (fe_val (px v))), (N.mul_mod (fe_val (py v))) by exact Pnz.
  rewrite Vi. rewrite <- !N.mul_mod by exact Pnz. reflexivity.
Qed.

(** decoding: whatever 32 bytes come in, an accepted encoding yields a bounded point with Z = 1, Y the low 255 bits of
    the input and T = X*Y; so everything computed from decoded keys stays within the proved bounds *)
Lemma fe_select_tight a b c : tight a -> tight b -> tight (fe_select a b c).
Proof. intros Ha Hb. destruct c; assumption. Qed.
Lemma fe_one_tight : tight fe_one. Proof. unfold tight, limbs_lt, fe_one. cbn. lia. Qed.
Lemma fe_sqrt_m1_tight : tight fe_sqrt_m1. Proof. unfold tight, limbs_lt, fe_sqrt_m1. cbn. lia. Qed.

Lemma fe_sqrt_ratio_tight u v : tight u -> tight v -> tight (fst (fe_sqrt_ratio u v)).
Proof.
  intros Tu Tv. unfold fe_sqrt_ratio. cbv zeta. cbn [fst].
  destruct (fe_square_spec v (tight_loose _ Tv)) as [Tv2 _].
  destruct (fe_mul_spec _ v (tight_loose _ Tv2) (tight_loose _ Tv)) as [Tv3 _].
  destruct (fe_mul_spec u _ (tight_loose _ Tu) (tight_loose _ Tv3)) as [Tuv3 _].
  destruct (fe_square_spec _ (tight_loose _ Tv2)) as [Tv4 _].
  destruct (fe_mul_spec _ _ (tight_loose _ Tuv3) (tight_loose _ Tv4)) as [Tuv7 _].
  destruct (fe_pow22523_spec _ (tight_loose _ Tuv7)) as [Lpw _].
  destruct (fe_mul_spec _ _ (tight_loose _ Tuv3) Lpw) as [Tr _].
  destruct (fe_mul_spec _ _ (tight_loose _ Tr) (tight_loose _ fe_sqrt_m1_tight)) as [Trp _].
  unfold fe_absolute. apply fe_select_tight.
  - apply fz_neg. apply fe_select_tight; assumption.
  - apply fe_select_tight; assumption.
Qed.

Theorem pt_set_bytes_ok x p : length x = 32%nat -> pt_set_bytes x = Some p ->
  pt_ok p /\ fe_val (py p) = (le_val x mod 2 ^ 255)%N /\ pz p = fe_one /\ fz (pt p) == fz (px p) * fz (py p).
Proof.
  intros Hx. unfold pt_set_bytes. cbv zeta.
  destruct (fe_set_bytes_spec x Hx) as [Ly Vy].
  assert (Ty : tight (fe_set_bytes x)) by (unfold tight, limbs_lt in *; lia).
  destruct (fe_square_spec _ (tight_loose _ Ty)) as [Ty2 _].
  destruct (fz_sub _ fe_one (tight_loose _ Ty2) fe_one_tight) as [Tu _].
  destruct (fe_mul_spec _ ed_d (tight_loose _ Ty2) (tight_loose _ ed_d_tight)) as [Tyd _].
  destruct (fz_add _ fe_one (tight_loose _ Tyd) (tight_loose _ fe_one_tight)) as [Tv _].
  pose proof (fe_sqrt_ratio_tight _ _ Tu Tv) as Txx.
  destruct (fe_sqrt_ratio (fe_sub (fe_square (fe_set_bytes x)) fe_one) (fe_add (fe_mul (fe_square (fe_set_bytes x)) ed_d) fe_one)) as [xx sq].
  cbn [fst] in Txx. destruct sq; [|discriminate]. intro E. injection E as <-. cbn [px py pz pt].
  set (xs := fe_select (fe_neg xx) xx _).
  assert (Txs : tight xs) by (apply fe_select_tight; [apply fz_neg|]; assumption).
  destruct (fz_mul xs _ (tight_loose _ Txs) (tight_loose _ Ty)) as [Tt Vt].
  split; [split; [exact Txs | split; [exact Ty | split; [exact fe_one_tight | exact Tt]]] | split; [exact Vy | split; [reflexivity | exact Vt]]].
Qed.

(** no limb operation wraps in the model's verification: for every accepted public key and all scalars the point
    [S]B - [k]A is computed within the bounds *)
Theorem edm_verify_point_bounded pk A k S : length pk = 32%nat -> pt_set_bytes pk = Some A ->
  pt_ok (pt_add (pt_mul k (pt_neg A)) (pt_mul S ed_base)).
Proof.
  intros Hl HA. destruct (pt_set_bytes_ok pk A Hl HA) as [OA _].
  destruct (pt_neg_formula A OA) as [ON _].
  now destruct (pt_add_formula _ _ (pt_mul_ok k _ ON) (pt_mul_ok S _ ed_base_ok)).
Qed.

(** the model's verifier refuses, before any curve arithmetic, every signature of the wrong length, with one of the
    three top bits of S set, with a non-canonical S, or under a key that does not decode; and every signature the
    model's signer produces has length 64 and a canonical S *)
From PatVerif Require Import Proofs.Ed25519P.
Open Scope Z_scope.

Theorem edm_verify_refuses pk msg sig :
  length sig <> 64%nat \/ N.land (b2n (nth 63 sig x00)) 224 <> 0%N \/ is_reduced (skipn 32 sig) = false \/ pt_set_bytes pk = None ->
  edm_verify pk msg sig = false.
Proof.
  unfold edm_verify. intros [H | [H | [H | H]]].
  - apply Nat.eqb_neq in H. now rewrite H.
  - destruct (Nat.eqb (length sig) 64); [|reflexivity]. cbn [negb]. apply N.eqb_neq in H. now rewrite H.
  - destruct (Nat.eqb (length sig) 64); [|reflexivity]. cbn [negb].
    destruct (N.eqb (N.land (b2n (nth 63 sig x00)) 224) 0); [|reflexivity]. cbn [negb].
    destruct (pt_set_bytes pk); [|reflexivity]. now rewrite H.
  - destruct (Nat.eqb (length sig) 64); [|reflexivity]. cbn [negb].
    destruct (N.eqb (N.land (b2n (nth 63 sig x00)) 224) 0); [|reflexivity]. cbn [negb]. now rewrite H.
Qed.

Lemma fe_bytes_length v : length (fe_bytes v) = 32%nat.
Proof. unfold fe_bytes. rewrite !or_at_length. apply repeat_length. Qed.

Lemma pt_bytes_length v : length (pt_bytes v) = 32%nat.
Proof.
  unfold pt_bytes, set_top_bit. rewrite app_length, firstn_length, fe_bytes_length. reflexivity.
Qed.

Theorem edm_sign_canonical seed msg :
  length (edm_sign seed msg) = 64%nat /\ is_reduced (skipn 32 (edm_sign seed msg)) = true.
Proof.
  unfold edm_sign, ed_signature. cbv zeta.
  set (R := pt_bytes _). assert (HR : length R = 32%nat) by apply pt_bytes_length.
  split.
  - rewrite app_length, HR, le_bytes_length. reflexivity.
  - rewrite skipn_app, HR. replace (32 - 32)%nat with 0%nat by reflexivity.
    rewrite skipn_all2 by (rewrite HR; apply le_n). cbn [app skipn].
    apply is_reduced_spec_l; [apply le_bytes_length|].
    rewrite le_val_le_bytes. unfold ed_S.
    assert (HL : (L < 256 ^ N.of_nat 32)%N) by (unfold L, order_ed25519; vm_compute; reflexivity).
    assert (HLpos : (0 < L)%N) by (unfold L, order_ed25519; reflexivity).
    rewrite N.mod_small; [apply N.mod_lt; lia|].
    eapply N.lt_trans; [apply N.mod_lt; lia | exact HL].
Qed.
