(** Dispatch.v — the single entry point through which the models are *executed* by the
    correspondence harness (extracted to OCaml, or evaluated by vm_compute).
    A call is a function name and a list of byte-string arguments; the answer is a list of
    byte-string fields.  Both the Go harness and this file follow the same field layout, so
    the OCaml driver contains no per-function glue at all. *)
From Coq Require Import Strings.String.
From PatVerif Require Import Base.GoSem Model.Quicwire.
Open Scope N_scope.

Definition nm (s : string) : list byte := list_byte_of_string s.
Definition is (name : list byte) (s : string) : bool := bytes_eqb name (nm s).

Definition arg (args : list (list byte)) (i : nat) : list byte := nth i args [].
Definition narg (args : list (list byte)) (i : nat) : N := be_dec (arg args i).

Definition st_none : list byte := [x00].
Definition st_ok : list byte := [x01].
Definition st_panic : list byte := [xff].
Definition st_unknown : list byte := [xfe].
Definition num8 (n : N) : list byte := be_enc 8 n.
Definition nat8 (n : nat) : list byte := be_enc 8 (N.of_nat n).

Definition out_res_bytes (r : res (list byte)) : list (list byte) :=
  match r with Ok o => [st_ok; o] | Err => [st_none] | Panic => [st_panic] end.
Definition out_opt_num (o : option (N * nat)) : list (list byte) :=
  match o with Some (v, n) => [st_ok; num8 v; nat8 n] | None => [st_none] end.
Definition out_res_opt_bytes (r : res (option (list byte * nat))) : list (list byte) :=
  match r with
  | Ok (Some (v, n)) => [st_ok; v; nat8 n]
  | Ok None => [st_none] | Err => [st_none] | Panic => [st_panic]
  end.

Definition dispatch_quicwire (name : list byte) (a : list (list byte)) : option (list (list byte)) :=
  if is name "consume_varint" then Some (out_opt_num (consume_varint (arg a 0)))
  else if is name "append_varint" then Some (out_res_bytes (append_varint (arg a 0) (narg a 1)))
  else if is name "size_varint" then
    Some (match size_varint (narg a 0) with Ok n => [st_ok; nat8 n] | _ => [st_panic] end)
  else if is name "consume_uint32" then Some (out_opt_num (consume_uint32 (arg a 0)))
  else if is name "consume_uint64" then Some (out_opt_num (consume_uint64 (arg a 0)))
  else if is name "consume_uint8_bytes" then Some (out_res_opt_bytes (consume_uint8_bytes (arg a 0)))
  else if is name "append_uint8_bytes" then Some (out_res_bytes (append_uint8_bytes (arg a 0) (arg a 1)))
  else if is name "consume_varint_bytes" then Some (out_res_opt_bytes (consume_varint_bytes (arg a 0)))
  else if is name "append_varint_bytes" then Some (out_res_bytes (append_varint_bytes (arg a 0) (arg a 1)))
  else None.

Definition dispatch (name : list byte) (a : list (list byte)) : list (list byte) :=
  match dispatch_quicwire name a with Some r => r | None => [st_unknown] end.
