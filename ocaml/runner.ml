(* runner.ml — the only hand-written OCaml: hex <-> byte list, a read/compare loop.
   Line format:  name arg1 arg2 ... | out1 out2 ...     ("-" is the empty byte string)
   Without "|" the model's answer is printed instead of compared.
   The model is a function: answers to repeated calls are memoised (bounded table) — the extracted SHA-2 costs
   milliseconds per block and the same derivation is asked for by the oracle leg and by the comparison leg. *)
type byte = Model.byte
let dispatch = Model.dispatch2

let byte_of_int (i : int) : byte = Obj.magic i      (* constant constructors X00..Xff are 0..255 *)
let int_of_byte (b : byte) : int = Obj.magic b

let hexval c = match c with
  | '0'..'9' -> Char.code c - 48 | 'a'..'f' -> Char.code c - 87 | 'A'..'F' -> Char.code c - 55
  | _ -> failwith "bad hex"

let bytes_of_hex (s : string) : byte list =
  if s = "-" then [] else begin
    let n = String.length s / 2 in
    let rec go i acc = if i < 0 then acc
      else go (i-1) (byte_of_int (hexval s.[2*i] * 16 + hexval s.[2*i+1]) :: acc) in
    go (n-1) [] end

let hex_of_bytes (l : byte list) : string =
  if l = [] then "-" else begin
    let b = Buffer.create 64 in
    List.iter (fun x -> Buffer.add_string b (Printf.sprintf "%02x" (int_of_byte x))) l;
    Buffer.contents b end

let bytes_of_string (s : string) : byte list =
  List.init (String.length s) (fun i -> byte_of_int (Char.code s.[i]))

let split_ws s = List.filter (fun x -> x <> "") (String.split_on_char ' ' s)

let memo : (string, string) Hashtbl.t = Hashtbl.create 4096

let () =
  let total = ref 0 and bad = ref 0 and lineno = ref 0 in
  (try while true do
    let line = input_line stdin in
    incr lineno;
    if String.length line > 0 && line.[0] <> '#' then begin
      let lhs, rhs = match String.index_opt line '|' with
        | Some i -> String.sub line 0 i, Some (String.sub line (i+1) (String.length line - i - 1))
        | None -> line, None in
      match split_ws lhs with
      | [] -> ()
      | name :: args ->
        let key = String.concat " " (name :: args) in
        let outs = match Hashtbl.find_opt memo key with
          | Some o -> o
          | None ->
            let out = dispatch (bytes_of_string name) (List.map bytes_of_hex args) in
            let o = String.concat " " (List.map hex_of_bytes out) in
            if String.length key < 2048 && Hashtbl.length memo < 100000 then Hashtbl.replace memo key o;
            o in
        incr total;
        (match rhs with
         | None -> print_endline outs
         | Some r ->
           let exp = String.concat " " (split_ws r) in
           if exp <> outs then begin
             incr bad;
             if !bad <= 200 then
               Printf.printf "MISMATCH line=%d call=%s model=[%s] impl=[%s]\n" !lineno (String.trim lhs) outs exp
           end)
    end
  done with End_of_file -> ());
  Printf.printf "DONE total=%d mismatches=%d\n" !total !bad
