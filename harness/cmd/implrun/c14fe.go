package main

import (
	"encoding/binary"

	"github.com/cloudflare/pat-go/ed25519"
	"verif/harness/internal/h"
)

// The GF(2^255-19) limb arithmetic (ed25519/internal/edwards25519/field) against Model/Fe.v, limb for limb.
// The theorems of Proofs/FeP.v say what the model's results mean (products, sums, canonical encodings modulo p)
// under which limb bounds; this leg ties the Go code to that model on elements across and beyond those bounds.

type feLimbs = [5]uint64

func feEnc(l feLimbs) []byte {
	out := make([]byte, 40)
	for i, u := range l {
		binary.LittleEndian.PutUint64(out[8*i:], u)
	}
	return out
}

// feLimb draws one limb of the given class.
func feLimb(c *h.Ctx, class int) uint64 {
	r := binary.LittleEndian.Uint64(rnd(c, 8))
	const m51 = uint64(1)<<51 - 1
	switch class {
	case 0: // reduced
		return r & m51
	case 1: // what carryPropagate leaves: below 2^51 + 2^13*19
		return (r & m51) + (r>>51)*19
	case 2: // the multiplication's tolerance: below 2^52
		return r & (uint64(1)<<52 - 1)
	case 3: // edges around 2^51
		e := []uint64{0, 1, 2, 18, 19, 20, m51 - 19, m51 - 18, m51 - 1, m51, m51 + 1, m51 + 19, m51 + 155647, m51 + 155648, 1<<52 - 38, 1<<52 - 2, 1<<52 - 1}
		return e[r%uint64(len(e))]
	case 4: // below 2^63
		return r >> 1
	default: // any uint64, edges included
		e := []uint64{^uint64(0), ^uint64(0) - 18, 1 << 63, 1<<63 - 1, r, r, r, r}
		return e[r%uint64(len(e))]
	}
}

func feElem(c *h.Ctx, class int) feLimbs {
	var l feLimbs
	for i := range l {
		k := class
		if class == 6 { // mixed: every limb its own class
			k = int(rnd(c, 1)[0]) % 4
		}
		l[i] = feLimb(c, k)
	}
	return l
}

func c14Field(c *h.Ctx, part int) {
	n := 16
	if c.Thorough() {
		n = 300
	}
	zero := feLimbs{}
	flagB := func(f int) []byte { return []byte{byte(f)} }
	run := func(cat, op string, a, b feLimbs, y uint32, raw []byte) (feLimbs, []byte, int, bool) {
		var out feLimbs
		var enc []byte
		var fl int
		pan, msg := h.Protect(func() { out, enc, fl = ed25519.VerifFe(op, a, b, y, raw) })
		if pan {
			c.Violation("the field arithmetic does not panic", map[string]any{"category": cat, "op": op, "a": h.Hex(feEnc(a)), "b": h.Hex(feEnc(b)), "panic": msg})
		}
		return out, enc, fl, !pan
	}
	// the p-multiples: elements that are zero in the field without being zero limbs
	pLimbs := feLimbs{1<<51 - 19, 1<<51 - 1, 1<<51 - 1, 1<<51 - 1, 1<<51 - 1}
	twoP := feLimbs{0xFFFFFFFFFFFDA, 0xFFFFFFFFFFFFE, 0xFFFFFFFFFFFFE, 0xFFFFFFFFFFFFE, 0xFFFFFFFFFFFFE}
	special := []feLimbs{zero, {1}, {2}, pLimbs, twoP, {1<<51 - 20, 1<<51 - 1, 1<<51 - 1, 1<<51 - 1, 1<<51 - 1}, {1<<51 - 18, 1<<51 - 1, 1<<51 - 1, 1<<51 - 1, 1<<51 - 1},
		{1<<51 - 1, 1<<51 - 1, 1<<51 - 1, 1<<51 - 1, 1<<51 - 1}, {1<<52 - 1, 1<<52 - 1, 1<<52 - 1, 1<<52 - 1, 1<<52 - 1}}
	for i := 0; i < n; i++ {
		// multiplication, squaring: inside the proved bounds (classes 0-3, mixed) and, less often, outside them (the model wraps as Go does)
		cls := []int{0, 1, 2, 3, 6, 6, 2, 3}[(i+part)%8]
		a, b := feElem(c, cls), feElem(c, []int{2, 3, 6, 0, 1, 6, 2, 3}[(i+part)%8])
		if i%9 == 4 {
			a = special[(i/9+part)%len(special)]
		}
		if i%11 == 5 {
			b = special[(i/11+part)%len(special)]
		}
		if i%13 == 7 {
			a = feElem(c, 5)
		}
		if out, _, _, ok := run("fe:mul", "mul", a, b, 0, nil); ok {
			c.Case("fe:mul", true, "fe_mul", [][]byte{feEnc(a), feEnc(b)}, [][]byte{feEnc(out)})
		}
		if out, _, _, ok := run("fe:square", "square", a, zero, 0, nil); ok {
			c.Case("fe:square", true, "fe_square", [][]byte{feEnc(a)}, [][]byte{feEnc(out)})
		}
		// addition, subtraction, negation, carry, reduce, encoding: any limbs
		wide := feElem(c, []int{4, 5, 3, 1, 6, 5}[(i+part)%6])
		wide2 := feElem(c, []int{4, 3, 1, 6, 2, 0}[(i+part)%6])
		if out, _, _, ok := run("fe:add", "add", wide, wide2, 0, nil); ok {
			c.Case("fe:add", true, "fe_add", [][]byte{feEnc(wide), feEnc(wide2)}, [][]byte{feEnc(out)})
		}
		if out, _, _, ok := run("fe:sub", "sub", wide, wide2, 0, nil); ok {
			c.Case("fe:sub", true, "fe_sub", [][]byte{feEnc(wide), feEnc(wide2)}, [][]byte{feEnc(out)})
		}
		if out, _, _, ok := run("fe:neg", "neg", a, zero, 0, nil); ok {
			c.Case("fe:neg", true, "fe_neg", [][]byte{feEnc(a)}, [][]byte{feEnc(out)})
		}
		if out, _, _, ok := run("fe:carry", "carry", wide, zero, 0, nil); ok {
			c.Case("fe:carry", true, "fe_carry", [][]byte{feEnc(wide)}, [][]byte{feEnc(out)})
		}
		for _, e := range []feLimbs{wide, a, special[(i+part)%len(special)]} {
			if out, _, _, ok := run("fe:reduce", "reduce", e, zero, 0, nil); ok {
				c.Case("fe:reduce", true, "fe_reduce", [][]byte{feEnc(e)}, [][]byte{feEnc(out)})
			}
			if _, enc, _, ok := run("fe:bytes", "bytes", e, zero, 0, nil); ok {
				c.Case("fe:bytes", true, "fe_bytes", [][]byte{feEnc(e)}, [][]byte{enc})
			}
			if _, _, fl, ok := run("fe:is-negative", "is_negative", e, zero, 0, nil); ok {
				c.Case("fe:is-negative", true, "fe_is_negative", [][]byte{feEnc(e)}, [][]byte{flagB(fl)})
			}
		}
		// Equal: equal values in different representations (x and x + p, x and carry(x)), and unequal ones
		{
			x := feElem(c, 0)
			xp := x
			for k := range xp {
				xp[k] += pLimbs[k]
			}
			for _, pr := range [][2]feLimbs{{x, xp}, {x, a}, {a, a}, {pLimbs, zero}, {twoP, zero}, {wide2, b}} {
				if _, _, fl, ok := run("fe:equal", "equal", pr[0], pr[1], 0, nil); ok {
					c.Case("fe:equal", true, "fe_equal", [][]byte{feEnc(pr[0]), feEnc(pr[1])}, [][]byte{flagB(fl)})
				}
			}
		}
		// SetBytes: any 32 bytes (bit 255 is ignored, values >= p are accepted unreduced)
		raw := rnd(c, 32)
		switch (i + part) % 5 {
		case 1:
			raw = bytesFF(32)
		case 2:
			raw = feBytesOfP(int64(i%40) - 20)
		case 3:
			raw[31] |= 0x80
		}
		if out, _, _, ok := run("fe:set-bytes", "set_bytes", zero, zero, 0, raw); ok {
			c.Case("fe:set-bytes", true, "fe_set_bytes", [][]byte{raw}, [][]byte{feEnc(out)})
		}
		y := binary.LittleEndian.Uint32(rnd(c, 4))
		if i%4 == 0 {
			y = []uint32{0, 1, 121666, 1<<32 - 1}[(i/4)%4]
		}
		if out, _, _, ok := run("fe:mult32", "mult32", a, zero, y, nil); ok {
			yb := make([]byte, 4)
			binary.LittleEndian.PutUint32(yb, y)
			c.Case("fe:mult32", true, "fe_mult32", [][]byte{feEnc(a), yb}, [][]byte{feEnc(out)})
		}
		for cond := 0; cond < 2; cond++ {
			if out, _, _, ok := run("fe:select", "select", a, b, uint32(cond), nil); ok {
				c.Case("fe:select", true, "fe_select", [][]byte{feEnc(a), feEnc(b), flagB(cond)}, [][]byte{feEnc(out)})
			}
			if out, enc, _, ok := run("fe:swap", "swap", a, b, uint32(cond), nil); ok {
				c.Case("fe:swap", true, "fe_swap", [][]byte{feEnc(a), feEnc(b), flagB(cond)}, [][]byte{feEnc(out), enc})
			}
		}
		if out, _, _, ok := run("fe:absolute", "absolute", a, zero, 0, nil); ok && a[0] < 1<<52 && a[1] < 1<<52 && a[2] < 1<<52 && a[3] < 1<<52 && a[4] < 1<<52 {
			c.Case("fe:absolute", true, "fe_absolute", [][]byte{feEnc(a)}, [][]byte{feEnc(out)})
		}
	}
	// the long chains (254 squarings each in the model): a few per run
	m := 2
	if c.Thorough() {
		m = 12
	}
	for i := 0; i < m; i++ {
		a := feElem(c, []int{0, 1, 2, 3}[(i+part)%4])
		if i == 0 && part < len(special) {
			a = special[part]
		}
		if out, _, _, ok := run("fe:invert", "invert", a, zero, 0, nil); ok {
			c.Case("fe:invert", true, "fe_invert", [][]byte{feEnc(a)}, [][]byte{feEnc(out)})
		}
		if out, _, _, ok := run("fe:pow22523", "pow22523", a, zero, 0, nil); ok {
			c.Case("fe:pow22523", true, "fe_pow22523", [][]byte{feEnc(a)}, [][]byte{feEnc(out)})
		}
		b := feElem(c, 1)
		if i%2 == 1 { // a ratio that is a square: u = a^2 * b
			sq, _, _, _ := run("fe:sqrt-ratio", "square", a, zero, 0, nil)
			u, _, _, _ := run("fe:sqrt-ratio", "mul", sq, b, 0, nil)
			a = u
		}
		if out, _, fl, ok := run("fe:sqrt-ratio", "sqrt_ratio", a, b, 0, nil); ok {
			c.Case("fe:sqrt-ratio", true, "fe_sqrt_ratio", [][]byte{feEnc(a), feEnc(b)}, [][]byte{feEnc(out), flagB(fl)})
		}
	}
}

// feBytesOfP returns the 32-byte little-endian encoding of p + d.
func feBytesOfP(d int64) []byte {
	out := bytesFF(32)
	out[31] = 0x7f
	v := int64(0xed) + d // low byte of p is 0xed; |d| is small enough to stay within two bytes
	out[0] = byte(v)
	if v < 0 {
		out[0] = byte(v + 256)
		out[1] = 0xfe
	} else if v > 255 {
		// p + d with carry into the all-ones bytes: wraps to 2^255 + small, i.e. bit 255 set and low bytes small
		for i := 1; i < 32; i++ {
			out[i] = 0
		}
		out[31] = 0x80
	}
	return out
}
