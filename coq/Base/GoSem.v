(** GoSem.v — the fragment of Go semantics the models need: a three-valued result
    (value / error return / run-time panic), slice expressions as partial operations. *)
From PatVerif Require Export Base.Bytes.

Inductive res (A : Type) : Type := Ok (a : A) | Err | Panic.
Arguments Ok {A} a. Arguments Err {A}. Arguments Panic {A}.

Definition bind {A B} (r : res A) (f : A -> res B) : res B :=
  match r with Ok a => f a | Err => Err | Panic => Panic end.
Notation "'do' x <- r ; k" := (bind r (fun x => k)) (at level 200, x pattern, r at level 100, k at level 200).

Definition is_panic {A} (r : res A) : bool := match r with Panic => true | _ => false end.
Definition is_ok {A} (r : res A) : bool := match r with Ok _ => true | _ => false end.

Definition of_option {A} (o : option A) : res A := match o with Some a => Ok a | None => Err end.

(** s[n:]  — panics when n > len s (we model len = cap unless said otherwise). *)
Definition slice_from (s : list byte) (n : nat) : res (list byte) :=
  if Nat.ltb (length s) n then Panic else Ok (skipn n s).
(** s[:n] *)
Definition slice_to (s : list byte) (n : nat) : res (list byte) :=
  if Nat.ltb (length s) n then Panic else Ok (firstn n s).
(** s[a:b] *)
Definition slice (s : list byte) (a b : nat) : res (list byte) :=
  if Nat.ltb b a || Nat.ltb (length s) b then Panic else Ok (firstn (b - a) (skipn a s)).
(** s[i] *)
Definition index (s : list byte) (i : nat) : res byte :=
  match nth_error s i with Some b => Ok b | None => Panic end.

(** Largest allocation Go's runtime accepts for make([]byte, n) on 64-bit: n <= maxAlloc = 2^47
    (beyond it: panic "makeslice: len out of range"). *)
Definition max_alloc : N := 140737488355328%N.
