package main

import (
	"bytes"
	"encoding/hex"
	"runtime"
	"sync"

	"github.com/cloudflare/pat-go/tokens/type3"
	"verif/harness/internal/h"
)

func init() { props["C09"] = runC09 }

type c09Client struct {
	secret []byte
	key    []byte // compressed client public key
	// per origin: a verified request and the issuer's blinded request key
	req   []*type3.RateLimitedTokenRequest
	blind [][]byte
	brk   [][]byte // blinded request key returned by issuer.Evaluate
	idx   [][]byte // anonymous issuer origin id (learned from a scratch attester)
	// a validly signed request of ANOTHER client, used for a failing VerifyRequest under this client's key
	foreignReq   *type3.RateLimitedTokenRequest
	foreignBlind []byte
}

type c09World struct {
	clients []*c09Client
	anons   [][]byte
}

func buildC09World(c *h.Ctx, nClients int) *c09World {
	shared := rnd(c, 48) // origins 0 and 1 share an index key -> same issuer origin id
	origins := []string{"a.example", "b.example", "c.example"}
	env := newT3(c, 0, rnd(c, 32), map[string][]byte{origins[0]: shared, origins[1]: shared, origins[2]: rnd(c, 48)})
	w := &c09World{anons: [][]byte{rnd(c, 32), rnd(c, 32), {}}} // the third anonymous origin ID is EMPTY (an absent header)
	for ci := 0; ci < nClients; ci++ {
		cl := &c09Client{secret: rnd(c, 48)}
		client := type3.NewRateLimitedClientFromSecret(cl.secret)
		for _, o := range origins {
			blind := rnd(c, 48)
			st, err := env.request(client, rnd(c, 16), rnd(c, 32), blind, o)
			if err != nil {
				panic(err)
			}
			cl.key = st.ClientKey()
			_, brk, err := env.issuer.Evaluate(st.Request().Marshal())
			if err != nil {
				panic(err)
			}
			scratch := type3.NewRateLimitedAttester(newRecCache())
			if err := scratch.VerifyRequest(*st.Request(), blind, cl.key, nil); err != nil {
				panic(err)
			}
			idx, err := scratch.FinalizeIndex(cl.key, blind, brk, []byte("x"))
			if err != nil {
				panic(err)
			}
			cl.req = append(cl.req, st.Request())
			cl.blind = append(cl.blind, blind)
			cl.brk = append(cl.brk, brk)
			cl.idx = append(cl.idx, idx)
		}
		w.clients = append(w.clients, cl)
	}
	for ci, cl := range w.clients {
		o := w.clients[(ci+1)%len(w.clients)]
		cl.foreignReq, cl.foreignBlind = o.req[0], o.blind[0]
	}
	return w
}

// letters: R c | B c | F c origin anon
type c09Op struct {
	kind          byte
	c, origin, an int
}

func (w *c09World) alphabet(nClients int) []c09Op {
	var a []c09Op
	for c := 0; c < nClients; c++ {
		a = append(a, c09Op{'R', c, 0, 0}, c09Op{'B', c, 0, 0})
		for o := 0; o < 3; o++ {
			for an := 0; an < len(w.anons); an++ {
				a = append(a, c09Op{'F', c, o, an})
			}
		}
	}
	return a
}

func (w *c09World) runHistory(c *h.Ctx, cat_ string, ops []c09Op) {
	cache := newRecCache()
	att := type3.NewRateLimitedAttester(cache)
	var args, outs [][]byte
	type acc struct{ c, idx, an string }
	accepted := map[[2]string]string{} // (client, idx) -> anon, tracked from the implementation's own answers
	registered := map[int]bool{}
	for _, op := range ops {
		cl := w.clients[op.c]
		switch op.kind {
		case 'R':
			err := att.VerifyRequest(*cl.req[0], cl.blind[0], cl.key, nil)
			args = append(args, cat([]byte{'R'}, cl.key))
			if err != nil {
				outs = append(outs, h.StNone)
				c.Violation("an authentic request is refused by VerifyRequest", map[string]any{"client": op.c})
			} else {
				outs = append(outs, h.StOK)
				registered[op.c] = true
			}
		case 'B': // validly signed by another client, presented under this client's key: must fail and change nothing
			err := att.VerifyRequest(*cl.foreignReq, cl.foreignBlind, cl.key, nil)
			args = append(args, cat([]byte{'B'}, cl.key))
			if err == nil {
				outs = append(outs, h.StOK)
			} else {
				outs = append(outs, h.StNone)
			}
		case 'F':
			idx, an := cl.idx[op.origin], w.anons[op.an]
			args = append(args, cat([]byte{'F'}, u16pfx(cl.key), u16pfx(idx), an))
			var got []byte
			var err error
			pan, msg := h.Protect(func() { got, err = att.FinalizeIndex(cl.key, cl.blind[op.origin], cl.brk[op.origin], an) })
			if pan {
				outs = append(outs, h.StPanic)
				c.Violation("FinalizeIndex panics", map[string]any{"panic": msg})
				continue
			}
			k := [2]string{string(cl.key), string(idx)}
			prev, bound := accepted[k]
			if err != nil {
				outs = append(outs, h.StNone)
				// predicate: rejected only if unregistered or a conflicting earlier accepted binding
				if registered[op.c] && (!bound || prev == string(an)) {
					c.Violation("a repeat of an accepted pair, or a pair whose issuer origin ID was still unbound, is rejected", map[string]any{"history": fmtOps(ops)})
				}
			} else {
				outs = append(outs, h.StOK, got)
				if !registered[op.c] {
					c.Violation("a client without a verified request is served", map[string]any{"history": fmtOps(ops)})
				}
				if bound && prev != string(an) {
					c.Violation("two different anonymous origin IDs accepted for one issuer origin ID of one client", map[string]any{"history": fmtOps(ops)})
				}
				if !bytes.Equal(got, idx) {
					c.Violation("FinalizeIndex returns different issuer origin IDs for the same client and origin", map[string]any{"history": fmtOps(ops)})
				}
				accepted[k] = string(an)
			}
		}
	}
	// final queries: every (client, idx) binding, through the snapshot hook
	for ci, cl := range w.clients {
		var ci_ map[string]string
		if st, ok := cache.m[hex.EncodeToString(cl.key)]; ok {
			_, ci_, _ = st.VerifSnapshot()
		}
		for o := 0; o < 3; o += 2 {
			idx := cl.idx[o]
			args = append(args, cat([]byte{'Q'}, u16pfx(cl.key), idx))
			if v, ok := ci_[hex.EncodeToString(idx)]; ok {
				b, _ := hex.DecodeString(v)
				outs = append(outs, h.StOK, b)
				if want, okk := accepted[[2]string{string(cl.key), string(idx)}]; !okk || want != string(b) {
					c.Violation("binding in the attester state differs from the accepted one (a rejected call altered state)", map[string]any{"history": fmtOps(ops), "client": ci})
				}
			} else {
				outs = append(outs, h.StNone)
				if _, okk := accepted[[2]string{string(cl.key), string(idx)}]; okk {
					c.Violation("an accepted binding is no longer in force", map[string]any{"history": fmtOps(ops), "client": ci})
				}
			}
		}
	}
	c.Case(cat_, len(ops) > 0, "attester_hist", args, outs)
}

func fmtOps(ops []c09Op) string {
	var b bytes.Buffer
	for _, o := range ops {
		b.WriteByte(o.kind)
		b.WriteByte('0' + byte(o.c))
		if o.kind == 'F' {
			b.WriteByte('o' + 0)
			b.WriteByte('0' + byte(o.origin))
			b.WriteByte('a' + byte(o.an))
		}
		b.WriteByte(' ')
	}
	return b.String()
}

func runC09(c *h.Ctx) {
	w := buildC09World(c, 3)
	// exhaustive short histories over two clients
	alpha := w.alphabet(2)
	maxLen := 3
	if c.Thorough() {
		maxLen = 4
	}
	var hist [][]c09Op
	var gen func(prefix []c09Op, l int)
	gen = func(prefix []c09Op, l int) {
		hist = append(hist, append([]c09Op{}, prefix...))
		if l == 0 {
			return
		}
		for _, a := range alpha {
			gen(append(prefix, a), l-1)
		}
	}
	gen(nil, maxLen)
	c.Notes["exhaustive_histories_up_to_length"] = maxLen
	c.Notes["alphabet_size"] = len(alpha)
	// random long histories over three clients
	alpha3 := w.alphabet(3)
	nr := 300
	if c.Thorough() {
		nr = 2000
	}
	var rhist [][]c09Op
	for i := 0; i < nr; i++ {
		n := 4 + c.Rng.Intn(37)
		hh := make([]c09Op, n)
		for j := range hh {
			hh[j] = alpha3[c.Rng.Intn(len(alpha3))]
		}
		rhist = append(rhist, hh)
	}
	run := func(cat_ string, hs [][]c09Op) {
		var wg sync.WaitGroup
		ch := make(chan []c09Op, 64)
		for i := 0; i < runtime.NumCPU(); i++ {
			wg.Add(1)
			go func() {
				defer wg.Done()
				for hh := range ch {
					w.runHistory(c, cat_, hh)
				}
			}()
		}
		for _, hh := range hs {
			ch <- hh
		}
		close(ch)
		wg.Wait()
	}
	run("history:exhaustive-short", hist)
	run("history:random-long", rhist)
	// anonymous origin IDs an implementation's bookkeeping might confuse with something else: the BYTES of an issuer
	// origin ID already bound for the client, IDs longer than an issuer origin ID that agree on their first 48 bytes
	// (and the 48-byte prefix itself). One client, every history up to length 4 over this alphabet; all clients, random.
	{
		c0 := w.clients[0]
		long := rnd(c, 48)
		w2 := &c09World{clients: w.clients, anons: [][]byte{w.anons[0], w.anons[1], c0.idx[0], c0.idx[2], cat(long, []byte("/origin-0001")), cat(long, []byte("/origin-0002")), long}}
		var a1 []c09Op
		a1 = append(a1, c09Op{'R', 0, 0, 0})
		for an := range w2.anons {
			a1 = append(a1, c09Op{'F', 0, 0, an})
		}
		a1 = append(a1, c09Op{'F', 0, 2, 0}, c09Op{'F', 0, 2, 3})
		var h2 [][]c09Op
		var gen2 func(prefix []c09Op, l int)
		gen2 = func(prefix []c09Op, l int) {
			if len(prefix) > 0 && prefix[0].kind == 'R' { // histories that start with the registration: the others are covered above
				h2 = append(h2, append([]c09Op{}, prefix...))
			}
			if l == 0 || (len(prefix) > 0 && prefix[0].kind != 'R') {
				return
			}
			for _, a := range a1 {
				gen2(append(prefix, a), l-1)
			}
		}
		ml := 4
		if c.Thorough() {
			ml = 5
		}
		gen2(nil, ml)
		alphaW2 := w2.alphabet(3)
		var r2 [][]c09Op
		for i := 0; i < nr/2; i++ {
			n := 4 + c.Rng.Intn(37)
			hh := make([]c09Op, n)
			for j := range hh {
				hh[j] = alphaW2[c.Rng.Intn(len(alphaW2))]
			}
			r2 = append(r2, hh)
		}
		wSaved := w
		w = w2
		run("history:confusable-ids-exhaustive", h2)
		run("history:confusable-ids-random", r2)
		w = wSaved
	}
	// two attesters with separate caches in one process: what one verified and bound is unknown to the other
	{
		cl := w.clients[0]
		c1, c2 := newRecCache(), newRecCache()
		a1, a2 := type3.NewRateLimitedAttester(c1), type3.NewRateLimitedAttester(c2)
		e1 := a1.VerifyRequest(*cl.req[0], cl.blind[0], cl.key, w.anons[0])
		_, f2 := a2.FinalizeIndex(cl.key, cl.blind[0], cl.brk[0], w.anons[0])
		_, f1 := a1.FinalizeIndex(cl.key, cl.blind[0], cl.brk[0], w.anons[0])
		c.Count("two-attesters", 3, "")
		if e1 != nil || f1 != nil {
			c.Violation("an honest verify + finalize at one attester fails", nil)
		}
		if f2 == nil || len(c2.m) != 0 {
			c.Violation("an attester refuses every client for which IT has not verified a request (another attester in the process verified it)", map[string]any{"second_attester_cache_entries": len(c2.m)})
		}
		// bound at attester 1 to anon 0; attester 2 (after its own verification) is free to bind anon 1
		e2 := a2.VerifyRequest(*cl.req[0], cl.blind[0], cl.key, w.anons[1])
		_, g2 := a2.FinalizeIndex(cl.key, cl.blind[0], cl.brk[0], w.anons[1])
		_, g1 := a1.FinalizeIndex(cl.key, cl.blind[0], cl.brk[0], w.anons[1])
		if e2 != nil || g2 != nil {
			c.Violation("a pair whose issuer origin ID is unbound at THIS attester is rejected (bound only at another attester)", nil)
		}
		if g1 == nil {
			c.Violation("two different anonymous origin IDs accepted for one issuer origin ID of one client", map[string]any{"history": "two attesters"})
		}
	}
	// one very long history of one client: a binding survives thousands of refused and accepted calls with fresh IDs
	{
		cl := w.clients[1]
		cache := newRecCache()
		att := type3.NewRateLimitedAttester(cache)
		n := 1500
		if c.Thorough() {
			n = 70000
		}
		att.VerifyRequest(*cl.req[0], cl.blind[0], cl.key, w.anons[0])
		_, e0 := att.FinalizeIndex(cl.key, cl.blind[0], cl.brk[0], w.anons[0])
		bad := 0
		for i := 0; i < n && bad < 3; i++ {
			fresh := sha256Bytes(h.U64(uint64(i)))
			// origin 0 is bound to anon 0: every fresh ID must be refused; origin 2 (other index key) takes its first
			// fresh ID and must refuse all later ones
			_, e := att.FinalizeIndex(cl.key, cl.blind[0], cl.brk[0], fresh)
			_, e2 := att.FinalizeIndex(cl.key, cl.blind[2], cl.brk[2], fresh)
			if e == nil || (i == 0) != (e2 == nil) {
				bad++
				c.Violation("a binding stays in force over a long history of requests with fresh anonymous origin IDs", map[string]any{"step": i, "origin0_accepted": e == nil, "origin2_accepted": e2 == nil})
			}
		}
		_, eAgain := att.FinalizeIndex(cl.key, cl.blind[0], cl.brk[0], w.anons[0])
		c.Count("history:very-long", 2*n+2, "")
		if e0 != nil || eAgain != nil {
			c.Violation("a repeat of an accepted pair is rejected after a long history", nil)
		}
	}
}
