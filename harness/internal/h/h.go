// Package h: shared plumbing of the correspondence harness — case files for the model
// runner, panic capture, statistics and violation records.
package h

import (
	"bufio"
	"crypto/sha1"
	"encoding/binary"
	"encoding/hex"
	"encoding/json"
	"fmt"
	"math/rand"
	"os"
	"os/exec"
	"path/filepath"
	"sort"
	"strings"
	"sync"
)

type Violation struct {
	Clause string         `json:"clause"`
	Detail map[string]any `json:"detail"`
}

type Ctx struct {
	Prop     string
	Tier     string
	Seed     int64
	Rng      *rand.Rand
	mu       sync.Mutex
	w        *bufio.Writer
	f        *os.File
	Cases    int            // lines written for model comparison
	Evals    int            // implementation executions (incl. predicate-only sweeps)
	Cats     map[string]int // input distribution
	Distinct map[string]struct{}
	Samples  []any
	Viol     []Violation
	Notes    map[string]any
	Mism     []Violation // disagreements between the model (asked as an oracle) and the implementation
	oracle   *exec.Cmd
	oin      *bufio.Writer
	oout     *bufio.Reader
	OracleN  int
}

// Model asks the extracted Coq model (bin/runner, one persistent process) for its answer to one call.
// The harness uses it where a model output has to be bridged to implementation values by an independent
// primitive (e.g. a model exponent turned into a curve point by the standard library).
func (c *Ctx) Model(name string, args ...[]byte) [][]byte {
	c.mu.Lock()
	defer c.mu.Unlock()
	if c.oracle == nil {
		exe, _ := os.Executable()
		path := os.Getenv("VERIF_RUNNER")
		if path == "" {
			path = filepath.Join(filepath.Dir(exe), "runner")
		}
		cmd := exec.Command(path)
		in, _ := cmd.StdinPipe()
		out, _ := cmd.StdoutPipe()
		cmd.Stderr = os.Stderr
		if err := cmd.Start(); err != nil {
			panic("cannot start model runner: " + err.Error())
		}
		c.oracle, c.oin, c.oout = cmd, bufio.NewWriter(in), bufio.NewReaderSize(out, 1<<20)
	}
	var sb strings.Builder
	sb.WriteString(name)
	for _, a := range args {
		sb.WriteByte(' ')
		sb.WriteString(Hex(a))
	}
	sb.WriteByte('\n')
	c.oin.WriteString(sb.String())
	c.oin.Flush()
	line, err := c.oout.ReadString('\n')
	if err != nil {
		panic("model runner died: " + err.Error())
	}
	c.OracleN++
	var outs [][]byte
	for _, f := range strings.Fields(line) {
		if f == "-" {
			outs = append(outs, []byte{})
			continue
		}
		b, err := hex.DecodeString(f)
		if err != nil {
			panic("model runner answered garbage: " + line)
		}
		outs = append(outs, b)
	}
	return outs
}

// Mismatch records a disagreement between a model answer and the implementation (correspondence, not predicate).
func (c *Ctx) Mismatch(clause string, detail map[string]any) {
	c.mu.Lock()
	defer c.mu.Unlock()
	if len(c.Mism) < 50 {
		c.Mism = append(c.Mism, Violation{clause, detail})
	}
}

func NewCtx(prop, tier string, seed int64, casesPath string) *Ctx {
	f, err := os.Create(casesPath)
	if err != nil {
		panic(err)
	}
	return &Ctx{Prop: prop, Tier: tier, Seed: seed, Rng: rand.New(rand.NewSource(seed)),
		w: bufio.NewWriterSize(f, 1<<20), f: f, Cats: map[string]int{}, Distinct: map[string]struct{}{},
		Notes: map[string]any{}}
}

// Parallel runs f on n sub-contexts concurrently. Each sub-context has its own PRNG (derived from the seed and its
// index, so runs replay exactly), its own case file and its own model oracle process; results are merged into c
// in index order afterwards.
func (c *Ctx) Parallel(n int, f func(i int, sub *Ctx)) {
	c.w.Flush()
	subs := make([]*Ctx, n)
	var wg sync.WaitGroup
	for i := 0; i < n; i++ {
		subs[i] = NewCtx(c.Prop, c.Tier, c.Seed*1000003+int64(i)+1, fmt.Sprintf("%s.part%d", c.f.Name(), i))
		wg.Add(1)
		go func(i int) {
			defer wg.Done()
			defer func() {
				if r := recover(); r != nil {
					subs[i].Violation("implementation panicked outside a protected call", map[string]any{"panic": fmt.Sprint(r)})
				}
			}()
			f(i, subs[i])
		}(i)
	}
	wg.Wait()
	for _, s := range subs {
		if s.oracle != nil {
			s.oin.Flush()
			s.oracle.Process.Kill()
			s.oracle.Wait()
		}
		s.w.Flush()
		s.f.Close()
		if b, err := os.ReadFile(s.f.Name()); err == nil {
			c.w.Write(b)
		}
		os.Remove(s.f.Name())
		c.Cases += s.Cases
		c.Evals += s.Evals
		c.OracleN += s.OracleN
		for k, v := range s.Cats {
			c.Cats[k] += v
		}
		for k := range s.Distinct {
			c.Distinct[k] = struct{}{}
		}
		for _, x := range s.Samples {
			if len(c.Samples) < 24 {
				c.Samples = append(c.Samples, x)
			}
		}
		c.Viol = append(c.Viol, s.Viol...)
		c.Mism = append(c.Mism, s.Mism...)
		for k, v := range s.Notes {
			c.Notes[k] = v
		}
	}
	if len(c.Viol) > 50 {
		c.Viol = c.Viol[:50]
	}
}

func (c *Ctx) Thorough() bool { return c.Tier == "thorough" }

func Hex(b []byte) string {
	if len(b) == 0 {
		return "-"
	}
	return hex.EncodeToString(b)
}

func U64(v uint64) []byte {
	b := make([]byte, 8)
	binary.BigEndian.PutUint64(b, v)
	return b
}

var (
	StNone  = []byte{0x00}
	StOK    = []byte{0x01}
	StPanic = []byte{0xff}
)

// Case records one model call with the implementation's observed answer.
// cat: input-distribution bucket; nontrivial: counted in distinct_nontrivial when true.
func (c *Ctx) Case(cat string, nontrivial bool, name string, args [][]byte, outs [][]byte) {
	var sb strings.Builder
	sb.WriteString(name)
	for _, a := range args {
		sb.WriteByte(' ')
		sb.WriteString(Hex(a))
	}
	key := sb.String()
	sb.WriteString(" |")
	for _, o := range outs {
		sb.WriteByte(' ')
		sb.WriteString(Hex(o))
	}
	c.mu.Lock()
	defer c.mu.Unlock()
	c.w.WriteString(sb.String())
	c.w.WriteByte('\n')
	c.Cases++
	c.Evals++
	c.Cats[cat]++
	if nontrivial {
		dk := key
		if len(dk) > 64 {
			sum := sha1.Sum([]byte(dk))
			dk = string(sum[:])
		}
		c.Distinct[dk] = struct{}{}
	}
	if len(c.Samples) < 12 && (c.Cases%97 == 1) {
		c.Samples = append(c.Samples, map[string]any{"call": truncate(key, 300), "impl": truncate(sb.String()[len(key):], 300), "category": cat})
	}
}

func truncate(s string, n int) string {
	if len(s) > n {
		return s[:n] + "..."
	}
	return s
}

// Count records predicate-only evaluations (no model line).
func (c *Ctx) Count(cat string, n int, distinctKey string) {
	c.mu.Lock()
	defer c.mu.Unlock()
	c.Evals += n
	c.Cats[cat] += n
	if distinctKey != "" {
		c.Distinct[distinctKey] = struct{}{}
	}
}

func (c *Ctx) Sample(s any) {
	c.mu.Lock()
	defer c.mu.Unlock()
	if len(c.Samples) < 24 {
		c.Samples = append(c.Samples, s)
	}
}

func (c *Ctx) Violation(clause string, detail map[string]any) {
	c.mu.Lock()
	defer c.mu.Unlock()
	if len(c.Viol) < 50 {
		c.Viol = append(c.Viol, Violation{clause, detail})
	}
}

// Protect runs f and reports whether it panicked.
func Protect(f func()) (panicked bool, msg string) {
	defer func() {
		if r := recover(); r != nil {
			panicked = true
			msg = fmt.Sprint(r)
		}
	}()
	f()
	return
}

func (c *Ctx) Finish(resultPath string) {
	if c.oracle != nil {
		c.oin.Flush()
		c.oracle.Process.Kill()
		c.oracle.Wait()
	}
	c.w.Flush()
	c.f.Close()
	cats := make([]string, 0, len(c.Cats))
	for k := range c.Cats {
		cats = append(cats, k)
	}
	sort.Strings(cats)
	res := map[string]any{
		"property": c.Prop, "tier": c.Tier, "seed": c.Seed,
		"cases": c.Cases, "evaluations": c.Evals, "distinct_nontrivial": len(c.Distinct),
		"categories": c.Cats, "samples": c.Samples, "violations": c.Viol, "notes": c.Notes,
		"model_mismatches": c.Mism, "oracle_calls": c.OracleN,
	}
	b, _ := json.MarshalIndent(res, "", " ")
	os.WriteFile(resultPath, b, 0o644)
}
