package main

import (
	"bytes"
	"crypto"
	stded "crypto/ed25519"
	"fmt"
	"math/big"
	"sync"

	"github.com/cloudflare/pat-go/ed25519"
	"verif/harness/internal/h"
	"verif/harness/internal/ref"
)

func init() { props["C14"] = runC14 }

func leBytes(v *big.Int, n int) []byte {
	be := make([]byte, n)
	new(big.Int).Set(v).FillBytes(be)
	out := make([]byte, n)
	for i := range be {
		out[n-1-i] = be[i]
	}
	return out
}

// c14Verify compares the fork, crypto/ed25519 and (model + math/big reference) on one (public key, message, signature).
type c14Scratch struct {
	key [32]byte
	sig [64]byte
}

var c14Bufs sync.Map // per worker context: the reused buffers

func c14Verify(c *h.Ctx, cat_ string, pk, msg, sig []byte) {
	std := stded.Verify(pk, msg, sig)
	det := map[string]any{"category": cat_, "public_key": h.Hex(pk), "message": h.Hex(msg), "signature": h.Hex(sig)}
	// first with key and signature handed over in buffers that are REUSED in place from call to call (a verifier that
	// remembers something about an earlier call by reference sees its own memory change under it)
	if len(pk) == 32 && len(sig) == 64 {
		bv, _ := c14Bufs.LoadOrStore(c, &c14Scratch{})
		sc := bv.(*c14Scratch)
		copy(sc.key[:], pk)
		copy(sc.sig[:], sig)
		var impl2 bool
		pan2, _ := h.Protect(func() { impl2 = ed25519.Verify(sc.key[:], msg, sc.sig[:]) })
		if pan2 || impl2 != std {
			det["fork_with_reused_buffers"], det["crypto/ed25519"] = impl2, std
			c.Violation("the verdict does not depend on earlier calls (key and signature passed in buffers reused in place)", det)
		}
	}
	var impl bool
	pan, pmsg := h.Protect(func() { impl = ed25519.Verify(pk, msg, sig) })
	c.Count(cat_, 1, h.Hex(pk)+h.Hex(sig)+h.Hex(msg))
	if pan {
		det["panic"] = pmsg
		c.Violation("Verify panics", det)
		return
	}
	if impl != std {
		det["fork"], det["crypto/ed25519"] = impl, std
		c.Violation("verification returns the standard library's verdict for every public key, message and byte string offered as a signature", det)
	}
	// the verdict recomputed from the model's checks and the reference group law
	want := false
	m := c.Model("ed_verify_pre", sig)
	if len(m) == 2 && m[0][0] == 1 && m[1][0] == 1 {
		if A, ok := ref.EdDecode(pk); ok {
			k := ref.LE(c.Model("ed_hram", sig[:32], pk, msg)[0])
			S := ref.LE(sig[32:])
			R := ref.EdBase().Mul(S).Add(A.Neg().Mul(k))
			want = bytes.Equal(R.Encode(), sig[:32])
		}
	}
	if impl != want {
		det["fork"], det["model"] = impl, want
		c.Mismatch("Verify vs model (length / early check / canonical S, SHA-512 challenge) + reference group law", det)
	}
}

func runC14(c0 *h.Ctx) {
	c0.Parallel(8, func(part int, c *h.Ctx) { runC14Part(c, part) })
}

func runC14Part(c *h.Ctx, part int) {
	c14Field(c, part)
	c14Points(c, part)
	if part < 2 || c.Thorough() {
		c14Digits(c, part)
	}
	if part == 0 {
		c14SeedInLargerBuffer(c)
	}
	L := ref.EdL()
	c14PatternedReductions(c, part, L)
	B := ref.EdBase()
	nSeeds := 6
	if c.Thorough() {
		nSeeds = 40
	}
	msgLens := []int{0, 1, 2, 31, 32, 33, 63, 64, 65, 111, 112, 113, 127, 128, 129, 255, 300, 4031, 4064, 4065, 4097, 8193, 70001}
	// --- key derivation and signing: byte equality with crypto/ed25519 and with the Coq pipeline ----------------------
	for si := 0; si < nSeeds; si++ {
		seed := rnd(c, 32)
		switch (si + part) % 6 {
		case 1:
			seed = make([]byte, 32)
		case 2:
			seed = bytesFF(32)
		}
		priv := ed25519.NewKeyFromSeed(seed)
		stdPriv := stded.NewKeyFromSeed(seed)
		if !bytes.Equal(priv, stdPriv) {
			c.Violation("key derivation produces exactly the bytes crypto/ed25519 produces", map[string]any{"seed": h.Hex(seed)})
			continue
		}
		pub := []byte(priv[32:])
		// --- the key types' methods, in lockstep with crypto/ed25519: Public, Seed, Equal, crypto.Signer -----------------
		{
			c.Count("api:key-methods", 6, h.Hex(seed))
			gp, ok1 := priv.Public().(ed25519.PublicKey)
			sp, ok2 := stdPriv.Public().(stded.PublicKey)
			if !ok1 || !ok2 || !bytes.Equal(gp, sp) || !bytes.Equal(priv.Seed(), stdPriv.Seed()) || !bytes.Equal(priv.Seed(), seed) {
				c.Violation("Public() and Seed() return what crypto/ed25519 returns", map[string]any{"seed": h.Hex(seed)})
			}
			// the returned slices are copies: writing to them does not change the key
			gp[0] ^= 1
			priv.Seed()[0] ^= 1
			if !bytes.Equal(priv, stdPriv) {
				c.Violation("Public() / Seed() hand out copies, not views of the private key", map[string]any{"seed": h.Hex(seed)})
			}
			other := ed25519.NewKeyFromSeed(rnd(c, 32))
			otherStd := stded.PrivateKey(append([]byte{}, other...))
			eq := []bool{priv.Equal(priv), priv.Equal(other), priv.Equal(ed25519.PrivateKey(append([]byte{}, priv...))), priv.Equal(stdPriv), priv.Equal([]byte(priv)),
				ed25519.PublicKey(pub).Equal(ed25519.PublicKey(append([]byte{}, pub...))), ed25519.PublicKey(pub).Equal(other.Public()), ed25519.PublicKey(pub).Equal(priv)}
			eqStd := []bool{stdPriv.Equal(stdPriv), stdPriv.Equal(otherStd), stdPriv.Equal(stded.PrivateKey(append([]byte{}, stdPriv...))), stdPriv.Equal(priv), stdPriv.Equal([]byte(stdPriv)),
				stded.PublicKey(pub).Equal(stded.PublicKey(append([]byte{}, pub...))), stded.PublicKey(pub).Equal(otherStd.Public()), stded.PublicKey(pub).Equal(stdPriv)}
			for i := range eq {
				if eq[i] != eqStd[i] {
					c.Violation("Equal agrees with crypto/ed25519 (same value / other value / copy / foreign type)", map[string]any{"case": i, "fork": eq[i], "std": eqStd[i]})
				}
			}
			msg := rnd(c, 33)
			for _, opt := range []crypto.SignerOpts{crypto.Hash(0), crypto.SHA512, crypto.SHA256, &stded.Options{}} {
				var s1, s2 []byte
				var e1, e2 error
				p1, _ := h.Protect(func() { s1, e1 = priv.Sign(nil, msg, opt) })
				p2, _ := h.Protect(func() { s2, e2 = stdPriv.Sign(nil, msg, opt) })
				// the fork predates Ed25519ph / Ed25519ctx: for plain Ed25519 options the outcome must be crypto/ed25519's
				if opt.HashFunc() == crypto.Hash(0) || opt.HashFunc() == crypto.SHA256 {
					if p1 != p2 || (e1 == nil) != (e2 == nil) || !bytes.Equal(s1, s2) {
						c.Violation("PrivateKey.Sign (crypto.Signer) agrees with crypto/ed25519 for unhashed messages and refuses pre-hashed ones", map[string]any{"hash": fmt.Sprint(opt.HashFunc()), "fork_err": fmt.Sprint(e1), "std_err": fmt.Sprint(e2)})
					}
				} else if !p1 && e1 == nil && !bytes.Equal(s1, s2) {
					c.Violation("PrivateKey.Sign with a pre-hash option returns a signature crypto/ed25519 does not produce", map[string]any{"hash": fmt.Sprint(opt.HashFunc())})
				}
			}
		}
		for _, ml := range msgLens {
			if !c.Thorough() && (ml+si+part)%2 != 0 && ml < 4000 {
				continue
			}
			if ml >= 4000 && si != 0 && !c.Thorough() {
				continue // long messages (fixed scratch buffers!) for the first seed of each part only in quick
			}
			msg := rnd(c, ml)
			sig := ed25519.Sign(priv, msg)
			stdSig := stded.Sign(stdPriv, msg)
			c.Count("sign:vs-stdlib", 1, h.Hex(seed)+h.Hex(msg))
			if !bytes.Equal(sig, stdSig) {
				c.Violation("signing produces exactly the bytes crypto/ed25519 produces", map[string]any{"seed": h.Hex(seed), "message": h.Hex(msg)})
			}
			if ml > 4100 {
				c14Verify(c, "verify:honest", pub, msg, sig)
				continue
			}
			m := c.Model("ed_sign_prep", seed, msg)
			a, nonce := ref.LE(m[0]), ref.LE(m[1])
			Aref := B.Mul(a).Encode()
			if !bytes.Equal(Aref, pub) {
				c.Violation("the public key is [clamp(SHA-512(seed)[0:32]) mod L]B", map[string]any{"seed": h.Hex(seed)})
			}
			if ml <= 4100 { // the Coq SHA-512 runs at about 20 kB/s: longer messages are compared with crypto/ed25519 only
				c.Case("sign:coq-pipeline", true, "ed_signature", [][]byte{B.Mul(nonce).Encode(), pub, msg, m[0], m[1]}, [][]byte{sig})
			}
			c14Verify(c, "verify:honest", pub, msg, sig)
			// non-canonical S variants of an honest signature
			S := ref.LE(sig[32:])
			for _, d := range []*big.Int{L, new(big.Int).Lsh(L, 1), new(big.Int).Mul(L, big.NewInt(3)), new(big.Int).Mul(L, big.NewInt(7)), new(big.Int).Mul(L, big.NewInt(15))} {
				v := new(big.Int).Add(S, d)
				if v.BitLen() <= 256 {
					c14Verify(c, "verify:S-plus-multiple-of-L", pub, msg, cat(sig[:32], leBytes(v, 32)))
				}
			}
			for _, hb := range []byte{0x20, 0x40, 0x80, 0xe0, 0x10} {
				t := append([]byte{}, sig...)
				t[63] |= hb
				c14Verify(c, "verify:S-high-bits", pub, msg, t)
			}
			for j := 0; j < 6; j++ {
				c14Verify(c, "verify:bit-flip", pub, msg, flipBit(sig, c.Rng.Intn(512)))
				c14Verify(c, "verify:bit-flip-key", flipBit(pub, c.Rng.Intn(256)), msg, sig)
			}
			c14Verify(c, "verify:wrong-length", pub, msg, sig[:63])
			c14Verify(c, "verify:wrong-length", pub, msg, cat(sig, []byte{0}))
			c14Verify(c, "verify:wrong-length", pub, msg, nil)
		}
	}
	if part != 0 {
		return
	}
	// --- the canonical-S boundary: S = L - 1, L, L + j (0 <= j <= 40), 2^252 +- 1, 2^253 - 1, ... under the identity key ----
	idKey := ref.EdIdentity().Encode()
	msg := []byte("boundary")
	two := big.NewInt(2)
	Svals := []*big.Int{big.NewInt(0), big.NewInt(1), new(big.Int).Sub(L, big.NewInt(1)), new(big.Int).Sub(new(big.Int).Exp(two, big.NewInt(252), nil), big.NewInt(1)),
		new(big.Int).Exp(two, big.NewInt(252), nil), new(big.Int).Sub(new(big.Int).Exp(two, big.NewInt(253), nil), big.NewInt(1)), new(big.Int).Sub(new(big.Int).Exp(two, big.NewInt(255), nil), big.NewInt(1)),
		new(big.Int).Sub(new(big.Int).Exp(two, big.NewInt(256), nil), big.NewInt(1))}
	for j := int64(0); j <= 40; j++ {
		Svals = append(Svals, new(big.Int).Add(L, big.NewInt(j)))
	}
	for b := 0; b < 32; b++ { // L with one byte bumped: exercises every byte position of the comparison loop
		up := new(big.Int).Add(new(big.Int).Sub(L, big.NewInt(1)), new(big.Int).Lsh(big.NewInt(1), uint(8*b)))
		dn := new(big.Int).Sub(new(big.Int).Sub(L, big.NewInt(1)), new(big.Int).Lsh(big.NewInt(1), uint(8*b)))
		if up.BitLen() <= 256 {
			Svals = append(Svals, up)
		}
		if dn.Sign() >= 0 {
			Svals = append(Svals, dn)
		}
	}
	for _, S := range Svals {
		// with the identity public key the equation is [S]B = R: R = [S mod L]B makes every S "algebraically valid"
		R := B.Mul(new(big.Int).Mod(S, L)).Encode()
		sig := cat(R, leBytes(S, 32))
		c14Verify(c, "verify:canonical-S-boundary", idKey, msg, sig)
		sb := leBytes(S, 32)
		st := h.StNone
		if _, err := ed25519.VerifScalarSetCanonicalBytes(sb); err == nil {
			st = h.StOK
		}
		c.Case("scalar:is-reduced", true, "ed_is_reduced", [][]byte{sb}, [][]byte{st})
	}
	// --- small-order and non-canonical points as R and as A --------------------------------------------------------------
	p, _ := new(big.Int).SetString("7fffffffffffffffffffffffffffffffffffffffffffffffffffffffffffffed", 16)
	var special [][]byte
	for _, y := range []*big.Int{big.NewInt(0), big.NewInt(1), new(big.Int).Sub(p, big.NewInt(1)), p, new(big.Int).Add(p, big.NewInt(1)), new(big.Int).Add(p, big.NewInt(2)), new(big.Int).Add(p, big.NewInt(18)),
		new(big.Int).Sub(new(big.Int).Lsh(big.NewInt(1), 255), big.NewInt(1))} {
		for _, sign := range []byte{0, 0x80} {
			e := leBytes(y, 32)
			e[31] |= sign
			special = append(special, e)
		}
	}
	// the order-8 points: y with x^2 = ... computed by the reference from the torsion generator
	for _, hx := range []string{"c7176a703d4dd84fba3c0b760d10670f2a2053fa2c39ccc64ec7fd7792ac037a", "26e8958fc2b227b045c3f489f2ef98f0d5dfac05d3c63339b13802886d53fc05"} {
		b := unhex(hx)
		special = append(special, b)
		nb := append([]byte{}, b...)
		nb[31] ^= 0x80
		special = append(special, nb)
	}
	seed := rnd(c, 32)
	priv := ed25519.NewKeyFromSeed(seed)
	pub := []byte(priv[32:])
	honest := ed25519.Sign(priv, msg)
	for _, sp := range special {
		// as R with an honest S; as A with an honest signature; as A with S crafted so that the cofactorless equation holds
		c14Verify(c, "verify:special-R", pub, msg, cat(sp, honest[32:]))
		c14Verify(c, "verify:special-A", sp, msg, honest)
		for _, sp2 := range special[:8] {
			c14Verify(c, "verify:special-R-and-A", sp, msg, cat(sp2, make([]byte, 32)))
		}
		if A, ok := ref.EdDecode(sp); ok {
			// choose nonce n, R = [n]B; S = n works iff [k]A = identity; try a few messages to hit k = 0 mod ord(A)
			for t := 0; t < 24; t++ {
				n := new(big.Int).SetBytes(rnd(c, 31))
				R := B.Mul(n).Encode()
				mm := []byte{byte(t)}
				k := ref.LE(c.Model("ed_hram", R, sp, mm)[0])
				if A.Mul(k).Equal(ref.EdIdentity()) {
					c14Verify(c, "verify:small-order-A-crafted-valid", sp, mm, cat(R, leBytes(n, 32)))
				} else {
					c14Verify(c, "verify:small-order-A-crafted", sp, mm, cat(R, leBytes(n, 32)))
				}
			}
			// mixed-order key: honest key + small-order point
			Ah, _ := ref.EdDecode(pub)
			c14Verify(c, "verify:mixed-order-A", Ah.Add(A).Encode(), msg, honest)
		}
	}
	for j := 0; j < 200; j++ {
		c14Verify(c, "verify:random", rnd(c, 32), rnd(c, 8), rnd(c, 64))
	}
	// --- scalar arithmetic of the fork (hooks) vs Z mod L in Coq, carry-stress inputs -----------------------------------
	stress := []*big.Int{big.NewInt(0), big.NewInt(1), new(big.Int).Sub(L, big.NewInt(1)), new(big.Int).Sub(L, big.NewInt(2)), new(big.Int).Rsh(L, 1), new(big.Int).Exp(two, big.NewInt(252), nil),
		new(big.Int).Sub(new(big.Int).Exp(two, big.NewInt(252), nil), big.NewInt(1)), new(big.Int).Exp(two, big.NewInt(128), nil), new(big.Int).Sub(new(big.Int).Exp(two, big.NewInt(126), nil), big.NewInt(1))}
	for j := 0; j < 12; j++ {
		stress = append(stress, new(big.Int).Mod(new(big.Int).SetBytes(rnd(c, 40)), L))
	}
	// scalars whose INVERSE is short (leading zero bytes in the result of ModInverse)
	for _, bits := range []int{1, 2, 8, 9, 64, 128, 200, 232, 239, 240, 241, 247, 248} {
		v := new(big.Int).Lsh(big.NewInt(1), uint(bits-1))
		v.Add(v, new(big.Int).Mod(new(big.Int).SetBytes(rnd(c, 30)), v))
		x := new(big.Int).ModInverse(v, L)
		if x != nil {
			stress = append(stress, x)
		}
	}
	for _, x := range stress {
		for _, y := range stress {
			z := stress[c.Rng.Intn(len(stress))]
			xb, yb, zb := leBytes(x, 32), leBytes(y, 32), leBytes(z, 32)
			c.Case("scalar:mul-add", true, "ed_mul_add", [][]byte{xb, yb, zb}, [][]byte{ed25519.VerifScalarMulAdd(xb, yb, zb)})
		}
		if x.Sign() != 0 {
			xb := leBytes(x, 32)
			inv := ed25519.VerifScalarModInverse(xb)
			c.Case("scalar:inverse-times-self", true, "ed_mul_add", [][]byte{xb, inv, make([]byte, 32)}, [][]byte{leBytes(big.NewInt(1), 32)})
		}
	}
	wide := [][]byte{make([]byte, 64), bytesFF(64), cat(bytesFF(32), make([]byte, 32)), cat(make([]byte, 32), bytesFF(32)), cat(leBytes(L, 32), make([]byte, 32)), cat(make([]byte, 32), leBytes(L, 32))}
	for j := 0; j < 40; j++ {
		wide = append(wide, rnd(c, 64))
	}
	// two-parameter structured 512-bit values (2^a +- 2^b, and their neighbours): rare carry patterns of the reduction;
	// volume against math/big directly (the Coq model takes the sample above)
	{
		one := big.NewInt(1)
		step := 3
		if c.Thorough() {
			step = 1
		}
		bad := 0
		for a := part % step; a < 512 && bad < 5; a += step {
			for b := 0; b < a && bad < 5; b++ {
				for sgn := 0; sgn < 2; sgn++ {
					v := new(big.Int).Lsh(one, uint(a))
					if sgn == 0 {
						v.Add(v, new(big.Int).Lsh(one, uint(b)))
					} else {
						v.Sub(v, new(big.Int).Lsh(one, uint(b)))
					}
					w := leBytes(v, 64)
					got := ed25519.VerifScalarSetUniformBytes(w)
					want := leBytes(new(big.Int).Mod(v, L), 32)
					if !bytes.Equal(got, want) {
						bad++
						c.Violation("reduction of a 512-bit value modulo L (2^a +- 2^b)", map[string]any{"a": a, "b": b, "minus": sgn == 1, "got": h.Hex(got), "want": h.Hex(want)})
					}
					if a < 256 {
						got32 := ed25519.VerifScalarSetBytes(w[:32])
						if !bytes.Equal(got32, want) {
							bad++
							c.Violation("reduction of a 256-bit value modulo L (2^a +- 2^b)", map[string]any{"a": a, "b": b, "minus": sgn == 1})
						}
					}
				}
			}
		}
		c.Count("scalar:reduce-structured-vs-math/big", 512*511/step, fmt.Sprint(part))
	}
	for _, w := range wide {
		c.Case("scalar:reduce-64", true, "ed_reduce", [][]byte{w}, [][]byte{ed25519.VerifScalarSetUniformBytes(w)})
		c.Case("scalar:reduce-32", true, "ed_reduce", [][]byte{w[:32]}, [][]byte{ed25519.VerifScalarSetBytes(w[:32])})
		c.Case("scalar:clamp", true, "ed_clamp", [][]byte{w[:32]}, [][]byte{ed25519.VerifScalarSetBytesWithClamping(w[:32])})
	}
	// --- GenerateKey under failing / chunked readers, in lockstep with crypto/ed25519 -------------------------------------
	chunkings := [][]int{nil, {1}, {7}, {16}, {31, 2}, {32}, {33}, {64}, {5, 1, 40}}
	for avail := 0; avail <= 70; avail++ {
		for _, ch := range chunkings {
			data := rnd(c, avail)
			fr1 := &failingReader{data: data, chunks: ch}
			fr2 := &failingReader{data: data, chunks: ch}
			pub1, priv1, err1 := ed25519.GenerateKey(fr1)
			pub2, priv2, err2 := stded.GenerateKey(fr2)
			det := map[string]any{"available": avail, "chunks": ch}
			if (err1 == nil) != (err2 == nil) || !bytes.Equal(pub1, pub2) || !bytes.Equal(priv1, priv2) || fr1.pos != fr2.pos {
				c.Violation("key generation consumes the entropy reader identically to crypto/ed25519 (key, error, bytes consumed)", det)
			}
			if err1 != nil && (pub1 != nil || priv1 != nil) {
				c.Violation("key generation returns an error together with a key", det)
			}
			// second key from the same reader: still in lockstep
			if err1 == nil {
				p1, _, e1 := ed25519.GenerateKey(fr1)
				p2, _, e2 := stded.GenerateKey(fr2)
				if (e1 == nil) != (e2 == nil) || !bytes.Equal(p1, p2) || fr1.pos != fr2.pos {
					c.Violation("a second key generation from the same reader stays in lockstep with crypto/ed25519", det)
				}
			}
			var script [][]byte
			for pos, i := 0, 0; pos < avail; i++ {
				n := avail - pos
				if len(ch) > 0 {
					if k := ch[i%len(ch)]; k < n {
						n = k
					}
				}
				script = append(script, cat([]byte{'D'}, data[pos:pos+n]))
				pos += n
			}
			script = append(script, []byte{'F'})
			st, got := h.StNone, []byte{}
			if err1 == nil {
				st, got = h.StOK, []byte(priv1[:32])
			}
			c.Case("entropy:GenerateKey", true, "ed_keygen_entropy", script, [][]byte{st, got})
		}
	}
}
