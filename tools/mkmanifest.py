#!/usr/bin/env python3
"""Regenerate MANIFEST.json from props_meta.json (claimed = has 'level_text')."""
import json, subprocess, os
R = os.path.dirname(os.path.dirname(os.path.abspath(__file__)))
meta = json.load(open(os.path.join(R, "props_meta.json")))
ids = ["C%02d" % i for i in range(1, 21)]
na_reasons = json.load(open(os.path.join(R, "tools", "not_applicable.json"))) if os.path.exists(os.path.join(R, "tools", "not_applicable.json")) else {}
checks = []
for pid in ids:
    m = meta.get(pid)
    if not m or "level_text" not in m:
        continue
    checks.append({"property_id": pid, "quick_cmd": "./check %s --tier quick" % pid, "thorough_cmd": "./check %s --tier thorough" % pid,
                   "evidence_file": "/verif/evidence/%s.json" % pid, "replay_cmd_template": "./check %s --replay {path}" % pid,
                   "engine": "coq-proof+correspondence",
                   "level_claimed": {"category": "proof", "text": m["level_text"], "design_ref": "DESIGN.md §5 " + pid},
                   "level_note": m["level_note"], "technique": m.get("technique", "Rocq/Coq proof over an executable Gallina model + differential correspondence check against the Go code")})
claimed = {c["property_id"] for c in checks}
hooks = subprocess.check_output("git -C /repo log --format=%h --grep='^verif hooks' 30573e9..HEAD", shell=True, text=True).split()
man = {"version": 1, "setup_cmd": "./setup.sh",
       "hooks": {"guard": "verif", "enable": "go build -tags verif (harness module: replace github.com/cloudflare/pat-go => /repo)",
                 "baseline_off_cmd": "cd /repo && GOFLAGS=-mod=mod GOPROXY=off GOSUMDB=off GOTOOLCHAIN=local go test -vet=off -count=1 ./...",
                 "source_commits": hooks, "add_only": True},
       "engines": [{"name": "coq-proof+correspondence", "path": "/verif/check", "serves_properties": sorted(claimed),
                    "kind_free_text": "Coq 8.16.1 theorems over hand-written executable Gallina models (coq/), extracted to OCaml (bin/runner) and compared with the Go implementation run by harness/cmd/implrun (built with -tags verif from /repo's working tree) on the same generated cases; property predicates re-evaluated on the implementation with independent oracles"}],
       "checks": checks,
       "notes": "See DESIGN.md. known_findings.json lists fixed defects (fix: commits in /repo) and open findings.",
       "not_applicable": [{"property_id": i, "reason": na_reasons.get(i, "check still under construction in this session (model and theorems not yet committed); will be claimed once built")} for i in ids if i not in claimed]}
json.dump(man, open(os.path.join(R, "MANIFEST.json"), "w"), indent=1)
print("claimed:", sorted(claimed))
