(** Radix16P.v — signedRadix16 represents the scalar: sum d_i 16^i = the little-endian value of the 32 bytes, every
    digit but the last lies in [-8, 8), the last in [0, 8] when the top bit of the scalar is clear (the panic condition
    of the Go function), and no intermediate value leaves the int8 range. *)
From Coq Require Import ZArith NArith List Lia ZifyN ZifyNat ZifyBool.
From PatVerif Require Import Model.Radix16.
Import ListNotations.
Open Scope Z_scope.
Ltac Zify.zify_post_hook ::= Z.div_mod_to_equations.

Fixpoint eval16 (ds : list Z) : Z := match ds with [] => 0 | d :: r => d + 16 * eval16 r end.

Fixpoint le_valz (s : list byte) : Z := match s with [] => 0 | b :: r => Z.of_N (b2n b) + 256 * le_valz r end.

Lemma land15 n : Z.of_N (N.land n 15) = Z.of_N n mod 16.
Proof. change 15%N with (N.ones 4). rewrite N.land_ones. change (2 ^ 4)%N with 16%N. now rewrite N2Z.inj_mod. Qed.
Lemma shr4 n : Z.of_N (N.shiftr n 4) = Z.of_N n / 16.
Proof. rewrite N.shiftr_div_pow2. change (2 ^ 4)%N with 16%N. now rewrite N2Z.inj_div. Qed.

Lemma nibbles_eval s : eval16 (nibbles s) = le_valz s.
Proof.
  induction s as [|b r IH]; [reflexivity|].
  cbn [nibbles flat_map app eval16 le_valz]. fold (nibbles r). rewrite IH, !land15, shr4.
  pose proof (b2n_lt b). lia.
Qed.

Lemma nibbles_range s : Forall (fun d => 0 <= d < 16) (nibbles s).
Proof.
  induction s as [|b r IH]; [constructor|]. cbn [nibbles flat_map app]. fold (nibbles r).
  constructor; [rewrite land15; lia|]. constructor; [rewrite land15; lia | exact IH].
Qed.

Lemma shiftr4 x : Z.shiftr x 4 = x / 16. Proof. now rewrite Z.shiftr_div_pow2 by lia. Qed.
Lemma shiftl4 x : Z.shiftl x 4 = x * 16. Proof. now rewrite Z.shiftl_mul_pow2 by lia. Qed.

(** recentering preserves the value (with the incoming carry added at the lowest place) *)
Lemma recenter_eval ds : forall c, ds <> [] -> eval16 (recenter c ds) = c + eval16 ds.
Proof.
  induction ds as [|d rest IH]; intros c Hne; [congruence|].
  cbn [recenter]. destruct rest as [|d2 rest'].
  - cbn [eval16]. lia.
  - cbn [eval16] in *. rewrite IH by discriminate. rewrite shiftr4, shiftl4. cbn [eval16]. lia.
Qed.

(** ranges: with digits in [0,16) and a carry in [0,1], every recentered digit but the last is in [-8,8), the carries
    stay in [0,1], the intermediate d+carry+8 stays below 2^7, and the last digit is its nibble plus a carry in [0,1] *)
Lemma recenter_range ds : forall c, 0 <= c <= 1 -> Forall (fun d => 0 <= d < 16) ds ->
  Forall (fun d => -8 <= d <= 16) (recenter c ds) /\
  (forall k, (S k < length ds)%nat -> -8 <= nth k (recenter c ds) 0 < 8) /\
  (ds <> [] -> exists c', 0 <= c' <= 1 /\ last (recenter c ds) 0 = last ds 0 + c').
Proof.
  induction ds as [|d rest IH]; intros c Hc Hd.
  - split; [constructor|]. split; [intros k Hk; cbn in Hk; lia | congruence].
  - inversion Hd as [|? ? Hd0 Hrest]; subst. cbn [recenter]. destruct rest as [|d2 rest'].
    + split; [constructor; [lia|constructor]|]. split; [intros k Hk; cbn in Hk; lia|].
      intros _. exists c. cbn. split; [exact Hc|reflexivity].
    + set (c2 := Z.shiftr (d + c + 8) 4). assert (Hc2 : 0 <= c2 <= 1) by (subst c2; rewrite shiftr4; lia).
      destruct (IH c2 Hc2 Hrest) as (R1 & R2 & R3).
      assert (D0 : -8 <= d + c - Z.shiftl c2 4 < 8) by (subst c2; rewrite shiftr4, shiftl4; lia).
      split; [constructor; [lia|exact R1]|]. split.
      * intros [|k] Hk; cbn [nth]; [exact D0|]. apply R2. cbn [length] in *. lia.
      * intros _. destruct (R3 ltac:(discriminate)) as (c' & Hc' & E). exists c'. split; [exact Hc'|].
        assert (Hne2 : recenter c2 (d2 :: rest') <> []) by (cbn [recenter]; destruct rest'; discriminate).
        destruct (recenter c2 (d2 :: rest')) as [|y ys] eqn:Er; [congruence|].
        change (last (y :: ys) 0 = last (d2 :: rest') 0 + c'). exact E.
Qed.

Lemma nibbles_length s : length (nibbles s) = (2 * length s)%nat.
Proof. induction s as [|b r IH]; [reflexivity|]. cbn [nibbles flat_map app length]. fold (nibbles r). lia. Qed.

Lemma last_nibble s b : last (nibbles (s ++ [b])) 0 = Z.of_N (b2n b) / 16.
Proof.
  induction s as [|x r IH].
  - cbn [app nibbles flat_map last]. rewrite land15, shr4. pose proof (b2n_lt b). lia.
  - cbn [app nibbles flat_map]. fold (nibbles (r ++ [b])).
    destruct (nibbles (r ++ [b])) eqn:E; [pose proof (nibbles_length (r ++ [b])) as L; rewrite E, app_length in L; cbn in L; lia|].
    exact IH.
Qed.

Theorem signed_radix16_spec s : s <> [] ->
  eval16 (signed_radix16 s) = le_valz s /\
  length (signed_radix16 s) = (2 * length s)%nat /\
  (forall k, (S k < 2 * length s)%nat -> -8 <= nth k (signed_radix16 s) 0 < 8) /\
  (forall r b, s = r ++ [b] -> (b2n b <= 127)%N -> 0 <= last (signed_radix16 s) 0 <= 8).
Proof.
  intro Hne. unfold signed_radix16.
  assert (Hn : nibbles s <> []) by (intro E; pose proof (nibbles_length s) as L; rewrite E in L; destruct s; [congruence|cbn in L; lia]).
  destruct (recenter_range (nibbles s) 0 ltac:(lia) (nibbles_range s)) as (R1 & R2 & R3).
  split; [rewrite recenter_eval by exact Hn; rewrite nibbles_eval; lia|].
  split.
  { assert (L : forall ds c, length (recenter c ds) = length ds).
    { induction ds as [|d rest IH]; intro c; [reflexivity|]. cbn [recenter]. destruct rest; [reflexivity|]. cbn [length]. now rewrite IH. }
    rewrite L. apply nibbles_length. }
  split; [intros k Hk; apply R2; now rewrite nibbles_length|].
  intros r b -> Hb. destruct (R3 Hn) as (c' & Hc' & E). rewrite E, last_nibble. lia.
Qed.

From PatVerif Require Import Model.Derive Proofs.FeP.
Open Scope Z_scope.
Lemma le_valz_eq s : le_valz s = Z.of_N (le_val s).
Proof.
  induction s as [|b r IH]; [reflexivity|]. cbn [le_valz]. rewrite le_val_cons, IH.
  change (2 ^ 8)%N with 256%N. lia.
Qed.

(** the statement about the scalar's 32 bytes: 64 digits, value preserved, all but the last in [-8,8), the last in [0,8]
    for scalars below 2^255 *)
Theorem signed_radix16_of_scalar s : length s = 32%nat -> (b2n (nth 31 s x00) <= 127)%N ->
  length (signed_radix16 s) = 64%nat /\
  eval16 (signed_radix16 s) = Z.of_N (le_val s) /\
  (forall k, (k < 63)%nat -> -8 <= nth k (signed_radix16 s) 0 < 8) /\
  0 <= nth 63 (signed_radix16 s) 0 <= 8.
Proof.
  intros Hl Hb. assert (Hne : s <> []) by (destruct s; [discriminate|congruence]).
  destruct (signed_radix16_spec s Hne) as (V & L & R & Last). rewrite Hl in *.
  split; [exact L|]. split; [rewrite V; apply le_valz_eq|]. split; [intros k Hk; apply R; lia|].
  assert (Hs : s = firstn 31 s ++ [nth 31 s x00]).
  { rewrite <- (firstn_skipn 31 s) at 1. f_equal.
    do 31 (destruct s as [|? s]; [discriminate|]). destruct s as [|y s]; [discriminate|]. destruct s; [reflexivity|discriminate]. }
  specialize (Last _ _ Hs Hb).
  assert (E : last (signed_radix16 s) 0 = nth 63 (signed_radix16 s) 0).
  { generalize L. generalize (signed_radix16 s). intros l Hl64.
    do 64 (destruct l as [|? l]; [discriminate|]). destruct l; [reflexivity|discriminate]. }
  rewrite <- E. exact Last.
Qed.
