(** C20 — origin names are recovered exactly; their length leaks only in 32-byte buckets. *)
From PatVerif Require Import Model.Pad Proofs.PadP.

Theorem unpad_pad : forall name, ends_nonzero name -> unpad (pad name) = name.
Proof. exact unpad_pad_l. Qed.
Print Assumptions unpad_pad.

(** a request is served exactly when its own name is registered — never for a similar name *)
Theorem served_iff_registered : forall name registered, ends_nonzero name ->
  (served name registered = true <-> In name registered).
Proof. exact served_iff_l. Qed.
Print Assumptions served_iff_registered.

Theorem recovered_name_injective : forall a b, ends_nonzero a -> ends_nonzero b -> (unpad (pad a) = b <-> a = b).
Proof. exact unpad_pad_inj_l. Qed.
Print Assumptions recovered_name_injective.

Theorem pad_length : forall name, length (pad name) = (32 * blocks (length name))%nat.
Proof. exact pad_length_l. Qed.
Print Assumptions pad_length.

Theorem empty_name_one_block : blocks 0 = 1%nat.
Proof. exact blocks_empty. Qed.

Theorem wire_len_buckets : forall n, request_wire_len n = (488 + 32 * blocks n)%nat.
Proof. exact wire_len_l. Qed.
Print Assumptions wire_len_buckets.

Theorem same_blocks_same_length : forall n m, blocks n = blocks m -> request_wire_len n = request_wire_len m.
Proof. exact wire_len_same_blocks_l. Qed.
Print Assumptions same_blocks_same_length.

(** ... and the length reveals exactly the block count: equal lengths iff equal block counts *)
Theorem length_reveals_exactly_blocks : forall n m, request_wire_len n = request_wire_len m <-> blocks n = blocks m.
Proof. exact wire_len_iff_blocks_l. Qed.
Print Assumptions length_reveals_exactly_blocks.

(** [blocks n] is "the number of 32-byte blocks needed to hold the name": the least k >= 1 with n <= 32 k *)
Theorem blocks_is_least : forall n, (1 <= blocks n /\ n <= 32 * blocks n)%nat /\
  forall k, (1 <= k)%nat -> (n <= 32 * k)%nat -> (blocks n <= k)%nat.
Proof. exact blocks_least_l. Qed.
Print Assumptions blocks_is_least.

(** what is sealed is the name itself followed by at most 32 zero bytes — no other byte is added or changed *)
Theorem pad_shape : forall name, exists z, pad name = name ++ repeat x00 z /\ (z <= 32)%nat /\
  firstn (length name) (pad name) = name.
Proof. exact pad_shape_l. Qed.
Print Assumptions pad_shape.

(** the side condition "does not end in a zero byte" cannot be dropped *)
Theorem zero_suffix_names_collide : exists a b, a <> b /\ unpad (pad a) = unpad (pad b).
Proof. exact zero_suffix_collides. Qed.
Print Assumptions zero_suffix_names_collide.

(** the issuer does not run the specification-level [unpad] but a loop over indices (unpadOriginName, transcribed with
    its index arithmetic as Model/Frontends.v unpad_go and executed against the code): on EVERY byte string the loop
    computes exactly [unpad], so every theorem above is a theorem about what the issuer executes *)
From PatVerif Require Import Model.Frontends Proofs.UnpadP.
Theorem issuer_loop_is_unpad : forall p, unpad_go p = Ok (unpad p).
Proof. exact unpad_go_eq_l. Qed.
Print Assumptions issuer_loop_is_unpad.
Theorem issuer_loop_recovers_name : forall name, ends_nonzero name -> unpad_go (pad name) = Ok name.
Proof. exact unpad_go_pad_l. Qed.
Print Assumptions issuer_loop_recovers_name.
